(** C14 — lemmas about the builder model. *)
From V.Lib Require Import Base MachInt.
From V.Gen Require Import C14Consts.
From V.C14 Require Import Model Spec.
From Coq Require Import Permutation ZifyBool.
Local Open Scope Z_scope.

(* ------------------------------------------------------------ generic helpers *)
Lemma zsum_app a b : zsum (a ++ b) = zsum a + zsum b.
Proof. unfold zsum. induction a as [|x a IH]; cbn [app fold_right]; lia. Qed.

Lemma zsum_map_opp l : zsum (map Z.opp l) = - zsum l.
Proof. unfold zsum. induction l as [|x l IH]; cbn [map fold_right]; lia. Qed.

Lemma zsum_repeat0 k : zsum (repeat 0 k) = 0.
Proof. unfold zsum. induction k; cbn [repeat fold_right]; lia. Qed.

Lemma nonempty_false {A} (l : list A) : nonempty l = false -> l = [].
Proof. destruct l; [reflexivity|discriminate]. Qed.

Lemma len_nil {A} : len (@nil A) = 0.
Proof. reflexivity. Qed.

Lemma len_nonneg {A} (l : list A) : 0 <= len l.
Proof. unfold len. lia. Qed.

Lemma len_pos_nonempty {A} (l : list A) : 0 < len l -> nonempty l = true.
Proof. destruct l; [cbn; lia|reflexivity]. Qed.

Lemma len_zero_nil {A} (l : list A) : len l = 0 -> l = [].
Proof. destruct l; [reflexivity|unfold len; cbn [length]; lia]. Qed.

Lemma len_app {A} (a b : list A) : len (a ++ b) = len a + len b.
Proof. unfold len. rewrite app_length. lia. Qed.

Lemma len_repeat {A} (x : A) k : len (repeat x k) = Z.of_nat k.
Proof. unfold len. now rewrite repeat_length. Qed.

(* ------------------------------------------------------------ sorting *)
Lemma zinsert_perm x l : Permutation (zinsert x l) (x :: l).
Proof.
  induction l as [|y l IH]; cbn [zinsert]; [reflexivity|].
  destruct (x <=? y); [reflexivity|].
  rewrite IH. apply perm_swap.
Qed.

Lemma zsort_perm l : Permutation (zsort l) l.
Proof.
  unfold zsort. induction l as [|x l IH]; cbn [fold_right]; [reflexivity|].
  rewrite zinsert_perm. now constructor.
Qed.

Lemma zsort_length l : length (zsort l) = length l.
Proof. apply Permutation_length, zsort_perm. Qed.

(* ------------------------------------------------------------ checked sums are exact *)
Lemma zat_sum_from_exact l : forall acc x, zat_sum_from acc l = Some x -> x = acc + zsum l.
Proof.
  unfold zsum. induction l as [|y l IH]; intros acc x H; cbn [zat_sum_from fold_right] in *.
  - inversion H. lia.
  - destruct (acc + y <=? MAX_MONEY); [|discriminate]. apply IH in H. lia.
Qed.
Lemma zat_sum_exact l x : zat_sum l = Some x -> x = zsum l.
Proof. intros H. apply zat_sum_from_exact in H. lia. Qed.

Lemma vsum_from_exact l : forall acc x, vsum_from acc l = Some x -> x = acc + zsum l.
Proof.
  unfold zsum. induction l as [|y l IH]; intros acc x H; cbn [vsum_from fold_right] in *.
  - inversion H. lia.
  - destruct (in_range (- u64_max) u64_max (acc + y)); [|discriminate]. apply IH in H. lia.
Qed.
Lemma orchard_balance_exact sp outs v :
  orchard_balance sp outs = Some v -> v = zsum sp - zsum outs /\ in_bal v = true.
Proof.
  unfold orchard_balance, in_bal. intros H.
  destruct (vsum_from 0 (sp ++ map Z.opp outs)) as [w|] eqn:E; [|discriminate].
  destruct (in_range (- MAX_MONEY) MAX_MONEY w) eqn:R; [|discriminate].
  inversion H; subst w. apply vsum_from_exact in E.
  rewrite zsum_app, zsum_map_opp in E. split; [lia|exact R].
Qed.

(* ------------------------------------------------------------ the calls *)
(** a call that needs a bundle builder is only accepted when that builder exists *)
Definition avail (r : req) (o : op) : bool :=
  match o with
  | SSpend _ | SOut _ => e_sap (env_of r)
  | OSpend _ | OOut _ | OChange _ => e_orc (env_of r)
  | ISpend _ _ | IOut _ => e_iw (env_of r)
  | _ => true
  end.

Lemma step_err_avail r done o : step_err r done o = None -> avail r o = true.
Proof.
  unfold step_err, avail.
  destruct (is_deferred r && negb (deferred_op o)); [discriminate|].
  generalize (e_sap (env_of r)) (e_orc (env_of r)) (e_iw (env_of r)) (e_cross (env_of r)) (r_coinbase r).
  intros a b c d cb.
  destruct o; try reflexivity; destruct a, b, c, d, cb; cbn [negb andb]; try reflexivity; try congruence;
    try (destruct nv3; cbn [negb]; congruence).
Qed.

Lemma run_ops_ok r : forall todo done hd i hd',
  run_ops r done todo hd i = Ok hd' ->
  hd' = fold_left step_hdr todo hd /\ Forall (fun o => avail r o = true) todo.
Proof.
  induction todo as [|o todo IH]; intros done hd i hd' H; cbn [run_ops fold_left] in *.
  - inversion H. split; [reflexivity|constructor].
  - destruct (step_err r done o) eqn:E; [discriminate|].
    apply IH in H. destruct H as [H1 H2]. split; [exact H1|].
    constructor; [eapply step_err_avail; eauto|exact H2].
Qed.

Lemma avail_no_sapling r ops :
  Forall (fun o => avail r o = true) ops -> e_sap (env_of r) = false ->
  ss_vals ops = [] /\ so_vals ops = [].
Proof.
  intros F E. unfold ss_vals, so_vals.
  induction F as [|o l Ho F IH]; [split; reflexivity|].
  destruct IH as [I1 I2]. cbn [flat_map]. rewrite I1, I2.
  destruct o; cbn in *; try (split; reflexivity); congruence.
Qed.
Lemma avail_no_orchard r ops :
  Forall (fun o => avail r o = true) ops -> e_orc (env_of r) = false ->
  os_vals ops = [] /\ oo_vals ops = [] /\ oc_vals ops = [].
Proof.
  intros F E. unfold os_vals, oo_vals, oc_vals.
  induction F as [|o l Ho F IH]; [repeat split; reflexivity|].
  destruct IH as (I1 & I2 & I3). cbn [flat_map]. rewrite I1, I2, I3.
  destruct o; cbn in *; try (repeat split; reflexivity); congruence.
Qed.
Lemma avail_no_ironwood r ops :
  Forall (fun o => avail r o = true) ops -> e_iw (env_of r) = false ->
  is_vals ops = [] /\ io_vals ops = [].
Proof.
  intros F E. unfold is_vals, io_vals.
  induction F as [|o l Ho F IH]; [split; reflexivity|].
  destruct IH as [I1 I2]. cbn [flat_map]. rewrite I1, I2.
  destruct o; cbn in *; try (split; reflexivity); congruence.
Qed.

(** the header after the calls is what the caller asked for *)
Lemma fold_step_hdr ops : forall v e,
  fold_left step_hdr ops (v, e) =
  (fold_left (fun v o => match o with Propose w => w | _ => v end) ops v,
   fold_left (fun e o => match o with Expiry h => h | _ => e end) ops e).
Proof.
  induction ops as [|o ops IH]; intros v e; cbn [fold_left]; [reflexivity|].
  destruct o; cbn [step_hdr fst snd]; apply IH.
Qed.

(* ------------------------------------------------------------ padding rules *)
Lemma sapling_num_spends_id n : 0 <= n -> sapling_num_spends n = n.
Proof. unfold sapling_num_spends. intros. destruct (0 <? n) eqn:E; lia. Qed.

Lemma sapling_num_outputs_ge s o : 0 <= s -> 0 <= o ->
  o <= sapling_num_outputs s o /\ 0 <= sapling_num_outputs s o.
Proof.
  unfold sapling_num_outputs, MIN_SHIELDED_OUTPUTS. intros.
  destruct ((0 <? s) || (0 <? o)) eqn:E; lia.
Qed.
Lemma sapling_num_outputs_zero s o : 0 <= s -> 0 <= o ->
  s + sapling_num_outputs s o <= 0 -> s = 0 /\ o = 0.
Proof.
  unfold sapling_num_outputs, MIN_SHIELDED_OUTPUTS. intros.
  destruct ((0 <? s) || (0 <? o)) eqn:E; lia.
Qed.

Lemma orchard_num_actions_ge p c s o : 0 <= s -> 0 <= o ->
  s <= orchard_num_actions p c s o /\ o <= orchard_num_actions p c s o.
Proof.
  unfold orchard_num_actions. intros.
  destruct c; destruct (p_req p); cbn [orb]; try destruct (0 <? _) eqn:E; lia.
Qed.
Lemma orchard_num_actions_zero p c s o : 0 <= s -> 0 <= o ->
  orchard_num_actions p c s o <= 0 -> s = 0 /\ o = 0.
Proof. intros Hs Ho H. pose proof (orchard_num_actions_ge p c s o Hs Ho). lia. Qed.
Lemma orchard_num_actions_unused p c : p_req p = false -> orchard_num_actions p c 0 0 = 0.
Proof. unfold orchard_num_actions. intros ->. destruct c; reflexivity. Qed.

(* ------------------------------------------------------------ boolean equality is reflexive *)
Lemma list_eqb_refl {A} (f : A -> A -> bool) (l : list A) :
  (forall a, f a a = true) -> list_eqb f l l = true.
Proof. intros H. induction l as [|x l IH]; cbn; [reflexivity|]. now rewrite H, IH. Qed.
Lemma lz_refl l : list_eqb Z.eqb l l = true.
Proof. apply list_eqb_refl, Z.eqb_refl. Qed.
Lemma lzz_refl l : list_eqb pair_z_eqb l l = true.
Proof. apply list_eqb_refl. intros [a b]. unfold pair_z_eqb, pair_eqb. cbn. now rewrite !Z.eqb_refl. Qed.

(* ------------------------------------------------------------ padded value lists *)
Lemma padded_length vals n : len vals <= n -> len (zsort (padded vals n)) = n.
Proof.
  intros H. unfold len at 1. rewrite zsort_length. unfold padded, zeros.
  rewrite app_length, repeat_length. unfold len in *. lia.
Qed.

Lemma padding_ofb_padded vals n : len vals <= n -> padding_ofb vals (zsort (padded vals n)) = true.
Proof.
  intros H. unfold padding_ofb. rewrite zsort_length.
  assert (L : length (padded vals n) = (length vals + Z.to_nat (n - len vals))%nat).
  { unfold padded, zeros. now rewrite app_length, repeat_length. }
  rewrite L. apply andb_true_intro. split.
  - apply Nat.leb_le. lia.
  - replace (length vals + Z.to_nat (n - len vals) - length vals)%nat with (Z.to_nat (n - len vals)) by lia.
    unfold padded, zeros. apply lz_refl.
Qed.

Lemma padding_ofb_sound req obs : padding_ofb req obs = true -> padding_of req obs.
Proof.
  unfold padding_ofb, padding_of. intros H. apply andb_prop in H. destruct H as [_ H].
  apply (proj1 (list_eqb_spec Z.eqb Z.eqb_eq _ _)) in H.
  exists (length obs - length req)%nat. rewrite H at 1. apply zsort_perm.
Qed.

Lemma pool_okb_bundle known nsp nout vb sp outs :
  len sp <= nsp -> len outs <= nout -> vb = zsum sp - zsum outs ->
  pool_okb (Some (mk_bundle known nsp nout vb sp outs)) sp outs = true.
Proof.
  intros H1 H2 ->. unfold pool_okb, mk_bundle. cbn [sb_nsp sb_nout sb_vb sb_spv sb_outv].
  destruct known.
  - rewrite !padded_length, !padding_ofb_padded by assumption. rewrite !Z.eqb_refl. cbn. lia.
  - rewrite Z.eqb_refl. cbn. lia.
Qed.

(* ------------------------------------------------------------ the signing step *)
Lemma sign_check_err ow keys ks e : sign_check ow keys ks = Err e -> e = ETransparentBuild.
Proof.
  induction ks as [|k ks IH]; cbn [sign_check]; intros H.
  - destruct ow; discriminate.
  - destruct k as [|m n|].
    + destruct ow; [auto|discriminate].
    + destruct (negb ow); [discriminate|]. destruct (p2sh_signable keys (m, n)); [auto|now inversion H].
    + now inversion H.
Qed.
Lemma sign_check_panic ow keys ks : sign_check ow keys ks = Panic -> ow = false.
Proof.
  induction ks as [|k ks IH]; cbn [sign_check]; intros H.
  - destruct ow; [discriminate|reflexivity].
  - destruct k as [|m n|].
    + destruct ow; [auto|reflexivity].
    + destruct ow; [|reflexivity]. cbn [negb] in H. destruct (p2sh_signable keys (m, n)); [auto|discriminate].
    + discriminate.
Qed.
Lemma sign_check_ok ow keys ks u : sign_check ow keys ks = Ok u ->
  ow = true /\ forallb (signable_kind keys) ks = true.
Proof.
  induction ks as [|k ks IH]; cbn [sign_check forallb]; intros H.
  - destruct ow; [auto|discriminate].
  - destruct k as [|m n|].
    + destruct ow; [|discriminate]. apply IH in H. cbn [signable_kind andb]. tauto.
    + destruct ow; [|discriminate]. cbn [negb] in H. cbn [signable_kind].
      destruct (p2sh_signable keys (m, n)); [|discriminate]. apply IH in H. cbn [andb]. tauto.
    + discriminate.
Qed.

(* ------------------------------------------------------------ inversion of a successful build *)
Definition route_ok (r : req) (hd : ver * Z) : Prop :=
  match r_route r with
  | Pczt | Deferred => e_sap (env_of r) && negb (zip212_on (r_net r) (r_height r)) = false
  | _ => has_overwinter (fst hd) = true /\
         forallb (signable_kind (r_keys r)) (tkinds (r_ops r)) = true
  end.

Lemma finish_ok_inv r hd b : finish r hd = Ok b ->
  exists fee,
    fee_required (r_rule r) (req_shape r) = Some fee /\
    check_version r (r_ops r) (fst hd) = None /\
    value_balance r = Ok fee /\
    b = assemble r hd fee /\ route_ok r hd.
Proof.
  unfold finish, route_ok. intros H.
  destruct (fee_required (r_rule r) (req_shape r)) as [fee|] eqn:F; [|discriminate].
  destruct (check_version r (r_ops r) (fst hd)) eqn:C; [discriminate|].
  destruct (value_balance r) as [bal| |] eqn:V; try discriminate.
  destruct (bal - fee <? - MAX_MONEY) eqn:E1; [discriminate|].
  destruct (bal - fee <? 0) eqn:E2; [discriminate|].
  destruct (0 <? bal - fee) eqn:E3; [discriminate|].
  assert (bal = fee) by lia. subst bal.
  exists fee.
  assert (G : b = assemble r hd fee /\
              match r_route r with
              | Pczt | Deferred => e_sap (env_of r) && negb (zip212_on (r_net r) (r_height r)) = false
              | _ => has_overwinter (fst hd) = true /\
                     forallb (signable_kind (r_keys r)) (tkinds (r_ops r)) = true
              end).
  { destruct (r_route r).
    - destruct (sign_check _ _ _) as [u| |] eqn:SC; try discriminate.
      apply sign_check_ok in SC. inversion H. auto.
    - destruct (sign_check _ _ _) as [u| |] eqn:SC; try discriminate.
      apply sign_check_ok in SC. inversion H. auto.
    - destruct (e_sap (env_of r) && negb (zip212_on (r_net r) (r_height r)));
        [discriminate|inversion H; auto].
    - destruct (e_sap (env_of r) && negb (zip212_on (r_net r) (r_height r)));
        [discriminate|inversion H; auto]. }
  destruct G as [G1 G2]. repeat split; auto.
Qed.

Lemma build_ok_inv r b : r_coinbase r = false -> build r = Ok b ->
  exists hd fee,
    run_ops r [] (r_ops r) (init_hdr r) 0 = Ok hd /\
    fee_required (r_rule r) (req_shape r) = Some fee /\
    check_version r (r_ops r) (fst hd) = None /\
    value_balance r = Ok fee /\
    b = assemble r hd fee /\ route_ok r hd.
Proof.
  unfold build. intros CB H. destruct (deferral_refused r); [discriminate|].
  destruct (run_ops r [] (r_ops r) (init_hdr r) 0) as [hd| |] eqn:R; try discriminate.
  rewrite CB in H. apply finish_ok_inv in H. destruct H as (fee & H). exists hd, fee. tauto.
Qed.

Lemma fee_required_some ru s fee : fee_required ru s = Some fee -> fee = rule_fee ru s /\ fee <= MAX_MONEY.
Proof.
  unfold fee_required. destruct (match ru with RZip317 => has_unknown_size s | RLin _ => false end); [discriminate|].
  destruct (rule_fee ru s <=? MAX_MONEY) eqn:E; [|discriminate].
  intros H; inversion H. split; [reflexivity|lia].
Qed.

(* ------------------------------------------------------------ the value balance is exact *)
Lemma value_balance_exact r bal :
  Forall (fun o => avail r o = true) (r_ops r) ->
  value_balance r = Ok bal -> bal = requested_balance (r_ops r).
Proof.
  intros F. unfold value_balance, requested_balance.
  destruct (zat_sum (tin_vals (r_ops r))) as [i|] eqn:Ei; [|discriminate].
  destruct (zat_sum (map fst (tout_vs (r_ops r)))) as [o|] eqn:Eo; [|discriminate].
  apply zat_sum_exact in Ei, Eo.
  destruct (negb (in_bal (if e_sap (env_of r) then sapling_balance (r_ops r) else 0))); [discriminate|].
  assert (S : (if e_sap (env_of r) then sapling_balance (r_ops r) else 0)
              = zsum (ss_vals (r_ops r)) - zsum (so_vals (r_ops r))).
  { destruct (e_sap (env_of r)) eqn:E; [reflexivity|].
    destruct (avail_no_sapling r _ F E) as [-> ->]. reflexivity. }
  rewrite S.
  assert (O : forall ob, (if e_orc (env_of r)
                then orchard_balance (os_vals (r_ops r)) (oo_vals (r_ops r) ++ oc_vals (r_ops r))
                else Some 0) = Some ob ->
              ob = zsum (os_vals (r_ops r)) - zsum (oo_vals (r_ops r)) - zsum (oc_vals (r_ops r))).
  { intros ob. destruct (e_orc (env_of r)) eqn:E.
    - intros H. apply orchard_balance_exact in H. rewrite zsum_app in H. lia.
    - destruct (avail_no_orchard r _ F E) as (-> & -> & ->). intros H; inversion H. reflexivity. }
  assert (I : forall ib, (if e_iw (env_of r)
                then orchard_balance (is_vals (r_ops r)) (io_vals (r_ops r)) else Some 0) = Some ib ->
              ib = zsum (is_vals (r_ops r)) - zsum (io_vals (r_ops r))).
  { intros ib. destruct (e_iw (env_of r)) eqn:E.
    - intros H. apply orchard_balance_exact in H. lia.
    - destruct (avail_no_ironwood r _ F E) as (-> & ->). intros H; inversion H. reflexivity. }
  destruct (if e_orc (env_of r) then _ else _) as [ob|]; [|discriminate].
  destruct (if e_iw (env_of r) then _ else _) as [ib|]; [|discriminate].
  specialize (O ob eq_refl). specialize (I ib eq_refl).
  destruct (in_bal _ && in_bal _ && in_bal _); [|discriminate].
  intros H; inversion H. lia.
Qed.

(* ------------------------------------------------------------ version check characterisation *)
Lemma check_version_none r ops v : check_version r ops v = None ->
  let br := e_branch (env_of r) in
  valid_in_branch v br = true /\
  (sapling_in_use ops = true -> has_sapling v && branch_has_sapling br = true) /\
  (orchard_in_use r ops = true -> has_orchard v && branch_has_orchard br = true) /\
  (ironwood_in_use r ops = true -> has_ironwood v && branch_has_ironwood br = true).
Proof.
  unfold check_version. cbn zeta. intros H.
  destruct (valid_in_branch v (e_branch (env_of r))); [|discriminate]. cbn [negb] in H.
  destruct (has_sapling v && branch_has_sapling (e_branch (env_of r))) eqn:S;
    cbn [negb andb] in H; [|destruct (sapling_in_use ops) eqn:S'; [discriminate|]];
  (destruct (has_orchard v && branch_has_orchard (e_branch (env_of r))) eqn:O;
    cbn [negb andb] in H; [|destruct (orchard_in_use r ops) eqn:O'; [discriminate|]]);
  (destruct (has_ironwood v && branch_has_ironwood (e_branch (env_of r))) eqn:I;
    cbn [negb andb] in H; [|destruct (ironwood_in_use r ops) eqn:I'; [discriminate|]]);
  repeat split; intros; congruence.
Qed.

Lemma env_iw r : e_iw (env_of r) =
  if r_coinbase r then branch_has_ironwood (branch_at (r_net r) (r_height r))
  else is_deferred r || r_iw r && branch_has_ironwood (branch_at (r_net r) (r_height r)).
Proof. unfold env_of. cbn [e_iw]. destruct (branch_at (r_net r) (r_height r)); reflexivity. Qed.
Lemma env_orc r : e_orc (env_of r) =
  if r_coinbase r
  then branch_has_orchard (branch_at (r_net r) (r_height r)) && negb (branch_has_ironwood (branch_at (r_net r) (r_height r)))
  else is_deferred r || r_orc r && branch_has_orchard (branch_at (r_net r) (r_height r)).
Proof. reflexivity. Qed.

Lemma in_use_implies_needs r ops :
  (orchard_in_use r ops = true -> needs_orchard r ops = true) /\
  (ironwood_in_use r ops = true -> needs_ironwood r ops = true).
Proof.
  unfold orchard_in_use, needs_orchard, ironwood_in_use, needs_ironwood.
  rewrite env_iw, env_orc. split; intros H; apply andb_prop in H; destruct H as [H1 H2].
  - destruct (nonempty (os_vals ops) || nonempty (oo_vals ops) || nonempty (oc_vals ops)) eqn:E;
      [reflexivity|]. cbn [orb] in *. apply andb_prop in H2. destruct H2 as [H2 H3].
    destruct (r_coinbase r); [discriminate|]. rewrite H1, H3. reflexivity.
  - destruct (nonempty (is_vals ops) || nonempty (io_vals ops)) eqn:E; [reflexivity|].
    cbn [orb] in *. apply andb_prop in H2. destruct H2 as [H2 H3].
    destruct (r_coinbase r); [discriminate|]. rewrite H1, H3. reflexivity.
Qed.

Lemma check_version_some r ops v e : check_version r ops v = Some e ->
  (exists p, e = ETarget v p) /\ version_refusable r ops v = true.
Proof.
  unfold check_version, version_refusable.
  change (e_branch (env_of r)) with (branch_at (r_net r) (r_height r)).
  set (br := branch_at (r_net r) (r_height r)).
  destruct (in_use_implies_needs r ops) as [No Ni].
  intros H.
  destruct (valid_in_branch v br) eqn:Vb; cbn [negb] in H.
  2:{ inversion H. split; [eauto|reflexivity]. }
  cbn [orb].
  destruct (negb (has_sapling v && branch_has_sapling br) && sapling_in_use ops) eqn:S.
  { inversion H. split; [eauto|]. unfold needs_sapling. unfold sapling_in_use in S.
    rewrite andb_comm in S. rewrite S. reflexivity. }
  destruct (negb (has_orchard v && branch_has_orchard br) && orchard_in_use r ops) eqn:O.
  { inversion H. split; [eauto|]. apply andb_prop in O. destruct O as [O1 O2].
    rewrite (No O2), O1. cbn [andb]. now rewrite orb_true_r. }
  destruct (negb (has_ironwood v && branch_has_ironwood br) && ironwood_in_use r ops) eqn:I; [|discriminate].
  inversion H. split; [eauto|]. apply andb_prop in I. destruct I as [I1 I2].
  rewrite (Ni I2), I1. cbn [andb]. now rewrite orb_true_r.
Qed.

(* ------------------------------------------------------------ what a successful build contains *)
Section Assembled.
  Variable r : req.
  Variable hd : ver * Z.
  Variable fee : Z.
  Hypothesis F : Forall (fun o => avail r o = true) (r_ops r).
  Hypothesis C : check_version r (r_ops r) (fst hd) = None.
  Hypothesis NCB : r_coinbase r = false.
  Let ops := r_ops r.
  Let e := env_of r.
  Let b := assemble r hd fee.

  (** a pool whose version support is missing holds nothing and is not required *)
  Lemma iw_unsupported : e_iw e = true -> has_ironwood (fst hd) = false ->
    is_vals ops = [] /\ io_vals ops = [] /\ p_req (r_ipad r) = false.
  Proof.
    intros Ei Hv. destruct (check_version_none _ _ _ C) as (_ & _ & _ & Hi).
    destruct (ironwood_in_use r (r_ops r)) eqn:U.
    - specialize (Hi eq_refl). rewrite Hv in Hi. discriminate.
    - unfold ironwood_in_use in U. fold e in U. rewrite Ei, NCB in U. cbn [andb negb] in U.
      apply orb_false_elim in U. destruct U as [U U3]. apply orb_false_elim in U. destruct U as [U1 U2].
      apply nonempty_false in U1, U2. subst ops. now rewrite U1, U2.
  Qed.

  Lemma orc_not_in_use : e_orc e = true -> orchard_in_use r ops = false ->
    os_vals ops = [] /\ oo_vals ops = [] /\ oc_vals ops = [] /\ p_req (r_opad r) = false.
  Proof.
    intros Eo U. unfold orchard_in_use in U. fold e in U. rewrite Eo, NCB in U. cbn [andb negb] in U.
    apply orb_false_elim in U. destruct U as [U U4]. apply orb_false_elim in U. destruct U as [U U3].
    apply orb_false_elim in U. destruct U as [U1 U2].
    apply nonempty_false in U1, U2, U3. auto.
  Qed.
  Lemma iw_not_in_use : e_iw e = true -> ironwood_in_use r ops = false ->
    is_vals ops = [] /\ io_vals ops = [] /\ p_req (r_ipad r) = false.
  Proof.
    intros Ei U. unfold ironwood_in_use in U. fold e in U. rewrite Ei, NCB in U. cbn [andb negb] in U.
    apply orb_false_elim in U. destruct U as [U U3]. apply orb_false_elim in U. destruct U as [U1 U2].
    apply nonempty_false in U1, U2. auto.
  Qed.
  Lemma not_deferred_of_orc : e_orc e = false -> is_deferred r = false.
  Proof. subst e. rewrite env_orc, NCB. intros H. apply orb_false_elim in H. tauto. Qed.
  Lemma not_deferred_of_iw : e_iw e = false -> is_deferred r = false.
  Proof. subst e. rewrite env_iw, NCB. intros H. apply orb_false_elim in H. tauto. Qed.

  Lemma sap_facts :
    bundle_vb (b_sap b) = zsum (ss_vals ops) - zsum (so_vals ops) /\
    b_nsp (b_sap b) = sh_sin (req_shape r) /\ b_nout (b_sap b) = sh_sout (req_shape r) /\
    pool_okb (b_sap b) (ss_vals ops) (so_vals ops) = true.
  Proof.
    subst b. unfold assemble. cbn [b_sap]. fold e ops.
    pose proof (len_nonneg (ss_vals ops)) as Ls. pose proof (len_nonneg (so_vals ops)) as Lo.
    assert (Sin : sh_sin (req_shape r) = len (ss_vals ops)) by reflexivity.
    assert (Sout : sh_sout (req_shape r)
                   = if e_sap e then sapling_num_outputs (len (ss_vals ops)) (len (so_vals ops)) else 0)
      by reflexivity.
    rewrite Sin.
    destruct (e_sap e) eqn:Es.
    - rewrite Sout. rewrite sapling_num_spends_id by assumption.
      destruct (sapling_num_outputs_ge (len (ss_vals ops)) (len (so_vals ops)) Ls Lo) as [G1 G2].
      cbn [andb].
      destruct (is_pczt r
                || (0 <? len (ss_vals ops) + sapling_num_outputs (len (ss_vals ops)) (len (so_vals ops)))) eqn:P.
      + cbn [bundle_vb b_nsp b_nout mk_bundle sb_vb sb_nsp sb_nout].
        repeat split; try reflexivity.
        apply pool_okb_bundle; [lia|lia|reflexivity].
      + apply orb_false_elim in P. destruct P as [_ P].
        destruct (sapling_num_outputs_zero _ _ Ls Lo ltac:(lia)) as [Z1 Z2].
        apply len_zero_nil in Z1, Z2. rewrite Z1, Z2. cbn. repeat split; reflexivity.
    - destruct (avail_no_sapling r _ F Es) as [Z1 Z2]. fold ops in Z1, Z2.
      rewrite Sout, Z1, Z2. cbn. repeat split; reflexivity.
  Qed.

  Lemma orc_facts :
    bundle_vb (b_orc b) = zsum (os_vals ops) - zsum (oo_vals ops) - zsum (oc_vals ops) /\
    b_nout (b_orc b) = sh_orc (req_shape r) /\
    pool_okb (b_orc b) (os_vals ops) (oo_vals ops ++ oc_vals ops) = true.
  Proof.
    subst b. unfold assemble. cbn [b_orc]. fold e ops.
    pose proof (len_nonneg (os_vals ops)) as Ls.
    pose proof (len_nonneg (oo_vals ops)) as Lo. pose proof (len_nonneg (oc_vals ops)) as Lc.
    assert (So : sh_orc (req_shape r)
                 = if e_orc e then orchard_num_actions (r_opad r) (e_cross e) (len (os_vals ops))
                                     (len (oo_vals ops) + len (oc_vals ops)) else 0) by reflexivity.
    rewrite So.
    destruct (e_orc e) eqn:Eo.
    - set (n := orchard_num_actions (r_opad r) (e_cross e) (len (os_vals ops))
                  (len (oo_vals ops) + len (oc_vals ops))).
      destruct (orchard_num_actions_ge (r_opad r) (e_cross e) (len (os_vals ops))
                  (len (oo_vals ops) + len (oc_vals ops)) Ls ltac:(lia)) as [G1 G2]. fold n in G1, G2.
      cbn [andb].
      assert (Yes : bundle_vb (Some (mk_bundle (is_pczt r) n n
                       (zsum (os_vals ops) - zsum (oo_vals ops) - zsum (oc_vals ops))
                       (os_vals ops) (oo_vals ops ++ oc_vals ops)))
                    = zsum (os_vals ops) - zsum (oo_vals ops) - zsum (oc_vals ops) /\
                    b_nout (Some (mk_bundle (is_pczt r) n n
                       (zsum (os_vals ops) - zsum (oo_vals ops) - zsum (oc_vals ops))
                       (os_vals ops) (oo_vals ops ++ oc_vals ops))) = n /\
                    pool_okb (Some (mk_bundle (is_pczt r) n n
                       (zsum (os_vals ops) - zsum (oo_vals ops) - zsum (oc_vals ops))
                       (os_vals ops) (oo_vals ops ++ oc_vals ops))) (os_vals ops) (oo_vals ops ++ oc_vals ops) = true).
      { cbn [bundle_vb b_nout mk_bundle sb_vb sb_nout]. repeat split; try reflexivity.
        apply pool_okb_bundle; [lia|rewrite len_app; lia|rewrite zsum_app; lia]. }
      assert (No : n <= 0 ->
                   bundle_vb None = zsum (os_vals ops) - zsum (oo_vals ops) - zsum (oc_vals ops) /\
                   b_nout None = n /\ pool_okb None (os_vals ops) (oo_vals ops ++ oc_vals ops) = true).
      { intros Hn.
        destruct (orchard_num_actions_zero (r_opad r) (e_cross e) (len (os_vals ops))
                    (len (oo_vals ops) + len (oc_vals ops)) Ls ltac:(lia) Hn) as [Z1 Z2].
        assert (Z3 : len (oo_vals ops) = 0) by lia. assert (Z4 : len (oc_vals ops) = 0) by lia.
        apply len_zero_nil in Z1, Z3, Z4. rewrite Z1, Z3, Z4. cbn.
        repeat split; try reflexivity. lia. }
      destruct (is_deferred r) eqn:D.
      + destruct (orchard_in_use r ops) eqn:U; [exact Yes|].
        apply No. destruct (orc_not_in_use Eo U) as (Z1 & Z2 & Z3 & Z4).
        subst n. rewrite Z1, Z2, Z3. cbn [len length]. change (Z.of_nat 0 + Z.of_nat 0) with 0.
        change (Z.of_nat 0) with 0. rewrite orchard_num_actions_unused by assumption. lia.
      + destruct (is_pczt r || (0 <? n)) eqn:P; [exact Yes|].
        apply No. apply orb_false_elim in P. lia.
    - rewrite (not_deferred_of_orc Eo).
      destruct (avail_no_orchard r _ F Eo) as (Z1 & Z2 & Z3). fold ops in Z1, Z2, Z3.
      rewrite Z1, Z2, Z3. cbn. repeat split; reflexivity.
  Qed.

  Lemma iw_facts :
    bundle_vb (b_iw b) = zsum (is_vals ops) - zsum (io_vals ops) /\
    b_nout (b_iw b) = sh_iw (req_shape r) /\
    pool_okb (b_iw b) (is_vals ops) (io_vals ops) = true /\
    (0 < b_nout (b_iw b) -> has_ironwood (fst hd) && branch_has_ironwood (e_branch e) = true).
  Proof.
    subst b. unfold assemble. cbn [b_iw]. fold e ops.
    pose proof (len_nonneg (is_vals ops)) as Ls. pose proof (len_nonneg (io_vals ops)) as Lo.
    assert (Si : sh_iw (req_shape r)
                 = if e_iw e then orchard_num_actions (r_ipad r) true (len (is_vals ops)) (len (io_vals ops))
                   else 0) by reflexivity.
    rewrite Si.
    destruct (e_iw e) eqn:Ei.
    - set (n := orchard_num_actions (r_ipad r) true (len (is_vals ops)) (len (io_vals ops))).
      destruct (orchard_num_actions_ge (r_ipad r) true _ _ Ls Lo) as [G1 G2]. fold n in G1, G2.
      cbn [andb].
      assert (Unused : ironwood_in_use r ops = false -> n = 0).
      { intros U. destruct (iw_not_in_use Ei U) as (Z1 & Z2 & Z3). subst n. rewrite Z1, Z2.
        cbn [len length]. change (Z.of_nat 0) with 0. now apply orchard_num_actions_unused. }
      assert (Use : 0 < n -> has_ironwood (fst hd) && branch_has_ironwood (e_branch e) = true).
      { intros Hn. destruct (check_version_none _ _ _ C) as (_ & _ & _ & Hi). apply Hi.
        destruct (ironwood_in_use r (r_ops r)) eqn:U; [reflexivity|]. apply Unused in U. lia. }
      assert (Yes : bundle_vb (Some (mk_bundle (is_pczt r) n n (zsum (is_vals ops) - zsum (io_vals ops))
                        (is_vals ops) (io_vals ops))) = zsum (is_vals ops) - zsum (io_vals ops) /\
                    b_nout (Some (mk_bundle (is_pczt r) n n (zsum (is_vals ops) - zsum (io_vals ops))
                        (is_vals ops) (io_vals ops))) = n /\
                    pool_okb (Some (mk_bundle (is_pczt r) n n (zsum (is_vals ops) - zsum (io_vals ops))
                        (is_vals ops) (io_vals ops))) (is_vals ops) (io_vals ops) = true /\
                    (0 < b_nout (Some (mk_bundle (is_pczt r) n n (zsum (is_vals ops) - zsum (io_vals ops))
                        (is_vals ops) (io_vals ops))) ->
                     has_ironwood (fst hd) && branch_has_ironwood (e_branch e) = true)).
      { cbn [bundle_vb b_nout mk_bundle sb_vb sb_nout]. repeat split; try reflexivity.
        - apply pool_okb_bundle; [lia|lia|reflexivity].
        - exact Use. }
      assert (No : n <= 0 ->
                   bundle_vb None = zsum (is_vals ops) - zsum (io_vals ops) /\
                   b_nout None = n /\ pool_okb None (is_vals ops) (io_vals ops) = true /\
                   (0 < b_nout None -> has_ironwood (fst hd) && branch_has_ironwood (e_branch e) = true)).
      { intros Hn.
        destruct (orchard_num_actions_zero (r_ipad r) true (len (is_vals ops)) (len (io_vals ops)) Ls Lo Hn) as [Z1 Z2].
        apply len_zero_nil in Z1, Z2. rewrite Z1, Z2. cbn.
        repeat split; try reflexivity; lia. }
      destruct (is_deferred r) eqn:D.
      + destruct (ironwood_in_use r ops) eqn:U; [exact Yes|]. apply No. rewrite (Unused eq_refl). lia.
      + destruct (if is_pczt r then has_ironwood (fst hd) else 0 <? n) eqn:P; [exact Yes|].
        apply No. destruct (is_pczt r); lia.
    - rewrite (not_deferred_of_iw Ei).
      destruct (avail_no_ironwood r _ F Ei) as (Z1 & Z2). fold ops in Z1, Z2.
      rewrite Z1, Z2. cbn. repeat split; try reflexivity. lia.
  Qed.

  (** fee_paid: the sum of the pool balances is the requested balance *)
  Lemma assemble_fee_paid : fee_paid b = requested_balance ops.
  Proof.
    unfold fee_paid, requested_balance.
    destruct sap_facts as (S & _). destruct orc_facts as (O & _). destruct iw_facts as (I & _).
    rewrite S, O, I. subst b. unfold transparent_vb, assemble, tin_vals. cbn [b_tin b_tout]. fold ops. lia.
  Qed.

  (** the fee rule was asked about exactly the shape of what was built *)
  Lemma assemble_shape : tx_shape b = req_shape r.
  Proof.
    destruct sap_facts as (_ & S1 & S2 & _). destruct orc_facts as (_ & O & _).
    destruct iw_facts as (_ & I & _).
    unfold tx_shape. rewrite S1, S2, O, I. subst b. unfold assemble. cbn [b_tin b_tout].
    unfold req_shape, shape_of. reflexivity.
  Qed.

  Lemma assemble_contents : contents_okb ops b = true.
  Proof.
    destruct sap_facts as (_ & _ & _ & S). destruct orc_facts as (_ & _ & O).
    destruct iw_facts as (_ & _ & I & _).
    unfold contents_okb. rewrite S, O, I. subst b. unfold assemble. cbn [b_tin b_tout]. fold ops.
    now rewrite !lzz_refl.
  Qed.
End Assembled.

(* ------------------------------------------------------------ headline lemmas *)
Lemma run_ops_hdr r hd : run_ops r [] (r_ops r) (init_hdr r) 0 = Ok hd ->
  fst hd = requested_version r /\ snd hd = requested_expiry r /\
  Forall (fun o => avail r o = true) (r_ops r).
Proof.
  intros H. apply run_ops_ok in H. destruct H as [H F]. unfold init_hdr in H.
  rewrite fold_step_hdr in H. subst hd. cbn [fst snd]. repeat split; auto.
Qed.

Lemma ver_eqb_refl v : ver_eqb v v = true.
Proof. destruct v; cbn; auto using Z.eqb_refl. Qed.
Lemma ver_eqb_eq a b : ver_eqb a b = true <-> a = b.
Proof.
  destruct a, b; cbn; split; intros H; try discriminate; try reflexivity; try congruence.
  - apply Z.eqb_eq in H. now subst.
  - inversion H. apply Z.eqb_refl.
Qed.

Lemma built_fee r b : r_coinbase r = false -> build r = Ok b ->
  fee_paid b = rule_fee (r_rule r) (req_shape r) /\
  tx_shape b = req_shape r /\
  fee_paid b = requested_balance (r_ops r) /\
  b_fee_paid b = if is_pczt r then None else Some (fee_paid b).
Proof.
  intros NCB H. apply build_ok_inv in H; [|exact NCB]. destruct H as (hd & fee & R & Fe & C & V & -> & _).
  destruct (run_ops_hdr _ _ R) as (_ & _ & F).
  pose proof (assemble_fee_paid r hd fee F C NCB) as P.
  pose proof (assemble_shape r hd fee F C NCB) as S.
  apply value_balance_exact in V; [|exact F]. apply fee_required_some in Fe. destruct Fe as [Fe _].
  repeat split; try congruence.
  rewrite P, <- V. unfold assemble. cbn [b_fee_paid]. destruct (is_pczt r); reflexivity.
Qed.

(* ------------------------------------------------------------ the coinbase configuration *)
Definition no_spend (o : op) : bool :=
  match o with SSpend _ | OSpend _ | ISpend _ _ => false | _ => true end.

Lemma step_err_cb r done o : r_coinbase r = true -> step_err r done o = None -> no_spend o = true.
Proof.
  intros CB. unfold step_err, no_spend. rewrite CB.
  destruct (is_deferred r && negb (deferred_op o)); [discriminate|].
  generalize (e_sap (env_of r)) (e_orc (env_of r)) (e_iw (env_of r)). intros a b c.
  destruct o; try reflexivity; destruct a, b, c; cbn [negb andb]; try discriminate;
    try (destruct nv3; cbn [negb]; discriminate).
Qed.

Lemma run_ops_cb r : r_coinbase r = true -> forall todo done hd i hd',
  run_ops r done todo hd i = Ok hd' -> Forall (fun o => no_spend o = true) todo.
Proof.
  intros CB. induction todo as [|o todo IH]; intros done hd i hd' H; cbn [run_ops] in H; [constructor|].
  destruct (step_err r done o) eqn:E; [discriminate|].
  constructor; [eapply step_err_cb; eauto|eapply IH; eauto].
Qed.

Lemma no_spend_lists ops : Forall (fun o => no_spend o = true) ops ->
  ss_vals ops = [] /\ os_vals ops = [] /\ is_vals ops = [].
Proof.
  unfold ss_vals, os_vals, is_vals. induction 1 as [|o l Ho _ IH]; [auto|].
  destruct IH as (I1 & I2 & I3). cbn [flat_map]. rewrite I1, I2, I3.
  destruct o; cbn in *; try discriminate; auto.
Qed.

Lemma tin_nil_tkinds ops : tin_vs ops = [] -> tkinds ops = [].
Proof.
  unfold tin_vs, tkinds. induction ops as [|o ops IH]; [reflexivity|].
  cbn [flat_map]. intros H. apply app_eq_nil in H. destruct H as [H1 H2].
  rewrite (IH H2). destruct o; cbn in *; try discriminate; reflexivity.
Qed.

Lemma finish_cb_ok_inv r hd b : finish_cb r hd = Ok b ->
  check_version r (r_ops r) (fst hd) = None /\ snd hd = r_height r /\ tin_vs (r_ops r) = [] /\
  has_overwinter (fst hd) = true /\ b = assemble_cb r hd.
Proof.
  unfold finish_cb. intros H.
  destruct (check_version r (r_ops r) (fst hd)); [discriminate|].
  destruct (snd hd =? r_height r) eqn:E; [|discriminate]. cbn [negb] in H.
  destruct (nonempty (tin_vs (r_ops r))) eqn:N; [discriminate|].
  destruct (r_height r =? 0); [discriminate|].
  destruct (negb (in_bal (zsum (so_vals (r_ops r))))); [discriminate|].
  destruct (e_orc (env_of r) && negb _); [discriminate|].
  destruct (e_iw (env_of r) && negb _); [discriminate|].
  destruct (has_overwinter (fst hd)); [|discriminate].
  inversion H. repeat split; auto. lia. now apply nonempty_false.
Qed.

Lemma build_cb_ok_inv r b : r_coinbase r = true -> build r = Ok b ->
  exists hd, run_ops r [] (r_ops r) (init_hdr r) 0 = Ok hd /\
    check_version r (r_ops r) (fst hd) = None /\ snd hd = r_height r /\ tin_vs (r_ops r) = [] /\
    has_overwinter (fst hd) = true /\ b = assemble_cb r hd.
Proof.
  unfold build. intros CB H. destruct (deferral_refused r); [discriminate|].
  destruct (run_ops r [] (r_ops r) (init_hdr r) 0) as [hd| |] eqn:R; try discriminate.
  rewrite CB in H. destruct (is_pczt r); [discriminate|]. apply finish_cb_ok_inv in H. exists hd. tauto.
Qed.

Section AssembledCb.
  Variable r : req.
  Variable hd : ver * Z.
  Hypothesis CB : r_coinbase r = true.
  Hypothesis F : Forall (fun o => avail r o = true) (r_ops r).
  Hypothesis NS : Forall (fun o => no_spend o = true) (r_ops r).
  Hypothesis TI : tin_vs (r_ops r) = [].
  Hypothesis C : check_version r (r_ops r) (fst hd) = None.
  Let ops := r_ops r.
  Let b := assemble_cb r hd.

  Lemma cb_bundle outs : pool_okb (if 0 <? len outs then Some (mk_bundle false (len outs) (len outs) (- zsum outs) [] outs) else None) [] outs = true.
  Proof.
    pose proof (len_nonneg outs). destruct (0 <? len outs) eqn:E.
    - apply pool_okb_bundle; [cbn; lia|lia|cbn; lia].
    - assert (len outs = 0) by lia. apply len_zero_nil in H0. subst. reflexivity.
  Qed.

  Lemma cb_contents : contents_okb ops b = true.
  Proof.
    destruct (no_spend_lists _ NS) as (Z1 & Z2 & Z3). fold ops in Z1, Z2, Z3.
    unfold contents_okb. subst b. unfold assemble_cb. cbn [b_tin b_tout b_sap b_orc b_iw]. fold ops.
    rewrite Z1, Z2, Z3. fold ops in TI. rewrite TI. rewrite lzz_refl. cbn [list_eqb andb].
    assert (S : pool_okb (if 0 <? len (so_vals ops)
                 then Some (mk_bundle false 0 (len (so_vals ops)) (- zsum (so_vals ops)) [] (so_vals ops)) else None)
                [] (so_vals ops) = true).
    { pose proof (len_nonneg (so_vals ops)). destruct (0 <? len (so_vals ops)) eqn:E.
      - apply pool_okb_bundle; [cbn; lia|lia|cbn; lia].
      - assert (L : len (so_vals ops) = 0) by lia. apply len_zero_nil in L. rewrite L. reflexivity. }
    rewrite S. cbn [andb].
    assert (O : pool_okb (if e_orc (env_of r) && (0 <? len (oo_vals ops ++ oc_vals ops))
                 then Some (mk_bundle false (len (oo_vals ops ++ oc_vals ops)) (len (oo_vals ops ++ oc_vals ops))
                              (- zsum (oo_vals ops ++ oc_vals ops)) [] (oo_vals ops ++ oc_vals ops)) else None)
                [] (oo_vals ops ++ oc_vals ops) = true).
    { destruct (e_orc (env_of r)) eqn:E; cbn [andb]; [apply cb_bundle|].
      destruct (avail_no_orchard r _ F E) as (_ & Z4 & Z5). fold ops in Z4, Z5. rewrite Z4, Z5. reflexivity. }
    rewrite O. rewrite ?lzz_refl. cbn [andb].
    destruct (e_iw (env_of r)) eqn:E; cbn [andb]; [apply cb_bundle|].
    destruct (avail_no_ironwood r _ F E) as (_ & Z6). fold ops in Z6. rewrite Z6. reflexivity.
  Qed.

  Lemma cb_version : version_okb r b = true.
  Proof.
    destruct (check_version_none _ _ _ C) as (Vb & Hs & Ho & Hi).
    unfold version_okb. subst b. unfold assemble_cb. cbn [b_ver b_sap b_orc b_iw]. fold ops.
    change (branch_at (r_net r) (r_height r)) with (e_branch (env_of r)). rewrite Vb. cbn [andb].
    apply andb_true_intro. split; [apply andb_true_intro; split|].
    - destruct (0 <? len (so_vals ops)) eqn:E; [|reflexivity].
      cbn [b_nsp b_nout mk_bundle sb_nsp sb_nout].
      replace (0 + len (so_vals ops) =? 0) with false by lia. cbn [orb]. apply Hs.
      unfold sapling_in_use. fold ops. rewrite (len_pos_nonempty (so_vals ops)) by lia. now rewrite orb_true_r.
    - destruct (e_orc (env_of r)) eqn:Eo; cbn [andb]; [|reflexivity].
      destruct (0 <? len (oo_vals ops ++ oc_vals ops)) eqn:E; [|reflexivity].
      cbn [b_nout mk_bundle sb_nout]. replace (len (oo_vals ops ++ oc_vals ops) =? 0) with false by lia.
      cbn [orb]. apply Ho. unfold orchard_in_use. rewrite Eo. cbn [andb]. fold ops.
      rewrite len_app in E.
      destruct (nonempty (oo_vals ops)) eqn:N1; [now rewrite !orb_true_r|].
      destruct (nonempty (oc_vals ops)) eqn:N2; [now rewrite !orb_true_r|].
      apply nonempty_false in N1, N2. rewrite N1, N2 in E. cbn in E. discriminate.
    - destruct (e_iw (env_of r)) eqn:Ei; cbn [andb]; [|reflexivity].
      destruct (0 <? len (io_vals ops)) eqn:E; [|reflexivity].
      cbn [b_nout mk_bundle sb_nout]. replace (len (io_vals ops) =? 0) with false by lia.
      cbn [orb]. apply Hi. unfold ironwood_in_use. rewrite Ei. cbn [andb]. fold ops.
      rewrite (len_pos_nonempty (io_vals ops)) by lia. now rewrite !orb_true_r.
  Qed.
End AssembledCb.

Lemma built_contents r b : build r = Ok b -> contents_okb (r_ops r) b = true.
Proof.
  intros H. destruct (r_coinbase r) eqn:CB.
  - apply build_cb_ok_inv in H; [|exact CB]. destruct H as (hd & R & C & _ & TI & _ & ->).
    destruct (run_ops_hdr _ _ R) as (_ & _ & F). pose proof (run_ops_cb r CB _ _ _ _ _ R) as NS.
    now apply cb_contents.
  - apply build_ok_inv in H; [|exact CB]. destruct H as (hd & fee & R & _ & C & _ & -> & _).
    destruct (run_ops_hdr _ _ R) as (_ & _ & F). now apply assemble_contents.
Qed.

Lemma malformed_no_inputs r : tin_vs (r_ops r) = [] -> malformed_script_sig r = false.
Proof.
  intros H. unfold malformed_script_sig. rewrite (tin_nil_tkinds _ H). cbn [existsb]. apply andb_false_r.
Qed.

Lemma built_header r b : build r = Ok b ->
  b_ver b = requested_version r /\ b_expiry b = requested_expiry r /\ b_lock b = 0 /\
  b_branch b = branch_id (branch_at (r_net r) (r_height r)) /\ b_dec b = true /\
  b_sig b = negb (malformed_script_sig r).
Proof.
  intros H. destruct (r_coinbase r) eqn:CB.
  - apply build_cb_ok_inv in H; [|exact CB]. destruct H as (hd & R & _ & _ & TI & _ & ->).
    destruct (run_ops_hdr _ _ R) as (Hv & He & _). unfold assemble_cb.
    cbn [b_ver b_expiry b_lock b_branch b_dec b_sig]. rewrite (malformed_no_inputs _ TI). repeat split; auto.
  - apply build_ok_inv in H; [|exact CB]. destruct H as (hd & fee & R & _ & _ & _ & -> & _).
    destruct (run_ops_hdr _ _ R) as (Hv & He & _). unfold assemble.
    cbn [b_ver b_expiry b_lock b_branch b_dec b_sig]. repeat split; auto.
Qed.

Lemma built_version_std r b : r_coinbase r = false -> build r = Ok b -> version_okb r b = true.
Proof.
  intros NCB H. apply build_ok_inv in H; [|exact NCB]. destruct H as (hd & fee & R & _ & C & _ & -> & _).
  destruct (run_ops_hdr _ _ R) as (_ & _ & F).
  destruct (sap_facts r hd fee F NCB) as (_ & S1 & S2 & _).
  destruct (orc_facts r hd fee F NCB) as (_ & O & _).
  destruct (iw_facts r hd fee F C NCB) as (_ & _ & _ & I).
  destruct (check_version_none _ _ _ C) as (Vb & Hs & Ho & _).
  unfold version_okb. change (b_ver (assemble r hd fee)) with (fst hd).
  change (branch_at (r_net r) (r_height r)) with (e_branch (env_of r)).
  rewrite Vb. cbn [andb].
  apply andb_true_intro. split; [apply andb_true_intro; split|].
  - destruct (b_nsp (b_sap (assemble r hd fee)) + b_nout (b_sap (assemble r hd fee)) =? 0) eqn:E; [reflexivity|].
    cbn [orb]. apply Hs. unfold sapling_in_use. rewrite S1, S2 in E.
    change (sh_sin (req_shape r)) with (len (ss_vals (r_ops r))) in E.
    unfold req_shape, shape_of in E. cbn [sh_sout] in E.
    pose proof (len_nonneg (ss_vals (r_ops r))). pose proof (len_nonneg (so_vals (r_ops r))).
    destruct (nonempty (ss_vals (r_ops r))) eqn:N1; [reflexivity|].
    destruct (nonempty (so_vals (r_ops r))) eqn:N2; [reflexivity|].
    apply nonempty_false in N1, N2. rewrite N1, N2 in E.
    destruct (e_sap (env_of r)); cbn in E; discriminate.
  - destruct (b_nout (b_orc (assemble r hd fee)) =? 0) eqn:E; [reflexivity|].
    cbn [orb]. apply Ho. rewrite O in E. unfold req_shape, shape_of in E. cbn [sh_orc] in E.
    unfold orchard_in_use. destruct (e_orc (env_of r)); [|cbn in E; discriminate]. cbn [andb].
    rewrite NCB. cbn [negb andb].
    destruct (p_req (r_opad r)) eqn:Pr; [now rewrite !orb_true_r|].
    destruct (nonempty (os_vals (r_ops r))) eqn:N1; [reflexivity|].
    destruct (nonempty (oo_vals (r_ops r))) eqn:N2; [reflexivity|].
    destruct (nonempty (oc_vals (r_ops r))) eqn:N3; [reflexivity|].
    apply nonempty_false in N1, N2, N3. rewrite N1, N2, N3 in E. cbn [len length] in E.
    change (Z.of_nat 0 + Z.of_nat 0) with 0 in E. change (Z.of_nat 0) with 0 in E.
    rewrite orchard_num_actions_unused in E by assumption. discriminate.
  - destruct (b_nout (b_iw (assemble r hd fee)) =? 0) eqn:E; [reflexivity|].
    cbn [orb]. apply I. pose proof (len_nonneg (is_vals (r_ops r))).
    destruct (iw_facts r hd fee F C NCB) as (_ & I2 & _). rewrite I2 in *.
    unfold req_shape, shape_of in *. cbn [sh_iw] in *.
    destruct (e_iw (env_of r)); [|discriminate].
    pose proof (orchard_num_actions_ge (r_ipad r) true (len (is_vals (r_ops r))) (len (io_vals (r_ops r)))
                  (len_nonneg _) (len_nonneg _)). lia.
Qed.

(** the model's in-use flags are the request-level needs *)
Lemma in_use_needs r ops : Forall (fun o => avail r o = true) ops ->
  orchard_in_use r ops = needs_orchard r ops /\ ironwood_in_use r ops = needs_ironwood r ops.
Proof.
  intros F. unfold orchard_in_use, needs_orchard, ironwood_in_use, needs_ironwood.
  pose proof (env_orc r) as Eo. pose proof (env_iw r) as Ei.
  split.
  - destruct (e_orc (env_of r)) eqn:E.
    + cbn [andb]. destruct (r_coinbase r); cbn [negb andb]; [reflexivity|]. now rewrite <- Eo.
    + destruct (avail_no_orchard r _ F E) as (-> & -> & ->). cbn [nonempty orb andb].
      destruct (r_coinbase r); cbn [negb andb]; [reflexivity|]. now rewrite <- Eo.
  - destruct (e_iw (env_of r)) eqn:E.
    + cbn [andb]. destruct (r_coinbase r); cbn [negb andb]; [reflexivity|]. now rewrite <- Ei.
    + destruct (avail_no_ironwood r _ F E) as (-> & ->). cbn [nonempty orb andb].
      destruct (r_coinbase r); cbn [negb andb]; [reflexivity|]. now rewrite <- Ei.
Qed.

Lemma check_version_refusable r ops v : Forall (fun o => avail r o = true) ops ->
  check_version r ops v = None -> version_refusable r ops v = false.
Proof.
  intros F C. destruct (check_version_none _ _ _ C) as (Vb & Hs & Ho & Hi).
  destruct (in_use_needs r ops F) as [Eo Ei]. rewrite Eo in Ho. rewrite Ei in Hi.
  unfold version_refusable. change (branch_at (r_net r) (r_height r)) with (e_branch (env_of r)).
  rewrite Vb. cbn [negb orb]. unfold sapling_in_use in Hs. unfold needs_sapling.
  destruct (nonempty (ss_vals ops) || nonempty (so_vals ops)); [rewrite Hs by reflexivity|]; cbn [negb andb orb];
  (destruct (needs_orchard r ops); [rewrite Ho by reflexivity|]; cbn [negb andb orb]);
  (destruct (needs_ironwood r ops); [rewrite Hi by reflexivity|]; cbn [negb andb orb]); reflexivity.
Qed.

Lemma built_version r b : build r = Ok b -> version_okb r b = true.
Proof.
  intros H. destruct (r_coinbase r) eqn:CB; [|now apply built_version_std].
  apply build_cb_ok_inv in H; [|exact CB]. destruct H as (hd & R & C & _ & TI & _ & ->).
  destruct (run_ops_hdr _ _ R) as (_ & _ & F). now apply cb_version.
Qed.

Lemma built_version_gate r b : build r = Ok b -> version_refusable r (r_ops r) (b_ver b) = false.
Proof.
  intros H. destruct (r_coinbase r) eqn:CB.
  - apply build_cb_ok_inv in H; [|exact CB]. destruct H as (hd & R & C & _ & _ & _ & ->).
    destruct (run_ops_hdr _ _ R) as (_ & _ & F). now apply check_version_refusable.
  - apply build_ok_inv in H; [|exact CB]. destruct H as (hd & fee & R & _ & C & _ & -> & _).
    destruct (run_ops_hdr _ _ R) as (_ & _ & F). now apply check_version_refusable.
Qed.

Lemma value_balance_err r e : value_balance r = Err e -> e = EBalance true.
Proof.
  unfold value_balance. intros H.
  repeat match type of H with
  | context [match ?x with _ => _ end] => destruct x
  | context [if ?x then _ else _] => destruct x
  end; try discriminate; inversion H; reflexivity.
Qed.

(** every refusal of [finish] with its exact reason *)
Lemma finish_err r hd e : finish r hd = Err e ->
  (e = EFeeRule /\ fee_required (r_rule r) (req_shape r) = None) \/
  (exists fee, fee_required (r_rule r) (req_shape r) = Some fee /\
     ((check_version r (r_ops r) (fst hd) = Some e) \/
      (check_version r (r_ops r) (fst hd) = None /\
        ((e = EBalance true /\ value_balance r = Err e) \/
         (exists bal, value_balance r = Ok bal /\
            ((e = EBalance false /\ bal - fee < - MAX_MONEY) \/
             (e = EInsufficient (fee - bal) /\ - MAX_MONEY <= bal - fee < 0) \/
             (e = EChange (bal - fee) /\ 0 < bal - fee) \/
             ((e = ESaplingZip212 \/ e = ETransparentBuild) /\ bal = fee))))))).
Proof.
  unfold finish. intros H.
  destruct (fee_required (r_rule r) (req_shape r)) as [fee|] eqn:F.
  2:{ inversion H. left. auto. }
  right. exists fee. split; [reflexivity|].
  destruct (check_version r (r_ops r) (fst hd)) eqn:C.
  { inversion H. subst. left. reflexivity. }
  right. split; [reflexivity|].
  destruct (value_balance r) as [bal|e'|] eqn:V; [| |discriminate].
  2:{ inversion H. subst e'. left. split; [eapply value_balance_err; eauto|reflexivity]. }
  right. exists bal. split; [reflexivity|].
  destruct (bal - fee <? - MAX_MONEY) eqn:E1.
  { inversion H. left. split; [reflexivity|lia]. }
  destruct (bal - fee <? 0) eqn:E2.
  { inversion H. right. left. split; [reflexivity|lia]. }
  destruct (0 <? bal - fee) eqn:E3.
  { inversion H. right. right. left. split; [reflexivity|lia]. }
  right. right. right.
  split; [|lia].
  destruct (r_route r).
  - destruct (sign_check _ _ _) as [u|e'|] eqn:SC; try discriminate.
    inversion H. subst e'. apply sign_check_err in SC. auto.
  - destruct (sign_check _ _ _) as [u|e'|] eqn:SC; try discriminate.
    inversion H. subst e'. apply sign_check_err in SC. auto.
  - destruct (e_sap (env_of r) && negb (zip212_on (r_net r) (r_height r))); [|discriminate].
    inversion H. auto.
  - destruct (e_sap (env_of r) && negb (zip212_on (r_net r) (r_height r))); [|discriminate].
    inversion H. auto.
Qed.

Lemma run_ops_err r : forall todo done hd i e,
  run_ops r done todo hd i = Err e ->
  exists k o e', e = EAdd (i + Z.of_nat k) e' /\ nth_error todo k = Some o /\
                 step_err r (done ++ firstn k todo) o = Some e'.
Proof.
  induction todo as [|o todo IH]; intros done hd i e H; cbn [run_ops] in H; [discriminate|].
  destruct (step_err r done o) eqn:E.
  - inversion H. exists 0%nat, o, b. cbn [nth_error firstn]. rewrite app_nil_r, Z.add_0_r. auto.
  - apply IH in H. destruct H as (k & o' & e' & -> & N & St).
    exists (S k), o', e'. cbn [nth_error firstn]. rewrite <- app_assoc in St. cbn [app] in St.
    repeat split; auto. f_equal. lia.
Qed.

Lemma run_ops_not_panic r : forall todo done hd i, run_ops r done todo hd i <> Panic.
Proof.
  induction todo as [|o todo IH]; intros done hd i; cbn [run_ops]; [discriminate|].
  destruct (step_err r done o); [discriminate|apply IH].
Qed.

(** every refusal of a coinbase build *)
Lemma finish_cb_err r hd e : finish_cb r hd = Err e ->
  check_version r (r_ops r) (fst hd) = Some e \/
  (check_version r (r_ops r) (fst hd) = None /\
   ((e = ECoinbaseExpiry /\ snd hd <> r_height r) \/
    (e = ECoinbase /\ (nonempty (tin_vs (r_ops r)) = true \/ r_height r = 0)) \/
    e = ESaplingAmount \/ e = EOrchardBuild \/ e = EIronwoodBuild)).
Proof.
  unfold finish_cb. intros H.
  destruct (check_version r (r_ops r) (fst hd)) eqn:C; [inversion H; subst; auto|]. right. split; [reflexivity|].
  destruct (snd hd =? r_height r) eqn:E; cbn [negb] in H; [|inversion H; left; split; [reflexivity|lia]].
  destruct (nonempty (tin_vs (r_ops r))) eqn:N; [inversion H; right; left; auto|].
  destruct (r_height r =? 0) eqn:E0; [inversion H; right; left; split; [reflexivity|right; lia]|].
  destruct (negb (in_bal (zsum (so_vals (r_ops r))))); [inversion H; auto|].
  destruct (e_orc (env_of r) && negb _); [inversion H; auto|].
  destruct (e_iw (env_of r) && negb _); [inversion H; auto 6|].
  destruct (has_overwinter (fst hd)); discriminate.
Qed.

(** a refusal with a shortfall / excess names the exact amount *)
Lemma build_err_amount r e : build r = Err e ->
  (forall a, e = EInsufficient a ->
     0 < a /\ requested_balance (r_ops r) + a = rule_fee (r_rule r) (req_shape r)) /\
  (forall a, e = EChange a ->
     0 < a /\ requested_balance (r_ops r) - a = rule_fee (r_rule r) (req_shape r)).
Proof.
  unfold build. intros H.
  destruct (deferral_refused r). { inversion H. split; intros a Ha; discriminate. }
  destruct (run_ops r [] (r_ops r) (init_hdr r) 0) as [hd|e0|] eqn:R; [| |discriminate].
  2:{ inversion H. subst e0. apply run_ops_err in R. destruct R as (k & o & e' & -> & _).
      split; intros a Ha; discriminate. }
  destruct (run_ops_hdr _ _ R) as (_ & _ & F).
  destruct (r_coinbase r).
  { destruct (is_pczt r); [inversion H; split; intros a Ha; discriminate|].
    apply finish_cb_err in H. destruct H as [C|(_ & [[-> _]|[[-> _]|[->|[->| ->]]]])];
      try (split; intros a Ha; discriminate).
    apply check_version_some in C. destruct C as [[p ->] _]. split; intros a Ha; discriminate. }
  apply finish_err in H.
  destruct H as [[-> _]|(fee & Fe & [C|(C & [[-> _]|(bal & V & Hc)])])].
  - split; intros a Ha; discriminate.
  - apply check_version_some in C. destruct C as [[p ->] _]. split; intros a Ha; discriminate.
  - split; intros a Ha; discriminate.
  - apply value_balance_exact in V; [|exact F]. apply fee_required_some in Fe. destruct Fe as [Fe _].
    destruct Hc as [[-> _]|[[-> Hc]|[[-> Hc]|[[->| ->] _]]]]; split; intros a Ha; try discriminate;
      inversion Ha; subst; lia.
Qed.

(** the converse direction: an unbalanced, otherwise acceptable request is refused *)
Lemma unbalanced_fails r hd fee bal :
  r_coinbase r = false -> deferral_refused r = false ->
  run_ops r [] (r_ops r) (init_hdr r) 0 = Ok hd ->
  fee_required (r_rule r) (req_shape r) = Some fee ->
  check_version r (r_ops r) (fst hd) = None ->
  value_balance r = Ok bal ->
  bal <> fee ->
  build r = Err (if bal - fee <? - MAX_MONEY then EBalance false
                 else if bal <? fee then EInsufficient (fee - bal) else EChange (bal - fee)).
Proof.
  intros NCB DR R Fe C V Hne. unfold build. rewrite DR, R, NCB. unfold finish. rewrite Fe, C, V.
  destruct (bal - fee <? - MAX_MONEY) eqn:E1; [reflexivity|].
  destruct (bal - fee <? 0) eqn:E2.
  - replace (bal <? fee) with true by lia. reflexivity.
  - replace (bal <? fee) with false by lia. replace (0 <? bal - fee) with true by lia. reflexivity.
Qed.

Lemma build_err_target r v p : build r = Err (ETarget v p) ->
  v = requested_version r /\ version_refusable r (r_ops r) v = true.
Proof.
  unfold build. intros H.
  destruct (deferral_refused r); [discriminate|].
  destruct (run_ops r [] (r_ops r) (init_hdr r) 0) as [hd|e0|] eqn:R; [| |discriminate].
  2:{ inversion H. subst e0. apply run_ops_err in R. destruct R as (k & o & e' & E & _). discriminate. }
  destruct (run_ops_hdr _ _ R) as (Hv & _ & _).
  destruct (r_coinbase r).
  { destruct (is_pczt r); [discriminate|].
    apply finish_cb_err in H. destruct H as [C|(_ & [[E _]|[[E _]|[E|[E|E]]]])]; try discriminate.
    apply check_version_some in C. destruct C as [[q E] Rf]. inversion E. subst v.
    split; [exact Hv|exact Rf]. }
  apply finish_err in H.
  destruct H as [[E _]|(fee & Fe & [C|(C & [[E _]|(bal & V & Hc)])])]; try discriminate.
  - apply check_version_some in C. destruct C as [[q E] Rf]. inversion E. subst v.
    split; [exact Hv|exact Rf].
  - destruct Hc as [[E _]|[[E _]|[[E _]|[[E|E] _]]]]; discriminate.
Qed.

Lemma build_err_add_target r i v p : build r = Err (EAdd i (ETarget v p)) ->
  is_true (match nth_error (r_ops r) (Z.to_nat i) with Some (Propose w) => ver_eqb v w | _ => false end) /\
  version_refusable r (firstn (Z.to_nat i) (r_ops r)) v = true.
Proof.
  unfold build. intros H.
  destruct (deferral_refused r); [discriminate|].
  destruct (run_ops r [] (r_ops r) (init_hdr r) 0) as [hd|e0|] eqn:R; [| |discriminate].
  - destruct (r_coinbase r).
    { destruct (is_pczt r); [discriminate|].
      apply finish_cb_err in H. destruct H as [C|(_ & [[E _]|[[E _]|[E|[E|E]]]])]; try discriminate.
      apply check_version_some in C. destruct C as [[q E] _]. discriminate. }
    apply finish_err in H.
    destruct H as [[E _]|(fee & Fe & [C|(C & [[E _]|(bal & V & Hc)])])]; try discriminate.
    + apply check_version_some in C. destruct C as [[q E] _]. discriminate.
    + destruct Hc as [[E _]|[[E _]|[[E _]|[[E|E] _]]]]; discriminate.
  - inversion H. subst e0. apply run_ops_err in R. destruct R as (k & o & e' & E & N & S).
    inversion E. subst i e'. clear E. rewrite ?Z.add_0_l, Nat2Z.id. rewrite N. cbn [app] in S.
    unfold step_err in S. destruct (is_deferred r && negb (deferred_op o)); [discriminate|].
    destruct o;
      try (repeat match type of S with context [if ?x then _ else _] => destruct x end; discriminate).
    apply check_version_some in S. destruct S as [[q E'] Rf]. inversion E'. subst.
    split; [apply ver_eqb_refl|exact Rf].
Qed.

Lemma value_balance_not_panic r : value_balance r <> Panic.
Proof.
  unfold value_balance.
  repeat match goal with
  | |- context [match ?x with _ => _ end] => destruct x
  end; discriminate.
Qed.

Lemma build_panic r : build r = Panic -> panic_class r = true.
Proof.
  unfold build. intros H.
  destruct (deferral_refused r); [discriminate|].
  destruct (run_ops r [] (r_ops r) (init_hdr r) 0) as [hd|e0|] eqn:R; [|discriminate|].
  2:{ exfalso. eapply run_ops_not_panic; eauto. }
  destruct (run_ops_hdr _ _ R) as (Hv & _ & _).
  unfold panic_class. rewrite <- Hv.
  destruct (r_coinbase r).
  { unfold is_pczt in H. unfold finish_cb in H.
    destruct (r_route r); try discriminate;
      repeat match type of H with
      | context [match ?x with _ => _ end] => destruct x
      | context [if ?x then _ else _] => destruct x
      end; try discriminate; reflexivity. }
  unfold finish in H.
  destruct (fee_required (r_rule r) (req_shape r)); [|discriminate].
  destruct (check_version r (r_ops r) (fst hd)); [discriminate|].
  destruct (value_balance r) as [bal|e'|] eqn:V; [|discriminate|].
  - destruct (bal - z <? - MAX_MONEY); [discriminate|].
    destruct (bal - z <? 0); [discriminate|]. destruct (0 <? bal - z); [discriminate|].
    destruct (r_route r).
    + destruct (sign_check _ _ _) eqn:SC; try discriminate. apply sign_check_panic in SC. now rewrite SC.
    + destruct (sign_check _ _ _) eqn:SC; try discriminate. apply sign_check_panic in SC. now rewrite SC.
    + destruct (e_sap (env_of r) && negb (zip212_on (r_net r) (r_height r))); discriminate.
    + destruct (e_sap (env_of r) && negb (zip212_on (r_net r) (r_height r))); discriminate.
  - exfalso. eapply value_balance_not_panic; eauto.
Qed.

(* ------------------------------------------------------------ propositional reading of the content clause *)
Lemma pool_okb_sound o sp outs : pool_okb o sp outs = true -> pool_ok o sp outs.
Proof.
  unfold pool_okb, pool_ok. destruct o as [s|].
  - rewrite !andb_true_iff. intros ((((H1 & H2) & H3) & H4) & H5).
    split; [lia|]. split; [lia|]. split; [lia|]. split.
    + intros l1 E. rewrite E in H4. apply andb_prop in H4. destruct H4 as [A B].
      split; [lia|now apply padding_ofb_sound].
    + intros l2 E. rewrite E in H5. apply andb_prop in H5. destruct H5 as [A B].
      split; [lia|now apply padding_ofb_sound].
  - rewrite andb_true_iff. intros [H1 H2].
    destruct sp; [|discriminate]. destruct outs; [|discriminate]. auto.
Qed.

Lemma built_contents_prop r b : build r = Ok b ->
  b_tin b = tin_vs (r_ops r) /\ b_tout b = tout_vs (r_ops r) /\
  pool_ok (b_sap b) (ss_vals (r_ops r)) (so_vals (r_ops r)) /\
  pool_ok (b_orc b) (os_vals (r_ops r)) (oo_vals (r_ops r) ++ oc_vals (r_ops r)) /\
  pool_ok (b_iw b) (is_vals (r_ops r)) (io_vals (r_ops r)).
Proof.
  intros H. apply built_contents in H. unfold contents_okb in H.
  rewrite !andb_true_iff in H. destruct H as ((((H1 & H2) & H3) & H4) & H5).
  assert (P : forall a c, pair_z_eqb a c = true <-> a = c).
  { intros [a1 a2] [c1 c2]. unfold pair_z_eqb, pair_eqb. cbn [fst snd].
    rewrite andb_true_iff, !Z.eqb_eq. split; [intros [-> ->]; reflexivity|intros E; inversion E; auto]. }
  apply (proj1 (list_eqb_spec pair_z_eqb P _ _)) in H1.
  apply (proj1 (list_eqb_spec pair_z_eqb P _ _)) in H2.
  repeat split; auto using pool_okb_sound.
Qed.

(* ------------------------------------------------------------ ZIP 317 *)
Lemma ceildiv_spec a b : 0 <= a -> 0 < b ->
  b * (ceildiv a b - 1) < a <= b * ceildiv a b.
Proof.
  intros Ha Hb. unfold ceildiv.
  pose proof (Z.div_mod (a + b - 1) b ltac:(lia)). pose proof (Z.mod_pos_bound (a + b - 1) b Hb). nia.
Qed.

Lemma zip317_fee_formula s :
  rule_fee RZip317 s =
  MARGINAL_FEE * Z.max GRACE_ACTIONS
    (Z.max (ceildiv (zsum (sh_tin s)) P2PKH_STANDARD_INPUT_SIZE)
           (ceildiv (zsum (sh_tout s)) P2PKH_STANDARD_OUTPUT_SIZE)
     + Z.max (sh_sin s) (sh_sout s) + sh_orc s + sh_iw s)
  /\ MARGINAL_FEE * GRACE_ACTIONS <= rule_fee RZip317 s.
Proof.
  split; [reflexivity|]. cbn [rule_fee]. unfold zip317_fee, MARGINAL_FEE, GRACE_ACTIONS. lia.
Qed.

(** one more action of any kind never lowers the ZIP 317 fee *)
Lemma zip317_fee_mono s t :
  zsum (sh_tin s) <= zsum (sh_tin t) -> zsum (sh_tout s) <= zsum (sh_tout t) ->
  sh_sin s <= sh_sin t -> sh_sout s <= sh_sout t -> sh_orc s <= sh_orc t -> sh_iw s <= sh_iw t ->
  rule_fee RZip317 s <= rule_fee RZip317 t.
Proof.
  intros H1 H2 H3 H4 H5 H6. cbn [rule_fee]. unfold zip317_fee, zip317_logical, MARGINAL_FEE.
  assert (D : forall a c d, a <= c -> 0 < d -> ceildiv a d <= ceildiv c d).
  { intros a c d Hac Hd. unfold ceildiv. apply Z.div_le_mono; lia. }
  pose proof (D _ _ P2PKH_STANDARD_INPUT_SIZE H1 ltac:(unfold P2PKH_STANDARD_INPUT_SIZE; lia)).
  pose proof (D _ _ P2PKH_STANDARD_OUTPUT_SIZE H2 ltac:(unfold P2PKH_STANDARD_OUTPUT_SIZE; lia)).
  lia.
Qed.
