(** C14 — correspondence cases. One case per request: the request, what the recording fee rule
    was asked (if the rule records), and the canonicalised outcome of the real builder.
    [run_case]: model = implementation. [prop_case]: the property evaluated on the
    implementation's outcome with Spec.v only (the padding rule of [req_shape] enters only to
    price the shortfall / excess of a refused request). *)
From V.Lib Require Import Base MachInt.
From V.Gen Require Import C14Consts.
From V.C14 Require Import Model SignModel Spec.
Local Open Scope Z_scope.

Inductive case := Case (r : req) (seen : option shape) (sels : list (list sel)) (o : outcome built berr).

Definition pool_eqb (a b : pool) : bool :=
  match a, b with
  | PTransparent, PTransparent | PSapling, PSapling | POrchard, POrchard | POther, POther => true
  | _, _ => false
  end.

Fixpoint berr_eqb (a b : berr) : bool :=
  match a, b with
  | EInsufficient x, EInsufficient y | EChange x, EChange y => x =? y
  | EBalance x, EBalance y => Bool.eqb x y
  | ETarget v p, ETarget w q => ver_eqb v w && option_eqb pool_eqb p q
  | EAdd i e, EAdd j f => (i =? j) && berr_eqb e f
  | EFeeRule, EFeeRule | EFeeBundle, EFeeBundle | ETransparentBuild, ETransparentBuild
  | ESaplingZip212, ESaplingZip212 | ESaplingAmount, ESaplingAmount | ESaplingBuild, ESaplingBuild
  | EOrchardBuild, EOrchardBuild | EIronwoodBuild, EIronwoodBuild | EOrchardSpend, EOrchardSpend
  | EOrchardRecipient, EOrchardRecipient | EIronwoodSpend, EIronwoodSpend
  | EIronwoodNoteVersion, EIronwoodNoteVersion | EIronwoodRecipient, EIronwoodRecipient
  | ESaplingNA, ESaplingNA | EOrchardNA, EOrchardNA | EIronwoodNA, EIronwoodNA | EOther, EOther
  | EDeferral, EDeferral | ECoinbase, ECoinbase | ECoinbaseExpiry, ECoinbaseExpiry => true
  | _, _ => false
  end.

Definition olz_eqb := option_eqb (list_eqb Z.eqb).
Definition shb_eqb (a b : shb) : bool :=
  (sb_nsp a =? sb_nsp b) && (sb_nout a =? sb_nout b) && (sb_vb a =? sb_vb b)
  && olz_eqb (sb_spv a) (sb_spv b) && olz_eqb (sb_outv a) (sb_outv b).
Definition built_eqb (a b : built) : bool :=
  ver_eqb (b_ver a) (b_ver b) && (b_branch a =? b_branch b) && (b_expiry a =? b_expiry b)
  && (b_lock a =? b_lock b)
  && list_eqb pair_z_eqb (b_tin a) (b_tin b) && list_eqb pair_z_eqb (b_tout a) (b_tout b)
  && option_eqb shb_eqb (b_sap a) (b_sap b) && option_eqb shb_eqb (b_orc a) (b_orc b)
  && option_eqb shb_eqb (b_iw a) (b_iw b)
  && option_eqb Z.eqb (b_fee_paid a) (b_fee_paid b)
  && Bool.eqb (b_dec a) (b_dec b) && Bool.eqb (b_sig a) (b_sig b).

(** what the model's signing step signs for the result the implementation returned *)
Definition expected_sels (r : req) (o : outcome built berr) : list (list sel) :=
  match o with
  | Ok b => if is_pczt r then [] else model_sels (r_keys r) (b_ver b) (r_ops r)
  | _ => []
  end.

(** model = implementation *)
Definition run_case (c : case) : bool :=
  match c with
  | Case r seen sels o =>
      outcome_eqb built_eqb berr_eqb (build r) o && option_eqb shape_eqb (model_seen r) seen
      && list_eqb (list_eqb sel_eqb) (expected_sels r o) sels
  end.

Definition is_propose (o : option op) (v : ver) : bool :=
  match o with Some (Propose w) => ver_eqb v w | _ => false end.

(** the property on the implementation's outcome *)
Definition prop_case (c : case) : bool :=
  match c with
  | Case r seen sels o =>
    let ops := r_ops r in
    match o with
    | Ok b =>
        contents_okb ops b && version_okb r b && header_okb r b
        && b_dec b && b_sig b && sels_okb r b sels
        && (if r_coinbase r
            (* a coinbase transaction creates value: no inputs, no fee, the rule is not consulted *)
            then match seen, b_fee_paid b with None, None => true | _, _ => false end
                 && (b_expiry b =? r_height r) && match b_tin b with [] => true | _ => false end
            else fee_okb (r_rule r) b
                 && match seen with
                    | Some s => shape_eqb s (tx_shape b)   (* the rule was asked about the result's shape *)
                    | None => match r_rule r with RZip317 => true | RLin _ => false end
                    end)
    | Err (EInsufficient a) =>
        (0 <? a) && (requested_balance ops + a =? rule_fee (r_rule r) (req_shape r))
        && match seen with Some s => shape_eqb s (req_shape r) | None => true end
    | Err (EChange a) =>
        (0 <? a) && (requested_balance ops - a =? rule_fee (r_rule r) (req_shape r))
        && match seen with Some s => shape_eqb s (req_shape r) | None => true end
    | Err (ETarget v _) => ver_eqb v (requested_version r) && version_refusable r ops v
    | Err (EAdd i (ETarget v _)) =>
        is_propose (nth_error ops (Z.to_nat i)) v && version_refusable r (firstn (Z.to_nat i) ops) v
    | Err ECoinbaseExpiry => r_coinbase r && negb (requested_expiry r =? r_height r)
    | Err ECoinbase => r_coinbase r && (nonempty (tin_vs ops) || (r_height r =? 0))
    | Err EDeferral =>       (* only the deferring builder, only off the V6 branch *)
        is_deferred r && negb (branch_has_ironwood (branch_at (r_net r) (r_height r)))
    | Err _ => true          (* any other refusal: no transaction was emitted *)
    | Panic => panic_class r
    end
  end.

(** class 1: the OP_PUSHDATA1 length defect of the external zcash_script crate (see Model.v,
    [malformed_script_sig]); the defects found in /repo itself were repaired there *)
Definition known_class (c : case) : N :=
  match c with
  | Case r _ _ (Ok _) => if malformed_script_sig r then 1%N else 0%N
  | _ => 0%N
  end.

Definition ver_idx (v : ver) : N :=
  match v with VSprout _ => 0 | V3 => 1 | V4 => 2 | V5 => 3 | V6 => 4 end%N.
Definition route_idx (r : route) : N := match r with Mock => 0 | Build => 1 | Pczt => 2 | Deferred => 3 end%N.

Fixpoint err_tag (e : berr) : N :=
  match e with
  | EInsufficient _ => 1 | EChange _ => 2 | EFeeRule => 3 | EFeeBundle => 4
  | EBalance true => 5 | EBalance false => 6
  | ETarget _ None => 7 | ETarget _ (Some _) => 8
  | ETransparentBuild => 9 | ESaplingZip212 => 10 | ESaplingAmount => 11 | ESaplingBuild => 12
  | EOrchardBuild => 13 | EIronwoodBuild => 14 | EOrchardSpend => 15 | EOrchardRecipient => 16
  | EIronwoodSpend => 17 | EIronwoodNoteVersion => 18 | EIronwoodRecipient => 19
  | ESaplingNA => 20 | EOrchardNA => 21 | EIronwoodNA => 22 | EOther => 23 | EDeferral => 24
  | ECoinbase => 25 | ECoinbaseExpiry => 26
  | EAdd _ e => 30 + err_tag e
  end%N.

Definition padded_bundle (o : option shb) (spends outs : list Z) : bool :=
  match o with Some s => (len spends <? sb_nsp s) || (len outs <? sb_nout s) | None => false end.

Definition tag_case (c : case) : N :=
  match c with
  | Case r _ _ (Ok b) =>
      ((if r_coinbase r then 200 else 100) + 10 * route_idx (r_route r) + ver_idx (b_ver b)
       + (if padded_bundle (b_sap b) (ss_vals (r_ops r)) (so_vals (r_ops r))
             || padded_bundle (b_orc b) (os_vals (r_ops r)) (oo_vals (r_ops r) ++ oc_vals (r_ops r))
             || padded_bundle (b_iw b) (is_vals (r_ops r)) (io_vals (r_ops r))
          then 50 else 0))%N
  | Case _ _ _ (Err e) => err_tag e
  | Case r _ _ Panic => 91%N
  end.
