(** C14 — domain of the theorems as a boolean on cases: amounts fit their Rust types
    (Zatoshis for transparent values and shielded outputs, u64 for spent note values), heights
    fit u32, the recording rule has seven u64 coefficients, mock_build is only used with the
    ZIP 317 rule it hard-wires. *)
From V.Lib Require Import Base MachInt.
From V.Gen Require Import C14Consts.
From V.C14 Require Import Model Spec Corr.
Local Open Scope Z_scope.

Definition zat_okb (v : Z) : bool := in_range 0 MAX_MONEY v.
Definition op_okb (o : op) : bool :=
  match o with
  | TIn v | TOut v _ | SOut v | OOut v | OChange v | IOut v => zat_okb v
  | SSpend v | OSpend v | ISpend v _ => in_u64 v
  | TInSh v m n => zat_okb v && (1 <=? m) && (m <=? n) && (n <=? 15)
  | TInRaw v => zat_okb v
  | TNull n => in_range 0 100000 n
  | Propose (VSprout n) => in_u32 n
  | Propose _ => true
  | Expiry h => in_u32 h
  end.
Definition pad_okb (p : pad) : bool := match p_min p with Some m => in_u8 m | None => true end.
Definition rule_okb (ru : rule) : bool :=
  match ru with RZip317 => true | RLin c => (length c =? 7)%nat && forallb in_u64 c end.

Definition wf_req (r : req) : bool :=
  in_u32 (r_height r) && forallb op_okb (r_ops r) && pad_okb (r_opad r) && pad_okb (r_ipad r)
  && rule_okb (r_rule r)
  && forallb (in_range 4 18) (r_keys r)
  && match r_route r, r_rule r with Mock, RLin _ => false | _, _ => true end
  && (negb (is_deferred r) || forallb deferred_op (r_ops r))
  (* a coinbase transaction is built, not drafted as a PCZT *)
  && (negb (r_coinbase r) || match r_route r with Mock | Build => true | _ => false end).

Definition wf_case (c : case) : bool := match c with Case r _ _ _ => wf_req r end.
