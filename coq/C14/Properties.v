(** C14 — property theorems only. Each is closed by [exact] of a lemma from Proofs.v / Bridge.v
    and audited with Print Assumptions. [build r] is the model of
    Builder::{mock_build, build, build_for_pczt} applied to the calls of request [r]. *)
From V.Lib Require Import Base MachInt.
From V.Gen Require Import C14Consts.
From V.C14 Require Import Model Spec Corr Wf Proofs Bridge SignModel SignProofs AgreeC07.
Local Open Scope Z_scope.

(** A built result contains the requested transparent inputs and outputs in order and, per
    shielded pool, at least the requested spends/outputs with the exact value balance; where
    note values are visible they are the requested values plus zeros (padding has value 0). *)
Theorem C14_built_contents : forall r b, build r = Ok b ->
  b_tin b = tin_vs (r_ops r) /\ b_tout b = tout_vs (r_ops r) /\
  pool_ok (b_sap b) (ss_vals (r_ops r)) (so_vals (r_ops r)) /\
  pool_ok (b_orc b) (os_vals (r_ops r)) (oo_vals (r_ops r) ++ oc_vals (r_ops r)) /\
  pool_ok (b_iw b) (is_vals (r_ops r)) (io_vals (r_ops r)).
Proof. exact built_contents_prop. Qed.

(** The net value balance over all pools is the fee the rule prescribes; the shape the rule was
    asked about is the shape of what was built (no uncounted and no phantom action); the balance
    is exactly inputs minus outputs of the request; fee_paid reports it on transaction routes. *)
Theorem C14_built_fee : forall r b, r_coinbase r = false -> build r = Ok b ->
  fee_paid b = rule_fee (r_rule r) (req_shape r) /\
  tx_shape b = req_shape r /\
  fee_paid b = requested_balance (r_ops r) /\
  b_fee_paid b = if is_pczt r then None else Some (fee_paid b).
Proof. exact built_fee. Qed.

(** An otherwise acceptable request whose inputs differ from outputs plus fee is refused, with
    the exact shortfall or excess. *)
Theorem C14_unbalanced_fails : forall r hd fee bal,
  r_coinbase r = false -> deferral_refused r = false ->
  run_ops r [] (r_ops r) (init_hdr r) 0 = Ok hd ->
  fee_required (r_rule r) (req_shape r) = Some fee ->
  check_version r (r_ops r) (fst hd) = None ->
  value_balance r = Ok bal ->
  bal <> fee ->
  build r = Err (if bal - fee <? - MAX_MONEY then EBalance false
                 else if bal <? fee then EInsufficient (fee - bal) else EChange (bal - fee)).
Proof. exact unbalanced_fails. Qed.

(** Whenever the builder reports InsufficientFunds(a) / ChangeRequired(a), [a] is positive and is
    exactly fee - (inputs - outputs), resp. (inputs - outputs) - fee. *)
Theorem C14_refusal_amounts : forall r e, build r = Err e ->
  (forall a, e = EInsufficient a ->
     0 < a /\ requested_balance (r_ops r) + a = rule_fee (r_rule r) (req_shape r)) /\
  (forall a, e = EChange a ->
     0 < a /\ requested_balance (r_ops r) - a = rule_fee (r_rule r) (req_shape r)).
Proof. exact build_err_amount. Qed.

(** The value balance the builder compares with the fee is exact arithmetic on the request. *)
Theorem C14_value_balance_exact : forall r bal,
  Forall (fun o => avail r o = true) (r_ops r) ->
  value_balance r = Ok bal -> bal = requested_balance (r_ops r).
Proof. exact value_balance_exact. Qed.

(** Version gate: a result is only produced under a version that is valid on the branch of the
    target height and carries every pool the request needs (including bundles the padding policy
    requires); it is the version the caller proposed. *)
Theorem C14_version_gate : forall r b, build r = Ok b ->
  version_refusable r (r_ops r) (b_ver b) = false.
Proof. exact built_version_gate. Qed.
Theorem C14_version_of_result : forall r b, build r = Ok b -> version_okb r b = true.
Proof. exact built_version. Qed.
Theorem C14_target_incompatible_sound : forall r v p, build r = Err (ETarget v p) ->
  v = requested_version r /\ version_refusable r (r_ops r) v = true.
Proof. exact build_err_target. Qed.
Theorem C14_check_version_complete : forall r ops v,
  Forall (fun o => avail r o = true) ops ->
  check_version r ops v = None -> version_refusable r ops v = false.
Proof. exact check_version_refusable. Qed.

(** Header of a result: proposed version, requested expiry, lock time 0, branch of the height. *)
Theorem C14_header : forall r b, build r = Ok b ->
  b_ver b = requested_version r /\ b_expiry b = requested_expiry r /\ b_lock b = 0 /\
  b_branch b = branch_id (branch_at (r_net r) (r_height r)) /\ b_dec b = true /\
  b_sig b = negb (malformed_script_sig r).
Proof. exact built_header. Qed.

(** KNOWN FINDING, refuted clause: the builder returns Ok for a request with a 3-of-5 multisig input
    although the scriptSig it produced is malformed (external zcash_script 0.4.3 writes the
    OP_PUSHDATA1 length of the 173-byte redeem script as two bytes). *)
Theorem C14_script_sig_wellformed_refuted : exists r b,
  build r = Ok b /\ wf_req r = true /\ b_sig b = false.
Proof. exact script_sig_refuted. Qed.

(** A coinbase build has no transparent inputs, reports no fee, and expires at its own height. *)
Theorem C14_coinbase : forall r b, r_coinbase r = true -> build r = Ok b ->
  b_tin b = [] /\ b_fee_paid b = None /\ b_expiry b = r_height r /\
  ss_vals (r_ops r) = [] /\ os_vals (r_ops r) = [] /\ is_vals (r_ops r) = [].
Proof. exact built_coinbase. Qed.

(** ZIP 317 instance of the rule: the conventional-fee formula, its floor, monotonicity. *)
Theorem C14_fee_formula : forall s,
  rule_fee RZip317 s =
  MARGINAL_FEE * Z.max GRACE_ACTIONS
    (Z.max (ceildiv (zsum (sh_tin s)) P2PKH_STANDARD_INPUT_SIZE)
           (ceildiv (zsum (sh_tout s)) P2PKH_STANDARD_OUTPUT_SIZE)
     + Z.max (sh_sin s) (sh_sout s) + sh_orc s + sh_iw s)
  /\ MARGINAL_FEE * GRACE_ACTIONS <= rule_fee RZip317 s.
Proof. exact zip317_fee_formula. Qed.
Theorem C14_ceildiv : forall a b, 0 <= a -> 0 < b -> b * (ceildiv a b - 1) < a <= b * ceildiv a b.
Proof. exact ceildiv_spec. Qed.
Theorem C14_fee_monotone : forall s t,
  zsum (sh_tin s) <= zsum (sh_tin t) -> zsum (sh_tout s) <= zsum (sh_tout t) ->
  sh_sin s <= sh_sin t -> sh_sout s <= sh_sout t -> sh_orc s <= sh_orc t -> sh_iw s <= sh_iw t ->
  rule_fee RZip317 s <= rule_fee RZip317 t.
Proof. exact zip317_fee_mono. Qed.

(** The builder only panics in the one documented class: a pre-Overwinter transaction cannot be
    signed (explicit panic in sighash_v4). *)
Theorem C14_panic_only_documented : forall r, build r = Panic -> panic_class r = true.
Proof. exact build_panic. Qed.

(** Bridge: agreement of the model with the implementation on a case implies that the property
    checker accepts the implementation's outcome. *)
Theorem C14_bridge : forall c,
  wf_case c = true -> known_class c = 0%N -> run_case c = true -> prop_case c = true.
Proof. exact bridge. Qed.

(** Signing step (symbolic model of authorize_transparent / apply_signatures; [sh_eqb] decides
    equality of signature-hash terms). sig_index: the scriptSig of input i consists of signatures
    over the signature hash for (i, value_i, script_i, SIGHASH_ALL) and satisfies the spent coin's
    script, multisig signatures passing OP_CHECKMULTISIG's ordered matching. *)
Theorem C14_sig_index : forall (T : Type) (v5 : bool) (sh_eqb : sighash T -> sighash T -> bool),
  (forall a b, sh_eqb a b = true <-> a = b) ->
  forall keys tx cs l, apply_signatures T v5 keys tx cs = Some l ->
    length l = length cs /\
    forall i c, nth_error cs i = Some c ->
      exists ss, nth_error l i = Some ss /\
                 sigs_over T ss (msg_for T v5 tx i c) /\ input_valid T v5 sh_eqb tx i c ss = true.
Proof. exact sig_index. Qed.
(** A signature made over another input's index, or over another value, is rejected. *)
Theorem C14_wrong_index_rejected : forall (T : Type) (v5 : bool) (sh_eqb : sighash T -> sighash T -> bool),
  (forall a b, sh_eqb a b = true <-> a = b) ->
  forall tx i j c k, i <> j ->
    verifyb T sh_eqb (Sig T k (msg_for T v5 tx j c)) k (msg_for T v5 tx i c) = false.
Proof. exact wrong_index_rejected. Qed.
Theorem C14_wrong_value_rejected : forall (T : Type) (v5 : bool) (sh_eqb : sighash T -> sighash T -> bool),
  (forall a b, sh_eqb a b = true <-> a = b) ->
  forall tx i c c' k, c_spend c = c_spend c' -> c_value c <> c_value c' ->
    verifyb T sh_eqb (Sig T k (msg_for T v5 tx i c')) k (msg_for T v5 tx i c) = false.
Proof. exact wrong_value_rejected. Qed.
(** Multisig signatures must follow the redeem script's key order, not the registration order. *)
Theorem C14_multisig_order_matters : forall (T : Type) (sh_eqb : sighash T -> sighash T -> bool),
  (forall a b, sh_eqb a b = true <-> a = b) ->
  forall msg k1 k2, k1 <> k2 ->
    checkmultisig T sh_eqb [k1; k2] [Sig T k2 msg; Sig T k1 msg] msg = false.
Proof. exact multisig_order_matters. Qed.
(** A multisig input can be signed exactly when the builder model accepts it. *)
Theorem C14_sign_p2sh_iff : forall (T : Type) (v5 : bool) keys (tx : T) i v m n,
  sign_input T v5 keys tx i (mkCoin v (SpP2sh m n)) <> None <-> p2sh_signable keys (m, n) = true.
Proof. exact sign_p2sh_iff. Qed.
(** The selectors the model's signing step produces (the ones run_case compares with what the
    harness observed every real signature to verify for) satisfy the signature clause: own input
    index, the spent coin's value and script code, its scriptPubKey from v5 on, SIGHASH_ALL, the
    coin's key - for multisig m keys of the redeem script in script order. *)
Theorem C14_signed_selectors : forall keys v ops,
  forallb (signable_kind keys) (tkinds ops) = true ->
  sels_okb_from (is_v5 v) 0 (coins_of ops) (model_sels keys v ops) = true.
Proof. exact model_sels_ok. Qed.

(** C07 x C14: the change strategy's fee is the builder's fee. For a proposal
    [C07.compute_balance x c = Ok b] and the builder request carrying the same inputs, payments and
    the proposed change ([req_of]; standard ZIP 317 rule, P2PKH inputs incl. a ZIP 320 ephemeral
    input, an ephemeral output as a further P2PKH output,
    P2PKH/P2SH outputs, Orchard protocol version matching the height): the builder prices exactly
    the shape C07 priced, change and padding included, and sees exactly C07's fee as its balance.
    Hence the exact-balance check succeeds when C07's fee is the exact fee of the final shape, and
    in C07's two over-payment cases (dust folded into the fee, zero transparent change omitted)
    the builder answers ChangeRequired with the precise excess. *)
Theorem C14_c07_agree : forall n x c b rt hd bal,
  M7.compute_balance x c = Ok b -> compatible n x c -> rt <> Deferred ->
  let r := req_of n x c b rt in
  let shape_fee := S7.shape_fee x c (M7.change b) (M7.dummies b) 0 in
  run_ops r [] (r_ops r) (init_hdr r) 0 = Ok hd ->
  check_version r (r_ops r) (fst hd) = None ->
  value_balance r = Ok bal ->
  (rt = Pczt -> zip212_on n (M7.target_height c) = true) ->
  (rt <> Pczt -> has_overwinter (fst hd) = true) ->
  rule_fee RZip317 (req_shape r) = shape_fee /\
  bal = M7.fee b /\
  (M7.fee b = shape_fee -> build r = Ok (assemble r hd (M7.fee b))) /\
  (M7.fee b <> shape_fee -> build r = Err (EChange (M7.fee b - shape_fee))).
Proof. exact c07_c14_agree. Qed.

(** The same without any assumption on the builder's checked arithmetic: with non-negative
    amounts every partial sum of the builder is bounded by the proposal's input total. *)
Theorem C14_c07_build : forall n x c b rt hd,
  M7.compute_balance x c = Ok b -> compatible n x c -> rt <> Deferred -> nonneg_tx x c ->
  let r := req_of n x c b rt in
  let shape_fee := S7.shape_fee x c (M7.change b) (M7.dummies b) 0 in
  run_ops r [] (r_ops r) (init_hdr r) 0 = Ok hd ->
  check_version r (r_ops r) (fst hd) = None ->
  (rt = Pczt -> zip212_on n (M7.target_height c) = true) ->
  (rt <> Pczt -> has_overwinter (fst hd) = true) ->
  rule_fee RZip317 (req_shape r) = shape_fee /\
  (M7.fee b = shape_fee -> build r = Ok (assemble r hd (M7.fee b))) /\
  (M7.fee b <> shape_fee -> build r = Err (EChange (M7.fee b - shape_fee))).
Proof. exact c07_c14_build. Qed.

(** Non-vacuity. *)
Definition ex_req : req :=
  mkReq Test 3000000 true true false (mkPad false None) (mkPad false None) []
        [TIn 60000; SOut 20000; TOut 25000 false] RZip317 Mock false.
Example ex_builds : exists b, build ex_req = Ok b /\ fee_paid b = 15000 /\ b_nout (b_sap b) = 2.
Proof. eexists. split; [vm_compute; reflexivity|split; vm_compute; reflexivity]. Qed.
Example ex_short : build (mkReq Test 3000000 true true false (mkPad false None) (mkPad false None) []
        [TIn 59999; SOut 20000; TOut 25000 false] RZip317 Mock false) = Err (EInsufficient 1).
Proof. vm_compute. reflexivity. Qed.
Example ex_over : build (mkReq Test 3000000 true true false (mkPad false None) (mkPad false None) []
        [TIn 60001; SOut 20000; TOut 25000 false] RZip317 Mock false) = Err (EChange 1).
Proof. vm_compute. reflexivity. Qed.
(** The request on which the unrepaired builder paid for two Ironwood actions that the PCZT did
    not contain is now refused when the version is proposed. *)
Example ex_required_bundle : build (mkReq Main 3428143 false false true (mkPad false None) (mkPad true None) []
        [Propose V5; TIn 1998] (RLin [0; 0; 0; 0; 0; 0; 999]) Pczt false) = Err (EAdd 0 (ETarget V5 None)).
Proof. vm_compute. reflexivity. Qed.
(** a Sapling balance outside the monetary range is refused (it used to hit an [expect]) *)
Example ex_sapling_overflow : build (mkReq Main 3000000 true false false (mkPad false None) (mkPad false None) []
        [SSpend 2100000000000001] RZip317 Mock false) = Err (EBalance true).
Proof. vm_compute. reflexivity. Qed.

Example ex_deferred : exists b, build (mkReq Main 3428150 false false false (mkPad false None) (mkPad false (Some 1)) []
        [OSpend 50000; IOut 35000] RZip317 Deferred false) = Ok b /\ b_nout (b_orc b) = 2 /\ b_nout (b_iw b) = 1 /\ fee_paid b = 15000.
Proof. eexists. split; [vm_compute; reflexivity|repeat split; vm_compute; reflexivity]. Qed.
Example ex_p2sh_missing_key : build (mkReq Main 2726500 false false false (mkPad false None) (mkPad false None) [5]
        [TInSh 40000 2 3; TOut 38069 false] (RLin [1000; 3; 1; 0; 0; 0; 0]) Build false) = Err ETransparentBuild.
Proof. vm_compute. reflexivity. Qed.

(** a proposal and the request built from it: the builder accepts it and pays C07's fee ... *)
Definition ex_x (tin : Z) : M7.txin := {| M7.t_in := [(tin, M7.Known 150)]; M7.t_out := [(25000, 34)];
  M7.s_type := M7.STx false; M7.s_in := []; M7.s_out := [20000];
  M7.o_ver := M7.OrchardV2; M7.o_in := []; M7.o_out := []; M7.i_ver := M7.IronwoodV3; M7.i_in := []; M7.i_out := [] |}.
Definition ex_c (da : M7.dust_action) : M7.config := {| M7.rule := M7.standard_rule; M7.strat := M7.Single;
  M7.dust_act := da; M7.dust_thr := None; M7.fallback := M7.Sapling; M7.tchange_allowed := false;
  M7.memo := false; M7.ephemeral := None; M7.network := M7.MainNet; M7.target_height := 3400000;
  M7.anchor_height := 3399990; M7.interval := 10 |}.
Example ex_agree : exists b t, M7.compute_balance (ex_x 60000) (ex_c M7.Reject) = Ok b /\ M7.fee b = 15000 /\
  build (req_of Main (ex_x 60000) (ex_c M7.Reject) b Build) = Ok t /\ fee_paid t = 15000.
Proof. do 2 eexists. split; [vm_compute; reflexivity|]. repeat split; vm_compute; reflexivity. Qed.
(** ... and a proposal whose dust was folded into the fee is refused with the exact excess *)
Example ex_agree_dust_folded : exists b, M7.compute_balance (ex_x 60100) (ex_c M7.AddDustToFee) = Ok b /\
  M7.fee b = 15100 /\ build (req_of Main (ex_x 60100) (ex_c M7.AddDustToFee) b Build) = Err (EChange 100).
Proof. eexists. split; [vm_compute; reflexivity|]. split; vm_compute; reflexivity. Qed.
(** ... a ZIP 320 first step (ephemeral output) and second step (ephemeral input) agree as well *)
Definition ex_c_eph (e : M7.eph) : M7.config := {| M7.rule := M7.standard_rule; M7.strat := M7.Single;
  M7.dust_act := M7.Reject; M7.dust_thr := None; M7.fallback := M7.Sapling; M7.tchange_allowed := false;
  M7.memo := false; M7.ephemeral := Some e; M7.network := M7.MainNet; M7.target_height := 3400000;
  M7.anchor_height := 3399990; M7.interval := 10 |}.
Definition ex_x_eph_out : M7.txin := {| M7.t_in := []; M7.t_out := [];
  M7.s_type := M7.STx false; M7.s_in := [100000]; M7.s_out := [];
  M7.o_ver := M7.OrchardV2; M7.o_in := []; M7.o_out := []; M7.i_ver := M7.IronwoodV3; M7.i_in := []; M7.i_out := [] |}.
Definition ex_x_eph_in : M7.txin := {| M7.t_in := []; M7.t_out := [(20000, 34)];
  M7.s_type := M7.STx false; M7.s_in := []; M7.s_out := [];
  M7.o_ver := M7.OrchardV2; M7.o_in := []; M7.o_out := []; M7.i_ver := M7.IronwoodV3; M7.i_in := []; M7.i_out := [] |}.
Example ex_agree_eph_out : exists b t, M7.compute_balance ex_x_eph_out (ex_c_eph (M7.EphOut 30000)) = Ok b /\
  M7.fee b = 15000 /\ build (req_of Main ex_x_eph_out (ex_c_eph (M7.EphOut 30000)) b Pczt) = Ok t /\ fee_paid t = 15000.
Proof. do 2 eexists. split; [vm_compute; reflexivity|]. repeat split; vm_compute; reflexivity. Qed.
Example ex_agree_eph_in : exists b t, M7.compute_balance ex_x_eph_in (ex_c_eph (M7.EphIn 30000)) = Ok b /\
  M7.fee b = 10000 /\ build (req_of Main ex_x_eph_in (ex_c_eph (M7.EphIn 30000)) b Build) = Ok t /\ fee_paid t = 10000.
Proof. do 2 eexists. split; [vm_compute; reflexivity|]. repeat split; vm_compute; reflexivity. Qed.
