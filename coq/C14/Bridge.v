(** C14 — bridge: when the model agrees with the implementation on a case, the property checker
    accepts the implementation's outcome. Together with the correspondence run this ties the
    theorems about [build] to what the real builder returned. *)
From V.Lib Require Import Base MachInt.
From V.Gen Require Import C14Consts.
From V.C14 Require Import Model SignModel Spec Corr Wf Proofs SignProofs.
From Coq Require Import ZifyBool.
Local Open Scope Z_scope.

Lemma pair_z_eqb_eq a b : pair_z_eqb a b = true <-> a = b.
Proof.
  destruct a as [a1 a2], b as [b1 b2]. unfold pair_z_eqb, pair_eqb. cbn [fst snd].
  rewrite andb_true_iff, !Z.eqb_eq. split; [intros [-> ->]; reflexivity|intros H; inversion H; auto].
Qed.

Lemma lz_eq a b : list_eqb Z.eqb a b = true <-> a = b.
Proof. apply list_eqb_spec, Z.eqb_eq. Qed.
Lemma olz_eq a b : olz_eqb a b = true <-> a = b.
Proof. apply option_eqb_spec, lz_eq. Qed.

Lemma shb_eqb_eq a b : shb_eqb a b = true <-> a = b.
Proof.
  destruct a as [a1 a2 a3 a4 a5], b as [c1 c2 c3 c4 c5]. unfold shb_eqb. cbn [sb_nsp sb_nout sb_vb sb_spv sb_outv].
  rewrite !andb_true_iff, !Z.eqb_eq, !olz_eq.
  split; [intros ((((-> & ->) & ->) & ->) & ->); reflexivity|intros H; inversion H; auto].
Qed.

Lemma bool_eqb_eq a b : Bool.eqb a b = true <-> a = b.
Proof. destruct a, b; cbn; split; congruence. Qed.

Lemma built_eqb_eq a b : built_eqb a b = true -> a = b.
Proof.
  destruct a as [a1 a2 a3 a4 a5 a6 a7 a8 a9 a10 a11 a12], b as [c1 c2 c3 c4 c5 c6 c7 c8 c9 c10 c11 c12]. unfold built_eqb.
  cbn [b_ver b_branch b_expiry b_lock b_tin b_tout b_sap b_orc b_iw b_fee_paid b_dec b_sig].
  rewrite !andb_true_iff, !Z.eqb_eq, ver_eqb_eq, !bool_eqb_eq.
  rewrite !(list_eqb_spec pair_z_eqb pair_z_eqb_eq).
  rewrite !(option_eqb_spec shb_eqb shb_eqb_eq), (option_eqb_spec Z.eqb Z.eqb_eq).
  intros (((((((((((-> & ->) & ->) & ->) & ->) & ->) & ->) & ->) & ->) & ->) & ->) & ->). reflexivity.
Qed.

Lemma pool_eqb_eq a b : pool_eqb a b = true <-> a = b.
Proof. destruct a, b; cbn; split; congruence. Qed.

Lemma berr_eqb_eq : forall a b, berr_eqb a b = true -> a = b.
Proof.
  induction a; destruct b; cbn [berr_eqb]; intros H; try discriminate; try reflexivity.
  all: first
    [ apply Z.eqb_eq in H; congruence
    | apply Bool.eqb_prop in H; congruence
    | apply andb_prop in H; destruct H as [H1 H2]; apply ver_eqb_eq in H1;
      apply (option_eqb_spec pool_eqb pool_eqb_eq) in H2; congruence
    | apply andb_prop in H; destruct H as [H1 H2]; apply Z.eqb_eq in H1; apply IHa in H2; congruence ].
Qed.

Lemma shape_eqb_refl s : shape_eqb s s = true.
Proof. unfold shape_eqb. now rewrite !lz_refl, !Z.eqb_refl. Qed.
Lemma shape_eqb_eq a b : shape_eqb a b = true <-> a = b.
Proof.
  destruct a as [a1 a2 a3 a4 a5 a6], b as [c1 c2 c3 c4 c5 c6]. unfold shape_eqb. cbn [sh_tin sh_tout sh_sin sh_sout sh_orc sh_iw].
  rewrite !andb_true_iff, !lz_eq, !Z.eqb_eq.
  split; [intros (((((-> & ->) & ->) & ->) & ->) & ->); reflexivity|intros H; inversion H; subst; repeat split; reflexivity].
Qed.

Lemma model_seen_ok r hd : deferral_refused r = false ->
  run_ops r [] (r_ops r) (init_hdr r) 0 = Ok hd ->
  model_seen r = match r_rule r with RZip317 => None | RLin _ => Some (req_shape r) end.
Proof. intros D H. unfold model_seen. rewrite D, H. destruct (r_rule r); reflexivity. Qed.

Lemma build_not_add_ok r e : build r = Err e -> (forall i e', e <> EAdd i e') -> e <> EDeferral ->
  deferral_refused r = false /\ exists hd, run_ops r [] (r_ops r) (init_hdr r) 0 = Ok hd.
Proof.
  unfold build. intros H N ND.
  destruct (deferral_refused r). { inversion H. congruence. }
  split; [reflexivity|].
  destruct (run_ops r [] (r_ops r) (init_hdr r) 0) as [hd|e0|] eqn:R; [eauto| |discriminate].
  inversion H. subst. apply run_ops_err in R. destruct R as (k & o & e' & E & _). exfalso. eapply N; eauto.
Qed.

Lemma build_ok_not_refused r b : build r = Ok b -> deferral_refused r = false.
Proof. unfold build. destruct (deferral_refused r); [discriminate|reflexivity]. Qed.

Lemma build_err_deferral r : build r = Err EDeferral ->
  is_deferred r && negb (branch_has_ironwood (branch_at (r_net r) (r_height r))) = true.
Proof.
  unfold build. intros H.
  destruct (deferral_refused r) eqn:D.
  { unfold deferral_refused in D. destruct (branch_at (r_net r) (r_height r)); exact D. }
  destruct (run_ops r [] (r_ops r) (init_hdr r) 0) as [hd|e0|] eqn:R; [| |discriminate].
  - apply finish_err in H.
    destruct H as [[E _]|(fee & Fe & [C|(C & [[E _]|(bal & V & Hc)])])]; try discriminate.
    + apply check_version_some in C. destruct C as [[q E] _]. discriminate.
    + destruct Hc as [[E _]|[[E _]|[[E _]|[[E|E] _]]]]; discriminate.
  - inversion H. subst e0. apply run_ops_err in R. destruct R as (k & o & e' & E & _). discriminate.
Qed.

Theorem bridge : forall c, wf_case c = true -> run_case c = true -> prop_case c = true.
Proof.
  intros [r seen sels o] _ H. unfold run_case in H. apply andb_prop in H. destruct H as [H Hsel].
  apply andb_prop in H. destruct H as [H Hs].
  apply (option_eqb_spec shape_eqb shape_eqb_eq) in Hs.
  apply (list_eqb_spec _ (list_eqb_spec sel_eqb sel_eqb_eq)) in Hsel.
  unfold prop_case.
  destruct (build r) as [m|em|] eqn:B; destruct o as [b|e|]; cbn [outcome_eqb] in H; try discriminate.
  - apply built_eqb_eq in H. subst m.
    pose proof (built_contents _ _ B) as Hc.
    destruct (built_fee _ _ B) as (F1 & F2 & _ & F4).
    pose proof (built_version _ _ B) as Hv.
    destruct (built_header _ _ B) as (G1 & G2 & G3 & G4 & G5 & G6).
    destruct (build_ok_inv _ _ B) as (hd & fee & R & _).
    pose proof (build_ok_not_refused _ _ B) as DR.
    rewrite Hc, Hv, G5, G6. cbn [andb].
    assert (Fo : fee_okb (r_rule r) b = true).
    { unfold fee_okb. rewrite F4, F2. apply andb_true_intro. split; [apply Z.eqb_eq; exact F1|].
      destruct (is_pczt r); cbn [andb]; auto using Z.eqb_refl. }
    assert (Ho : header_okb r b = true).
    { unfold header_okb. rewrite G1, G2, G3, G4, ver_eqb_refl, !Z.eqb_refl. reflexivity. }
    assert (So : sels_okb r b sels = true).
    { subst sels. unfold sels_okb, expected_sels. destruct (is_pczt r) eqn:Pz; [reflexivity|].
      rewrite G1. destruct (build_ok_inv _ _ B) as (hd' & fee' & R' & _ & _ & _ & _ & RT).
      unfold route_ok in RT. unfold is_pczt in Pz.
      destruct (run_ops_hdr _ _ R') as (Hv' & _ & _). rewrite <- Hv'.
      apply model_sels_ok. destruct (r_route r); try discriminate; tauto. }
    rewrite Fo, Ho, So. cbn [andb]. rewrite <- Hs, (model_seen_ok _ _ DR R), F2.
    destruct (r_rule r); [reflexivity|apply shape_eqb_refl].
  - apply berr_eqb_eq in H. subst em.
    destruct (build_err_amount _ _ B) as [A1 A2].
    destruct e; try reflexivity.
    + destruct (A1 a eq_refl) as [P1 P2].
      destruct (build_not_add_ok _ _ B ltac:(discriminate) ltac:(discriminate)) as [DR [hd R]].
      rewrite <- Hs, (model_seen_ok _ _ DR R).
      replace (0 <? a) with true by lia. replace (requested_balance (r_ops r) + a =? _) with true by lia.
      cbn [andb]. destruct (r_rule r); [reflexivity|apply shape_eqb_refl].
    + destruct (A2 a eq_refl) as [P1 P2].
      destruct (build_not_add_ok _ _ B ltac:(discriminate) ltac:(discriminate)) as [DR [hd R]].
      rewrite <- Hs, (model_seen_ok _ _ DR R).
      replace (0 <? a) with true by lia. replace (requested_balance (r_ops r) - a =? _) with true by lia.
      cbn [andb]. destruct (r_rule r); [reflexivity|apply shape_eqb_refl].
    + destruct (build_err_target _ _ _ B) as [T1 T2]. rewrite T2. subst v. now rewrite ver_eqb_refl.
    + now apply build_err_deferral.
    + destruct e; try reflexivity.
      destruct (build_err_add_target _ _ _ _ B) as [T1 T2]. rewrite T2.
      unfold is_propose. unfold is_true in T1.
      destruct (nth_error (r_ops r) (Z.to_nat i)) as [[]|]; try discriminate. now rewrite T1.
  - now apply build_panic.
Qed.
