(** C14 — bridge: when the model agrees with the implementation on a case, the property checker
    accepts the implementation's outcome. Together with the correspondence run this ties the
    theorems about [build] to what the real builder returned. *)
From V.Lib Require Import Base MachInt.
From V.Gen Require Import C14Consts.
From V.C14 Require Import Model SignModel Spec Corr Wf Proofs SignProofs.
From Coq Require Import ZifyBool.
Local Open Scope Z_scope.

Lemma pair_z_eqb_eq a b : pair_z_eqb a b = true <-> a = b.
Proof.
  destruct a as [a1 a2], b as [b1 b2]. unfold pair_z_eqb, pair_eqb. cbn [fst snd].
  rewrite andb_true_iff, !Z.eqb_eq. split; [intros [-> ->]; reflexivity|intros H; inversion H; auto].
Qed.

Lemma lz_eq a b : list_eqb Z.eqb a b = true <-> a = b.
Proof. apply list_eqb_spec, Z.eqb_eq. Qed.
Lemma olz_eq a b : olz_eqb a b = true <-> a = b.
Proof. apply option_eqb_spec, lz_eq. Qed.

Lemma shb_eqb_eq a b : shb_eqb a b = true <-> a = b.
Proof.
  destruct a as [a1 a2 a3 a4 a5], b as [c1 c2 c3 c4 c5]. unfold shb_eqb. cbn [sb_nsp sb_nout sb_vb sb_spv sb_outv].
  rewrite !andb_true_iff, !Z.eqb_eq, !olz_eq.
  split; [intros ((((-> & ->) & ->) & ->) & ->); reflexivity|intros H; inversion H; auto].
Qed.

Lemma bool_eqb_eq a b : Bool.eqb a b = true <-> a = b.
Proof. destruct a, b; cbn; split; congruence. Qed.

Lemma built_eqb_eq a b : built_eqb a b = true -> a = b.
Proof.
  destruct a as [a1 a2 a3 a4 a5 a6 a7 a8 a9 a10 a11 a12], b as [c1 c2 c3 c4 c5 c6 c7 c8 c9 c10 c11 c12]. unfold built_eqb.
  cbn [b_ver b_branch b_expiry b_lock b_tin b_tout b_sap b_orc b_iw b_fee_paid b_dec b_sig].
  rewrite !andb_true_iff, !Z.eqb_eq, ver_eqb_eq, !bool_eqb_eq.
  rewrite !(list_eqb_spec pair_z_eqb pair_z_eqb_eq).
  rewrite !(option_eqb_spec shb_eqb shb_eqb_eq), (option_eqb_spec Z.eqb Z.eqb_eq).
  intros (((((((((((-> & ->) & ->) & ->) & ->) & ->) & ->) & ->) & ->) & ->) & ->) & ->). reflexivity.
Qed.

Lemma pool_eqb_eq a b : pool_eqb a b = true <-> a = b.
Proof. destruct a, b; cbn; split; congruence. Qed.

Lemma berr_eqb_eq : forall a b, berr_eqb a b = true -> a = b.
Proof.
  induction a; destruct b; cbn [berr_eqb]; intros H; try discriminate; try reflexivity.
  all: first
    [ apply Z.eqb_eq in H; congruence
    | apply Bool.eqb_prop in H; congruence
    | apply andb_prop in H; destruct H as [H1 H2]; apply ver_eqb_eq in H1;
      apply (option_eqb_spec pool_eqb pool_eqb_eq) in H2; congruence
    | apply andb_prop in H; destruct H as [H1 H2]; apply Z.eqb_eq in H1; apply IHa in H2; congruence ].
Qed.

Lemma shape_eqb_refl s : shape_eqb s s = true.
Proof. unfold shape_eqb. now rewrite !lz_refl, !Z.eqb_refl. Qed.
Lemma shape_eqb_eq a b : shape_eqb a b = true <-> a = b.
Proof.
  destruct a as [a1 a2 a3 a4 a5 a6], b as [c1 c2 c3 c4 c5 c6]. unfold shape_eqb. cbn [sh_tin sh_tout sh_sin sh_sout sh_orc sh_iw].
  rewrite !andb_true_iff, !lz_eq, !Z.eqb_eq.
  split; [intros (((((-> & ->) & ->) & ->) & ->) & ->); reflexivity|intros H; inversion H; subst; repeat split; reflexivity].
Qed.

Lemma model_seen_ok r hd : deferral_refused r = false ->
  run_ops r [] (r_ops r) (init_hdr r) 0 = Ok hd ->
  model_seen r = if r_coinbase r then None
                 else match r_rule r with RZip317 => None | RLin _ => Some (req_shape r) end.
Proof. intros D H. unfold model_seen. rewrite D, H. destruct (r_coinbase r), (r_rule r); reflexivity. Qed.

Lemma fee_required_known ru s fee : fee_required ru s = Some fee ->
  match ru with RZip317 => has_unknown_size s | RLin _ => false end = false.
Proof. unfold fee_required. destruct (match ru with RZip317 => _ | RLin _ => false end); [discriminate|reflexivity]. Qed.

Lemma build_err_coinbase r e : build r = Err e ->
  (e = ECoinbaseExpiry -> r_coinbase r && negb (requested_expiry r =? r_height r) = true) /\
  (e = ECoinbase -> r_coinbase r && (nonempty (tin_vs (r_ops r)) || (r_height r =? 0)) = true).
Proof.
  unfold build. intros H.
  destruct (deferral_refused r). { inversion H. split; discriminate. }
  destruct (run_ops r [] (r_ops r) (init_hdr r) 0) as [hd|e0|] eqn:R; [| |discriminate].
  2:{ inversion H. subst e0. apply run_ops_err in R. destruct R as (k & o & e' & -> & _). split; discriminate. }
  destruct (run_ops_hdr _ _ R) as (_ & He & _).
  destruct (r_coinbase r).
  - destruct (is_pczt r); [inversion H; split; discriminate|].
    apply finish_cb_err in H. destruct H as [C|(_ & [[-> Hx]|[[-> Hx]|[->|[->| ->]]]])]; try (split; discriminate).
    + apply check_version_some in C. destruct C as [[p ->] _]. split; discriminate.
    + split; [intros _|discriminate]. rewrite <- He. cbn [andb]. apply negb_true_iff. lia.
    + split; [discriminate|intros _]. cbn [andb]. destruct Hx as [->|Hx]; [reflexivity|].
      rewrite Hx. cbn. now rewrite orb_true_r.
  - apply finish_err in H.
    destruct H as [[-> _]|(fee & Fe & [C|(C & [[-> _]|(bal & V & Hc)])])]; try (split; discriminate).
    + apply check_version_some in C. destruct C as [[p ->] _]. split; discriminate.
    + destruct Hc as [[-> _]|[[-> _]|[[-> _]|[[->| ->] _]]]]; split; discriminate.
Qed.

Lemma build_not_add_ok r e : build r = Err e -> (forall i e', e <> EAdd i e') -> e <> EDeferral ->
  deferral_refused r = false /\ exists hd, run_ops r [] (r_ops r) (init_hdr r) 0 = Ok hd.
Proof.
  unfold build. intros H N ND.
  destruct (deferral_refused r). { inversion H. congruence. }
  split; [reflexivity|].
  destruct (run_ops r [] (r_ops r) (init_hdr r) 0) as [hd|e0|] eqn:R; [eauto| |discriminate].
  inversion H. subst. apply run_ops_err in R. destruct R as (k & o & e' & E & _). exfalso. eapply N; eauto.
Qed.

Lemma build_ok_not_refused r b : build r = Ok b -> deferral_refused r = false.
Proof. unfold build. destruct (deferral_refused r); [discriminate|reflexivity]. Qed.

Lemma build_err_deferral r : build r = Err EDeferral ->
  is_deferred r && negb (branch_has_ironwood (branch_at (r_net r) (r_height r))) = true.
Proof.
  unfold build. intros H.
  destruct (deferral_refused r) eqn:D.
  { unfold deferral_refused in D. destruct (branch_at (r_net r) (r_height r)); exact D. }
  destruct (run_ops r [] (r_ops r) (init_hdr r) 0) as [hd|e0|] eqn:R; [| |discriminate].
  - destruct (r_coinbase r).
    { destruct (is_pczt r); [discriminate|].
      apply finish_cb_err in H. destruct H as [C|(_ & [[E _]|[[E _]|[E|[E|E]]]])]; try discriminate.
      apply check_version_some in C. destruct C as [[q E] _]. discriminate. }
    apply finish_err in H.
    destruct H as [[E _]|(fee & Fe & [C|(C & [[E _]|(bal & V & Hc)])])]; try discriminate.
    + apply check_version_some in C. destruct C as [[q E] _]. discriminate.
    + destruct Hc as [[E _]|[[E _]|[[E _]|[[E|E] _]]]]; discriminate.
  - inversion H. subst e0. apply run_ops_err in R. destruct R as (k & o & e' & E & _). discriminate.
Qed.

Lemma built_coinbase r b : r_coinbase r = true -> build r = Ok b ->
  b_tin b = [] /\ b_fee_paid b = None /\ b_expiry b = r_height r /\
  ss_vals (r_ops r) = [] /\ os_vals (r_ops r) = [] /\ is_vals (r_ops r) = [].
Proof.
  intros CB H. destruct (build_cb_ok_inv _ _ CB H) as (hd & R & _ & He & _ & _ & ->).
  destruct (no_spend_lists _ (run_ops_cb r CB _ _ _ _ _ R)) as (Z1 & Z2 & Z3).
  unfold assemble_cb. cbn [b_tin b_fee_paid b_expiry]. repeat split; auto.
Qed.

Lemma tin_nil_coins ops : tin_vs ops = [] -> forall pos, coins_from pos ops = [].
Proof.
  unfold tin_vs. induction ops as [|o ops IH]; intros H pos; [reflexivity|].
  cbn [flat_map] in H. apply app_eq_nil in H. destruct H as [H1 H2].
  destruct o; cbn in *; try discriminate; auto.
Qed.

Theorem bridge : forall c,
  wf_case c = true -> known_class c = 0%N -> run_case c = true -> prop_case c = true.
Proof.
  intros [r seen sels o] _ KC H. unfold run_case in H. apply andb_prop in H. destruct H as [H Hsel].
  apply andb_prop in H. destruct H as [H Hs].
  apply (option_eqb_spec shape_eqb shape_eqb_eq) in Hs.
  apply (list_eqb_spec _ (list_eqb_spec sel_eqb sel_eqb_eq)) in Hsel.
  unfold prop_case.
  destruct (build r) as [m|em|] eqn:B; destruct o as [b|e|]; cbn [outcome_eqb] in H; try discriminate.
  - apply built_eqb_eq in H. subst m.
    pose proof (built_contents _ _ B) as Hc.
    pose proof (built_version _ _ B) as Hv.
    destruct (built_header _ _ B) as (G1 & G2 & G3 & G4 & G5 & G6).
    pose proof (build_ok_not_refused _ _ B) as DR.
    assert (G6' : b_sig b = true).
    { rewrite G6. cbn [known_class] in KC. destruct (malformed_script_sig r); [discriminate|reflexivity]. }
    rewrite Hc, Hv, G5, G6'. cbn [andb].
    assert (Ho : header_okb r b = true).
    { unfold header_okb. rewrite G1, G2, G3, G4, ver_eqb_refl, !Z.eqb_refl. reflexivity. }
    rewrite Ho. cbn [andb].
    destruct (r_coinbase r) eqn:CB.
    + destruct (build_cb_ok_inv _ _ CB B) as (hd & R & _ & _ & TI & _ & Eb).
      assert (So : sels_okb r b sels = true).
      { subst sels. unfold sels_okb, expected_sels. destruct (is_pczt r); [reflexivity|].
        unfold model_sels, coins_of. rewrite (tin_nil_coins _ TI). reflexivity. }
      rewrite So. cbn [andb]. rewrite <- Hs, (model_seen_ok _ _ DR R), CB.
      destruct (built_coinbase _ _ CB B) as (T1 & T2 & T3 & _). rewrite T1, T2, T3, Z.eqb_refl. reflexivity.
    + destruct (built_fee _ _ CB B) as (F1 & F2 & _ & F4).
      destruct (build_ok_inv _ _ CB B) as (hd & fee & R & Fe & _ & _ & _ & RT).
      assert (Fo : fee_okb (r_rule r) b = true).
      { unfold fee_okb. rewrite F4, F2, (fee_required_known _ _ _ Fe). cbn [negb andb].
        apply andb_true_intro. split; [apply Z.eqb_eq; exact F1|].
        destruct (is_pczt r); cbn [andb]; auto using Z.eqb_refl. }
      assert (So : sels_okb r b sels = true).
      { subst sels. unfold sels_okb, expected_sels. destruct (is_pczt r) eqn:Pz; [reflexivity|].
        rewrite G1. unfold route_ok in RT. unfold is_pczt in Pz.
        destruct (run_ops_hdr _ _ R) as (Hv' & _ & _). rewrite <- Hv'.
        apply model_sels_ok. destruct (r_route r); try discriminate; tauto. }
      rewrite Fo, So. cbn [andb]. rewrite <- Hs, (model_seen_ok _ _ DR R), CB, F2.
      destruct (r_rule r); [reflexivity|apply shape_eqb_refl].
  - apply berr_eqb_eq in H. subst em.
    destruct (build_err_amount _ _ B) as [A1 A2].
    destruct (build_err_coinbase _ _ B) as [K1 K2].
    destruct e; try reflexivity.
    + destruct (A1 a eq_refl) as [P1 P2].
      destruct (build_not_add_ok _ _ B ltac:(discriminate) ltac:(discriminate)) as [DR [hd R]].
      rewrite <- Hs, (model_seen_ok _ _ DR R).
      replace (0 <? a) with true by lia. replace (requested_balance (r_ops r) + a =? _) with true by lia.
      cbn [andb]. destruct (r_coinbase r); [reflexivity|]. destruct (r_rule r); [reflexivity|apply shape_eqb_refl].
    + destruct (A2 a eq_refl) as [P1 P2].
      destruct (build_not_add_ok _ _ B ltac:(discriminate) ltac:(discriminate)) as [DR [hd R]].
      rewrite <- Hs, (model_seen_ok _ _ DR R).
      replace (0 <? a) with true by lia. replace (requested_balance (r_ops r) - a =? _) with true by lia.
      cbn [andb]. destruct (r_coinbase r); [reflexivity|]. destruct (r_rule r); [reflexivity|apply shape_eqb_refl].
    + destruct (build_err_target _ _ _ B) as [T1 T2]. rewrite T2. subst v. now rewrite ver_eqb_refl.
    + now apply build_err_deferral.
    + now apply K2.
    + now apply K1.
    + destruct e; try reflexivity.
      destruct (build_err_add_target _ _ _ _ B) as [T1 T2]. rewrite T2.
      unfold is_propose. unfold is_true in T1.
      destruct (nth_error (r_ops r) (Z.to_nat i)) as [[]|]; try discriminate. now rewrite T1.
  - now apply build_panic.
Qed.


(** the known finding as a witness *)
Definition refuting_req : req :=
  mkReq Main 2726506 false false false (mkPad false None) (mkPad false None) [4; 5; 6; 7; 8]
        [TInSh 40000 3 5; TOut 25000 true] RZip317 Build false.
Lemma script_sig_refuted : exists r b, build r = Ok b /\ wf_req r = true /\ b_sig b = false.
Proof. exists refuting_req. eexists. split; [vm_compute; reflexivity|]. split; vm_compute; reflexivity. Qed.


