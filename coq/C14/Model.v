(** C14 — executable model of the transaction builder
    (zcash_primitives/src/transaction/builder.rs: Builder::new, add_*, propose_version,
    check_version_compatibility, get_fee, value_balance, build / build_internal, build_for_pczt;
    fees/zip317.rs; sapling-crypto BundleType::{num_spends,num_outputs}; orchard
    BundleType::num_actions; TransactionData::fee_paid).

    A request is the sequence of calls made on a fresh builder. The builder's internal lists are
    identified with the projections of the accepted calls ([tin_vals], [so_vals], ...). The model
    is of the code *after* the C14 fix (a bundle required by the padding policy counts as
    "in use" for the version check). No proofs in this file. *)
From V.Lib Require Import Base MachInt.
From V.Gen Require Import C14Consts.
Local Open Scope Z_scope.

(* ---------------------------------------------------------------- types *)
Inductive net := Main | Test.
Inductive branch :=
| BSprout | BOverwinter | BSapling | BBlossom | BHeartwood | BCanopy
| BNu5 | BNu6 | BNu6_1 | BNu6_2 | BNu6_3.
Inductive ver := VSprout (n : Z) | V3 | V4 | V5 | V6.
Inductive pool := PTransparent | PSapling | POrchard | POther.
Record pad := mkPad { p_req : bool; p_min : option Z }.

Inductive op :=
| TIn (v : Z)                     (* add_transparent_p2pkh_input, coin value v *)
| TInSh (v m n : Z)               (* add_transparent_p2sh_input: m-of-n multisig coin whose redeem
                                     script lists the multisig keys 4 .. 4+n-1 in that order *)
| TInRaw (v : Z)                  (* add_transparent_p2sh_input with a redeem script that is not a
                                     standard template (its input size is unknown, it cannot be signed) *)
| TOut (v : Z) (p2sh : bool)      (* add_transparent_output *)
| TNull (len : Z)                 (* add_transparent_null_data_output, len bytes *)
| SSpend (v : Z) | SOut (v : Z)   (* add_sapling_spend / add_sapling_output *)
| OSpend (v : Z) | OOut (v : Z) | OChange (v : Z)
| ISpend (v : Z) (nv3 : bool) | IOut (v : Z)
| Propose (v : ver)               (* propose_version *)
| Expiry (h : Z).                 (* with_expiry_height *)

Inductive rule := RZip317 | RLin (c : list Z).
Inductive route := Mock | Build | Pczt | Deferred.   (* Deferred: DeferredPcztBuilder *)

Record req := mkReq {
  r_net : net; r_height : Z;
  r_sap : bool; r_orc : bool; r_iw : bool;      (* anchors supplied in BuildConfig::Standard *)
  r_opad : pad; r_ipad : pad;
  r_keys : list Z;                (* multisig keys present in the TransparentSigningSet *)
  r_ops : list op; r_rule : rule; r_route : route;
  r_coinbase : bool }.            (* BuildConfig::Coinbase { miner_data: None } (transaction routes) *)

(** What a fee rule is asked about. *)
Record shape := mkSeen {
  sh_tin : list Z; sh_tout : list Z; sh_sin : Z; sh_sout : Z; sh_orc : Z; sh_iw : Z }.

Inductive berr :=
| EInsufficient (a : Z) | EChange (a : Z)
| EFeeRule | EFeeBundle
| EBalance (overflow : bool)
| ETarget (v : ver) (p : option pool)
| ETransparentBuild
| ESaplingZip212 | ESaplingAmount | ESaplingBuild
| EOrchardBuild | EIronwoodBuild | EOrchardSpend | EOrchardRecipient
| EIronwoodSpend | EIronwoodNoteVersion | EIronwoodRecipient
| ESaplingNA | EOrchardNA | EIronwoodNA
| EOther
| EDeferral                       (* AnchorDeferralUnsupported *)
| ECoinbase                       (* Error::Coinbase: inputs in a coinbase transaction, genesis height *)
| ECoinbaseExpiry                 (* CoinbaseExpiryHeightMismatch *)
| EAdd (i : Z) (e : berr).        (* the i-th call on the builder failed with e *)

(** One shielded bundle as observed: counts, value balance and — where the route exposes note
    values (PCZT) — the sorted spend and output values. *)
Record shb := mkShb {
  sb_nsp : Z; sb_nout : Z; sb_vb : Z; sb_spv : option (list Z); sb_outv : option (list Z) }.

Record built := mkBuilt {
  b_ver : ver; b_branch : Z; b_expiry : Z; b_lock : Z;
  b_tin : list (Z * Z);           (* (value of the spent coin, size the input is charged for) *)
  b_tout : list (Z * Z);          (* (value, serialized size) of each output, in order *)
  b_sap : option shb; b_orc : option shb; b_iw : option shb;
  b_fee_paid : option Z;          (* TransactionData::fee_paid (transaction routes only) *)
  b_dec : bool;                   (* observed: every requested recipient decrypts value+memo *)
  b_sig : bool }.                 (* observed: every transparent signature verifies (tx routes);
                                     PCZT route: Creator::build_from_parts kept header and counts *)

(* ---------------------------------------------------------------- consensus tables *)
Definition upgrades : list branch :=
  [BOverwinter; BSapling; BBlossom; BHeartwood; BCanopy; BNu5; BNu6; BNu6_1; BNu6_2; BNu6_3].
Definition heights_of (n : net) : list Z := match n with Main => main_heights | Test => test_heights end.

(** BranchId::for_height: the last upgrade (in order) that is active at [h]. *)
Fixpoint pick_branch (l : list (branch * Z)) (h : Z) (acc : branch) : branch :=
  match l with
  | [] => acc
  | (b, a) :: r => if a <=? h then pick_branch r h b else pick_branch r h acc
  end.
Definition branch_at (n : net) (h : Z) : branch := pick_branch (combine upgrades (heights_of n)) h BSprout.

Definition branch_index (b : branch) : nat :=
  match b with
  | BSprout => 0 | BOverwinter => 1 | BSapling => 2 | BBlossom => 3 | BHeartwood => 4
  | BCanopy => 5 | BNu5 => 6 | BNu6 => 7 | BNu6_1 => 8 | BNu6_2 => 9 | BNu6_3 => 10
  end%nat.
Definition branch_id (b : branch) : Z := nth (branch_index b) branch_ids 0.
Definition activation (n : net) (b : branch) : Z := nth (pred (branch_index b)) (heights_of n) 0.

Definition branch_has_sapling (b : branch) : bool :=
  match b with BSprout | BOverwinter => false | _ => true end.
Definition branch_has_orchard (b : branch) : bool :=
  match b with BNu5 | BNu6 | BNu6_1 | BNu6_2 | BNu6_3 => true | _ => false end.
Definition branch_has_ironwood (b : branch) : bool := match b with BNu6_3 => true | _ => false end.

(** TxVersion *)
Definition suggested_for_branch (b : branch) : ver :=
  match b with
  | BSprout => VSprout 2 | BOverwinter => V3
  | BSapling | BBlossom | BHeartwood | BCanopy => V4
  | BNu5 | BNu6 | BNu6_1 | BNu6_2 => V5
  | BNu6_3 => V6
  end.
Definition valid_in_branch (v : ver) (b : branch) : bool :=
  match v with
  | VSprout _ => match b with BSprout => true | _ => false end
  | V3 => match b with BOverwinter => true | _ => false end
  | V4 => match b with BSprout | BOverwinter => false | _ => true end
  | V5 => branch_has_orchard b
  | V6 => match b with BNu6_3 => true | _ => false end
  end.
Definition has_sapling (v : ver) : bool := match v with VSprout _ | V3 => false | _ => true end.
Definition has_orchard (v : ver) : bool := match v with V5 | V6 => true | _ => false end.
Definition has_ironwood (v : ver) : bool := match v with V6 => true | _ => false end.
Definition has_overwinter (v : ver) : bool := match v with VSprout _ => false | _ => true end.

(** zip212_enforcement = On *)
Definition zip212_on (n : net) (h : Z) : bool := activation n BCanopy + ZIP212_GRACE_PERIOD <=? h.

(* ---------------------------------------------------------------- projections of the calls *)
Definition nulldata_size (len : Z) : Z :=
  8 + 1 + 1 + (if len =? 0 then 1 else if len <=? 75 then 1 + len else 2 + len).

(** TransparentInputInfo::serialized_len of an m-of-n multisig P2SH input: prevout, CompactSize,
    OP_0, m maximal signatures, the pushed redeem script (OP_m, n 33-byte keys, OP_n,
    OP_CHECKMULTISIG), sequence. *)
Definition p2sh_input_size (m n : Z) : Z :=
  let rs := 3 + 34 * n in
  let push := if rs <=? 75 then 1 + rs else if rs <=? 255 then 2 + rs else 3 + rs in
  let sl := 1 + 74 * m + push in
  36 + (if sl <? 253 then 1 else 3) + sl + 4.

Definition tin_of (o : op) : list (Z * Z) :=
  match o with
  | TIn v => [(v, P2PKH_STANDARD_INPUT_SIZE)]
  | TInSh v m n => [(v, p2sh_input_size m n)]
  | TInRaw v => [(v, -1)]               (* InputSize::Unknown *)
  | _ => []
  end.
(** how each transparent input is spent *)
Inductive tkind := KPkh | KSh (m n : Z) | KRaw.
Definition tk_of (o : op) : list tkind :=
  match o with TIn _ => [KPkh] | TInSh _ m n => [KSh m n] | TInRaw _ => [KRaw] | _ => [] end.
Definition tout_of (o : op) : list (Z * Z) :=
  match o with
  | TOut v p2sh => [(v, if p2sh then 32 else 34)]
  | TNull len => [(0, nulldata_size len)]
  | _ => []
  end.
Definition ss_of (o : op) : list Z := match o with SSpend v => [v] | _ => [] end.
Definition so_of (o : op) : list Z := match o with SOut v => [v] | _ => [] end.
Definition os_of (o : op) : list Z := match o with OSpend v => [v] | _ => [] end.
Definition oo_of (o : op) : list Z := match o with OOut v => [v] | _ => [] end.
Definition oc_of (o : op) : list Z := match o with OChange v => [v] | _ => [] end.
Definition is_of (o : op) : list Z := match o with ISpend v _ => [v] | _ => [] end.
Definition io_of (o : op) : list Z := match o with IOut v => [v] | _ => [] end.

Definition tin_vs := flat_map tin_of.
Definition tin_vals (ops : list op) : list Z := map fst (tin_vs ops).
Definition tkinds := flat_map tk_of.
Definition tout_vs := flat_map tout_of.
Definition ss_vals := flat_map ss_of.
Definition so_vals := flat_map so_of.
Definition os_vals := flat_map os_of.
Definition oo_vals := flat_map oo_of.
Definition oc_vals := flat_map oc_of.
Definition is_vals := flat_map is_of.
Definition io_vals := flat_map io_of.

Definition zsum (l : list Z) : Z := fold_right Z.add 0 l.
Definition len {A} (l : list A) : Z := Z.of_nat (length l).
Definition nonempty {A} (l : list A) : bool := match l with [] => false | _ => true end.

(* ---------------------------------------------------------------- builder environment *)
(** Which bundle builders Builder::new creates. *)
Record env := mkEnv { e_branch : branch; e_sap : bool; e_orc : bool; e_iw : bool; e_cross : bool }.
Definition is_deferred (r : req) : bool := match r_route r with Deferred => true | _ => false end.
Definition env_of (r : req) : env :=
  let br := branch_at (r_net r) (r_height r) in
  {| e_branch := br;
     (* DeferredPcztBuilder: no Sapling, both Orchard-family builders always exist *)
     (* Coinbase: a Sapling builder always; an Orchard builder on the branches whose Orchard pool
        still accepts coinbase outputs (NU5 .. NU6.2); an Ironwood builder from NU6.3 on *)
     e_sap := if r_coinbase r then true else negb (is_deferred r) && r_sap r;
     e_orc := if r_coinbase r then branch_has_orchard br && negb (branch_has_ironwood br)
              else is_deferred r || (r_orc r && branch_has_orchard br);
     e_iw := if r_coinbase r then has_ironwood (suggested_for_branch br)
             else is_deferred r || (r_iw r && has_ironwood (suggested_for_branch br));
     (* orchard BundleVersion::default_flags: cross-address transfers are disabled for the
        Orchard pool under protocol revision V3 (NU6.3) *)
     e_cross := negb (branch_has_ironwood br) |}.

(* ---------------------------------------------------------------- padding rules (external crates) *)
(** sapling::builder::BundleType::DEFAULT.num_outputs *)
Definition sapling_num_outputs (spends outs : Z) : Z :=
  if (0 <? spends) || (0 <? outs) then Z.max outs MIN_SHIELDED_OUTPUTS else 0.
(** sapling::builder::BundleType::DEFAULT.num_spends *)
Definition sapling_num_spends (spends : Z) : Z := if 0 <? spends then Z.max spends 1 else 0.
(** orchard::builder::BundleType::Transactional.num_actions (spends and outputs enabled) *)
Definition orchard_num_actions (p : pad) (cross : bool) (spends outs : Z) : Z :=
  let requested := if cross then Z.max spends outs else spends + outs in
  let m0 := match p_min p with Some m => m | None => DEFAULT_MIN_ACTIONS end in
  let m := if p_req p then Z.max m0 1 else m0 in
  if p_req p || (0 <? requested) then Z.max requested m else 0.

(** The shape Builder::get_fee passes to the fee rule. *)
Definition shape_of (r : req) (ops : list op) : shape :=
  let e := env_of r in
  let sin := len (ss_vals ops) in
  {| sh_tin := map snd (tin_vs ops);
     sh_tout := map snd (tout_vs ops);
     sh_sin := sin;
     sh_sout := if e_sap e then sapling_num_outputs sin (len (so_vals ops)) else 0;
     sh_orc := if e_orc e
               then orchard_num_actions (r_opad r) (e_cross e) (len (os_vals ops))
                                        (len (oo_vals ops) + len (oc_vals ops))
               else 0;
     sh_iw := if e_iw e
              then orchard_num_actions (r_ipad r) true (len (is_vals ops)) (len (io_vals ops))
              else 0 |}.
Definition req_shape (r : req) : shape := shape_of r (r_ops r).

(* ---------------------------------------------------------------- fee rules *)
Definition ceildiv (a b : Z) : Z := (a + b - 1) / b.

(** zip317::FeeRule::standard().fee_required *)
Definition zip317_logical (s : shape) : Z :=
  Z.max (ceildiv (zsum (sh_tin s)) P2PKH_STANDARD_INPUT_SIZE)
        (ceildiv (zsum (sh_tout s)) P2PKH_STANDARD_OUTPUT_SIZE)
  + Z.max (sh_sin s) (sh_sout s) + sh_orc s + sh_iw s.
Definition zip317_fee (s : shape) : Z := MARGINAL_FEE * Z.max GRACE_ACTIONS (zip317_logical s).

(** the recording rule of the harness counts an input of unknown size as 0 bytes *)
Definition lin_fee (c : list Z) (s : shape) : Z :=
  nth 0 c 0 + nth 1 c 0 * zsum (map (Z.max 0) (sh_tin s)) + nth 2 c 0 * zsum (sh_tout s)
  + nth 3 c 0 * sh_sin s + nth 4 c 0 * sh_sout s + nth 5 c 0 * sh_orc s + nth 6 c 0 * sh_iw s.

(** The exact (unbounded) fee of a rule, and the rule as executed (fails above MAX_MONEY). *)
Definition rule_fee (ru : rule) (s : shape) : Z :=
  match ru with RZip317 => zip317_fee s | RLin c => lin_fee c s end.
(** zip317: an input of unknown size is FeeError::UnknownP2shInputs *)
Definition has_unknown_size (s : shape) : bool := existsb (fun z => z <? 0) (sh_tin s).
Definition fee_required (ru : rule) (s : shape) : option Z :=
  let f := rule_fee ru s in
  if (match ru with RZip317 => has_unknown_size s | RLin _ => false end) then None
  else if f <=? MAX_MONEY then Some f else None.

(* ---------------------------------------------------------------- version check *)
Definition orchard_in_use (r : req) (ops : list op) : bool :=
  e_orc (env_of r) &&
  (nonempty (os_vals ops) || nonempty (oo_vals ops) || nonempty (oc_vals ops)
   || (negb (r_coinbase r) && p_req (r_opad r))).
Definition ironwood_in_use (r : req) (ops : list op) : bool :=
  e_iw (env_of r) && (nonempty (is_vals ops) || nonempty (io_vals ops)
                      || (negb (r_coinbase r) && p_req (r_ipad r))).
Definition sapling_in_use (ops : list op) : bool := nonempty (ss_vals ops) || nonempty (so_vals ops).

(** Builder::check_version_compatibility on a builder holding the accepted calls [ops]. *)
Definition check_version (r : req) (ops : list op) (v : ver) : option berr :=
  let br := e_branch (env_of r) in
  if negb (valid_in_branch v br) then Some (ETarget v None)
  else if negb (has_sapling v && branch_has_sapling br) && sapling_in_use ops
       then Some (ETarget v (Some PSapling))
  else if negb (has_orchard v && branch_has_orchard br) && orchard_in_use r ops
       then Some (ETarget v (Some POrchard))
  else if negb (has_ironwood v && branch_has_ironwood br) && ironwood_in_use r ops
       then Some (ETarget v None)
  else None.

(* ---------------------------------------------------------------- the calls *)
Definition sapling_balance (ops : list op) : Z := zsum (ss_vals ops) - zsum (so_vals ops).

(** One call on a builder that already accepted [done]. Returns the error of the call, if any. *)
Definition deferred_op (o : op) : bool :=
  match o with OSpend _ | OOut _ | OChange _ | ISpend _ _ | IOut _ | Expiry _ => true | _ => false end.

Definition step_err (r : req) (done : list op) (o : op) : option berr :=
  let e := env_of r in
  if is_deferred r && negb (deferred_op o) then Some EOther   (* not in that builder's interface *)
  else match o with
  | TIn _ | TInSh _ _ _ | TInRaw _ | TOut _ _ | Expiry _ => None
  | TNull n => if 80 <? n then Some ETransparentBuild else None
  | SSpend _ | SOut _ =>
      if negb (e_sap e) then Some ESaplingNA
      (* a coinbase Sapling bundle takes no spends (BundleTypeNotSatisfiable) *)
      else if r_coinbase r && (match o with SSpend _ => true | _ => false end) then Some ESaplingBuild
      else if in_i64 (sapling_balance (done ++ [o])) then None else Some ESaplingAmount
  | OSpend _ => if negb (e_orc e) then Some EOrchardNA
                else if r_coinbase r then Some EOrchardSpend       (* SpendsDisabled *)
                else None
  | OChange _ => if e_orc e then None else Some EOrchardNA
  | OOut _ => if negb (e_orc e) then Some EOrchardNA
              else if e_cross e then None else Some EOrchardRecipient
  | ISpend _ nv3 => if negb (e_iw e) then Some EIronwoodNA
                    else if negb nv3 then Some EIronwoodNoteVersion
                    else if r_coinbase r then Some EIronwoodSpend  (* SpendsDisabled *)
                    else None
  | IOut _ => if e_iw e then None else Some EIronwoodNA
  | Propose v => check_version r done v
  end.

(** Header state changed by the calls: (tx_version, expiry_height). *)
Definition step_hdr (hd : ver * Z) (o : op) : ver * Z :=
  match o with
  | Propose v => (v, snd hd)
  | Expiry h => (fst hd, h)
  | _ => hd
  end.

Fixpoint run_ops (r : req) (done todo : list op) (hd : ver * Z) (i : Z) : outcome (ver * Z) berr :=
  match todo with
  | [] => Ok hd
  | o :: rest =>
      match step_err r done o with
      | Some e => Err (EAdd i e)
      | None => run_ops r (done ++ [o]) rest (step_hdr hd o) (i + 1)
      end
  end.

Definition init_hdr (r : req) : ver * Z :=
  (suggested_for_branch (branch_at (r_net r) (r_height r)),
   if r_coinbase r then r_height r else Z.min (r_height r + DEFAULT_TX_EXPIRY_DELTA) u32_max).

(* ---------------------------------------------------------------- value balance *)
(** Sum of Zatoshis (Option): fails when a partial sum exceeds MAX_MONEY. *)
Fixpoint zat_sum_from (acc : Z) (l : list Z) : option Z :=
  match l with
  | [] => Some acc
  | x :: t => if acc + x <=? MAX_MONEY then zat_sum_from (acc + x) t else None
  end.
Definition zat_sum := zat_sum_from 0.

(** orchard Builder::value_balance::<ZatBalance>: spends, outputs, changes folded through
    ValueSum (range +-(2^64-1)), then i64, then ZatBalance. *)
Fixpoint vsum_from (acc : Z) (l : list Z) : option Z :=
  match l with
  | [] => Some acc
  | x :: t => if in_range (- u64_max) u64_max (acc + x) then vsum_from (acc + x) t else None
  end.
Definition orchard_balance (spends outs : list Z) : option Z :=
  match vsum_from 0 (spends ++ map Z.opp outs) with
  | Some v => if in_range (- MAX_MONEY) MAX_MONEY v then Some v else None
  | None => None
  end.

Definition in_bal (x : Z) : bool := in_range (- MAX_MONEY) MAX_MONEY x.

(** Builder::value_balance (after the C14 fix: a Sapling balance outside the monetary range is
    BalanceError::Overflow, like the Orchard and Ironwood balances). *)
Definition value_balance (r : req) : outcome Z berr :=
  let e := env_of r in
  let ops := r_ops r in
  match zat_sum (tin_vals ops), zat_sum (map fst (tout_vs ops)) with
  | Some i, Some o =>
      let t := i - o in
      let s := if e_sap e then sapling_balance ops else 0 in
      if negb (in_bal s) then Err (EBalance true)
      else match (if e_orc e then orchard_balance (os_vals ops) (oo_vals ops ++ oc_vals ops) else Some 0) with
      | None => Err (EBalance true)
      | Some ob =>
        match (if e_iw e then orchard_balance (is_vals ops) (io_vals ops) else Some 0) with
        | None => Err (EBalance true)
        | Some ib =>
            if in_bal (t + s) && in_bal (t + s + ob) && in_bal (t + s + ob + ib)
            then Ok (t + s + ob + ib) else Err (EBalance true)
        end
      end
  | _, _ => Err (EBalance true)
  end.

(* ---------------------------------------------------------------- assembling the result *)
Fixpoint zinsert (x : Z) (l : list Z) : list Z :=
  match l with
  | [] => [x]
  | y :: t => if x <=? y then x :: l else y :: zinsert x t
  end.
Definition zsort (l : list Z) : list Z := fold_right zinsert [] l.
Definition zeros (n : Z) : list Z := repeat 0 (Z.to_nat n).

(** requested values plus zero-valued dummies up to [n] entries *)
Definition padded (vals : list Z) (n : Z) : list Z := vals ++ zeros (n - len vals).

Definition mk_bundle (known : bool) (nsp nout vb : Z) (sp outs : list Z) : shb :=
  {| sb_nsp := nsp; sb_nout := nout; sb_vb := vb;
     sb_spv := if known then Some (zsort (padded sp nsp)) else None;
     sb_outv := if known then Some (zsort (padded outs nout)) else None |}.

(** routes whose result is a PCZT (note values visible, no signatures yet) *)
Definition is_pczt (r : req) : bool := match r_route r with Pczt | Deferred => true | _ => false end.

(** KNOWN FINDING (external crate): zcash_script 0.4.3 serialises the length byte of an
    OP_PUSHDATA1 push as a script number, which takes two bytes for lengths 128..255. The pushed
    redeem script of an m-of-n multisig with 4 <= n <= 7 keys (139..241 bytes) is therefore
    malformed: a script interpreter reads a one-byte length, the scriptSig is not push-only and
    the input cannot be spent with it. The builder returns Ok all the same. *)
Definition push_len_bug (n : Z) : bool := let rs := 3 + 34 * n in (128 <=? rs) && (rs <=? 255).
Definition malformed_script_sig (r : req) : bool :=
  negb (is_pczt r)
  && existsb (fun k => match k with KSh _ n => push_len_bug n | _ => false end) (tkinds (r_ops r)).

Definition assemble (r : req) (hd : ver * Z) (fee : Z) : built :=
  let e := env_of r in
  let ops := r_ops r in
  let s := req_shape r in
  let pczt := is_pczt r in
  let dfr := is_deferred r in
  let nsp := sapling_num_spends (sh_sin s) in
  let sap := if e_sap e && (pczt || (0 <? nsp + sh_sout s))
             then Some (mk_bundle pczt nsp (sh_sout s) (sapling_balance ops) (ss_vals ops) (so_vals ops))
             else None in
  (* Builder: a PCZT bundle for every builder that exists, a transaction bundle when it has
     actions. DeferredPcztBuilder: a bundle exactly when one is expected (something was added or
     the padding requires it). *)
  let orc := if (if dfr then orchard_in_use r ops else e_orc e && (pczt || (0 <? sh_orc s)))
             then Some (mk_bundle pczt (sh_orc s) (sh_orc s)
                          (zsum (os_vals ops) - zsum (oo_vals ops) - zsum (oc_vals ops))
                          (os_vals ops) (oo_vals ops ++ oc_vals ops))
             else None in
  let iw := if (if dfr then ironwood_in_use r ops
                else e_iw e && (if pczt then has_ironwood (fst hd) else 0 <? sh_iw s))
            then Some (mk_bundle pczt (sh_iw s) (sh_iw s)
                         (zsum (is_vals ops) - zsum (io_vals ops)) (is_vals ops) (io_vals ops))
            else None in
  {| b_ver := fst hd; b_branch := branch_id (e_branch e); b_expiry := snd hd; b_lock := 0;
     b_tin := tin_vs ops; b_tout := tout_vs ops;
     b_sap := sap; b_orc := orc; b_iw := iw;
     b_fee_paid := if pczt then None else Some fee;
     b_dec := true; b_sig := negb (malformed_script_sig r) |}.

(** Bundle::<Unauthorized>::apply_signatures, multisig arm: walking the redeem script's public
    keys (4 .. 4+n-1) in order, one signature per key found in the signing set until m are
    collected; MissingSigningKey when fewer than m are found. *)
Definition script_keys (n : Z) : list Z := map (fun j => 4 + Z.of_nat j) (seq 0 (Z.to_nat n)).
Definition registered (keys : list Z) (k : Z) : bool := existsb (Z.eqb k) keys.
Definition signing_keys (keys : list Z) (m n : Z) : list Z :=
  firstn (Z.to_nat m) (filter (registered keys) (script_keys n)).
Definition p2sh_signable (keys : list Z) (mn : Z * Z) : bool :=
  len (signing_keys keys (fst mn) (snd mn)) =? fst mn.

(** which inputs can be signed *)
Definition signable_kind (keys : list Z) (k : tkind) : bool :=
  match k with KPkh => true | KSh m n => p2sh_signable keys (m, n) | KRaw => false end.

(** apply_signatures over the inputs in order ([ow]: the version has Overwinter, i.e. its
    signature hash is defined). P2PKH: the key is found, then the sighash is computed; multisig:
    the sighash is computed, then the keys are looked up; a redeem script that is not a standard
    template is UnsupportedScript before any hashing. The first failure decides; without inputs the
    shielded sighash is still computed. *)
Fixpoint sign_check (ow : bool) (keys : list Z) (ks : list tkind) : outcome unit berr :=
  match ks with
  | [] => if ow then Ok tt else Panic
  | KPkh :: r => if ow then sign_check ow keys r else Panic
  | KSh m n :: r => if negb ow then Panic
                    else if p2sh_signable keys (m, n) then sign_check ow keys r else Err ETransparentBuild
  | KRaw :: _ => Err ETransparentBuild
  end.

(** Builder::build (Standard) / mock_build / build_for_pczt, and
    DeferredPcztBuilder::build_for_pczt, after the calls. (The deferred builder does not call
    check_version_compatibility; on the V6 / NU6.3 branch it can be constructed for, that check
    accepts everything the builder can hold, so the model keeps one code path.) *)
Definition finish (r : req) (hd : ver * Z) : outcome built berr :=
  match fee_required (r_rule r) (req_shape r) with
  | None => Err EFeeRule
  | Some fee =>
    match check_version r (r_ops r) (fst hd) with
    | Some e => Err e
    | None =>
      match value_balance r with
      | Panic => Panic
      | Err e => Err e
      | Ok bal =>
          if bal - fee <? - MAX_MONEY then Err (EBalance false)
          else if bal - fee <? 0 then Err (EInsufficient (fee - bal))
          else if 0 <? bal - fee then Err (EChange (bal - fee))
          else match r_route r with
               | Pczt | Deferred =>
                   if e_sap (env_of r) && negb (zip212_on (r_net r) (r_height r))
                   then Err ESaplingZip212 else Ok (assemble r hd fee)
               | _ =>
                   (* sighash_v4: "Signature hashing for pre-overwinter transactions is not supported" *)
                   match sign_check (has_overwinter (fst hd)) (r_keys r) (tkinds (r_ops r)) with
                   | Ok _ => Ok (assemble r hd fee)
                   | Err e => Err e
                   | Panic => Panic
                   end
               end
      end
    end
  end.

(** Builder::build with BuildConfig::Coinbase: no fee and no balance check; the expiry height must
    be the target height; no transparent inputs; bundles hold exactly the requested outputs. *)
Definition assemble_cb (r : req) (hd : ver * Z) : built :=
  let e := env_of r in
  let ops := r_ops r in
  let oouts := oo_vals ops ++ oc_vals ops in
  {| b_ver := fst hd; b_branch := branch_id (e_branch e); b_expiry := snd hd; b_lock := 0;
     b_tin := []; b_tout := tout_vs ops;
     b_sap := if 0 <? len (so_vals ops)
              then Some (mk_bundle false 0 (len (so_vals ops)) (- zsum (so_vals ops)) [] (so_vals ops)) else None;
     b_orc := if e_orc e && (0 <? len oouts)
              then Some (mk_bundle false (len oouts) (len oouts) (- zsum oouts) [] oouts) else None;
     b_iw := if e_iw e && (0 <? len (io_vals ops))
             then Some (mk_bundle false (len (io_vals ops)) (len (io_vals ops)) (- zsum (io_vals ops)) [] (io_vals ops))
             else None;
     b_fee_paid := None; b_dec := true; b_sig := true |}.

Definition finish_cb (r : req) (hd : ver * Z) : outcome built berr :=
  let ops := r_ops r in
  match check_version r ops (fst hd) with
  | Some e => Err e
  | None =>
    if negb (snd hd =? r_height r) then Err ECoinbaseExpiry
    else if nonempty (tin_vs ops) then Err ECoinbase             (* UnexpectedInputs *)
    else if r_height r =? 0 then Err ECoinbase                   (* GenesisInputNotSupported *)
    else if negb (in_bal (zsum (so_vals ops))) then Err ESaplingAmount
    else if e_orc (env_of r) && negb (in_bal (zsum (oo_vals ops ++ oc_vals ops))) then Err EOrchardBuild
    else if e_iw (env_of r) && negb (in_bal (zsum (io_vals ops))) then Err EIronwoodBuild
    else if has_overwinter (fst hd) then Ok (assemble_cb r hd) else Panic
  end.

(** DeferredPcztBuilder::new refuses a branch whose suggested version is not V6. *)
Definition deferral_refused (r : req) : bool :=
  is_deferred r && negb (has_ironwood (suggested_for_branch (branch_at (r_net r) (r_height r)))).

Definition build (r : req) : outcome built berr :=
  if deferral_refused r then Err EDeferral else
  match run_ops r [] (r_ops r) (init_hdr r) 0 with
  | Err e => Err e
  | Panic => Panic
  | Ok hd => if r_coinbase r
             (* coinbase transactions are built, not drafted as PCZTs (outside the modelled domain) *)
             then (if is_pczt r then Err EOther else finish_cb r hd)
             else finish r hd
  end.

(** What the recording fee rule sees: only a linear rule records, and only when get_fee is reached. *)
Definition model_seen (r : req) : option shape :=
  if deferral_refused r then None else
  if r_coinbase r then None else       (* a coinbase build never asks the fee rule *)
  match r_rule r, run_ops r [] (r_ops r) (init_hdr r) 0 with
  | RLin _, Ok _ => Some (req_shape r)
  | _, _ => None
  end.

(** TransactionData::fee_paid on an observed transaction: the sum of all pool balances. *)
Definition bundle_vb (o : option shb) : Z := match o with Some x => sb_vb x | None => 0 end.
Definition transparent_vb (b : built) : Z := zsum (map fst (b_tin b)) - zsum (map fst (b_tout b)).
Definition fee_paid (b : built) : Z :=
  transparent_vb b + bundle_vb (b_sap b) + bundle_vb (b_orc b) + bundle_vb (b_iw b).
