(** C14 — the property, stated on an *observed* build result (no builder internals):
    what was requested, what a result contains, which fee a rule prescribes for the shape the
    result actually has. Boolean checkers are what the correspondence evaluates on the
    implementation's outcomes. *)
From V.Lib Require Import Base MachInt.
From V.Gen Require Import C14Consts.
From V.C14 Require Import Model SignModel.
From Coq Require Import Permutation.
Local Open Scope Z_scope.

(** ---- what the request asks for *)
Definition requested_balance (ops : list op) : Z :=
  zsum (tin_vals ops) + zsum (ss_vals ops) + zsum (os_vals ops) + zsum (is_vals ops)
  - zsum (map fst (tout_vs ops)) - zsum (so_vals ops) - zsum (oo_vals ops) - zsum (oc_vals ops)
  - zsum (io_vals ops).

(** expiry height the caller asked for: the last with_expiry_height, else target + delta *)
Definition requested_expiry (r : req) : Z :=
  fold_left (fun e o => match o with Expiry h => h | _ => e end) (r_ops r)
            (if r_coinbase r then r_height r else Z.min (r_height r + DEFAULT_TX_EXPIRY_DELTA) u32_max).
(** version the caller asked for: the last propose_version, else the branch default *)
Definition requested_version (r : req) : ver :=
  fold_left (fun v o => match o with Propose w => w | _ => v end) (r_ops r)
            (suggested_for_branch (branch_at (r_net r) (r_height r))).

(** ---- the shape a result actually has *)
Definition b_nsp (o : option shb) : Z := match o with Some s => sb_nsp s | None => 0 end.
Definition b_nout (o : option shb) : Z := match o with Some s => sb_nout s | None => 0 end.
Definition tx_shape (b : built) : shape :=
  {| sh_tin := map snd (b_tin b);
     sh_tout := map snd (b_tout b);
     sh_sin := b_nsp (b_sap b); sh_sout := b_nout (b_sap b);
     sh_orc := b_nout (b_orc b); sh_iw := b_nout (b_iw b) |}.

Definition shape_eqb (a b : shape) : bool :=
  list_eqb Z.eqb (sh_tin a) (sh_tin b) && list_eqb Z.eqb (sh_tout a) (sh_tout b)
  && (sh_sin a =? sh_sin b) && (sh_sout a =? sh_sout b) && (sh_orc a =? sh_orc b)
  && (sh_iw a =? sh_iw b).

(** ---- clause 1: exactly the requested spends and outputs plus zero-valued padding *)
(** [obs] (sorted) is the requested values plus zeros *)
Definition padding_of (requested obs : list Z) : Prop :=
  exists k, Permutation obs (requested ++ repeat 0 k).
Definition padding_ofb (requested obs : list Z) : bool :=
  (length requested <=? length obs)%nat
  && list_eqb Z.eqb obs (zsort (requested ++ repeat 0 (length obs - length requested))).

(** one shielded pool: counts cover the request, value balance is exact, and where note values
    are visible they are the requested ones plus zeros *)
Definition pool_okb (o : option shb) (spends outs : list Z) : bool :=
  match o with
  | None => negb (nonempty spends) && negb (nonempty outs)
  | Some s =>
      (len spends <=? sb_nsp s) && (len outs <=? sb_nout s)
      && (sb_vb s =? zsum spends - zsum outs)
      && match sb_spv s with
         | Some l => (len l =? sb_nsp s) && padding_ofb spends l
         | None => true end
      && match sb_outv s with
         | Some l => (len l =? sb_nout s) && padding_ofb outs l
         | None => true end
  end.

Definition pair_z_eqb := pair_eqb Z.eqb Z.eqb.
Definition contents_okb (ops : list op) (b : built) : bool :=
  list_eqb pair_z_eqb (b_tin b) (tin_vs ops)
  && list_eqb pair_z_eqb (b_tout b) (tout_vs ops)
  && pool_okb (b_sap b) (ss_vals ops) (so_vals ops)
  && pool_okb (b_orc b) (os_vals ops) (oo_vals ops ++ oc_vals ops)
  && pool_okb (b_iw b) (is_vals ops) (io_vals ops).

(** ---- clause 2: the net value balance is the fee the rule prescribes for the result's shape *)
Definition fee_okb (ru : rule) (b : built) : bool :=
  negb (match ru with RZip317 => has_unknown_size (tx_shape b) | RLin _ => false end)
  && (fee_paid b =? rule_fee ru (tx_shape b))
  && match b_fee_paid b with Some f => f =? fee_paid b | None => true end.

(** ---- clause 5b: the version is valid at the target height and carries every bundle present *)
Definition version_okb (r : req) (b : built) : bool :=
  let br := branch_at (r_net r) (r_height r) in
  let v := b_ver b in
  valid_in_branch v br
  && ((b_nsp (b_sap b) + b_nout (b_sap b) =? 0) || (has_sapling v && branch_has_sapling br))
  && ((b_nout (b_orc b) =? 0) || (has_orchard v && branch_has_orchard br))
  && ((b_nout (b_iw b) =? 0) || (has_ironwood v && branch_has_ironwood br)).

Definition ver_eqb (a b : ver) : bool :=
  match a, b with
  | VSprout x, VSprout y => x =? y
  | V3, V3 | V4, V4 | V5, V5 | V6, V6 => true
  | _, _ => false
  end.

Definition header_okb (r : req) (b : built) : bool :=
  ver_eqb (b_ver b) (requested_version r)
  && (b_expiry b =? requested_expiry r) && (b_lock b =? 0)
  && (b_branch b =? branch_id (branch_at (r_net r) (r_height r))).

(** A version that must be refused for the calls made so far (independent restatement of the
    gate: not valid on the branch, or lacking a pool that is needed). *)
Definition needs_sapling (ops : list op) := nonempty (ss_vals ops) || nonempty (so_vals ops).
Definition needs_orchard (r : req) (ops : list op) :=
  nonempty (os_vals ops) || nonempty (oo_vals ops) || nonempty (oc_vals ops)
  || (negb (r_coinbase r) && (is_deferred r || r_orc r && branch_has_orchard (branch_at (r_net r) (r_height r))) && p_req (r_opad r)).
Definition needs_ironwood (r : req) (ops : list op) :=
  nonempty (is_vals ops) || nonempty (io_vals ops)
  || (negb (r_coinbase r) && (is_deferred r || r_iw r && branch_has_ironwood (branch_at (r_net r) (r_height r))) && p_req (r_ipad r)).
Definition version_refusable (r : req) (ops : list op) (v : ver) : bool :=
  let br := branch_at (r_net r) (r_height r) in
  negb (valid_in_branch v br)
  || (needs_sapling ops && negb (has_sapling v && branch_has_sapling br))
  || (needs_orchard r ops && negb (has_orchard v && branch_has_orchard br))
  || (needs_ironwood r ops && negb (has_ironwood v && branch_has_ironwood br)).

(** ---- the one documented panic (explicit [panic!] in sighash_v4), as a class of requests *)
Definition panic_class (r : req) : bool :=
  (* sighash_v4: pre-Overwinter transactions cannot be signed *)
  (match r_route r with Pczt | Deferred => false | _ => true end
      && negb (has_overwinter (requested_version r))).

(** ---- the content clause as a proposition *)
Definition pool_ok (o : option shb) (spends outs : list Z) : Prop :=
  match o with
  | None => spends = [] /\ outs = []
  | Some s =>
      len spends <= sb_nsp s /\ len outs <= sb_nout s /\ sb_vb s = zsum spends - zsum outs /\
      (forall l, sb_spv s = Some l -> len l = sb_nsp s /\ padding_of spends l) /\
      (forall l, sb_outv s = Some l -> len l = sb_nout s /\ padding_of outs l)
  end.

(** ---- clause 4: every transparent input carries signatures over the signature hash for its own
    index, the value and script of the coin it spends (the scriptPubKey too from v5 on), made by
    the key the coin pays to — for a multisig coin by m of the redeem script's keys, in the
    script's order (what OP_CHECKMULTISIG's lock-step matching accepts). Evaluated on what the
    harness observed each signature to verify for. *)
Definition script_eqb (a b : script) : bool :=
  match a, b with
  | SPubKeyHash x, SPubKeyHash y => x =? y
  | SScriptHash m n, SScriptHash m' n' | SRedeem m n, SRedeem m' n' => (m =? m') && (n =? n')
  | _, _ => false
  end.
Definition sel_eqb (a b : sel) : bool :=
  (s_key a =? s_key b) && (s_index a =? s_index b) && (s_value a =? s_value b)
  && script_eqb (s_code a) (s_code b) && option_eqb script_eqb (s_spk a) (s_spk b)
  && (s_type a =? s_type b).

Fixpoint subseqb (pks ks : list Z) : bool :=
  match ks, pks with
  | [], _ => true
  | _ :: _, [] => false
  | k :: ks', p :: ps => if k =? p then subseqb ps ks' else subseqb ps ks
  end.

Definition code_of (c : coin) : script :=
  match c_spend c with SpP2pkh k => SPubKeyHash k | SpP2sh m n => SRedeem m n | SpRaw => SRedeem 0 0 end.
Definition sel_okb (v5 : bool) (i : Z) (c : coin) (s : sel) : bool :=
  (s_index s =? i) && (s_value s =? c_value c) && (s_type s =? SIGHASH_ALL)
  && script_eqb (s_code s) (code_of c)
  && option_eqb script_eqb (s_spk s) (if v5 then Some (coin_script c) else None).
Definition input_sels_okb (v5 : bool) (i : Z) (c : coin) (l : list sel) : bool :=
  forallb (sel_okb v5 i c) l &&
  match c_spend c with
  | SpP2pkh k => match l with [s] => s_key s =? k | _ => false end
  | SpP2sh m n => (len l =? m) && subseqb (script_keys n) (map s_key l)
  | SpRaw => false
  end.
Fixpoint sels_okb_from (v5 : bool) (i : Z) (cs : list coin) (ls : list (list sel)) : bool :=
  match cs, ls with
  | [], [] => true
  | c :: cs', l :: ls' => input_sels_okb v5 i c l && sels_okb_from v5 (i + 1) cs' ls'
  | _, _ => false
  end.
Definition sels_okb (r : req) (b : built) (ls : list (list sel)) : bool :=
  if is_pczt r then match ls with [] => true | _ => false end    (* nothing is signed yet *)
  else sels_okb_from (is_v5 (b_ver b)) 0 (coins_of (r_ops r)) ls.
