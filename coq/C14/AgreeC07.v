(** C14 x C07 — the change strategy's fee is the builder's fee.

    A wallet proposal ([C07.compute_balance x c = Ok b]) is turned into the builder request that
    carries the same inputs, the same payments and the proposed change ([req_of]). The theorem
    shows that the builder then asks the ZIP 317 rule about exactly the shape C07 priced
    (change and padding included) and sees exactly the balance C07 left for the fee; so the
    builder's exact-balance check succeeds when C07's fee is the exact fee of the final shape, and
    reports ChangeRequired with the precise excess in C07's two documented over-payment cases. *)
From V.Lib Require Import Base MachInt.
From V.Gen Require Import C14Consts.
From V.Gen Require C07Consts.
From V.C07 Require Model Spec Proofs Inv FeeMono Balance Balance2 FeeShape Valid Properties.
From V.C14 Require Import Model Spec Proofs.
From Coq Require Import ZifyBool.
Local Open Scope Z_scope.

Module M7 := V.C07.Model.
Module S7 := V.C07.Spec.

(* ------------------------------------------------------------ the request of a proposal *)
Definition tout_op (o : Z * Z) : op := TOut (fst o) (snd o =? 32).
Definition cv_ops (c : M7.cv) : list op :=
  match c with
  | M7.CShielded M7.Sapling v _ => [SOut v]
  | M7.CShielded M7.Orchard v _ => [OChange v]       (* wallet change: add_orchard_change_output *)
  | M7.CShielded M7.Ironwood v _ => [IOut v]
  | M7.CTransparent v => [TOut v false]
  | M7.CEphemeral v => [TOut v false]           (* the ephemeral output of a ZIP 320 first step *)
  end.
(** an ephemeral input (second step of a ZIP 320 pair) is one more P2PKH input *)
Definition ein_ops (e : option M7.eph) : list op := match e with Some (M7.EphIn v) => [TIn v] | _ => [] end.
Definition ops_of (e : option M7.eph) (x : M7.txin) (chg : list M7.cv) : list op :=
  map (fun i => TIn (fst i)) (M7.t_in x) ++ ein_ops e ++ map tout_op (M7.t_out x)
  ++ map SSpend (M7.s_in x) ++ map SOut (M7.s_out x)
  ++ map OSpend (M7.o_in x) ++ map OOut (M7.o_out x)
  ++ map (fun v => ISpend v true) (M7.i_in x) ++ map IOut (M7.i_out x)
  ++ flat_map cv_ops chg.

(** Orchard padding is the default; the Ironwood bundle is unpadded exactly for a canonical
    ZIP 318 crossing (what the proposal step records for the builder). *)
Definition req_of (n : net) (x : M7.txin) (c : M7.config) (b : M7.balance) (rt : route) : req :=
  mkReq n (M7.target_height c) true true true (mkPad false None)
    (mkPad false (if M7.ironwood_is_canonical_crossing x c (M7.final_manifest (M7.change b))
                  then Some 1 else None))
    [] (ops_of (M7.ephemeral c) x (M7.change b)) RZip317 rt false.

(** What the two models must agree on before they can be compared. *)
Record compatible (n : net) (x : M7.txin) (c : M7.config) : Prop := {
  k_rule : M7.rule c = M7.standard_rule;
  k_eph : V.C07.Valid.eph_valid c;
  k_stype : M7.s_type x = M7.STx false;
  k_over : M7.cross_enabled (M7.o_ver x) = negb (branch_has_ironwood (branch_at n (M7.target_height c)));
  k_iver : M7.cross_enabled (M7.i_ver x) = true;
  k_tin : Forall (fun i => snd i = M7.Known P2PKH_STANDARD_INPUT_SIZE) (M7.t_in x);
  k_tout : Forall (fun o => snd o = 34 \/ snd o = 32) (M7.t_out x) }.

(* ------------------------------------------------------------ projections of [ops_of] *)
Lemma flat_map_map {A B C} (f : B -> list C) (g : A -> B) l :
  flat_map f (map g l) = flat_map (fun a => f (g a)) l.
Proof. induction l as [|a l IH]; cbn; [reflexivity|now rewrite IH]. Qed.
Lemma flat_map_flat_map {A B C} (f : B -> list C) (g : A -> list B) l :
  flat_map f (flat_map g l) = flat_map (fun a => flat_map f (g a)) l.
Proof. induction l as [|a l IH]; cbn; [reflexivity|]. now rewrite flat_map_app, IH. Qed.
Lemma flat_map_none {A B} (l : list A) : flat_map (fun _ => @nil B) l = [].
Proof. induction l; cbn; auto. Qed.
Lemma flat_map_one {A B} (h : A -> B) (l : list A) : flat_map (fun a => [h a]) l = map h l.
Proof. induction l as [|a l IH]; cbn; [reflexivity|now rewrite IH]. Qed.

Definition vals (p : M7.pool) (chg : list M7.cv) : list Z := map M7.cv_value (filter (M7.is_pool_cv p) chg).
Definition tvals (chg : list M7.cv) : list Z :=
  flat_map (fun c => match c with M7.CTransparent v | M7.CEphemeral v => [v] | _ => [] end) chg.

Ltac proj :=
  unfold ops_of; rewrite !flat_map_app, !flat_map_map, flat_map_flat_map;
  try (match goal with |- context [flat_map ?f (ein_ops ?e)] => destruct e as [[?|?]|]; cbn [ein_ops flat_map app] end);
  cbn [tin_of tout_of ss_of so_of os_of oo_of oc_of is_of io_of tk_of tout_op fst snd];
  rewrite ?flat_map_none, ?flat_map_one, ?app_nil_l, ?app_nil_r.

Lemma chg_so chg : flat_map (fun c => flat_map so_of (cv_ops c)) chg = vals M7.Sapling chg.
Proof. unfold vals. induction chg as [|[[]| |] chg IH]; cbn; rewrite ?IH; reflexivity. Qed.
Lemma chg_oc chg : flat_map (fun c => flat_map oc_of (cv_ops c)) chg = vals M7.Orchard chg.
Proof. unfold vals. induction chg as [|[[]| |] chg IH]; cbn; rewrite ?IH; reflexivity. Qed.
Lemma chg_io chg : flat_map (fun c => flat_map io_of (cv_ops c)) chg = vals M7.Ironwood chg.
Proof. unfold vals. induction chg as [|[[]| |] chg IH]; cbn; rewrite ?IH; reflexivity. Qed.
Lemma chg_tout chg : flat_map (fun c => flat_map tout_of (cv_ops c)) chg = map (fun v => (v, 34)) (tvals chg).
Proof. unfold tvals. induction chg as [|[[]| |] chg IH]; cbn; rewrite ?IH; reflexivity. Qed.
Lemma chg_nil (f : op -> list Z) chg :
  (forall v, f (SOut v) = []) -> (forall v, f (OChange v) = []) -> (forall v, f (IOut v) = []) ->
  (forall v b, f (TOut v b) = []) ->
  flat_map (fun c => flat_map f (cv_ops c)) chg = [].
Proof.
  intros H1 H2 H3 H4. induction chg as [|[[]| |] chg IH]; cbn; rewrite ?H1, ?H2, ?H3, ?H4, ?IH; reflexivity.
Qed.
Lemma chg_nil2 (f : op -> list (Z * Z)) chg :
  (forall v, f (SOut v) = []) -> (forall v, f (OChange v) = []) -> (forall v, f (IOut v) = []) ->
  (forall v b, f (TOut v b) = []) ->
  flat_map (fun c => flat_map f (cv_ops c)) chg = [].
Proof.
  intros H1 H2 H3 H4. induction chg as [|[[]| |] chg IH]; cbn; rewrite ?H1, ?H2, ?H3, ?H4, ?IH; reflexivity.
Qed.

Definition ein (e : option M7.eph) : list (Z * Z) :=
  match e with Some (M7.EphIn v) => [(v, P2PKH_STANDARD_INPUT_SIZE)] | _ => [] end.

Lemma p_tin e x chg : tin_vs (ops_of e x chg) =
  map (fun i => (fst i, P2PKH_STANDARD_INPUT_SIZE)) (M7.t_in x) ++ ein e.
Proof. unfold tin_vs. proj; rewrite chg_nil2 by reflexivity; now rewrite ?app_nil_r. Qed.
Lemma chg_nil3 chg : flat_map (fun c => flat_map tk_of (cv_ops c)) chg = [].
Proof. induction chg as [|[[]| |] chg IH]; cbn; rewrite ?IH; reflexivity. Qed.
Lemma p_tk e x chg : tkinds (ops_of e x chg) =
  map (fun _ => KPkh) (M7.t_in x) ++ map (fun _ => KPkh) (ein e).
Proof. unfold tkinds. proj; rewrite chg_nil3, ?app_nil_r; reflexivity. Qed.
Lemma sign_check_pkh keys {A B} (l : list A) (l2 : list B) :
  sign_check true keys (map (fun _ => KPkh) l ++ map (fun _ => KPkh) l2) = Ok tt.
Proof.
  induction l; cbn [map sign_check app]; auto. induction l2; cbn [map sign_check]; auto.
Qed.
Lemma p_known e x chg : existsb (fun z => z <? 0) (map snd (tin_vs (ops_of e x chg))) = false.
Proof.
  rewrite p_tin, map_app, existsb_app, map_map. cbn [snd].
  assert (A : existsb (fun z => z <? 0) (map (fun _ : Z * M7.tsize => P2PKH_STANDARD_INPUT_SIZE) (M7.t_in x)) = false).
  { induction (M7.t_in x) as [|i l IH]; [reflexivity|]. cbn [map existsb]. now rewrite IH. }
  rewrite A. destruct e as [[v|v]|]; reflexivity.
Qed.
Lemma p_tout e x chg : tout_vs (ops_of e x chg) =
  map (fun o => (fst o, if snd o =? 32 then 32 else 34)) (M7.t_out x) ++ map (fun v => (v, 34)) (tvals chg).
Proof. unfold tout_vs. proj; now rewrite chg_tout. Qed.
Lemma p_ss e x chg : ss_vals (ops_of e x chg) = M7.s_in x.
Proof. unfold ss_vals. proj; rewrite chg_nil by reflexivity; now rewrite app_nil_r, map_id. Qed.
Lemma p_so e x chg : so_vals (ops_of e x chg) = M7.s_out x ++ vals M7.Sapling chg.
Proof. unfold so_vals. proj; now rewrite chg_so, map_id. Qed.
Lemma p_os e x chg : os_vals (ops_of e x chg) = M7.o_in x.
Proof. unfold os_vals. proj; rewrite chg_nil by reflexivity; now rewrite app_nil_r, map_id. Qed.
Lemma p_oo e x chg : oo_vals (ops_of e x chg) = M7.o_out x.
Proof. unfold oo_vals. proj; rewrite chg_nil by reflexivity; now rewrite app_nil_r, map_id. Qed.
Lemma p_oc e x chg : oc_vals (ops_of e x chg) = vals M7.Orchard chg.
Proof. unfold oc_vals. proj; now rewrite chg_oc. Qed.
Lemma p_is e x chg : is_vals (ops_of e x chg) = M7.i_in x.
Proof. unfold is_vals. proj; rewrite chg_nil by reflexivity; now rewrite app_nil_r, map_id. Qed.
Lemma p_io e x chg : io_vals (ops_of e x chg) = M7.i_out x ++ vals M7.Ironwood chg.
Proof. unfold io_vals. proj; now rewrite chg_io, map_id. Qed.

(* ------------------------------------------------------------ counts and sums of the change *)

Lemma len_vals p chg : len (vals p chg) = M7.count_pool (M7.is_pool_cv p) chg.
Proof. unfold vals, M7.count_pool, len, M7.len. now rewrite map_length. Qed.

Lemma len_tvals chg : len (tvals chg) = M7.count_pool M7.is_transparent_cv chg.
Proof.
  unfold tvals, M7.count_pool, len, M7.len. induction chg as [|v chg IH]; [reflexivity|].
  destruct v; cbn in *; rewrite ?app_length; cbn [length]; lia.
Qed.

Lemma change_total_split chg :
  S7.change_total chg = zsum (vals M7.Sapling chg) + zsum (vals M7.Orchard chg)
                        + zsum (vals M7.Ironwood chg) + zsum (tvals chg).
Proof.
  unfold S7.change_total, vals, tvals. induction chg as [|v chg IH]; [reflexivity|].
  destruct v as [[] w m|w|w]; cbn in *; unfold zsum, S7.zsum in *;
    cbn [fold_right map filter app] in *; lia.
Qed.

Lemma zsum_map_fst_pair {A} (f : A -> Z) (k : A -> Z) l :
  zsum (map fst (map (fun a => (f a, k a)) l)) = zsum (map f l).
Proof. now rewrite map_map. Qed.

Lemma zsum_const_snd l (c : Z) : zsum (map snd (map (fun v : Z => (v, c)) l)) = c * len l.
Proof.
  unfold zsum, len. induction l as [|v l IH]; cbn [map fold_right length snd]; [lia|].
  rewrite IH. lia.
Qed.
Lemma zsum_fst_const l (c : Z) : zsum (map fst (map (fun v : Z => (v, c)) l)) = zsum l.
Proof. rewrite map_map. cbn [fst]. now rewrite map_id. Qed.

(* ------------------------------------------------------------ the shape the builder prices *)
Section Agree.
  Variables (n : net) (x : M7.txin) (c : M7.config) (b : M7.balance) (rt : route).
  Hypothesis K : compatible n x c.
  Hypothesis NotDeferred : rt <> Deferred.
  Let r := req_of n x c b rt.
  Let chg := M7.change b.
  Let br := branch_at n (M7.target_height c).

  Lemma r_ops_eq : r_ops r = ops_of (M7.ephemeral c) x chg. Proof. reflexivity. Qed.
  Lemma r_not_deferred : is_deferred r = false.
  Proof. unfold is_deferred. subst r. cbn [r_route req_of]. destruct rt; congruence. Qed.

  Lemma tin_bytes_agree : zsum (map snd (tin_vs (r_ops r))) = S7.tin_bytes x c.
  Proof.
    rewrite r_ops_eq, p_tin, map_app, zsum_app. unfold S7.tin_bytes. f_equal.
    - pose proof (k_tin _ _ _ K) as F.
      induction F as [|i l Hi _ IH]; [reflexivity|].
      cbn [map]. unfold zsum, S7.zsum in *. cbn [fold_right snd]. rewrite IH, Hi. reflexivity.
    - destruct (M7.ephemeral c) as [[v|v]|]; reflexivity.
  Qed.

  Lemma tout_bytes_agree : zsum (map snd (tout_vs (r_ops r))) = S7.tout_bytes x chg.
  Proof.
    rewrite r_ops_eq, p_tout, map_app, zsum_app, zsum_const_snd, len_tvals.
    unfold S7.tout_bytes, C07Consts.P2PKH_STANDARD_OUTPUT_SIZE. f_equal.
    pose proof (k_tout _ _ _ K) as F.
    induction F as [|o l Ho _ IH]; [reflexivity|].
    cbn [map]. unfold zsum, S7.zsum in *. cbn [fold_right snd]. rewrite IH.
    destruct Ho as [-> | ->]; reflexivity.
  Qed.

  Hypothesis DM : S7.dummies_match x c chg (M7.dummies b) = true.
  Variable hd : ver * Z.
  Hypothesis RO : run_ops r [] (r_ops r) (init_hdr r) 0 = Ok hd.

  Lemma env_facts :
    e_sap (env_of r) = true /\ e_orc (env_of r) = branch_has_orchard br /\
    e_iw (env_of r) = has_ironwood (suggested_for_branch br) /\
    e_cross (env_of r) = negb (branch_has_ironwood br).
  Proof.
    unfold env_of. rewrite r_not_deferred. subst r br. cbn [req_of r_sap r_orc r_iw r_net r_height
      e_sap e_orc e_iw e_cross negb andb orb]. auto.
  Qed.

  Lemma counts_agree :
    let '(sd, od, id_) := M7.dummies b in
    sh_sin (req_shape r) = S7.opt_z (M7.num_spends (M7.s_type x) (M7.len (M7.s_in x))) /\
    sh_sout (req_shape r) = M7.len (M7.s_out x) + M7.count_pool (M7.is_pool_cv M7.Sapling) chg + sd /\
    sh_orc (req_shape r) = M7.len (M7.o_out x) + M7.count_pool (M7.is_pool_cv M7.Orchard) chg + od /\
    sh_iw (req_shape r) = M7.len (M7.i_out x) + M7.count_pool (M7.is_pool_cv M7.Ironwood) chg + id_.
  Proof.
    destruct (run_ops_hdr _ _ RO) as (_ & _ & F).
    destruct env_facts as (Es & Eo & Ei & Ec).
    unfold S7.dummies_match in DM. destruct (M7.dummies b) as [[sd od] id_].
    set (FM := M7.final_manifest chg) in *.
    assert (Ms : M7.m_s FM = M7.count_pool (M7.is_pool_cv M7.Sapling) chg) by reflexivity.
    assert (Mo : M7.m_o FM = M7.count_pool (M7.is_pool_cv M7.Orchard) chg) by reflexivity.
    assert (Mi : M7.m_i FM = M7.count_pool (M7.is_pool_cv M7.Ironwood) chg) by reflexivity.
    destruct (M7.num_outputs _ _ _) as [a|] eqn:B1; [|discriminate].
    destruct (M7.num_actions M7.PAD_DEFAULT _ _ _) as [b'|] eqn:B2; [|discriminate].
    destruct (M7.num_actions (if M7.ironwood_is_canonical_crossing x c FM then _ else _) _ _ _) as [e|] eqn:B3;
      [|discriminate].
    rewrite !andb_true_iff in DM. destruct DM as (((((D1 & D2) & D3) & D4) & D5) & D6).
    apply Z.eqb_eq in D1, D2, D3. apply Z.leb_le in D4, D5, D6.
    pose proof (len_nonneg (M7.s_in x)). pose proof (len_nonneg (M7.s_out x)).
    pose proof (len_nonneg (M7.o_in x)). pose proof (len_nonneg (M7.o_out x)).
    pose proof (len_nonneg (M7.i_in x)). pose proof (len_nonneg (M7.i_out x)).
    pose proof (len_nonneg (vals M7.Sapling chg)). pose proof (len_nonneg (vals M7.Orchard chg)).
    pose proof (len_nonneg (vals M7.Ironwood chg)).
    unfold req_shape, shape_of. cbn [sh_sin sh_sout sh_orc sh_iw].
    rewrite Es, Eo, Ei, Ec. rewrite r_ops_eq, p_ss, p_so, p_os, p_oo, p_oc, p_is, p_io.
    rewrite !len_app, !len_vals. rewrite <- Ms, <- Mo, <- Mi.
    change (@len Z) with (@M7.len Z) in *.
    rewrite (k_stype _ _ _ K) in *.
    split; [|split; [|split]].
    - unfold M7.num_spends, S7.opt_z. cbn [orb]. destruct (0 <? M7.len (M7.s_in x)) eqn:E; clear - E H; lia.
    - unfold M7.num_outputs in B1. cbn [orb] in B1. injection B1 as B1'. rewrite <- ?Ms in B1'.
      unfold sapling_num_outputs, MIN_SHIELDED_OUTPUTS, C07Consts.SAPLING_MIN_SHIELDED_OUTPUTS in *.
      destruct ((0 <? M7.len (M7.s_in x)) || (0 <? M7.len (M7.s_out x) + M7.m_s FM)) eqn:E;
        clear - E B1' D1 D4 H H0; lia.
    - unfold M7.num_actions, M7.PAD_DEFAULT in B2. rewrite (k_over _ _ _ K) in B2. fold br in B2.
      destruct (branch_has_orchard br) eqn:Bo.
      + unfold orchard_num_actions. change (r_opad r) with (mkPad false None). cbn [p_req p_min orb].
        unfold DEFAULT_MIN_ACTIONS, C07Consts.ORCHARD_DEFAULT_MIN_ACTIONS in *.
        destruct (negb (branch_has_ironwood br)); cbn [orb] in B2.
        * injection B2 as B2'. rewrite <- ?Mo in B2'.
          destruct (0 <? Z.max _ _) eqn:E in B2'; rewrite ?E; clear - E B2' D2 D5 H1 H2; lia.
        * unfold M7.usize_add, checked in B2.
          destruct (in_range 0 usize_max (M7.len (M7.o_in x) + (M7.len (M7.o_out x) + M7.m_o FM))); [|discriminate].
          injection B2 as B2'. rewrite <- ?Mo in B2'.
          destruct (0 <? _ + _) eqn:E in B2'; rewrite ?E; clear - E B2' D2 D5 H1 H2; lia.
      + pose proof Eo as Eo'.
        destruct (avail_no_orchard r _ F Eo') as (Z1 & Z2 & Z3).
        rewrite r_ops_eq, p_os in Z1. rewrite r_ops_eq, p_oo in Z2. rewrite r_ops_eq, p_oc in Z3.
        assert (L3 : M7.m_o FM = 0) by (rewrite Mo, <- len_vals, Z3; reflexivity).
        rewrite Z1, Z2, L3 in *. cbn [M7.len length] in *. change (Z.of_nat 0) with 0 in *.
        unfold M7.usize_add, checked, C07Consts.ORCHARD_DEFAULT_MIN_ACTIONS in B2.
        destruct (negb (branch_has_ironwood br)); cbn in B2; inversion B2; lia.
    - set (cn := M7.ironwood_is_canonical_crossing x c FM) in *.
      assert (B3' : M7.num_actions (if cn then M7.PAD_UNPADDED else M7.PAD_DEFAULT) (M7.i_ver x)
                      (M7.len (M7.i_in x)) (M7.len (M7.i_out x) + M7.m_i FM) = Some e) by exact B3.
      unfold M7.num_actions in B3'. rewrite (k_iver _ _ _ K) in B3'.
      destruct (has_ironwood (suggested_for_branch br)) eqn:Bi.
      + unfold orchard_num_actions. subst r. cbn [req_of r_ipad p_req p_min orb]. fold chg FM cn.
        unfold DEFAULT_MIN_ACTIONS, M7.PAD_UNPADDED, M7.PAD_DEFAULT, C07Consts.ORCHARD_DEFAULT_MIN_ACTIONS in *.
        destruct cn; cbn [orb] in B3'; inversion B3'; destruct (0 <? Z.max _ _) eqn:E; lia.
      + pose proof Ei as Ei'.
        destruct (avail_no_ironwood r _ F Ei') as (Z1 & Z2).
        rewrite r_ops_eq, p_is in Z1. rewrite r_ops_eq, p_io in Z2.
        apply app_eq_nil in Z2. destruct Z2 as [Z2 Z3].
        assert (L3 : M7.m_i FM = 0) by (rewrite Mi, <- len_vals, Z3; reflexivity).
        rewrite Z1, Z2, L3 in *. cbn [M7.len length] in *. change (Z.of_nat 0) with 0 in *.
        unfold M7.PAD_UNPADDED, M7.PAD_DEFAULT, C07Consts.ORCHARD_DEFAULT_MIN_ACTIONS in B3'.
        destruct cn; cbn in B3'; inversion B3'; lia.
  Qed.

  (** the builder asks the ZIP 317 rule about exactly the shape C07 priced *)
  Lemma shape_fee_agree : rule_fee RZip317 (req_shape r) = S7.shape_fee x c chg (M7.dummies b) 0.
  Proof.
    pose proof counts_agree as CA. pose proof tin_bytes_agree as TI. pose proof tout_bytes_agree as TO.
    unfold S7.shape_fee. destruct (M7.dummies b) as [[sd od] id_].
    destruct CA as (A3 & A4 & A5 & A6).
    cbn [rule_fee]. unfold zip317_fee, zip317_logical, S7.zip317_fee, S7.logical_actions.
    rewrite (k_rule _ _ _ K). cbn [M7.marginal M7.grace M7.p_in M7.p_out M7.standard_rule].
    change (sh_tin (req_shape r)) with (map snd (tin_vs (r_ops r))).
    change (sh_tout (req_shape r)) with (map snd (tout_vs (r_ops r))).
    rewrite TI, TO, A3, A4, A5, A6. unfold ceildiv, S7.cdiv.
    unfold MARGINAL_FEE, GRACE_ACTIONS, P2PKH_STANDARD_INPUT_SIZE, P2PKH_STANDARD_OUTPUT_SIZE,
      C07Consts.MARGINAL_FEE, C07Consts.GRACE_ACTIONS, C07Consts.P2PKH_STANDARD_INPUT_SIZE,
      C07Consts.P2PKH_STANDARD_OUTPUT_SIZE.
    rewrite Z.mul_0_r, Z.add_0_r. reflexivity.
  Qed.

  (** ... and sees exactly the balance C07 left for the fee *)
  Lemma balance_agree : S7.conserves x c b = true -> requested_balance (r_ops r) = M7.fee b.
  Proof.
    intros Cv. unfold S7.conserves in Cv. apply andb_prop in Cv. destruct Cv as [Cv _].
    apply Z.eqb_eq in Cv. unfold S7.total_inputs, S7.payments, S7.eph_in_v in Cv.
    fold chg in Cv. rewrite change_total_split in Cv.
    unfold requested_balance, tin_vals.
    rewrite r_ops_eq, p_tin, p_tout, p_ss, p_so, p_os, p_oo, p_oc, p_is, p_io.
    rewrite !map_app, !zsum_app, !map_map. cbn [fst].
    rewrite (map_id (tvals chg)).
    change S7.zsum with zsum in Cv.
    assert (Ee : zsum (map fst (ein (M7.ephemeral c))) = match M7.ephemeral c with Some (M7.EphIn v) => v | _ => 0 end)
      by (destruct (M7.ephemeral c) as [[v|v]|]; cbn; lia).
    rewrite Ee.
    change (map (fun x0 : Z * M7.tsize => fst x0) (M7.t_in x)) with (map fst (M7.t_in x)).
    change (map (fun x0 : Z * Z => fst x0) (M7.t_out x)) with (map fst (M7.t_out x)).
    lia.
  Qed.
End Agree.

(* ------------------------------------------------------------ the agreement theorem *)
Lemma std_rule_pos c : M7.rule c = M7.standard_rule -> V.C07.Balance2.rule_pos c.
Proof.
  intros E. unfold V.C07.Balance2.rule_pos. rewrite E. cbn.
  unfold C07Consts.MARGINAL_FEE, C07Consts.P2PKH_STANDARD_INPUT_SIZE, C07Consts.P2PKH_STANDARD_OUTPUT_SIZE. lia.
Qed.

Lemma filter_id_forall {A} (f : A -> bool) l : filter f l = l -> Forall (fun a => f a = true) l.
Proof.
  intros E. apply Forall_forall. intros a Ha. rewrite <- E in Ha. apply filter_In in Ha. tauto.
Qed.

Theorem c07_c14_agree n x c b rt hd bal :
  M7.compute_balance x c = Ok b -> compatible n x c -> rt <> Deferred ->
  let r := req_of n x c b rt in
  let shape_fee := S7.shape_fee x c (M7.change b) (M7.dummies b) 0 in
  run_ops r [] (r_ops r) (init_hdr r) 0 = Ok hd ->
  check_version r (r_ops r) (fst hd) = None ->
  value_balance r = Ok bal ->
  (rt = Pczt -> zip212_on n (M7.target_height c) = true) ->
  (rt <> Pczt -> has_overwinter (fst hd) = true) ->
  rule_fee RZip317 (req_shape r) = shape_fee /\
  bal = M7.fee b /\
  (M7.fee b = shape_fee -> build r = Ok (assemble r hd (M7.fee b))) /\
  (M7.fee b <> shape_fee -> build r = Err (EChange (M7.fee b - shape_fee))).
Proof.
  intros H K ND r shape_fee RO CV VB Hz Ho.
  pose proof (std_rule_pos _ (k_rule _ _ _ K)) as RP.
  pose proof (V.C07.Balance.dummy_counts_match_builder _ _ _ H) as DM.
  pose proof (V.C07.Balance.conservation _ _ _ H) as CO.
  pose proof (V.C07.FeeShape.fee_at_least_shape _ _ _ H RP) as FA.
  pose proof (k_eph _ _ _ K) as EV.
  pose proof (V.C07.Valid.change_valid_holds _ _ _ H RP EV) as CVd.
  pose proof (shape_fee_agree n x c b rt K ND DM hd RO) as SF. fold r shape_fee in SF.
  pose proof (balance_agree n x c b rt DM CO) as BA. fold r in BA.
  destruct (run_ops_hdr _ _ RO) as (_ & _ & F).
  pose proof (value_balance_exact _ _ F VB) as VE. rewrite BA in VE.
  unfold S7.fee_at_least in FA. apply Z.leb_le in FA. fold shape_fee in FA.
  unfold S7.change_valid in CVd. rewrite !andb_true_iff in CVd. destruct CVd as ((_ & F0) & F1).
  apply Z.leb_le in F0, F1. change C07Consts.MAX_MONEY with MAX_MONEY in F1.
  assert (DR : deferral_refused r = false).
  { unfold deferral_refused, is_deferred. subst r. cbn [req_of r_route]. destruct rt; try reflexivity. congruence. }
  assert (FR : fee_required RZip317 (req_shape r) = Some shape_fee).
  { unfold fee_required, has_unknown_size.
    change (sh_tin (req_shape r)) with (map snd (tin_vs (ops_of (M7.ephemeral c) x (M7.change b)))). rewrite p_known.
    rewrite SF. replace (shape_fee <=? MAX_MONEY) with true by lia. reflexivity. }
  assert (TS : tkinds (r_ops r) = map (fun _ => KPkh) (M7.t_in x) ++ map (fun _ => KPkh) (ein (M7.ephemeral c)))
    by (subst r; cbn [req_of r_ops]; apply p_tk).
  assert (NCB : r_coinbase r = false) by reflexivity.
  split; [exact SF|]. split; [exact VE|]. subst bal.
  split; intros Hf.
  - unfold build. rewrite DR, RO, NCB. unfold finish.
    change (r_rule r) with RZip317. rewrite FR, CV, VB. rewrite <- Hf.
    replace (M7.fee b - M7.fee b <? - MAX_MONEY) with false by (unfold MAX_MONEY; lia).
    replace (M7.fee b - M7.fee b <? 0) with false by lia.
    replace (0 <? M7.fee b - M7.fee b) with false by lia.
    rewrite TS.
    assert (Es : e_sap (env_of r) = true).
    { unfold env_of. rewrite (proj1 (Bool.negb_true_iff _) eq_refl) at 1 || idtac.
      unfold is_deferred. subst r. cbn [req_of r_route r_sap e_sap]. destruct rt; try reflexivity. congruence. }
    change (r_route r) with rt. change (r_net r) with n. change (r_height r) with (M7.target_height c).
    destruct rt; try congruence.
    + rewrite (Ho ltac:(discriminate)), sign_check_pkh. reflexivity.
    + rewrite (Ho ltac:(discriminate)), sign_check_pkh. reflexivity.
    + rewrite Es, (Hz eq_refl). reflexivity.
  - unfold build. rewrite DR, RO, NCB. unfold finish.
    change (r_rule r) with RZip317. rewrite FR, CV, VB.
    replace (M7.fee b - shape_fee <? - MAX_MONEY) with false by (unfold MAX_MONEY in *; lia).
    replace (M7.fee b - shape_fee <? 0) with false by lia.
    replace (0 <? M7.fee b - shape_fee) with true by lia. reflexivity.
Qed.

(* ------------------------------------------------------------ the builder's checked sums succeed *)
Lemma zat_sum_from_ok l : forall acc, Forall (fun v => 0 <= v) l -> 0 <= acc -> acc + zsum l <= MAX_MONEY ->
  zat_sum_from acc l = Some (acc + zsum l).
Proof.
  unfold zsum. induction l as [|v l IH]; intros acc F Ha Hb; cbn [zat_sum_from fold_right] in *.
  - f_equal. lia.
  - inversion F as [|? ? Hv F']; subst.
    assert (0 <= fold_right Z.add 0 l) by (clear - F'; induction F'; cbn [fold_right]; lia).
    replace (acc + v <=? MAX_MONEY) with true by lia.
    rewrite IH by (auto; lia). f_equal. lia.
Qed.
Lemma zat_sum_ok l : Forall (fun v => 0 <= v) l -> zsum l <= MAX_MONEY -> zat_sum l = Some (zsum l).
Proof. intros F H. unfold zat_sum. rewrite zat_sum_from_ok by (auto; lia). reflexivity. Qed.

Lemma zsum_nonneg l : Forall (fun v => 0 <= v) l -> 0 <= zsum l.
Proof. unfold zsum. induction 1; cbn [fold_right]; lia. Qed.

Lemma vsum_from_up l : forall acc, Forall (fun v => 0 <= v) l -> - u64_max <= acc -> acc + zsum l <= u64_max ->
  vsum_from acc l = Some (acc + zsum l).
Proof.
  unfold zsum. induction l as [|v l IH]; intros acc F Ha Hb; cbn [vsum_from fold_right] in *.
  - f_equal. lia.
  - inversion F as [|? ? Hv F']; subst. pose proof (zsum_nonneg _ F') as N. unfold zsum in N.
    unfold in_range. replace ((- u64_max <=? acc + v) && (acc + v <=? u64_max)) with true by lia.
    rewrite IH by (auto; lia). f_equal. lia.
Qed.
Lemma vsum_from_down l : forall acc, Forall (fun v => 0 <= v) l -> acc <= u64_max -> - u64_max <= acc - zsum l ->
  vsum_from acc (map Z.opp l) = Some (acc - zsum l).
Proof.
  unfold zsum. induction l as [|v l IH]; intros acc F Ha Hb; cbn [vsum_from fold_right map] in *.
  - f_equal. lia.
  - inversion F as [|? ? Hv F']; subst. pose proof (zsum_nonneg _ F') as N. unfold zsum in N.
    unfold in_range. replace ((- u64_max <=? acc + - v) && (acc + - v <=? u64_max)) with true by lia.
    rewrite IH by (auto; lia). f_equal. lia.
Qed.
Lemma vsum_from_app a b : forall acc,
  vsum_from acc (a ++ b) = match vsum_from acc a with Some m => vsum_from m b | None => None end.
Proof.
  induction a as [|v a IH]; intros acc; cbn [vsum_from app]; [reflexivity|].
  destruct (in_range (- u64_max) u64_max (acc + v)); [apply IH|reflexivity].
Qed.
Lemma orchard_balance_ok sp outs : Forall (fun v => 0 <= v) sp -> Forall (fun v => 0 <= v) outs ->
  zsum sp <= MAX_MONEY -> zsum outs <= MAX_MONEY ->
  orchard_balance sp outs = Some (zsum sp - zsum outs).
Proof.
  intros Fs Fo Hs Ho. pose proof (zsum_nonneg _ Fs). pose proof (zsum_nonneg _ Fo).
  unfold orchard_balance. rewrite vsum_from_app.
  assert (MAX_MONEY < u64_max) by (unfold MAX_MONEY, u64_max; lia).
  rewrite vsum_from_up by (auto; unfold u64_max in *; lia). cbn [Z.add].
  rewrite vsum_from_down by (auto; lia).
  unfold in_range. replace ((- MAX_MONEY <=? zsum sp - zsum outs) && (zsum sp - zsum outs <=? MAX_MONEY)) with true by lia.
  reflexivity.
Qed.

Lemma in_bal_true v : - MAX_MONEY <= v <= MAX_MONEY -> in_bal v = true.
Proof. unfold in_bal, in_range. lia. Qed.

Definition eph_in_val (c : M7.config) : Z := match M7.ephemeral c with Some (M7.EphIn v) => v | _ => 0 end.

Record nonneg_tx (x : M7.txin) (c : M7.config) : Prop := {
  nn_ti : Forall (fun v => 0 <= v) (map fst (M7.t_in x));
  nn_to : Forall (fun v => 0 <= v) (map fst (M7.t_out x));
  nn_si : Forall (fun v => 0 <= v) (M7.s_in x); nn_so : Forall (fun v => 0 <= v) (M7.s_out x);
  nn_oi : Forall (fun v => 0 <= v) (M7.o_in x); nn_oo : Forall (fun v => 0 <= v) (M7.o_out x);
  nn_ii : Forall (fun v => 0 <= v) (M7.i_in x); nn_io : Forall (fun v => 0 <= v) (M7.i_out x);
  nn_eph : 0 <= eph_in_val c }.

Lemma vals_nonneg p chg : Forall (fun v => 0 <= M7.cv_value v) chg -> Forall (fun v => 0 <= v) (vals p chg).
Proof.
  unfold vals. induction 1 as [|v l Hv _ IH]; cbn [filter map]; [constructor|].
  destruct (M7.is_pool_cv p v); cbn [map]; auto.
Qed.
Lemma tvals_nonneg chg : Forall (fun v => 0 <= M7.cv_value v) chg -> Forall (fun v => 0 <= v) (tvals chg).
Proof.
  unfold tvals. induction 1 as [|v l Hv _ IH]; cbn [flat_map]; [constructor|].
  destruct v; cbn [app M7.cv_value] in *; auto.
Qed.

(** With non-negative amounts, the builder's checked sums cannot fail on a request derived from a
    successful proposal: every partial sum is bounded by the proposal's input total. *)
Theorem value_balance_ok n x c b rt :
  M7.compute_balance x c = Ok b -> compatible n x c -> rt <> Deferred -> nonneg_tx x c ->
  exists bal, value_balance (req_of n x c b rt) = Ok bal.
Proof.
  intros H K ND NN.
  pose proof (std_rule_pos _ (k_rule _ _ _ K)) as RP.
  pose proof (k_eph _ _ _ K) as EV.
  pose proof (V.C07.Valid.change_valid_holds _ _ _ H RP EV) as CVd.
  pose proof (V.C07.Balance.conservation _ _ _ H) as CO.
  apply V.C07.Balance2.compute_ok_facts in H; [|exact RP].
  destruct H as (nf & ti & so & sin & mf & towmf & tcc & chg0 & St & FS & _ & _ & _ & _ & _ & _ & _ & Hti & _).
  destruct St as [_ Sti _ _ _ _ _]. apply V.C07.Inv.total_in_ok in Sti. destruct Sti as [Eti _].
  destruct FS as [F1 _ F3 _ F5 _ F7 _ _].
  unfold S7.conserves in CO. apply andb_prop in CO. destruct CO as [CO _]. apply Z.eqb_eq in CO.
  unfold S7.total_inputs, S7.payments, S7.eph_in_v in CO. rewrite change_total_split in CO.
  assert (E1 : S7.opt_z (M7.eph_in_amount (M7.ephemeral c)) = eph_in_val c).
  { unfold eph_in_val. destruct (M7.ephemeral c) as [[v|v]|]; reflexivity. }
  rewrite E1 in F1.
  assert (E2 : match M7.ephemeral c with Some (M7.EphIn v) => v | _ => 0 end = eph_in_val c) by reflexivity.
  rewrite E2 in CO.
  unfold S7.change_valid in CVd. rewrite !andb_true_iff in CVd. destruct CVd as ((CV1 & F0) & _).
  apply Z.leb_le in F0.
  assert (CN : Forall (fun v => 0 <= M7.cv_value v) (M7.change b)).
  { rewrite forallb_forall in CV1. apply Forall_forall. intros v Hv. specialize (CV1 v Hv). lia. }
  pose proof (vals_nonneg M7.Sapling _ CN) as N1. pose proof (vals_nonneg M7.Orchard _ CN) as N2.
  pose proof (vals_nonneg M7.Ironwood _ CN) as N3. pose proof (tvals_nonneg _ CN) as N4.
  destruct NN as [A1 A2 A3 A4 A5 A6 A7 A8 A9].
  pose proof (zsum_nonneg _ N1). pose proof (zsum_nonneg _ N2). pose proof (zsum_nonneg _ N3). pose proof (zsum_nonneg _ N4).
  pose proof (zsum_nonneg _ A1). pose proof (zsum_nonneg _ A2). pose proof (zsum_nonneg _ A3). pose proof (zsum_nonneg _ A4).
  pose proof (zsum_nonneg _ A5). pose proof (zsum_nonneg _ A6). pose proof (zsum_nonneg _ A7). pose proof (zsum_nonneg _ A8).
  change S7.zsum with zsum in *. change M7.A.MAX_MONEY with MAX_MONEY in *.
  assert (Total : zsum (map fst (M7.t_in x)) + eph_in_val c + zsum (M7.s_in x) + zsum (M7.o_in x) + zsum (M7.i_in x) <= MAX_MONEY)
    by (clear - Eti F1 F3 F5 F7 Hti; lia).
  assert (Conserve : zsum (map fst (M7.t_out x)) + zsum (M7.s_out x) + zsum (M7.o_out x) + zsum (M7.i_out x)
                     + zsum (vals M7.Sapling (M7.change b)) + zsum (vals M7.Orchard (M7.change b))
                     + zsum (vals M7.Ironwood (M7.change b)) + zsum (tvals (M7.change b)) + M7.fee b
                     = zsum (map fst (M7.t_in x)) + eph_in_val c + zsum (M7.s_in x) + zsum (M7.o_in x) + zsum (M7.i_in x))
    by (clear - CO; lia).
  clear Eti F1 F3 F5 F7 CO Hti CV1 RP EV CN E1 E2.
  set (r := req_of n x c b rt).
  assert (Es : e_sap (env_of r) = true).
  { unfold env_of, is_deferred. subst r. cbn [req_of r_route r_sap r_coinbase e_sap]. destruct rt; try reflexivity. congruence. }
  unfold value_balance. rewrite Es. unfold tin_vals, sapling_balance.
  change (r_ops r) with (ops_of (M7.ephemeral c) x (M7.change b)).
  rewrite p_tin, p_tout, p_ss, p_so, p_os, p_oo, p_oc, p_is, p_io.
  rewrite !map_app, !map_map. cbn [fst].
  change (map (fun x0 : Z * M7.tsize => fst x0) (M7.t_in x)) with (map fst (M7.t_in x)).
  change (map (fun x0 : Z * Z => fst x0) (M7.t_out x)) with (map fst (M7.t_out x)).
  rewrite (map_id (tvals (M7.change b))).
  assert (EI : map fst (ein (M7.ephemeral c)) = match M7.ephemeral c with Some (M7.EphIn v) => [v] | _ => [] end)
    by (destruct (M7.ephemeral c) as [[v|v]|]; reflexivity).
  assert (EIs : zsum (map fst (ein (M7.ephemeral c))) = eph_in_val c)
    by (unfold eph_in_val; destruct (M7.ephemeral c) as [[v|v]|]; cbn; lia).
  assert (EIn : Forall (fun v => 0 <= v) (map fst (ein (M7.ephemeral c)))).
  { unfold eph_in_val in A9. destruct (M7.ephemeral c) as [[v|v]|]; cbn; auto. }
  rewrite (zat_sum_ok (map fst (M7.t_in x) ++ map fst (ein (M7.ephemeral c))))
    by (first [apply Forall_app; split; assumption | rewrite ?zsum_app; lia]).
  rewrite (zat_sum_ok (map fst (M7.t_out x) ++ tvals (M7.change b)))
    by (first [apply Forall_app; split; assumption | rewrite ?zsum_app; lia]).
  rewrite !zsum_app. rewrite EIs.
  rewrite in_bal_true by lia. cbn [negb].
  destruct (e_orc (env_of r)); destruct (e_iw (env_of r));
    rewrite ?orchard_balance_ok
      by (first [assumption | apply Forall_app; split; assumption | rewrite ?zsum_app; lia]);
    rewrite ?zsum_app; rewrite !in_bal_true by lia; cbn [andb]; eauto.
Qed.

(** The agreement without assuming anything about the builder's arithmetic. *)
Corollary c07_c14_build n x c b rt hd :
  M7.compute_balance x c = Ok b -> compatible n x c -> rt <> Deferred -> nonneg_tx x c ->
  let r := req_of n x c b rt in
  let shape_fee := S7.shape_fee x c (M7.change b) (M7.dummies b) 0 in
  run_ops r [] (r_ops r) (init_hdr r) 0 = Ok hd ->
  check_version r (r_ops r) (fst hd) = None ->
  (rt = Pczt -> zip212_on n (M7.target_height c) = true) ->
  (rt <> Pczt -> has_overwinter (fst hd) = true) ->
  rule_fee RZip317 (req_shape r) = shape_fee /\
  (M7.fee b = shape_fee -> build r = Ok (assemble r hd (M7.fee b))) /\
  (M7.fee b <> shape_fee -> build r = Err (EChange (M7.fee b - shape_fee))).
Proof.
  intros H K ND NN r shape_fee RO CV Hz Ho.
  destruct (value_balance_ok n x c b rt H K ND NN) as [bal VB].
  destruct (c07_c14_agree n x c b rt hd bal H K ND RO CV VB Hz Ho) as (A & _ & B & C). auto.
Qed.
