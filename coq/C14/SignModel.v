(** C14 — symbolic model of the transparent signing step
    (zcash_primitives builder.rs [authorize_transparent] +
     zcash_transparent builder.rs [Bundle::<Unauthorized>::apply_signatures]) and of the way a
    script interpreter checks the result (P2PKH: OP_CHECKSIG against the pushed key;
    P2SH multisig: OP_CHECKMULTISIG consumes signatures and the redeem script's keys in lock
    step). Signature hashes are terms, not bytes: [mkSH tx i code spk value type] stands for
    signature_hash(tx, SignableInput::Transparent{index i, script_code, script_pubkey, value,
    hash_type}); an ideal signature [Sig k msg] verifies only under key k for message msg.
    No proofs in this file. *)
From V.Lib Require Import Base MachInt.
From V.C14 Require Import Model.
Local Open Scope Z_scope.

Section Signing.
  (** everything else the sighash commits to: the unauthorized transaction and its txid parts *)
  Variable T : Type.

  Inductive script :=
  | SPubKeyHash (key : Z)          (* scriptPubKey of a P2PKH coin paying to key *)
  | SScriptHash (m n : Z)          (* scriptPubKey of a P2SH coin for the m-of-n redeem script *)
  | SRedeem (m n : Z).             (* the m-of-n redeem script over keys 4 .. 4+n-1 *)

  Inductive spend := SpP2pkh (key : Z) | SpP2sh (m n : Z).
  Record coin := mkCoin { c_value : Z; c_spend : spend }.

  Definition coin_script (c : coin) : script :=
    match c_spend c with SpP2pkh k => SPubKeyHash k | SpP2sh m n => SScriptHash m n end.

  Record sighash := mkSH {
    h_tx : T; h_index : nat; h_code : script; h_spk : script; h_value : Z; h_type : Z }.
  Definition SIGHASH_ALL : Z := 1.

  Inductive sig := Sig (key : Z) (msg : sighash).

  Inductive script_sig :=
  | SsP2pkh (s : sig) (pubkey : Z)            (* <sig> <pubkey> *)
  | SsMulti (sigs : list sig) (m n : Z).      (* OP_0 <sig>* <redeem script m-of-n> *)

  (** the message input [i] must be signed over *)
  Definition msg_for (tx : T) (i : nat) (c : coin) : sighash :=
    match c_spend c with
    | SpP2pkh k => mkSH tx i (SPubKeyHash k) (SPubKeyHash k) (c_value c) SIGHASH_ALL
    | SpP2sh m n => mkSH tx i (SRedeem m n) (SScriptHash m n) (c_value c) SIGHASH_ALL
    end.

  (** apply_signatures, one input: [keys] = multisig keys in the signing set (the P2PKH keys are
      assumed registered, as in the harness) *)
  Definition sign_input (keys : list Z) (tx : T) (i : nat) (c : coin) : option script_sig :=
    match c_spend c with
    | SpP2pkh k => Some (SsP2pkh (Sig k (msg_for tx i c)) k)
    | SpP2sh m n =>
        let ks := signing_keys keys m n in
        if len ks =? m then Some (SsMulti (map (fun k => Sig k (msg_for tx i c)) ks) m n) else None
    end.

  (** apply_signatures: inputs enumerated from [i] *)
  Fixpoint sign_from (keys : list Z) (tx : T) (i : nat) (cs : list coin) : option (list script_sig) :=
    match cs with
    | [] => Some []
    | c :: r =>
        match sign_input keys tx i c, sign_from keys tx (S i) r with
        | Some s, Some l => Some (s :: l)
        | _, _ => None
        end
    end.
  Definition apply_signatures keys tx cs := sign_from keys tx 0 cs.

  (* ---- verification, as a script interpreter does it (with sighash equality decided by the
          caller-supplied [sh_eqb], instantiated with structural equality in the proofs) *)
  Variable sh_eqb : sighash -> sighash -> bool.

  Definition verifyb (s : sig) (key : Z) (msg : sighash) : bool :=
    match s with Sig k m => (k =? key) && sh_eqb m msg end.

  (** OP_CHECKMULTISIG: signatures must match public keys in order; a key that does not match
      the current signature is skipped. *)
  Fixpoint checkmultisig (pks : list Z) (sigs : list sig) (msg : sighash) : bool :=
    match sigs with
    | [] => true
    | s :: ss =>
        match pks with
        | [] => false
        | k :: ks => if verifyb s k msg then checkmultisig ks ss msg else checkmultisig ks sigs msg
        end
    end.

  (** the scriptSig of input [i] spending coin [c] satisfies the coin's script *)
  Definition input_valid (tx : T) (i : nat) (c : coin) (ss : script_sig) : bool :=
    match c_spend c, ss with
    | SpP2pkh k, SsP2pkh s pk => (pk =? k) && verifyb s pk (msg_for tx i c)
    | SpP2sh m n, SsMulti sigs m' n' =>
        (m' =? m) && (n' =? n) && (len sigs =? m) && checkmultisig (script_keys n) sigs (msg_for tx i c)
    | _, _ => false
    end.
End Signing.
