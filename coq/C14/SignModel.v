(** C14 — symbolic model of the transparent signing step
    (zcash_primitives builder.rs [authorize_transparent] +
     zcash_transparent builder.rs [Bundle::<Unauthorized>::apply_signatures]) and of the way a
    script interpreter checks the result (P2PKH: OP_CHECKSIG against the pushed key;
    P2SH multisig: OP_CHECKMULTISIG consumes signatures and the redeem script's keys in lock
    step). Signature hashes are terms, not bytes: [mkSH tx i code spk value type] stands for
    signature_hash(tx, SignableInput::Transparent{index i, script_code, script_pubkey, value,
    hash_type}); an ideal signature [Sig k msg] verifies only under key k for message msg.
    No proofs in this file. *)
From V.Lib Require Import Base MachInt.
From V.C14 Require Import Model.
Local Open Scope Z_scope.

Inductive script :=
| SPubKeyHash (key : Z)          (* scriptPubKey of a P2PKH coin paying to key *)
| SScriptHash (m n : Z)          (* scriptPubKey of a P2SH coin for the m-of-n redeem script *)
| SRedeem (m n : Z).             (* the m-of-n redeem script over keys 4 .. 4+n-1 *)

Inductive spend := SpP2pkh (key : Z) | SpP2sh (m n : Z) | SpRaw.
Record coin := mkCoin { c_value : Z; c_spend : spend }.

Definition coin_script (c : coin) : script :=
  match c_spend c with SpP2pkh k => SPubKeyHash k | SpP2sh m n => SScriptHash m n | SpRaw => SScriptHash 0 0 end.
Definition SIGHASH_ALL : Z := 1.

(** The coins a request spends, in input order. The harness pays the j-th transparent input's
    P2PKH coin to key (j mod 4). *)
Fixpoint coins_from (pos : Z) (ops : list op) : list coin :=
  match ops with
  | [] => []
  | TIn v :: r => mkCoin v (SpP2pkh (pos mod 4)) :: coins_from (pos + 1) r
  | TInSh v m n :: r => mkCoin v (SpP2sh m n) :: coins_from (pos + 1) r
  | TInRaw v :: r => mkCoin v SpRaw :: coins_from (pos + 1) r
  | _ :: r => coins_from pos r
  end.
Definition coins_of (ops : list op) : list coin := coins_from 0 ops.

Section Signing.
  (** everything else the sighash commits to: the unauthorized transaction and its txid parts *)
  Variable T : Type.
  (** ZIP 244 (v5, v6) signature hashes also commit to the spent coin's scriptPubKey; the
      pre-v5 (ZIP 143/243) ones commit to script_code and value only *)
  Variable v5 : bool.

  Record sighash := mkSH {
    h_tx : T; h_index : nat; h_code : script; h_spk : option script; h_value : Z; h_type : Z }.

  Inductive sig := Sig (key : Z) (msg : sighash).

  Inductive script_sig :=
  | SsP2pkh (s : sig) (pubkey : Z)            (* <sig> <pubkey> *)
  | SsMulti (sigs : list sig) (m n : Z).      (* OP_0 <sig>* <redeem script m-of-n> *)

  (** the message input [i] must be signed over *)
  Definition msg_for (tx : T) (i : nat) (c : coin) : sighash :=
    match c_spend c with
    | SpP2pkh k => mkSH tx i (SPubKeyHash k) (if v5 then Some (SPubKeyHash k) else None) (c_value c) SIGHASH_ALL
    | SpP2sh m n => mkSH tx i (SRedeem m n) (if v5 then Some (SScriptHash m n) else None) (c_value c) SIGHASH_ALL
    | SpRaw => mkSH tx i (SRedeem 0 0) (if v5 then Some (SScriptHash 0 0) else None) (c_value c) SIGHASH_ALL
    end.

  (** apply_signatures, one input: [keys] = multisig keys in the signing set (the P2PKH keys are
      assumed registered, as in the harness) *)
  Definition sign_input (keys : list Z) (tx : T) (i : nat) (c : coin) : option script_sig :=
    match c_spend c with
    | SpP2pkh k => Some (SsP2pkh (Sig k (msg_for tx i c)) k)
    | SpP2sh m n =>
        let ks := signing_keys keys m n in
        if len ks =? m then Some (SsMulti (map (fun k => Sig k (msg_for tx i c)) ks) m n) else None
    | SpRaw => None          (* UnsupportedScript *)
    end.

  (** apply_signatures: inputs enumerated from [i] *)
  Fixpoint sign_from (keys : list Z) (tx : T) (i : nat) (cs : list coin) : option (list script_sig) :=
    match cs with
    | [] => Some []
    | c :: r =>
        match sign_input keys tx i c, sign_from keys tx (S i) r with
        | Some s, Some l => Some (s :: l)
        | _, _ => None
        end
    end.
  Definition apply_signatures keys tx cs := sign_from keys tx 0 cs.

  (* ---- verification, as a script interpreter does it (with sighash equality decided by the
          caller-supplied [sh_eqb], instantiated with structural equality in the proofs) *)
  Variable sh_eqb : sighash -> sighash -> bool.

  Definition verifyb (s : sig) (key : Z) (msg : sighash) : bool :=
    match s with Sig k m => (k =? key) && sh_eqb m msg end.

  (** OP_CHECKMULTISIG: signatures must match public keys in order; a key that does not match
      the current signature is skipped. *)
  Fixpoint checkmultisig (pks : list Z) (sigs : list sig) (msg : sighash) : bool :=
    match sigs with
    | [] => true
    | s :: ss =>
        match pks with
        | [] => false
        | k :: ks => if verifyb s k msg then checkmultisig ks ss msg else checkmultisig ks sigs msg
        end
    end.

  (** the scriptSig of input [i] spending coin [c] satisfies the coin's script *)
  Definition input_valid (tx : T) (i : nat) (c : coin) (ss : script_sig) : bool :=
    match c_spend c, ss with
    | SpP2pkh k, SsP2pkh s pk => (pk =? k) && verifyb s pk (msg_for tx i c)
    | SpP2sh m n, SsMulti sigs m' n' =>
        (m' =? m) && (n' =? n) && (len sigs =? m) && checkmultisig (script_keys n) sigs (msg_for tx i c)
    | _, _ => false
    end.
End Signing.

(** What a signature was made over, as the harness observes it: the key under which it verifies
    and the selector (input index, value, script code, scriptPubKey when committed, hash type)
    of the signature hash it verifies for. *)
Record sel := mkSel { s_key : Z; s_index : Z; s_value : Z; s_code : script; s_spk : option script; s_type : Z }.

Definition sel_of_sig {T} (s : sig T) : sel :=
  match s with Sig _ k m => mkSel k (Z.of_nat (h_index T m)) (h_value T m) (h_code T m) (h_spk T m) (h_type T m) end.
Definition sels_of_script_sig {T} (ss : script_sig T) : list sel :=
  match ss with
  | SsP2pkh _ s _ => [sel_of_sig s]
  | SsMulti _ sigs _ _ => map sel_of_sig sigs
  end.

Definition is_v5 (v : ver) : bool := match v with V5 | V6 => true | _ => false end.

(** the selectors the signing step of the model produces for a request built under version [v] *)
Definition model_sels (keys : list Z) (v : ver) (ops : list op) : list (list sel) :=
  match apply_signatures unit (is_v5 v) keys tt (coins_of ops) with
  | Some l => map sels_of_script_sig l
  | None => []
  end.
