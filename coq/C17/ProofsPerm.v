(** C17 — the executable permutation test [is_perm] (sort both sides, compare) is complete:
    it accepts every pair of lists related by [Permutation]. *)
From Coq Require Import ZifyBool Permutation Sorted.
From V.Lib Require Import Base MachInt.
From V.C17 Require Import Model Spec.
Local Open Scope Z_scope.

Lemma zinsert_perm x l : Permutation (zinsert x l) (x :: l).
Proof.
  induction l as [|y l IH]; cbn [zinsert]; [reflexivity|].
  destruct (x <=? y); [reflexivity|]. eapply perm_trans; [apply perm_skip, IH | apply perm_swap].
Qed.

Lemma zsort_perm l : Permutation (zsort l) l.
Proof. induction l as [|x l IH]; cbn [zsort]; [reflexivity|]. eapply perm_trans; [apply zinsert_perm | apply perm_skip, IH]. Qed.

Lemma zinsert_sorted x l : StronglySorted Z.le l -> StronglySorted Z.le (zinsert x l).
Proof.
  induction l as [|y l IH]; intros Hs; cbn [zinsert]; [constructor; constructor|].
  inversion Hs as [|? ? Hs' Hall]; subst. destruct (x <=? y) eqn:E.
  - constructor; [exact Hs|]. constructor; [lia|]. eapply Forall_impl; [|exact Hall]. intros; cbv beta in *; lia.
  - constructor; [apply IH; exact Hs'|]. apply Forall_forall. intros z Hz.
    apply (Permutation_in _ (zinsert_perm x l)) in Hz. destruct Hz as [<-|Hz]; [lia|].
    rewrite Forall_forall in Hall. apply Hall. exact Hz.
Qed.

Lemma zsort_sorted l : StronglySorted Z.le (zsort l).
Proof. induction l as [|x l IH]; cbn [zsort]; [constructor | apply zinsert_sorted, IH]. Qed.

Lemma sorted_perm_eq : forall a b, StronglySorted Z.le a -> StronglySorted Z.le b -> Permutation a b -> a = b.
Proof.
  induction a as [|x a IH]; intros b Ha Hb Hp.
  - apply Permutation_nil in Hp. subst. reflexivity.
  - destruct b as [|y b]; [apply Permutation_sym, Permutation_nil in Hp; discriminate|].
    inversion Ha as [|? ? Ha' Hxa]; subst. inversion Hb as [|? ? Hb' Hyb]; subst.
    assert (Hxy : x = y).
    { assert (Hx : In x (y :: b)) by (apply (Permutation_in _ Hp); left; reflexivity).
      assert (Hy : In y (x :: a)) by (apply (Permutation_in _ (Permutation_sym Hp)); left; reflexivity).
      rewrite Forall_forall in Hxa, Hyb.
      destruct Hx as [->|Hx]; [reflexivity|]. destruct Hy as [->|Hy]; [reflexivity|].
      specialize (Hyb x Hx). specialize (Hxa y Hy). lia. }
    subst y. f_equal. apply IH; [assumption | assumption | eapply Permutation_cons_inv; exact Hp].
Qed.

Lemma lz_refl l : list_eqb Z.eqb l l = true.
Proof. apply list_eqb_spec; [intros; apply Z.eqb_eq | reflexivity]. Qed.

Lemma perm_is_perm a b : Permutation a b -> is_perm a b = true.
Proof.
  intros Hp. unfold is_perm.
  rewrite (sorted_perm_eq (zsort a) (zsort b)); [apply lz_refl | apply zsort_sorted | apply zsort_sorted|].
  eapply perm_trans; [apply zsort_perm|]. eapply perm_trans; [exact Hp | symmetry; apply zsort_perm].
Qed.

Lemma is_perm_sound a b : is_perm a b = true -> Permutation a b.
Proof.
  unfold is_perm. intros H. apply list_eqb_spec in H; [|intros; apply Z.eqb_eq].
  eapply perm_trans; [symmetry; apply zsort_perm|]. rewrite H. apply zsort_perm.
Qed.
