(** C17 — proofs: anchor selection. *)
From Coq Require Import ZifyBool.
From V.Lib Require Import Base MachInt.
From V.Gen Require Import C17Consts.
From V.C17 Require Import Model Spec ProofsArith ProofsShuffle.
Local Open Scope Z_scope.

Lemma age_cap_pos : 1 <= ANCHOR_AGE_CAP.
Proof. unfold ANCHOR_AGE_CAP. lia. Qed.

Lemma mult_lt I a b : 0 < I -> a mod I = 0 -> b mod I = 0 -> a < b -> a + I <= b.
Proof.
  intros HI Ha Hb Hab.
  pose proof (Z.div_mod a I ltac:(lia)). pose proof (Z.div_mod b I ltac:(lia)).
  assert (a / I < b / I) by nia. nia.
Qed.

Lemma mult_sub I a k : 0 < I -> a mod I = 0 -> (a - k * I) mod I = 0.
Proof.
  intros HI Ha. replace (a - k * I) with (a + (- k) * I) by lia. rewrite Z.mod_add by lia. exact Ha.
Qed.

(** * the age scan *)
(** the running age stays a non-negative number in both overflow profiles (it restarts from 0
    after a wrap in the release profile) *)
Lemma bump_age_nonneg oc age a : 0 <= age -> bump_age oc age = Some a -> 0 <= a.
Proof. unfold bump_age. destruct (age =? u32_max); [destruct oc; [discriminate|] |]; intros ? H; inversion H; lia. Qed.

Lemma bump_age_below oc age : age < u32_max -> bump_age oc age = Some (age + 1).
Proof. unfold bump_age. intros H. replace (age =? u32_max) with false by lia. reflexivity. Qed.

Lemma scan_bits_found oc k : forall bits age a, 0 <= age -> scan_bits oc k bits age = Found a -> 0 <= a.
Proof.
  induction k as [|k IH]; intros bits age a Hage H; cbn [scan_bits] in H; [discriminate|].
  destruct (Z.odd bits); [inversion H; lia|].
  destruct (bump_age oc age) as [a'|] eqn:B; [|discriminate].
  apply bump_age_nonneg in B; [|exact Hage]. eapply IH; eassumption.
Qed.

Lemma scan_bits_more oc k : forall bits age a, 0 <= age -> scan_bits oc k bits age = More a -> 0 <= a.
Proof.
  induction k as [|k IH]; intros bits age a Hage H; cbn [scan_bits] in H; [inversion H; lia|].
  destruct (Z.odd bits); [discriminate|].
  destruct (bump_age oc age) as [a'|] eqn:B; [|discriminate].
  apply bump_age_nonneg in B; [|exact Hage]. eapply IH; eassumption.
Qed.

(** with overflow checks the age only grows; the overflow outcome needs an age at u32::MAX,
    i.e. more than 2^26 consecutive zero words *)
Lemma scan_bits_found_ge k : forall bits age a, scan_bits true k bits age = Found a -> age <= a.
Proof.
  induction k as [|k IH]; intros bits age a H; cbn [scan_bits] in H; [discriminate|].
  destruct (Z.odd bits); [inversion H; lia|].
  unfold bump_age in H. destruct (age =? u32_max); [discriminate|]. apply IH in H. lia.
Qed.

Lemma scan_bits_no_overflow oc k : forall bits age, age + Z.of_nat k <= u32_max -> scan_bits oc k bits age <> AgeOverflow.
Proof.
  induction k as [|k IH]; intros bits age H; cbn [scan_bits]; [discriminate|].
  destruct (Z.odd bits); [discriminate|].
  rewrite bump_age_below by lia. apply IH. lia.
Qed.

Lemma scan_bits_more_eq oc k : forall bits age a, age + Z.of_nat k <= u32_max ->
  scan_bits oc k bits age = More a -> a = age + Z.of_nat k.
Proof.
  induction k as [|k IH]; intros bits age a Hk H; cbn [scan_bits] in H; [inversion H; simpl; lia|].
  destruct (Z.odd bits); [discriminate|].
  rewrite bump_age_below in H by lia. apply IH in H; lia.
Qed.

(** the two profiles agree as long as the age stays below u32::MAX *)
Lemma scan_bits_profiles k : forall bits age, age + Z.of_nat k <= u32_max ->
  scan_bits true k bits age = scan_bits false k bits age.
Proof.
  induction k as [|k IH]; intros bits age H; cbn [scan_bits]; [reflexivity|].
  destruct (Z.odd bits); [reflexivity|].
  rewrite !bump_age_below by lia. apply IH. lia.
Qed.

(** an odd word stops the draw at once *)
Lemma scan_bits_odd oc k bits age : Z.odd bits = true -> scan_bits oc (S k) bits age = Found age.
Proof. intros H. cbn [scan_bits]. rewrite H. reflexivity. Qed.

Lemma try_candidate_some I lo hi mr age c :
  try_candidate I lo hi mr age = Some c ->
  age <= ANCHOR_AGE_CAP /\ c = mr - age * I /\ lo <= c <= hi.
Proof.
  unfold try_candidate. destruct (ANCHOR_AGE_CAP <? age) eqn:E1; [discriminate|].
  destruct (u32_max <? age * I); [discriminate|]. destruct (mr <? age * I); [discriminate|].
  destruct ((lo <=? mr - age * I) && (mr - age * I <=? hi)) eqn:E; [|discriminate].
  intros H; inversion H; subst. lia.
Qed.

Lemma sample_go_spec oc I lo hi mr : forall ws age c r, 0 <= age ->
  sample_go oc I lo hi mr age ws = Ok (c, r) ->
  (exists a, 0 <= a <= ANCHOR_AGE_CAP /\ c = mr - a * I /\ (0 < I -> hi < mr -> 1 <= a)) /\ lo <= c <= hi /\
  exists pre, pre <> [] /\ ws = pre ++ r.
Proof.
  induction ws as [|w ws IH]; intros age c r Hage H; cbn [sample_go] in H; [discriminate|].
  destruct (scan_bits oc 64 w age) as [a|a|] eqn:S; [| |discriminate].
  - apply scan_bits_found in S; [|exact Hage].
    destruct (try_candidate I lo hi mr a) as [c0|] eqn:T.
    + inversion H; subst. apply try_candidate_some in T. destruct T as (T1 & T2 & T3).
      split; [exists a; split; [lia | split; [exact T2 | intros; nia]]|]. split; [exact T3|].
      exists [w]. split; [discriminate | reflexivity].
    + destruct (IH 1 c r ltac:(lia) H) as (A & B & pre & Hp & He).
      split; [exact A|]. split; [exact B|]. exists (w :: pre). split; [discriminate | rewrite He; reflexivity].
  - apply scan_bits_more in S; [|exact Hage].
    destruct (IH a c r ltac:(lia) H) as (A & B & pre & Hp & He).
    split; [exact A|]. split; [exact B|]. exists (w :: pre). split; [discriminate | rewrite He; reflexivity].
Qed.

(** the overflow-check profile is unobservable on streams shorter than 2^26 words *)
Lemma sample_go_profiles I lo hi mr : forall ws age, 0 <= age ->
  age + 64 * Z.of_nat (length ws) <= u32_max ->
  sample_go true I lo hi mr age ws = sample_go false I lo hi mr age ws.
Proof.
  induction ws as [|w ws IH]; intros age Hage Hlen; cbn [sample_go]; [reflexivity|].
  cbn [length] in Hlen. rewrite Nat2Z.inj_succ in Hlen.
  rewrite (scan_bits_profiles 64 w age) by (change (Z.of_nat 64) with 64; lia).
  destruct (scan_bits false 64 w age) as [a|a|] eqn:S; [| |reflexivity].
  - destruct (try_candidate I lo hi mr a); [reflexivity|]. apply IH; lia.
  - assert (Ha : a = age + 64).
    { apply (scan_bits_more_eq false 64 w age a); [change (Z.of_nat 64) with 64; lia | exact S]. }
    apply IH; lia.
Qed.

(** termination witness: with a non-empty candidate range whose top is one interval below the
    most recent boundary (what both callers guarantee), an odd first word is accepted at once *)
Lemma sample_first_odd oc I lo hi mr w r :
  0 < I <= u32_max -> lo <= hi -> hi = mr - I -> 0 <= hi -> Z.odd w = true ->
  sample_boundary oc I lo hi mr (w :: r) = Ok (hi, r).
Proof.
  intros HI Hl Hh H0 Hw. unfold sample_boundary. cbn [sample_go].
  change 64%nat with (S 63). rewrite scan_bits_odd by exact Hw.
  unfold try_candidate. pose proof age_cap_pos.
  replace (ANCHOR_AGE_CAP <? 1) with false by lia. rewrite Z.mul_1_l.
  replace (u32_max <? I) with false by lia. replace (mr <? I) with false by lia.
  replace ((lo <=? mr - I) && (mr - I <=? hi)) with true by lia. subst hi. reflexivity.
Qed.

(** * the lowest candidate *)
Lemma lowest_char I nu f b :
  0 < I -> 0 <= nu <= u32_max -> 0 <= f <= u32_max ->
  b mod I = 0 -> 0 <= b < u32_max ->
  (nu < b /\ f <= b <-> lowest_candidate_boundary I nu f <= b).
Proof.
  intros HI Hnu Hf Hb Hbr. unfold lowest_candidate_boundary.
  destruct (below_props I nu HI ltac:(lia)) as (B1 & B2 & B3). cbv zeta in *.
  destruct (above_props I f HI Hf) as (A1 & A2 & A3). cbv zeta in *.
  unfold sat_add_u32. split.
  - intros [H1 H2].
    assert (boundary_at_or_below I nu + I <= b).
    { apply mult_lt; try assumption. lia. }
    assert (boundary_at_or_above I f <= b) by (apply A3; [assumption | lia]).
    lia.
  - intros H.
    assert (boundary_at_or_below I nu + I <= b) by lia.
    split; lia.
Qed.

Lemma lowest_le I nu f b :
  0 < I -> 0 <= nu <= u32_max -> 0 <= f <= u32_max ->
  b mod I = 0 -> 0 <= b < u32_max -> nu < b -> f <= b -> lowest_candidate_boundary I nu f <= b.
Proof. intros. apply (proj1 (lowest_char I nu f b ltac:(assumption) ltac:(assumption) ltac:(assumption) ltac:(assumption) ltac:(assumption))); auto. Qed.

Lemma lowest_ge I nu f b :
  0 < I -> 0 <= nu <= u32_max -> 0 <= f <= u32_max ->
  b mod I = 0 -> 0 <= b < u32_max -> lowest_candidate_boundary I nu f <= b -> nu < b /\ f <= b.
Proof. intros. apply (proj2 (lowest_char I nu f b ltac:(assumption) ltac:(assumption) ltac:(assumption) ltac:(assumption) ltac:(assumption))); auto. Qed.

Lemma lowest_nonneg I nu f :
  0 < I -> 0 <= f <= u32_max -> 0 <= lowest_candidate_boundary I nu f.
Proof.
  intros HI Hf. unfold lowest_candidate_boundary.
  destruct (above_props I f HI Hf) as (A1 & _ & _). cbv zeta in *. lia.
Qed.

Lemma lowest_is_boundary I nu f :
  0 < I -> 0 <= nu <= u32_max -> 0 <= f <= u32_max ->
  lowest_candidate_boundary I nu f < u32_max -> lowest_candidate_boundary I nu f mod I = 0.
Proof.
  intros HI Hnu Hf H. unfold lowest_candidate_boundary in *.
  destruct (below_props I nu HI ltac:(lia)) as (B1 & B2 & B3). cbv zeta in *.
  destruct (above_props I f HI Hf) as (A1 & A2 & A3). cbv zeta in *.
  unfold sat_add_u32 in *.
  destruct (Z.max_spec (Z.min u32_max (boundary_at_or_below I nu + I)) (boundary_at_or_above I f)) as [[_ E]|[_ E]]; rewrite E in *.
  - apply A2. left. lia.
  - rewrite Z.min_r by lia.
    replace (boundary_at_or_below I nu + I) with (boundary_at_or_below I nu + 1 * I) by lia.
    rewrite Z.mod_add by lia. exact B1.
Qed.

(** * candidate bounds *)
Section Draw.
Variable oc : bool.
Variables I nu f tip : Z.
Hypothesis HI : 0 < I <= u32_max.
Hypothesis Hnu : 0 <= nu <= u32_max.
Hypothesis Hf : 0 <= f <= u32_max.
Hypothesis Htip : 0 <= tip <= u32_max.

Let mr := boundary_at_or_below I tip.

Lemma mr_facts : mr mod I = 0 /\ 0 <= mr <= tip /\ mr = most_recent_spec I tip.
Proof.
  destruct (below_props I tip ltac:(lia) ltac:(lia)) as (B1 & B2 & B3). cbv zeta in *.
  split; [exact B1|]. split; [lia | apply below_eq_spec; lia].
Qed.

Lemma anchor_ok_iff b :
  anchor_ok I nu f tip b = true <->
  0 <= b /\ b mod I = 0 /\ nu < b /\ f <= b /\ b < mr /\ mr - b <= ANCHOR_AGE_CAP * I.
Proof.
  unfold anchor_ok. destruct mr_facts as (_ & _ & E). rewrite <- E. cbv zeta.
  rewrite !andb_true_iff. lia.
Qed.

Lemma bounds_some lo hi :
  candidate_boundary_bounds I nu f mr = Some (lo, hi) ->
  hi = mr - I /\ 0 <= hi /\ lo <= hi /\ lo = lowest_candidate_boundary I nu f /\ anchor_ok I nu f tip hi = true.
Proof.
  unfold candidate_boundary_bounds, checked_sub_u32.
  destruct (I <=? mr) eqn:E; [|discriminate].
  destruct (lowest_candidate_boundary I nu f <=? mr - I) eqn:E2; [|discriminate].
  intros H; inversion H; subst. destruct mr_facts as (M1 & M2 & M3).
  split; [reflexivity|]. split; [lia|]. split; [lia|]. split; [reflexivity|].
  apply anchor_ok_iff.
  assert (Hm : (mr - I) mod I = 0) by (replace (mr - I) with (mr - 1 * I) by lia; apply mult_sub; [lia | exact M1]).
  pose proof age_cap_pos.
  assert (Hc : nu < mr - I /\ f <= mr - I).
  { apply (lowest_ge I); try lia; try exact Hm. }
  repeat split; try lia; try exact Hm; nia.
Qed.

Lemma bounds_none :
  candidate_boundary_bounds I nu f mr = None -> forall b, anchor_ok I nu f tip b = false.
Proof.
  unfold candidate_boundary_bounds, checked_sub_u32. intros H b.
  destruct (anchor_ok I nu f tip b) eqn:A; [|reflexivity]. exfalso.
  apply anchor_ok_iff in A. destruct A as (A0 & A1 & A2 & A3 & A4 & A5).
  destruct mr_facts as (M1 & M2 & M3).
  assert (b + I <= mr) by (apply mult_lt; try assumption; lia).
  destruct (I <=? mr) eqn:E; [|lia].
  destruct (lowest_candidate_boundary I nu f <=? mr - I) eqn:E2; [discriminate|].
  assert (lowest_candidate_boundary I nu f <= b) by (apply lowest_le; try lia; assumption).
  lia.
Qed.

(** a drawn anchor is an admissible boundary ... *)
Lemma anchor_in_candidates ws b r :
  draw_anchor_boundary oc I nu f tip ws = Ok (Some b, r) -> anchor_ok I nu f tip b = true.
Proof.
  unfold draw_anchor_boundary. fold mr.
  destruct (candidate_boundary_bounds I nu f mr) as [[lo hi]|] eqn:B; [|discriminate].
  destruct (sample_boundary oc I lo hi mr ws) as [[c r0]| |] eqn:S; try discriminate.
  intros H; inversion H; subst. unfold sample_boundary in S.
  apply sample_go_spec in S; [|lia]. destruct S as ([a (Ha0 & Hc & Ha1)] & Hr & _).
  destruct (bounds_some _ _ B) as (E1 & E2 & E3 & E4 & _).
  assert (Ha : 1 <= a <= ANCHOR_AGE_CAP) by (split; [apply Ha1; lia | lia]).
  destruct mr_facts as (M1 & M2 & M3).
  apply anchor_ok_iff.
  assert (Hm : b mod I = 0) by (subst b; apply mult_sub; [lia | exact M1]).
  pose proof (lowest_nonneg I nu f ltac:(lia) Hf) as Hl0.
  assert (Hlt : 0 <= b < u32_max) by lia.
  assert (Hc2 : nu < b /\ f <= b).
  { apply (lowest_ge I); try lia; try assumption. }
  repeat split; try lia; try assumption; nia.
Qed.

(** ... and it is absent exactly when no admissible boundary exists, whatever the stream *)
Lemma anchor_none_iff ws r :
  draw_anchor_boundary oc I nu f tip ws = Ok (None, r) <->
  r = ws /\ forall b, anchor_ok I nu f tip b = false.
Proof.
  unfold draw_anchor_boundary. fold mr.
  destruct (candidate_boundary_bounds I nu f mr) as [[lo hi]|] eqn:B.
  - destruct (bounds_some _ _ B) as (_ & _ & _ & _ & Hok). split.
    + destruct (sample_boundary oc I lo hi mr ws) as [[c r0]| |]; discriminate.
    + intros [_ Hall]. rewrite Hall in Hok. discriminate.
  - split.
    + intros H; inversion H; subst. split; [reflexivity | apply bounds_none; exact B].
    + intros [-> _]. reflexivity.
Qed.

(** with an admissible boundary available the only other outcome is the generator running dry *)
Lemma anchor_total ws :
  (exists b, anchor_ok I nu f tip b = true) ->
  draw_anchor_boundary oc I nu f tip ws = Panic \/
  exists b r, draw_anchor_boundary oc I nu f tip ws = Ok (Some b, r).
Proof.
  intros [b0 Hb0]. unfold draw_anchor_boundary. fold mr.
  destruct (candidate_boundary_bounds I nu f mr) as [[lo hi]|] eqn:B.
  - destruct (sample_boundary oc I lo hi mr ws) as [[c r0]|e|]; eauto.
  - rewrite (bounds_none B b0) in Hb0. discriminate.
Qed.

(** an odd first word is enough *)
Lemma anchor_first_odd w r :
  (exists b, anchor_ok I nu f tip b = true) -> Z.odd w = true ->
  draw_anchor_boundary oc I nu f tip (w :: r) = Ok (Some (mr - I), r).
Proof.
  intros [b0 Hb0] Hw. unfold draw_anchor_boundary. fold mr.
  destruct (candidate_boundary_bounds I nu f mr) as [[lo hi]|] eqn:B.
  - destruct (bounds_some _ _ B) as (E1 & E2 & E3 & _ & _).
    rewrite (sample_first_odd oc I lo hi mr w r); try lia; try assumption. rewrite E1. reflexivity.
  - rewrite (bounds_none B b0) in Hb0. discriminate.
Qed.

(** the candidate enumeration used by the executable checker is complete *)
Lemma age_candidates_complete b :
  anchor_ok I nu f tip b = true -> In b (age_candidates I tip).
Proof.
  intros A. apply anchor_ok_iff in A. destruct A as (A0 & A1 & A2 & A3 & A4 & A5).
  destruct mr_facts as (M1 & M2 & M3). unfold age_candidates. rewrite <- M3.
  apply in_map_iff. exists ((mr - b) / I).
  pose proof (Z.div_mod (mr - b) I ltac:(lia)) as D.
  assert (Hz : (mr - b) mod I = 0).
  { rewrite Zminus_mod, M1, A1. reflexivity. }
  split; [nia|].
  assert (b + I <= mr) by (apply mult_lt; try assumption; lia).
  apply iota_spec. unfold ANCHOR_AGE_CAP in *. nia.
Qed.

End Draw.

(** * the viability threshold *)
Lemma below_greatest I tip x : 0 < I -> 0 <= tip -> x mod I = 0 -> x <= tip -> x <= boundary_at_or_below I tip.
Proof.
  intros HI Ht Hx Hle. destruct (below_props I tip HI Ht) as (B1 & B2 & B3). cbv zeta in *.
  destruct (Z_le_gt_dec x (boundary_at_or_below I tip)) as [|G]; [assumption|].
  assert (boundary_at_or_below I tip + I <= x) by (apply mult_lt; try assumption; lia). lia.
Qed.

(** The exact threshold, in unbounded arithmetic: the candidate set at [tip] is non-empty iff
    [tip] is at least one interval past the lowest candidate. *)
Lemma earliest_threshold I nu f tip :
  0 < I <= u32_max -> 0 <= nu <= u32_max -> 0 <= f <= u32_max -> 0 <= tip <= u32_max ->
  ((exists b, anchor_ok I nu f tip b = true) <-> lowest_candidate_boundary I nu f + I <= tip).
Proof.
  intros HI Hnu Hf Ht.
  set (lo := lowest_candidate_boundary I nu f) in *.
  pose proof (lowest_nonneg I nu f ltac:(lia) Hf) as Hl0. fold lo in Hl0.
  destruct (mr_facts I tip HI Ht) as (M1 & M2 & M3).
  split.
  - intros [b Hb].
    destruct (candidate_boundary_bounds I nu f (boundary_at_or_below I tip)) as [[l h]|] eqn:B.
    + destruct (bounds_some I nu f tip HI Hnu Hf Ht _ _ B) as (E1 & E2 & E3 & E4 & _). fold lo in E4. lia.
    + rewrite (bounds_none I nu f tip HI Hnu Hf Ht B b) in Hb. discriminate.
  - intros Hle. exists (boundary_at_or_below I tip - I).
    assert (Hlm : lo mod I = 0) by (apply lowest_is_boundary; try lia; fold lo; lia).
    assert (Hge : lo + I <= boundary_at_or_below I tip).
    { apply below_greatest; try lia. replace (lo + I) with (lo + 1 * I) by lia. rewrite Z.mod_add by lia. exact Hlm. }
    assert (B : candidate_boundary_bounds I nu f (boundary_at_or_below I tip) = Some (lo, boundary_at_or_below I tip - I)).
    { unfold candidate_boundary_bounds, checked_sub_u32. fold lo.
      replace (I <=? boundary_at_or_below I tip) with true by lia.
      replace (lo <=? boundary_at_or_below I tip - I) with true by lia. reflexivity. }
    destruct (bounds_some I nu f tip HI Hnu Hf Ht _ _ B) as (_ & _ & _ & _ & Hok). exact Hok.
Qed.

(** [earliest_broadcast_height] is that threshold whenever it fits u32 ... *)
Lemma earliest_viable I nu f tip :
  0 < I <= u32_max -> 0 <= nu <= u32_max -> 0 <= f <= u32_max -> 0 <= tip <= u32_max ->
  lowest_candidate_boundary I nu f + I <= u32_max ->
  ((exists b, anchor_ok I nu f tip b = true) <-> earliest_broadcast_height I nu f <= tip).
Proof.
  intros HI Hnu Hf Ht Hs. rewrite earliest_threshold by assumption.
  unfold earliest_broadcast_height, sat_add_u32. rewrite Z.min_r by lia. reflexivity.
Qed.

(** ... and when the threshold exceeds u32::MAX the function returns u32::MAX although no
    height at all (u32::MAX included) has a candidate *)
Lemma earliest_saturated I nu f :
  0 < I <= u32_max -> 0 <= nu <= u32_max -> 0 <= f <= u32_max ->
  u32_max < lowest_candidate_boundary I nu f + I ->
  earliest_broadcast_height I nu f = u32_max /\
  forall tip b, 0 <= tip <= u32_max -> anchor_ok I nu f tip b = false.
Proof.
  intros HI Hnu Hf Hs. split.
  - unfold earliest_broadcast_height, sat_add_u32. lia.
  - intros tip b Ht. destruct (anchor_ok I nu f tip b) eqn:A; [|reflexivity]. exfalso.
    assert (lowest_candidate_boundary I nu f + I <= tip) by (apply earliest_threshold; eauto). lia.
Qed.

(** so the documented guarantee ("a tip at or after this height always has a boundary to anchor
    to") fails at saturation *)
Lemma earliest_saturation_gap :
  earliest_broadcast_height 144 4294967150 0 = u32_max /\
  forall b, anchor_ok 144 4294967150 0 u32_max b = false.
Proof.
  destruct (earliest_saturated 144 4294967150 0) as [E A]; try (unfold u32_max; lia).
  - vm_compute. reflexivity.
  - split; [exact E|]. intros b. apply A. unfold u32_max. lia.
Qed.

(** * the redraw *)
Section Redraw.
Variable oc : bool.
Variables I prior bc : Z.
Hypothesis HI : 0 < I <= u32_max.
Hypothesis Hp : 0 <= prior <= u32_max.
Hypothesis Hb : 0 <= bc <= u32_max.

Let mr := boundary_at_or_below I bc.

Lemma redraw_ok_iff b :
  redraw_ok I prior bc b = true <->
  0 <= b /\ b mod I = 0 /\ prior <= b /\ b < mr /\ mr - b <= ANCHOR_AGE_CAP * I.
Proof.
  unfold redraw_ok. destruct (mr_facts I bc HI Hb) as (_ & _ & E). fold mr in E. rewrite <- E. cbv zeta.
  rewrite !andb_true_iff. lia.
Qed.

Lemma redraw_in_candidates ws b r :
  redraw_anchor_boundary oc I prior bc ws = Ok (Some b, r) -> redraw_ok I prior bc b = true.
Proof.
  unfold redraw_anchor_boundary, checked_sub_u32. fold mr.
  destruct (I <=? mr) eqn:E; [|discriminate].
  destruct (mr - I <? boundary_at_or_above I prior) eqn:E2; [discriminate|].
  destruct (sample_boundary oc I (boundary_at_or_above I prior) (mr - I) mr ws) as [[c r0]| |] eqn:S; try discriminate.
  intros H; inversion H; subst. unfold sample_boundary in S.
  apply sample_go_spec in S; [|lia]. destruct S as ([a (Ha0 & Hc & Ha1)] & Hr & _).
  assert (Ha : 1 <= a <= ANCHOR_AGE_CAP) by (split; [apply Ha1; lia | lia]).
  destruct (mr_facts I bc HI Hb) as (M1 & M2 & M3). fold mr in M1, M2, M3.
  destruct (above_props I prior ltac:(lia) Hp) as (A1 & A2 & A3). cbv zeta in *.
  apply redraw_ok_iff.
  assert (Hm : b mod I = 0) by (subst b; apply mult_sub; [lia | exact M1]).
  repeat split; try lia; try assumption; nia.
Qed.

Lemma redraw_none_iff ws r :
  redraw_anchor_boundary oc I prior bc ws = Ok (None, r) <->
  r = ws /\ forall b, redraw_ok I prior bc b = false.
Proof.
  unfold redraw_anchor_boundary, checked_sub_u32. fold mr.
  destruct (mr_facts I bc HI Hb) as (M1 & M2 & M3). fold mr in M1, M2, M3.
  destruct (above_props I prior ltac:(lia) Hp) as (A1 & A2 & A3). cbv zeta in *.
  pose proof age_cap_pos as Hcap.
  destruct (I <=? mr) eqn:E.
  - destruct (mr - I <? boundary_at_or_above I prior) eqn:E2.
    + split.
      * intros H; inversion H; subst. split; [reflexivity|]. intros b.
        destruct (redraw_ok I prior bc b) eqn:R; [|reflexivity]. exfalso.
        apply redraw_ok_iff in R. destruct R as (R0 & R1 & R2 & R3 & R4).
        assert (b + I <= mr) by (apply mult_lt; try assumption; lia).
        assert (boundary_at_or_above I prior <= b) by (apply A3; [assumption | lia]). lia.
      * intros [-> _]. reflexivity.
    + split.
      * destruct (sample_boundary oc I (boundary_at_or_above I prior) (mr - I) mr ws) as [[c r0]| |]; discriminate.
      * intros [_ Hall]. exfalso.
        assert (R : redraw_ok I prior bc (mr - I) = true).
        { apply redraw_ok_iff.
          assert ((mr - I) mod I = 0) by (replace (mr - I) with (mr - 1 * I) by lia; apply mult_sub; [lia | exact M1]).
          repeat split; try lia; try assumption; nia. }
        rewrite Hall in R. discriminate.
  - split.
    + intros H; inversion H; subst. split; [reflexivity|]. intros b.
      destruct (redraw_ok I prior bc b) eqn:R; [|reflexivity]. exfalso.
      apply redraw_ok_iff in R. destruct R as (R0 & R1 & R2 & R3 & R4).
      assert (b + I <= mr) by (apply mult_lt; try assumption; lia). lia.
    + intros [-> _]. reflexivity.
Qed.

End Redraw.
