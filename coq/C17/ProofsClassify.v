(** C17 — proofs about [classify], the evidence ordering and the code tables. *)
From Coq Require Import ZifyBool.
From V.Lib Require Import Base MachInt.
From V.Gen Require Import C17Consts.
From V.C17 Require Import Model Spec.
Local Open Scope Z_scope.

(** * Codes *)
Lemma code_roundtrip : forall x, from_code (to_code x) = x.
Proof. intros [[|]| |]; reflexivity. Qed.

Lemma to_code_spec : forall x, to_code x = code_spec x.
Proof. intros [[|]| |]; reflexivity. Qed.

Lemma from_code_spec : forall code, from_code code = decode_spec code.
Proof.
  intros code. unfold from_code, decode_spec, FROM_CODE_TABLE, FROM_CODE_DEFAULT. cbn [lookup].
  destruct (1 =? code) eqn:E1; [replace code with 1 by lia; reflexivity|].
  destruct (2 =? code) eqn:E2; [replace code with 2 by lia; reflexivity|].
  destruct (3 =? code) eqn:E3; [replace code with 3 by lia; reflexivity|].
  replace (code =? 1) with false by lia. replace (code =? 2) with false by lia.
  replace (code =? 3) with false by lia. reflexivity.
Qed.

Lemma from_code_unknown_iff : forall code, from_code code = Unknown <-> code <> 1 /\ code <> 2 /\ code <> 3.
Proof.
  intros code. rewrite from_code_spec. unfold decode_spec.
  destruct (code =? 1) eqn:E1; [split; [discriminate | lia]|].
  destruct (code =? 2) eqn:E2; [split; [discriminate | lia]|].
  destruct (code =? 3) eqn:E3; [split; [discriminate | lia]|].
  split; [lia | reflexivity].
Qed.

Lemma to_code_injective : forall x y, to_code x = to_code y -> x = y.
Proof. intros x y H. rewrite <- (code_roundtrip x), <- (code_roundtrip y), H. reflexivity. Qed.

(** * The evidence ordering *)
Lemma ole_some_z a y : ole Z.eqb (Some a) y = true -> y = Some a.
Proof. destruct y; simpl; [intros H; apply Z.eqb_eq in H; congruence | discriminate]. Qed.
Lemma ole_some_b a y : ole Bool.eqb (Some a) y = true -> y = Some a.
Proof. destruct y; simpl; [intros H; apply eqb_prop in H; congruence | discriminate]. Qed.

Lemma ev_le_refl e : ev_le e e = true.
Proof.
  destruct e as [s d o t v x a f]; unfold ev_le; cbn.
  destruct s, d, o as [[|]|], t as [[|]|], v, x as [[|]|], a as [[|]|], f as [[|]|]; cbn;
    rewrite ?Z.eqb_refl; reflexivity.
Qed.

Lemma ev_le_fields e e' : ev_le e e' = true ->
  ole Z.eqb (e_source e) (e_source e') = true /\ ole Z.eqb (e_dest e) (e_dest e') = true /\
  ole Bool.eqb (e_other e) (e_other e') = true /\ ole Bool.eqb (e_sts e) (e_sts e') = true /\
  ole Z.eqb (e_value e) (e_value e') = true /\ ole Bool.eqb (e_expiry e) (e_expiry e') = true /\
  ole Bool.eqb (e_anchor e) (e_anchor e') = true /\ ole Bool.eqb (e_fee e) (e_fee e') = true.
Proof. unfold ev_le. rewrite !andb_true_iff. tauto. Qed.

Lemma ev_le_trans e1 e2 e3 : ev_le e1 e2 = true -> ev_le e2 e3 = true -> ev_le e1 e3 = true.
Proof.
  intros H1 H2. apply ev_le_fields in H1. apply ev_le_fields in H2.
  destruct e1 as [s1 d1 o1 t1 v1 x1 a1 f1], e2 as [s2 d2 o2 t2 v2 x2 a2 f2], e3 as [s3 d3 o3 t3 v3 x3 a3 f3].
  cbn in *. unfold ev_le; cbn.
  assert (Hz : forall a b c, ole Z.eqb a b = true -> ole Z.eqb b c = true -> ole Z.eqb a c = true).
  { intros [a|] b c Ha Hb; [|reflexivity]. apply ole_some_z in Ha; subst. exact Hb. }
  assert (Hb : forall a b c, ole Bool.eqb a b = true -> ole Bool.eqb b c = true -> ole Bool.eqb a c = true).
  { intros [a|] b c Ha Hb'; [|reflexivity]. apply ole_some_b in Ha; subst. exact Hb'. }
  repeat match goal with H : _ /\ _ |- _ => destruct H end.
  rewrite !andb_true_iff; repeat split; eauto.
Qed.

(** * classify *)

Definition conf_neg (e : evidence) : bool := opt_is (e_anchor e) false || opt_is (e_fee e) false.

(** the part of [classify] below the confirmatory test *)
Definition classify_body (c : consts) (e : evidence) : classification :=
  match e_source e, e_dest e, e_other e, e_expiry e with
  | Some sa, Some da, Some ob, Some ex =>
      if ob || negb ex then Nonconforming
      else if da =? 0 then classify_preparation c e sa
      else if da =? CROSSING_DESTINATION_ACTIONS then classify_crossing c e sa
      else Nonconforming
  | _, _, _, _ => Unknown
  end.

Lemma classify_unfold c e : classify c e = if conf_neg e then Nonconforming else classify_body c e.
Proof. reflexivity. Qed.

(** below the confirmatory test, a decision is stable under every strengthening *)
Lemma classify_body_monotone c e e' :
  ev_le e e' = true -> classify_body c e <> Unknown -> classify_body c e' = classify_body c e.
Proof.
  intros Hle Hk. apply ev_le_fields in Hle.
  destruct Hle as (Hs & Hd & Ho & Ht & Hv & Hx & _ & _).
  unfold classify_body in *.
  destruct (e_source e) as [sa|]; [|congruence]. apply ole_some_z in Hs. rewrite Hs.
  destruct (e_dest e) as [da|]; [|congruence]. apply ole_some_z in Hd. rewrite Hd.
  destruct (e_other e) as [ob|]; [|congruence]. apply ole_some_b in Ho. rewrite Ho.
  destruct (e_expiry e) as [ex|]; [|congruence]. apply ole_some_b in Hx. rewrite Hx.
  destruct (ob || negb ex); [reflexivity|].
  destruct (da =? 0).
  - unfold classify_preparation in *. destruct (negb (sa =? c_prep_actions c)); [reflexivity|].
    destruct (e_sts e) as [b|]; [|congruence]. apply ole_some_b in Ht. rewrite Ht. reflexivity.
  - destruct (da =? CROSSING_DESTINATION_ACTIONS); [|reflexivity].
    unfold classify_crossing in *. destruct (negb (sa =? CROSSING_SOURCE_ACTIONS)); [reflexivity|].
    destruct (e_value e) as [v|]; [|congruence]. apply ole_some_z in Hv. rewrite Hv. reflexivity.
Qed.

Lemma conf_neg_mono e e' : ev_le e e' = true -> conf_neg e = true -> conf_neg e' = true.
Proof.
  intros Hle H. apply ev_le_fields in Hle. destruct Hle as (_ & _ & _ & _ & _ & _ & Ha & Hf).
  unfold conf_neg in *. apply orb_true_iff in H. apply orb_true_iff.
  destruct H as [H|H]; [left|right].
  - destruct (e_anchor e) as [[|]|]; try discriminate. apply ole_some_b in Ha. rewrite Ha. reflexivity.
  - destruct (e_fee e) as [[|]|]; try discriminate. apply ole_some_b in Hf. rewrite Hf. reflexivity.
Qed.

Lemma conf_neg_new e e' : ev_le e e' = true -> conf_neg e = false -> conf_neg e' = true ->
  new_negative_confirmatory e e' = true.
Proof.
  intros Hle H H'. apply ev_le_fields in Hle. destruct Hle as (_ & _ & _ & _ & _ & _ & Ha & Hf).
  unfold conf_neg, new_negative_confirmatory in *.
  apply orb_false_iff in H. destruct H as [H1 H2]. apply orb_true_iff in H'. apply orb_true_iff.
  destruct H' as [H'|H']; [left|right].
  - destruct (e_anchor e) as [[|]|]; try discriminate.
    + apply ole_some_b in Ha. rewrite Ha in H'. discriminate.
    + destruct (e_anchor e') as [[|]|]; try discriminate. reflexivity.
  - destruct (e_fee e) as [[|]|]; try discriminate.
    + apply ole_some_b in Hf. rewrite Hf in H'. discriminate.
    + destruct (e_fee e') as [[|]|]; try discriminate. reflexivity.
Qed.

Lemma new_negative_conf_neg e e' : new_negative_confirmatory e e' = true -> conf_neg e' = true.
Proof.
  unfold new_negative_confirmatory, conf_neg. intros H. apply orb_true_iff in H. apply orb_true_iff.
  destruct H as [H|H]; [left|right].
  - destruct (e_anchor e); try discriminate. destruct (e_anchor e') as [[|]|]; try discriminate. reflexivity.
  - destruct (e_fee e); try discriminate. destruct (e_fee e') as [[|]|]; try discriminate. reflexivity.
Qed.

(** Monotonicity under the documented obligation, in its weakest form: the strengthening does
    not answer negatively a confirmatory clause that was unanswered before. *)
Lemma classify_monotone c e e' :
  ev_le e e' = true -> new_negative_confirmatory e e' = false ->
  classify c e <> Unknown -> classify c e' = classify c e.
Proof.
  intros Hle Hn Hk. rewrite !classify_unfold in *.
  destruct (conf_neg e) eqn:E.
  - rewrite (conf_neg_mono _ _ Hle E). reflexivity.
  - destruct (conf_neg e') eqn:E'.
    + rewrite (conf_neg_new _ _ Hle E E') in Hn. discriminate.
    + apply classify_body_monotone; assumption.
Qed.

Lemma same_confirmatory_no_new e e' : same_confirmatory e e' = true -> new_negative_confirmatory e e' = false.
Proof.
  unfold same_confirmatory, new_negative_confirmatory. intros H. apply andb_true_iff in H. destruct H as [H1 H2].
  destruct (e_anchor e), (e_anchor e') as [[|]|], (e_fee e), (e_fee e') as [[|]|]; simpl in *; try discriminate; reflexivity.
Qed.

(** ... and in the form the source documents it: confirmatory clauses are a fixed capability. *)
Lemma classify_monotone_fixed_capability c e e' :
  ev_le e e' = true -> same_confirmatory e e' = true ->
  classify c e <> Unknown -> classify c e' = classify c e.
Proof. intros Hle Hs. apply classify_monotone; [assumption | apply same_confirmatory_no_new; assumption]. Qed.

(** A refutation is final without any guard. *)
Lemma nonconforming_stable c e e' :
  ev_le e e' = true -> classify c e = Nonconforming -> classify c e' = Nonconforming.
Proof.
  intros Hle Hk. rewrite !classify_unfold in *.
  destruct (conf_neg e) eqn:E.
  - rewrite (conf_neg_mono _ _ Hle E). reflexivity.
  - destruct (conf_neg e'); [reflexivity|].
    rewrite (classify_body_monotone c e e' Hle); [assumption | congruence].
Qed.

(** Exact description of every failure of monotonicity over the whole lattice. *)
Lemma classify_monotone_characterised c e e' :
  ev_le e e' = true -> classify c e <> Unknown -> classify c e' <> classify c e ->
  (exists k, classify c e = Conforms k) /\ classify c e' = Nonconforming /\
  new_negative_confirmatory e e' = true.
Proof.
  intros Hle Hk Hne.
  destruct (new_negative_confirmatory e e') eqn:En.
  - assert (H' : classify c e' = Nonconforming).
    { rewrite classify_unfold, (new_negative_conf_neg _ _ En). reflexivity. }
    split; [|split; [exact H' | reflexivity]].
    destruct (classify c e) as [k| |] eqn:Ec; [eauto | congruence | congruence].
  - exfalso. apply Hne. apply classify_monotone; assumption.
Qed.

(** The literal whole-lattice statement is false: the witness found in the design round. *)
Definition witness_lo : evidence :=
  mkEv (Some 2) (Some 1) (Some false) None (Some COIN) (Some true) None None.
Definition witness_hi : evidence :=
  mkEv (Some 2) (Some 1) (Some false) None (Some COIN) (Some true) (Some false) None.

Lemma classify_monotone_full_refuted :
  ev_le witness_lo witness_hi = true /\
  classify zip318_consts witness_lo = Conforms Transfer /\
  classify zip318_consts witness_hi = Nonconforming.
Proof. repeat split; vm_compute; reflexivity. Qed.

Lemma classify_monotone_full_refuted' :
  ~ (forall c e e', ev_le e e' = true -> classify c e <> Unknown -> classify c e' = classify c e).
Proof.
  intros H. destruct classify_monotone_full_refuted as (Hle & H1 & H2).
  specialize (H zip318_consts _ _ Hle). rewrite H1, H2 in H. discriminate H. discriminate.
Qed.

(** * Nothing is refuted without a negative observation; nothing conforms without every
      required clause answered positively. *)
Definition neg_obs := negative_observation_with is_canonical_within.
Definition pos_for := positive_for_with is_canonical_within.

Lemma classify_refutes_only_on_negative c e :
  classify c e = Nonconforming -> neg_obs c e = true.
Proof.
  unfold neg_obs, negative_observation_with, classify, classify_preparation, classify_crossing.
  destruct e as [s d o t v x a f]; cbn.
  destruct a as [[|]|], f as [[|]|]; cbn; try (intros; reflexivity);
  (destruct s as [sa|]; [|discriminate]); (destruct d as [da|]; [|discriminate]);
  (destruct o as [[|]|]; [intros; reflexivity| |discriminate]);
  (destruct x as [[|]|]; [|intros; reflexivity|discriminate]); cbn;
  unfold oz_is, oz_isnt;
  (destruct (da =? 0) eqn:E0;
   [ destruct (sa =? c_prep_actions c); cbn; [destruct t as [[|]|]; cbn; try discriminate; intros; reflexivity | intros; reflexivity]
   | destruct (da =? CROSSING_DESTINATION_ACTIONS) eqn:E1; cbn;
     [ destruct (sa =? CROSSING_SOURCE_ACTIONS); cbn;
       [ destruct v as [vv|]; [|discriminate]; destruct (is_canonical_within vv (c_min c) (c_max c)); cbn; [discriminate | intros; rewrite ?orb_true_r; reflexivity]
       | intros; rewrite ?orb_true_r; reflexivity ]
     | intros; reflexivity ] ]).
Qed.

(** [Conforms k] is returned exactly when every clause the shape requires is answered
    positively and no confirmatory clause is answered negatively. *)
Lemma classify_conforms_iff c e k : classify c e = Conforms k <-> pos_for c e k = true.
Proof.
  unfold pos_for, positive_for_with, classify, classify_preparation, classify_crossing.
  destruct e as [s d o t v x a f]; cbn. unfold oz_is.
  destruct a as [[|]|], f as [[|]|]; cbn; rewrite ?andb_false_r; try (split; discriminate);
  (destruct o as [[|]|]; cbn; [destruct s, d, x; split; discriminate | | destruct s, d; split; discriminate]);
  (destruct x as [[|]|]; cbn; [ | destruct s, d; split; discriminate | destruct s, d; split; discriminate]);
  (destruct d as [da|]; [|destruct s, k; split; discriminate]);
  (destruct s as [sa|]; [|destruct k; cbn; rewrite ?andb_false_r; split; discriminate]);
  (destruct (da =? 0) eqn:E0; cbn;
   [ destruct (sa =? c_prep_actions c); cbn; [destruct t as [[|]|], k; cbn; split; (discriminate || reflexivity) | destruct k; split; discriminate]
   | destruct (da =? CROSSING_DESTINATION_ACTIONS); cbn;
     [ destruct (sa =? CROSSING_SOURCE_ACTIONS); cbn;
       [ destruct v as [vv|]; [destruct (is_canonical_within vv (c_min c) (c_max c)) | ]; destruct k; cbn; split; (discriminate || reflexivity)
       | destruct k; split; discriminate ]
     | destruct k; split; discriminate ] ]).
Qed.

(** A negative observation is really negative: no strengthening of the evidence conforms. *)
Lemma negative_is_final c e e' k :
  neg_obs c e = true -> ev_le e e' = true -> classify c e' <> Conforms k.
Proof.
  intros Hn Hle Hc. apply classify_conforms_iff in Hc.
  apply ev_le_fields in Hle. destruct Hle as (Hs & Hd & Ho & Ht & Hv & Hx & Ha & Hf).
  unfold neg_obs, negative_observation_with in Hn. unfold pos_for, positive_for_with in Hc.
  rewrite !andb_true_iff in Hc. destruct Hc as [[[[P1 P2] P3] P4] P5].
  rewrite !orb_true_iff in Hn.
  unfold opt_is, oz_is, oz_isnt, is_some in *.
  destruct Hn as [[[[[[N|N]|N]|N]|N]|N]|N].
  - destruct (e_anchor e) as [[|]|]; try discriminate. apply ole_some_b in Ha. rewrite Ha in P3. discriminate.
  - destruct (e_fee e) as [[|]|]; try discriminate. apply ole_some_b in Hf. rewrite Hf in P4. discriminate.
  - destruct (e_other e) as [[|]|]; try discriminate. apply ole_some_b in Ho. rewrite Ho in P1. discriminate.
  - destruct (e_expiry e) as [[|]|]; try discriminate. apply ole_some_b in Hx. rewrite Hx in P2. discriminate.
  - destruct (e_dest e) as [da|]; try discriminate. apply ole_some_z in Hd. rewrite Hd in P5.
    destruct k; rewrite !andb_true_iff in P5; rewrite !andb_true_iff in N.
    + destruct P5 as [[Q _] _]. destruct N as [[_ N] _]. rewrite Q in N. discriminate.
    + destruct P5 as [[[_ Q] _] _]. destruct N as [_ N]. rewrite Q in N. discriminate.
  - apply andb_true_iff in N. destruct N as [N0 N].
    destruct (e_dest e) as [da|]; try discriminate. apply ole_some_z in Hd. rewrite Hd in P5.
    destruct k; rewrite !andb_true_iff in P5.
    + destruct P5 as [[_ Q2] Q3]. apply orb_true_iff in N. destruct N as [N|N].
      * destruct (e_source e) as [sa|]; try discriminate. apply ole_some_z in Hs. rewrite Hs in Q2.
        rewrite Q2 in N. discriminate.
      * destruct (e_sts e) as [[|]|]; try discriminate. apply ole_some_b in Ht. rewrite Ht in Q3. discriminate.
    + destruct P5 as [[[Q _] _] _]. rewrite N0 in Q. discriminate.
  - apply andb_true_iff in N. destruct N as [N0 N].
    destruct (e_dest e) as [da|]; try discriminate. apply ole_some_z in Hd. rewrite Hd in P5.
    destruct k; rewrite !andb_true_iff in P5.
    + destruct P5 as [[Q _] _]. assert (da = 0) by lia. subst da.
      unfold CROSSING_DESTINATION_ACTIONS in N0. discriminate.
    + destruct P5 as [[[_ _] Q2] Q3]. apply orb_true_iff in N. destruct N as [N|N].
      * destruct (e_source e) as [sa|]; try discriminate. apply ole_some_z in Hs. rewrite Hs in Q2.
        rewrite Q2 in N. discriminate.
      * destruct (e_value e) as [vv|]; try discriminate. apply ole_some_z in Hv. rewrite Hv in Q3.
        rewrite Q3 in N. discriminate.
Qed.

(** [Unknown] is the least element: the empty evidence classifies Unknown. *)
Lemma classify_bottom c : classify c (mkEv None None None None None None None None) = Unknown.
Proof. reflexivity. Qed.
