(** C17 — executable model of
      zcash_pool_migration/src/scheduling.rs   (gen_index, shuffle_in_place, shuffle_indices,
        DelayDistribution::draw, cumulative_broadcast_heights, schedule, schedule_sync_wakeups,
        draw_anchor_age, sample_recency_weighted_boundary, candidate_boundary_bounds,
        lowest_candidate_boundary, draw_anchor_boundary, redraw_anchor_boundary,
        earliest_broadcast_height, SchedulingParams::new_with_default_distributions)
      components/zcash_protocol/src/zip318.rs  (expiry_height, AnchorBucketInterval, classify*,
        is_canonical_within, to_code / from_code).

    Randomness: the caller's generator is a *recorded word stream* [list Z] of u64 words. A
    function that draws returns [Ok (value, unread words)]; [Panic] is the replaying generator
    running out of words (every rejection loop consumes at least one word per iteration, so all
    loops are structural recursions on the stream and need no fuel) or a debug-profile arithmetic
    panic. No proofs in this file. *)
From V.Lib Require Import Base MachInt.
From V.Gen Require Import C17Consts.
Local Open Scope Z_scope.

Definition two64 : Z := 18446744073709551616.

(** A drawing computation: value and the unread rest of the stream. *)
Definition draw (A : Type) := outcome (A * list Z) unit.

(** u32 [saturating_add]; [BlockHeight + u32] is this too. *)
Definition sat_add_u32 (a b : Z) : Z := Z.min u32_max (a + b).
Definition checked_sub_u32 (a b : Z) : option Z := if b <=? a then Some (a - b) else None.

(* ------------------------------------------------------------------------------------------ *)
(** * zip318.rs: expiry and the anchor grid *)

(** [expiry_height]: BlockHeight::from_u32(h - h % EXPIRY_MODULUS) + EXPIRY_WINDOW (saturating). *)
Definition expiry_height (h : Z) : Z := sat_add_u32 (h - h mod EXPIRY_MODULUS) EXPIRY_WINDOW.

Definition is_boundary (I h : Z) : bool := h mod I =? 0.
Definition boundary_at_or_below (I h : Z) : Z := h - h mod I.
Definition boundary_at_or_above (I h : Z) : Z :=
  let r := h mod I in
  if r =? 0 then h else sat_add_u32 h (I - r).

(* ------------------------------------------------------------------------------------------ *)
(** * gen_index (Lemire widening multiply with rejection) *)

Fixpoint gen_index_go (bound : Z) (ws : list Z) : draw Z :=
  match ws with
  | [] => Panic
  | value :: r =>
      let m := value * bound in
      let low := m mod two64 in
      if bound <=? low then Ok (m / two64, r)
      else
        let threshold := (two64 - bound) mod bound in       (* bound.wrapping_neg() % bound *)
        if threshold <=? low then Ok (m / two64, r)
        else gen_index_go bound r
  end.

(** [debug_assert!(bound > 0)]. Every call site passes bound >= 2 (shuffle: i + 1 with i >= 1;
    wake-ups: min(jitter_cap, slack) + 1 with the minimum non-zero), so the assertion is
    unreachable through the public API in either profile. *)
Definition gen_index (ws : list Z) (bound : Z) : draw Z :=
  if bound <=? 0 then Panic else gen_index_go bound ws.

(* ------------------------------------------------------------------------------------------ *)
(** * Fisher–Yates shuffle *)

Fixpoint upd {A} (l : list A) (i : nat) (x : A) : list A :=
  match l, i with
  | [], _ => []
  | _ :: r, O => x :: r
  | y :: r, S i' => y :: upd r i' x
  end.

(** [slice.swap(i, j)] (indices are always in range where it is called). *)
Definition swap {A} (l : list A) (i j : nat) : list A :=
  match nth_error l i, nth_error l j with
  | Some a, Some b => upd (upd l i b) j a
  | _, _ => l
  end.

(** the loop [while i > 0 { j = gen_index(rng, i + 1); swap(i, j); i -= 1 }] *)
Fixpoint shuffle_go {A} (i : nat) (l : list A) (ws : list Z) : draw (list A) :=
  match i with
  | O => Ok (l, ws)
  | S i' =>
      match gen_index ws (Z.of_nat (S i') + 1) with
      | Ok (j, r) => shuffle_go i' (swap l (S i') (Z.to_nat j)) r
      | _ => Panic
      end
  end.

Definition shuffle_in_place {A} (l : list A) (ws : list Z) : draw (list A) :=
  if (length l <? 2)%nat then Ok (l, ws) else shuffle_go (length l - 1) l ws.

Fixpoint iota (k : nat) (from : Z) : list Z :=
  match k with O => [] | S k' => from :: iota k' (from + 1) end.

Definition shuffle_indices (n : nat) (ws : list Z) : draw (list Z) := shuffle_in_place (iota n 0) ws.

(* ------------------------------------------------------------------------------------------ *)
(** * Delays and cumulative heights.

    [DelayDistribution::draw_inner] computes a candidate delay from each word through f64
    arithmetic and [libm::log]; the model does not reproduce floating point. The stream of a
    delay-drawing function is therefore given as the list of *candidate delays* (one oracle value
    per word, computed by the harness with the same formula); the model keeps what the property
    needs: the acceptance test [delay <= cap] and the number of words consumed. *)

Fixpoint delay_draw (cap : Z) (ds : list Z) : draw Z :=
  match ds with
  | [] => Panic
  | d :: r => if d <=? cap then Ok (d, r) else delay_draw cap r
  end.

(** [DelayDistribution::new]: None if cap < mean. *)
Definition delay_new (mean cap : Z) : option (Z * Z) := if cap <? mean then None else Some (mean, cap).

Fixpoint cumulative_heights (cap : Z) (n : nat) (h : Z) (ds : list Z) : draw (list Z) :=
  match n with
  | O => Ok ([], ds)
  | S n' =>
      match delay_draw cap ds with
      | Ok (d, r) =>
          let h' := sat_add_u32 h d in
          match cumulative_heights cap n' h' r with
          | Ok (hs, r') => Ok (h' :: hs, r')
          | _ => Panic
          end
      | _ => Panic
      end
  end.

(** [schedule]: pair every broadcast height with its canonical expiry. *)
Definition schedule (cap : Z) (n : nat) (commit : Z) (ds : list Z) : draw (list (Z * Z)) :=
  match cumulative_heights cap n commit ds with
  | Ok (hs, r) => Ok (map (fun h => (h, expiry_height h)) hs, r)
  | _ => Panic
  end.

(** [SchedulingParams::new_with_default_distributions]: the [scale] closure. *)
Definition scale_delay (I value : Z) : Z :=
  let scaled := value * I / ZIP318_INTERVAL in
  if scaled <=? u32_max then (if scaled =? 0 then 1 else scaled) else u32_max.

(* ------------------------------------------------------------------------------------------ *)
(** * Anchor selection *)

Definition lowest_candidate_boundary (I nu63 funding : Z) : Z :=
  let above_activation := sat_add_u32 (boundary_at_or_below I nu63) I in
  let at_or_after_funding := boundary_at_or_above I funding in
  Z.max above_activation at_or_after_funding.

Definition candidate_boundary_bounds (I nu63 funding most_recent : Z) : option (Z * Z) :=
  match checked_sub_u32 most_recent I with
  | None => None
  | Some highest =>
      let lowest := lowest_candidate_boundary I nu63 funding in
      if lowest <=? highest then Some (lowest, highest) else None
  end.

Definition earliest_broadcast_height (I nu63 funding : Z) : Z :=
  sat_add_u32 (lowest_candidate_boundary I nu63 funding) I.

(** One word of [draw_anchor_age]: up to [k] coin flips, continuing the running [age].
    [oc] = the crate is built with overflow checks (debug profile): [age += 1] at u32::MAX panics;
    without them (release profile) it wraps to 0. *)
Inductive scan := Found (age : Z) | More (age : Z) | AgeOverflow.

(** [age += 1] on u32: panics at u32::MAX with overflow checks ([None]), wraps to 0 without. *)
Definition bump_age (oc : bool) (age : Z) : option Z :=
  if age =? u32_max then (if oc then None else Some 0) else Some (age + 1).

Fixpoint scan_bits (oc : bool) (k : nat) (bits age : Z) : scan :=
  match k with
  | O => More age
  | S k' =>
      if Z.odd bits then Found age
      else match bump_age oc age with
           | None => AgeOverflow
           | Some age' => scan_bits oc k' (bits / 2) age'
           end
  end.

(** The body of the rejection loop after an age has been drawn. [None] = redraw. *)
Definition try_candidate (I lowest highest most_recent age : Z) : option Z :=
  if ANCHOR_AGE_CAP <? age then None
  else
    let offset := age * I in
    if u32_max <? offset then None                       (* checked_mul *)
    else if most_recent <? offset then None              (* checked_sub *)
    else
      let c := most_recent - offset in
      if (lowest <=? c) && (c <=? highest) then Some c else None.

(** [sample_recency_weighted_boundary] with [draw_anchor_age] inlined: [age] is the running age
    of the draw in progress (1 at the start of every draw); the unread bits of the word in which
    a draw stops are discarded, as in the code. *)
Fixpoint sample_go (oc : bool) (I lowest highest most_recent age : Z) (ws : list Z) : draw Z :=
  match ws with
  | [] => Panic
  | w :: r =>
      match scan_bits oc 64 w age with
      | Found a =>
          match try_candidate I lowest highest most_recent a with
          | Some c => Ok (c, r)
          | None => sample_go oc I lowest highest most_recent 1 r
          end
      | More a => sample_go oc I lowest highest most_recent a r
      | AgeOverflow => Panic
      end
  end.

Definition sample_boundary (oc : bool) (I lowest highest most_recent : Z) (ws : list Z) : draw Z :=
  sample_go oc I lowest highest most_recent 1 ws.

Definition draw_anchor_boundary (oc : bool) (I nu63 funding tip : Z) (ws : list Z) : draw (option Z) :=
  let most_recent := boundary_at_or_below I tip in
  match candidate_boundary_bounds I nu63 funding most_recent with
  | None => Ok (None, ws)
  | Some (lowest, highest) =>
      match sample_boundary oc I lowest highest most_recent ws with
      | Ok (c, r) => Ok (Some c, r)
      | _ => Panic
      end
  end.

Definition redraw_anchor_boundary (oc : bool) (I prior broadcast : Z) (ws : list Z) : draw (option Z) :=
  let most_recent := boundary_at_or_below I broadcast in
  match checked_sub_u32 most_recent I with
  | None => Ok (None, ws)
  | Some highest =>
      let lowest := boundary_at_or_above I prior in
      if highest <? lowest then Ok (None, ws)
      else
        match sample_boundary oc I lowest highest most_recent ws with
        | Ok (c, r) => Ok (Some c, r)
        | _ => Panic
        end
  end.

(* ------------------------------------------------------------------------------------------ *)
(** * Sync wake-ups *)

(** A proving window as the code stores it: (deadline, ready, id). *)
Definition win := (Z * Z * Z)%type.
Definition w_deadline (w : win) : Z := fst (fst w).
Definition w_ready (w : win) : Z := snd (fst w).
Definition w_id (w : win) : Z := snd w.

(** Window assembly. Transfers are (id, anchor, broadcast). Returns (overdue, windows) in input
    order, or the first infeasible id. Overdue transfers keep their window triple (the code only
    keeps the id) so that theorems can speak about them. *)
Fixpoint assemble (tip margin : Z) (ts : list (Z * Z * Z)) : outcome (list win * list win) Z :=
  match ts with
  | [] => Ok ([], [])
  | (id, a, b) :: r =>
      if b <=? sat_add_u32 a 1 then Err id
      else
        let deadline := b - 1 in
        let ready := Z.max (Z.min (sat_add_u32 a margin) deadline) tip in
        match assemble tip margin r with
        | Ok (ov, ws) =>
            if deadline <? tip then Ok ((deadline, ready, id) :: ov, ws)
            else Ok (ov, (deadline, ready, id) :: ws)
        | Err e => Err e
        | Panic => Panic
        end
  end.

(** [sort_by_key(|(deadline, ready, _)| (deadline, ready))]: stable. *)
Definition key_le (x y : win) : bool :=
  (w_deadline x <? w_deadline y) || ((w_deadline x =? w_deadline y) && (w_ready x <=? w_ready y)).

Fixpoint insert (x : win) (l : list win) : list win :=
  match l with
  | [] => [x]
  | y :: r => if key_le x y then x :: y :: r else y :: insert x r
  end.

Fixpoint sort_windows (l : list win) : list win :=
  match l with
  | [] => []
  | x :: r => insert x (sort_windows r)
  end.

Record group := mkGroup { first_deadline : Z; max_ready : Z; covers : list win }.

(** Greedy grouping; [g] is the open (last) group. *)
Fixpoint greedy (g : group) (ws : list win) : list group :=
  match ws with
  | [] => [g]
  | w :: rest =>
      if w_ready w <=? first_deadline g
      then greedy (mkGroup (first_deadline g) (Z.max (max_ready g) (w_ready w)) (covers g ++ [w])) rest
      else g :: greedy (mkGroup (w_deadline w) (w_ready w) [w]) rest
  end.

Definition groups_of (ws : list win) : list group :=
  match ws with
  | [] => []
  | w :: rest => greedy (mkGroup (w_deadline w) (w_ready w) [w]) rest
  end.

(** One jittered wake-up per group. *)
Fixpoint emit (jitter_cap : Z) (gs : list group) (ws : list Z) : draw (list (Z * list win)) :=
  match gs with
  | [] => Ok ([], ws)
  | g :: r =>
      if first_deadline g <? max_ready g then Panic        (* u32 subtraction underflow *)
      else
        let slack := first_deadline g - max_ready g in
        let bound := Z.min jitter_cap slack in
        match (if bound =? 0 then Ok (0, ws) else gen_index ws (bound + 1)) with
        | Ok (jitter, ws') =>
            let height := max_ready g + jitter in
            if u32_max <? height then Panic                (* u32 addition overflow *)
            else
              match emit jitter_cap r ws' with
              | Ok (l, ws'') => Ok ((height, covers g) :: l, ws'')
              | _ => Panic
              end
        | _ => Panic
        end
  end.

(** [schedule_sync_wakeups], annotated: every wake-up carries the window triples it covers. *)
Definition wakeups_ann (margin0 jitter_cap tip : Z) (ts : list (Z * Z * Z)) (ws : list Z)
  : outcome (list (Z * list win) * list Z) Z :=
  let margin := Z.max margin0 1 in
  match assemble tip margin ts with
  | Err id => Err id
  | Panic => Panic
  | Ok (overdue, windows) =>
      let sorted := sort_windows windows in
      let '(overdue', windows') :=
        match overdue with
        | [] => (overdue, sorted)
        | _ => (overdue ++ filter (fun w => w_ready w =? tip) sorted,
                filter (fun w => negb (w_ready w =? tip)) sorted)
        end in
      match emit jitter_cap (groups_of windows') ws with
      | Ok (l, r) =>
          Ok (match overdue' with [] => l | _ => (tip, overdue') :: l end, r)
      | _ => Panic
      end
  end.

Definition strip (l : list (Z * list win)) : list (Z * list Z) :=
  map (fun p => (fst p, map w_id (snd p))) l.

(** What the public function returns: heights with the covered ids. *)
Definition schedule_sync_wakeups (margin0 jitter_cap tip : Z) (ts : list (Z * Z * Z)) (ws : list Z)
  : outcome (list (Z * list Z) * list Z) Z :=
  match wakeups_ann margin0 jitter_cap tip ts ws with
  | Ok (l, r) => Ok (strip l, r)
  | Err e => Err e
  | Panic => Panic
  end.

(* ------------------------------------------------------------------------------------------ *)
(** * Schedule shift (state.rs [MigrationState::shift_schedule], reached through the overdue
      re-spread of satisfiability.rs [advance_migration])

    A transaction row, as far as the shift is concerned:
    (state, is_transfer, scheduled_height, expiry_height, anchor_boundary) with state
    0 = AwaitingSignature, 1 = Signed, 2 = Proved, 3 = Broadcast, 4 = Mined. *)
Definition stx := (Z * bool * Z * Z * option Z)%type.

(** one iteration of the loop of [shift_schedule]: in-flight and mined rows are skipped; pending
    rows move by [delta] (saturating); expiry heights are untouched; a transfer whose proof is
    still to come gets its boundary redrawn against the shifted schedule, floored at the prior
    boundary, and keeps the prior one when the redraw finds no candidate *)
Definition shift_tx (oc : bool) (I delta : Z) (t : stx) (ws : list Z) : draw stx :=
  let '(st, tr, sched, ex, an) := t in
  if (st =? 3) || (st =? 4) then Ok (t, ws)
  else
    let s' := sat_add_u32 sched delta in
    if (st =? 0) || (st =? 1) then
      match tr, an with
      | true, Some prior =>
          match redraw_anchor_boundary oc I prior s' ws with
          | Ok (Some fresh, r) => Ok ((st, tr, s', ex, Some fresh), r)
          | Ok (None, r) => Ok ((st, tr, s', ex, Some prior), r)
          | _ => Panic
          end
      | _, _ => Ok ((st, tr, s', ex, an), ws)
      end
    else Ok ((st, tr, s', ex, an), ws).

Fixpoint shift_all (oc : bool) (I delta : Z) (txs : list stx) (ws : list Z) : draw (list stx) :=
  match txs with
  | [] => Ok ([], ws)
  | t :: rest =>
      match shift_tx oc I delta t ws with
      | Ok (t', r) =>
          match shift_all oc I delta rest r with
          | Ok (l, r') => Ok (t' :: l, r')
          | _ => Panic
          end
      | _ => Panic
      end
  end.

(** [overdue_shift_tolerance] of the transfer delay derived from the persisted interval *)
Definition overdue_tolerance (I : Z) : Z := Z.max (scale_delay I TRANSFER_DELAY_MEAN / 4) 1.

(** The overdue re-spread of [advance_migration] when the step it serves is the broadcast of the
    first row (a proved, due transfer): if that row lags the served target by more than the
    tolerance, every pending row is shifted by the lag; otherwise nothing moves. *)
Definition advance_overdue (oc : bool) (I served : Z) (txs : list stx) (ws : list Z) : draw (list stx) :=
  match txs with
  | [] => Ok ([], ws)
  | (_, _, s0, _, _) :: _ =>
      if sat_add_u32 s0 (overdue_tolerance I) <? served
      then shift_all oc I (served - s0) txs ws
      else Ok (txs, ws)
  end.

(* ------------------------------------------------------------------------------------------ *)
(** * Rebuild of an expired transfer (engine.rs [rebuild_expired_transfer_inner]): the scheduling
      half. The part is rescheduled one freshly drawn transfer delay past the chain base (the
      latest scheduled height among the still-pending transfers, clamped below by the target
      [tip + 1]); its expiry is the canonical expiry of the NEW schedule; its anchor is drawn
      against the NEW schedule's height. One stream serves both draws: [ds] are the candidate
      delays of the words [ws] (same length). [Err tt] = RebuildError::NoCandidateAnchor. *)
Definition chain_base (tip : Z) (pend : list Z) : Z := fold_left Z.max pend (sat_add_u32 tip 1).

Definition rebuild_schedule (oc : bool) (I cap nu63 funding tip : Z) (pend ws ds : list Z)
  : outcome (Z * Z * option Z) unit :=
  let base := chain_base tip pend in
  match delay_draw cap ds with
  | Ok (d, rest) =>
      let k := (length ds - length rest)%nat in
      let sched := sat_add_u32 base d in
      match draw_anchor_boundary oc I nu63 funding sched (skipn k ws) with
      | Ok (Some b, _) => Ok (sched, expiry_height sched, Some b)
      | Ok (None, _) => Err tt
      | _ => Panic
      end
  | _ => Panic
  end.

(* ------------------------------------------------------------------------------------------ *)
(** * Parameter plumbing: [SchedulingParams::new], [new_with_default_distributions] and the wallet
      adapter's [WalletMigration::scheduling_params] (wallet.rs). The result is
      (interval, transfer mean, transfer cap, preparation mean, preparation cap): configured delays
      go to their own slots; without an override every delay is the ZIP 318 value scaled to the
      interval. *)
Definition default_delays (I : Z) : Z * Z * Z * Z :=
  (scale_delay I TRANSFER_DELAY_MEAN, scale_delay I TRANSFER_DELAY_CAP,
   scale_delay I PREP_DELAY_MEAN, scale_delay I PREP_DELAY_CAP).

Definition scheduling_params (I : Z) (cfg : option (Z * Z * Z * Z)) : Z * Z * Z * Z * Z :=
  let '(tm, tc, pm, pc) := match cfg with Some q => q | None => default_delays I end in
  (I, tm, tc, pm, pc).

(* ------------------------------------------------------------------------------------------ *)
(** * Classification *)

Record evidence := mkEv {
  e_source : option Z;            (* source_actions *)
  e_dest : option Z;              (* destination_actions *)
  e_other : option bool;          (* other_bundles_present *)
  e_sts : option bool;            (* source_is_send_to_self *)
  e_value : option Z;             (* sole_destination_value *)
  e_expiry : option bool;         (* expiry_is_canonical *)
  e_anchor : option bool;         (* anchor_on_grid   (confirmatory) *)
  e_fee : option bool             (* fee_is_canonical (confirmatory) *)
}.

Inductive kind := Preparation | Transfer.
Inductive classification := Conforms (k : kind) | Nonconforming | Unknown.

(** The three [PoolMigrationConstants] accessors [classify] reads. *)
Record consts := mkConsts { c_prep_actions : Z; c_min : Z; c_max : Z }.
Definition zip318_consts : consts := mkConsts PREP_TX_ACTIONS MAX_RESIDUAL_VALUE DENOM_CAP.

(** [while n != 0 && n.is_multiple_of(10) { n /= 10 }]. Fuel 64 exceeds the number of decimal
    digits of any u64 (see [strip_radix_opt] below for the version with the exit made visible). *)
Fixpoint strip_radix (fuel : nat) (n : Z) : Z :=
  match fuel with
  | O => n
  | S f => if negb (n =? 0) && (n mod DENOMINATION_RADIX =? 0) then strip_radix f (n / DENOMINATION_RADIX) else n
  end.

Definition is_canonical_within (value lo hi : Z) : bool :=
  if (value <? lo) || (hi <? value) then false
  else
    let n := strip_radix 64 value in
    (n =? 5) || (n =? 2) || (n =? 1).

(** The same loop with the exit made visible: [None] = still running after [fuel] iterations. *)
Fixpoint strip_radix_opt (fuel : nat) (n : Z) : option Z :=
  match fuel with
  | O => None
  | S f => if negb (n =? 0) && (n mod DENOMINATION_RADIX =? 0) then strip_radix_opt f (n / DENOMINATION_RADIX) else Some n
  end.

(** [None] = does not terminate *)
Definition is_canonical_within_opt (value lo hi : Z) : option bool :=
  if (value <? lo) || (hi <? value) then Some false
  else
    match strip_radix_opt 64 value with
    | Some n => Some ((n =? 5) || (n =? 2) || (n =? 1))
    | None => None
    end.

Definition opt_is (o : option bool) (b : bool) : bool :=
  match o with Some x => Bool.eqb x b | None => false end.

Definition classify_preparation (c : consts) (e : evidence) (source_actions : Z) : classification :=
  if negb (source_actions =? c_prep_actions c) then Nonconforming
  else
    match e_sts e with
    | None => Unknown
    | Some false => Nonconforming
    | Some true => Conforms Preparation
    end.

Definition classify_crossing (c : consts) (e : evidence) (source_actions : Z) : classification :=
  if negb (source_actions =? CROSSING_SOURCE_ACTIONS) then Nonconforming
  else
    match e_value e with
    | None => Unknown
    | Some value =>
        if negb (is_canonical_within value (c_min c) (c_max c)) then Nonconforming
        else Conforms Transfer
    end.

Definition classify (c : consts) (e : evidence) : classification :=
  if opt_is (e_anchor e) false || opt_is (e_fee e) false then Nonconforming
  else
    match e_source e, e_dest e, e_other e, e_expiry e with
    | Some source_actions, Some destination_actions, Some other_bundles_present, Some expiry_is_canonical =>
        if other_bundles_present || negb expiry_is_canonical then Nonconforming
        else if destination_actions =? 0 then classify_preparation c e source_actions
        else if destination_actions =? CROSSING_DESTINATION_ACTIONS then classify_crossing c e source_actions
        else Nonconforming
    | _, _, _, _ => Unknown
    end.

(** [to_code] / [from_code]; the numeric tables are regenerated from the source. *)
Definition to_code (x : classification) : Z :=
  match x with
  | Unknown => CODE_UNKNOWN
  | Nonconforming => CODE_NONCONFORMING
  | Conforms Preparation => CODE_PREPARATION
  | Conforms Transfer => CODE_TRANSFER
  end.

Definition class_of_num (n : Z) : classification :=
  if n =? 1 then Nonconforming else if n =? 2 then Conforms Preparation
  else if n =? 3 then Conforms Transfer else Unknown.

Fixpoint lookup (k : Z) (t : list (Z * Z)) : option Z :=
  match t with
  | [] => None
  | (a, b) :: r => if a =? k then Some b else lookup k r
  end.

Definition from_code (code : Z) : classification :=
  match lookup code FROM_CODE_TABLE with
  | Some n => class_of_num n
  | None => class_of_num FROM_CODE_DEFAULT
  end.

(** [PoolMigrationConstants::is_canonical_expiry_value] (the height-independent test used by the
    production evidence source). *)
Definition is_canonical_expiry_value (expiry : Z) : bool :=
  (EXPIRY_WINDOW <=? expiry) && (expiry mod EXPIRY_MODULUS =? 0).
