(** C17 — property theorems only. Each is closed by [exact] of a lemma from the Proofs*.v files
    and audited by Print Assumptions in the generated Audit file.

    Streams: a drawing function takes the recorded word stream [ws : list Z] and returns
    [Ok (value, unread words)]; [Panic] is the replaying generator running out of words (or a
    debug-profile arithmetic panic). All statements are for every stream; "the generator ran
    dry" is the excluded outcome (the hypothesis [... = Ok ...]). [u64w w] says a stream word
    fits u64. *)
From Coq Require Import Permutation Sorted.
From V.Lib Require Import Base MachInt.
From V.Gen Require Import C17Consts.
From V.C17 Require Import Model Spec Corr Wf ProofsArith ProofsShuffle ProofsAnchor ProofsWake ProofsClassify ProofsCanon ProofsPerm ProofsWake2 ProofsShift ProofsRebuild ProofsPlumb Bridge.
Local Open Scope Z_scope.

(* ------------------------------------------------------------------------------------------ *)
(** * Expiry *)

(** every expiry is the canonical rolling expiry of its height, saturating at u32::MAX *)
Theorem C17_expiry_canonical : forall h, expiry_height h = expiry_spec h.
Proof. exact expiry_canonical. Qed.

Theorem C17_expiry_saturates : forall h, expiry_height h <= u32_max.
Proof. exact expiry_saturates. Qed.

Theorem C17_expiry_saturated : forall h,
  u32_max <= h - h mod EXPIRY_MODULUS + EXPIRY_WINDOW -> expiry_height h = u32_max.
Proof. exact expiry_saturated. Qed.

(** below saturation: a multiple of the modulus, strictly in the future, more than one and at
    most two periods of validity *)
Theorem C17_expiry_window : forall h,
  0 <= h -> h - h mod EXPIRY_MODULUS + EXPIRY_WINDOW <= u32_max ->
  expiry_height h = h - h mod EXPIRY_MODULUS + 2 * EXPIRY_MODULUS /\
  expiry_height h mod EXPIRY_MODULUS = 0 /\
  h < expiry_height h /\ EXPIRY_MODULUS < expiry_height h - h <= 2 * EXPIRY_MODULUS.
Proof. exact expiry_window_bounds. Qed.

Theorem C17_expiry_shared : forall h h',
  h / EXPIRY_MODULUS = h' / EXPIRY_MODULUS -> expiry_height h = expiry_height h'.
Proof. exact expiry_shared. Qed.

Theorem C17_schedule_expiry_canonical : forall cap n commit ds l r,
  schedule cap n commit ds = Ok (l, r) ->
  Forall (fun p => snd p = expiry_spec (fst p)) l /\
  cumulative_heights cap n commit ds = Ok (map fst l, r).
Proof. exact schedule_expiry_canonical. Qed.

(* ------------------------------------------------------------------------------------------ *)
(** * Grid *)

Theorem C17_boundary_below : forall I h, 0 < I -> 0 <= h ->
  let b := boundary_at_or_below I h in b mod I = 0 /\ 0 <= b <= h /\ h - b < I.
Proof. exact below_props. Qed.

Theorem C17_boundary_above : forall I h, 0 < I -> 0 <= h <= u32_max ->
  let b := boundary_at_or_above I h in
  h <= b <= u32_max /\
  (b < u32_max \/ h + (I - h mod I) <= u32_max \/ h mod I = 0 -> b mod I = 0 /\ b - h < I) /\
  (forall x, x mod I = 0 -> h <= x <= u32_max -> b <= x).
Proof. exact above_props. Qed.

(* ------------------------------------------------------------------------------------------ *)
(** * Delays and broadcast heights *)

(** a drawn delay lies within the cap; the words skipped before it carried delays above it *)
Theorem C17_delay_le_cap : forall cap ds d r, delay_draw cap ds = Ok (d, r) ->
  d <= cap /\ exists pre, ds = pre ++ d :: r /\ Forall (fun x => cap < x) pre.
Proof. exact delay_le_cap. Qed.

(** broadcast heights never decrease from the commit height *)
Theorem C17_heights_monotone : forall cap n commit ds hs r,
  Forall (fun x => 0 <= x) ds -> 0 <= cap -> commit <= u32_max ->
  cumulative_heights cap n commit ds = Ok (hs, r) -> StronglySorted Z.le (commit :: hs).
Proof. exact heights_monotone. Qed.

(** ... they saturate at u32::MAX instead of wrapping ... *)
Theorem C17_heights_saturate : forall cap n commit ds hs r,
  Forall (fun x => 0 <= x) ds -> commit <= u32_max ->
  cumulative_heights cap n commit ds = Ok (hs, r) -> Forall (fun x => commit <= x <= u32_max) hs.
Proof. exact heights_saturate. Qed.

(** ... there is one per part and consecutive heights differ by a delay within the cap *)
Theorem C17_heights_steps : forall cap n h ds hs r, Forall (fun x => 0 <= x) ds -> h <= u32_max ->
  cumulative_heights cap n h ds = Ok (hs, r) -> length hs = n /\ steps_ok cap h hs = true.
Proof. exact heights_steps. Qed.

(** scaled default distributions stay valid (cap >= mean, NonZeroU32) and reproduce ZIP 318 at
    the ZIP 318 interval *)
Theorem C17_default_dists_valid : forall I, 0 < I ->
  scale_delay I TRANSFER_DELAY_MEAN <= scale_delay I TRANSFER_DELAY_CAP /\
  scale_delay I PREP_DELAY_MEAN <= scale_delay I PREP_DELAY_CAP /\
  scale_delay ZIP318_INTERVAL TRANSFER_DELAY_MEAN = TRANSFER_DELAY_MEAN /\
  scale_delay ZIP318_INTERVAL TRANSFER_DELAY_CAP = TRANSFER_DELAY_CAP /\
  scale_delay ZIP318_INTERVAL PREP_DELAY_MEAN = PREP_DELAY_MEAN /\
  scale_delay ZIP318_INTERVAL PREP_DELAY_CAP = PREP_DELAY_CAP.
Proof. exact default_dists_valid. Qed.

Theorem C17_scale_delay_range : forall I v, 0 < I -> 0 <= v -> 1 <= scale_delay I v <= u32_max.
Proof. exact scale_delay_range. Qed.

(** PARAMETER PLUMBING (SchedulingParams::new, new_with_default_distributions, the wallet adapter's
    scheduling_params): configured distributions reach their own slots on the given grid ... *)
Theorem C17_params_slots : forall I a ca b cb, scheduling_params I (Some (a, ca, b, cb)) = (I, a, ca, b, cb).
Proof. exact params_slots. Qed.

(** ... the parameters pass the executable checker (own slots; scaled ZIP 318 values when nothing is
    configured; every mean within its cap) ... *)
Theorem C17_params_ok_model : forall I cfg, 0 < I -> cfg_wf cfg -> params_ok I cfg (scheduling_params I cfg) = true.
Proof. exact params_ok_model. Qed.

(** ... and every gap drawn under them respects the cap configured for ITS OWN schedule *)
Theorem C17_plumb_gaps_within_own_cap : forall I a ca b cb,
  let '(_, _, tc, _, pc) := scheduling_params I (Some (a, ca, b, cb)) in
  forall n h ds hs r, Forall (fun x => 0 <= x) ds -> h <= u32_max ->
    (cumulative_heights tc n h ds = Ok (hs, r) -> length hs = n /\ steps_ok ca h hs = true) /\
    (cumulative_heights pc n h ds = Ok (hs, r) -> length hs = n /\ steps_ok cb h hs = true).
Proof. exact plumb_gaps_within_own_cap. Qed.

(* ------------------------------------------------------------------------------------------ *)
(** * Uniform index and shuffle *)

Theorem C17_gen_index_lt_bound : forall ws bound j r, Forall u64w ws ->
  gen_index ws bound = Ok (j, r) -> 0 <= j < bound /\ exists pre, pre <> [] /\ ws = pre ++ r.
Proof. exact gen_index_lt_bound. Qed.

(** a word is rejected exactly when the low half of the widening product is below 2^64 mod bound *)
Theorem C17_gen_index_rejection : forall bound w r, 0 < bound < two64 -> 0 <= w < two64 ->
  (exists j, gen_index_go bound (w :: r) = Ok (j, r) /\ j = w * bound / two64) \/
  ((w * bound) mod two64 < two64 mod bound /\ gen_index_go bound (w :: r) = gen_index_go bound r).
Proof. exact gen_index_accept_iff. Qed.

Theorem C17_shuffle_perm : forall (l : list Z) ws l' r,
  shuffle_in_place l ws = Ok (l', r) -> Permutation l' l.
Proof. exact (@shuffle_perm Z). Qed.

Theorem C17_is_perm_iff : forall a b, is_perm a b = true <-> Permutation a b.
Proof. exact (fun a b => conj (is_perm_sound a b) (perm_is_perm a b)). Qed.

Theorem C17_shuffle_indices_bijection : forall n ws l' r,
  shuffle_indices n ws = Ok (l', r) ->
  NoDup l' /\ length l' = n /\ forall x, In x l' <-> 0 <= x < Z.of_nat n.
Proof. exact shuffle_indices_bijection. Qed.

(* ------------------------------------------------------------------------------------------ *)
(** * Anchors *)

(** [oc] = overflow checks on (debug profile: [age += 1] panics at u32::MAX) or off (release
    profile: it wraps to 0). Every statement holds for both. *)

(** a drawn anchor is a grid boundary strictly above the activation height, not before the
    funding note, strictly below the most recent boundary and within the age cap *)
Theorem C17_anchor_in_candidates : forall oc I nu f tip,
  0 < I <= u32_max -> 0 <= nu <= u32_max -> 0 <= f <= u32_max -> 0 <= tip <= u32_max ->
  forall ws b r, draw_anchor_boundary oc I nu f tip ws = Ok (Some b, r) -> anchor_ok I nu f tip b = true.
Proof. exact anchor_in_candidates. Qed.

(** it is absent exactly when no such boundary exists — whatever the stream, consuming nothing *)
Theorem C17_anchor_none_iff : forall oc I nu f tip,
  0 < I <= u32_max -> 0 <= nu <= u32_max -> 0 <= f <= u32_max -> 0 <= tip <= u32_max ->
  forall ws r, draw_anchor_boundary oc I nu f tip ws = Ok (None, r) <->
               r = ws /\ forall b, anchor_ok I nu f tip b = false.
Proof. exact anchor_none_iff. Qed.

(** with an admissible boundary the only other outcome is [Panic] (the generator running dry, or
    the age counter overflowing under overflow checks), and one odd word is enough to terminate *)
Theorem C17_anchor_total : forall oc I nu f tip,
  0 < I <= u32_max -> 0 <= nu <= u32_max -> 0 <= f <= u32_max -> 0 <= tip <= u32_max ->
  forall ws, (exists b, anchor_ok I nu f tip b = true) ->
  draw_anchor_boundary oc I nu f tip ws = Panic \/ exists b r, draw_anchor_boundary oc I nu f tip ws = Ok (Some b, r).
Proof. exact anchor_total. Qed.

Theorem C17_anchor_terminates_on_odd_word : forall oc I nu f tip,
  0 < I <= u32_max -> 0 <= nu <= u32_max -> 0 <= f <= u32_max -> 0 <= tip <= u32_max ->
  forall w r, (exists b, anchor_ok I nu f tip b = true) -> Z.odd w = true ->
  draw_anchor_boundary oc I nu f tip (w :: r) = Ok (Some (boundary_at_or_below I tip - I), r).
Proof. exact anchor_first_odd. Qed.

(** the two overflow profiles are indistinguishable on streams shorter than 2^26 words *)
Theorem C17_anchor_profiles_agree : forall I lo hi mr ws age, 0 <= age ->
  age + 64 * Z.of_nat (length ws) <= u32_max ->
  sample_go true I lo hi mr age ws = sample_go false I lo hi mr age ws.
Proof. exact sample_go_profiles. Qed.

(** the executable emptiness test used on implementation outcomes is complete *)
Theorem C17_age_candidates_complete : forall I nu f tip,
  0 < I <= u32_max -> 0 <= nu <= u32_max -> 0 <= f <= u32_max -> 0 <= tip <= u32_max ->
  forall b, anchor_ok I nu f tip b = true -> In b (age_candidates I tip).
Proof. exact age_candidates_complete. Qed.

Theorem C17_redraw_in_candidates : forall oc I prior bc,
  0 < I <= u32_max -> 0 <= prior <= u32_max -> 0 <= bc <= u32_max ->
  forall ws b r, redraw_anchor_boundary oc I prior bc ws = Ok (Some b, r) -> redraw_ok I prior bc b = true.
Proof. exact redraw_in_candidates. Qed.

Theorem C17_redraw_none_iff : forall oc I prior bc,
  0 < I <= u32_max -> 0 <= prior <= u32_max -> 0 <= bc <= u32_max ->
  forall ws r, redraw_anchor_boundary oc I prior bc ws = Ok (None, r) <->
               r = ws /\ forall b, redraw_ok I prior bc b = false.
Proof. exact redraw_none_iff. Qed.

(** the viability threshold of the candidate set, exactly: one interval past the lowest
    candidate, in unbounded arithmetic *)
Theorem C17_earliest_threshold : forall I nu f tip,
  0 < I <= u32_max -> 0 <= nu <= u32_max -> 0 <= f <= u32_max -> 0 <= tip <= u32_max ->
  ((exists b, anchor_ok I nu f tip b = true) <-> lowest_candidate_boundary I nu f + I <= tip).
Proof. exact earliest_threshold. Qed.

(** [earliest_broadcast_height] is that threshold whenever it fits u32 ... *)
Theorem C17_earliest_viable : forall I nu f tip,
  0 < I <= u32_max -> 0 <= nu <= u32_max -> 0 <= f <= u32_max -> 0 <= tip <= u32_max ->
  lowest_candidate_boundary I nu f + I <= u32_max ->
  ((exists b, anchor_ok I nu f tip b = true) <-> earliest_broadcast_height I nu f <= tip).
Proof. exact earliest_viable. Qed.

(** ... and when it does not, the function returns u32::MAX while no tip at all has a candidate:
    the documented guarantee fails for tip = u32::MAX (witness below) *)
Theorem C17_earliest_saturated : forall I nu f,
  0 < I <= u32_max -> 0 <= nu <= u32_max -> 0 <= f <= u32_max ->
  u32_max < lowest_candidate_boundary I nu f + I ->
  earliest_broadcast_height I nu f = u32_max /\
  forall tip b, 0 <= tip <= u32_max -> anchor_ok I nu f tip b = false.
Proof. exact earliest_saturated. Qed.

Theorem C17_earliest_saturation_gap_refuted :
  earliest_broadcast_height 144 4294967150 0 = u32_max /\
  forall b, anchor_ok 144 4294967150 0 u32_max b = false.
Proof. exact earliest_saturation_gap. Qed.

(* ------------------------------------------------------------------------------------------ *)
(** * Schedule shifts (state.rs [shift_schedule] through the overdue re-spread) *)

(** RE-DRAWN ANCHORS STAY ADMISSIBLE: after a shift, the boundary of a transfer whose proof is
    still to come is never below its prior boundary (hence still above the activation height and
    not before the funding note), and whenever the shifted schedule admits a boundary at all it is
    one of them: a grid boundary strictly below the most recent boundary of the shifted schedule,
    within the age cap ([shift_anchor_ok]); only when none exists is the prior boundary kept *)
Theorem C17_shift_preserves_anchor_admissible : forall oc I delta, 0 < I <= u32_max ->
  forall st tr sched ex prior ws q r,
  0 <= delta -> stx_wf (st, tr, sched, ex, Some prior) -> (st = 0 \/ st = 1) -> tr = true ->
  shift_tx oc I delta (st, tr, sched, ex, Some prior) ws = Ok (q, r) ->
  exists b, q = (st, tr, sat_add_u32 sched delta, ex, Some b) /\ prior <= b /\
            shift_anchor_ok I prior (sat_add_u32 sched delta) b = true.
Proof. exact shift_preserves_anchor_admissible. Qed.

(** every row after a shift passes the executable row checker: pending rows move by delta
    (saturating), in-flight and mined rows do not move, expiries are untouched, proved rows and
    preparations keep their boundary *)
Theorem C17_shift_all_ok : forall oc I delta, 0 < I <= u32_max -> forall txs ws post r,
  0 <= delta -> Forall stx_wf txs -> shift_all oc I delta txs ws = Ok (post, r) ->
  forall2b (tx_shift_ok I delta) txs post = true /\ Forall stx_wf post /\ exists pre, ws = pre ++ r.
Proof. exact shift_all_ok. Qed.

(** the overdue re-spread: a lag beyond the tolerance shifts by exactly the lag, a smaller one
    changes nothing *)
Theorem C17_advance_overdue_ok : forall oc I served pre ws post r,
  0 < I <= u32_max -> Forall stx_wf pre ->
  match pre with (_, _, s0, _, _) :: _ => s0 <= served | [] => True end ->
  advance_overdue oc I served pre ws = Ok (post, r) ->
  shift_ok I served pre post = true /\ Forall stx_wf post /\ exists p, ws = p ++ r.
Proof. exact advance_overdue_ok. Qed.

(** however many late wake-ups follow one another, no boundary ever moves down *)
Theorem C17_shift_seq_anchor_monotone : forall oc I, 0 < I <= u32_max -> forall deltas txs ws post r,
  Forall (fun d => 0 <= d) deltas -> Forall stx_wf txs ->
  shift_seq oc I deltas txs ws = Ok (post, r) -> Forall2 anchor_le txs post /\ Forall stx_wf post.
Proof. exact shift_seq_anchor_monotone. Qed.

(* ------------------------------------------------------------------------------------------ *)
(** * Rebuild of an expired transfer (engine.rs [rebuild_expired_transfer_inner], scheduling half) *)

(** the expiry of a rebuilt row is the canonical rolling expiry of ITS OWN new scheduled height *)
Theorem C17_rebuild_expiry_canonical : forall oc I cap nu63 funding tip pend ws ds sched ex an,
  rebuild_schedule oc I cap nu63 funding tip pend ws ds = Ok (sched, ex, an) -> ex = expiry_spec sched.
Proof. exact rebuild_expiry_canonical. Qed.

(** its anchor is admissible at its own new scheduled height: grid boundary, above the activation,
    not before the funding note, strictly below the most recent boundary, within the age cap *)
Theorem C17_rebuild_anchor_admissible : forall oc I cap nu63 funding tip pend ws ds,
  0 < I <= u32_max -> 0 <= nu63 <= u32_max -> 0 <= funding <= u32_max -> 0 <= tip <= u32_max ->
  Forall (fun x => 0 <= x <= u32_max) pend -> Forall (fun x => 0 <= x) ds ->
  forall sched ex an, rebuild_schedule oc I cap nu63 funding tip pend ws ds = Ok (sched, ex, an) ->
  exists b, an = Some b /\ anchor_ok I nu63 funding sched b = true.
Proof. exact rebuild_anchor_admissible. Qed.

(** the new schedule is one drawn delay within the cap past the chain base, never before the target *)
Theorem C17_rebuild_sched_range : forall I cap nu63 funding tip pend ws ds oc,
  0 <= tip <= u32_max -> Forall (fun x => 0 <= x <= u32_max) pend -> Forall (fun x => 0 <= x) ds ->
  forall sched ex an, rebuild_schedule oc I cap nu63 funding tip pend ws ds = Ok (sched, ex, an) ->
  chain_base tip pend <= sched <= Z.min u32_max (chain_base tip pend + cap) /\ Z.min u32_max (tip + 1) <= sched.
Proof. intros I cap nu63 funding tip pend ws ds oc. exact (rebuild_sched_range oc I cap nu63 funding tip pend ws ds). Qed.

(** NoCandidateAnchor exactly when the new schedule has no admissible boundary *)
Theorem C17_rebuild_no_anchor_iff : forall oc I cap nu63 funding tip pend ws ds,
  0 < I <= u32_max -> 0 <= nu63 <= u32_max -> 0 <= funding <= u32_max -> 0 <= tip <= u32_max ->
  Forall (fun x => 0 <= x <= u32_max) pend -> Forall (fun x => 0 <= x) ds ->
  (rebuild_schedule oc I cap nu63 funding tip pend ws ds = Err tt <->
   exists d rest, delay_draw cap ds = Ok (d, rest) /\
                  forall b, anchor_ok I nu63 funding (sat_add_u32 (chain_base tip pend) d) b = false).
Proof. exact rebuild_no_anchor_iff. Qed.

(* ------------------------------------------------------------------------------------------ *)
(** * Sync wake-ups *)

(** COVER: the windows covered by the wake-ups are exactly the transfers' proving windows (as a
    multiset: each exactly once); every covered window contains its wake-up's height, an overdue
    one is woken at the tip; no wake-up is empty *)
Theorem C17_wakeups_cover : forall m0 jc tip ts ws, 0 <= jc -> Forall u64w ws ->
  forall wk r, wakeups_ann m0 jc tip ts ws = Ok (wk, r) ->
  Permutation (concat (map snd wk)) (map (win_of tip (Z.max m0 1)) ts) /\
  Forall (covered_ok tip) wk /\ Forall (fun p => snd p <> []) wk.
Proof. exact wakeups_cover. Qed.

Theorem C17_wakeups_cover_ids : forall m0 jc tip ts ws, 0 <= jc -> Forall u64w ws ->
  forall wk r, schedule_sync_wakeups m0 jc tip ts ws = Ok (wk, r) ->
  Permutation (flat_map snd wk) (map (fun t => fst (fst t)) ts).
Proof. exact wakeups_cover_ids. Qed.

(** STRICT: heights strictly increase and the first is at or above the tip *)
Theorem C17_wakeups_strict : forall m0 jc tip ts ws, 0 <= jc -> Forall u64w ws ->
  forall wk r, schedule_sync_wakeups m0 jc tip ts ws = Ok (wk, r) ->
  strictly_increasing (tip - 1) (map fst wk) = true.
Proof. exact wakeups_strict_pub. Qed.

(** MINIMAL: the schedule is a piercing set of the proving windows (with the tip when a transfer
    is overdue), and no piercing set is smaller *)
Theorem C17_wakeups_pierce : forall m0 jc tip ts ws, 0 <= jc -> Forall u64w ws ->
  forall wk r, schedule_sync_wakeups m0 jc tip ts ws = Ok (wk, r) -> pierces_w m0 tip ts (map fst wk).
Proof. exact wakeups_pierce. Qed.

Theorem C17_wakeups_minimal : forall m0 jc tip ts ws, 0 <= jc -> Forall u64w ws ->
  forall wk r S, schedule_sync_wakeups m0 jc tip ts ws = Ok (wk, r) -> pierces m0 tip ts S = true ->
  (length wk <= length S)%nat.
Proof. exact wakeups_minimal_pub. Qed.

(** every wake-up of a group lies between the group's latest window opening and its earliest
    deadline, at most [jitter_cap] above the former *)
Theorem C17_emit_spec : forall jc, 0 <= jc -> forall gs ws l r,
  Forall gwf gs -> Forall u64w ws -> emit jc gs ws = Ok (l, r) ->
  Forall2 (emitted jc) gs l /\ exists pre, ws = pre ++ r.
Proof. exact emit_spec. Qed.

(** the brute-force optimum of Spec.v (fewest deadlines/tip points piercing every window) is
    the number of wake-ups of the schedule *)
Theorem C17_min_piercing_is_schedule : forall m0 jc tip ts ws wk r, 0 <= jc -> Forall u64w ws ->
  schedule_sync_wakeups m0 jc tip ts ws = Ok (wk, r) -> min_piercing m0 tip ts = Some (length wk).
Proof. exact min_piercing_is_schedule. Qed.

(** jitter: every wake-up is at most [jitter_cap] above the window opening of one of the
    windows it covers (the latest one of its group) *)
Theorem C17_wakeups_jitter : forall m0 jc tip ts ws, 0 <= jc -> Forall u64w ws ->
  forall l r, wakeups_ann m0 jc tip ts ws = Ok (l, r) ->
  Forall (fun p => exists w, In w (snd p) /\ fst p - w_ready w <= jc) l.
Proof. exact wakeups_jitter. Qed.

(** complete outcome characterisation: a feasible input gets a schedule on every stream once
    enough (all-ones) words follow, so [Panic] only ever means "the generator ran dry" *)
Theorem C17_wakeups_total : forall m0 jc tip ts, 0 <= jc <= u32_max ->
  Forall (fun t => snd t <= u32_max) ts -> forall ws,
  first_infeasible ts = None -> Forall u64w ws ->
  exists wk r, schedule_sync_wakeups m0 jc tip ts (ws ++ ones (length ts)) = Ok (wk, r).
Proof. exact wakeups_total. Qed.

(** the executable checker used on implementation outcomes accepts the model's schedule *)
Theorem C17_wakeups_ok_model : forall m0 jc tip ts ws, 0 <= jc -> Forall u64w ws ->
  Forall (fun t => snd t <= u32_max) ts -> tip <= u32_max ->
  forall wk r, schedule_sync_wakeups m0 jc tip ts ws = Ok (wk, r) ->
  forall bf, bf_consistent m0 tip ts bf = true -> wakeups_ok m0 jc tip ts bf wk = true.
Proof. exact wakeups_ok_model. Qed.

(** infeasibility is reported exactly for the first transfer with no settle-then-prove height *)
Theorem C17_wakeups_infeasible_iff : forall m0 jc tip ts ws id,
  schedule_sync_wakeups m0 jc tip ts ws = Err id <-> first_infeasible ts = Some id.
Proof. exact wakeups_infeasible_iff. Qed.

(** emission fails only by running out of words: a stream of all-ones words is always accepted *)
Theorem C17_emit_total : forall jc, 0 <= jc <= u32_max -> forall gs ws,
  Forall gwf gs -> Forall (fun g => first_deadline g <= u32_max) gs ->
  (length gs <= length ws)%nat -> Forall (fun w => w = two64 - 1) ws ->
  exists l r, emit jc gs ws = Ok (l, r).
Proof. exact emit_total. Qed.

(* ------------------------------------------------------------------------------------------ *)
(** * Classification *)

(** monotone in the evidence, under the obligation the source documents (weakest form: the new
    evidence does not answer negatively a confirmatory clause that was unanswered) *)
Theorem C17_classify_monotone : forall c e e',
  ev_le e e' = true -> new_negative_confirmatory e e' = false ->
  classify c e <> Unknown -> classify c e' = classify c e.
Proof. exact classify_monotone. Qed.

Theorem C17_classify_monotone_fixed_capability : forall c e e',
  ev_le e e' = true -> same_confirmatory e e' = true ->
  classify c e <> Unknown -> classify c e' = classify c e.
Proof. exact classify_monotone_fixed_capability. Qed.

(** KNOWN FINDING (class 1): over the whole lattice the statement is false *)
Theorem C17_classify_monotone_full_refuted :
  ev_le witness_lo witness_hi = true /\
  classify zip318_consts witness_lo = Conforms Transfer /\
  classify zip318_consts witness_hi = Nonconforming.
Proof. exact classify_monotone_full_refuted. Qed.

Theorem C17_classify_monotone_full_refuted_universal :
  ~ (forall c e e', ev_le e e' = true -> classify c e <> Unknown -> classify c e' = classify c e).
Proof. exact classify_monotone_full_refuted'. Qed.

(** ... and these are the only failures: a Conforms decision turned into Nonconforming by a
    newly negative confirmatory clause *)
Theorem C17_classify_monotone_characterised : forall c e e',
  ev_le e e' = true -> classify c e <> Unknown -> classify c e' <> classify c e ->
  (exists k, classify c e = Conforms k) /\ classify c e' = Nonconforming /\
  new_negative_confirmatory e e' = true.
Proof. exact classify_monotone_characterised. Qed.

(** a refutation is final without any guard *)
Theorem C17_nonconforming_stable : forall c e e',
  ev_le e e' = true -> classify c e = Nonconforming -> classify c e' = Nonconforming.
Proof. exact nonconforming_stable. Qed.

(** nothing is refuted without a negative observation, and a negative observation is really
    negative: no strengthening of the evidence conforms *)
Theorem C17_classify_refutes_only_on_negative : forall c e,
  classify c e = Nonconforming -> neg_obs c e = true.
Proof. exact classify_refutes_only_on_negative. Qed.

Theorem C17_negative_is_final : forall c e e' k,
  neg_obs c e = true -> ev_le e e' = true -> classify c e' <> Conforms k.
Proof. exact negative_is_final. Qed.

Theorem C17_classify_conforms_iff : forall c e k, classify c e = Conforms k <-> pos_for c e k = true.
Proof. exact classify_conforms_iff. Qed.

(** the digit-stripping loop decides membership in the {1,2,5}·10^k series within the bounds *)
Theorem C17_canonical_equiv : forall v lo hi, 0 <= lo \/ 0 <= v -> hi < 10 ^ 20 ->
  is_canonical_within v lo hi = canonical_spec v lo hi.
Proof. exact canonical_equiv_gen. Qed.

(** the test answers on every amount whatever the bounds (the loop stops at zero: fixed in
    /repo commit 7dcaa30; before it, value 0 under a zero lower bound never got an answer), and
    zero is never canonical *)
Theorem C17_canonical_terminates : forall v lo hi, 0 <= v < 10 ^ 63 ->
  is_canonical_within_opt v lo hi = Some (is_canonical_within v lo hi).
Proof. exact canonical_opt_terminates. Qed.

Theorem C17_canonical_zero : forall lo hi, is_canonical_within_opt 0 lo hi = Some false.
Proof. exact canonical_zero. Qed.

Theorem C17_code_roundtrip : forall x, from_code (to_code x) = x.
Proof. exact code_roundtrip. Qed.

Theorem C17_from_code_unknown_iff : forall code,
  from_code code = Unknown <-> code <> 1 /\ code <> 2 /\ code <> 3.
Proof. exact from_code_unknown_iff. Qed.

(* ------------------------------------------------------------------------------------------ *)
(** * Bridge: agreement with the model implies the property on the implementation outcome *)
Theorem C17_bridge : forall c, bridged c = true ->
  wf_case c = true -> known_class c = 0%N -> run_case c = true -> prop_case c = true.
Proof. exact bridge. Qed.

(* ------------------------------------------------------------------------------------------ *)
(** * Non-vacuity *)
Example expiry_ex : expiry_height 2000000 = 2039040 /\ expiry_height 4294967295 = 4294967295.
Proof. split; reflexivity. Qed.
Example anchor_ex : forall oc, draw_anchor_boundary oc 144 1000 1100 2000 [6; 1] = Ok (Some 1584, [1]).
Proof. intros []; reflexivity. Qed.
Example anchor_none_ex : forall oc, draw_anchor_boundary oc 144 1000 1100 1200 [6; 1] = Ok (None, [6; 1]).
Proof. intros []; reflexivity. Qed.
Example shuffle_ex : exists l r, shuffle_indices 5 [11; 2 ^ 63; 5; 2 ^ 64 - 1; 0] = Ok (l, r) /\ l <> [0; 1; 2; 3; 4].
Proof. eexists. eexists. split; [vm_compute; reflexivity | discriminate]. Qed.
Example wakeups_ex :
  schedule_sync_wakeups 10 12 1000 [(0, 500, 900); (1, 990, 1200); (2, 1000, 1300)] [5; 7; 9]
  = Ok ([(1000, [0; 1]); (1010, [2])], [7; 9]).
Proof. vm_compute. reflexivity. Qed.
Example wakeups_err_ex : schedule_sync_wakeups 10 12 100 [(0, 100, 101)] [] = Err 0.
Proof. reflexivity. Qed.
