(** C17 — parameter plumbing: configured delay distributions reach their own slots, and every gap
    drawn under them respects the cap configured for ITS schedule. *)
From Coq Require Import ZifyBool.
From V.Lib Require Import Base MachInt.
From V.Gen Require Import C17Consts.
From V.C17 Require Import Model Spec ProofsArith ProofsShuffle ProofsCanon.
Local Open Scope Z_scope.

Lemma scale_eq_spec I v : 0 < I -> 0 <= v -> scale_delay I v = scaled_spec I v.
Proof.
  intros HI Hv. unfold scale_delay, scaled_spec. cbv zeta.
  assert (0 <= v * I / ZIP318_INTERVAL) by (apply Z.div_pos; [nia | reflexivity]).
  destruct (v * I / ZIP318_INTERVAL <=? u32_max) eqn:E.
  - destruct (v * I / ZIP318_INTERVAL =? 0) eqn:E0; unfold u32_max in *; lia.
  - unfold u32_max in *. lia.
Qed.

(** configured distributions go to their own slots, on the grid that was given *)
Lemma params_slots I a ca b cb : scheduling_params I (Some (a, ca, b, cb)) = (I, a, ca, b, cb).
Proof. reflexivity. Qed.

Lemma params_default I : scheduling_params I None =
  (I, scale_delay I TRANSFER_DELAY_MEAN, scale_delay I TRANSFER_DELAY_CAP, scale_delay I PREP_DELAY_MEAN, scale_delay I PREP_DELAY_CAP).
Proof. reflexivity. Qed.

Definition cfg_wf (cfg : option (Z * Z * Z * Z)) : Prop :=
  match cfg with Some (a, ca, b, cb) => 1 <= a <= ca /\ 1 <= b <= cb | None => True end.

Lemma params_ok_model I cfg : 0 < I -> cfg_wf cfg -> params_ok I cfg (scheduling_params I cfg) = true.
Proof.
  intros HI Hc. destruct cfg as [[[[a ca] b] cb]|].
  - cbn in Hc. rewrite params_slots. unfold params_ok. rewrite !Z.eqb_refl. lia.
  - rewrite params_default. unfold params_ok.
    rewrite <- !scale_eq_spec by (try exact HI; unfold TRANSFER_DELAY_MEAN, TRANSFER_DELAY_CAP, PREP_DELAY_MEAN, PREP_DELAY_CAP; lia).
    rewrite !Z.eqb_refl.
    destruct (default_dists_valid I HI) as (D1 & D2 & _).
    pose proof (scale_delay_range I TRANSFER_DELAY_MEAN HI ltac:(unfold TRANSFER_DELAY_MEAN; lia)).
    pose proof (scale_delay_range I PREP_DELAY_MEAN HI ltac:(unfold PREP_DELAY_MEAN; lia)). lia.
Qed.

(** every gap of the transfer schedule respects the TRANSFER cap that was configured and every gap
    of the preparation schedule the PREPARATION cap, for every stream *)
Lemma plumb_gaps_within_own_cap I a ca b cb :
  let '(_, _, tc, _, pc) := scheduling_params I (Some (a, ca, b, cb)) in
  forall n h ds hs r, Forall (fun x => 0 <= x) ds -> h <= u32_max ->
    (cumulative_heights tc n h ds = Ok (hs, r) -> length hs = n /\ steps_ok ca h hs = true) /\
    (cumulative_heights pc n h ds = Ok (hs, r) -> length hs = n /\ steps_ok cb h hs = true).
Proof.
  rewrite params_slots. intros n h ds hs r Hd Hh. split; intros H; eapply heights_steps; eassumption.
Qed.
