(** C17 — bridge: for the operations listed in [bridged], agreement of the implementation's
    outcome with the model ([run_case]) on a well-formed case outside the known-finding class
    implies the property checker ([prop_case]) accepts that outcome. *)
From Coq Require Import ZifyBool Permutation Sorted.
From V.Lib Require Import Base MachInt.
From V.Gen Require Import C17Consts.
From V.C17 Require Import Model Spec Corr Wf ProofsArith ProofsShuffle ProofsAnchor ProofsClassify ProofsCanon ProofsPerm ProofsWake ProofsWake2 ProofsShift ProofsRebuild ProofsPlumb.
Local Open Scope Z_scope.

(** Every operation is bridged. For wake-ups the harness-side brute-force value [bf] that the
    case carries must agree with the brute force of Spec.v (it is an observation made by the
    harness, not by the implementation). *)
Definition bridged (c : case) : bool :=
  match c with
  | Wakeups m _ tip ts _ bf _ => bf_consistent m tip ts bf
  | _ => true
  end.

Lemma class_eqb_eq x y : class_eqb x y = true <-> x = y.
Proof. destruct x as [[|]| |], y as [[|]| |]; simpl; split; congruence. Qed.

Lemma lz_eqb_eq x y : lz_eqb x y = true <-> x = y.
Proof. apply list_eqb_spec. intros; apply Z.eqb_eq. Qed.

Lemma oz_eqb_eq x y : oz_eqb x y = true <-> x = y.
Proof. apply option_eqb_spec. intros; apply Z.eqb_eq. Qed.

Lemma zz_eqb_eq x y : zz_eqb x y = true <-> x = y.
Proof.
  destruct x as [a b], y as [c d]. unfold zz_eqb, pair_eqb. cbn [fst snd]. rewrite andb_true_iff, !Z.eqb_eq.
  split; [intros [-> ->]; reflexivity | intros H; inversion H; auto].
Qed.

Lemma lzz_eqb_eq x y : list_eqb zz_eqb x y = true <-> x = y.
Proof. apply list_eqb_spec. intros; apply zz_eqb_eq. Qed.

Lemma dres_ok {A} (eqa : A -> A -> bool) ws (m : draw A) v k :
  dres_eqb eqa (consumed ws m) (Ok (v, k)) = true ->
  exists v' rest, m = Ok (v', rest) /\ eqa v' v = true /\ k = Z.of_nat (length ws) - Z.of_nat (length rest).
Proof.
  unfold dres_eqb, consumed. destruct m as [[v' rest]|e|]; cbn; try discriminate.
  unfold pair_eqb; cbn [fst snd]. rewrite andb_true_iff, Z.eqb_eq. intros [H1 H2]. eauto.
Qed.

Lemma dres_err {A} (eqa : A -> A -> bool) ws (m : draw A) e : dres_eqb eqa (consumed ws m) (Err e) = true -> False \/ exists e', m = Err e'.
Proof. unfold dres_eqb, consumed. destruct m as [[v' rest]|e'|]; cbn; try discriminate. eauto. Qed.

Lemma forallb_h32 ds : forallb h32 ds = true -> Forall (fun x => 0 <= x) ds.
Proof.
  rewrite forallb_forall. intros H. apply Forall_forall. intros x Hx. specialize (H x Hx).
  unfold h32, in_u32, in_range in H. lia.
Qed.

Lemma words_u64w ws : words ws = true -> Forall u64w ws.
Proof.
  unfold words. rewrite forallb_forall. intros H. apply Forall_forall. intros x Hx. specialize (H x Hx).
  unfold in_u64, in_range, u64_max in H. unfold u64w, two64. lia.
Qed.

Lemma heights_consumed cap : forall n h ds hs r,
  cumulative_heights cap n h ds = Ok (hs, r) -> (length r + n <= length ds)%nat.
Proof.
  induction n as [|n IH]; intros h ds hs r H; cbn [cumulative_heights] in H.
  - inversion H; subst. lia.
  - destruct (delay_draw cap ds) as [[d r0]| |] eqn:D; try discriminate.
    destruct (cumulative_heights cap n (sat_add_u32 h d) r0) as [[hs0 r1]| |] eqn:C; try discriminate.
    inversion H; subst. apply IH in C. destruct (delay_le_cap _ _ _ _ D) as [_ [pre [He _]]].
    rewrite He, app_length. simpl. lia.
Qed.

Lemma anchor_some_consumes oc I nu f tip ws b r :
  draw_anchor_boundary oc I nu f tip ws = Ok (Some b, r) -> (length r < length ws)%nat.
Proof.
  unfold draw_anchor_boundary.
  destruct (candidate_boundary_bounds I nu f (boundary_at_or_below I tip)) as [[lo hi]|]; [|discriminate].
  destruct (sample_boundary oc I lo hi (boundary_at_or_below I tip) ws) as [[c r0]| |] eqn:S; try discriminate.
  intros H; inversion H; subst. unfold sample_boundary in S. apply sample_go_spec in S; [|lia].
  destruct S as (_ & _ & pre & Hp & He). rewrite He, app_length. destruct pre; [congruence | simpl; lia].
Qed.

Lemma redraw_some_consumes oc I prior bc ws b r :
  redraw_anchor_boundary oc I prior bc ws = Ok (Some b, r) -> (length r < length ws)%nat.
Proof.
  unfold redraw_anchor_boundary.
  destruct (checked_sub_u32 (boundary_at_or_below I bc) I) as [hi|]; [|discriminate].
  destruct (hi <? boundary_at_or_above I prior); [discriminate|].
  destruct (sample_boundary oc I (boundary_at_or_above I prior) hi (boundary_at_or_below I bc) ws) as [[c r0]| |] eqn:S; try discriminate.
  intros H; inversion H; subst. unfold sample_boundary in S. apply sample_go_spec in S; [|lia].
  destruct S as (_ & _ & pre & Hp & He). rewrite He, app_length. destruct pre; [congruence | simpl; lia].
Qed.

Lemma steps_fst cap commit (l : list (Z * Z)) hs : hs = map fst l -> steps_ok cap commit hs = true -> steps_ok cap commit (map fst l) = true.
Proof. intros ->. auto. Qed.

Lemma neg_obs_spec c e : wf_consts c = true -> neg_obs c e = negative_observation c e.
Proof.
  intros Hc. unfold wf_consts, MAX_MONEY_Z in Hc. rewrite !andb_true_iff in Hc.
  unfold neg_obs, negative_observation, negative_observation_with.
  destruct (e_value e) as [v|]; [|reflexivity]. rewrite canonical_equiv_wf by lia. reflexivity.
Qed.

Lemma pos_for_spec c e k : wf_consts c = true -> pos_for c e k = positive_for c e k.
Proof.
  intros Hc. unfold wf_consts, MAX_MONEY_Z in Hc. rewrite !andb_true_iff in Hc.
  unfold pos_for, positive_for, positive_for_with.
  destruct (e_value e) as [v|]; [|reflexivity]. rewrite canonical_equiv_wf by lia. reflexivity.
Qed.

Lemma classify_ok_model c e : wf_consts c = true -> classify_ok c e (classify c e) = true.
Proof.
  intros Hc. unfold classify_ok. destruct (classify c e) as [k| |] eqn:E.
  - rewrite <- pos_for_spec by exact Hc. apply classify_conforms_iff. exact E.
  - rewrite <- neg_obs_spec by exact Hc. apply classify_refutes_only_on_negative. exact E.
  - reflexivity.
Qed.

Lemma cls_dec (x y : classification) : {x = y} + {x <> y}.
Proof. decide equality. decide equality. Qed.

Lemma ocls_some x o : ocls_eqb (Some x) o = true -> o = Some x.
Proof. destruct o as [y|]; cbn; [intros H; apply class_eqb_eq in H; congruence | discriminate]. Qed.

Lemma shuffle_suffix {A} (l : list A) ws l' r : Forall u64w ws ->
  shuffle_in_place l ws = Ok (l', r) -> exists pre, ws = pre ++ r.
Proof.
  unfold shuffle_in_place. destruct (length l <? 2)%nat; intros Hw H.
  - inversion H; subst. exists []. reflexivity.
  - destruct (shuffle_go_suffix _ _ _ _ _ Hw H) as [pre [He _]]. eauto.
Qed.

Lemma shuffle_go_never_err {A} : forall i (l : list A) ws e, shuffle_go i l ws <> Err e.
Proof.
  induction i as [|i IH]; intros l ws e; cbn [shuffle_go]; [discriminate|].
  destruct (gen_index ws (Z.of_nat (S i) + 1)) as [[j r]| |]; try discriminate. apply IH.
Qed.

Lemma shuffle_never_err {A} (l : list A) ws e : shuffle_in_place l ws <> Err e.
Proof. unfold shuffle_in_place. destruct (length l <? 2)%nat; [discriminate | apply shuffle_go_never_err]. Qed.

Lemma shuffle_bridge (l : list Z) ws o :
  words ws = true -> dres_eqb lz_eqb (consumed ws (shuffle_in_place l ws)) o = true ->
  on_ok o (fun v k => is_perm v l && (0 <=? k) && (k <=? Z.of_nat (length ws))) = true.
Proof.
  intros Hw Hrun. apply words_u64w in Hw. destruct o as [[v k]|e|]; cbn [on_ok].
  - apply dres_ok in Hrun. destruct Hrun as (v' & rest & Hm & Hd & Hk). apply lz_eqb_eq in Hd. subst v'.
    rewrite (perm_is_perm _ _ (shuffle_perm _ _ _ _ Hm)).
    destruct (shuffle_suffix _ _ _ _ Hw Hm) as [pre He].
    assert (length ws = (length pre + length rest)%nat) by (rewrite He, app_length; reflexivity). lia.
  - apply dres_err in Hrun. destruct Hrun as [[]|[e' Hm]]. exfalso. exact (shuffle_never_err _ _ _ Hm).
  - reflexivity.
Qed.

Lemma anchor_set_empty_iff I nu f tip :
  0 < I <= u32_max -> 0 <= nu <= u32_max -> 0 <= f <= u32_max -> 0 <= tip <= u32_max ->
  (anchor_set_empty I nu f tip = true <-> forall b, anchor_ok I nu f tip b = false).
Proof.
  intros HI Hnu Hf Ht. unfold anchor_set_empty. rewrite forallb_forall. split.
  - intros H b. destruct (anchor_ok I nu f tip b) eqn:A; [|reflexivity].
    pose proof (age_candidates_complete I nu f tip HI Hnu Hf Ht b A) as Hin. specialize (H b Hin). rewrite A in H. discriminate.
  - intros H b _. rewrite H. reflexivity.
Qed.

Lemma wk_eqb_eq x y : wk_eqb x y = true <-> x = y.
Proof.
  apply list_eqb_spec. intros [a la] [b lb]. unfold pair_eqb. cbn [fst snd].
  rewrite andb_true_iff, Z.eqb_eq, lz_eqb_eq. split; [intros [-> ->]; reflexivity | intros E; inversion E; auto].
Qed.

Lemma tx_same_eq p q : tx_same p q = true -> q = p.
Proof.
  destruct p as [[[[st tr] sched] ex] an], q as [[[[st' tr'] sched'] ex'] an']. unfold tx_same.
  rewrite !andb_true_iff. intros [[[[H1 H2] H3] H4] H5].
  apply Z.eqb_eq in H1, H3, H4. apply eqb_prop in H2. subst.
  destruct an, an'; cbn in H5; try discriminate; [apply Z.eqb_eq in H5; subst|]; reflexivity.
Qed.

Lemma lstx_eqb_eq x y : list_eqb stx_eqb x y = true -> y = x.
Proof.
  revert y. induction x as [|p x IH]; intros [|q y]; cbn; try discriminate; [reflexivity|].
  rewrite andb_true_iff. intros [H1 H2]. apply tx_same_eq in H1. apply IH in H2. subst. reflexivity.
Qed.

Lemma bridge c : bridged c = true ->
  wf_case c = true -> known_class c = 0%N -> run_case c = true -> prop_case c = true.
Proof.
  destruct c; cbn [bridged]; intros Hbr Hwf Hkc Hrun; cbn [wf_case run_case prop_case] in *.
  - (* Expiry *)
    apply Z.eqb_eq in Hrun. subst o. unfold h32, in_u32, in_range in Hwf.
    rewrite expiry_canonical at 1. rewrite Z.eqb_refl. cbn [andb].
    destruct (Z_le_gt_dec (h - h mod EXPIRY_MODULUS + EXPIRY_WINDOW) u32_max) as [Hs|Hs].
    + destruct (expiry_window_bounds h ltac:(lia) Hs) as (_ & _ & B1 & B2). lia.
    + rewrite (expiry_saturated h) by lia. rewrite Z.eqb_refl. reflexivity.
  - (* BoundBelow *)
    apply Z.eqb_eq in Hrun. subst o. unfold nz32, h32, in_u32, in_range in Hwf.
    destruct (below_props iv h ltac:(lia) ltac:(lia)) as (B1 & B2 & B3). cbv zeta in *. unfold below_spec. lia.
  - (* BoundAbove *)
    apply Z.eqb_eq in Hrun. subst o. unfold nz32, h32, in_u32, in_range in Hwf.
    apply Z.eqb_eq. apply above_eq_spec; lia.
  - (* IsBoundary *)
    apply eqb_prop in Hrun. subst o. unfold nz32, h32, in_u32, in_range in Hwf. unfold is_boundary.
    pose proof (Z.div_mod h iv ltac:(lia)). apply eqb_true_iff. lia.
  - (* DefaultDists *)
    destruct o as [[[tm tc] pm] pc]. unfold nz32 in Hwf.
    rewrite !andb_true_iff in Hrun. destruct Hrun as [[[R1 R2] R3] R4].
    apply Z.eqb_eq in R1, R2, R3, R4. subst tm tc pm pc.
    assert (HI : 0 < iv) by lia.
    destruct (default_dists_valid iv HI) as (D1 & D2 & _).
    pose proof (scale_delay_range iv TRANSFER_DELAY_MEAN HI ltac:(unfold TRANSFER_DELAY_MEAN; lia)).
    pose proof (scale_delay_range iv TRANSFER_DELAY_CAP HI ltac:(unfold TRANSFER_DELAY_CAP; lia)).
    pose proof (scale_delay_range iv PREP_DELAY_MEAN HI ltac:(unfold PREP_DELAY_MEAN; lia)).
    pose proof (scale_delay_range iv PREP_DELAY_CAP HI ltac:(unfold PREP_DELAY_CAP; lia)).
    lia.
  - (* ToCode *)
    apply Z.eqb_eq in Hrun. subst o. rewrite to_code_spec. apply Z.eqb_refl.
  - (* FromCode *)
    apply class_eqb_eq in Hrun. subst o. rewrite from_code_spec. apply class_eqb_eq. reflexivity.
  - (* Classify *)
    apply ocls_some in Hrun. subst o. apply andb_true_iff in Hwf. destruct Hwf as [Hc _].
    apply classify_ok_model. exact Hc.
  - (* ClassifyPair *)
    apply andb_true_iff in Hrun. destruct Hrun as [R1 R2]. apply ocls_some in R1. apply ocls_some in R2. subst o o'.
    rewrite !andb_true_iff in Hwf. destruct Hwf as [[[Hc _] _] Hle].
    rewrite !classify_ok_model by exact Hc. cbn [andb].
    unfold monotone_pair. destruct (classify c e) as [k| |] eqn:E; [| |reflexivity].
    + apply class_eqb_eq.
      destruct (cls_dec (classify c e') (classify c e)) as [Heq|Hne].
      * rewrite E in Heq. symmetry. exact Heq.
      * exfalso. assert (Hk : classify c e <> Unknown) by congruence.
        destruct (classify_monotone_characterised c e e' Hle Hk Hne) as (_ & H2 & H3).
        cbn [known_class] in Hkc. rewrite Hle, H3, H2 in Hkc. cbn in Hkc. discriminate.
    + apply class_eqb_eq. symmetry. apply nonconforming_stable with (e := e); assumption.
  - (* ShuffleIdx *)
    rewrite !andb_true_iff in Hwf. destruct Hwf as [_ Hw].
    apply (shuffle_bridge (iota (Z.to_nat n) 0) ws o Hw Hrun).
  - (* ShuffleVals *)
    apply (shuffle_bridge l ws o Hwf Hrun).
  - (* DelayNew *)
    apply eqb_prop in Hrun. subst o. unfold delay_new. destruct (cap <? mean) eqn:E; destruct (mean <=? cap) eqn:E2; try reflexivity; lia.
  - (* DelayDraw *)
    destruct o as [[d k]|e|]; cbn [on_ok].
    + apply dres_ok in Hrun. destruct Hrun as (d' & rest & Hm & Hd & Hk). apply Z.eqb_eq in Hd. subst d'.
      rewrite !andb_true_iff in Hwf. destruct Hwf as [_ Hds]. apply forallb_h32 in Hds.
      destruct (delay_le_cap _ _ _ _ Hm) as [Hc [pre [He _]]].
      destruct (delay_rest _ _ _ _ Hds Hm) as [Hd0 _].
      assert (length ds = (length pre + S (length rest))%nat) by (rewrite He, app_length; reflexivity). lia.
    + apply dres_err in Hrun. destruct Hrun as [[]|[e' Hm]].
      exfalso. revert Hm. clear. induction ds as [|x ds IH]; cbn [delay_draw]; [discriminate|]. destruct (x <=? cap); [discriminate | exact IH].
    + reflexivity.
  - (* Heights *)
    destruct o as [[hs k]|e|]; cbn [on_ok].
    + apply dres_ok in Hrun. destruct Hrun as (hs' & rest & Hm & Hd & Hk). apply lz_eqb_eq in Hd. subst hs'.
      rewrite !andb_true_iff in Hwf. destruct Hwf as [[[Hcap Hcommit] Hn] Hds]. apply forallb_h32 in Hds.
      unfold nz32, h32, in_u32, in_range in *.
      assert (Hcm : commit <= u32_max) by lia.
      destruct (heights_steps _ _ _ _ _ _ Hds Hcm Hm) as [Hl Hs].
      pose proof (heights_consumed _ _ _ _ _ _ Hm). rewrite Hs. lia.
    + apply dres_err in Hrun. destruct Hrun as [[]|[e' Hm]]. exfalso. revert Hm. clear.
      generalize (Z.to_nat n). intros k. revert commit ds. induction k as [|k IH]; intros commit ds; cbn [cumulative_heights]; [discriminate|].
      destruct (delay_draw cap ds) as [[d r]| |]; try discriminate.
      destruct (cumulative_heights cap k (sat_add_u32 commit d) r) as [[hs r']| |]; discriminate.
    + reflexivity.
  - (* Sched *)
    destruct o as [[l k]|e|]; cbn [on_ok].
    + apply dres_ok in Hrun. destruct Hrun as (l' & rest & Hm & Hd & Hk). apply lzz_eqb_eq in Hd. subst l'.
      rewrite !andb_true_iff in Hwf. destruct Hwf as [[[Hcap Hcommit] Hn] Hds]. apply forallb_h32 in Hds.
      unfold nz32, h32, in_u32, in_range in *.
      destruct (schedule_expiry_canonical _ _ _ _ _ _ Hm) as [Hexp Hc].
      assert (Hcm : commit <= u32_max) by lia.
      destruct (heights_steps _ _ _ _ _ _ Hds Hcm Hc) as [Hl Hs].
      rewrite map_length in Hl. rewrite Hs.
      assert (He : forallb (fun p => snd p =? expiry_spec (fst p)) l = true).
      { apply forallb_forall. intros p Hp. rewrite Forall_forall in Hexp. apply Z.eqb_eq. apply Hexp. exact Hp. }
      rewrite He. lia.
    + apply dres_err in Hrun. destruct Hrun as [[]|[e' Hm]]. exfalso. revert Hm. unfold schedule.
      destruct (cumulative_heights cap (Z.to_nat n) commit ds) as [[hs r]| |]; discriminate.
    + reflexivity.
  - (* AnchorDraw *)
    rewrite !andb_true_iff in Hwf. destruct Hwf as [[[[HI Hnu] Hf] Htip] Hw].
    unfold nz32, h32, in_u32, in_range in *.
    destruct o as [[b k]|e|]; cbn [on_ok].
    + apply dres_ok in Hrun. destruct Hrun as (b' & rest & Hm & Hd & Hk). apply oz_eqb_eq in Hd. subst b'.
      destruct b as [b|]; cbn [anchor_result_ok].
      * rewrite (anchor_in_candidates oc iv nu63 funding tip ltac:(lia) ltac:(lia) ltac:(lia) ltac:(lia) _ _ _ Hm).
        pose proof (anchor_some_consumes _ _ _ _ _ _ _ _ Hm). lia.
      * apply (anchor_none_iff oc iv nu63 funding tip ltac:(lia) ltac:(lia) ltac:(lia) ltac:(lia)) in Hm.
        destruct Hm as [-> Hall]. unfold anchor_set_empty.
        assert (Hf' : forallb (fun b => negb (anchor_ok iv nu63 funding tip b)) (age_candidates iv tip) = true).
        { apply forallb_forall. intros b _. rewrite Hall. reflexivity. }
        rewrite Hf'. lia.
    + apply dres_err in Hrun. destruct Hrun as [[]|[e' Hm]]. exfalso. revert Hm. unfold draw_anchor_boundary.
      destruct (candidate_boundary_bounds iv nu63 funding (boundary_at_or_below iv tip)) as [[lo hi]|]; [|discriminate].
      destruct (sample_boundary oc iv lo hi (boundary_at_or_below iv tip) ws) as [[c r]| |]; discriminate.
    + reflexivity.
  - (* AnchorRedraw *)
    rewrite !andb_true_iff in Hwf. destruct Hwf as [[[HI Hp] Hb] Hw].
    unfold nz32, h32, in_u32, in_range in *.
    destruct o as [[b k]|e|]; cbn [on_ok].
    + apply dres_ok in Hrun. destruct Hrun as (b' & rest & Hm & Hd & Hk). apply oz_eqb_eq in Hd. subst b'.
      destruct b as [b|]; cbn [redraw_result_ok].
      * rewrite (redraw_in_candidates oc iv prior broadcast ltac:(lia) ltac:(lia) ltac:(lia) _ _ _ Hm).
        pose proof (redraw_some_consumes _ _ _ _ _ _ _ Hm). lia.
      * apply (redraw_none_iff oc iv prior broadcast ltac:(lia) ltac:(lia) ltac:(lia)) in Hm.
        destruct Hm as [-> Hall].
        assert (Hf' : forallb (fun b => negb (redraw_ok iv prior broadcast b)) (age_candidates iv broadcast) = true).
        { apply forallb_forall. intros b _. rewrite Hall. reflexivity. }
        rewrite Hf'. lia.
    + apply dres_err in Hrun. destruct Hrun as [[]|[e' Hm]]. exfalso. revert Hm. unfold redraw_anchor_boundary.
      destruct (checked_sub_u32 (boundary_at_or_below iv broadcast) iv) as [hi|]; [|discriminate].
      destruct (hi <? boundary_at_or_above iv prior); [discriminate|].
      destruct (sample_boundary oc iv (boundary_at_or_above iv prior) hi (boundary_at_or_below iv broadcast) ws) as [[c r]| |]; discriminate.
    + reflexivity.
  - (* Earliest *)
    apply Z.eqb_eq in Hrun. subst o. rewrite !andb_true_iff in Hwf. destruct Hwf as [[HI Hnu] Hf].
    unfold nz32, h32, in_u32, in_range in *.
    assert (Hr : earliest_broadcast_height iv nu63 funding <= u32_max) by (unfold earliest_broadcast_height, sat_add_u32; lia).
    apply andb_true_iff. split; [|lia]. unfold earliest_ok.
    destruct (earliest_broadcast_height iv nu63 funding =? u32_max) eqn:E; [reflexivity|].
    set (e := earliest_broadcast_height iv nu63 funding) in *.
    pose proof (lowest_nonneg iv nu63 funding ltac:(lia) ltac:(lia)) as Hl0.
    assert (He : e = lowest_candidate_boundary iv nu63 funding + iv) by (unfold e, earliest_broadcast_height, sat_add_u32 in *; lia).
    assert (HI' : 0 < iv <= u32_max) by lia. assert (Hnu' : 0 <= nu63 <= u32_max) by lia.
    assert (Hf' : 0 <= funding <= u32_max) by lia. assert (Her : 0 <= e <= u32_max) by lia.
    assert (A1 : anchor_set_empty iv nu63 funding e = false).
    { destruct (anchor_set_empty iv nu63 funding e) eqn:X; [|reflexivity]. exfalso.
      pose proof (proj1 (anchor_set_empty_iff iv nu63 funding e HI' Hnu' Hf' Her) X) as X'.
      destruct (proj2 (earliest_threshold iv nu63 funding e HI' Hnu' Hf' Her) ltac:(lia)) as [b Hb0].
      rewrite X' in Hb0. discriminate. }
    rewrite A1. cbn [negb andb]. destruct (e =? 0) eqn:E0; [reflexivity|]. cbn [orb].
    assert (Her1 : 0 <= e - 1 <= u32_max) by lia.
    apply (proj2 (anchor_set_empty_iff iv nu63 funding (e - 1) HI' Hnu' Hf' Her1)).
    intros b. destruct (anchor_ok iv nu63 funding (e - 1) b) eqn:A; [|reflexivity]. exfalso.
    assert (lowest_candidate_boundary iv nu63 funding + iv <= e - 1).
    { apply (proj1 (earliest_threshold iv nu63 funding (e - 1) HI' Hnu' Hf' Her1)). eauto. }
    lia.
  - (* CanonDenom *)
    rewrite !andb_true_iff in Hwf. destruct Hwf as [[Hlo Hhi] Hv]. unfold in_range, MAX_MONEY_Z, COIN in *.
    rewrite canonical_opt_terminates in Hrun by lia.
    rewrite canonical_equiv_gen in Hrun by (try left; lia).
    destruct o as [b|]; cbn [option_eqb] in *; [apply eqb_prop in Hrun; subst b; apply eqb_reflx | discriminate].
  - (* Wakeups *)
    rewrite !andb_true_iff in Hwf. destruct Hwf as [[[[Hm Hj] Htip] Hw] Hts].
    apply words_u64w in Hw. unfold h32, in_u32, in_range in *.
    assert (Hts' : Forall (fun t => snd t <= u32_max) ts).
    { apply Forall_forall. intros t Ht. rewrite forallb_forall in Hts. specialize (Hts t Ht). lia. }
    unfold wres_eqb, wakeups_consumed in Hrun.
    destruct (schedule_sync_wakeups margin jitter tip ts ws) as [[wk' rest]|e|] eqn:M; destruct o as [[wk k]|id|]; cbn in Hrun; try discriminate.
    + unfold pair_eqb in Hrun; cbn [fst snd] in Hrun. apply andb_true_iff in Hrun. destruct Hrun as [Ew _].
      apply wk_eqb_eq in Ew. subst wk'.
      rewrite (wakeups_ok_model margin jitter tip ts ws ltac:(lia) Hw Hts' ltac:(lia) wk rest M bf Hbr). cbn [andb].
      destruct (first_infeasible ts) as [id|] eqn:F; [|reflexivity].
      apply (wakeups_infeasible_iff margin jitter tip ts ws) in F. congruence.
    + apply Z.eqb_eq in Hrun. subst id. apply (wakeups_infeasible_iff margin jitter tip ts ws) in M. rewrite M.
      apply oz_eqb_eq. reflexivity.
    + destruct (first_infeasible ts) as [id|] eqn:F; [|reflexivity].
      apply (wakeups_infeasible_iff margin jitter tip ts ws) in F. congruence.
  - (* Shift *)
    rewrite !andb_true_iff in Hwf. destruct Hwf as [[[[HI Hsv] Hw] Hpre] Hs0].
    unfold nz32, h32, in_u32, in_range in *.
    assert (Hwfp : Forall stx_wf pre).
    { apply Forall_forall. intros t Ht. rewrite forallb_forall in Hpre. specialize (Hpre t Ht).
      destruct t as [[[[st tr] sched] ex] an]. rewrite !andb_true_iff in Hpre. unfold stx_wf, oin in *.
      destruct an; lia. }
    assert (Hs0' : match pre with (_, _, s0, _, _) :: _ => s0 <= served | [] => True end).
    { destruct pre as [|[[[[st tr] s0] ex] an] rest]; [exact Logic.I | lia]. }
    destruct o as [[post k]|e|]; cbn [on_ok].
    + apply dres_ok in Hrun. destruct Hrun as (post' & rest & Hm & Hd & Hk). apply lstx_eqb_eq in Hd. subst post.
      destruct (advance_overdue_ok oc iv served pre ws post' rest ltac:(lia) Hwfp Hs0' Hm) as (Hok & _ & p & He).
      rewrite Hok. assert (length ws = (length p + length rest)%nat) by (rewrite He, app_length; reflexivity). lia.
    + apply dres_err in Hrun. destruct Hrun as [[]|[e' Hm]]. exfalso. revert Hm. unfold advance_overdue.
      destruct pre as [|[[[[st tr] s0] ex] an] rest]; cbv beta iota; [intros Hm; discriminate Hm|].
      destruct (sat_add_u32 s0 (overdue_tolerance iv) <? served); [|intros Hm; discriminate Hm].
      cbn [shift_all].
      destruct (shift_tx oc iv (served - s0) (st, tr, s0, ex, an) ws) as [[t' r]| |]; try (intros Hm; discriminate Hm).
      destruct (shift_all oc iv (served - s0) rest r) as [[l' r']| |]; intros Hm; discriminate Hm.
    + reflexivity.
  - (* Rebuild *)
    rewrite !andb_true_iff in Hwf. destruct Hwf as [[[[[[[[HI Hcap] Hnu] Hf] Htip] Hpend] Hw] Hds] _].
    unfold nz32, h32, in_u32, in_range in *.
    assert (Hpend' : Forall (fun x => 0 <= x <= u32_max) pend).
    { apply Forall_forall. intros x Hx. rewrite forallb_forall in Hpend. specialize (Hpend x Hx). lia. }
    apply forallb_h32 in Hds.
    destruct (rebuild_schedule oc iv cap nu63 funding tip pend ws ds) as [row'|e0|] eqn:M; destruct o as [row|e1|]; cbn in Hrun; try discriminate; try reflexivity.
    assert (row = row').
    { destruct row as [[a b] c], row' as [[a' b'] c']. unfold pair_eqb, zz_eqb, pair_eqb in Hrun. cbn [fst snd] in Hrun.
      rewrite !andb_true_iff in Hrun. destruct Hrun as [[H1 H2] H3]. apply Z.eqb_eq in H1, H2. subst.
      destruct c, c'; cbn in H3; try discriminate; [apply Z.eqb_eq in H3; subst|]; reflexivity. }
    subst row'.
    apply (rebuild_ok_model oc iv cap nu63 funding tip pend ws ds ltac:(lia) ltac:(lia) ltac:(lia) ltac:(lia) Hpend' Hds row M).
  - (* Plumb *)
    rewrite !andb_true_iff in Hwf. destruct Hwf as [[_ HI] Hcfg]. unfold nz32 in *.
    assert (o = scheduling_params iv cfg).
    { destruct (scheduling_params iv cfg) as [[[[a b] c0] d] e0], o as [[[[a' b'] c'] d'] e']. unfold quint_eqb in Hrun.
      rewrite !andb_true_iff in Hrun. destruct Hrun as [[[[H1 H2] H3] H4] H5]. apply Z.eqb_eq in H1, H2, H3, H4, H5. subst. reflexivity. }
    subst o. apply params_ok_model; [lia|].
    destruct cfg as [[[[a ca] b] cb]|]; [|exact Logic.I]. cbn. lia.
Qed.
