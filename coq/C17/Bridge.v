(** C17 — bridge: for the operations listed in [bridged], agreement of the implementation's
    outcome with the model ([run_case]) on a well-formed case outside the known-finding class
    implies the property checker ([prop_case]) accepts that outcome. *)
From Coq Require Import ZifyBool Permutation Sorted.
From V.Lib Require Import Base MachInt.
From V.Gen Require Import C17Consts.
From V.C17 Require Import Model Spec Corr Wf ProofsArith ProofsShuffle ProofsAnchor ProofsClassify ProofsCanon.
Local Open Scope Z_scope.

Definition bridged (c : case) : bool :=
  match c with
  | Expiry _ _ | BoundBelow _ _ _ | BoundAbove _ _ _ | IsBoundary _ _ _
  | ToCode _ _ | FromCode _ _ | Classify _ _ _ | ClassifyPair _ _ _ _ _ | DelayNew _ _ _ | DelayDraw _ _ _ _
  | Heights _ _ _ _ _ _ | Sched _ _ _ _ _
  | AnchorDraw _ _ _ _ _ _ | AnchorRedraw _ _ _ _ _ => true
  | _ => false
  end.

Lemma class_eqb_eq x y : class_eqb x y = true <-> x = y.
Proof. destruct x as [[|]| |], y as [[|]| |]; simpl; split; congruence. Qed.

Lemma lz_eqb_eq x y : lz_eqb x y = true <-> x = y.
Proof. apply list_eqb_spec. intros; apply Z.eqb_eq. Qed.

Lemma oz_eqb_eq x y : oz_eqb x y = true <-> x = y.
Proof. apply option_eqb_spec. intros; apply Z.eqb_eq. Qed.

Lemma zz_eqb_eq x y : zz_eqb x y = true <-> x = y.
Proof.
  destruct x as [a b], y as [c d]. unfold zz_eqb, pair_eqb. cbn [fst snd]. rewrite andb_true_iff, !Z.eqb_eq.
  split; [intros [-> ->]; reflexivity | intros H; inversion H; auto].
Qed.

Lemma lzz_eqb_eq x y : list_eqb zz_eqb x y = true <-> x = y.
Proof. apply list_eqb_spec. intros; apply zz_eqb_eq. Qed.

Lemma dres_ok {A} (eqa : A -> A -> bool) ws (m : draw A) v k :
  dres_eqb eqa (consumed ws m) (Ok (v, k)) = true ->
  exists v' rest, m = Ok (v', rest) /\ eqa v' v = true /\ k = Z.of_nat (length ws) - Z.of_nat (length rest).
Proof.
  unfold dres_eqb, consumed. destruct m as [[v' rest]|e|]; cbn; try discriminate.
  unfold pair_eqb; cbn [fst snd]. rewrite andb_true_iff, Z.eqb_eq. intros [H1 H2]. eauto.
Qed.

Lemma dres_err {A} (eqa : A -> A -> bool) ws (m : draw A) e : dres_eqb eqa (consumed ws m) (Err e) = true -> False \/ exists e', m = Err e'.
Proof. unfold dres_eqb, consumed. destruct m as [[v' rest]|e'|]; cbn; try discriminate. eauto. Qed.

Lemma forallb_h32 ds : forallb h32 ds = true -> Forall (fun x => 0 <= x) ds.
Proof.
  rewrite forallb_forall. intros H. apply Forall_forall. intros x Hx. specialize (H x Hx).
  unfold h32, in_u32, in_range in H. lia.
Qed.

Lemma words_u64w ws : words ws = true -> Forall u64w ws.
Proof.
  unfold words. rewrite forallb_forall. intros H. apply Forall_forall. intros x Hx. specialize (H x Hx).
  unfold in_u64, in_range, u64_max in H. unfold u64w, two64. lia.
Qed.

Lemma heights_consumed cap : forall n h ds hs r,
  cumulative_heights cap n h ds = Ok (hs, r) -> (length r + n <= length ds)%nat.
Proof.
  induction n as [|n IH]; intros h ds hs r H; cbn [cumulative_heights] in H.
  - inversion H; subst. lia.
  - destruct (delay_draw cap ds) as [[d r0]| |] eqn:D; try discriminate.
    destruct (cumulative_heights cap n (sat_add_u32 h d) r0) as [[hs0 r1]| |] eqn:C; try discriminate.
    inversion H; subst. apply IH in C. destruct (delay_le_cap _ _ _ _ D) as [_ [pre [He _]]].
    rewrite He, app_length. simpl. lia.
Qed.

Lemma anchor_some_consumes I nu f tip ws b r :
  draw_anchor_boundary I nu f tip ws = Ok (Some b, r) -> (length r < length ws)%nat.
Proof.
  unfold draw_anchor_boundary.
  destruct (candidate_boundary_bounds I nu f (boundary_at_or_below I tip)) as [[lo hi]|]; [|discriminate].
  destruct (sample_boundary I lo hi (boundary_at_or_below I tip) ws) as [[c r0]| |] eqn:S; try discriminate.
  intros H; inversion H; subst. unfold sample_boundary in S. apply sample_go_spec in S; [|lia].
  destruct S as (_ & _ & pre & Hp & He). rewrite He, app_length. destruct pre; [congruence | simpl; lia].
Qed.

Lemma redraw_some_consumes I prior bc ws b r :
  redraw_anchor_boundary I prior bc ws = Ok (Some b, r) -> (length r < length ws)%nat.
Proof.
  unfold redraw_anchor_boundary.
  destruct (checked_sub_u32 (boundary_at_or_below I bc) I) as [hi|]; [|discriminate].
  destruct (hi <? boundary_at_or_above I prior); [discriminate|].
  destruct (sample_boundary I (boundary_at_or_above I prior) hi (boundary_at_or_below I bc) ws) as [[c r0]| |] eqn:S; try discriminate.
  intros H; inversion H; subst. unfold sample_boundary in S. apply sample_go_spec in S; [|lia].
  destruct S as (_ & _ & pre & Hp & He). rewrite He, app_length. destruct pre; [congruence | simpl; lia].
Qed.

Lemma steps_fst cap commit (l : list (Z * Z)) hs : hs = map fst l -> steps_ok cap commit hs = true -> steps_ok cap commit (map fst l) = true.
Proof. intros ->. auto. Qed.

Lemma neg_obs_spec c e : wf_consts c = true -> neg_obs c e = negative_observation c e.
Proof.
  intros Hc. unfold wf_consts, MAX_MONEY_Z in Hc. rewrite !andb_true_iff in Hc.
  unfold neg_obs, negative_observation, negative_observation_with.
  destruct (e_value e) as [v|]; [|reflexivity]. rewrite canonical_equiv_wf by lia. reflexivity.
Qed.

Lemma pos_for_spec c e k : wf_consts c = true -> pos_for c e k = positive_for c e k.
Proof.
  intros Hc. unfold wf_consts, MAX_MONEY_Z in Hc. rewrite !andb_true_iff in Hc.
  unfold pos_for, positive_for, positive_for_with.
  destruct (e_value e) as [v|]; [|reflexivity]. rewrite canonical_equiv_wf by lia. reflexivity.
Qed.

Lemma classify_ok_model c e : wf_consts c = true -> classify_ok c e (classify c e) = true.
Proof.
  intros Hc. unfold classify_ok. destruct (classify c e) as [k| |] eqn:E.
  - rewrite <- pos_for_spec by exact Hc. apply classify_conforms_iff. exact E.
  - rewrite <- neg_obs_spec by exact Hc. apply classify_refutes_only_on_negative. exact E.
  - reflexivity.
Qed.

Lemma cls_dec (x y : classification) : {x = y} + {x <> y}.
Proof. decide equality. decide equality. Qed.

Lemma ocls_some x o : ocls_eqb (Some x) o = true -> o = Some x.
Proof. destruct o as [y|]; cbn; [intros H; apply class_eqb_eq in H; congruence | discriminate]. Qed.

Lemma bridge c : bridged c = true ->
  wf_case c = true -> known_class c = 0%N -> run_case c = true -> prop_case c = true.
Proof.
  destruct c; cbn [bridged]; try discriminate; intros _ Hwf Hkc Hrun; cbn [wf_case run_case prop_case] in *.
  - (* Expiry *)
    apply Z.eqb_eq in Hrun. subst o. unfold h32, in_u32, in_range in Hwf.
    rewrite expiry_canonical at 1. rewrite Z.eqb_refl. cbn [andb].
    destruct (Z_le_gt_dec (h - h mod EXPIRY_MODULUS + EXPIRY_WINDOW) u32_max) as [Hs|Hs].
    + destruct (expiry_window_bounds h ltac:(lia) Hs) as (_ & _ & B1 & B2). lia.
    + rewrite (expiry_saturated h) by lia. rewrite Z.eqb_refl. reflexivity.
  - (* BoundBelow *)
    apply Z.eqb_eq in Hrun. subst o. unfold nz32, h32, in_u32, in_range in Hwf.
    destruct (below_props iv h ltac:(lia) ltac:(lia)) as (B1 & B2 & B3). cbv zeta in *. unfold below_spec. lia.
  - (* BoundAbove *)
    apply Z.eqb_eq in Hrun. subst o. unfold nz32, h32, in_u32, in_range in Hwf.
    apply Z.eqb_eq. apply above_eq_spec; lia.
  - (* IsBoundary *)
    apply eqb_prop in Hrun. subst o. unfold nz32, h32, in_u32, in_range in Hwf. unfold is_boundary.
    pose proof (Z.div_mod h iv ltac:(lia)). apply eqb_true_iff. lia.
  - (* ToCode *)
    apply Z.eqb_eq in Hrun. subst o. rewrite to_code_spec. apply Z.eqb_refl.
  - (* FromCode *)
    apply class_eqb_eq in Hrun. subst o. rewrite from_code_spec. apply class_eqb_eq. reflexivity.
  - (* Classify *)
    apply ocls_some in Hrun. subst o. apply andb_true_iff in Hwf. destruct Hwf as [Hc _].
    apply classify_ok_model. exact Hc.
  - (* ClassifyPair *)
    apply andb_true_iff in Hrun. destruct Hrun as [R1 R2]. apply ocls_some in R1. apply ocls_some in R2. subst o o'.
    rewrite !andb_true_iff in Hwf. destruct Hwf as [[[Hc _] _] Hle].
    rewrite !classify_ok_model by exact Hc. cbn [andb].
    unfold monotone_pair. destruct (classify c e) as [k| |] eqn:E; [| |reflexivity].
    + apply class_eqb_eq.
      destruct (cls_dec (classify c e') (classify c e)) as [Heq|Hne].
      * rewrite E in Heq. symmetry. exact Heq.
      * exfalso. assert (Hk : classify c e <> Unknown) by congruence.
        destruct (classify_monotone_characterised c e e' Hle Hk Hne) as (_ & H2 & H3).
        cbn [known_class] in Hkc. rewrite Hle, H3, H2 in Hkc. cbn in Hkc. discriminate.
    + apply class_eqb_eq. symmetry. apply nonconforming_stable with (e := e); assumption.
  - (* DelayNew *)
    apply eqb_prop in Hrun. subst o. unfold delay_new. destruct (cap <? mean) eqn:E; destruct (mean <=? cap) eqn:E2; try reflexivity; lia.
  - (* DelayDraw *)
    destruct o as [[d k]|e|]; cbn [on_ok].
    + apply dres_ok in Hrun. destruct Hrun as (d' & rest & Hm & Hd & Hk). apply Z.eqb_eq in Hd. subst d'.
      rewrite !andb_true_iff in Hwf. destruct Hwf as [_ Hds]. apply forallb_h32 in Hds.
      destruct (delay_le_cap _ _ _ _ Hm) as [Hc [pre [He _]]].
      destruct (delay_rest _ _ _ _ Hds Hm) as [Hd0 _].
      assert (length ds = (length pre + S (length rest))%nat) by (rewrite He, app_length; reflexivity). lia.
    + apply dres_err in Hrun. destruct Hrun as [[]|[e' Hm]].
      exfalso. revert Hm. clear. induction ds as [|x ds IH]; cbn [delay_draw]; [discriminate|]. destruct (x <=? cap); [discriminate | exact IH].
    + reflexivity.
  - (* Heights *)
    destruct o as [[hs k]|e|]; cbn [on_ok].
    + apply dres_ok in Hrun. destruct Hrun as (hs' & rest & Hm & Hd & Hk). apply lz_eqb_eq in Hd. subst hs'.
      rewrite !andb_true_iff in Hwf. destruct Hwf as [[[Hcap Hcommit] Hn] Hds]. apply forallb_h32 in Hds.
      unfold nz32, h32, in_u32, in_range in *.
      assert (Hcm : commit <= u32_max) by lia.
      destruct (heights_steps _ _ _ _ _ _ Hds Hcm Hm) as [Hl Hs].
      pose proof (heights_consumed _ _ _ _ _ _ Hm). rewrite Hs. lia.
    + apply dres_err in Hrun. destruct Hrun as [[]|[e' Hm]]. exfalso. revert Hm. clear.
      generalize (Z.to_nat n). intros k. revert commit ds. induction k as [|k IH]; intros commit ds; cbn [cumulative_heights]; [discriminate|].
      destruct (delay_draw cap ds) as [[d r]| |]; try discriminate.
      destruct (cumulative_heights cap k (sat_add_u32 commit d) r) as [[hs r']| |]; discriminate.
    + reflexivity.
  - (* Sched *)
    destruct o as [[l k]|e|]; cbn [on_ok].
    + apply dres_ok in Hrun. destruct Hrun as (l' & rest & Hm & Hd & Hk). apply lzz_eqb_eq in Hd. subst l'.
      rewrite !andb_true_iff in Hwf. destruct Hwf as [[[Hcap Hcommit] Hn] Hds]. apply forallb_h32 in Hds.
      unfold nz32, h32, in_u32, in_range in *.
      destruct (schedule_expiry_canonical _ _ _ _ _ _ Hm) as [Hexp Hc].
      assert (Hcm : commit <= u32_max) by lia.
      destruct (heights_steps _ _ _ _ _ _ Hds Hcm Hc) as [Hl Hs].
      rewrite map_length in Hl. rewrite Hs.
      assert (He : forallb (fun p => snd p =? expiry_spec (fst p)) l = true).
      { apply forallb_forall. intros p Hp. rewrite Forall_forall in Hexp. apply Z.eqb_eq. apply Hexp. exact Hp. }
      rewrite He. lia.
    + apply dres_err in Hrun. destruct Hrun as [[]|[e' Hm]]. exfalso. revert Hm. unfold schedule.
      destruct (cumulative_heights cap (Z.to_nat n) commit ds) as [[hs r]| |]; discriminate.
    + reflexivity.
  - (* AnchorDraw *)
    rewrite !andb_true_iff in Hwf. destruct Hwf as [[[[HI Hnu] Hf] Htip] Hw].
    unfold nz32, h32, in_u32, in_range in *.
    destruct o as [[b k]|e|]; cbn [on_ok].
    + apply dres_ok in Hrun. destruct Hrun as (b' & rest & Hm & Hd & Hk). apply oz_eqb_eq in Hd. subst b'.
      destruct b as [b|]; cbn [anchor_result_ok].
      * rewrite (anchor_in_candidates iv nu63 funding tip ltac:(lia) ltac:(lia) ltac:(lia) ltac:(lia) _ _ _ Hm).
        pose proof (anchor_some_consumes _ _ _ _ _ _ _ Hm). lia.
      * apply (anchor_none_iff iv nu63 funding tip ltac:(lia) ltac:(lia) ltac:(lia) ltac:(lia)) in Hm.
        destruct Hm as [-> Hall]. unfold anchor_set_empty.
        assert (Hf' : forallb (fun b => negb (anchor_ok iv nu63 funding tip b)) (age_candidates iv tip) = true).
        { apply forallb_forall. intros b _. rewrite Hall. reflexivity. }
        rewrite Hf'. lia.
    + apply dres_err in Hrun. destruct Hrun as [[]|[e' Hm]]. exfalso. revert Hm. unfold draw_anchor_boundary.
      destruct (candidate_boundary_bounds iv nu63 funding (boundary_at_or_below iv tip)) as [[lo hi]|]; [|discriminate].
      destruct (sample_boundary iv lo hi (boundary_at_or_below iv tip) ws) as [[c r]| |]; discriminate.
    + reflexivity.
  - (* AnchorRedraw *)
    rewrite !andb_true_iff in Hwf. destruct Hwf as [[[HI Hp] Hb] Hw].
    unfold nz32, h32, in_u32, in_range in *.
    destruct o as [[b k]|e|]; cbn [on_ok].
    + apply dres_ok in Hrun. destruct Hrun as (b' & rest & Hm & Hd & Hk). apply oz_eqb_eq in Hd. subst b'.
      destruct b as [b|]; cbn [redraw_result_ok].
      * rewrite (redraw_in_candidates iv prior broadcast ltac:(lia) ltac:(lia) ltac:(lia) _ _ _ Hm).
        pose proof (redraw_some_consumes _ _ _ _ _ _ Hm). lia.
      * apply (redraw_none_iff iv prior broadcast ltac:(lia) ltac:(lia) ltac:(lia)) in Hm.
        destruct Hm as [-> Hall].
        assert (Hf' : forallb (fun b => negb (redraw_ok iv prior broadcast b)) (age_candidates iv broadcast) = true).
        { apply forallb_forall. intros b _. rewrite Hall. reflexivity. }
        rewrite Hf'. lia.
    + apply dres_err in Hrun. destruct Hrun as [[]|[e' Hm]]. exfalso. revert Hm. unfold redraw_anchor_boundary.
      destruct (checked_sub_u32 (boundary_at_or_below iv broadcast) iv) as [hi|]; [|discriminate].
      destruct (hi <? boundary_at_or_above iv prior); [discriminate|].
      destruct (sample_boundary iv (boundary_at_or_above iv prior) hi (boundary_at_or_below iv broadcast) ws) as [[c r]| |]; discriminate.
    + reflexivity.
Qed.
