(** C17 — proofs: the sync wake-up schedule (cover, strictness, minimality). *)
From Coq Require Import ZifyBool Permutation Sorted.
From V.Lib Require Import Base MachInt.
From V.Gen Require Import C17Consts.
From V.C17 Require Import Model Spec ProofsArith.
Local Open Scope Z_scope.

(** the window the code assembles for one transfer *)
Definition win_of (tip margin : Z) (t : Z * Z * Z) : win :=
  let '(id, a, b) := t in (b - 1, Z.max (Z.min (sat_add_u32 a margin) (b - 1)) tip, id).

Definition overdueb (tip : Z) (w : win) : bool := w_deadline w <? tip.
Definition feasibleb (t : Z * Z * Z) : bool := let '(_, a, b) := t in negb (b <=? sat_add_u32 a 1).

(** * assembly *)
Lemma assemble_ok tip m : forall ts ov ws,
  assemble tip m ts = Ok (ov, ws) ->
  ov = filter (overdueb tip) (map (win_of tip m) ts) /\
  ws = filter (fun w => negb (overdueb tip w)) (map (win_of tip m) ts) /\
  forallb feasibleb ts = true.
Proof.
  induction ts as [|[[id a] b] ts IH]; intros ov ws H; cbn [assemble] in H.
  - inversion H; subst. repeat split.
  - destruct (b <=? sat_add_u32 a 1) eqn:F; [discriminate|].
    destruct (assemble tip m ts) as [[ov0 ws0]| |]; try discriminate.
    destruct (IH _ _ eq_refl) as (E1 & E2 & E3).
    cbn [map filter forallb feasibleb win_of].
    assert (Ho : forall X, overdueb tip (b - 1, X, id) = (b - 1 <? tip)) by reflexivity.
    rewrite !Ho, F, E3. cbn [negb andb].
    destruct (b - 1 <? tip); inversion H; subst; cbn [negb]; repeat split.
Qed.

Lemma assemble_err tip m : forall ts id,
  assemble tip m ts = Err id <->
  exists pre t post, ts = pre ++ t :: post /\ forallb feasibleb pre = true /\ feasibleb t = false /\ fst (fst t) = id.
Proof.
  induction ts as [|[[id0 a] b] ts IH]; intros id; cbn [assemble].
  - split; [discriminate|]. intros (pre & t & post & E & _). destruct pre; discriminate.
  - destruct (b <=? sat_add_u32 a 1) eqn:F.
    + split.
      * intros H; inversion H; subst. exists [], (id, a, b), ts. cbn. rewrite F. repeat split.
      * intros (pre & t & post & E & P & Q & R). destruct pre as [|p pre].
        -- cbn in E. inversion E; subst. reflexivity.
        -- cbn in E. inversion E; subst. cbn in P. rewrite F in P. discriminate.
    + split.
      * intros H. destruct (assemble tip m ts) as [[ov0 ws0]|e|] eqn:A; try discriminate.
        -- destruct (b - 1 <? tip); discriminate.
        -- inversion H; subst. destruct (proj1 (IH id) eq_refl) as (pre & t & post & E & P & Q & R).
           exists ((id0, a, b) :: pre), t, post. cbn. rewrite F, E. repeat split; assumption.
      * intros (pre & t & post & E & P & Q & R). destruct pre as [|p pre].
        -- cbn in E. inversion E; subst. cbn in Q. rewrite F in Q. discriminate.
        -- cbn in E. inversion E; subst. cbn in P. rewrite F in P. cbn in P.
           assert (A : assemble tip m (pre ++ t :: post) = Err (fst (fst t))).
           { apply IH. exists pre, t, post. repeat split; assumption. }
           rewrite A. reflexivity.
Qed.

Lemma assemble_never_panics tip m ts : assemble tip m ts <> Panic.
Proof.
  induction ts as [|[[id a] b] ts IH]; cbn [assemble]; [discriminate|].
  destruct (b <=? sat_add_u32 a 1); [discriminate|].
  destruct (assemble tip m ts) as [[ov ws]| |]; [|discriminate|congruence].
  destruct (b - 1 <? tip); discriminate.
Qed.

(** * generic list facts *)
Lemma filter_partition_perm {A} (p : A -> bool) (l : list A) :
  Permutation (filter p l ++ filter (fun x => negb (p x)) l) l.
Proof.
  induction l as [|x l IH]; [reflexivity|]. cbn [filter].
  destruct (p x); cbn [negb app].
  - apply perm_skip. exact IH.
  - eapply perm_trans; [symmetry; apply Permutation_middle|]. apply perm_skip. exact IH.
Qed.

Lemma filter_length_lt {A} (p q : A -> bool) (l : list A) s :
  (forall x, q x = true -> p x = true) -> In s l -> p s = true -> q s = false ->
  (length (filter q l) < length (filter p l))%nat.
Proof.
  intros Hqp. induction l as [|x l IH]; intros Hin Hp Hq; [destruct Hin|].
  assert (Hle : forall l', (length (filter q l') <= length (filter p l'))%nat).
  { induction l' as [|y l' IH']; [simpl; lia|]. cbn [filter]. specialize (Hqp y).
    destruct (q y) eqn:Q; [rewrite Hqp by reflexivity; simpl; lia|]. destruct (p y); simpl; lia. }
  cbn [filter]. destruct Hin as [->|Hin].
  - rewrite Hp, Hq. specialize (Hle l). simpl. lia.
  - specialize (IH Hin Hp Hq). specialize (Hqp x).
    destruct (q x) eqn:Q; [rewrite Hqp by reflexivity; simpl; lia|]. destruct (p x); simpl; lia.
Qed.

(** * the stable sort *)
Definition dl_le (x y : win) : Prop := w_deadline x <= w_deadline y.

Lemma insert_perm x l : Permutation (insert x l) (x :: l).
Proof.
  induction l as [|y l IH]; cbn [insert]; [reflexivity|].
  destruct (key_le x y); [reflexivity|].
  eapply perm_trans; [apply perm_skip, IH | apply perm_swap].
Qed.

Lemma sort_perm l : Permutation (sort_windows l) l.
Proof.
  induction l as [|x l IH]; cbn [sort_windows]; [reflexivity|].
  eapply perm_trans; [apply insert_perm | apply perm_skip, IH].
Qed.

Lemma insert_sorted x l : StronglySorted dl_le l -> StronglySorted dl_le (insert x l).
Proof.
  induction l as [|y l IH]; intros Hs; cbn [insert].
  - constructor; constructor.
  - inversion Hs as [|? ? Hs' Hall]; subst. destruct (key_le x y) eqn:K.
    + constructor; [exact Hs|]. unfold key_le in K.
      assert (Hxy : dl_le x y) by (unfold dl_le; lia).
      constructor; [exact Hxy|]. eapply Forall_impl; [|exact Hall]. unfold dl_le in *. intros; lia.
    + constructor; [apply IH; exact Hs'|].
      assert (Hyx : dl_le y x) by (unfold dl_le, key_le in *; lia).
      apply Forall_forall. intros z Hz. apply (Permutation_in _ (insert_perm x l)) in Hz.
      destruct Hz as [<-|Hz]; [exact Hyx|]. rewrite Forall_forall in Hall. apply Hall. exact Hz.
Qed.

Lemma sort_sorted l : StronglySorted dl_le (sort_windows l).
Proof. induction l as [|x l IH]; cbn [sort_windows]; [constructor | apply insert_sorted, IH]. Qed.

Lemma filter_sorted (p : win -> bool) l : StronglySorted dl_le l -> StronglySorted dl_le (filter p l).
Proof.
  induction 1 as [|x l Hs IH Hall]; cbn [filter]; [constructor|].
  destruct (p x); [|exact IH]. constructor; [exact IH|].
  apply Forall_forall. intros z Hz. apply filter_In in Hz. rewrite Forall_forall in Hall. apply Hall. tauto.
Qed.

(** the sort is stable: it is the identity on an already sorted (by key) list, and windows with
    equal keys keep their order *)
Lemma insert_stable x l :
  Forall (fun y => key_le x y = true) l -> insert x l = x :: l.
Proof. destruct l as [|y l]; [reflexivity|]. intros H. inversion H; subst. cbn [insert]. rewrite H2. reflexivity. Qed.

(** * greedy grouping *)

(** a well-formed group: it has an opener whose deadline is the group's; every member's window
    contains [max_ready, first_deadline] *)
Definition gwf (g : group) : Prop :=
  (exists o rest, covers g = o :: rest /\ w_deadline o = first_deadline g) /\
  Forall (fun w => w_ready w <= max_ready g /\ first_deadline g <= w_deadline w) (covers g) /\
  max_ready g <= first_deadline g.

(** consecutive openers are disjoint: each opens strictly after the previous group's deadline *)
Fixpoint gchain (lb : Z) (gs : list group) : Prop :=
  match gs with
  | [] => True
  | g :: r => (exists o rest, covers g = o :: rest /\ lb < w_ready o) /\ gchain (first_deadline g) r
  end.

Lemma greedy_spec : forall ws g lb,
  gwf g -> (exists o rest, covers g = o :: rest /\ lb < w_ready o) ->
  Forall (fun w => first_deadline g <= w_deadline w /\ w_ready w <= w_deadline w) ws ->
  StronglySorted dl_le ws ->
  Forall gwf (greedy g ws) /\ gchain lb (greedy g ws) /\
  concat (map covers (greedy g ws)) = covers g ++ ws.
Proof.
  induction ws as [|w ws IH]; intros g lb Hg Ho Hall Hs; cbn [greedy].
  - split; [constructor; [exact Hg | constructor]|]. split; [cbn; tauto|]. cbn. rewrite !app_nil_r. reflexivity.
  - inversion Hall as [|? ? [Hw1 Hw2] Hall']; subst. inversion Hs as [|? ? Hs' Hsall]; subst.
    destruct Hg as ((o & rest & Ec & Ed) & Hcov & Hmr).
    destruct (w_ready w <=? first_deadline g) eqn:J.
    + set (g' := mkGroup (first_deadline g) (Z.max (max_ready g) (w_ready w)) (covers g ++ [w])).
      assert (Hg' : gwf g').
      { unfold gwf, g'; cbn. split; [exists o, (rest ++ [w]); rewrite Ec; split; [reflexivity | exact Ed]|].
        split; [|lia]. apply Forall_app. split.
        - eapply Forall_impl; [|exact Hcov]. cbv beta. intros; lia.
        - constructor; [lia | constructor]. }
      destruct (IH g' lb Hg') as (A & B & C).
      * destruct Ho as (o' & rest' & Ec' & Hlb). exists o', (rest' ++ [w]). unfold g'; cbn. rewrite Ec'. split; [reflexivity | exact Hlb].
      * exact Hall'.
      * exact Hs'.
      * split; [exact A|]. split; [exact B|]. rewrite C. unfold g'; cbn. rewrite <- app_assoc. reflexivity.
    + set (g2 := mkGroup (w_deadline w) (w_ready w) [w]).
      assert (Hg2 : gwf g2).
      { unfold gwf, g2; cbn. split; [exists w, []; split; reflexivity|]. split; [constructor; [lia | constructor] | lia]. }
      destruct (IH g2 (first_deadline g) Hg2) as (A & B & C).
      * exists w, []. unfold g2; cbn. split; [reflexivity | lia].
      * unfold g2; cbn. apply Forall_forall. intros z Hz. rewrite Forall_forall in Hall', Hsall.
        specialize (Hall' z Hz). specialize (Hsall z Hz). unfold dl_le in Hsall. lia.
      * exact Hs'.
      * split; [constructor; [split; [eauto | split; assumption] | exact A]|].
        split; [cbn [gchain]; split; [exact Ho | exact B]|].
        cbn [map concat]. rewrite C. unfold g2; cbn. reflexivity.
Qed.

Lemma groups_of_spec ws lb :
  Forall (fun w => lb < w_ready w /\ w_ready w <= w_deadline w) ws -> StronglySorted dl_le ws ->
  Forall gwf (groups_of ws) /\ gchain lb (groups_of ws) /\ concat (map covers (groups_of ws)) = ws.
Proof.
  destruct ws as [|w ws]; intros Hall Hs; cbn [groups_of].
  - split; [constructor|]. split; [exact I | reflexivity].
  - inversion Hall as [|? ? [Hw1 Hw2] Hall']; subst. inversion Hs as [|? ? Hs' Hsall]; subst.
    set (g := mkGroup (w_deadline w) (w_ready w) [w]).
    assert (Hg : gwf g).
    { unfold gwf, g; cbn. split; [exists w, []; split; reflexivity|]. split; [constructor; [lia | constructor] | lia]. }
    destruct (greedy_spec ws g lb Hg) as (A & B & C).
    + exists w, []. split; [reflexivity | exact Hw1].
    + unfold g; cbn. apply Forall_forall. intros z Hz. rewrite Forall_forall in Hall', Hsall.
      specialize (Hall' z Hz). specialize (Hsall z Hz). unfold dl_le in Hsall. lia.
    + exact Hs'.
    + split; [exact A|]. split; [exact B|]. rewrite C. reflexivity.
Qed.

(** * jittered emission *)
Definition emitted (jc : Z) (g : group) (p : Z * list win) : Prop :=
  snd p = covers g /\ max_ready g <= fst p <= first_deadline g /\ fst p - max_ready g <= jc.

Lemma emit_spec jc : 0 <= jc -> forall gs ws l r,
  Forall gwf gs -> Forall u64w ws -> emit jc gs ws = Ok (l, r) ->
  Forall2 (emitted jc) gs l /\ exists pre, ws = pre ++ r.
Proof.
  intros Hjc. induction gs as [|g gs IH]; intros ws l r Hg Hw H; cbn [emit] in H.
  - inversion H; subst. split; [constructor | exists []; reflexivity].
  - inversion Hg as [|? ? Hg0 Hg']; subst. destruct Hg0 as (_ & _ & Hmr).
    destruct (first_deadline g <? max_ready g) eqn:U; [discriminate|].
    set (bound := Z.min jc (first_deadline g - max_ready g)) in *.
    destruct (if bound =? 0 then Ok (0, ws) else gen_index ws (bound + 1)) as [[j ws']| |] eqn:G; try discriminate.
    destruct (u32_max <? max_ready g + j) eqn:O; [discriminate|].
    destruct (emit jc gs ws') as [[l0 r0]| |] eqn:E; try discriminate.
    inversion H; subst.
    assert (Hj : 0 <= j <= bound /\ exists pre, ws = pre ++ ws').
    { destruct (bound =? 0) eqn:B.
      - inversion G; subst. split; [lia | exists []; reflexivity].
      - destruct (gen_index_lt_bound _ _ _ _ Hw G) as [Hr [pre [_ He]]]. split; [lia | exists pre; exact He]. }
    destruct Hj as [Hj [pre He]].
    assert (Hw' : Forall u64w ws') by (rewrite He in Hw; apply Forall_app in Hw; tauto).
    destruct (IH _ _ _ Hg' Hw' E) as [F2 [pre' He']].
    split.
    + constructor; [|exact F2]. unfold emitted; cbn [fst snd]. unfold bound in Hj. split; [reflexivity | lia].
    + exists (pre ++ pre'). rewrite He, He', app_assoc. reflexivity.
Qed.

(** emission can only fail by running out of words: the arithmetic never panics on well-formed
    groups, and a word of all ones is always accepted *)
Lemma gen_index_max_word bound r : 0 < bound <= 2 ^ 63 ->
  gen_index ((two64 - 1) :: r) bound = Ok (bound - 1, r).
Proof.
  intros Hb. unfold gen_index. replace (bound <=? 0) with false by lia. cbn [gen_index_go].
  assert (Hm : ((two64 - 1) * bound) mod two64 = two64 - bound).
  { replace ((two64 - 1) * bound) with ((two64 - bound) + (bound - 1) * two64) by lia.
    rewrite Z.mod_add by (unfold two64; lia). apply Z.mod_small. unfold two64 in *. lia. }
  assert (Hd : ((two64 - 1) * bound) / two64 = bound - 1).
  { symmetry. apply Z.div_unique with (r := two64 - bound); unfold two64 in *; lia. }
  rewrite Hm, Hd. replace (bound <=? two64 - bound) with true by (unfold two64 in *; lia). reflexivity.
Qed.

Lemma emit_total jc : 0 <= jc <= u32_max -> forall gs ws,
  Forall gwf gs -> Forall (fun g => first_deadline g <= u32_max) gs ->
  (length gs <= length ws)%nat -> Forall (fun w => w = two64 - 1) ws ->
  exists l r, emit jc gs ws = Ok (l, r).
Proof.
  intros Hjc. induction gs as [|g gs IH]; intros ws Hg Hd Hl Hw; cbn [emit].
  - eauto.
  - inversion Hg as [|? ? Hg0 Hg']; subst. inversion Hd as [|? ? Hd0 Hd']; subst.
    destruct Hg0 as (_ & _ & Hmr).
    replace (first_deadline g <? max_ready g) with false by lia.
    set (bound := Z.min jc (first_deadline g - max_ready g)).
    destruct ws as [|w ws]; [simpl in Hl; lia|]. inversion Hw as [|? ? Hw0 Hw']; subst.
    destruct (bound =? 0) eqn:B.
    + replace (u32_max <? max_ready g + 0) with false by lia.
      destruct (IH (two64 - 1 :: ws) Hg' Hd' ltac:(simpl in *; lia) Hw) as (l & r & E). rewrite E. eauto.
    + rewrite gen_index_max_word by (unfold bound, u32_max in *; lia).
      replace (u32_max <? max_ready g + (bound + 1 - 1)) with false by (unfold bound; lia).
      destruct (IH ws Hg' Hd' ltac:(simpl in *; lia) Hw') as (l & r & E). rewrite E. eauto.
Qed.

(** * putting it together *)
Lemma strictly_increasing_weaken l : forall lb lb', lb' <= lb ->
  strictly_increasing lb l = true -> strictly_increasing lb' l = true.
Proof. destruct l as [|h l]; intros lb lb' Hle H; cbn [strictly_increasing] in *; [reflexivity|]. rewrite andb_true_iff in *. split; [lia | tauto]. Qed.

Lemma emitted_increasing jc : forall gs l lb,
  Forall gwf gs -> gchain lb gs -> Forall2 (emitted jc) gs l ->
  strictly_increasing lb (map fst l) = true.
Proof.
  induction gs as [|g gs IH]; intros l lb Hg Hc F2; inversion F2 as [|? p ? l' Hp F2']; subst; [reflexivity|].
  inversion Hg as [|? ? Hg0 Hg']; subst. cbn [gchain] in Hc. destruct Hc as [(o & rest & Ec & Hlb) Hc'].
  destruct Hg0 as (_ & Hcov & Hmr). rewrite Ec in Hcov. inversion Hcov as [|? ? [Ho _] _]; subst.
  destruct Hp as (_ & Hh & _).
  cbn [map strictly_increasing]. rewrite andb_true_iff. split; [lia|].
  apply strictly_increasing_weaken with (lb := first_deadline g); [lia|]. apply IH; assumption.
Qed.

(** every covered window contains the wake-up height of its group *)
Lemma emitted_in_window jc : forall gs l,
  Forall gwf gs -> Forall2 (emitted jc) gs l ->
  Forall (fun p => Forall (fun w => w_ready w <= fst p <= w_deadline w) (snd p)) l.
Proof.
  induction gs as [|g gs IH]; intros l Hg F2; inversion F2 as [|? p ? l' Hp F2']; subst; constructor.
  - inversion Hg as [|? ? Hg0 _]; subst. destruct Hg0 as (_ & Hcov & _). destruct Hp as (Es & Hh & _).
    rewrite Es. eapply Forall_impl; [|exact Hcov]. cbv beta. intros; lia.
  - inversion Hg; subst. apply IH; assumption.
Qed.

Lemma emitted_covers jc : forall gs l, Forall2 (emitted jc) gs l -> concat (map snd l) = concat (map covers gs).
Proof.
  induction 1 as [|g p gs l Hp _ IH]; [reflexivity|]. cbn [map concat]. destruct Hp as (Es & _). rewrite Es, IH. reflexivity.
Qed.

(** the chain of disjoint openers forces as many piercing points above the lower bound *)
Lemma pierce_chain S : forall gs lb,
  Forall gwf gs -> gchain lb gs ->
  (forall g o rest, In g gs -> covers g = o :: rest -> exists s, In s S /\ w_ready o <= s <= w_deadline o) ->
  (length gs <= length (filter (fun s => (lb <? s)%Z) S))%nat.
Proof.
  induction gs as [|g gs IH]; intros lb Hg Hc Hp; [simpl; lia|].
  inversion Hg as [|? ? Hg0 Hg']; subst. cbn [gchain] in Hc. destruct Hc as [(o & rest & Ec & Hlb) Hc'].
  destruct Hg0 as ((o' & rest' & Ec' & Ed) & Hcov & Hmr). rewrite Ec in Ec'. inversion Ec'; subst o' rest'.
  rewrite Ec in Hcov. inversion Hcov as [|? ? [Ho _] _]; subst.
  destruct (Hp g o rest (or_introl eq_refl) Ec) as (s & Hs & Hr).
  specialize (IH (first_deadline g) Hg' Hc' (fun g0 o0 r0 Hin => Hp g0 o0 r0 (or_intror Hin))).
  assert (Hlt : (length (filter (fun s => (first_deadline g <? s)%Z) S) < length (filter (fun s => (lb <? s)%Z) S))%nat).
  { apply filter_length_lt with (s := s); [intros x Hx; lia | exact Hs | lia | lia]. }
  simpl. lia.
Qed.

Lemma Forall2_in_r {A B} (R : A -> B -> Prop) l l' y :
  Forall2 R l l' -> In y l' -> exists x, In x l /\ R x y.
Proof.
  induction 1 as [|a b l l' Hr _ IH]; intros Hin; [destruct Hin|].
  destruct Hin as [<-|Hin]; [exists a; split; [left; reflexivity | exact Hr]|].
  destruct (IH Hin) as (x & Hx & Hxy). exists x. split; [right; exact Hx | exact Hxy].
Qed.

Lemma Forall2_len {A B} (R : A -> B -> Prop) l l' : Forall2 R l l' -> length l = length l'.
Proof. induction 1; simpl; congruence. Qed.

Section Wakeups.
Variables margin0 jc tip : Z.
Variable ts : list (Z * Z * Z).
Variable ws : list Z.
Hypothesis Hjc : 0 <= jc.
Hypothesis Hws : Forall u64w ws.

Let W := map (win_of tip (Z.max margin0 1)) ts.
Let ov := filter (overdueb tip) W.
Let sorted := sort_windows (filter (fun w => negb (overdueb tip w)) W).
Let at_tip (w : win) : bool := w_ready w =? tip.

Lemma wakeups_ann_inv wk r :
  wakeups_ann margin0 jc tip ts ws = Ok (wk, r) ->
  exists l,
    (ov = [] /\ wk = l /\ emit jc (groups_of sorted) ws = Ok (l, r)) \/
    (ov <> [] /\ wk = (tip, ov ++ filter at_tip sorted) :: l /\
     emit jc (groups_of (filter (fun w => negb (at_tip w)) sorted)) ws = Ok (l, r)).
Proof.
  unfold wakeups_ann. destruct (assemble tip (Z.max margin0 1) ts) as [[ov0 wins]| |] eqn:A; try discriminate.
  destruct (assemble_ok _ _ _ _ _ A) as (E1 & E2 & _). fold W in E1, E2. fold ov in E1. subst ov0 wins. fold sorted.
  destruct ov as [|o ov'] eqn:Eo.
  - destruct (emit jc (groups_of sorted) ws) as [[l r0]| |] eqn:E; try discriminate.
    intros H; inversion H; subst. eexists. left. split; [reflexivity|]. split; reflexivity.
  - unfold at_tip.
    destruct (emit jc (groups_of (filter (fun w => negb (w_ready w =? tip)) sorted)) ws) as [[l r0]| |] eqn:E; try discriminate.
    intros H; inversion H; subst. eexists. right. split; [discriminate|]. split; reflexivity.
Qed.

Lemma W_nonoverdue w : In w W -> overdueb tip w = false -> tip <= w_ready w <= w_deadline w.
Proof.
  unfold W. intros Hin Ho. apply in_map_iff in Hin. destruct Hin as ([[id a] b] & <- & _).
  unfold overdueb, w_deadline, w_ready, win_of in *. cbn [fst snd] in *. lia.
Qed.

Lemma W_overdue w : In w W -> overdueb tip w = true -> w_ready w = tip.
Proof.
  unfold W. intros Hin Ho. apply in_map_iff in Hin. destruct Hin as ([[id a] b] & <- & _).
  unfold overdueb, w_deadline, w_ready, win_of in *. cbn [fst snd] in *. lia.
Qed.

Lemma sorted_in w : In w sorted <-> In w W /\ overdueb tip w = false.
Proof.
  unfold sorted. split.
  - intros H. apply (Permutation_in _ (sort_perm _)) in H. apply filter_In in H. destruct H as [H1 H2].
    split; [exact H1|]. destruct (overdueb tip w); [discriminate | reflexivity].
  - intros [H1 H2]. apply (Permutation_in _ (Permutation_sym (sort_perm _))). apply filter_In. rewrite H2. tauto.
Qed.

Lemma sorted_perm_all : Permutation (ov ++ sorted) W.
Proof.
  unfold ov, sorted. eapply perm_trans; [apply Permutation_app_head, sort_perm|]. apply filter_partition_perm.
Qed.

Lemma groups_sorted_spec :
  Forall gwf (groups_of sorted) /\ gchain (tip - 1) (groups_of sorted) /\
  concat (map covers (groups_of sorted)) = sorted.
Proof.
  apply groups_of_spec; [|apply sort_sorted].
  apply Forall_forall. intros w Hw. apply sorted_in in Hw. destruct Hw as [H1 H2].
  pose proof (W_nonoverdue w H1 H2). lia.
Qed.

Lemma groups_surviving_spec :
  let sv := filter (fun w => negb (at_tip w)) sorted in
  Forall gwf (groups_of sv) /\ gchain tip (groups_of sv) /\ concat (map covers (groups_of sv)) = sv.
Proof.
  cbv zeta. apply groups_of_spec; [|apply filter_sorted, sort_sorted].
  apply Forall_forall. intros w Hw. apply filter_In in Hw. destruct Hw as [Hw Ht]. apply sorted_in in Hw. destruct Hw as [H1 H2].
  pose proof (W_nonoverdue w H1 H2). unfold at_tip in Ht. lia.
Qed.

(** COVER: the covered windows are exactly the transfers' windows, each once, and every window
    contains the height of the wake-up that covers it (an overdue one is woken at the tip) *)
Definition covered_ok (p : Z * list win) : Prop :=
  Forall (fun w => if w_deadline w <? tip then fst p = tip else w_ready w <= fst p <= w_deadline w) (snd p).

Lemma wakeups_cover wk r :
  wakeups_ann margin0 jc tip ts ws = Ok (wk, r) ->
  Permutation (concat (map snd wk)) W /\ Forall covered_ok wk /\ Forall (fun p => snd p <> []) wk.
Proof.
  intros H. destruct (wakeups_ann_inv _ _ H) as (l & [(Eo & Ewk & E)|(Eo & Ewk & E)]); subst wk.
  - destruct groups_sorted_spec as (G1 & G2 & G3).
    destruct (emit_spec jc Hjc _ _ _ _ G1 Hws E) as [F2 _].
    split; [|split].
    + rewrite (emitted_covers _ _ _ F2), G3. rewrite <- sorted_perm_all, Eo. reflexivity.
    + pose proof (emitted_in_window _ _ _ G1 F2) as Hin.
      assert (Hsub : forall w, In w (concat (map snd l)) -> overdueb tip w = false).
      { intros w Hw. rewrite (emitted_covers _ _ _ F2), G3 in Hw. apply sorted_in in Hw. tauto. }
      apply Forall_forall. intros p Hp. rewrite Forall_forall in Hin. specialize (Hin p Hp).
      unfold covered_ok. apply Forall_forall. intros w Hw. rewrite Forall_forall in Hin. specialize (Hin w Hw).
      assert (Ho : overdueb tip w = false).
      { apply Hsub. apply in_concat. exists (snd p). split; [apply in_map; exact Hp | exact Hw]. }
      unfold overdueb in Ho. rewrite Ho. exact Hin.
    + apply Forall_forall. intros p Hp.
      destruct (Forall2_in_r _ _ _ _ F2 Hp) as (g & Hg & (Es & _)). rewrite Es.
      rewrite Forall_forall in G1. destruct (G1 g Hg) as ((o & rest & Ec & _) & _). rewrite Ec. discriminate.
  - destruct groups_surviving_spec as (G1 & G2 & G3). cbv zeta in *.
    destruct (emit_spec jc Hjc _ _ _ _ G1 Hws E) as [F2 _].
    split; [|split].
    + cbn [map concat snd]. rewrite (emitted_covers _ _ _ F2), G3.
      rewrite <- app_assoc. rewrite <- sorted_perm_all. apply Permutation_app_head. apply filter_partition_perm.
    + constructor.
      * unfold covered_ok. cbn [fst snd]. apply Forall_app. split.
        -- apply Forall_forall. intros w Hw. unfold ov in Hw. apply filter_In in Hw. destruct Hw as [_ Ho].
           unfold overdueb in Ho. rewrite Ho. reflexivity.
        -- apply Forall_forall. intros w Hw. apply filter_In in Hw. destruct Hw as [Hw Ht]. apply sorted_in in Hw.
           destruct Hw as [H1 H2]. pose proof (W_nonoverdue w H1 H2). unfold overdueb in H2. rewrite H2. unfold at_tip in Ht. lia.
      * pose proof (emitted_in_window _ _ _ G1 F2) as Hin.
        apply Forall_forall. intros p Hp. rewrite Forall_forall in Hin. specialize (Hin p Hp).
        unfold covered_ok. apply Forall_forall. intros w Hw. rewrite Forall_forall in Hin. specialize (Hin w Hw).
        assert (Ho : overdueb tip w = false).
        { assert (Hc : In w (concat (map snd l))) by (apply in_concat; exists (snd p); split; [apply in_map; exact Hp | exact Hw]).
          rewrite (emitted_covers _ _ _ F2), G3 in Hc. apply filter_In in Hc. destruct Hc as [Hc _]. apply sorted_in in Hc. tauto. }
        unfold overdueb in Ho. rewrite Ho. exact Hin.
    + constructor.
      * cbn [snd]. destruct ov; [congruence | discriminate].
      * apply Forall_forall. intros p Hp.
        destruct (Forall2_in_r _ _ _ _ F2 Hp) as (g & Hg & (Es & _)). rewrite Es.
        rewrite Forall_forall in G1. destruct (G1 g Hg) as ((o & rest & Ec & _) & _). rewrite Ec. discriminate.
Qed.

(** STRICT: heights strictly increase and none is below the tip *)
Lemma wakeups_strict wk r :
  wakeups_ann margin0 jc tip ts ws = Ok (wk, r) -> strictly_increasing (tip - 1) (map fst wk) = true.
Proof.
  intros H. destruct (wakeups_ann_inv _ _ H) as (l & [(Eo & Ewk & E)|(Eo & Ewk & E)]); subst wk.
  - destruct groups_sorted_spec as (G1 & G2 & G3).
    destruct (emit_spec jc Hjc _ _ _ _ G1 Hws E) as [F2 _].
    eapply emitted_increasing; eassumption.
  - destruct groups_surviving_spec as (G1 & G2 & G3). cbv zeta in *.
    destruct (emit_spec jc Hjc _ _ _ _ G1 Hws E) as [F2 _].
    cbn [map fst strictly_increasing]. rewrite andb_true_iff. split; [lia|].
    eapply emitted_increasing; eassumption.
Qed.

(** MINIMAL: any set of heights that pierces every proving window (and contains the tip when a
    transfer is overdue) has at least as many elements as the schedule has wake-ups *)
Definition pierces_w (S : list Z) : Prop :=
  Forall (fun w => if w_deadline w <? tip then In tip S
                   else exists s, In s S /\ w_ready w <= s <= w_deadline w) W.

Lemma wakeups_minimal wk r S :
  wakeups_ann margin0 jc tip ts ws = Ok (wk, r) -> pierces_w S -> (length wk <= length S)%nat.
Proof.
  intros H HS. unfold pierces_w in HS. rewrite Forall_forall in HS.
  assert (Hp : forall gs : list group, (forall g w, In g gs -> In w (covers g) -> In w sorted) ->
     forall g o rest, In g gs -> covers g = o :: rest -> exists s, In s S /\ w_ready o <= s <= w_deadline o).
  { intros gs Hsub g o rest Hg Ec.
    assert (Ho : In o sorted) by (apply (Hsub g o Hg); rewrite Ec; left; reflexivity).
    apply sorted_in in Ho. destruct Ho as [H1 H2]. specialize (HS o H1). unfold overdueb in H2. rewrite H2 in HS. exact HS. }
  destruct (wakeups_ann_inv _ _ H) as (l & [(Eo & Ewk & E)|(Eo & Ewk & E)]); subst wk.
  - destruct groups_sorted_spec as (G1 & G2 & G3).
    destruct (emit_spec jc Hjc _ _ _ _ G1 Hws E) as [F2 _].
    rewrite <- (Forall2_len _ _ _ F2).
    eapply Nat.le_trans; [apply (pierce_chain S _ (tip - 1) G1 G2)|].
    + apply Hp. intros g w Hg Hw. rewrite <- G3. apply in_concat. exists (covers g). split; [apply in_map; exact Hg | exact Hw].
    + clear. induction S as [|s S IH]; [simpl; lia|]. cbn [filter]. destruct (tip - 1 <? s); simpl; lia.
  - destruct groups_surviving_spec as (G1 & G2 & G3). cbv zeta in *.
    destruct (emit_spec jc Hjc _ _ _ _ G1 Hws E) as [F2 _].
    cbn [length]. rewrite <- (Forall2_len _ _ _ F2).
    (* the tip is in S because something is overdue *)
    assert (Htip : In tip S).
    { destruct ov as [|o ov'] eqn:Eov; [congruence|].
      assert (Ho : In o (filter (overdueb tip) W)) by (fold ov; rewrite Eov; left; reflexivity).
      apply filter_In in Ho. destruct Ho as [Ho1 Ho2]. specialize (HS o Ho1). unfold overdueb in Ho2. rewrite Ho2 in HS. exact HS. }
    assert (Hc : (length (groups_of (filter (fun w => negb (at_tip w)) sorted)) <= length (filter (fun s => (tip <? s)%Z) S))%nat).
    { apply (pierce_chain S _ tip G1 G2). apply Hp.
      intros g w Hg Hw.
      assert (Hin : In w (filter (fun w => negb (at_tip w)) sorted)).
      { rewrite <- G3. apply in_concat. exists (covers g). split; [apply in_map; exact Hg | exact Hw]. }
      apply filter_In in Hin. tauto. }
    assert (Hlt : (length (filter (fun s => (tip <? s)%Z) S) < length (filter (fun _ => true) S))%nat).
    { apply filter_length_lt with (s := tip); [reflexivity | exact Htip | reflexivity | lia]. }
    assert (Hall : length (filter (fun _ : Z => true) S) = length S).
    { clear. induction S; simpl; auto. }
    lia.
Qed.

End Wakeups.

(** * statements against Spec.v and the public function *)
Lemma win_of_fields tip m0 t :
  let w := win_of tip (Z.max m0 1) t in
  w_id w = fst (fst t) /\ w_deadline w = t_deadline (snd t) /\
  w_ready w = t_ready m0 tip (snd (fst t)) (snd t).
Proof. destruct t as [[id a] b]. cbv zeta. repeat split. Qed.

Lemma pierces_sound m0 tip ts S : pierces m0 tip ts S = true -> pierces_w m0 tip ts S.
Proof.
  unfold pierces, pierces_w. rewrite forallb_forall. intros H. apply Forall_forall. intros w Hw.
  apply in_map_iff in Hw. destruct Hw as (t & <- & Ht). specialize (H t Ht).
  destruct (win_of_fields tip m0 t) as (_ & Ed & Er). cbv zeta in *. rewrite Ed, Er.
  destruct (t_deadline (snd t) <? tip).
  - apply existsb_exists in H. destruct H as (s & Hs & E). apply Z.eqb_eq in E. subst. exact Hs.
  - apply existsb_exists in H. destruct H as (s & Hs & E). exists s. split; [exact Hs | lia].
Qed.

Lemma strip_length l : length (strip l) = length l.
Proof. unfold strip. apply map_length. Qed.

Lemma strip_heights l : map fst (strip l) = map fst l.
Proof. unfold strip. rewrite map_map. reflexivity. Qed.

Lemma strip_ids l : flat_map snd (strip l) = map w_id (concat (map snd l)).
Proof.
  induction l as [|p l IH]; [reflexivity|]. cbn [strip map flat_map concat snd]. rewrite map_app. f_equal. exact IH.
Qed.

Lemma schedule_sync_wakeups_ok m0 jc tip ts ws wk r :
  schedule_sync_wakeups m0 jc tip ts ws = Ok (wk, r) ->
  exists l, wakeups_ann m0 jc tip ts ws = Ok (l, r) /\ wk = strip l.
Proof.
  unfold schedule_sync_wakeups. destruct (wakeups_ann m0 jc tip ts ws) as [[l r0]| |]; try discriminate.
  intros H; inversion H; subst. eauto.
Qed.

Section Public.
Variables m0 jc tip : Z.
Variable ts : list (Z * Z * Z).
Variable ws : list Z.
Hypothesis Hjc : 0 <= jc.
Hypothesis Hws : Forall u64w ws.

(** every transfer id is covered exactly once (as a multiset) *)
Lemma wakeups_cover_ids wk r :
  schedule_sync_wakeups m0 jc tip ts ws = Ok (wk, r) ->
  Permutation (flat_map snd wk) (map (fun t => fst (fst t)) ts).
Proof.
  intros H. destruct (schedule_sync_wakeups_ok _ _ _ _ _ _ _ H) as (l & Hl & ->).
  destruct (wakeups_cover m0 jc tip ts ws Hjc Hws l r Hl) as (P & _ & _).
  rewrite strip_ids. eapply perm_trans; [apply Permutation_map; exact P|].
  rewrite map_map. erewrite map_ext; [reflexivity|]. intros [[id a] b]. reflexivity.
Qed.

Lemma wakeups_strict_pub wk r :
  schedule_sync_wakeups m0 jc tip ts ws = Ok (wk, r) -> strictly_increasing (tip - 1) (map fst wk) = true.
Proof.
  intros H. destruct (schedule_sync_wakeups_ok _ _ _ _ _ _ _ H) as (l & Hl & ->).
  rewrite strip_heights. eapply wakeups_strict; eassumption.
Qed.

Lemma wakeups_minimal_pub wk r S :
  schedule_sync_wakeups m0 jc tip ts ws = Ok (wk, r) -> pierces m0 tip ts S = true ->
  (length wk <= length S)%nat.
Proof.
  intros H HS. destruct (schedule_sync_wakeups_ok _ _ _ _ _ _ _ H) as (l & Hl & ->).
  rewrite strip_length. eapply wakeups_minimal; try eassumption. apply pierces_sound. exact HS.
Qed.

(** the schedule itself pierces: so the minimum is attained *)
Lemma wakeups_pierce wk r :
  schedule_sync_wakeups m0 jc tip ts ws = Ok (wk, r) -> pierces_w m0 tip ts (map fst wk).
Proof.
  intros H. destruct (schedule_sync_wakeups_ok _ _ _ _ _ _ _ H) as (l & Hl & ->).
  destruct (wakeups_cover m0 jc tip ts ws Hjc Hws l r Hl) as (P & C & _).
  rewrite strip_heights. unfold pierces_w. apply Forall_forall. intros w Hw.
  apply (Permutation_in _ (Permutation_sym P)) in Hw. apply in_concat in Hw. destruct Hw as (c & Hc & Hwc).
  apply in_map_iff in Hc. destruct Hc as (p & <- & Hp).
  rewrite Forall_forall in C. specialize (C p Hp). unfold covered_ok in C. rewrite Forall_forall in C. specialize (C w Hwc).
  destruct (w_deadline w <? tip).
  - rewrite <- C. apply in_map. exact Hp.
  - exists (fst p). split; [apply in_map; exact Hp | exact C].
Qed.
End Public.

(** infeasibility is reported exactly for the first transfer without a settle-then-prove height *)
Lemma feasibleb_spec t : feasibleb t = t_feasible (snd (fst t)) (snd t).
Proof. destruct t as [[id a] b]. unfold feasibleb, t_feasible, sat_add_u32. cbn [fst snd]. lia. Qed.

Lemma first_infeasible_iff ts id :
  first_infeasible ts = Some id <->
  exists pre t post, ts = pre ++ t :: post /\ forallb feasibleb pre = true /\ feasibleb t = false /\ fst (fst t) = id.
Proof.
  unfold first_infeasible. induction ts as [|t ts IH]; cbn [filter].
  - split; [discriminate|]. intros (pre & t & post & E & _). destruct pre; discriminate.
  - rewrite <- feasibleb_spec. destruct (feasibleb t) eqn:F; cbn [negb].
    + rewrite IH. split.
      * intros (pre & t' & post & E & P & Q & R). exists (t :: pre), t', post. cbn. rewrite F, E. repeat split; assumption.
      * intros (pre & t' & post & E & P & Q & R). destruct pre as [|p pre].
        -- cbn in E. inversion E; subst. congruence.
        -- cbn in E. inversion E; subst. cbn in P. rewrite F in P. exists pre, t', post. repeat split; assumption.
    + split.
      * intros H; inversion H; subst. exists [], t, ts. repeat split; assumption.
      * intros (pre & t' & post & E & P & Q & R). destruct pre as [|p pre].
        -- cbn in E. inversion E; subst. reflexivity.
        -- cbn in E. inversion E; subst. cbn in P. rewrite F in P. discriminate.
Qed.

Lemma emit_never_err jc : forall gs ws e, emit jc gs ws <> Err e.
Proof.
  induction gs as [|g gs IH]; intros ws e; cbn [emit]; [discriminate|].
  destruct (first_deadline g <? max_ready g); [discriminate|].
  destruct (Z.min jc (first_deadline g - max_ready g) =? 0).
  - destruct (u32_max <? max_ready g + 0); [discriminate|]. specialize (IH ws).
    destruct (emit jc gs ws) as [[l r]|e'|]; discriminate.
  - destruct (gen_index ws (Z.min jc (first_deadline g - max_ready g) + 1)) as [[j ws']|e'|] eqn:G; try discriminate.
    destruct (u32_max <? max_ready g + j); [discriminate|]. specialize (IH ws').
    destruct (emit jc gs ws') as [[l r]|e''|]; discriminate.
Qed.

Lemma wakeups_infeasible_iff m0 jc tip ts ws id :
  schedule_sync_wakeups m0 jc tip ts ws = Err id <-> first_infeasible ts = Some id.
Proof.
  rewrite first_infeasible_iff, <- (assemble_err tip (Z.max m0 1)).
  unfold schedule_sync_wakeups, wakeups_ann.
  destruct (assemble tip (Z.max m0 1) ts) as [[ov wins]|e|] eqn:A.
  - split; [|discriminate].
    destruct ov as [|o ov].
    + destruct (emit jc (groups_of (sort_windows wins)) ws) as [[l r]|e|] eqn:E; discriminate.
    + match goal with |- context [emit ?a ?b ?c] => destruct (emit a b c) as [[l r]|e|] eqn:E end; discriminate.
  - split; intros H; inversion H; reflexivity.
  - exfalso. exact (assemble_never_panics _ _ _ A).
Qed.
