(** C17 — the schedule shift keeps re-drawn anchors admissible. *)
From Coq Require Import ZifyBool.
From V.Lib Require Import Base MachInt.
From V.Gen Require Import C17Consts.
From V.C17 Require Import Model Spec ProofsArith ProofsShuffle ProofsAnchor ProofsCanon.
Local Open Scope Z_scope.

(** the enumeration behind the executable emptiness test is complete for the redraw too *)
Lemma redraw_candidates_complete I prior bc b :
  0 < I <= u32_max -> 0 <= bc <= u32_max ->
  redraw_ok I prior bc b = true -> In b (age_candidates I bc).
Proof.
  intros HI Hb A. unfold redraw_ok in A. cbv zeta in A. rewrite !andb_true_iff in A.
  destruct A as [[[[A0 A1] A2] A3] A4].
  destruct (mr_facts I bc HI Hb) as (M1 & M2 & M3). rewrite <- M3 in *.
  set (mr := boundary_at_or_below I bc) in *.
  unfold age_candidates. rewrite <- M3. fold mr.
  apply in_map_iff. exists ((mr - b) / I).
  pose proof (Z.div_mod (mr - b) I ltac:(lia)) as D.
  assert (Hz : (mr - b) mod I = 0) by (rewrite Zminus_mod, M1; replace (b mod I) with 0 by lia; reflexivity).
  split; [nia|].
  assert (b + I <= mr) by (apply mult_lt; try lia).
  apply iota_spec. unfold ANCHOR_AGE_CAP in *. nia.
Qed.

Lemma redraw_empty_bool I prior bc : 0 < I <= u32_max -> 0 <= bc <= u32_max ->
  (forallb (fun c => negb (redraw_ok I prior bc c)) (age_candidates I bc) = true <->
   forall b, redraw_ok I prior bc b = false).
Proof.
  intros HI Hb. rewrite forallb_forall. split.
  - intros H b. destruct (redraw_ok I prior bc b) eqn:R; [|reflexivity].
    specialize (H b (redraw_candidates_complete I prior bc b HI Hb R)). rewrite R in H. discriminate.
  - intros H b _. rewrite H. reflexivity.
Qed.

Lemma oz_eq_refl a : oz_eq a a = true.
Proof. destruct a; cbn; [apply Z.eqb_refl | reflexivity]. Qed.

Section Shift.
Variable oc : bool.
Variables I delta : Z.
Hypothesis HI : 0 < I <= u32_max.

Definition stx_wf (t : stx) : Prop :=
  let '(st, tr, sched, ex, an) := t in
  0 <= sched <= u32_max /\ match an with Some a => 0 <= a <= u32_max | None => True end.

(** the redraw step of the shift: the boundary it leaves behind *)
Lemma redraw_step_ok prior s' ws res r :
  0 <= prior <= u32_max -> 0 <= s' <= u32_max ->
  redraw_anchor_boundary oc I prior s' ws = Ok (res, r) ->
  let b := match res with Some fresh => fresh | None => prior end in
  prior <= b /\ shift_anchor_ok I prior s' b = true /\ 0 <= b <= u32_max.
Proof.
  intros Hp Hs' R. cbv zeta. destruct res as [fresh|].
  - pose proof (redraw_in_candidates oc I prior s' HI Hp Hs' _ _ _ R) as Hok.
    assert (Hr : prior <= fresh /\ 0 <= fresh <= u32_max).
    { unfold redraw_ok in Hok. cbv zeta in Hok. rewrite <- (below_eq_spec I s') in Hok by lia.
      destruct (below_props I s' ltac:(lia) ltac:(lia)) as (_ & B & _). cbv zeta in B. lia. }
    split; [lia|]. split; [|lia]. unfold shift_anchor_ok.
    destruct (forallb (fun c => negb (redraw_ok I prior s' c)) (age_candidates I s')) eqn:E; [|exact Hok].
    pose proof (proj1 (redraw_empty_bool I prior s' HI Hs') E) as E'. rewrite E' in Hok. discriminate.
  - pose proof (proj1 (redraw_none_iff oc I prior s' HI Hp Hs' ws r) R) as [_ Hall].
    split; [lia|]. split; [|lia].
    unfold shift_anchor_ok. rewrite (proj2 (redraw_empty_bool I prior s' HI Hs') Hall). apply Z.eqb_refl.
Qed.

(** ANCHOR ADMISSIBILITY IS PRESERVED: after the shift, the boundary of a transfer whose proof is
    still to come is never below its prior boundary, and — whenever the shifted schedule has an
    admissible boundary at all — it is one: a grid boundary strictly below the most recent
    boundary of the shifted schedule and within the age cap. Otherwise the prior one is kept. *)
Lemma shift_preserves_anchor_admissible st tr sched ex prior ws q r :
  0 <= delta -> stx_wf (st, tr, sched, ex, Some prior) -> (st = 0 \/ st = 1) -> tr = true ->
  shift_tx oc I delta (st, tr, sched, ex, Some prior) ws = Ok (q, r) ->
  exists b, q = (st, tr, sat_add_u32 sched delta, ex, Some b) /\ prior <= b /\
            shift_anchor_ok I prior (sat_add_u32 sched delta) b = true.
Proof.
  intros Hd [Hs Hp] Hst -> H. unfold shift_tx in H.
  replace ((st =? 3) || (st =? 4)) with false in H by lia.
  replace ((st =? 0) || (st =? 1)) with true in H by lia.
  set (s' := sat_add_u32 sched delta) in *.
  assert (Hs' : 0 <= s' <= u32_max) by (unfold s', sat_add_u32; lia).
  destruct (redraw_anchor_boundary oc I prior s' ws) as [[res r0]| |] eqn:R; try discriminate.
  destruct (redraw_step_ok prior s' ws res r0 Hp Hs' R) as (Hle & Hok & _).
  destruct res as [fresh|]; inversion H; subst; eexists; (split; [reflexivity|]); split; assumption.
Qed.

(** every row after a shift satisfies the executable row checker *)
Lemma shift_tx_ok t ws q r : 0 <= delta -> stx_wf t ->
  shift_tx oc I delta t ws = Ok (q, r) -> tx_shift_ok I delta t q = true /\ stx_wf q.
Proof.
  intros Hd Hwf H. destruct t as [[[[st tr] sched] ex] an]. destruct Hwf as [Hs Ha].
  unfold shift_tx in H. unfold tx_shift_ok.
  assert (Hs' : 0 <= sat_add_u32 sched delta <= u32_max) by (unfold sat_add_u32; lia).
  assert (Hsq : (sat_add_u32 sched delta =? Z.min u32_max (sched + delta)) = true) by (unfold sat_add_u32; apply Z.eqb_refl).
  destruct ((st =? 3) || (st =? 4)) eqn:C34.
  - inversion H; subst. split; [|split; assumption]. cbv beta iota. rewrite !Z.eqb_refl, eqb_reflx, oz_eq_refl. reflexivity.
  - destruct ((st =? 0) || (st =? 1)) eqn:C01.
    + destruct tr.
      * destruct an as [prior|].
        -- destruct (redraw_anchor_boundary oc I prior (sat_add_u32 sched delta) ws) as [[res r0]| |] eqn:R; try discriminate.
           destruct (redraw_step_ok prior _ ws res r0 Ha Hs' R) as (Hle & Hok & Hb).
           destruct res as [fresh|]; inversion H; subst; (split; [|split; assumption]); cbv beta iota;
             rewrite !Z.eqb_refl, eqb_reflx, ?Hsq, Hok; cbn [andb]; rewrite andb_true_r; apply Z.leb_le; exact Hle.
        -- inversion H; subst. split; [|split; [assumption | exact Logic.I]]. cbv beta iota. rewrite !Z.eqb_refl, eqb_reflx, ?Hsq. reflexivity.
      * inversion H; subst. split; [|split; assumption]. cbv beta iota. rewrite !Z.eqb_refl, eqb_reflx, ?Hsq, oz_eq_refl. rewrite andb_false_r. reflexivity.
    + inversion H; subst. split; [|split; assumption]. cbv beta iota. rewrite !Z.eqb_refl, eqb_reflx, ?Hsq, oz_eq_refl. reflexivity.
Qed.

Lemma shift_all_ok : forall txs ws post r, 0 <= delta -> Forall stx_wf txs ->
  shift_all oc I delta txs ws = Ok (post, r) ->
  forall2b (tx_shift_ok I delta) txs post = true /\ Forall stx_wf post /\ exists pre, ws = pre ++ r.
Proof.
  induction txs as [|t txs IH]; intros ws post r Hd Hwf H; cbn [shift_all] in H.
  - inversion H; subst. split; [reflexivity|]. split; [constructor | exists []; reflexivity].
  - inversion Hwf as [|? ? Ht Hrest]; subst.
    destruct (shift_tx oc I delta t ws) as [[t' r0]| |] eqn:T; try discriminate.
    destruct (shift_all oc I delta txs r0) as [[l r1]| |] eqn:A; try discriminate. inversion H; subst.
    destruct (shift_tx_ok _ _ _ _ Hd Ht T) as [Hok Hwf'].
    destruct (IH _ _ _ Hd Hrest A) as (Hall & Hwfl & pre' & He').
    split; [cbn [forall2b]; rewrite Hok, Hall; reflexivity|]. split; [constructor; assumption|].
    assert (Hpre : exists pre, ws = pre ++ r0).
    { clear - T. destruct t as [[[[st tr] sched] ex] an]. unfold shift_tx in T.
      destruct ((st =? 3) || (st =? 4)); [inversion T; exists []; reflexivity|].
      destruct ((st =? 0) || (st =? 1)); [|inversion T; exists []; reflexivity].
      destruct tr; [|inversion T; exists []; reflexivity]. destruct an as [prior|]; [|inversion T; exists []; reflexivity].
      destruct (redraw_anchor_boundary oc I prior (sat_add_u32 sched delta) ws) as [[[fresh|] r1]| |] eqn:R; try discriminate.
      - inversion T; subst. unfold redraw_anchor_boundary in R.
        destruct (checked_sub_u32 (boundary_at_or_below I (sat_add_u32 sched delta)) I) as [hi|]; [|discriminate].
        destruct (hi <? boundary_at_or_above I prior); [discriminate|].
        destruct (sample_boundary oc I (boundary_at_or_above I prior) hi (boundary_at_or_below I (sat_add_u32 sched delta)) ws) as [[c r2]| |] eqn:S; try discriminate.
        inversion R; subst. unfold sample_boundary in S. apply sample_go_spec in S; [|lia].
        destruct S as (_ & _ & pre & _ & He). exists pre. exact He.
      - inversion T; subst. unfold redraw_anchor_boundary in R.
        destruct (checked_sub_u32 (boundary_at_or_below I (sat_add_u32 sched delta)) I) as [hi|]; [|inversion R; exists []; reflexivity].
        destruct (hi <? boundary_at_or_above I prior); [inversion R; exists []; reflexivity|].
        destruct (sample_boundary oc I (boundary_at_or_above I prior) hi (boundary_at_or_below I (sat_add_u32 sched delta)) ws) as [[c r2]| |]; discriminate. }
    destruct Hpre as [pre He]. exists (pre ++ pre'). rewrite He, He', app_assoc. reflexivity.
Qed.

End Shift.

(** * the overdue re-spread as [advance_migration] applies it *)
Lemma tolerance_eq I : overdue_tolerance I = tolerance_spec I.
Proof.
  unfold overdue_tolerance, tolerance_spec, scale_delay. cbv zeta.
  set (m := TRANSFER_DELAY_MEAN * I / ZIP318_INTERVAL).
  destruct (m <=? u32_max) eqn:E.
  - destruct (m =? 0) eqn:E0; [lia|]. rewrite Z.min_l by lia. lia.
  - replace (m =? 0) with false by (unfold u32_max in *; lia). rewrite Z.min_r by lia. lia.
Qed.

Lemma tx_same_refl t : tx_same t t = true.
Proof. destruct t as [[[[st tr] sched] ex] an]. unfold tx_same. rewrite !Z.eqb_refl, eqb_reflx, oz_eq_refl. reflexivity. Qed.

Lemma forall2b_same_refl l : forall2b tx_same l l = true.
Proof. induction l as [|t l IH]; cbn [forall2b]; [reflexivity|]. rewrite tx_same_refl, IH. reflexivity. Qed.

Lemma advance_overdue_ok oc I served pre ws post r :
  0 < I <= u32_max -> Forall stx_wf pre ->
  match pre with (_, _, s0, _, _) :: _ => s0 <= served | [] => True end ->
  advance_overdue oc I served pre ws = Ok (post, r) ->
  shift_ok I served pre post = true /\ Forall stx_wf post /\ exists p, ws = p ++ r.
Proof.
  intros HI Hwf Hs H. unfold advance_overdue in H. unfold shift_ok.
  destruct pre as [|[[[[st0 tr0] s0] ex0] an0] rest].
  - inversion H; subst. split; [reflexivity|]. split; [constructor | exists []; reflexivity].
  - rewrite <- tolerance_eq. unfold sat_add_u32 in H.
    destruct (Z.min u32_max (s0 + overdue_tolerance I) <? served) eqn:L.
    + apply (shift_all_ok oc I (served - s0) HI) in H; [exact H | lia | exact Hwf].
    + inversion H; subst. split; [apply forall2b_same_refl|]. split; [exact Hwf | exists []; reflexivity].
Qed.

(** * sequences of shifts: a boundary never moves down, however many late wake-ups follow *)
Definition anchor_le (p q : stx) : Prop :=
  match snd p, snd q with
  | Some a, Some b => a <= b
  | None, None => True
  | _, _ => False
  end.

Lemma tx_shift_ok_anchor_le I delta p q : tx_shift_ok I delta p q = true -> anchor_le p q.
Proof.
  destruct p as [[[[st tr] sched] ex] an], q as [[[[st' tr'] sched'] ex'] an']. unfold tx_shift_ok, anchor_le. cbn [snd].
  rewrite !andb_true_iff. intros [_ H].
  assert (Hoz : oz_eq an' an = true -> match an, an' with Some a, Some b => a <= b | None, None => True | _, _ => False end).
  { destruct an, an'; cbn; intros; try discriminate; try exact Logic.I; lia. }
  destruct ((st =? 3) || (st =? 4)); [apply andb_true_iff in H; tauto|].
  apply andb_true_iff in H. destruct H as [_ H].
  destruct (((st =? 0) || (st =? 1)) && tr); [|tauto].
  destruct an, an'; try discriminate; try exact Logic.I. apply andb_true_iff in H. lia.
Qed.

Lemma forall2b_anchor_le I delta : forall l l', forall2b (tx_shift_ok I delta) l l' = true -> Forall2 anchor_le l l'.
Proof.
  induction l as [|p l IH]; intros [|q l'] H; cbn [forall2b] in H; try discriminate; constructor.
  - apply andb_true_iff in H. eapply tx_shift_ok_anchor_le. apply H.
  - apply andb_true_iff in H. apply IH. apply H.
Qed.

Fixpoint shift_seq (oc : bool) (I : Z) (deltas : list Z) (txs : list stx) (ws : list Z) : draw (list stx) :=
  match deltas with
  | [] => Ok (txs, ws)
  | d :: rest =>
      match shift_all oc I d txs ws with
      | Ok (txs', r) => shift_seq oc I rest txs' r
      | _ => Panic
      end
  end.

Lemma anchor_le_refl t : anchor_le t t.
Proof. unfold anchor_le. destruct (snd t); [lia | exact Logic.I]. Qed.

Lemma anchor_le_trans a b c : anchor_le a b -> anchor_le b c -> anchor_le a c.
Proof. unfold anchor_le. destruct (snd a), (snd b), (snd c); try tauto; lia. Qed.

Lemma Forall2_anchor_trans : forall l1 l2 l3, Forall2 anchor_le l1 l2 -> Forall2 anchor_le l2 l3 -> Forall2 anchor_le l1 l3.
Proof.
  induction l1 as [|a l1 IH]; intros l2 l3 H12 H23; inversion H12; subst; inversion H23; subst; constructor.
  - eapply anchor_le_trans; eassumption.
  - eapply IH; eassumption.
Qed.

Lemma shift_seq_anchor_monotone oc I : 0 < I <= u32_max -> forall deltas txs ws post r,
  Forall (fun d => 0 <= d) deltas -> Forall stx_wf txs ->
  shift_seq oc I deltas txs ws = Ok (post, r) -> Forall2 anchor_le txs post /\ Forall stx_wf post.
Proof.
  intros HI. induction deltas as [|d rest IH]; intros txs ws post r Hd Hwf H; cbn [shift_seq] in H.
  - inversion H; subst. split; [|exact Hwf]. clear. induction post; constructor; [apply anchor_le_refl | assumption].
  - inversion Hd; subst.
    destruct (shift_all oc I d txs ws) as [[txs' r0]| |] eqn:A; try discriminate.
    destruct (shift_all_ok oc I d HI _ _ _ _ ltac:(assumption) Hwf A) as (Hok & Hwf' & _).
    destruct (IH _ _ _ _ ltac:(assumption) Hwf' H) as [Hle Hwfp].
    split; [|exact Hwfp]. eapply Forall2_anchor_trans; [eapply forall2b_anchor_le; exact Hok | exact Hle].
Qed.
