(** C17 — proofs: the Fisher–Yates shuffle is a permutation; delays and cumulative heights. *)
From Coq Require Import ZifyBool Permutation Sorted.
From V.Lib Require Import Base MachInt.
From V.Gen Require Import C17Consts.
From V.C17 Require Import Model Spec ProofsArith.
Local Open Scope Z_scope.

(** * swap *)
Lemma upd_perm {A} (r : list A) : forall j a b, nth_error r j = Some b -> Permutation (b :: upd r j a) (a :: r).
Proof.
  induction r as [|y r IH]; intros [|j] a b H; simpl in *; try discriminate.
  - inversion H; subst. apply perm_swap.
  - eapply perm_trans; [apply perm_swap|].
    eapply perm_trans; [apply perm_skip, (IH j a b H)|]. apply perm_swap.
Qed.

Lemma upd_length {A} (l : list A) : forall i x, length (upd l i x) = length l.
Proof. induction l; intros [|i] x; simpl; auto. Qed.

Lemma swap_perm {A} (l : list A) : forall i j, Permutation (swap l i j) l.
Proof.
  unfold swap. induction l as [|x l IH]; intros i j.
  - destruct i; reflexivity.
  - destruct i as [|i], j as [|j]; cbn [nth_error].
    + simpl. reflexivity.
    + destruct (nth_error l j) as [b|] eqn:Ej; [|reflexivity]. cbn [upd].
      apply upd_perm. exact Ej.
    + destruct (nth_error l i) as [a|] eqn:Ei; [|reflexivity]. cbn [upd].
      apply upd_perm. exact Ei.
    + specialize (IH i j). destruct (nth_error l i) as [a|]; [|reflexivity].
      destruct (nth_error l j) as [b|]; [|reflexivity]. cbn [upd]. apply perm_skip. exact IH.
Qed.

(** * shuffle *)
Lemma shuffle_go_perm {A} : forall i (l : list A) ws l' r,
  shuffle_go i l ws = Ok (l', r) -> Permutation l' l.
Proof.
  induction i as [|i IH]; intros l ws l' r H; cbn [shuffle_go] in H.
  - inversion H; subst. reflexivity.
  - destruct (gen_index ws (Z.of_nat (S i) + 1)) as [[j r0]| |]; try discriminate.
    apply IH in H. eapply perm_trans; [exact H | apply swap_perm].
Qed.

Lemma shuffle_perm {A} (l : list A) ws l' r :
  shuffle_in_place l ws = Ok (l', r) -> Permutation l' l.
Proof.
  unfold shuffle_in_place. destruct (length l <? 2)%nat.
  - intros H; inversion H; subst. reflexivity.
  - apply shuffle_go_perm.
Qed.

Lemma shuffle_indices_perm n ws l' r :
  shuffle_indices n ws = Ok (l', r) -> Permutation l' (iota n 0).
Proof. apply shuffle_perm. Qed.

Lemma iota_spec n : forall from x, In x (iota n from) <-> from <= x < from + Z.of_nat n.
Proof.
  induction n as [|n IH]; intros from x; cbn [iota In]; [lia|].
  rewrite IH. lia.
Qed.

Lemma iota_nodup n : forall from, NoDup (iota n from).
Proof.
  induction n as [|n IH]; intros from; cbn [iota]; constructor; [|apply IH].
  rewrite iota_spec. lia.
Qed.

(** every index 0..n-1 occurs exactly once in the result *)
Lemma shuffle_indices_bijection n ws l' r :
  shuffle_indices n ws = Ok (l', r) ->
  NoDup l' /\ length l' = n /\ forall x, In x l' <-> 0 <= x < Z.of_nat n.
Proof.
  intros H. apply shuffle_indices_perm in H. split; [|split].
  - eapply Permutation_NoDup; [symmetry; exact H | apply iota_nodup].
  - rewrite (Permutation_length H). clear. generalize 0. induction n; intros; simpl; auto.
  - intros x. rewrite <- (iota_spec n 0 x). split; apply Permutation_in; [exact H | symmetry; exact H].
Qed.

(** the stream is only consumed, never rewound: the unread rest is a suffix *)
Lemma shuffle_go_suffix {A} : forall i (l : list A) ws l' r, Forall u64w ws ->
  shuffle_go i l ws = Ok (l', r) -> exists pre, ws = pre ++ r /\ (i <= length pre)%nat.
Proof.
  induction i as [|i IH]; intros l ws l' r Hw H; cbn [shuffle_go] in H.
  - inversion H; subst. exists []. split; [reflexivity | simpl; lia].
  - destruct (gen_index ws (Z.of_nat (S i) + 1)) as [[j r0]| |] eqn:G; try discriminate.
    destruct (gen_index_lt_bound _ _ _ _ Hw G) as [_ [pre [Hp He]]].
    assert (Hw0 : Forall u64w r0). { rewrite He in Hw. apply Forall_app in Hw. tauto. }
    destruct (IH _ _ _ _ Hw0 H) as [pre' [He' Hl]].
    exists (pre ++ pre'). split; [rewrite He, He', app_assoc; reflexivity|].
    rewrite app_length. destruct pre; [congruence | simpl; lia].
Qed.

(** * delays *)
Lemma delay_le_cap cap ds d r : delay_draw cap ds = Ok (d, r) ->
  d <= cap /\ exists pre, ds = pre ++ d :: r /\ Forall (fun x => cap < x) pre.
Proof.
  induction ds as [|x ds IH]; cbn [delay_draw]; [discriminate|].
  destruct (x <=? cap) eqn:E; intros H.
  - inversion H; subst. split; [lia|]. exists []. split; [reflexivity | constructor].
  - destruct (IH H) as [Hd [pre [He Hp]]]. split; [exact Hd|].
    exists (x :: pre). split; [rewrite He; reflexivity | constructor; [lia | exact Hp]].
Qed.

Lemma delay_in cap ds d r : delay_draw cap ds = Ok (d, r) -> In d ds.
Proof.
  intros H. destruct (delay_le_cap _ _ _ _ H) as [_ [pre [He _]]]. rewrite He. apply in_or_app. right. left. reflexivity.
Qed.

Lemma delay_rest cap ds d r : Forall (fun x => 0 <= x) ds -> delay_draw cap ds = Ok (d, r) ->
  0 <= d /\ Forall (fun x => 0 <= x) r.
Proof.
  intros Hp H. destruct (delay_le_cap _ _ _ _ H) as [_ [pre [He _]]]. rewrite He in Hp.
  apply Forall_app in Hp. destruct Hp as [_ Hp]. inversion Hp; subst. tauto.
Qed.

(** * cumulative heights *)
(** heights never decrease from the commit height, every step is a delay within the cap, and
    nothing wraps: the running height saturates at u32::MAX *)
Lemma heights_steps cap : forall n h ds hs r, Forall (fun x => 0 <= x) ds -> h <= u32_max ->
  cumulative_heights cap n h ds = Ok (hs, r) ->
  length hs = n /\ steps_ok cap h hs = true.
Proof.
  induction n as [|n IH]; intros h ds hs r Hp Hh H; cbn [cumulative_heights] in H.
  - inversion H; subst. split; reflexivity.
  - destruct (delay_draw cap ds) as [[d r0]| |] eqn:D; try discriminate.
    destruct (cumulative_heights cap n (sat_add_u32 h d) r0) as [[hs0 r1]| |] eqn:C; try discriminate.
    inversion H; subst. destruct (delay_le_cap _ _ _ _ D) as [Hd _].
    destruct (delay_rest _ _ _ _ Hp D) as [Hd0 Hr0].
    assert (Hs : sat_add_u32 h d <= u32_max) by (unfold sat_add_u32; lia).
    destruct (IH _ _ _ _ Hr0 Hs C) as [Hl Hst].
    split; [simpl; congruence|]. cbn [steps_ok]. rewrite Hst.
    unfold sat_add_u32 in *. lia.
Qed.

Lemma steps_sorted cap : forall hs h, 0 <= cap -> steps_ok cap h hs = true -> StronglySorted Z.le (h :: hs).
Proof.
  induction hs as [|x hs IH]; intros h Hc H; cbn [steps_ok] in H.
  - constructor; constructor.
  - rewrite !andb_true_iff in H. destruct H as [[[H1 H2] H3] H4].
    specialize (IH x Hc H4). constructor.
    + exact IH.
    + constructor; [lia|]. inversion IH as [|? ? _ Hall]; subst.
      eapply Forall_impl; [|exact Hall]. intros; cbv beta in *; lia.
Qed.

Lemma heights_monotone cap n commit ds hs r :
  Forall (fun x => 0 <= x) ds -> 0 <= cap -> commit <= u32_max ->
  cumulative_heights cap n commit ds = Ok (hs, r) ->
  StronglySorted Z.le (commit :: hs).
Proof.
  intros Hp Hc Hh H. destruct (heights_steps _ _ _ _ _ _ Hp Hh H) as [_ Hs].
  eapply steps_sorted; eauto.
Qed.

Lemma steps_bounded cap : forall hs h, steps_ok cap h hs = true -> Forall (fun x => x <= u32_max) hs.
Proof.
  induction hs as [|x hs IH]; intros h H; cbn [steps_ok] in H; constructor.
  - rewrite !andb_true_iff in H. lia.
  - rewrite !andb_true_iff in H. apply (IH x). tauto.
Qed.

Lemma heights_saturate cap n commit ds hs r :
  Forall (fun x => 0 <= x) ds -> commit <= u32_max ->
  cumulative_heights cap n commit ds = Ok (hs, r) -> Forall (fun x => commit <= x <= u32_max) hs.
Proof.
  intros Hp Hh H. destruct (heights_steps _ _ _ _ _ _ Hp Hh H) as [_ Hs].
  pose proof (steps_bounded _ _ _ Hs) as Hb.
  assert (G : forall hs h, steps_ok cap h hs = true -> Forall (fun x => h <= x) hs).
  { clear. induction hs as [|x hs IH]; intros h H; cbn [steps_ok] in H; constructor.
    - rewrite !andb_true_iff in H. lia.
    - rewrite !andb_true_iff in H. destruct H as [[[H1 _] _] H4].
      eapply Forall_impl; [|apply (IH x H4)]. intros; cbv beta in *; lia. }
  specialize (G _ _ Hs). rewrite Forall_forall in *. intros x Hx. split; [apply G | apply Hb]; assumption.
Qed.

(** schedule: every expiry is the canonical expiry of its broadcast height *)
Lemma schedule_expiry_canonical cap n commit ds l r :
  schedule cap n commit ds = Ok (l, r) ->
  Forall (fun p => snd p = expiry_spec (fst p)) l /\
  cumulative_heights cap n commit ds = Ok (map fst l, r).
Proof.
  unfold schedule. destruct (cumulative_heights cap n commit ds) as [[hs r0]| |]; try discriminate.
  intros H; inversion H; subst. split.
  - apply Forall_forall. intros p Hp. apply in_map_iff in Hp. destruct Hp as [h [<- _]]. simpl. apply expiry_canonical.
  - rewrite map_map. simpl. rewrite map_id. reflexivity.
Qed.
