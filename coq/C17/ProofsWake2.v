(** C17 — wake-ups, continued: jitter bound, height range, complete outcome characterisation
    (the schedule fails only by running out of words), and correctness of the brute-force
    minimal-piercing checker of Spec.v against the schedule. *)
From Coq Require Import ZifyBool Permutation Sorted.
From V.Lib Require Import Base MachInt.
From V.Gen Require Import C17Consts.
From V.C17 Require Import Model Spec ProofsArith ProofsPerm ProofsWake.
Local Open Scope Z_scope.

(** * the group maximum is attained *)
Definition gmax (g : group) : Prop := exists w, In w (covers g) /\ w_ready w = max_ready g.

Lemma greedy_gmax : forall ws g, gmax g -> Forall gmax (greedy g ws).
Proof.
  induction ws as [|w ws IH]; intros g Hg; cbn [greedy]; [constructor; [exact Hg | constructor]|].
  destruct (w_ready w <=? first_deadline g).
  - apply IH. destruct Hg as (x & Hx & Ex). unfold gmax; cbn [covers max_ready].
    destruct (Z_le_gt_dec (w_ready w) (max_ready g)).
    + exists x. split; [apply in_or_app; left; exact Hx | lia].
    + exists w. split; [apply in_or_app; right; left; reflexivity | lia].
  - constructor; [exact Hg|]. apply IH. exists w. split; [left; reflexivity | reflexivity].
Qed.

Lemma groups_of_gmax ws : Forall gmax (groups_of ws).
Proof.
  destruct ws as [|w ws]; cbn [groups_of]; [constructor|]. apply greedy_gmax.
  exists w. split; [left; reflexivity | reflexivity].
Qed.

Lemma groups_of_length ws : (length (groups_of ws) <= length ws)%nat.
Proof.
  assert (G : forall ws g, (length (greedy g ws) <= S (length ws))%nat).
  { induction ws0 as [|w ws0 IH]; intros g; cbn [greedy]; [simpl; lia|].
    destruct (w_ready w <=? first_deadline g); [specialize (IH (mkGroup (first_deadline g) (Z.max (max_ready g) (w_ready w)) (covers g ++ [w]))); simpl; lia|].
    specialize (IH (mkGroup (w_deadline w) (w_ready w) [w])). simpl. lia. }
  destruct ws as [|w ws]; cbn [groups_of]; [simpl; lia|]. apply G.
Qed.

(** * a stream extended by all-ones words never runs dry *)
Definition ones (n : nat) : list Z := repeat (two64 - 1) n.

Lemma ones_u64w n : Forall u64w (ones n).
Proof. apply Forall_forall. intros x Hx. apply repeat_spec in Hx. subst. unfold u64w, two64. lia. Qed.

Lemma gen_index_go_ext bound : 0 < bound <= 2 ^ 63 -> forall ws n,
  exists j ws' n', gen_index_go bound (ws ++ ones (S n)) = Ok (j, ws' ++ ones n') /\ (n <= n')%nat.
Proof.
  intros Hb. induction ws as [|w ws IH]; intros n.
  - cbn [app ones repeat].
    pose proof (gen_index_max_word bound (ones n) Hb) as G. unfold gen_index in G.
    replace (bound <=? 0) with false in G by lia. fold (ones n).
    exists (bound - 1), [], n. split; [exact G | lia].
  - cbn [app gen_index_go].
    destruct (bound <=? (w * bound) mod two64) eqn:E1.
    + exists (w * bound / two64), ws, (S n). split; [reflexivity | lia].
    + destruct ((two64 - bound) mod bound <=? (w * bound) mod two64) eqn:E2.
      * exists (w * bound / two64), ws, (S n). split; [reflexivity | lia].
      * apply IH.
Qed.

(** emission succeeds on every stream once enough all-ones words are appended: the arithmetic
    never panics on well-formed groups, so [Panic] can only mean "ran out of words" *)
Lemma emit_ext jc : 0 <= jc <= u32_max -> forall gs ws n,
  Forall gwf gs -> Forall (fun g => first_deadline g <= u32_max) gs -> Forall u64w ws ->
  (length gs <= n)%nat ->
  exists l r, emit jc gs (ws ++ ones n) = Ok (l, r).
Proof.
  intros Hjc. induction gs as [|g gs IH]; intros ws n Hg Hd Hw Hn; cbn [emit]; [eauto|].
  inversion Hg as [|? ? Hg0 Hg']; subst. inversion Hd as [|? ? Hd0 Hd']; subst.
  destruct Hg0 as (_ & _ & Hmr).
  replace (first_deadline g <? max_ready g) with false by lia.
  set (bound := Z.min jc (first_deadline g - max_ready g)).
  destruct (bound =? 0) eqn:B.
  - replace (u32_max <? max_ready g + 0) with false by lia.
    destruct (IH ws n Hg' Hd' Hw ltac:(simpl in Hn; lia)) as (l & r & E). rewrite E. eauto.
  - destruct n as [|n]; [simpl in Hn; lia|].
    assert (Hb : 0 < bound + 1 <= 2 ^ 63) by (unfold bound, u32_max in *; lia).
    destruct (gen_index_go_ext (bound + 1) Hb ws n) as (j & ws' & n' & G & Hn').
    assert (G' : gen_index (ws ++ ones (S n)) (bound + 1) = Ok (j, ws' ++ ones n')).
    { unfold gen_index. replace (bound + 1 <=? 0) with false by lia. exact G. }
    assert (Hall : Forall u64w (ws ++ ones (S n))) by (apply Forall_app; split; [exact Hw | apply ones_u64w]).
    destruct (gen_index_lt_bound _ _ _ _ Hall G') as [Hj [pre [_ He]]].
    assert (Hw' : Forall u64w ws').
    { rewrite He in Hall. apply Forall_app in Hall. destruct Hall as [_ Hall]. apply Forall_app in Hall. tauto. }
    rewrite G'. replace (u32_max <? max_ready g + j) with false by (unfold bound in Hj; lia).
    destruct (IH ws' n' Hg' Hd' Hw' ltac:(simpl in Hn; lia)) as (l & r & E). rewrite E. eauto.
Qed.

Lemma filter_len_le {A} (p : A -> bool) l : (length (filter p l) <= length l)%nat.
Proof. induction l as [|x l IH]; simpl; [lia|]. destruct (p x); simpl; lia. Qed.

Section More.
Variables margin0 jc tip : Z.
Variable ts : list (Z * Z * Z).
Hypothesis Hjc : 0 <= jc <= u32_max.
Hypothesis Hts : Forall (fun t => snd t <= u32_max) ts.
Hypothesis Htip : tip <= u32_max.

Let W := map (win_of tip (Z.max margin0 1)) ts.
Let ov := filter (overdueb tip) W.
Let sorted := sort_windows (filter (fun w => negb (overdueb tip w)) W).
Let at_tip (w : win) : bool := w_ready w =? tip.
Let surviving := filter (fun w => negb (at_tip w)) sorted.

Lemma W_deadline_bound w : In w W -> w_deadline w <= u32_max - 1.
Proof.
  unfold W. intros Hin. apply in_map_iff in Hin. destruct Hin as (t & <- & Ht).
  rewrite Forall_forall in Hts. specialize (Hts t Ht).
  destruct (win_of_fields tip margin0 t) as (_ & Ed & _). cbv zeta in Ed. rewrite Ed. unfold t_deadline. lia.
Qed.

Lemma groups_deadline_bound l :
  (forall w, In w l -> In w W) -> Forall gwf (groups_of l) -> concat (map covers (groups_of l)) = l ->
  Forall (fun g => first_deadline g <= u32_max) (groups_of l).
Proof.
  intros Hsub Hg Hc. apply Forall_forall. intros g Hin. rewrite Forall_forall in Hg.
  destruct (Hg g Hin) as ((o & rest & Ec & Ed) & _ & _). rewrite <- Ed.
  assert (In o W).
  { apply Hsub. rewrite <- Hc. apply in_concat. exists (covers g). split; [apply in_map; exact Hin | rewrite Ec; left; reflexivity]. }
  pose proof (W_deadline_bound o H). lia.
Qed.

Lemma sorted_sub w : In w sorted -> In w W.
Proof. intros H. apply (sorted_in margin0 tip ts) in H. tauto. Qed.

Lemma sorted_length : (length sorted <= length ts)%nat.
Proof.
  unfold sorted. rewrite (Permutation_length (sort_perm _)).
  eapply Nat.le_trans; [apply filter_len_le|]. unfold W. rewrite map_length. lia.
Qed.

(** TOTAL: a feasible input always gets a schedule once the stream is long enough; together
    with [wakeups_infeasible_iff] this is the complete outcome characterisation:
    [Err id] iff [id] is the first infeasible transfer; otherwise [Ok], or [Panic] only because
    the generator ran dry. *)
Lemma wakeups_total ws :
  first_infeasible ts = None -> Forall u64w ws ->
  exists wk r, schedule_sync_wakeups margin0 jc tip ts (ws ++ ones (length ts)) = Ok (wk, r).
Proof.
  intros Hfeas Hws. unfold schedule_sync_wakeups, wakeups_ann.
  destruct (assemble tip (Z.max margin0 1) ts) as [[ov0 wins]|e|] eqn:A.
  - destruct (assemble_ok _ _ _ _ _ A) as (E1 & E2 & _). fold W in E1, E2. fold ov in E1. subst ov0 wins. fold sorted.
    destruct (groups_sorted_spec margin0 tip ts) as (G1 & _ & G3). fold W in G1, G3. fold sorted in G1, G3.
    destruct (groups_surviving_spec margin0 tip ts) as (S1 & _ & S3). cbv zeta in S1, S3. fold W in S1, S3. fold sorted in S1, S3.
    destruct ov as [|o ov'] eqn:Eo.
    + destruct (emit_ext jc Hjc (groups_of sorted) ws (length ts) G1) as (l & r & E).
      * apply groups_deadline_bound; [exact sorted_sub | exact G1 | exact G3].
      * exact Hws.
      * eapply Nat.le_trans; [apply groups_of_length | apply sorted_length].
      * rewrite E. eauto.
    + destruct (emit_ext jc Hjc (groups_of (filter (fun w => negb (w_ready w =? tip)) sorted)) ws (length ts) S1) as (l & r & E).
      * apply groups_deadline_bound; [intros w Hw; apply filter_In in Hw; apply sorted_sub; tauto | exact S1 | exact S3].
      * exact Hws.
      * eapply Nat.le_trans; [apply groups_of_length|]. eapply Nat.le_trans; [apply filter_len_le | apply sorted_length].
      * rewrite E. eauto.
  - exfalso. assert (H : first_infeasible ts = Some e).
    { apply first_infeasible_iff. apply (assemble_err tip (Z.max margin0 1)). exact A. }
    congruence.
  - exfalso. exact (assemble_never_panics _ _ _ A).
Qed.

End More.

(** * jitter and the shifted piercing set *)
Lemma emitted_jitter jc : forall gs l,
  Forall gmax gs -> Forall2 (emitted jc) gs l ->
  Forall (fun p => exists w, In w (snd p) /\ fst p - w_ready w <= jc) l.
Proof.
  induction gs as [|g gs IH]; intros l Hm F2; inversion F2 as [|? p ? l' Hp F2']; subst; constructor.
  - inversion Hm as [|? ? (w & Hw & Ew) _]; subst. destruct Hp as (Es & _ & Hj).
    exists w. rewrite Es. split; [exact Hw | lia].
  - inversion Hm; subst. apply IH; assumption.
Qed.

Section Ann.
Variables margin0 jc tip : Z.
Variable ts : list (Z * Z * Z).
Variable ws : list Z.
Hypothesis Hjc : 0 <= jc.
Hypothesis Hws : Forall u64w ws.
Variable l : list (Z * list win).
Variable r : list Z.
Hypothesis Hl : wakeups_ann margin0 jc tip ts ws = Ok (l, r).

Let W := map (win_of tip (Z.max margin0 1)) ts.

Lemma wakeups_jitter : Forall (fun p => exists w, In w (snd p) /\ fst p - w_ready w <= jc) l.
Proof.
  destruct (wakeups_ann_inv _ _ _ _ _ _ _ Hl) as (l0 & [(Eo & Ewk & E)|(Eo & Ewk & E)]); subst l.
  - destruct (groups_sorted_spec margin0 tip ts) as (G1 & _ & _).
    destruct (emit_spec jc Hjc _ _ _ _ G1 Hws E) as [F2 _].
    eapply emitted_jitter; [apply groups_of_gmax | exact F2].
  - destruct (groups_surviving_spec margin0 tip ts) as (G1 & _ & _). cbv zeta in G1.
    destruct (emit_spec jc Hjc _ _ _ _ G1 Hws E) as [F2 _].
    constructor; [|eapply emitted_jitter; [apply groups_of_gmax | exact F2]].
    cbn [fst snd].
    match goal with |- exists w, In w (?o ++ _) /\ _ => destruct o as [|w0 o'] eqn:Eov; [congruence|] end.
    exists w0. split; [left; reflexivity|].
    assert (Hin : In w0 (filter (overdueb tip) W)) by (unfold W; rewrite Eov; left; reflexivity).
    apply filter_In in Hin. destruct Hin as [Hin Ho].
    rewrite (W_overdue margin0 tip ts w0 Hin Ho). lia.
Qed.

(** replacing every group's height by the group's first deadline (and keeping the tip for the
    immediate wake-up) gives a piercing set of the same size drawn from the deadlines and the tip *)
Lemma shifted_piercing :
  exists S', length S' = length l /\ pierces_w margin0 tip ts S' /\
             incl S' (tip :: map (fun t => t_deadline (snd t)) ts).
Proof.
  assert (Hdl : forall w, In w W -> In (w_deadline w) (map (fun t => t_deadline (snd t)) ts)).
  { intros w Hw. unfold W in Hw. apply in_map_iff in Hw. destruct Hw as (t & <- & Ht).
    destruct (win_of_fields tip margin0 t) as (_ & Ed & _). cbv zeta in Ed. rewrite Ed. apply in_map_iff. exists t. tauto. }
  assert (Hgrp : forall gs sub, (forall w, In w sub -> In w W) -> Forall gwf gs -> concat (map covers gs) = sub ->
            incl (map first_deadline gs) (map (fun t => t_deadline (snd t)) ts) /\
            forall w, In w sub -> exists s, In s (map first_deadline gs) /\ w_ready w <= s <= w_deadline w).
  { intros gs sub Hsub Hg Hc. rewrite Forall_forall in Hg. split.
    - intros s Hs. apply in_map_iff in Hs. destruct Hs as (g & <- & Hgin).
      destruct (Hg g Hgin) as ((o & rest & Ec & Ed) & _ & _). rewrite <- Ed. apply Hdl. apply Hsub.
      rewrite <- Hc. apply in_concat. exists (covers g). split; [apply in_map; exact Hgin | rewrite Ec; left; reflexivity].
    - intros w Hw. rewrite <- Hc in Hw. apply in_concat in Hw. destruct Hw as (c & Hcin & Hwc).
      apply in_map_iff in Hcin. destruct Hcin as (g & <- & Hgin).
      destruct (Hg g Hgin) as (_ & Hcov & Hmr). rewrite Forall_forall in Hcov. specialize (Hcov w Hwc).
      exists (first_deadline g). split; [apply in_map; exact Hgin | lia]. }
  destruct (wakeups_ann_inv _ _ _ _ _ _ _ Hl) as (l0 & [(Eo & Ewk & E)|(Eo & Ewk & E)]); subst l.
  - destruct (groups_sorted_spec margin0 tip ts) as (G1 & _ & G3).
    destruct (emit_spec jc Hjc _ _ _ _ G1 Hws E) as [F2 _].
    match type of G3 with concat (map covers (groups_of ?s)) = _ => set (sorted := s) in * end.
    destruct (Hgrp (groups_of sorted) sorted) as [Hincl Hp]; [intros w Hw; apply (sorted_in margin0 tip ts) in Hw; tauto | exact G1 | exact G3 |].
    exists (map first_deadline (groups_of sorted)). split; [rewrite map_length; apply (Forall2_len _ _ _ F2)|]. split.
    + unfold pierces_w. apply Forall_forall. intros w Hw. fold W in Hw.
      destruct (w_deadline w <? tip) eqn:O.
      * exfalso. assert (In w (filter (overdueb tip) W)) by (apply filter_In; split; [exact Hw | exact O]).
        fold W in Eo. rewrite Eo in H. destruct H.
      * apply Hp. apply (sorted_in margin0 tip ts). split; [exact Hw | exact O].
    + intros s Hs. right. apply Hincl. exact Hs.
  - destruct (groups_surviving_spec margin0 tip ts) as (G1 & _ & G3). cbv zeta in G1, G3.
    destruct (emit_spec jc Hjc _ _ _ _ G1 Hws E) as [F2 _].
    match type of G3 with concat (map covers (groups_of ?s)) = _ => set (sv := s) in * end.
    destruct (Hgrp (groups_of sv) sv) as [Hincl Hp]; [intros w Hw; apply filter_In in Hw; destruct Hw as [Hw _]; apply (sorted_in margin0 tip ts) in Hw; tauto | exact G1 | exact G3 |].
    exists (tip :: map first_deadline (groups_of sv)). split; [cbn [length]; rewrite map_length, (Forall2_len _ _ _ F2); reflexivity|]. split.
    + unfold pierces_w. apply Forall_forall. intros w Hw. fold W in Hw.
      destruct (w_deadline w <? tip) eqn:O; [left; reflexivity|].
      destruct (w_ready w =? tip) eqn:T.
      * exists tip. split; [left; reflexivity|].
        pose proof (W_nonoverdue margin0 tip ts w Hw O). lia.
      * destruct (Hp w) as (s & Hs & Hr).
        { unfold sv. apply filter_In. split; [apply (sorted_in margin0 tip ts); split; [exact Hw | exact O] | rewrite T; reflexivity]. }
        exists s. split; [right; exact Hs | exact Hr].
    + intros s [<-|Hs]; [left; reflexivity | right; apply Hincl; exact Hs].
Qed.

End Ann.

(** * the boolean piercing test and the brute-force optimum *)
Lemma pierces_complete m0 tip ts S : pierces_w m0 tip ts S -> pierces m0 tip ts S = true.
Proof.
  unfold pierces, pierces_w. rewrite Forall_forall. intros H. apply forallb_forall. intros t Ht.
  specialize (H (win_of tip (Z.max m0 1) t) (in_map _ _ _ Ht)).
  destruct (win_of_fields tip m0 t) as (_ & Ed & Er). cbv zeta in *. rewrite Ed, Er in H.
  destruct (t_deadline (snd t) <? tip).
  - apply existsb_exists. exists tip. split; [exact H | apply Z.eqb_refl].
  - destruct H as (s & Hs & Hr). apply existsb_exists. exists s. split; [exact Hs | lia].
Qed.

Lemma pierces_incl m0 tip ts S S' : incl S S' -> pierces m0 tip ts S = true -> pierces m0 tip ts S' = true.
Proof.
  intros Hi H. apply pierces_complete. apply pierces_sound in H. unfold pierces_w in *.
  eapply Forall_impl; [|exact H]. intros w Hw. cbv beta in *. destruct (w_deadline w <? tip).
  - apply Hi. exact Hw.
  - destruct Hw as (s & Hs & Hr). exists s. split; [apply Hi; exact Hs | exact Hr].
Qed.

Inductive subseq {A} : list A -> list A -> Prop :=
| subseq_nil : subseq [] []
| subseq_take x s l : subseq s l -> subseq (x :: s) (x :: l)
| subseq_skip x s l : subseq s l -> subseq s (x :: l).

Lemma filter_subseq {A} (p : A -> bool) l : subseq (filter p l) l.
Proof. induction l as [|x l IH]; cbn [filter]; [constructor|]. destruct (p x); constructor; exact IH. Qed.

Lemma omin_le a b k : omin a b = Some k ->
  (a = Some k \/ b = Some k) /\ (forall x, a = Some x -> (k <= x)%nat) /\ (forall y, b = Some y -> (k <= y)%nat).
Proof.
  destruct a as [x|], b as [y|]; cbn; intros H; inversion H; subst.
  - split; [destruct (Nat.min_dec x y) as [E|E]; rewrite E; auto|]. split; intros ? E; inversion E; subst; lia.
  - split; [auto|]. split; intros ? E; inversion E; subst; lia.
  - split; [auto|]. split; intros ? E; inversion E; subst; lia.
Qed.

(** whatever the brute force returns is the size of an actual piercing set *)
Lemma best_sound m0 tip ts : forall cands chosen k,
  best_subset m0 tip ts cands chosen = Some k -> exists S, pierces m0 tip ts S = true /\ length S = k.
Proof.
  induction cands as [|c cands IH]; intros chosen k H; cbn [best_subset] in H.
  - destruct (pierces m0 tip ts chosen) eqn:P; [|discriminate]. inversion H; subst. eauto.
  - apply omin_le in H. destruct H as [[H|H] _]; eapply IH; exact H.
Qed.

(** and it is at most the size of any piercing sub-selection of the candidates *)
Lemma best_complete m0 tip ts : forall cands chosen sub, subseq sub cands ->
  pierces m0 tip ts (sub ++ chosen) = true ->
  exists k, best_subset m0 tip ts cands chosen = Some k /\ (k <= length sub + length chosen)%nat.
Proof.
  intros cands chosen sub Hs. revert chosen. induction Hs as [|x s l Hs IH|x s l Hs IH]; intros chosen P; cbn [best_subset].
  - cbn [app] in P. rewrite P. exists (length chosen). split; [reflexivity | simpl; lia].
  - destruct (IH (x :: chosen)) as (k1 & E1 & L1).
    { eapply pierces_incl; [|exact P]. intros y Hy. apply in_app_or in Hy. apply in_or_app.
      destruct Hy as [[<-|Hy]|Hy]; [right; left; reflexivity | left; exact Hy | right; right; exact Hy]. }
    rewrite E1. destruct (best_subset m0 tip ts l chosen) as [k2|]; cbn [omin].
    + eexists. split; [reflexivity|]. cbn [length] in *. lia.
    + eexists. split; [reflexivity|]. cbn [length] in *. lia.
  - destruct (IH chosen P) as (k2 & E2 & L2). rewrite E2.
    destruct (best_subset m0 tip ts l (x :: chosen)) as [k1|]; cbn [omin].
    + eexists. split; [reflexivity|]. lia.
    + eexists. split; [reflexivity|]. lia.
Qed.

(** The brute-force optimum of Spec.v equals the number of wake-ups of the schedule. *)
Lemma min_piercing_is_schedule m0 jc tip ts ws wk r : 0 <= jc -> Forall u64w ws ->
  schedule_sync_wakeups m0 jc tip ts ws = Ok (wk, r) -> min_piercing m0 tip ts = Some (length wk).
Proof.
  intros Hjc Hws H. destruct (schedule_sync_wakeups_ok _ _ _ _ _ _ _ H) as (l & Hl & Ewk).
  destruct (shifted_piercing m0 jc tip ts ws Hjc Hws l r Hl) as (S' & HlenS & HpS & HinS).
  unfold min_piercing.
  set (cands := piercing_candidates tip ts).
  set (sub := filter (fun c => existsb (Z.eqb c) S') cands).
  assert (Hcn : NoDup cands) by (apply NoDup_nodup).
  assert (Hsub_incl : incl S' sub).
  { intros s Hs. apply filter_In. split.
    - unfold cands, piercing_candidates. apply nodup_In. apply HinS. exact Hs.
    - apply existsb_exists. exists s. split; [exact Hs | apply Z.eqb_refl]. }
  assert (Hsub_len : (length sub <= length S')%nat).
  { apply NoDup_incl_length; [apply NoDup_filter; exact Hcn|].
    intros c Hc. apply filter_In in Hc. destruct Hc as [_ Hc]. apply existsb_exists in Hc.
    destruct Hc as (s & Hs & E). apply Z.eqb_eq in E. subst. exact Hs. }
  destruct (best_complete m0 tip ts cands [] sub (filter_subseq _ _)) as (k & Ek & Lk).
  { rewrite app_nil_r. eapply pierces_incl; [exact Hsub_incl | apply pierces_complete; exact HpS]. }
  fold cands. rewrite Ek. f_equal.
  destruct (best_sound _ _ _ _ _ _ Ek) as (S & PS & LS).
  pose proof (wakeups_minimal_pub m0 jc tip ts ws Hjc Hws wk r S H PS).
  rewrite Ewk, strip_length in *. cbn [length] in Lk. lia.
Qed.

(** * the executable schedule checker accepts the model's schedule *)
Lemma find_transfer_in id a b ts : In (id, a, b) ts -> In (a, b) (find_transfer id ts).
Proof.
  intros H. unfold find_transfer. apply in_map_iff. exists (id, a, b). split; [reflexivity|].
  apply filter_In. split; [exact H | cbn; apply Z.eqb_refl].
Qed.

Lemma fold_max_ge l : forall init, init <= fold_left Z.max l init /\ forall x, In x l -> x <= fold_left Z.max l init.
Proof.
  induction l as [|y l IH]; intros init; cbn [fold_left]; [split; [lia | intros x []]|].
  destruct (IH (Z.max init y)) as [H1 H2]. split; [lia|].
  intros x [<-|Hx]; [lia | apply H2; exact Hx].
Qed.

Lemma flat_map_singletons {A B} (f : A -> list B) l :
  (forall x, (length (f x) <= 1)%nat) -> length (flat_map f l) = length l ->
  forall x, In x l -> length (f x) = 1%nat.
Proof.
  intros Hle. induction l as [|y l IH]; intros Hlen x Hx; [destruct Hx|].
  cbn [flat_map] in Hlen. rewrite app_length in Hlen. cbn [length] in Hlen.
  assert (Hl : (length (flat_map f l) <= length l)%nat).
  { clear - Hle. induction l as [|z l IH]; [simpl; lia|]. cbn [flat_map]. rewrite app_length. specialize (Hle z). simpl. lia. }
  pose proof (Hle y). destruct Hx as [<-|Hx]; [lia|]. apply IH; [lia | exact Hx].
Qed.

Definition bf_consistent (m0 tip : Z) (ts : list (Z * Z * Z)) (bf : option Z) : bool :=
  match bf with
  | None => true
  | Some k => match min_piercing m0 tip ts with Some n => Z.of_nat n =? k | None => false end
  end.

Section Checker.
Variables m0 jc tip : Z.
Variable ts : list (Z * Z * Z).
Variable ws : list Z.
Hypothesis Hjc : 0 <= jc.
Hypothesis Hws : Forall u64w ws.
Hypothesis Hts : Forall (fun t => snd t <= u32_max) ts.
Hypothesis Htip : tip <= u32_max.
Variable wk : list (Z * list Z).
Variable r : list Z.
Hypothesis H : schedule_sync_wakeups m0 jc tip ts ws = Ok (wk, r).

Let W := map (win_of tip (Z.max m0 1)) ts.

Lemma W_inv w : In w W -> exists id a b, In (id, a, b) ts /\ w = win_of tip (Z.max m0 1) (id, a, b).
Proof. unfold W. intros Hw. apply in_map_iff in Hw. destruct Hw as ([[id a] b] & <- & Ht). eauto. Qed.

Lemma wake_ok_all : forallb (wake_ok m0 jc tip ts) wk = true /\ forallb (fun h => h <=? u32_max) (map fst wk) = true.
Proof.
  destruct (schedule_sync_wakeups_ok _ _ _ _ _ _ _ H) as (l & Hl & Ewk). subst wk.
  destruct (wakeups_cover m0 jc tip ts ws Hjc Hws l r Hl) as (P & C & N). fold W in P.
  pose proof (wakeups_jitter m0 jc tip ts ws Hjc Hws l r Hl) as J.
  assert (HinW : forall p w, In p l -> In w (snd p) -> In w W).
  { intros p w Hp Hw. apply (Permutation_in _ P). apply in_concat. exists (snd p). split; [apply in_map; exact Hp | exact Hw]. }
  rewrite Forall_forall in C, N, J.
  split.
  - apply forallb_forall. intros p' Hp'. unfold strip in Hp'. apply in_map_iff in Hp'. destruct Hp' as (p & <- & Hp).
    specialize (C p Hp). specialize (N p Hp). specialize (J p Hp). unfold covered_ok in C. rewrite Forall_forall in C.
    unfold wake_ok. cbn [fst snd]. rewrite !andb_true_iff. split; [split|].
    + destruct (snd p); [congruence | reflexivity].
    + apply forallb_forall. intros id Hid. apply in_map_iff in Hid. destruct Hid as (w & <- & Hw).
      destruct (W_inv w (HinW p w Hp Hw)) as (id & a & b & Ht & Ew).
      apply existsb_exists. exists (a, b). split; [subst w; apply find_transfer_in; exact Ht|].
      specialize (C w Hw). subst w. cbn [fst snd]. unfold in_window.
      change (w_deadline (win_of tip (Z.max m0 1) (id, a, b))) with (t_deadline b) in C.
      change (w_ready (win_of tip (Z.max m0 1) (id, a, b))) with (t_ready m0 tip a b) in C.
      destruct (t_deadline b <? tip); lia.
    + set (f := fun id => match find_transfer id ts with [(a, b)] => [t_ready m0 tip a b] | _ => [] end).
      destruct (length (flat_map f (map w_id (snd p))) =? length (map w_id (snd p)))%nat eqn:L; [|reflexivity].
      apply Nat.eqb_eq in L.
      destruct J as (w & Hw & Hj).
      destruct (W_inv w (HinW p w Hp Hw)) as (id & a & b & Ht & Ew).
      assert (Hone : length (f id) = 1%nat).
      { apply (flat_map_singletons f (map w_id (snd p))); [| exact L | apply in_map_iff; exists w; split; [subst w; reflexivity | exact Hw]].
        intros x. unfold f. destruct (find_transfer x ts) as [|[a' b'] [|? ?]]; simpl; lia. }
      assert (Hin : In (t_ready m0 tip a b) (flat_map f (map w_id (snd p)))).
      { apply in_flat_map. exists id. split; [apply in_map_iff; exists w; split; [subst w; reflexivity | exact Hw]|].
        pose proof (find_transfer_in id a b ts Ht) as Hf. unfold f in *.
        destruct (find_transfer id ts) as [|[a' b'] [|? ?]]; try (simpl in Hone; lia).
        destruct Hf as [E|[]]. inversion E; subst. left; reflexivity. }
      destruct (fold_max_ge (flat_map f (map w_id (snd p))) tip) as [_ Hmax]. specialize (Hmax _ Hin).
      assert (Er : w_ready w = t_ready m0 tip a b) by (subst w; reflexivity).
      apply Z.leb_le. lia.
  - apply forallb_forall. intros h Hh. rewrite strip_heights in Hh. apply in_map_iff in Hh. destruct Hh as (p & <- & Hp).
    specialize (C p Hp). specialize (N p Hp). unfold covered_ok in C. rewrite Forall_forall in C.
    destruct (snd p) as [|w rest] eqn:Es; [congruence|].
    assert (Hw : In w (snd p)) by (rewrite Es; left; reflexivity).
    rewrite <- Es in C. specialize (C w Hw).
    pose proof (W_deadline_bound m0 tip ts Hts w (HinW p w Hp Hw)).
    apply Z.leb_le. destruct (w_deadline w <? tip); lia.
Qed.

Lemma wakeups_ok_model bf : bf_consistent m0 tip ts bf = true -> wakeups_ok m0 jc tip ts bf wk = true.
Proof.
  intros Hbf. unfold wakeups_ok. destruct wake_ok_all as [Hw Hh].
  pose proof (min_piercing_is_schedule m0 jc tip ts ws wk r Hjc Hws H) as Hmin.
  rewrite (wakeups_strict_pub m0 jc tip ts ws Hjc Hws wk r H), Hh, Hw.
  rewrite (perm_is_perm _ _ (wakeups_cover_ids m0 jc tip ts ws Hjc Hws wk r H)).
  rewrite (pierces_complete _ _ _ _ (wakeups_pierce m0 jc tip ts ws Hjc Hws wk r H)).
  cbn [andb]. rewrite Hmin.
  assert (Hb : match bf with Some k => Z.of_nat (length wk) =? k | None => true end = true).
  { destruct bf as [k|]; [|reflexivity]. unfold bf_consistent in Hbf. rewrite Hmin in Hbf. exact Hbf. }
  rewrite Hb, Nat.eqb_refl. destruct (length ts <=? 5)%nat; reflexivity.
Qed.

End Checker.
