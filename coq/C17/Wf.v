(** C17 — domain of the theorems as a boolean on cases: heights, intervals, delays and
    parameters fit their Rust types (u32, NonZeroU32), stream words are u64, evidence values fit
    usize / Zatoshis, the pair cases are ordered pairs of the evidence ordering. *)
From V.Lib Require Import Base MachInt.
From V.Gen Require Import C17Consts.
From V.C17 Require Import Model Spec Corr.
Local Open Scope Z_scope.

Definition MAX_MONEY_Z : Z := 21000000 * COIN.
Definition h32 := in_u32.
Definition nz32 (x : Z) : bool := (1 <=? x) && (x <=? u32_max).
Definition words (ws : list Z) : bool := forallb in_u64 ws.
Definition oin (f : Z -> bool) (o : option Z) : bool := match o with Some x => f x | None => true end.

Definition wf_consts (c : consts) : bool :=
  in_u64 (c_prep_actions c) && (0 <=? c_min c) && (c_min c <=? c_max c) && (c_max c <=? MAX_MONEY_Z).
Definition wf_ev (e : evidence) : bool :=
  oin in_u64 (e_source e) && oin in_u64 (e_dest e) && oin (in_range 0 MAX_MONEY_Z) (e_value e).

Definition wf_case (c : case) : bool :=
  match c with
  | Expiry h _ => h32 h
  | BoundBelow iv h _ | BoundAbove iv h _ | IsBoundary iv h _ => nz32 iv && h32 h
  | DefaultDists iv _ => nz32 iv
  | ToCode _ _ => true
  | FromCode code _ => in_i64 code
  | Classify c e _ => wf_consts c && wf_ev e
  | ClassifyPair c e e' _ _ => wf_consts c && wf_ev e && wf_ev e' && ev_le e e'
  | ShuffleIdx n ws _ => (0 <=? n) && (n <=? 100000) && words ws
  | ShuffleVals l ws _ => words ws
  | DelayNew mean cap _ => nz32 mean && nz32 cap
  | DelayDraw mean cap ds _ => nz32 mean && nz32 cap && (mean <=? cap) && forallb h32 ds
  | Heights _ cap commit n ds _ | Sched cap commit n ds _ => nz32 cap && h32 commit && (0 <=? n) && forallb h32 ds
  | AnchorDraw _ iv nu f tip ws _ => nz32 iv && h32 nu && h32 f && h32 tip && words ws
  | AnchorRedraw _ iv prior b ws _ => nz32 iv && h32 prior && h32 b && words ws
  | Earliest iv nu f _ => nz32 iv && h32 nu && h32 f
  | CanonDenom lo hi v _ => in_range 0 MAX_MONEY_Z lo && in_range 0 MAX_MONEY_Z hi && in_range 0 MAX_MONEY_Z v
  | Wakeups m j tip ts ws _ _ =>
      h32 m && h32 j && h32 tip && words ws &&
      forallb (fun t => h32 (fst (fst t)) && h32 (snd (fst t)) && h32 (snd t)) ts
  | Shift _ iv served pre ws _ =>
      nz32 iv && h32 served && words ws &&
      forallb (fun t => let '(st, tr, sched, ex, an) := t in
                        in_range 0 4 st && h32 sched && h32 ex && oin h32 an) pre &&
      match pre with (_, _, s0, _, _) :: _ => s0 <=? served | [] => true end
  | Rebuild _ iv cap nu63 funding tip pend ws ds _ =>
      nz32 iv && nz32 cap && h32 nu63 && h32 funding && h32 tip && forallb h32 pend && words ws && forallb h32 ds &&
      (length ws =? length ds)%nat
  | Plumb src iv cfg _ =>
      in_range 0 3 src && nz32 iv &&
      match cfg with
      | Some (a, ca, b, cb) => nz32 a && nz32 ca && (a <=? ca) && nz32 b && nz32 cb && (b <=? cb)   (* DelayDistribution::new accepted them *)
      | None => true
      end
  end.
