(** C17 — the property, stated independently of the model: boolean checkers that are evaluated
    on the implementation's outcomes by [prop_case], and the mathematical notions the theorems
    in Properties.v are stated against (piercing sets, evidence ordering, negative observations). *)
From V.Lib Require Import Base MachInt.
From V.Gen Require Import C17Consts.
From V.C17 Require Import Model.
Local Open Scope Z_scope.

(* ------------------------------------------------------------------------------------------ *)
(** * Expiry and grid *)

(** canonical rolling expiry: start of the current modulus period plus two periods, saturating *)
Definition expiry_spec (h : Z) : Z := Z.min u32_max (EXPIRY_MODULUS * (h / EXPIRY_MODULUS) + 2 * EXPIRY_MODULUS).

Definition below_spec (I h o : Z) : bool := (o mod I =? 0) && (o <=? h) && (h - o <? I) && (0 <=? o).
(** least multiple of I that is >= h, saturating at u32::MAX *)
Definition above_spec (I h : Z) : Z := Z.min u32_max (I * ((h + I - 1) / I)).

(* ------------------------------------------------------------------------------------------ *)
(** * Permutations (executable) *)

Fixpoint zinsert (x : Z) (l : list Z) : list Z :=
  match l with [] => [x] | y :: r => if x <=? y then x :: y :: r else y :: zinsert x r end.
Fixpoint zsort (l : list Z) : list Z := match l with [] => [] | x :: r => zinsert x (zsort r) end.
Definition is_perm (a b : list Z) : bool := list_eqb Z.eqb (zsort a) (zsort b).

(* ------------------------------------------------------------------------------------------ *)
(** * Heights *)

(** every step is a delay in [0, cap], saturating at u32::MAX *)
Fixpoint steps_ok (cap prev : Z) (hs : list Z) : bool :=
  match hs with
  | [] => true
  | h :: r => (prev <=? h) && (h <=? prev + cap) && (h <=? u32_max) && steps_ok cap h r
  end.

(* ------------------------------------------------------------------------------------------ *)
(** * Anchors *)

Definition most_recent_spec (I tip : Z) : Z := I * (tip / I).

(** [b] is an admissible anchor: a grid boundary strictly above the activation height, not before
    the funding note, strictly below the most recent boundary, within the age cap. *)
Definition anchor_ok (I nu63 funding tip b : Z) : bool :=
  let mr := most_recent_spec I tip in
  (0 <=? b) && (b mod I =? 0) && (nu63 <? b) && (funding <=? b) && (b <? mr) && (mr - b <=? ANCHOR_AGE_CAP * I).

(** the only heights that can satisfy the last three clauses: mr - k*I for k = 1..CAP *)
Definition age_candidates (I tip : Z) : list Z :=
  map (fun k => most_recent_spec I tip - k * I) (iota (Z.to_nat ANCHOR_AGE_CAP) 1).

Definition anchor_set_empty (I nu63 funding tip : Z) : bool :=
  forallb (fun b => negb (anchor_ok I nu63 funding tip b)) (age_candidates I tip).

Definition anchor_result_ok (I nu63 funding tip : Z) (o : option Z) : bool :=
  match o with
  | Some b => anchor_ok I nu63 funding tip b
  | None => anchor_set_empty I nu63 funding tip
  end.

(** the redraw: floor at the prior boundary instead of activation / funding *)
Definition redraw_ok (I prior broadcast b : Z) : bool :=
  let mr := most_recent_spec I broadcast in
  (0 <=? b) && (b mod I =? 0) && (prior <=? b) && (b <? mr) && (mr - b <=? ANCHOR_AGE_CAP * I).

Definition redraw_result_ok (I prior broadcast : Z) (o : option Z) : bool :=
  match o with
  | Some b => redraw_ok I prior broadcast b
  | None => forallb (fun b => negb (redraw_ok I prior broadcast b)) (age_candidates I broadcast)
  end.

(** the viability threshold: the candidate set is non-empty at tip [o] and empty just below it
    (not checked when the result saturated at u32::MAX) *)
Definition earliest_ok (I nu63 funding o : Z) : bool :=
  if o =? u32_max then true
  else negb (anchor_set_empty I nu63 funding o) && ((o =? 0) || anchor_set_empty I nu63 funding (o - 1)).

(* ------------------------------------------------------------------------------------------ *)
(** * Schedule shifts *)

(** the anchor of an unproved transfer after its schedule moved to [s']: when an admissible
    boundary exists for the shifted schedule (at or above the prior anchor, strictly below the
    most recent boundary of [s'], within the age cap) the anchor is one of them; otherwise the
    prior anchor is kept *)
Definition shift_anchor_ok (I prior s' b : Z) : bool :=
  if forallb (fun c => negb (redraw_ok I prior s' c)) (age_candidates I s')
  then b =? prior
  else redraw_ok I prior s' b.

Definition oz_eq (x y : option Z) : bool :=
  match x, y with Some a, Some b => a =? b | None, None => true | _, _ => false end.

(** one row before ([p]) and after ([q]) a shift by [delta] *)
Definition tx_shift_ok (I delta : Z) (p q : Z * bool * Z * Z * option Z) : bool :=
  let '(st, tr, sched, ex, an) := p in
  let '(st', tr', sched', ex', an') := q in
  (st' =? st) && Bool.eqb tr' tr && (ex' =? ex) &&                       (* expiry is never touched *)
  if (st =? 3) || (st =? 4) then (sched' =? sched) && oz_eq an' an       (* in flight / mined: unmoved *)
  else
    (sched' =? Z.min u32_max (sched + delta)) &&
    if ((st =? 0) || (st =? 1)) && tr then
      match an, an' with
      | Some prior, Some b => (prior <=? b) && shift_anchor_ok I prior sched' b
      | None, None => true
      | _, _ => false
      end
    else oz_eq an' an.

Fixpoint forall2b {A} (f : A -> A -> bool) (l l' : list A) : bool :=
  match l, l' with
  | [], [] => true
  | x :: r, y :: r' => f x y && forall2b f r r'
  | _, _ => false
  end.

Definition tx_same (p q : Z * bool * Z * Z * option Z) : bool :=
  let '(st, tr, sched, ex, an) := p in
  let '(st', tr', sched', ex', an') := q in
  (st' =? st) && Bool.eqb tr' tr && (sched' =? sched) && (ex' =? ex) && oz_eq an' an.

(** a quarter of the transfer-delay mean scaled to the interval, at least one block *)
Definition tolerance_spec (I : Z) : Z :=
  let m := TRANSFER_DELAY_MEAN * I / ZIP318_INTERVAL in
  Z.max 1 ((if m =? 0 then 1 else Z.min m u32_max) / 4).

(** a late wake-up served at [served], the first row being the one served *)
Definition shift_ok (I served : Z) (pre post : list (Z * bool * Z * Z * option Z)) : bool :=
  match pre with
  | [] => match post with [] => true | _ => false end
  | (_, _, s0, _, _) :: _ =>
      if Z.min u32_max (s0 + tolerance_spec I) <? served
      then forall2b (tx_shift_ok I (served - s0)) pre post
      else forall2b tx_same pre post
  end.

(* ------------------------------------------------------------------------------------------ *)
(** * Rebuilt rows *)

(** a rebuilt row (scheduled, expiry, anchor): the expiry is the canonical expiry of the row's own
    scheduled height; the anchor is admissible AT THAT HEIGHT (grid boundary, above activation, not
    before the funding note, strictly below the most recent boundary, within the age cap); the
    schedule lies one delay (0..cap, saturating) past the chain base *)
Definition rebuild_ok (I cap nu63 funding tip : Z) (pend : list Z) (row : Z * Z * option Z) : bool :=
  let '(sched, ex, an) := row in
  let base := fold_left Z.max pend (Z.min u32_max (tip + 1)) in
  (ex =? expiry_spec sched) &&
  (base <=? sched) && (sched <=? Z.min u32_max (base + cap)) &&
  match an with Some b => anchor_ok I nu63 funding sched b | None => false end.

(* ------------------------------------------------------------------------------------------ *)
(** * Parameter plumbing *)

(** a ZIP 318 delay value scaled to the interval: truncated, at least 1, at most u32::MAX *)
Definition scaled_spec (I v : Z) : Z := Z.max 1 (Z.min u32_max (v * I / ZIP318_INTERVAL)).

(** the parameters a migration runs under: the grid it was given, every configured distribution in
    its own slot, the scaled ZIP 318 values when none is configured *)
Definition params_ok (I : Z) (cfg : option (Z * Z * Z * Z)) (o : Z * Z * Z * Z * Z) : bool :=
  let '(i, tm, tc, pm, pc) := o in
  (i =? I) &&
  match cfg with
  | Some (a, ca, b, cb) => (tm =? a) && (tc =? ca) && (pm =? b) && (pc =? cb)
  | None =>
      (tm =? scaled_spec I TRANSFER_DELAY_MEAN) && (tc =? scaled_spec I TRANSFER_DELAY_CAP) &&
      (pm =? scaled_spec I PREP_DELAY_MEAN) && (pc =? scaled_spec I PREP_DELAY_CAP)
  end && (1 <=? tm) && (tm <=? tc) && (1 <=? pm) && (pm <=? pc).

(* ------------------------------------------------------------------------------------------ *)
(** * Wake-ups *)

(** proving window of a transfer (a, b) at the observed tip: [ready, deadline]; overdue when
    deadline < tip *)
Definition t_deadline (b : Z) : Z := b - 1.
Definition t_ready (margin0 tip a b : Z) : Z :=
  Z.max (Z.min (Z.min u32_max (a + Z.max margin0 1)) (t_deadline b)) tip.
Definition t_feasible (a b : Z) : bool := Z.min u32_max (a + 1) <? b.

(** height [h] is acceptable for transfer (a, b) *)
Definition in_window (margin0 tip a b h : Z) : bool :=
  if t_deadline b <? tip then h =? tip
  else (t_ready margin0 tip a b <=? h) && (h <=? t_deadline b).

Fixpoint strictly_increasing (prev : Z) (l : list Z) : bool :=
  match l with [] => true | h :: r => (prev <? h) && strictly_increasing h r end.

Definition find_transfer (id : Z) (ts : list (Z * Z * Z)) : list (Z * Z) :=
  map (fun t => (snd (fst t), snd t)) (filter (fun t => fst (fst t) =? id) ts).

(** every covered id names a transfer whose window contains the wake-up height, and the jitter
    added above the latest window opening of the group is within the cap *)
Definition wake_ok (margin0 jitter_cap tip : Z) (ts : list (Z * Z * Z)) (w : Z * list Z) : bool :=
  let h := fst w in
  negb (match snd w with [] => true | _ => false end) &&
  forallb (fun id => existsb (fun ab => in_window margin0 tip (fst ab) (snd ab) h) (find_transfer id ts)) (snd w) &&
  (* jitter: h - max ready <= cap, computed when every covered id names exactly one transfer *)
  (let readies := flat_map (fun id => match find_transfer id ts with
                                       | [(a, b)] => [t_ready margin0 tip a b]
                                       | _ => [] end) (snd w) in
   if (length readies =? length (snd w))%nat
   then let mx := fold_left Z.max readies tip in (h - mx <=? jitter_cap)
   else true).

(** piercing: the set [S] meets every non-overdue window, and contains the tip when some
    transfer is overdue *)
Definition pierces (margin0 tip : Z) (ts : list (Z * Z * Z)) (S : list Z) : bool :=
  forallb (fun t => let a := snd (fst t) in let b := snd t in
             if t_deadline b <? tip then existsb (Z.eqb tip) S
             else existsb (fun s => (t_ready margin0 tip a b <=? s) && (s <=? t_deadline b)) S) ts.

Definition omin (a b : option nat) : option nat :=
  match a, b with
  | Some x, Some y => Some (Nat.min x y)
  | Some x, None => Some x
  | None, y => y
  end.

(** brute force over subsets of the candidate points (deadlines and the tip) *)
Fixpoint best_subset (margin0 tip : Z) (ts : list (Z * Z * Z)) (cands chosen : list Z) : option nat :=
  match cands with
  | [] => if pierces margin0 tip ts chosen then Some (length chosen) else None
  | c :: r => omin (best_subset margin0 tip ts r (c :: chosen)) (best_subset margin0 tip ts r chosen)
  end.

Definition piercing_candidates (tip : Z) (ts : list (Z * Z * Z)) : list Z :=
  nodup Z.eq_dec (tip :: map (fun t => t_deadline (snd t)) ts).

Definition min_piercing (margin0 tip : Z) (ts : list (Z * Z * Z)) : option nat :=
  best_subset margin0 tip ts (piercing_candidates tip ts) [].

Definition first_infeasible (ts : list (Z * Z * Z)) : option Z :=
  match filter (fun t => negb (t_feasible (snd (fst t)) (snd t))) ts with
  | [] => None
  | t :: _ => Some (fst (fst t))
  end.

Definition wakeups_ok (margin0 jitter_cap tip : Z) (ts : list (Z * Z * Z)) (bf : option Z)
  (wk : list (Z * list Z)) : bool :=
  let hs := map fst wk in
  strictly_increasing (tip - 1) hs &&
  forallb (fun h => h <=? u32_max) hs &&
  is_perm (flat_map snd wk) (map (fun t => fst (fst t)) ts) &&
  forallb (wake_ok margin0 jitter_cap tip ts) wk &&
  pierces margin0 tip ts hs &&
  match bf with Some k => Z.of_nat (length wk) =? k | None => true end &&
  (if (length ts <=? 5)%nat
   then match min_piercing margin0 tip ts with
        | Some k => (length wk =? k)%nat
        | None => false
        end
   else true).

(* ------------------------------------------------------------------------------------------ *)
(** * Evidence ordering and negative observations *)

Definition ole {A} (eqb : A -> A -> bool) (x y : option A) : bool :=
  match x, y with
  | None, _ => true
  | Some a, Some b => eqb a b
  | Some _, None => false
  end.

(** [e ⊑ e']: every clause answered in [e] is answered identically in [e'] *)
Definition ev_le (e e' : evidence) : bool :=
  ole Z.eqb (e_source e) (e_source e') && ole Z.eqb (e_dest e) (e_dest e') &&
  ole Bool.eqb (e_other e) (e_other e') && ole Bool.eqb (e_sts e) (e_sts e') &&
  ole Z.eqb (e_value e) (e_value e') && ole Bool.eqb (e_expiry e) (e_expiry e') &&
  ole Bool.eqb (e_anchor e) (e_anchor e') && ole Bool.eqb (e_fee e) (e_fee e').

(** the documented obligation: confirmatory clauses are a fixed capability of the source *)
Definition same_confirmatory (e e' : evidence) : bool :=
  option_eqb Bool.eqb (e_anchor e) (e_anchor e') && option_eqb Bool.eqb (e_fee e) (e_fee e').

(** [e'] answers negatively a confirmatory clause that [e] left unanswered *)
Definition new_negative_confirmatory (e e' : evidence) : bool :=
  (match e_anchor e, e_anchor e' with None, Some false => true | _, _ => false end) ||
  (match e_fee e, e_fee e' with None, Some false => true | _, _ => false end).

Definition is_some {A} (o : option A) : bool := match o with Some _ => true | None => false end.
Definition oz_is (o : option Z) (v : Z) : bool := match o with Some x => x =? v | None => false end.
Definition oz_isnt (o : option Z) (v : Z) : bool := match o with Some x => negb (x =? v) | None => false end.

(** {1,2,5}·10^k within [lo, hi], stated without the stripping loop: value = s·10^k for some
    k < 20 *)
Definition canonical_spec (value lo hi : Z) : bool :=
  (lo <=? value) && (value <=? hi) &&
  existsb (fun k => let p := 10 ^ (Z.of_nat k) in (value =? p) || (value =? 2 * p) || (value =? 5 * p)) (seq 0 20).

(** a clause of [e] is answered in a way no ZIP 318 transaction (of the candidate shape selected
    by the destination-action count) exhibits; [can v lo hi] = "v is a canonical denomination" *)
Definition negative_observation_with (can : Z -> Z -> Z -> bool) (c : consts) (e : evidence) : bool :=
  opt_is (e_anchor e) false || opt_is (e_fee e) false ||
  opt_is (e_other e) true || opt_is (e_expiry e) false ||
  (is_some (e_dest e) && negb (oz_is (e_dest e) 0) && negb (oz_is (e_dest e) CROSSING_DESTINATION_ACTIONS)) ||
  (oz_is (e_dest e) 0 && (oz_isnt (e_source e) (c_prep_actions c) || opt_is (e_sts e) false)) ||
  (oz_is (e_dest e) CROSSING_DESTINATION_ACTIONS && (oz_isnt (e_source e) CROSSING_SOURCE_ACTIONS ||
     match e_value e with Some v => negb (can v (c_min c) (c_max c)) | None => false end)).

(** every clause a shape requires is answered positively *)
Definition positive_for_with (can : Z -> Z -> Z -> bool) (c : consts) (e : evidence) (k : kind) : bool :=
  opt_is (e_other e) false && opt_is (e_expiry e) true &&
  negb (opt_is (e_anchor e) false) && negb (opt_is (e_fee e) false) &&
  match k with
  | Preparation => oz_is (e_dest e) 0 && oz_is (e_source e) (c_prep_actions c) && opt_is (e_sts e) true
  | Transfer => negb (oz_is (e_dest e) 0) && oz_is (e_dest e) CROSSING_DESTINATION_ACTIONS &&
                oz_is (e_source e) CROSSING_SOURCE_ACTIONS &&
                match e_value e with Some v => can v (c_min c) (c_max c) | None => false end
  end.

Definition negative_observation := negative_observation_with canonical_spec.
Definition positive_for := positive_for_with canonical_spec.

Definition class_eqb (x y : classification) : bool :=
  match x, y with
  | Conforms Preparation, Conforms Preparation => true
  | Conforms Transfer, Conforms Transfer => true
  | Nonconforming, Nonconforming => true
  | Unknown, Unknown => true
  | _, _ => false
  end.

(** single-point clauses of the property on an observed classification *)
Definition classify_ok (c : consts) (e : evidence) (o : classification) : bool :=
  match o with
  | Nonconforming => negative_observation c e
  | Conforms k => positive_for c e k
  | Unknown => true
  end.

(** monotonicity of one observed pair: a decision, once reached, never changes *)
Definition monotone_pair (o o' : classification) : bool :=
  match o with Unknown => true | _ => class_eqb o o' end.

(** stable encoding documented on [to_code] *)
Definition code_spec (x : classification) : Z :=
  match x with Unknown => 0 | Nonconforming => 1 | Conforms Preparation => 2 | Conforms Transfer => 3 end.
Definition decode_spec (code : Z) : classification :=
  if code =? 1 then Nonconforming else if code =? 2 then Conforms Preparation
  else if code =? 3 then Conforms Transfer else Unknown.
