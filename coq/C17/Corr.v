(** C17 — correspondence cases. One constructor per public operation: inputs (including the
    recorded word stream), then the implementation's observed outcome. Drawing functions report
    [Ok (value, words consumed)] or [Panic] (the replaying generator ran out of words).
    [run_case]: model = implementation. [prop_case]: the property (Spec.v) on the
    implementation's outcome alone. *)
From V.Lib Require Import Base MachInt.
From V.Gen Require Import C17Consts.
From V.C17 Require Import Model Spec.
Local Open Scope Z_scope.

Definition dres (A : Type) := outcome (A * Z) unit.        (* value, words consumed *)
Definition wres := outcome (list (Z * list Z) * Z) Z.      (* wake-ups, words consumed | infeasible id *)

Inductive case :=
| Expiry (h o : Z)
| BoundBelow (iv h o : Z)
| BoundAbove (iv h o : Z)
| IsBoundary (iv h : Z) (o : bool)
| DefaultDists (iv : Z) (o : Z * Z * Z * Z)
| ToCode (x : classification) (o : Z)
| FromCode (code : Z) (o : classification)
| Classify (c : consts) (e : evidence) (o : option classification)
| ClassifyPair (c : consts) (e e' : evidence) (o o' : option classification)
| ShuffleIdx (n : Z) (ws : list Z) (o : dres (list Z))
| ShuffleVals (l : list Z) (ws : list Z) (o : dres (list Z))
| DelayNew (mean cap : Z) (o : bool)
| DelayDraw (mean cap : Z) (ds : list Z) (o : dres Z)
| Heights (prep : bool) (cap commit n : Z) (ds : list Z) (o : dres (list Z))
| Sched (cap commit n : Z) (ds : list Z) (o : dres (list (Z * Z)))
| AnchorDraw (oc : bool) (iv nu63 funding tip : Z) (ws : list Z) (o : dres (option Z))
| AnchorRedraw (oc : bool) (iv prior broadcast : Z) (ws : list Z) (o : dres (option Z))
| Earliest (iv nu63 funding o : Z)
| CanonDenom (lo hi v : Z) (o : option bool)        (* None = no answer within the timeout (regression cases for the fixed zero-bound hang) *)
| Wakeups (margin jitter tip : Z) (ts : list (Z * Z * Z)) (ws : list Z) (bf : option Z) (o : wres)
| Shift (oc : bool) (iv served : Z) (pre : list stx) (ws : list Z) (o : dres (list stx))
| Rebuild (oc : bool) (iv cap nu63 funding tip : Z) (pend ws ds : list Z) (o : outcome (Z * Z * option Z) unit)
| Plumb (src iv : Z) (cfg : option (Z * Z * Z * Z)) (o : Z * Z * Z * Z * Z).   (* src: 0 SchedulingParams::new, 1 adapter with delays, 2 adapter default, 3 new_with_default_distributions *)

(** equalities *)
Definition unit_eqb (_ _ : unit) := true.
Definition lz_eqb := list_eqb Z.eqb.
Definition oz_eqb := option_eqb Z.eqb.
Definition zz_eqb := pair_eqb Z.eqb Z.eqb.
Definition ocls_eqb := option_eqb class_eqb.

(** turn a model result (value, unread words) into (value, words consumed) *)
Definition consumed {A} (ws : list Z) (r : draw A) : dres A :=
  match r with
  | Ok (v, rest) => Ok (v, Z.of_nat (length ws) - Z.of_nat (length rest))
  | Err e => Err e
  | Panic => Panic
  end.

Definition dres_eqb {A} (eqa : A -> A -> bool) : dres A -> dres A -> bool :=
  outcome_eqb (pair_eqb eqa Z.eqb) unit_eqb.

Definition stx_eqb (p q : stx) : bool := tx_same p q.
Definition wk_eqb : list (Z * list Z) -> list (Z * list Z) -> bool := list_eqb (pair_eqb Z.eqb lz_eqb).
Definition wres_eqb : wres -> wres -> bool := outcome_eqb (pair_eqb wk_eqb Z.eqb) Z.eqb.

Definition wakeups_consumed (ws : list Z) (r : outcome (list (Z * list Z) * list Z) Z) : wres :=
  match r with
  | Ok (v, rest) => Ok (v, Z.of_nat (length ws) - Z.of_nat (length rest))
  | Err e => Err e
  | Panic => Panic
  end.

Definition quint_eqb (x y : Z * Z * Z * Z * Z) : bool :=
  let '(a, b, c, d, e) := x in let '(a', b', c', d', e') := y in
  (a =? a') && (b =? b') && (c =? c') && (d =? d') && (e =? e').

Definition run_case (c : case) : bool :=
  match c with
  | Expiry h o => expiry_height h =? o
  | BoundBelow iv h o => boundary_at_or_below iv h =? o
  | BoundAbove iv h o => boundary_at_or_above iv h =? o
  | IsBoundary iv h o => Bool.eqb (is_boundary iv h) o
  | DefaultDists iv (tm, tc, pm, pc) =>
      (scale_delay iv TRANSFER_DELAY_MEAN =? tm) && (scale_delay iv TRANSFER_DELAY_CAP =? tc) &&
      (scale_delay iv PREP_DELAY_MEAN =? pm) && (scale_delay iv PREP_DELAY_CAP =? pc)
  | ToCode x o => to_code x =? o
  | FromCode code o => class_eqb (from_code code) o
  | Classify c e o => ocls_eqb (Some (classify c e)) o
  | ClassifyPair c e e' o o' => ocls_eqb (Some (classify c e)) o && ocls_eqb (Some (classify c e')) o'
  | ShuffleIdx n ws o => dres_eqb lz_eqb (consumed ws (shuffle_indices (Z.to_nat n) ws)) o
  | ShuffleVals l ws o => dres_eqb lz_eqb (consumed ws (shuffle_in_place l ws)) o
  | DelayNew mean cap o => Bool.eqb (is_some (delay_new mean cap)) o
  | DelayDraw mean cap ds o => dres_eqb Z.eqb (consumed ds (delay_draw cap ds)) o
  | Heights _ cap commit n ds o => dres_eqb lz_eqb (consumed ds (cumulative_heights cap (Z.to_nat n) commit ds)) o
  | Sched cap commit n ds o => dres_eqb (list_eqb zz_eqb) (consumed ds (schedule cap (Z.to_nat n) commit ds)) o
  | AnchorDraw oc iv nu f tip ws o => dres_eqb oz_eqb (consumed ws (draw_anchor_boundary oc iv nu f tip ws)) o
  | AnchorRedraw oc iv prior b ws o => dres_eqb oz_eqb (consumed ws (redraw_anchor_boundary oc iv prior b ws)) o
  | Earliest iv nu f o => earliest_broadcast_height iv nu f =? o
  | CanonDenom lo hi v o => option_eqb Bool.eqb (is_canonical_within_opt v lo hi) o
  | Wakeups m j tip ts ws _ o => wres_eqb (wakeups_consumed ws (schedule_sync_wakeups m j tip ts ws)) o
  | Shift oc iv served pre ws o => dres_eqb (list_eqb stx_eqb) (consumed ws (advance_overdue oc iv served pre ws)) o
  | Rebuild oc iv cap nu63 funding tip pend ws ds o =>
      outcome_eqb (pair_eqb zz_eqb oz_eq) unit_eqb (rebuild_schedule oc iv cap nu63 funding tip pend ws ds) o
  | Plumb _ iv cfg o => quint_eqb (scheduling_params iv cfg) o
  end.

(** The property on the implementation's outcome. A [Panic] of a drawing function can only be
    the replaying generator running out of words (the model decides, in [run_case], whether
    that was the expected outcome); the property speaks about the values that are returned. *)
Definition on_ok {A} (o : dres A) (f : A -> Z -> bool) : bool :=
  match o with Ok (v, k) => f v k | Err _ => false | Panic => true end.

Definition prop_case (c : case) : bool :=
  match c with
  | Expiry h o =>
      (o =? expiry_spec h) &&
      (* one to two periods of validity unless saturated *)
      ((o =? u32_max) || ((h <? o) && (o <=? h + 2 * EXPIRY_MODULUS) && (EXPIRY_MODULUS <? o - h)))
  | BoundBelow iv h o => below_spec iv h o
  | BoundAbove iv h o => o =? above_spec iv h
  | IsBoundary iv h o => Bool.eqb o (h =? iv * (h / iv))
  | DefaultDists iv (tm, tc, pm, pc) =>
      (1 <=? tm) && (tm <=? tc) && (tc <=? u32_max) && (1 <=? pm) && (pm <=? pc) && (pc <=? u32_max)
  | ToCode x o => o =? code_spec x
  | FromCode code o => class_eqb o (decode_spec code)
  | Classify c e o => match o with Some x => classify_ok c e x | None => false end
  | ClassifyPair c e e' o o' =>
      match o, o' with
      | Some x, Some x' => classify_ok c e x && classify_ok c e' x' && monotone_pair x x'
      | _, _ => false
      end
  | ShuffleIdx n ws o => on_ok o (fun v k => is_perm v (iota (Z.to_nat n) 0) && (0 <=? k) && (k <=? Z.of_nat (length ws)))
  | ShuffleVals l ws o => on_ok o (fun v k => is_perm v l && (0 <=? k) && (k <=? Z.of_nat (length ws)))
  | DelayNew mean cap o => Bool.eqb o (mean <=? cap)
  | DelayDraw mean cap ds o => on_ok o (fun d k => (0 <=? d) && (d <=? cap) && (1 <=? k))
  | Heights _ cap commit n ds o =>
      on_ok o (fun hs k => (Z.of_nat (length hs) =? n) && steps_ok cap commit hs && (n <=? k))
  | Sched cap commit n ds o =>
      on_ok o (fun l k => (Z.of_nat (length l) =? n) && steps_ok cap commit (map fst l) &&
                          forallb (fun p => snd p =? expiry_spec (fst p)) l)
  | AnchorDraw _ iv nu f tip ws o => on_ok o (fun b k => anchor_result_ok iv nu f tip b && (match b with None => k =? 0 | Some _ => 1 <=? k end))
  | AnchorRedraw _ iv prior b ws o => on_ok o (fun x k => redraw_result_ok iv prior b x && (match x with None => k =? 0 | Some _ => 1 <=? k end))
  | Earliest iv nu f o => earliest_ok iv nu f o && (o <=? u32_max)
  | CanonDenom lo hi v o => option_eqb Bool.eqb o (Some (canonical_spec v lo hi))      (* terminates with the series answer *)
  | Wakeups m j tip ts ws bf o =>
      match o with
      | Ok (wk, k) => wakeups_ok m j tip ts bf wk && negb (is_some (first_infeasible ts))
      | Err id => oz_eqb (first_infeasible ts) (Some id)
      | Panic => negb (is_some (first_infeasible ts))
      end
  | Shift _ iv served pre ws o => on_ok o (fun post k => shift_ok iv served pre post && (0 <=? k) && (k <=? Z.of_nat (length ws)))
  | Rebuild _ iv cap nu63 funding tip pend ws ds o =>
      match o with Ok row => rebuild_ok iv cap nu63 funding tip pend row | Err _ => true | Panic => true end
  | Plumb _ iv cfg o => params_ok iv cfg o
  end.

(** Known-finding classes.
    1 = a pair e ⊑ e' in which e' answers negatively a confirmatory clause that e left
        unanswered, and that flips a Conforms decision (documented obligation on evidence
        sources; the literal "monotone over the whole lattice" reading fails there). *)
Definition is_conforms (o : option classification) : bool :=
  match o with Some (Conforms _) => true | _ => false end.

Definition known_class (c : case) : N :=
  match c with
  | ClassifyPair _ e e' o o' =>
      if ev_le e e' && new_negative_confirmatory e e' && is_conforms o && ocls_eqb o' (Some Nonconforming)
      then 1%N else 0%N
  | _ => 0%N
  end.

(** Path tags. *)
Definition cls_tag (o : option classification) : Z :=
  match o with
  | None => 0 | Some Unknown => 1 | Some Nonconforming => 2
  | Some (Conforms Preparation) => 3 | Some (Conforms Transfer) => 4
  end.

Definition dtag {A} (o : dres A) (f : A -> Z -> Z) : Z :=
  match o with Ok (v, k) => f v k | Err _ => 99 | Panic => 0 end.

Definition shift_unchanged_anchor (p q : stx) : bool := oz_eq (snd p) (snd q).

Definition tag_caseZ (c : case) : Z :=
  match c with
  | Expiry h o => if o =? u32_max then 1 else 2
  | BoundBelow iv h o => if o =? h then 3 else 4
  | BoundAbove iv h o => if o =? h then 5 else if o mod iv =? 0 then 6 else 7     (* 7 = saturated off-grid *)
  | IsBoundary _ _ o => if o then 8 else 9
  | DefaultDists iv (tm, tc, pm, pc) => if pm =? 1 then 10 else if tc =? u32_max then 11 else 12
  | ToCode _ _ => 13
  | FromCode _ o => 14 + cls_tag (Some o)                                      (* 15..18 *)
  | Classify _ _ o => 20 + cls_tag o                                           (* 20..24 *)
  | ClassifyPair _ e e' o o' =>
      if ocls_eqb o o' then 25 + cls_tag o                                      (* 26..29 *)
      else if ocls_eqb o (Some Unknown) then 30 else 31                         (* 31 = a decision changed *)
  | ShuffleIdx n ws o => dtag o (fun v k => if k <=? Z.max 0 (n - 1) then 32 else 33)   (* 33 = a rejection *)
  | ShuffleVals l ws o => dtag o (fun v k => if k <=? Z.max 0 (Z.of_nat (length l) - 1) then 34 else 35) + 0
  | DelayNew _ _ o => if o then 36 else 37
  | DelayDraw _ _ _ o => dtag o (fun d k => if k =? 1 then 38 else 39) + 0      (* 39 = redrawn above cap *)
  | Heights p _ _ n _ o => dtag o (fun hs k => if existsb (Z.eqb u32_max) hs then 41 else if n <? k then 42 else 40) + 0
  | Sched _ _ _ _ o => dtag o (fun l k => if existsb (fun p => snd p =? u32_max) l then 44 else 43) + 0
  | AnchorDraw _ _ _ _ _ _ o => dtag o (fun b k => match b with None => 45 | Some _ => if k =? 1 then 46 else 47 end) + 0
  | AnchorRedraw _ _ _ _ _ o => dtag o (fun b k => match b with None => 48 | Some _ => if k =? 1 then 49 else 50 end) + 0
  | Earliest _ _ _ o => if o =? u32_max then 51 else 52
  | CanonDenom _ _ _ o => match o with None => 61 | Some true => 62 | Some false => 63 end
  | Wakeups _ _ tip ts ws _ o =>
      match o with
      | Err _ => 53
      | Panic => 54
      | Ok (wk, k) =>
          match wk with
          | [] => 55
          | (h, _) :: _ =>
              if (h =? tip) && existsb (fun t => snd t - 1 <? tip) ts then (if 0 <? k then 57 else 56)   (* immediate wake-up *)
              else if 0 <? k then (if Z.of_nat (length wk) <? k then 60 else 59) else 58                 (* 60 = jitter rejection *)
          end
      end
  | Shift _ iv served pre ws o =>
      match o with
      | Panic => 64
      | Err _ => 99
      | Ok (post, k) =>
          if list_eqb stx_eqb pre post then 65                                   (* within the tolerance: nothing moved *)
          else if k =? 0 then 66                                                  (* moved, no redraw *)
          else if existsb (fun pq => negb (oz_eq (snd (fst pq)) (snd (snd pq))) &&
                                       negb (shift_unchanged_anchor (fst pq) (snd pq))) (combine pre post) then 67   (* a boundary was replaced *)
          else 68                                                                 (* redraw attempted, prior kept *)
      end
  | Rebuild _ iv cap nu63 funding tip pend ws ds o =>
      match o with
      | Panic => 99
      | Err _ => 69
      | Ok (sched, ex, _) =>
          (* 71: the schedule crossed into the next expiry period past the target; 72: chained past a later pending transfer *)
          if negb (ex =? expiry_spec (Z.min u32_max (tip + 1))) then 71
          else if Z.min u32_max (tip + 1) <? fold_left Z.max pend 0 then 72 else 70
      end
  | Plumb src _ _ _ => 73 + src                                                   (* 73..76 *)
  end.

Definition tag_case (c : case) : N := Z.to_N (tag_caseZ c).
