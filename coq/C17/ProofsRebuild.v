(** C17 — a rebuilt transfer gets the canonical expiry of its new schedule and an anchor that is
    admissible at its new schedule. *)
From Coq Require Import ZifyBool.
From V.Lib Require Import Base MachInt.
From V.Gen Require Import C17Consts.
From V.C17 Require Import Model Spec ProofsArith ProofsShuffle ProofsAnchor ProofsWake2.
Local Open Scope Z_scope.

Lemma chain_base_range tip pend : 0 <= tip -> Forall (fun x => 0 <= x <= u32_max) pend ->
  Z.min u32_max (tip + 1) <= chain_base tip pend <= u32_max.
Proof.
  intros Ht. unfold chain_base, sat_add_u32. generalize (Z.min u32_max (tip + 1)) (Z.le_min_l u32_max (tip + 1)).
  induction pend as [|x l IH]; intros init Hi Hp; cbn [fold_left]; [lia|].
  inversion Hp; subst. assert (Z.max init x <= u32_max) by lia.
  specialize (IH (Z.max init x) H ltac:(assumption)). lia.
Qed.

Section Rebuild.
Variable oc : bool.
Variables I cap nu63 funding tip : Z.
Variables pend ws ds : list Z.
Hypothesis HI : 0 < I <= u32_max.
Hypothesis Hnu : 0 <= nu63 <= u32_max.
Hypothesis Hf : 0 <= funding <= u32_max.
Hypothesis Htip : 0 <= tip <= u32_max.
Hypothesis Hpend : Forall (fun x => 0 <= x <= u32_max) pend.
Hypothesis Hds : Forall (fun x => 0 <= x) ds.

Lemma rebuild_inv sched ex an :
  rebuild_schedule oc I cap nu63 funding tip pend ws ds = Ok (sched, ex, an) ->
  exists d rest b r,
    delay_draw cap ds = Ok (d, rest) /\ sched = sat_add_u32 (chain_base tip pend) d /\
    ex = expiry_height sched /\ an = Some b /\
    draw_anchor_boundary oc I nu63 funding sched (skipn (length ds - length rest) ws) = Ok (Some b, r).
Proof.
  unfold rebuild_schedule. destruct (delay_draw cap ds) as [[d rest]| |] eqn:D; try discriminate.
  destruct (draw_anchor_boundary oc I nu63 funding (sat_add_u32 (chain_base tip pend) d) (skipn (length ds - length rest) ws)) as [[[b|] r]| |] eqn:A; try discriminate.
  intros H; inversion H; subst. exists d, rest, b, r. repeat split; assumption.
Qed.

(** every expiry of a rebuilt row is the canonical rolling expiry of the row's NEW scheduled height *)
Lemma rebuild_expiry_canonical sched ex an :
  rebuild_schedule oc I cap nu63 funding tip pend ws ds = Ok (sched, ex, an) -> ex = expiry_spec sched.
Proof.
  intros H. destruct (rebuild_inv _ _ _ H) as (d & rest & b & r & _ & _ & -> & _). apply expiry_canonical.
Qed.

(** the new schedule is one drawn delay (0..cap, saturating) past the chain base, never before
    the target *)
Lemma rebuild_sched_range sched ex an :
  rebuild_schedule oc I cap nu63 funding tip pend ws ds = Ok (sched, ex, an) ->
  chain_base tip pend <= sched <= Z.min u32_max (chain_base tip pend + cap) /\ Z.min u32_max (tip + 1) <= sched.
Proof.
  intros H. destruct (rebuild_inv _ _ _ H) as (d & rest & b & r & D & -> & _).
  destruct (delay_le_cap _ _ _ _ D) as [Hc _]. destruct (delay_rest _ _ _ _ Hds D) as [Hd0 _].
  pose proof (chain_base_range tip pend ltac:(lia) Hpend). unfold sat_add_u32. lia.
Qed.

(** the drawn anchor is admissible at the NEW schedule's height: a grid boundary strictly above the
    activation height, not before the funding note, strictly below the most recent boundary of the
    scheduled height and within the age cap *)
Lemma rebuild_anchor_admissible sched ex an :
  rebuild_schedule oc I cap nu63 funding tip pend ws ds = Ok (sched, ex, an) ->
  exists b, an = Some b /\ anchor_ok I nu63 funding sched b = true.
Proof.
  intros H. pose proof (rebuild_sched_range _ _ _ H) as [Hr Ht].
  destruct (rebuild_inv _ _ _ H) as (d & rest & b & r & _ & Es & _ & -> & A).
  exists b. split; [reflexivity|].
  pose proof (chain_base_range tip pend ltac:(lia) Hpend).
  eapply (anchor_in_candidates oc I nu63 funding sched HI Hnu Hf); [lia | exact A].
Qed.

(** NoCandidateAnchor is reported exactly when the new schedule has no admissible boundary *)
Lemma rebuild_no_anchor_iff :
  rebuild_schedule oc I cap nu63 funding tip pend ws ds = Err tt <->
  exists d rest, delay_draw cap ds = Ok (d, rest) /\
                 forall b, anchor_ok I nu63 funding (sat_add_u32 (chain_base tip pend) d) b = false.
Proof.
  unfold rebuild_schedule. pose proof (chain_base_range tip pend ltac:(lia) Hpend) as Hb.
  destruct (delay_draw cap ds) as [[d rest]| |] eqn:D.
  - destruct (delay_rest _ _ _ _ Hds D) as [Hd0 _].
    assert (Hs : 0 <= sat_add_u32 (chain_base tip pend) d <= u32_max) by (unfold sat_add_u32; lia).
    destruct (draw_anchor_boundary oc I nu63 funding (sat_add_u32 (chain_base tip pend) d) (skipn (length ds - length rest) ws)) as [[[b|] r]| |] eqn:A.
    + split; [discriminate|]. intros (d' & rest' & E & Hall). inversion E; subst.
      pose proof (anchor_in_candidates oc I nu63 funding _ HI Hnu Hf Hs _ _ _ A) as Hok. rewrite Hall in Hok. discriminate.
    + split; [|reflexivity]. intros _. exists d, rest. split; [reflexivity|].
      apply (proj1 (anchor_none_iff oc I nu63 funding _ HI Hnu Hf Hs _ _) A).
    + split; [discriminate|]. intros (d' & rest' & E & Hall). inversion E; subst.
      (* an Err from the draw itself does not exist *)
      exfalso. revert A. unfold draw_anchor_boundary.
      destruct (candidate_boundary_bounds I nu63 funding (boundary_at_or_below I (sat_add_u32 (chain_base tip pend) d'))) as [[lo hi]|]; [|discriminate].
      destruct (sample_boundary oc I lo hi _ _) as [[c r0]| |]; discriminate.
    + split; [discriminate|]. intros (d' & rest' & E & Hall). inversion E; subst.
      (* the generator ran dry although the candidate set is empty: impossible, nothing is drawn *)
      exfalso. pose proof (proj2 (anchor_none_iff oc I nu63 funding _ HI Hnu Hf Hs (skipn (length ds - length rest') ws) (skipn (length ds - length rest') ws)) (conj eq_refl Hall)) as N.
      rewrite N in A. discriminate.
  - split; [discriminate|]. intros (d & rest & E & _). discriminate.
  - split; [discriminate|]. intros (d & rest & E & _). discriminate.
Qed.

(** the executable row checker accepts the model's row *)
Lemma rebuild_ok_model row :
  rebuild_schedule oc I cap nu63 funding tip pend ws ds = Ok row -> rebuild_ok I cap nu63 funding tip pend row = true.
Proof.
  destruct row as [[sched ex] an]. intros H. unfold rebuild_ok.
  rewrite (rebuild_expiry_canonical _ _ _ H), Z.eqb_refl.
  destruct (rebuild_sched_range _ _ _ H) as [Hr _]. unfold chain_base, sat_add_u32 in Hr.
  destruct (rebuild_anchor_admissible _ _ _ H) as (b & -> & Hok). rewrite Hok. lia.
Qed.

End Rebuild.
