(** C17 — proofs: expiry, anchor grid, gen_index. *)
From Coq Require Import ZifyBool.
From V.Lib Require Import Base MachInt.
From V.Gen Require Import C17Consts.
From V.C17 Require Import Model Spec.
Local Open Scope Z_scope.

Lemma expiry_window_is_two_moduli : EXPIRY_WINDOW = 2 * EXPIRY_MODULUS.
Proof. reflexivity. Qed.

Lemma modulus_pos : 0 < EXPIRY_MODULUS.
Proof. reflexivity. Qed.

(** * Expiry *)
Lemma expiry_canonical h : expiry_height h = expiry_spec h.
Proof.
  unfold expiry_height, expiry_spec, sat_add_u32. rewrite expiry_window_is_two_moduli.
  pose proof (Z.div_mod h EXPIRY_MODULUS ltac:(pose proof modulus_pos; lia)). 
  f_equal. lia.
Qed.

Lemma expiry_saturates h : expiry_height h <= u32_max.
Proof. unfold expiry_height, sat_add_u32. lia. Qed.

(** not saturated: the canonical value, a multiple of the modulus, strictly in the future with
    more than one and at most two periods of validity *)
Lemma expiry_window_bounds h :
  0 <= h -> h - h mod EXPIRY_MODULUS + EXPIRY_WINDOW <= u32_max ->
  expiry_height h = h - h mod EXPIRY_MODULUS + 2 * EXPIRY_MODULUS /\
  expiry_height h mod EXPIRY_MODULUS = 0 /\
  h < expiry_height h /\ EXPIRY_MODULUS < expiry_height h - h <= 2 * EXPIRY_MODULUS.
Proof.
  intros Hh Hs. unfold expiry_height, sat_add_u32. rewrite expiry_window_is_two_moduli in *.
  pose proof modulus_pos as Hm.
  pose proof (Z.mod_pos_bound h EXPIRY_MODULUS Hm).
  rewrite Z.min_r by lia. split; [reflexivity|]. split; [|lia].
  pose proof (Z.div_mod h EXPIRY_MODULUS ltac:(lia)) as D.
  replace (h - h mod EXPIRY_MODULUS + 2 * EXPIRY_MODULUS) with ((h / EXPIRY_MODULUS + 2) * EXPIRY_MODULUS) by lia.
  apply Z.mod_mul. lia.
Qed.

(** saturated: exactly u32::MAX *)
Lemma expiry_saturated h :
  u32_max <= h - h mod EXPIRY_MODULUS + EXPIRY_WINDOW -> expiry_height h = u32_max.
Proof. intros H. unfold expiry_height, sat_add_u32. lia. Qed.

(** every height of a modulus period shares one expiry *)
Lemma expiry_shared h h' :
  h / EXPIRY_MODULUS = h' / EXPIRY_MODULUS -> expiry_height h = expiry_height h'.
Proof. intros H. rewrite !expiry_canonical. unfold expiry_spec. rewrite H. reflexivity. Qed.

(** * Grid *)
Lemma below_props I h : 0 < I -> 0 <= h ->
  let b := boundary_at_or_below I h in b mod I = 0 /\ 0 <= b <= h /\ h - b < I.
Proof.
  intros HI Hh. unfold boundary_at_or_below. cbv zeta.
  pose proof (Z.mod_pos_bound h I HI). pose proof (Z.div_mod h I ltac:(lia)) as D.
  pose proof (Z.mod_le h I Hh HI).
  split; [|lia].
  replace (h - h mod I) with ((h / I) * I) by lia. apply Z.mod_mul. lia.
Qed.

Lemma below_eq_spec I h : 0 < I -> boundary_at_or_below I h = most_recent_spec I h.
Proof.
  intros HI. unfold boundary_at_or_below, most_recent_spec.
  pose proof (Z.div_mod h I ltac:(lia)). lia.
Qed.

Lemma above_props I h : 0 < I -> 0 <= h <= u32_max ->
  let b := boundary_at_or_above I h in
  h <= b <= u32_max /\
  (b < u32_max \/ h + (I - h mod I) <= u32_max \/ h mod I = 0 -> b mod I = 0 /\ b - h < I) /\
  (* the least boundary at or above h *)
  (forall x, x mod I = 0 -> h <= x <= u32_max -> b <= x).
Proof.
  intros HI Hh. unfold boundary_at_or_above, sat_add_u32. cbv zeta.
  pose proof (Z.mod_pos_bound h I HI) as Hr. pose proof (Z.div_mod h I ltac:(lia)) as D.
  destruct (h mod I =? 0) eqn:E.
  - split; [lia|]. split.
    + intros _. split; [lia | lia].
    + intros x _ Hx. lia.
  - assert (Hnext : (h + (I - h mod I)) mod I = 0).
    { replace (h + (I - h mod I)) with ((h / I + 1) * I) by lia. apply Z.mod_mul. lia. }
    split; [lia|]. split.
    + intros Hc. assert (h + (I - h mod I) <= u32_max) by lia.
      rewrite Z.min_r by lia. split; [exact Hnext | lia].
    + intros x Hx Hxr.
      (* x is a multiple of I that is >= h, and h is not a multiple: x >= (h/I + 1) * I *)
      pose proof (Z.div_mod x I ltac:(lia)) as Dx. rewrite Hx in Dx.
      assert (h / I < x / I) by nia.
      assert (h + (I - h mod I) <= x) by nia. lia.
Qed.

Lemma above_eq_spec I h : 0 < I -> 0 <= h <= u32_max -> boundary_at_or_above I h = above_spec I h.
Proof.
  intros HI Hh. unfold boundary_at_or_above, above_spec, sat_add_u32.
  pose proof (Z.mod_pos_bound h I HI) as Hr. pose proof (Z.div_mod h I ltac:(lia)) as D.
  destruct (h mod I =? 0) eqn:E.
  - assert (Hq : (h + I - 1) / I = h / I).
    { symmetry. apply Z.div_unique with (r := I - 1); [lia | nia]. }
    rewrite Hq. lia.
  - assert (Hq : (h + I - 1) / I = h / I + 1).
    { symmetry. apply Z.div_unique with (r := h mod I - 1); [lia | nia]. }
    rewrite Hq. f_equal. lia.
Qed.

Lemma is_boundary_iff I h : 0 < I -> (is_boundary I h = true <-> exists k, h = k * I).
Proof.
  intros HI. unfold is_boundary. split.
  - intros H. exists (h / I). pose proof (Z.div_mod h I ltac:(lia)). lia.
  - intros [k ->]. rewrite Z.mod_mul by lia. reflexivity.
Qed.

(** * gen_index *)
Definition u64w (w : Z) : Prop := 0 <= w < two64.

Lemma gen_index_go_lt bound ws : 0 < bound -> Forall u64w ws ->
  forall j r, gen_index_go bound ws = Ok (j, r) ->
  0 <= j < bound /\ exists pre, pre <> [] /\ ws = pre ++ r.
Proof.
  intros Hb. induction ws as [|w ws IH]; intros Hw j r H; [discriminate|].
  inversion Hw as [|? ? Hw0 Hws]; subst. cbn [gen_index_go] in H.
  assert (Hj : 0 <= w * bound / two64 < bound).
  { unfold u64w, two64 in *. split; [apply Z.div_pos; nia | apply Z.div_lt_upper_bound; nia]. }
  destruct (bound <=? (w * bound) mod two64).
  - inversion H; subst. split; [exact Hj|]. exists [w]. split; [discriminate | reflexivity].
  - destruct ((two64 - bound) mod bound <=? (w * bound) mod two64).
    + inversion H; subst. split; [exact Hj|]. exists [w]. split; [discriminate | reflexivity].
    + destruct (IH Hws j r H) as [Hr [pre [Hp He]]]. split; [exact Hr|].
      exists (w :: pre). split; [discriminate | rewrite He; reflexivity].
Qed.

Lemma gen_index_lt_bound ws bound j r : Forall u64w ws ->
  gen_index ws bound = Ok (j, r) -> 0 <= j < bound /\ exists pre, pre <> [] /\ ws = pre ++ r.
Proof.
  intros Hw H. unfold gen_index in H. destruct (bound <=? 0) eqn:E; [discriminate|].
  apply gen_index_go_lt with (ws := ws); [lia | assumption | assumption].
Qed.

Lemma gen_index_never_err ws bound e : gen_index ws bound <> Err e.
Proof.
  unfold gen_index. destruct (bound <=? 0); [discriminate|].
  induction ws as [|w ws IH]; cbn [gen_index_go]; [discriminate|].
  destruct (bound <=? (w * bound) mod two64); [discriminate|].
  destruct ((two64 - bound) mod bound <=? (w * bound) mod two64); [discriminate | exact IH].
Qed.

(** unbiasedness bookkeeping: a word is rejected exactly when the low half of the product falls
    below 2^64 mod bound *)
Lemma gen_index_accept_iff bound w r : 0 < bound < two64 -> 0 <= w < two64 ->
  (exists j, gen_index_go bound (w :: r) = Ok (j, r) /\ j = w * bound / two64) \/
  ((w * bound) mod two64 < two64 mod bound /\ gen_index_go bound (w :: r) = gen_index_go bound r).
Proof.
  intros Hb Hw. cbn [gen_index_go].
  assert (Ht : (two64 - bound) mod bound = two64 mod bound).
  { replace (two64 - bound) with (two64 + (-1) * bound) by lia. apply Z.mod_add. lia. }
  rewrite Ht.
  pose proof (Z.mod_pos_bound two64 bound ltac:(lia)).
  destruct (bound <=? (w * bound) mod two64) eqn:E1; [left; eauto|].
  destruct (two64 mod bound <=? (w * bound) mod two64) eqn:E2; [left; eauto|].
  right. split; [lia | reflexivity].
Qed.
