(** C17 — the digit-stripping loop of [is_canonical_within] decides membership in the
    {1, 2, 5}·10^k series (the closed form used by the executable checker in Spec.v). *)
From Coq Require Import ZifyBool.
From V.Lib Require Import Base MachInt.
From V.Gen Require Import C17Consts.
From V.C17 Require Import Model Spec.
Local Open Scope Z_scope.

Lemma strip_spec : forall fuel v, 1 <= v ->
  exists j : nat, (j <= fuel)%nat /\ v = strip_radix fuel v * 10 ^ Z.of_nat j /\
                  1 <= strip_radix fuel v /\ (strip_radix fuel v mod 10 <> 0 \/ j = fuel).
Proof.
  induction fuel as [|f IH]; intros v Hv; cbn [strip_radix].
  - exists 0%nat. split; [lia|]. split; [change (10 ^ Z.of_nat 0) with 1; lia|]. split; [lia | right; reflexivity].
  - unfold DENOMINATION_RADIX. replace (negb (v =? 0)) with true by lia. cbn [andb].
    destruct (v mod 10 =? 0) eqn:E.
    + pose proof (Z.div_mod v 10 ltac:(lia)) as D.
      assert (Hq : 1 <= v / 10) by lia.
      destruct (IH (v / 10) Hq) as (j & Hj & Hv' & Hs & Hd).
      exists (S j). split; [lia|]. split; [|split; [exact Hs | destruct Hd; [left; assumption | right; lia]]].
      rewrite Nat2Z.inj_succ, Z.pow_succ_r by lia. lia.
    + exists 0%nat. split; [lia|]. split; [change (10 ^ Z.of_nat 0) with 1; lia|]. split; [lia | left; lia].
Qed.

Lemma strip_pow : forall k fuel s, (k < fuel)%nat -> 1 <= s -> s mod 10 <> 0 ->
  strip_radix fuel (s * 10 ^ Z.of_nat k) = s.
Proof.
  induction k as [|k IH]; intros fuel s Hk Hs Hm; (destruct fuel as [|f]; [lia|]); cbn [strip_radix]; unfold DENOMINATION_RADIX.
  - change (10 ^ Z.of_nat 0) with 1. rewrite Z.mul_1_r. replace (s mod 10 =? 0) with false by lia. rewrite andb_false_r. reflexivity.
  - assert (Hp : 0 < 10 ^ Z.of_nat (S k)) by (apply Z.pow_pos_nonneg; lia).
    replace (negb (s * 10 ^ Z.of_nat (S k) =? 0)) with true by nia. cbn [andb].
    rewrite Nat2Z.inj_succ, Z.pow_succ_r by lia.
    replace (s * (10 * 10 ^ Z.of_nat k)) with ((s * 10 ^ Z.of_nat k) * 10) by lia.
    rewrite Z.mod_mul by lia. rewrite Z.eqb_refl. rewrite Z.div_mul by lia. apply IH; [lia | assumption | assumption].
Qed.

Lemma strip_zero fuel : strip_radix fuel 0 = 0.
Proof. destruct fuel; reflexivity. Qed.

(** the loop decides membership in the series for every value once the lower bound (or the value)
    is non-negative; in particular 0 is never canonical *)
Lemma canonical_equiv_gen v lo hi : 0 <= lo \/ 0 <= v -> hi < 10 ^ 20 ->
  is_canonical_within v lo hi = canonical_spec v lo hi.
Proof.
  intros Hlo Hhi. unfold is_canonical_within, canonical_spec.
  destruct ((v <? lo) || (hi <? v)) eqn:R.
  - symmetry. replace ((lo <=? v) && (v <=? hi)) with false by lia. reflexivity.
  - replace ((lo <=? v) && (v <=? hi)) with true by lia. cbn [andb].
    assert (Hv0 : 0 <= v) by lia.
    destruct (Z.eq_dec v 0) as [->|Hnz]; [rewrite strip_zero; reflexivity|].
    assert (Hv : 1 <= v) by lia.
    destruct (existsb (fun k : nat => let p := 10 ^ Z.of_nat k in (v =? p) || (v =? 2 * p) || (v =? 5 * p)) (seq 0 20)) eqn:X.
    + apply existsb_exists in X. destruct X as (k & Hk & Hx). apply in_seq in Hk. cbv zeta in Hx.
      assert (Hs : exists s, (s = 1 \/ s = 2 \/ s = 5) /\ v = s * 10 ^ Z.of_nat k).
      { destruct (v =? 10 ^ Z.of_nat k) eqn:E1; [exists 1; split; [auto | lia]|].
        destruct (v =? 2 * 10 ^ Z.of_nat k) eqn:E2; [exists 2; split; [auto | lia]|].
        exists 5. split; [auto | lia]. }
      destruct Hs as (s & Hs & Hvs). rewrite Hvs.
      rewrite strip_pow; [| lia | lia | destruct Hs as [ -> | [ -> | -> ] ]; discriminate].
      destruct Hs as [ -> | [ -> | -> ] ]; reflexivity.
    + destruct (strip_spec 64 v Hv) as (j & Hj & Hvj & Hs1 & _).
      set (s := strip_radix 64 v) in *.
      destruct ((s =? 5) || (s =? 2) || (s =? 1)) eqn:S; [|reflexivity]. exfalso.
      assert (Hj20 : (j < 20)%nat).
      { destruct (le_lt_dec 20 j) as [G|]; [|assumption]. exfalso.
        assert (10 ^ 20 <= 10 ^ Z.of_nat j) by (apply Z.pow_le_mono_r; lia).
        assert (10 ^ Z.of_nat j <= v) by nia. lia. }
      assert (Hex : existsb (fun k : nat => let p := 10 ^ Z.of_nat k in (v =? p) || (v =? 2 * p) || (v =? 5 * p)) (seq 0 20) = true).
      { apply existsb_exists. exists j. split; [apply in_seq; lia|]. cbv zeta. lia. }
      rewrite Hex in X. discriminate.
Qed.

Lemma canonical_equiv v lo hi : 0 <= lo -> hi < 10 ^ 20 ->
  is_canonical_within v lo hi = canonical_spec v lo hi.
Proof. intros H1 H2. apply canonical_equiv_gen; [left; exact H1 | exact H2]. Qed.

(** * Termination (after the repair: the loop stops at zero).
    Before commit 7dcaa30 the loop [while n.is_multiple_of(10) { n /= 10 }] had 0 as a fixed point
    satisfying its guard, and value 0 under a zero lower bound never got an answer. *)
Lemma strip_opt_some : forall fuel v, 0 <= v < 10 ^ Z.of_nat fuel ->
  strip_radix_opt (S fuel) v = Some (strip_radix (S fuel) v).
Proof.
  induction fuel as [|f IH]; intros v Hv.
  - change (10 ^ Z.of_nat 0) with 1 in Hv. assert (v = 0) by lia. subst. reflexivity.
  - remember (S f) as g. cbn [strip_radix_opt strip_radix]. subst g. unfold DENOMINATION_RADIX.
    destruct (negb (v =? 0) && (v mod 10 =? 0)) eqn:E; [|reflexivity].
    rewrite Nat2Z.inj_succ, Z.pow_succ_r in Hv by lia.
    pose proof (Z.div_mod v 10 ltac:(lia)). apply IH. split; [apply Z.div_pos; lia|]. apply Z.div_lt_upper_bound; lia.
Qed.

(** the test terminates on every amount, whatever the bounds *)
Lemma canonical_opt_terminates v lo hi : 0 <= v < 10 ^ 63 ->
  is_canonical_within_opt v lo hi = Some (is_canonical_within v lo hi).
Proof.
  intros Hv. unfold is_canonical_within_opt, is_canonical_within.
  destruct ((v <? lo) || (hi <? v)) eqn:R; [reflexivity|].
  change 64%nat with (S 63). rewrite strip_opt_some; [reflexivity|]. change (Z.of_nat 63) with 63. lia.
Qed.

(** zero is answered, and the answer is "not canonical" *)
Lemma canonical_zero lo hi : is_canonical_within_opt 0 lo hi = Some false.
Proof.
  rewrite canonical_opt_terminates by lia. unfold is_canonical_within.
  destruct ((0 <? lo) || (hi <? 0)); [reflexivity|]. rewrite strip_zero. reflexivity.
Qed.

Lemma canonical_equiv_wf v lo hi : 0 <= lo -> hi <= 21000000 * COIN ->
  is_canonical_within v lo hi = canonical_spec v lo hi.
Proof. intros H1 H2. apply canonical_equiv; [exact H1 | unfold COIN in H2; lia]. Qed.

(** [SchedulingParams::new_with_default_distributions]: scaling keeps every value a valid
    NonZeroU32 and preserves order, so each scaled cap is never below its scaled mean. *)
Lemma scale_delay_range I v : 0 < I -> 0 <= v -> 1 <= scale_delay I v <= u32_max.
Proof.
  intros HI Hv. unfold scale_delay, ZIP318_INTERVAL.
  assert (0 <= v * I / 144) by (apply Z.div_pos; nia).
  destruct (v * I / 144 <=? u32_max) eqn:E; [|unfold u32_max; lia].
  destruct (v * I / 144 =? 0) eqn:E0; unfold u32_max in *; lia.
Qed.

Lemma scale_delay_mono I a b : 0 < I -> 0 <= a <= b -> scale_delay I a <= scale_delay I b.
Proof.
  intros HI Hab. unfold scale_delay, ZIP318_INTERVAL.
  assert (Hd : a * I / 144 <= b * I / 144) by (apply Z.div_le_mono; nia).
  assert (0 <= a * I / 144) by (apply Z.div_pos; nia).
  destruct (a * I / 144 <=? u32_max) eqn:Ea, (b * I / 144 <=? u32_max) eqn:Eb;
    destruct (a * I / 144 =? 0) eqn:Za, (b * I / 144 =? 0) eqn:Zb; unfold u32_max in *; lia.
Qed.

Lemma default_dists_valid I : 0 < I ->
  scale_delay I TRANSFER_DELAY_MEAN <= scale_delay I TRANSFER_DELAY_CAP /\
  scale_delay I PREP_DELAY_MEAN <= scale_delay I PREP_DELAY_CAP /\
  scale_delay ZIP318_INTERVAL TRANSFER_DELAY_MEAN = TRANSFER_DELAY_MEAN /\
  scale_delay ZIP318_INTERVAL TRANSFER_DELAY_CAP = TRANSFER_DELAY_CAP /\
  scale_delay ZIP318_INTERVAL PREP_DELAY_MEAN = PREP_DELAY_MEAN /\
  scale_delay ZIP318_INTERVAL PREP_DELAY_CAP = PREP_DELAY_CAP.
Proof.
  intros HI. split; [apply scale_delay_mono; [exact HI | unfold TRANSFER_DELAY_MEAN, TRANSFER_DELAY_CAP; lia]|].
  split; [apply scale_delay_mono; [exact HI | unfold PREP_DELAY_MEAN, PREP_DELAY_CAP; lia]|].
  repeat split; reflexivity.
Qed.
