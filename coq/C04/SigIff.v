(** C04 — the signature-hash tree is equal exactly when the data it must cover ([Spec.sig_view]) are equal. *)
From Coq Require Import ZifyBool.
From V.Lib Require Import Base Hex.
From V.Gen Require Import C04Consts.
From V.C04 Require Import Model Spec Corr Wf Enc Proofs Proofs2.
Local Open Scope N_scope.

(** * the S.2 tree as a function of the view *)
Definition ie_prev (e : in_eff) : bytes := fst (fst e) ++ le32 (snd (fst e)).
Definition ie_seq (e : in_eff) : bytes := le32 (snd e).
Definition prevouts_e (l : list in_eff) : dig := D T_ZCASH_PREVOUTS_HASH_PERSONALIZATION (lit (flat_map ie_prev l)).
Definition sequence_e (l : list in_eff) : dig := D T_ZCASH_SEQUENCE_HASH_PERSONALIZATION (lit (flat_map ie_seq l)).

Definition tv_tree (v : tview) : dig :=
  match v with
  | TVNone => transparent_txid_of None
  | TVTxid ins outs =>
      D T_ZCASH_TRANSPARENT_HASH_PERSONALIZATION [sub (prevouts_e ins); sub (sequence_e ins); sub (outputs_tree outs)]
  | TVSig ht ins outs input =>
      D T_ZCASH_TRANSPARENT_HASH_PERSONALIZATION
        [inl ht;
         sub (prevouts_e (match ins with Some (l, _) => l | None => [] end));
         sub (D S5_ZCASH_TRANSPARENT_AMOUNTS_HASH_PERSONALIZATION
                (lit (match ins with Some (_, c) => flat_map (fun c => le64 (fst c)) c | None => [] end)));
         sub (D S5_ZCASH_TRANSPARENT_SCRIPTS_HASH_PERSONALIZATION
                (lit (match ins with Some (_, c) => flat_map (fun c => script_enc (snd c)) c | None => [] end)));
         sub (sequence_e (match ins with Some (l, _) => l | None => [] end));
         sub (outputs_tree outs);
         sub (D S5_ZCASH_TRANSPARENT_INPUT_HASH_PERSONALIZATION
                (lit (match input with
                      | Some (e, v, s) => ie_prev e ++ le64 v ++ script_enc s ++ ie_seq e
                      | None => []
                      end)))]
  end.

Lemma flat_map_map {A B C} (f : B -> list C) (g : A -> B) l : flat_map f (map g l) = flat_map (fun x => f (g x)) l.
Proof. induction l; simpl; congruence. Qed.
Lemma prevouts_e_of l : prevouts_tree l = prevouts_e (map in_eff_of l).
Proof. unfold prevouts_tree, prevouts_e. rewrite flat_map_map. reflexivity. Qed.
Lemma sequence_e_of l : sequence_tree l = sequence_e (map in_eff_of l).
Proof. unfold sequence_tree, sequence_e. rewrite flat_map_map. reflexivity. Qed.

Lemma tsig_tree_view b c i : transparent_sig_tree b c i = option_map tv_tree (tview_of b c i).
Proof.
  destruct b as [b|]; [|reflexivity]. unfold tview_of.
  destruct (is_coinbase b || match tb_vin b with [] => true | _ => false end) eqn:F.
  - rewrite (txid_form_sig b c i F). cbn [option_map tv_tree].
    unfold transparent_txid_tree, transparent_txid_of, transparent_digests. cbn [option_map td_prevouts td_sequence td_outputs].
    rewrite prevouts_e_of, sequence_e_of. reflexivity.
  - rewrite (sig_form _ _ _ (not_txid_form_signing _ F)).
    destruct i as [|ht idx v s].
    + cbn [option_map tv_tree hash_type]. unfold sig_node. cbn [hash_type]. rewrite acp_all.
      unfold amounts_tree, scripts_tree. rewrite prevouts_e_of, sequence_e_of. reflexivity.
    + destruct (nth_error (tb_vin b) idx) as [ti|]; [|reflexivity].
      cbn [option_map tv_tree hash_type]. unfold sig_node. cbn [hash_type].
      unfold amounts_tree, scripts_tree.
      destruct (flag_acp ht); rewrite ?prevouts_e_of, ?sequence_e_of; reflexivity.
Qed.

(** * well-formed views *)
Definition wf_ie (e : in_eff) : Prop := length (fst (fst e)) = 32%nat /\ u32 (snd (fst e)) /\ u32 (snd e).
Definition tview_ok (v : tview) : Prop :=
  match v with
  | TVNone => True
  | TVTxid ins outs => Forall wf_ie ins /\ Forall wf_out_p outs
  | TVSig ht ins outs input =>
      (ins = None <-> flag_acp ht = true)
      /\ match ins with Some (l, c) => Forall wf_ie l /\ Forall wf_coin_p c | None => True end
      /\ Forall wf_out_p outs
      /\ match input with Some (e, v, s) => wf_ie e /\ u63 v /\ short s | None => True end
  end.

Lemma wf_ie_of i : wf_in_p i -> wf_ie (in_eff_of i).
Proof. unfold wf_in_p, wf_in, wf_ie, in_eff_of. intros H. bsplit. lens. cbn. auto with wf. Qed.
Lemma Forall_map_ie l : Forall wf_in_p l -> Forall wf_ie (map in_eff_of l).
Proof. induction 1; simpl; constructor; auto using wf_ie_of. Qed.

Definition wf_input (i : sinput) : Prop := match i with Transp _ _ v s => u63 v /\ short s | Shielded => True end.

Lemma covered_wf b i : wf_tb_p b -> Forall wf_out_p (covered_outputs b i).
Proof.
  intros [_ O]. unfold covered_outputs. destruct i as [|ht idx v s]; auto.
  destruct (flag_single ht).
  - destruct (nth_error (tb_vout b) idx) eqn:N; auto. constructor; auto.
    rewrite Forall_forall in O. apply O. eapply nth_error_In; eauto.
  - destruct (flag_none ht); auto.
Qed.

Lemma tview_of_ok b c i v : wf_opt wf_tb b = true -> Forall wf_coin_p c -> wf_input i ->
  tview_of b c i = Some v -> tview_ok v.
Proof.
  intros W C I E. destruct b as [b|]; cbn [wf_opt] in W.
  2:{ injection E as <-. exact Logic.I. }
  apply wf_tb_wf in W. pose proof W as [WI WO]. unfold tview_of in E.
  destruct (is_coinbase b || match tb_vin b with [] => true | _ => false end).
  { injection E as <-. split; auto using Forall_map_ie. }
  assert (X : forall ht, ((if flag_acp ht then None else Some (map in_eff_of (tb_vin b), c)) = None <-> flag_acp ht = true)
                         /\ match (if flag_acp ht then None else Some (map in_eff_of (tb_vin b), c)) with
                            | Some (l, c) => Forall wf_ie l /\ Forall wf_coin_p c | None => True end).
  { intros ht. destruct (flag_acp ht); split; auto using Forall_map_ie; split; congruence. }
  destruct i as [|ht idx v0 s].
  - injection E as <-. cbn [hash_type]. destruct (X SIGHASH_ALL) as [X1 X2].
    split; [exact X1 | split; [exact X2 | split; [apply (covered_wf b Shielded W) | exact Logic.I]]].
  - destruct (nth_error (tb_vin b) idx) as [ti|] eqn:N; [|discriminate]. injection E as <-.
    cbn [hash_type]. destruct (X ht) as [X1 X2]. destruct I as [Iv Is].
    split; [exact X1 | split; [exact X2 | split; [apply (covered_wf b (Transp ht idx v0 s) W) |]]].
    split; [|split; auto]. apply wf_ie_of. eapply signing_wf_in; eauto.
Qed.

(** * injectivity of [tv_tree] on well-formed views *)
Lemma ie_prev_sdp : sdp ie_prev wf_ie (fun e => fst e).
Proof.
  apply (fixed_sdp _ _ _ 36%nat).
  - intros [[h n] s] (L & _ & _). unfold ie_prev. cbn [fst snd] in *. rewrite app_length, le32_length, L. reflexivity.
  - intros [[h n] s] [[h' n'] s'] (L & Un & _) (L' & Un' & _) E. unfold ie_prev in E. cbn [fst snd] in *.
    split_app E Eh E. f_equal; auto using le32_inj.
Qed.
Lemma ie_seq_sdp : sdp ie_seq wf_ie (fun e => snd e).
Proof.
  apply (fixed_sdp _ _ _ 4%nat).
  - intros; apply le32_length.
  - intros [[h n] s] [[h' n'] s'] (_ & _ & U) (_ & _ & U') E. unfold ie_seq in E. cbn [fst snd] in *. auto using le32_inj.
Qed.
Lemma ie_prev_ne e : wf_ie e -> ie_prev e <> [].
Proof.
  intros _ E. apply (f_equal (@length N)) in E. unfold ie_prev in E. rewrite app_length, le32_length in E. simpl in E. lia.
Qed.
Lemma ie_seq_ne e : wf_ie e -> ie_seq e <> [].
Proof. intros _ E. apply (f_equal (@length N)) in E. unfold ie_seq in E. rewrite le32_length in E. discriminate. Qed.

Lemma ins_inj l1 l2 : Forall wf_ie l1 -> Forall wf_ie l2 ->
  prevouts_e l1 = prevouts_e l2 -> sequence_e l1 = sequence_e l2 -> l1 = l2.
Proof.
  intros F1 F2 Ep Es. apply Dlit_inj in Ep, Es.
  apply (flat_map_sd _ _ _ ie_prev_sdp ie_prev_ne) in Ep; auto.
  apply (flat_map_sd _ _ _ ie_seq_sdp ie_seq_ne) in Es; auto.
  rewrite <- (map_id' l1), <- (map_id' l2). refine (map_eq2 _ _ _ _ _ _ Ep Es).
  intros [a b] [a' b']; simpl; congruence.
Qed.

Lemma coins_inj' c1 c2 : Forall wf_coin_p c1 -> Forall wf_coin_p c2 ->
  flat_map (fun c : coin => le64 (fst c)) c1 = flat_map (fun c : coin => le64 (fst c)) c2 ->
  flat_map (fun c : coin => script_enc (snd c)) c1 = flat_map (fun c : coin => script_enc (snd c)) c2 -> c1 = c2.
Proof.
  intros F1 F2 Ea Es.
  apply (flat_map_sd _ _ _ amount_sdp (fun c _ => le64_ne (fst c))) in Ea; auto.
  apply (flat_map_sd _ _ _ cscript_sdp (fun c _ => script_enc_ne (snd c))) in Es; auto.
  rewrite <- (map_id' c1), <- (map_id' c2). refine (map_eq2 _ _ _ _ _ _ Ea Es).
  intros [a b] [a' b']; simpl; congruence.
Qed.

Lemma input_inj e e' v v' s s' : wf_ie e -> wf_ie e' -> u63 v -> u63 v' -> short s -> short s' ->
  ie_prev e ++ le64 v ++ script_enc s ++ ie_seq e = ie_prev e' ++ le64 v' ++ script_enc s' ++ ie_seq e' ->
  e = e' /\ v = v' /\ s = s'.
Proof.
  intros W W' Hv Hv' Hs Hs' E.
  destruct (ie_prev_sdp _ _ _ _ W W' E) as [Ep E1]. clear E.
  split_app E1 Ev E2. apply script_enc_sd in E2; auto. destruct E2 as [Es Eq].
  destruct e as [p q], e' as [p' q']. destruct W as (_ & _ & U), W' as (_ & _ & U'). cbn [fst snd] in *.
  unfold ie_seq in Eq. cbn [fst snd] in Eq. apply le32_inj in Eq; auto.
  repeat split; auto using le64_inj. congruence.
Qed.

Lemma tv_tree_inj v v' : tview_ok v -> tview_ok v' -> tv_tree v = tv_tree v' -> v = v'.
Proof.
  intros O O' E.
  destruct v as [|ins outs|ht ins outs input], v' as [|ins' outs'|ht' ins' outs' input'];
    unfold tv_tree, transparent_txid_of in E; apply D_inj in E; destruct E as [_ E]; try discriminate; auto.
  - destruct O as [I1 O1], O' as [I2 O2].
    apply cons_eq in E. destruct E as [Ep E]. apply cons_eq in E. destruct E as [Es E].
    apply cons_eq in E. destruct E as [Eo _]. apply sub_inj in Ep, Es, Eo.
    f_equal; auto using ins_inj, outputs_inj.
  - destruct O as (A1 & B1 & C1 & D1), O' as (A2 & B2 & C2 & D2).
    apply cons_eq in E. destruct E as [Eh E]. injection Eh as <-.
    apply cons_eq in E. destruct E as [Ep E]. apply cons_eq in E. destruct E as [Ea E].
    apply cons_eq in E. destruct E as [Es E]. apply cons_eq in E. destruct E as [Eq E].
    apply cons_eq in E. destruct E as [Eo E]. apply cons_eq in E. destruct E as [Et _].
    apply sub_inj in Ep, Ea, Es, Eq, Eo, Et. apply Dlit_inj in Ea, Es, Et.
    apply outputs_inj in Eo; auto. subst outs'.
    assert (Ei : ins = ins').
    { destruct ins as [[l c]|], ins' as [[l' c']|]; auto.
      - destruct B1, B2. f_equal. f_equal; auto using ins_inj, coins_inj'.
      - exfalso. destruct A2 as [A2 _]. pose proof (A2 eq_refl) as F. apply A1 in F. discriminate.
      - exfalso. destruct A1 as [A1 _]. pose proof (A1 eq_refl) as F. apply A2 in F. discriminate. }
    subst ins'. f_equal.
    destruct input as [[[e v] s]|], input' as [[[e' v'] s']|]; auto.
    + destruct D1 as (W1 & V1 & S1), D2 as (W2 & V2 & S2).
      destruct (input_inj _ _ _ _ _ _ W1 W2 V1 V2 S1 S2 Et) as (-> & -> & ->). reflexivity.
    + exfalso. destruct D1 as (W1 & _). apply (f_equal (@length N)) in Et. unfold ie_prev in Et.
      rewrite !app_length, le32_length in Et. simpl in Et. lia.
    + exfalso. destruct D2 as (W2 & _). apply (f_equal (@length N)) in Et. unfold ie_prev in Et.
      rewrite !app_length, le32_length in Et. simpl in Et. lia.
Qed.

(** * the theorem *)
Lemma root_of_no_transp t tr : root_of (no_transp t) tr = root_of t tr.
Proof. reflexivity. Qed.

Lemma sighash_iff t t' c c' i i' d d' :
  wf_tx t = true -> wf_tx t' = true -> Forall wf_coin_p c -> Forall wf_coin_p c' -> wf_input i -> wf_input i' ->
  sighash_tree t c i = Some d -> sighash_tree t' c' i' = Some d' ->
  (d = d' <-> sig_view t c i = sig_view t' c' i').
Proof.
  intros W W' C C' I I' E E'. rewrite sighash_tree_root, tsig_tree_view in E, E'. unfold sig_view.
  destruct (tview_of (tx_transp t) c i) as [v|] eqn:V; [|discriminate].
  destruct (tview_of (tx_transp t') c' i') as [v'|] eqn:V'; [|discriminate].
  cbn [option_map] in E, E'. injection E as <-. injection E' as <-.
  assert (Wt : wf_opt wf_tb (tx_transp t) = true) by (unfold wf_tx in W; bsplit; auto).
  assert (Wt' : wf_opt wf_tb (tx_transp t') = true) by (unfold wf_tx in W'; bsplit; auto).
  pose proof (tview_of_ok _ _ _ _ Wt C I V) as O. pose proof (tview_of_ok _ _ _ _ Wt' C' I' V') as O'.
  split.
  - intros R. destruct (root_inj _ _ _ _ W W' R) as [En Et]. apply tv_tree_inj in Et; auto. congruence.
  - intros S.
    assert (Se : effects (no_transp t) = effects (no_transp t')) by congruence.
    assert (Sv : v = v') by congruence. clear S. subst v'.
    assert (R : forall x tr, root_of x tr = root_of (effects (no_transp x)) tr)
      by (intros; rewrite root_of_effects; reflexivity).
    rewrite (R t (tv_tree v)), (R t' (tv_tree v)), Se. reflexivity.
Qed.
