(** C04 — property theorems only; each closed by [exact] of a lemma of Proofs.v.

    All statements are about digest *terms* (pre-image structure). Equality of 32-byte digests of
    distinct terms is excluded only by collision resistance of personalised BLAKE2b-256, which is
    a named cryptographic assumption and NOT a Coq hypothesis. [wf_tx] (Wf.v) fixes the field
    widths and integer ranges; [anchors_uniform] says all Sapling spends of a bundle share one
    anchor (what the v5/v6 wire format can express). *)
From V.Lib Require Import Base Hex.
From V.Gen Require Import C04Consts.
From V.C04 Require Import Model ModelV4 Spec SpecEq SpecV4 DigEq Corr Wf Enc Proofs Proofs2 SigIff ProofsV4 Bridge.
Local Open Scope N_scope.

(** Equal txid pre-images: equal effecting data (header, every input, output, value, note
    ciphertext, flag, value balance; v5: anchors). *)
Theorem C04_txid_injective_on_effects : forall t1 t2, wf_tx t1 = true -> wf_tx t2 = true ->
  txid_tree t1 = txid_tree t2 -> effects t1 = effects t2.
Proof. exact txid_injective. Qed.

(** Equal effecting data: equal txid tree and equal signature-hash tree for every signing
    context — signatures, proofs, input scripts and (v6) anchors do not enter them. *)
Theorem C04_txid_ignores_auth : forall t1 t2, effects t1 = effects t2 ->
  txid_tree t1 = txid_tree t2 /\ forall coins i, sighash_tree t1 coins i = sighash_tree t2 coins i.
Proof. exact ignores_auth. Qed.

(** With equal effecting data, equal auth-commitment pre-images: equal transactions. *)
Theorem C04_auth_tree_injective_on_auth : forall t1 t2, wf_tx t1 = true -> wf_tx t2 = true ->
  anchors_uniform t1 = true -> anchors_uniform t2 = true ->
  effects t1 = effects t2 -> auth_tree t1 = auth_tree t2 -> t1 = t2.
Proof. exact auth_injective. Qed.

(** Changing only authorising data: txid and all sighash trees unchanged, auth tree changed. *)
Theorem C04_auth_change_detected : forall t1 t2, wf_tx t1 = true -> wf_tx t2 = true ->
  anchors_uniform t1 = true -> anchors_uniform t2 = true ->
  effects t1 = effects t2 -> t1 <> t2 ->
  txid_tree t1 = txid_tree t2 /\ (forall c i, sighash_tree t1 c i = sighash_tree t2 c i)
  /\ auth_tree t1 <> auth_tree t2.
Proof. exact auth_change_detected. Qed.

(** v6: the Orchard anchor is authorising data (in v5 it is effecting). *)
Theorem C04_v6_anchor_is_auth : forall a t b, tx_ver t = V6 -> tx_orch t = Some b -> ob_anchor b <> a ->
  length a = 32%nat -> wf_tx t = true -> anchors_uniform t = true ->
  txid_tree (with_orchard_anchor a t) = txid_tree t
  /\ (forall c i, sighash_tree (with_orchard_anchor a t) c i = sighash_tree t c i)
  /\ auth_tree (with_orchard_anchor a t) <> auth_tree t.
Proof. exact v6_anchor_is_auth. Qed.
Theorem C04_v5_anchor_is_effecting : forall a t b, tx_ver t = V5 -> tx_orch t = Some b -> ob_anchor b <> a ->
  effects (with_orchard_anchor a t) <> effects t.
Proof. exact v5_anchor_effects. Qed.

(** Every signature hash (any input, any hash type) commits to all effecting data outside the
    transparent bundle. *)
Theorem C04_sighash_injective_on_shielded_effects : forall t t' c c' i i' d,
  wf_tx t = true -> wf_tx t' = true ->
  sighash_tree t c i = Some d -> sighash_tree t' c' i' = Some d ->
  effects (no_transp t) = effects (no_transp t').
Proof. exact sighash_injective_shielded_part. Qed.

(** The shielded signature hash (SIGHASH_ALL over the whole transaction) commits to all effecting
    data: changing any effecting field changes its pre-image. *)
Theorem C04_shielded_sighash_injective_on_effects : forall t t' c c' d,
  wf_tx t = true -> wf_tx t' = true ->
  sighash_tree t c Shielded = Some d -> sighash_tree t' c' Shielded = Some d -> effects t = effects t'.
Proof. exact shielded_sighash_injective. Qed.

(** A signature hash commits to exactly the data it must cover: for every signing context
    (shielded or transparent input, any hash type, coinbase / no inputs / no transparent bundle
    included) the pre-image trees are equal if and only if the views ([Spec.sig_view]: effecting
    data outside the transparent bundle, hash type, inputs and coins unless ANYONECANPAY, the
    outputs the hash type covers, the signed input with its coin's value and scriptPubKey) are. *)
Theorem C04_sighash_tree_iff_view : forall t t' c c' i i' d d',
  wf_tx t = true -> wf_tx t' = true -> Forall wf_coin_p c -> Forall wf_coin_p c' -> wf_input i -> wf_input i' ->
  sighash_tree t c i = Some d -> sighash_tree t' c' i' = Some d' ->
  (d = d' <-> sig_view t c i = sig_view t' c' i').
Proof. exact sighash_iff. Qed.

(** A transparent signature hash commits to the hash type, the value and script of the coin
    being spent, the outpoint and sequence of the input being signed, the outputs the hash type
    covers, and — unless ANYONECANPAY — all inputs and all coins. *)
Theorem C04_sighash_commits_to_coin : forall t t' b b' c c' ht ht' idx idx' v v' s s' d d',
  wf_tx t = true -> wf_tx t' = true -> tx_transp t = Some b -> tx_transp t' = Some b' ->
  signing b -> signing b' -> Forall wf_coin_p c -> Forall wf_coin_p c' ->
  u63 v -> u63 v' -> short s -> short s' ->
  sighash_tree t c (Transp ht idx v s) = Some d -> sighash_tree t' c' (Transp ht' idx' v' s') = Some d' ->
  d = d' ->
  ht = ht' /\ v = v' /\ s = s'
  /\ option_map in_eff_of (nth_error (tb_vin b) idx) = option_map in_eff_of (nth_error (tb_vin b') idx')
  /\ covered_outputs b (Transp ht idx v s) = covered_outputs b' (Transp ht' idx' v' s')
  /\ (flag_acp ht = false -> map in_eff_of (tb_vin b) = map in_eff_of (tb_vin b') /\ c = c')
  /\ effects (no_transp t) = effects (no_transp t').
Proof. exact sighash_commits. Qed.

(** Closed form of S.2 for a non-coinbase bundle with inputs: with ANYONECANPAY exactly the
    prevouts / amounts / scripts / sequence nodes are the empty digests; with NONE the outputs
    node is empty, with SINGLE it holds only the matching output ([covered_outputs]). *)
Theorem C04_sighash_exclusions : forall b c i, signing b ->
  transparent_sig_tree (Some b) c i =
  match i with
  | Shielded => Some (sig_node b c i None)
  | Transp _ idx _ _ => option_map (fun ti => sig_node b c i (Some ti)) (nth_error (tb_vin b) idx)
  end.
Proof. exact sig_form. Qed.

(** ... and nothing else is dropped / nothing more is covered: the S.2 node is determined by,
    and determines, exactly those data. *)
Theorem C04_sighash_node_determined : forall b b' c c' i i' ti ti',
  hash_type i = hash_type i' ->
  covered_outputs b i = covered_outputs b' i' ->
  (flag_acp (hash_type i) = false -> tb_vin b = tb_vin b' /\ c = c') ->
  match i, ti, i', ti' with
  | Transp _ _ v s, Some x, Transp _ _ v' s', Some x' => x = x' /\ v = v' /\ s = s'
  | Shielded, _, Shielded, _ => True
  | _, _, _, _ => False
  end ->
  sig_node b c i ti = sig_node b' c' i' ti'.
Proof. exact sig_node_ext. Qed.
Theorem C04_sighash_node_injective : forall b b' c c' i i' ti ti',
  wf_tb_p b -> wf_tb_p b' -> Forall wf_coin_p c -> Forall wf_coin_p c' ->
  (forall x, ti = Some x -> wf_in_p x) -> (forall x, ti' = Some x -> wf_in_p x) ->
  (match i with Transp _ _ v s => u63 v /\ short s | _ => True end) ->
  (match i' with Transp _ _ v s => u63 v /\ short s | _ => True end) ->
  sig_node b c i ti = sig_node b' c' i' ti' ->
  hash_type i = hash_type i'
  /\ covered_outputs b i = covered_outputs b' i'
  /\ (flag_acp (hash_type i) = false ->
      map in_eff_of (tb_vin b) = map in_eff_of (tb_vin b') /\ c = c')
  /\ match i, ti, i', ti' with
     | Transp _ _ v s, Some x, Transp _ _ v' s', Some x' => in_eff_of x = in_eff_of x' /\ v = v' /\ s = s'
     | _, _, _, _ => True
     end.
Proof. exact sig_node_inj. Qed.

(** The boolean comparisons evaluated by [prop_case] on the implementation's observations are
    equality of transactions, of effecting data and of signature-hash views. *)
Theorem C04_tx_eqb_spec : forall a b, tx_eqb a b = true <-> a = b.
Proof. exact tx_eqb_spec. Qed.
Theorem C04_effects_eqb_spec : forall a b, effects_eqb a b = true <-> effects a = effects b.
Proof. exact effects_eqb_spec. Qed.
Theorem C04_sview_eqb_spec : forall a b, sview_eqb a b = true <-> a = b.
Proof. exact sview_eqb_spec. Qed.

(** Bridge: on a well-formed v5/v6 case, agreement of the implementation with the model
    ([run_case]: digests = evaluated trees; for a mutation pair, digest equality = pre-image
    equality) implies the property evaluated on the implementation's outcome ([prop_case]). *)
Theorem C04_bridge : forall c, modelled c = true -> wf_case c = true -> run_case c = true -> prop_case c = true.
Proof. exact bridge. Qed.
Theorem C04_dig_eqb_spec : forall a b, dig_eqb a b = true <-> a = b.
Proof. exact dig_eqb_spec. Qed.

(** * v3 / v4 (ZIP 143 / ZIP 243) *)

(** The ZIP 143/243 signature-hash pre-image is equal exactly when the view ([ModelV4.view4_of]:
    header, hash type, outpoints unless ANYONECANPAY, sequences only for plain ALL, the outputs
    the hash type covers, JoinSplits with joinSplitPubKey, Sapling spends without spendAuthSig,
    full Sapling outputs, valueBalance, and the signed input's outpoint, sequence, script code and
    value) is equal. *)
Theorem C04_v4_sighash_tree_iff_view : forall t t' i i' d d',
  wf_tx4 t = true -> wf_tx4 t' = true -> wf_input4 i -> wf_input4 i' ->
  sighash4_tree t i = Some d -> sighash4_tree t' i' = Some d' ->
  (d = d' <-> view4_of t i = view4_of t' i').
Proof. exact sighash4_iff_wf. Qed.

(** A v3/v4 transparent signature hash commits to the hash type, the coin's value, the script
    code, the signed input's outpoint and sequence, and the header. *)
Theorem C04_v4_sighash_commits_to_coin : forall t t' ht ht' idx idx' v v' code code' d,
  wf_tx4 t = true -> wf_tx4 t' = true -> u32 ht -> u32 ht' -> u63 v -> u63 v' -> short code -> short code' ->
  sighash4_tree t (Transp4 ht idx v code) = Some d -> sighash4_tree t' (Transp4 ht' idx' v' code') = Some d ->
  ht = ht' /\ v = v' /\ code = code'
  /\ option_map in_eff_of (nth_error (vin4 t) idx) = option_map in_eff_of (nth_error (vin4 t') idx')
  /\ t4_ver t = t4_ver t' /\ t4_branch t = t4_branch t' /\ t4_lock t = t4_lock t' /\ t4_expiry t = t4_expiry t'.
Proof. exact sighash4_commits. Qed.

(** The exclusions are exactly those of ZIP 143/243: hashPrevouts is blank iff ANYONECANPAY;
    hashSequence is blank iff ANYONECANPAY, SINGLE or NONE; hashOutputs is all outputs, blank
    (NONE), or the output at the signed index (SINGLE; blank without one). *)
Theorem C04_v4_sighash_exclusions : forall t i w, view4_of t i = Some w ->
  let ht := hash_type4 i in
  (w_prev w = None <-> flag_acp ht = true)
  /\ (w_seq w = None <-> flag_acp ht || flag_single ht || flag_none ht = true)
  /\ (flag_single ht = false -> flag_none ht = false -> w_outs w = Some (vout4 t))
  /\ (flag_single ht = false -> flag_none ht = true -> w_outs w = None)
  /\ (flag_single ht = true -> w_outs w = match i with
                                          | Transp4 _ idx _ _ => match nth_error (vout4 t) idx with Some o => Some [o] | None => None end
                                          | Shielded4 => None end).
Proof. exact view4_exclusions. Qed.

(** Bridge for v3/v4 mutation pairs: if equality of the implementation's signature hashes
    coincides with equality of the model's pre-images, it coincides with equality of the views. *)
Theorem C04_bridge_v4_mut : forall f t t' o o',
  wf_case (CV4Mut f t t' o o') = true -> run_case (CV4Mut f t t' o o') = true -> mut4_sigs_ok t t' o o' = true.
Proof. exact bridge_v4_mut. Qed.
Theorem C04_tx4_eqb_spec : forall a b, tx4_eqb a b = true <-> a = b.
Proof. exact tx4_eqb_spec. Qed.
Theorem C04_oview4_eqb_spec : forall a b, oview4_eqb a b = true <-> a = b.
Proof. exact oview4_eqb_spec. Qed.

(** Parse-path independence, as demanded by [prop_case] of every re-parse observation: whatever
    the fragmentation of the reader, the identifier of the parsed transaction is the expected one
    (SHA-256d of the consumed bytes before v5), so two fragmentations agree. *)
Theorem C04_reparse_independent : forall v k k' e o o',
  prop_case (CReparse v k e o) = true -> prop_case (CReparse v k' e o') = true -> o = o' /\ o = e.
Proof. exact reparse_independent. Qed.

(** Raw hash-type bytes (pre-v5 signatures may carry any byte): the base type is the low five
    bits, ANYONECANPAY is bit 7, bits 0x20 / 0x40 change no exclusion. [C04_v4_sighash_exclusions]
    and [C04_v4_sighash_tree_iff_view] above quantify over every hash type, not the six named. *)
Theorem C04_hash_type_raw : forall ht,
  flag_single ht = flag_single (N.land ht 31) /\ flag_none ht = flag_none (N.land ht 31)
  /\ flag_acp ht = N.testbit ht 7
  /\ flag_single (N.lor ht 96) = flag_single ht /\ flag_none (N.lor ht 96) = flag_none ht
  /\ flag_acp (N.lor ht 96) = flag_acp ht.
Proof. exact flags_raw. Qed.

(** The cached evaluation used by the correspondence is the evaluation of the tree. *)
Theorem C04_eval_txid_cached : forall t, eval (txid_from t (eval_parts (parts_of t))) = eval (txid_tree t).
Proof. exact eval_txid_cached. Qed.

(** Non-vacuity: the guards are satisfiable, by a transaction with every kind of bundle. *)
Definition ex_b32 (x : N) : bytes := repeat x 32.
Definition ex_tx : tx :=
  {| tx_ver := V6; tx_branch := 1; tx_lock := 2; tx_expiry := 3;
     tx_transp := Some {| tb_vin := [ {| ti_hash := ex_b32 7; ti_n := 0; ti_sig := [1; 2]; ti_seq := 5 |} ];
                          tb_vout := [ {| to_value := 10; to_script := [81] |} ] |};
     tx_sap := Some {| sa_spends := [ {| sp_cv := ex_b32 1; sp_anchor := ex_b32 2; sp_nf := ex_b32 3;
                                         sp_rk := ex_b32 4; sp_proof := repeat 5 192; sp_sig := repeat 6 64 |} ];
                       sa_outputs := []; sa_vb := (-5)%Z; sa_bsig := repeat 7 64 |};
     tx_orch := Some {| ob_actions := [ {| oa_nf := ex_b32 1; oa_cmx := ex_b32 2; oa_epk := ex_b32 3;
                                           oa_encc := repeat 4 52; oa_memo := repeat 5 512; oa_cv := ex_b32 6;
                                           oa_rk := ex_b32 7; oa_encn := repeat 8 16; oa_out := repeat 9 80;
                                           oa_sig := repeat 10 64 |} ];
                        ob_flags := 3; ob_vb := 7%Z; ob_anchor := ex_b32 9; ob_proof := [1; 2; 3];
                        ob_bsig := repeat 11 64 |};
     tx_iron := None |}.
Example C04_nonvacuous :
  wf_tx ex_tx = true /\ anchors_uniform ex_tx = true
  /\ (exists b, tx_transp ex_tx = Some b /\ signing b)
  /\ effects (with_orchard_anchor (ex_b32 8) ex_tx) = effects ex_tx
  /\ with_orchard_anchor (ex_b32 8) ex_tx <> ex_tx.
Proof.
  split; [vm_compute; reflexivity|]. split; [vm_compute; reflexivity|]. split.
  - eexists. split; [reflexivity|]. split; [vm_compute; reflexivity | discriminate].
  - split; [vm_compute; reflexivity | intros E; vm_compute in E; discriminate].
Qed.
