(** C04 — v3/v4: boolean equality of transactions and of signature-hash views, with specifications,
    and the domain of the ZIP 143/243 theorems. *)
From V.Lib Require Import Base Hex.
From V.Gen Require Import C04Consts.
From V.C04 Require Import Model ModelV4 Spec.
Local Open Scope N_scope.

Definition ver4_eqb (a b : ver4) : bool := match a, b with VV3, VV3 | VV4, VV4 => true | _, _ => false end.
Definition tx4_eqb (a b : tx4) : bool :=
  ver4_eqb (t4_ver a) (t4_ver b) && N.eqb (t4_branch a) (t4_branch b) && N.eqb (t4_lock a) (t4_lock b)
  && N.eqb (t4_expiry a) (t4_expiry b) && option_eqb tbundle_eqb (t4_transp a) (t4_transp b)
  && option_eqb sapling_eqb (t4_sap a) (t4_sap b) && list_eqb bytes_eqb (t4_js a) (t4_js b)
  && bytes_eqb (t4_jspub a) (t4_jspub b) && bytes_eqb (t4_jssig a) (t4_jssig b).

Definition outpoint_eqb (a b : bytes * N) : bool := bytes_eqb (fst a) (fst b) && N.eqb (snd a) (snd b).
Definition js_eqb (a b : list bytes * bytes) : bool := list_eqb bytes_eqb (fst a) (fst b) && bytes_eqb (snd a) (snd b).
Definition in4_eqb (a b : bytes * N * N * bytes * N) : bool :=
  match a, b with
  | (h, n, s, c, v), (h', n', s', c', v') => bytes_eqb h h' && N.eqb n n' && N.eqb s s' && bytes_eqb c c' && N.eqb v v'
  end.
Definition view4_eqb (a b : view4) : bool :=
  ver4_eqb (w_ver a) (w_ver b) && N.eqb (w_branch a) (w_branch b) && N.eqb (w_lock a) (w_lock b)
  && N.eqb (w_expiry a) (w_expiry b) && N.eqb (w_ht a) (w_ht b)
  && option_eqb (list_eqb outpoint_eqb) (w_prev a) (w_prev b)
  && option_eqb (list_eqb N.eqb) (w_seq a) (w_seq b)
  && option_eqb (list_eqb txout_eqb) (w_outs a) (w_outs b)
  && option_eqb js_eqb (w_js a) (w_js b)
  && option_eqb (list_eqb sspend_eqb) (w_spends a) (w_spends b)
  && option_eqb (list_eqb soutput_eqb) (w_souts a) (w_souts b)
  && Z.eqb (w_vb a) (w_vb b)
  && option_eqb in4_eqb (w_in a) (w_in b).
Definition oview4_eqb := option_eqb view4_eqb.

Lemma ver4_eqb_spec a b : ver4_eqb a b = true <-> a = b.
Proof. destruct a, b; cbn; split; congruence. Qed.
Lemma outpoint_eqb_spec a b : outpoint_eqb a b = true <-> a = b.
Proof.
  destruct a, b; unfold outpoint_eqb; cbn. rewrite andb_true_iff, bytes_eqb_spec, N.eqb_eq.
  split; [intros [-> ->]; reflexivity | intros E; inversion E; auto].
Qed.
Lemma js_eqb_spec a b : js_eqb a b = true <-> a = b.
Proof.
  destruct a, b; unfold js_eqb; cbn. rewrite andb_true_iff, (list_eqb_spec _ bytes_eqb_spec), bytes_eqb_spec.
  split; [intros [-> ->]; reflexivity | intros E; inversion E; auto].
Qed.
Lemma in4_eqb_spec a b : in4_eqb a b = true <-> a = b.
Proof.
  destruct a as [[[[h n] s] c] v], b as [[[[h' n'] s'] c'] v']; unfold in4_eqb.
  rewrite !andb_true_iff, !bytes_eqb_spec, !N.eqb_eq.
  split; [intros [[[[-> ->] ->] ->] ->]; reflexivity | intros E; inversion E; auto].
Qed.
Lemma tx4_eqb_spec a b : tx4_eqb a b = true <-> a = b.
Proof.
  destruct a, b; unfold tx4_eqb; cbn.
  rewrite !andb_true_iff, ver4_eqb_spec, !N.eqb_eq, (option_eqb_spec _ tbundle_eqb_spec),
    (option_eqb_spec _ sapling_eqb_spec), (list_eqb_spec _ bytes_eqb_spec), !bytes_eqb_spec.
  split; [intros [[[[[[[[-> ->] ->] ->] ->] ->] ->] ->] ->]; reflexivity | intros E; inversion E; repeat split; auto].
Qed.
Lemma view4_eqb_spec a b : view4_eqb a b = true <-> a = b.
Proof.
  destruct a, b; unfold view4_eqb; cbn.
  rewrite !andb_true_iff, ver4_eqb_spec, !N.eqb_eq, Z.eqb_eq,
    (option_eqb_spec _ (list_eqb_spec _ outpoint_eqb_spec)),
    (option_eqb_spec _ (list_eqb_spec _ N.eqb_eq)),
    (option_eqb_spec _ (list_eqb_spec _ txout_eqb_spec)),
    (option_eqb_spec _ js_eqb_spec),
    (option_eqb_spec _ (list_eqb_spec _ sspend_eqb_spec)),
    (option_eqb_spec _ (list_eqb_spec _ soutput_eqb_spec)),
    (option_eqb_spec _ in4_eqb_spec).
  split.
  - intros [[[[[[[[[[[[-> ->] ->] ->] ->] ->] ->] ->] ->] ->] ->] ->] ->]. reflexivity.
  - intros E; inversion E; repeat split; auto.
Qed.
Lemma oview4_eqb_spec a b : oview4_eqb a b = true <-> a = b.
Proof. apply option_eqb_spec, view4_eqb_spec. Qed.
