(** C04 — ZIP 143 (v3, Overwinter) and ZIP 243 (v4, Sapling) signature hashes as digest trees.

    [view4 t i] collects exactly what the signature hash of signable input [i] hashes, with the
    conditions of zcash_primitives/src/transaction/sighash_v4.rs (ANYONECANPAY blanks
    hashPrevouts; ANYONECANPAY / SINGLE / NONE blank hashSequence; hashOutputs is all outputs, the
    matching output, or blank; absent JoinSplits / Sapling spends / Sapling outputs are blank);
    [tree_of_view4] lays those data out as the pre-image: a blanked slot is 32 literal zero bytes,
    a present one is a sub-digest. No proofs in this file. *)
From V.Lib Require Import Base Hex Blake2b.
From V.Gen Require Import C04Consts.
From V.C04 Require Import Model.
Local Open Scope N_scope.

Inductive ver4 := VV3 | VV4.
Definition is_v4 (v : ver4) : bool := match v with VV4 => true | VV3 => false end.
Definition ver4_header (v : ver4) : N := overwintered + match v with VV3 => V3_TX_VERSION | VV4 => V4_TX_VERSION end.
Definition ver4_group (v : ver4) : N := match v with VV3 => V3_VERSION_GROUP_ID | VV4 => V4_VERSION_GROUP_ID end.

(** a v3/v4 transaction; JoinSplit descriptions are kept in their serialised form *)
Record tx4 := { t4_ver : ver4; t4_branch : N; t4_lock : N; t4_expiry : N;
                t4_transp : option tbundle; t4_sap : option sapling;
                t4_js : list bytes; t4_jspub : bytes; t4_jssig : bytes }.

(** serialised size of a JoinSplit description: PHGR13 proofs before Sapling, Groth16 from v4 on *)
Definition jslen (v : ver4) : nat := match v with VV3 => 1802%nat | VV4 => 1698%nat end.

(** signable input: the script code (not the scriptPubKey) and the value of the coin *)
Inductive sinput4 :=
| Shielded4
| Transp4 (ht : N) (idx : nat) (value : N) (code : bytes).
Definition hash_type4 (i : sinput4) : N := match i with Shielded4 => SIGHASH_ALL | Transp4 ht _ _ _ => ht end.

Record view4 := {
  w_ver : ver4; w_branch : N; w_lock : N; w_expiry : N;
  w_ht : N;
  w_prev : option (list (bytes * N));          (* all outpoints; blank under ANYONECANPAY *)
  w_seq : option (list N);                     (* all sequences; blank unless plain ALL *)
  w_outs : option (list txout);                (* all outputs / the matching one / blank *)
  w_js : option (list bytes * bytes);          (* JoinSplits and joinSplitPubKey; blank if none *)
  w_spends : option (list sspend);             (* v4: spends without spendAuthSig; blank if none *)
  w_souts : option (list soutput);             (* v4: full output descriptions; blank if none *)
  w_vb : Z;                                    (* v4: valueBalance *)
  w_in : option (bytes * N * N * bytes * N)    (* outpoint, sequence, script code, value *)
}.

Definition vin4 (t : tx4) : list txin := match t4_transp t with Some b => tb_vin b | None => [] end.
Definition vout4 (t : tx4) : list txout := match t4_transp t with Some b => tb_vout b | None => [] end.
Definition nosig (s : sspend) : sspend :=
  {| sp_cv := sp_cv s; sp_anchor := sp_anchor s; sp_nf := sp_nf s; sp_rk := sp_rk s;
     sp_proof := sp_proof s; sp_sig := [] |}.
Definition nonempty {A} (l : list A) : option (list A) := match l with [] => None | _ => Some l end.

(** [None] = the implementation panics (transparent input without a transparent bundle, or an
    index out of range) *)
Definition view4_of (t : tx4) (i : sinput4) : option view4 :=
  let ht := hash_type4 i in
  let acp := flag_acp ht in
  let single := flag_single ht in
  let none := flag_none ht in
  let input :=
    match i with
    | Shielded4 => Some None
    | Transp4 _ idx value code =>
        match t4_transp t with
        | None => None
        | Some b => match nth_error (tb_vin b) idx with
                    | None => None
                    | Some ti => Some (Some (ti_hash ti, ti_n ti, ti_seq ti, code, value))
                    end
        end
    end in
  match input with
  | None => None
  | Some inp =>
      Some {| w_ver := t4_ver t; w_branch := t4_branch t; w_lock := t4_lock t; w_expiry := t4_expiry t;
              w_ht := ht;
              w_prev := if acp then None else Some (map (fun x => (ti_hash x, ti_n x)) (vin4 t));
              w_seq := if acp || single || none then None else Some (map ti_seq (vin4 t));
              w_outs := if negb single && negb none then Some (vout4 t)
                        else if single then
                               match i with
                               | Transp4 _ idx _ _ =>
                                   match nth_error (vout4 t) idx with Some o => Some [o] | None => None end
                               | Shielded4 => None
                               end
                             else None;
              w_js := match t4_js t with [] => None | l => Some (l, t4_jspub t) end;
              w_spends := if is_v4 (t4_ver t)
                          then match t4_sap t with Some b => nonempty (map nosig (sa_spends b)) | None => None end
                          else None;
              w_souts := if is_v4 (t4_ver t)
                         then match t4_sap t with Some b => nonempty (sa_outputs b) | None => None end
                         else None;
              w_vb := if is_v4 (t4_ver t) then match t4_sap t with Some b => sa_vb b | None => 0%Z end else 0%Z;
              w_in := inp |}
  end.

(** layout *)
Definition zero32 : list atom := lit (repeat 0 32).
Definition slot (d : option dig) : list atom := match d with Some d => [sub d] | None => zero32 end.
Definition outpoint_enc (p : bytes * N) : bytes := fst p ++ le32 (snd p).
Definition spend4_enc (s : sspend) : bytes := sp_cv s ++ sp_anchor s ++ sp_nf s ++ sp_rk s ++ sp_proof s.
Definition sout4_enc (o : soutput) : bytes :=
  so_cv o ++ so_cmu o ++ so_epk o ++ so_encc o ++ so_memo o ++ so_encn o ++ so_out o ++ so_proof o.
Definition input4_enc (x : bytes * N * N * bytes * N) : bytes :=
  match x with (h, n, sq, code, value) => h ++ le32 n ++ script_enc code ++ le64 value ++ le32 sq end.

Definition tree_of_view4 (w : view4) : dig :=
  D (S4_ZCASH_SIGHASH_PERSONALIZATION_PREFIX ++ le32 (w_branch w))
    (lit (le32 (ver4_header (w_ver w)) ++ le32 (ver4_group (w_ver w)))
     ++ slot (option_map (fun l => D S4_ZCASH_PREVOUTS_HASH_PERSONALIZATION (lit (flat_map outpoint_enc l))) (w_prev w))
     ++ slot (option_map (fun l => D S4_ZCASH_SEQUENCE_HASH_PERSONALIZATION (lit (flat_map le32 l))) (w_seq w))
     ++ slot (option_map (fun l => D S4_ZCASH_OUTPUTS_HASH_PERSONALIZATION (lit (flat_map txout_enc l))) (w_outs w))
     ++ slot (option_map (fun p => D S4_ZCASH_JOINSPLITS_HASH_PERSONALIZATION (lit (concat (fst p) ++ snd p))) (w_js w))
     ++ (if is_v4 (w_ver w)
         then slot (option_map (fun l => D S4_ZCASH_SHIELDED_SPENDS_HASH_PERSONALIZATION (lit (flat_map spend4_enc l))) (w_spends w))
              ++ slot (option_map (fun l => D S4_ZCASH_SHIELDED_OUTPUTS_HASH_PERSONALIZATION (lit (flat_map sout4_enc l))) (w_souts w))
         else [])
     ++ lit (le32 (w_lock w) ++ le32 (w_expiry w) ++ (if is_v4 (w_ver w) then i64le (w_vb w) else []) ++ le32 (w_ht w))
     ++ lit (match w_in w with Some x => input4_enc x | None => [] end)).

Definition sighash4_tree (t : tx4) (i : sinput4) : option dig := option_map tree_of_view4 (view4_of t i).
