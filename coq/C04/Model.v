(** C04 — an independent implementation of ZIP 244 (and its v6 / ZIP 229 variant) as symbolic
    digest trees. A digest is a term [D pers payload]; the payload is a string whose symbols are
    literal bytes ([inl b]) or whole 32-byte sub-digests ([inr d]). [eval] turns a tree into bytes
    with the Gallina BLAKE2b. No proofs in this file.

    Written from ZIP 244 / ZIP 229 and following the branch structure of
    zcash_primitives/src/transaction/{txid,sighash_v5,sighash_v6}.rs and of the vendored
    orchard crate's bundle/commitments.rs (absent bundles, empty spend/output lists, coinbase,
    SIGHASH_SINGLE without a matching output). Personalisation strings come from Gen/C04Consts.v. *)
From V.Lib Require Import Base Hex Blake2b.
From V.Gen Require Import C04Consts.
Local Open Scope N_scope.

(** * Digest terms *)
Inductive dig :=
| D (pers : bytes) (payload : list (N + dig))
| Val (b : bytes).   (* an already evaluated digest: evaluation cache only, never built by the trees *)

Definition atom := (N + dig)%type.
Definition lit (b : bytes) : list atom := map inl b.
Definition sub (d : dig) : atom := inr d.

Fixpoint eval (d : dig) : bytes :=
  match d with
  | D p l => blake2b_256 p (flat_map (fun a => match a with inl b => [b] | inr s => eval s end) l)
  | Val b => b
  end.

(** * Field encodings *)
Fixpoint le (k : nat) (x : N) : bytes :=
  match k with O => [] | S k' => x mod 256 :: le k' (x / 256) end.
Definition le32 := le 4.
Definition le64 := le 8.
Definition two64 : Z := 18446744073709551616.
(** [i64::to_le_bytes]: two's complement *)
Definition i64le (v : Z) : bytes := le 8 (Z.to_N (v mod two64)).

(** [zcash_encoding::CompactSize::write] *)
Definition compact_size (n : N) : bytes :=
  if n <? 253 then [n]
  else if n <=? 65535 then 253 :: le 2 n
  else if n <=? 4294967295 then 254 :: le 4 n
  else 255 :: le 8 n.
(** [Script::write]: CompactSize length, then the bytes *)
Definition script_enc (s : bytes) : bytes := compact_size (N.of_nat (length s)) ++ s.

(** * Transactions (structured, as handed over by the harness) *)
Record txin := { ti_hash : bytes; ti_n : N; ti_sig : bytes; ti_seq : N }.
Record txout := { to_value : N; to_script : bytes }.
Record tbundle := { tb_vin : list txin; tb_vout : list txout }.

Record sspend := { sp_cv : bytes; sp_anchor : bytes; sp_nf : bytes; sp_rk : bytes;
                   sp_proof : bytes; sp_sig : bytes }.
Record soutput := { so_cmu : bytes; so_epk : bytes; so_encc : bytes; so_memo : bytes;
                    so_cv : bytes; so_encn : bytes; so_out : bytes; so_proof : bytes }.
Record sapling := { sa_spends : list sspend; sa_outputs : list soutput; sa_vb : Z; sa_bsig : bytes }.

Record oaction := { oa_nf : bytes; oa_cmx : bytes; oa_epk : bytes; oa_encc : bytes; oa_memo : bytes;
                    oa_cv : bytes; oa_rk : bytes; oa_encn : bytes; oa_out : bytes; oa_sig : bytes }.
Record obundle := { ob_actions : list oaction; ob_flags : N; ob_vb : Z; ob_anchor : bytes;
                    ob_proof : bytes; ob_bsig : bytes }.

Inductive ver := V5 | V6.
Record tx := { tx_ver : ver; tx_branch : N; tx_lock : N; tx_expiry : N;
               tx_transp : option tbundle; tx_sap : option sapling;
               tx_orch : option obundle; tx_iron : option obundle }.

Definition is_v6 (v : ver) : bool := match v with V6 => true | V5 => false end.
Definition overwintered : N := 2147483648.
Definition ver_header (v : ver) : N := overwintered + match v with V5 => V5_TX_VERSION | V6 => V6_TX_VERSION end.
Definition ver_group (v : ver) : N := match v with V5 => V5_VERSION_GROUP_ID | V6 => V6_VERSION_GROUP_ID end.

(** Bundle commitment formats of the orchard crate. *)
Inductive ofmt := OrchardV5 | OrchardV6 | IronwoodV6.
Definition orchard_fmt (v : ver) : ofmt := match v with V5 => OrchardV5 | V6 => OrchardV6 end.
Definition p_bundle (f : ofmt) := match f with
  | OrchardV5 => O_ZCASH_ORCHARD_V5_HASH_PERSONALIZATION
  | OrchardV6 => O_ZCASH_ORCHARD_V6_HASH_PERSONALIZATION
  | IronwoodV6 => O_ZCASH_IRONWOOD_HASH_PERSONALIZATION end.
Definition p_compact (f : ofmt) := match f with
  | IronwoodV6 => O_ZCASH_IRONWOOD_ACTIONS_COMPACT_HASH_PERSONALIZATION
  | _ => O_ZCASH_ORCHARD_ACTIONS_COMPACT_HASH_PERSONALIZATION end.
Definition p_memos (f : ofmt) := match f with
  | IronwoodV6 => O_ZCASH_IRONWOOD_ACTIONS_MEMOS_HASH_PERSONALIZATION
  | _ => O_ZCASH_ORCHARD_ACTIONS_MEMOS_HASH_PERSONALIZATION end.
Definition p_noncompact (f : ofmt) := match f with
  | IronwoodV6 => O_ZCASH_IRONWOOD_ACTIONS_NONCOMPACT_HASH_PERSONALIZATION
  | _ => O_ZCASH_ORCHARD_ACTIONS_NONCOMPACT_HASH_PERSONALIZATION end.
Definition p_oauth (f : ofmt) := match f with
  | OrchardV5 => O_ZCASH_ORCHARD_V5_SIGS_HASH_PERSONALIZATION
  | OrchardV6 => O_ZCASH_ORCHARD_V6_SIGS_HASH_PERSONALIZATION
  | IronwoodV6 => O_ZCASH_IRONWOOD_SIGS_HASH_PERSONALIZATION end.
Definition anchor_in_txid (f : ofmt) : bool := match f with OrchardV5 => true | _ => false end.

(** * T: transaction identifier tree *)

(** T.1 header *)
Definition header_bytes (t : tx) : bytes :=
  le32 (ver_header (tx_ver t)) ++ le32 (ver_group (tx_ver t)) ++ le32 (tx_branch t)
  ++ le32 (tx_lock t) ++ le32 (tx_expiry t).
Definition header_tree (t : tx) : dig := D T_ZCASH_HEADERS_HASH_PERSONALIZATION (lit (header_bytes t)).

(** T.2 transparent *)
Definition prevout_enc (i : txin) : bytes := ti_hash i ++ le32 (ti_n i).
Definition seq_enc (i : txin) : bytes := le32 (ti_seq i).
Definition txout_enc (o : txout) : bytes := le64 (to_value o) ++ script_enc (to_script o).

Definition prevouts_tree (vin : list txin) : dig :=
  D T_ZCASH_PREVOUTS_HASH_PERSONALIZATION (lit (flat_map prevout_enc vin)).
Definition sequence_tree (vin : list txin) : dig :=
  D T_ZCASH_SEQUENCE_HASH_PERSONALIZATION (lit (flat_map seq_enc vin)).
Definition outputs_tree (vout : list txout) : dig :=
  D T_ZCASH_OUTPUTS_HASH_PERSONALIZATION (lit (flat_map txout_enc vout)).

(** the three cached transparent digests ([TransparentDigests]) *)
Record tdigs := { td_prevouts : dig; td_sequence : dig; td_outputs : dig }.
Definition transparent_digests (b : tbundle) : tdigs :=
  {| td_prevouts := prevouts_tree (tb_vin b); td_sequence := sequence_tree (tb_vin b);
     td_outputs := outputs_tree (tb_vout b) |}.
Definition transparent_txid_of (d : option tdigs) : dig :=
  D T_ZCASH_TRANSPARENT_HASH_PERSONALIZATION
    match d with
    | None => []
    | Some d => [sub (td_prevouts d); sub (td_sequence d); sub (td_outputs d)]
    end.
Definition transparent_txid_tree (b : option tbundle) : dig :=
  transparent_txid_of (option_map transparent_digests b).

(** T.3 Sapling (v6: anchors leave the non-compact spend digest) *)
Definition spend_nc_enc (v : ver) (s : sspend) : bytes :=
  sp_cv s ++ (if is_v6 v then [] else sp_anchor s) ++ sp_rk s.
Definition sapling_spends_tree (v : ver) (l : list sspend) : dig :=
  D T_ZCASH_SAPLING_SPENDS_HASH_PERSONALIZATION
    match l with
    | [] => []
    | _ => [sub (D T_ZCASH_SAPLING_SPENDS_COMPACT_HASH_PERSONALIZATION (lit (flat_map sp_nf l)));
            sub (D (if is_v6 v then T_ZCASH_SAPLING_SPENDS_V6_NONCOMPACT_HASH_PERSONALIZATION
                    else T_ZCASH_SAPLING_SPENDS_NONCOMPACT_HASH_PERSONALIZATION)
                   (lit (flat_map (spend_nc_enc v) l)))]
    end.
Definition sout_c_enc (o : soutput) : bytes := so_cmu o ++ so_epk o ++ so_encc o.
Definition sout_n_enc (o : soutput) : bytes := so_cv o ++ so_encn o ++ so_out o.
Definition sapling_outputs_tree (l : list soutput) : dig :=
  D T_ZCASH_SAPLING_OUTPUTS_HASH_PERSONALIZATION
    match l with
    | [] => []
    | _ => [sub (D T_ZCASH_SAPLING_OUTPUTS_COMPACT_HASH_PERSONALIZATION (lit (flat_map sout_c_enc l)));
            sub (D T_ZCASH_SAPLING_OUTPUTS_MEMOS_HASH_PERSONALIZATION (lit (flat_map so_memo l)));
            sub (D T_ZCASH_SAPLING_OUTPUTS_NONCOMPACT_HASH_PERSONALIZATION (lit (flat_map sout_n_enc l)))]
    end.
Definition sapling_is_empty (b : sapling) : bool :=
  match sa_spends b, sa_outputs b with [], [] => true | _, _ => false end.
Definition sapling_txid_tree (v : ver) (s : option sapling) : dig :=
  D T_ZCASH_SAPLING_HASH_PERSONALIZATION
    match s with
    | None => []
    | Some b =>
        if sapling_is_empty b then []
        else [sub (sapling_spends_tree v (sa_spends b)); sub (sapling_outputs_tree (sa_outputs b))]
             ++ lit (i64le (sa_vb b))
    end.

(** T.4 Orchard / Ironwood (v6: the anchor leaves the txid digest) *)
Definition act_c_enc (a : oaction) : bytes := oa_nf a ++ oa_cmx a ++ oa_epk a ++ oa_encc a.
Definition act_n_enc (a : oaction) : bytes := oa_cv a ++ oa_rk a ++ oa_encn a ++ oa_out a.
Definition orchard_txid_tree (f : ofmt) (o : option obundle) : dig :=
  D (p_bundle f)
    match o with
    | None => []
    | Some b =>
        [sub (D (p_compact f) (lit (flat_map act_c_enc (ob_actions b))));
         sub (D (p_memos f) (lit (flat_map oa_memo (ob_actions b))));
         sub (D (p_noncompact f) (lit (flat_map act_n_enc (ob_actions b))))]
        ++ lit ([ob_flags b] ++ i64le (ob_vb b) ++ (if anchor_in_txid f then ob_anchor b else []))
    end.

(** root: [to_hash] / [to_hash_v6] *)
Definition root_tree (v : ver) (branch : N) (hdr transp sap orc iron : dig) : dig :=
  D (T_ZCASH_TX_PERSONALIZATION_PREFIX ++ le32 branch)
    ([sub hdr; sub transp; sub sap; sub orc] ++ (if is_v6 v then [sub iron] else [])).

Definition txid_tree (t : tx) : dig :=
  root_tree (tx_ver t) (tx_branch t) (header_tree t) (transparent_txid_tree (tx_transp t))
    (sapling_txid_tree (tx_ver t) (tx_sap t))
    (orchard_txid_tree (orchard_fmt (tx_ver t)) (tx_orch t))
    (orchard_txid_tree IronwoodV6 (tx_iron t)).

(** * A: authorising-data commitment tree *)
Definition auth_transparent_tree (b : option tbundle) : dig :=
  D T_ZCASH_TRANSPARENT_SCRIPTS_HASH_PERSONALIZATION
    (lit match b with None => [] | Some b => flat_map (fun i => script_enc (ti_sig i)) (tb_vin b) end).
Definition first_anchor (l : list sspend) : bytes :=
  match l with [] => [] | s :: _ => sp_anchor s end.
Definition auth_sapling_tree (v : ver) (s : option sapling) : dig :=
  D (if is_v6 v then T_ZCASH_SAPLING_V6_SIGS_HASH_PERSONALIZATION else T_ZCASH_SAPLING_SIGS_HASH_PERSONALIZATION)
    (lit match s with
         | None => []
         | Some b => flat_map sp_proof (sa_spends b) ++ flat_map sp_sig (sa_spends b)
                     ++ flat_map so_proof (sa_outputs b) ++ sa_bsig b
                     ++ (if is_v6 v then first_anchor (sa_spends b) else [])
         end).
Definition auth_orchard_tree (f : ofmt) (o : option obundle) : dig :=
  D (p_oauth f)
    (lit match o with
         | None => []
         | Some b => ob_proof b ++ flat_map oa_sig (ob_actions b) ++ ob_bsig b
                     ++ (if anchor_in_txid f then [] else ob_anchor b)
         end).
Definition auth_tree (t : tx) : dig :=
  D (T_ZCASH_AUTH_PERSONALIZATION_PREFIX ++ le32 (tx_branch t))
    ([sub (auth_transparent_tree (tx_transp t)); sub (auth_sapling_tree (tx_ver t) (tx_sap t));
      sub (auth_orchard_tree (orchard_fmt (tx_ver t)) (tx_orch t))]
     ++ (if is_v6 (tx_ver t) then [sub (auth_orchard_tree IronwoodV6 (tx_iron t))] else [])).

(** * S: signature digest tree *)
Definition coin := (N * bytes)%type.     (* value and scriptPubKey of a coin being spent *)
Inductive sinput :=
| Shielded
| Transp (ht : N) (idx : nat) (value : N) (script : bytes).

Definition hash_type (i : sinput) : N := match i with Shielded => SIGHASH_ALL | Transp ht _ _ _ => ht end.
Definition flag_acp (ht : N) : bool := negb (N.land ht SIGHASH_ANYONECANPAY =? 0).
Definition flag_single (ht : N) : bool := N.land ht SIGHASH_MASK =? SIGHASH_SINGLE.
Definition flag_none (ht : N) : bool := N.land ht SIGHASH_MASK =? SIGHASH_NONE.

Definition null_hash : bytes := repeat 0 32.
Definition is_null_prevout (i : txin) : bool := bytes_eqb (ti_hash i) null_hash && (ti_n i =? 4294967295).
Definition is_coinbase (b : tbundle) : bool :=
  match tb_vin b with [i] => is_null_prevout i | _ => false end.

Definition amounts_tree (acp : bool) (coins : list coin) : dig :=
  D S5_ZCASH_TRANSPARENT_AMOUNTS_HASH_PERSONALIZATION
    (lit (if acp then [] else flat_map (fun c => le64 (fst c)) coins)).
Definition scripts_tree (acp : bool) (coins : list coin) : dig :=
  D S5_ZCASH_TRANSPARENT_SCRIPTS_HASH_PERSONALIZATION
    (lit (if acp then [] else flat_map (fun c => script_enc (snd c)) coins)).

(** S.2g: the input being signed. [None] = the implementation indexes out of bounds (panic). *)
Definition txin_sig_tree (b : tbundle) (i : sinput) : option dig :=
  match i with
  | Shielded => Some (D S5_ZCASH_TRANSPARENT_INPUT_HASH_PERSONALIZATION [])
  | Transp _ idx value script =>
      match nth_error (tb_vin b) idx with
      | None => None
      | Some ti => Some (D S5_ZCASH_TRANSPARENT_INPUT_HASH_PERSONALIZATION
                           (lit (prevout_enc ti ++ le64 value ++ script_enc script ++ seq_enc ti)))
      end
  end.

Definition sig_outputs_tree (full : dig) (b : tbundle) (i : sinput) : dig :=
  match i with
  | Shielded => full
  | Transp ht idx _ _ =>
      if flag_single ht then
        match nth_error (tb_vout b) idx with
        | Some o => outputs_tree [o]
        | None => outputs_tree []
        end
      else if flag_none ht then outputs_tree []
      else full
  end.

(** S.2 given the cached txid digests [d] of the same bundle *)
Definition transparent_sig_of (b : option tbundle) (d : option tdigs) (coins : list coin) (i : sinput) : option dig :=
  match b, d with
  | Some b, Some d =>
      if is_coinbase b || match tb_vin b with [] => true | _ => false end
      then Some (transparent_txid_of (Some d))
      else
        let ht := hash_type i in
        let acp := flag_acp ht in
        match txin_sig_tree b i with
        | None => None
        | Some txin_d =>
            Some (D T_ZCASH_TRANSPARENT_HASH_PERSONALIZATION
                    ([inl ht;
                      sub (if acp then prevouts_tree [] else td_prevouts d);
                      sub (amounts_tree acp coins);
                      sub (scripts_tree acp coins);
                      sub (if acp then sequence_tree [] else td_sequence d);
                      sub (sig_outputs_tree (td_outputs d) b i);
                      sub txin_d]))
        end
  | _, _ => Some (transparent_txid_of None)
  end.
Definition transparent_sig_tree (b : option tbundle) (coins : list coin) (i : sinput) : option dig :=
  transparent_sig_of b (option_map transparent_digests b) coins i.

Definition sighash_tree (t : tx) (coins : list coin) (i : sinput) : option dig :=
  match transparent_sig_tree (tx_transp t) coins i with
  | None => None
  | Some tr =>
      Some (root_tree (tx_ver t) (tx_branch t) (header_tree t) tr
              (sapling_txid_tree (tx_ver t) (tx_sap t))
              (orchard_txid_tree (orchard_fmt (tx_ver t)) (tx_orch t))
              (orchard_txid_tree IronwoodV6 (tx_iron t)))
  end.

(** * Cached evaluation (each component digest evaluated once per transaction) *)
Record parts := { pt_hdr : dig; pt_td : option tdigs; pt_sap : dig; pt_orc : dig; pt_iron : dig }.
Definition parts_of (t : tx) : parts :=
  {| pt_hdr := header_tree t; pt_td := option_map transparent_digests (tx_transp t);
     pt_sap := sapling_txid_tree (tx_ver t) (tx_sap t);
     pt_orc := orchard_txid_tree (orchard_fmt (tx_ver t)) (tx_orch t);
     pt_iron := orchard_txid_tree IronwoodV6 (tx_iron t) |}.
Definition ev (d : dig) : dig := Val (eval d).
Definition eval_parts (p : parts) : parts :=
  {| pt_hdr := ev (pt_hdr p);
     pt_td := option_map (fun d => {| td_prevouts := ev (td_prevouts d); td_sequence := ev (td_sequence d);
                                      td_outputs := ev (td_outputs d) |}) (pt_td p);
     pt_sap := ev (pt_sap p); pt_orc := ev (pt_orc p); pt_iron := ev (pt_iron p) |}.
Definition txid_from (t : tx) (p : parts) : dig :=
  root_tree (tx_ver t) (tx_branch t) (pt_hdr p) (transparent_txid_of (pt_td p)) (pt_sap p) (pt_orc p) (pt_iron p).
Definition sighash_from (t : tx) (p : parts) (coins : list coin) (i : sinput) : option dig :=
  match transparent_sig_of (tx_transp t) (pt_td p) coins i with
  | None => None
  | Some tr => Some (root_tree (tx_ver t) (tx_branch t) (pt_hdr p) tr (pt_sap p) (pt_orc p) (pt_iron p))
  end.
