(** C04 — domain of the theorems, as a boolean on transactions and cases.

    [wf_tx]: every fixed-width field has its width, integers are in their machine range, a
    Sapling bundle is not empty, an Orchard bundle has at least one action and canonical
    signature widths, a v5 transaction has no Ironwood bundle. [anchors_uniform]: all Sapling
    spends of a bundle carry the same anchor (what the v5/v6 wire format can express). *)
From V.Lib Require Import Base Hex.
From V.C04 Require Import Model ModelV4 Spec SpecV4 Corr.
Local Open Scope N_scope.

Definition len_is (n : nat) (b : bytes) : bool := Nat.eqb (length b) n.
Definition u32b (x : N) : bool := x <? 4294967296.
Definition u63b (x : N) : bool := x <? 9223372036854775808.
Definition i64b (v : Z) : bool := ((-9223372036854775808 <=? v) && (v <? 9223372036854775808))%Z.

Definition shortb (s : bytes) : bool := N.of_nat (length s) <? 18446744073709551616.
Definition wf_in (i : txin) : bool := len_is 32 (ti_hash i) && u32b (ti_n i) && u32b (ti_seq i) && shortb (ti_sig i).
Definition wf_out (o : txout) : bool := u63b (to_value o) && shortb (to_script o).
Definition wf_tb (b : tbundle) : bool := forallb wf_in (tb_vin b) && forallb wf_out (tb_vout b).
Definition wf_spend (s : sspend) : bool :=
  len_is 32 (sp_cv s) && len_is 32 (sp_anchor s) && len_is 32 (sp_nf s) && len_is 32 (sp_rk s)
  && len_is 192 (sp_proof s) && len_is 64 (sp_sig s).
Definition wf_sout (o : soutput) : bool :=
  len_is 32 (so_cmu o) && len_is 32 (so_epk o) && len_is 52 (so_encc o) && len_is 512 (so_memo o)
  && len_is 32 (so_cv o) && len_is 16 (so_encn o) && len_is 80 (so_out o) && len_is 192 (so_proof o).
Definition wf_sap (b : sapling) : bool :=
  negb (sapling_is_empty b) && forallb wf_spend (sa_spends b) && forallb wf_sout (sa_outputs b)
  && i64b (sa_vb b) && len_is 64 (sa_bsig b).
Definition wf_act (a : oaction) : bool :=
  len_is 32 (oa_nf a) && len_is 32 (oa_cmx a) && len_is 32 (oa_epk a) && len_is 52 (oa_encc a)
  && len_is 512 (oa_memo a) && len_is 32 (oa_cv a) && len_is 32 (oa_rk a) && len_is 16 (oa_encn a)
  && len_is 80 (oa_out a) && len_is 64 (oa_sig a).
Definition wf_ob (b : obundle) : bool :=
  negb (is_nil (ob_actions b)) && forallb wf_act (ob_actions b) && (ob_flags b <? 256) && i64b (ob_vb b)
  && len_is 32 (ob_anchor b) && len_is 64 (ob_bsig b).
Definition wf_opt {A} (f : A -> bool) (o : option A) : bool := match o with None => true | Some a => f a end.

Definition wf_tx (t : tx) : bool :=
  u32b (tx_branch t) && u32b (tx_lock t) && u32b (tx_expiry t)
  && wf_opt wf_tb (tx_transp t) && wf_opt wf_sap (tx_sap t) && wf_opt wf_ob (tx_orch t)
  && wf_opt wf_ob (tx_iron t)
  && (is_v6 (tx_ver t) || match tx_iron t with None => true | Some _ => false end).

Definition anchors_uniform (t : tx) : bool :=
  match tx_sap t with
  | None => true
  | Some b => match sa_spends b with
              | [] => true
              | s :: r => forallb (fun x => bytes_eqb (sp_anchor x) (sp_anchor s)) r
              end
  end.

Definition wf_coin (c : coin) : bool := u63b (fst c) && shortb (snd c).
Definition wf_coins (t : tx) (coins : list coin) : bool :=
  forallb wf_coin coins
  && match tx_transp t with
     | None => true
     | Some b => is_coinbase b || Nat.eqb (length coins) (length (tb_vin b))
     end.
Definition wf_sig (s : sigobs) : bool := match s with SG ht _ v sc co d => (ht <? 256) && u63b v && shortb sc && shortb co && len_is 32 d end.
Definition wf_obs (o : obs) : bool :=
  match o with OBS a b c l => len_is 32 a && len_is 32 b && len_is 32 c && forallb wf_sig l end.

(** v3 / v4 *)
Definition wf_js (t : tx4) : bool :=
  match t4_js t with
  | [] => is_nil (t4_jspub t) && is_nil (t4_jssig t)
  | l => forallb (len_is (jslen (t4_ver t))) l && len_is 32 (t4_jspub t) && len_is 64 (t4_jssig t)
  end.
Definition wf_tx4 (t : tx4) : bool :=
  u32b (t4_branch t) && u32b (t4_lock t) && u32b (t4_expiry t) && wf_opt wf_tb (t4_transp t)
  && match t4_sap t with None => true | Some b => is_v4 (t4_ver t) && wf_sap b end
  && wf_js t.
Definition wf_sig4 (s : sig4obs) : bool :=
  match s with SG4 ht _ v sc co d => (ht <? 256) && u63b v && shortb sc && shortb co && len_is 32 d end.
Definition wf_obs4 (o : obs4) : bool :=
  match o with OBS4 a b c l => len_is 32 a && len_is 32 b && len_is 32 c && forallb wf_sig4 l end.

Definition wf_case (c : case) : bool :=
  match c with
  | CTx _ t coins _ txid auth shsig sigs =>
      wf_tx t && wf_coins t coins && len_is 32 txid && len_is 32 auth && len_is 32 shsig && forallb wf_sig sigs
  | CMut f t t' coins coins' o o' =>
      mut_class_ok f t t' && wf_tx t && wf_tx t' && anchors_uniform t && anchors_uniform t'
      && wf_coins t coins && wf_coins t' coins' && wf_obs o && wf_obs o'
  | CV4Txid _ _ a b => len_is 32 a && len_is 32 b
  | CV4Tx _ t o => wf_tx4 t && wf_obs4 o
  | CV4Mut f t t' o o' => mut4_class_ok f t t' && wf_tx4 t && wf_tx4 t' && wf_obs4 o && wf_obs4 o'
  | CVec _ a b => len_is 32 a && len_is 32 b
  | CReparse _ _ a _ => len_is 32 a
  | CPanicTx _ | CPanicTx4 _ | CPanicOther => true
  end.
