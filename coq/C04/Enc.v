(** C04 — unique decodability of the field encodings used inside the digest payloads:
    fixed-width little-endian integers, CompactSize-prefixed scripts, concatenations of
    self-delimiting records. *)
From Coq Require Import ZifyBool.
From V.Lib Require Import Base Hex.
From V.C04 Require Import Model.
Local Open Scope N_scope.

(** * lists *)
Lemma app_inj_len {A} (a a' b b' : list A) :
  length a = length a' -> a ++ b = a' ++ b' -> a = a' /\ b = b'.
Proof.
  revert a'. induction a as [|x a IH]; intros [|y a'] L E; simpl in *; try discriminate; auto.
  injection E as -> E. injection L as L. destruct (IH _ L E) as [-> ->]. auto.
Qed.

Lemma app_inj_len_r {A} (a a' b b' : list A) :
  length b = length b' -> a ++ b = a' ++ b' -> a = a' /\ b = b'.
Proof.
  intros L E. apply app_inj_len; auto.
  apply (f_equal (@length A)) in E. rewrite !app_length in E. lia.
Qed.

Lemma lit_inj a b : lit a = lit b -> a = b.
Proof.
  unfold lit. revert b. induction a as [|x a IH]; intros [|y b] E; simpl in *; try discriminate; auto.
  injection E as -> E. f_equal. auto.
Qed.
Lemma lit_app a b : lit (a ++ b) = lit a ++ lit b.
Proof. apply map_app. Qed.
Lemma lit_length a : length (lit a) = length a.
Proof. apply map_length. Qed.

Lemma map_eq2 {A B C D} (f : A -> B) (g : A -> C) (k : A -> D) :
  (forall x y, f x = f y -> g x = g y -> k x = k y) ->
  forall l1 l2, map f l1 = map f l2 -> map g l1 = map g l2 -> map k l1 = map k l2.
Proof.
  intros H l1. induction l1 as [|x l1 IH]; intros [|y l2] E1 E2; simpl in *; try discriminate; auto.
  injection E1 as E1 E1'. injection E2 as E2 E2'. f_equal; auto.
Qed.
Lemma map_eq3 {A B C D E} (f : A -> B) (g : A -> C) (h : A -> D) (k : A -> E) :
  (forall x y, f x = f y -> g x = g y -> h x = h y -> k x = k y) ->
  forall l1 l2, map f l1 = map f l2 -> map g l1 = map g l2 -> map h l1 = map h l2 -> map k l1 = map k l2.
Proof.
  intros H l1. induction l1 as [|x l1 IH]; intros [|y l2] E1 E2 E3; simpl in *; try discriminate; auto.
  injection E1 as E1 E1'. injection E2 as E2 E2'. injection E3 as E3 E3'. f_equal; auto.
Qed.
Lemma map_eq1 {A B C} (f : A -> B) (k : A -> C) :
  (forall x y, f x = f y -> k x = k y) -> forall l1 l2, map f l1 = map f l2 -> map k l1 = map k l2.
Proof.
  intros H l1. induction l1 as [|x l1 IH]; intros [|y l2] E1; simpl in *; try discriminate; auto.
  injection E1 as E1 E1'. f_equal; auto.
Qed.
Lemma map_id' {A} (l : list A) : map (fun x => x) l = l.
Proof. apply map_id. Qed.

(** * self-delimiting encoders: the encoding of [x] can be split off the front of a string,
    determining [proj x] *)
Section SD.
  Context {A B : Type} (enc : A -> bytes) (P : A -> Prop) (proj : A -> B).
  Definition sdp : Prop :=
    forall x y r r', P x -> P y -> enc x ++ r = enc y ++ r' -> proj x = proj y /\ r = r'.
  Hypothesis SDP : sdp.
  Hypothesis NE : forall x, P x -> enc x <> [].
  Lemma flat_map_sd : forall l1 l2, Forall P l1 -> Forall P l2 ->
    flat_map enc l1 = flat_map enc l2 -> map proj l1 = map proj l2.
  Proof.
    induction l1 as [|x l1 IH]; intros [|y l2] F1 F2 E; simpl in *; auto.
    - inversion F2; subst. symmetry in E. apply app_eq_nil in E. destruct E as [E _]. exfalso. eapply NE; eauto.
    - inversion F1; subst. apply app_eq_nil in E. destruct E as [E _]. exfalso. eapply NE; eauto.
    - inversion F1; inversion F2; subst. destruct (SDP _ _ _ _ H1 H5 E) as [-> E']. f_equal. auto.
  Qed.
  (** also when followed by arbitrary equal-length tails *)
  Lemma flat_map_sd_len : forall l1 l2, Forall P l1 -> Forall P l2 -> length l1 = length l2 ->
    forall r r', flat_map enc l1 ++ r = flat_map enc l2 ++ r' -> map proj l1 = map proj l2 /\ r = r'.
  Proof.
    induction l1 as [|x l1 IH]; intros [|y l2] F1 F2 L r r' E; simpl in *; try discriminate; auto.
    inversion F1; inversion F2; subst. rewrite <- !app_assoc in E.
    destruct (SDP _ _ _ _ H1 H5 E) as [-> E']. injection L as L.
    destruct (IH _ H2 H6 L _ _ E') as [-> ->]. auto.
  Qed.
End SD.

(** a fixed-width encoder is self-delimiting *)
Lemma fixed_sdp {A B} (enc : A -> bytes) (P : A -> Prop) (proj : A -> B) (k : nat) :
  (forall x, P x -> length (enc x) = k) ->
  (forall x y, P x -> P y -> enc x = enc y -> proj x = proj y) ->
  sdp enc P proj.
Proof.
  intros L I x y r r' Px Py E. destruct (app_inj_len _ _ _ _ (eq_trans (L _ Px) (eq_sym (L _ Py))) E); auto.
Qed.

(** * little-endian integers *)
Lemma le_length k : forall x, length (le k x) = k.
Proof. induction k; intros; simpl; auto. Qed.

Lemma le_inj k : forall x y, x < 256 ^ N.of_nat k -> y < 256 ^ N.of_nat k -> le k x = le k y -> x = y.
Proof.
  induction k as [|k IH]; intros x y Hx Hy E.
  - simpl in *. lia.
  - cbn [le] in E. injection E as E0 E1.
    rewrite Nat2N.inj_succ, N.pow_succ_r' in Hx, Hy.
    assert (x / 256 = y / 256).
    { apply IH; auto; apply N.div_lt_upper_bound; lia. }
    rewrite (N.div_mod x 256), (N.div_mod y 256) by lia. congruence.
Qed.

Definition u32 (x : N) : Prop := x < 4294967296.
Definition u63 (x : N) : Prop := x < 9223372036854775808.
Lemma le32_inj x y : u32 x -> u32 y -> le32 x = le32 y -> x = y.
Proof. unfold u32. intros. apply (le_inj 4); auto. Qed.
Lemma le64_inj x y : u63 x -> u63 y -> le64 x = le64 y -> x = y.
Proof. unfold u63. intros. apply (le_inj 8); auto; change (256 ^ N.of_nat 8) with 18446744073709551616; lia. Qed.
Lemma le32_length x : length (le32 x) = 4%nat. Proof. apply le_length. Qed.
Lemma le64_length x : length (le64 x) = 8%nat. Proof. apply le_length. Qed.

Definition i64 (v : Z) : Prop := (-9223372036854775808 <= v < 9223372036854775808)%Z.
Lemma i64le_length v : length (i64le v) = 8%nat. Proof. apply le_length. Qed.
Lemma i64le_inj v w : i64 v -> i64 w -> i64le v = i64le w -> v = w.
Proof.
  unfold i64, i64le, two64. intros Hv Hw E.
  apply (le_inj 8) in E.
  - apply Z2N.inj in E; try (apply Z.mod_pos_bound; lia).
    assert (Hm : forall a, (-9223372036854775808 <= a < 9223372036854775808)%Z ->
                 (a = if (a <? 0)%Z then a mod 18446744073709551616 - 18446744073709551616 else a mod 18446744073709551616)%Z).
    { intros a Ha. destruct (a <? 0)%Z eqn:S.
      - rewrite <- (Z.mod_unique a 18446744073709551616 (-1) (a + 18446744073709551616)); lia.
      - rewrite Z.mod_small; lia. }
    destruct (v <? 0)%Z eqn:Sv, (w <? 0)%Z eqn:Sw.
    + rewrite (Hm v), (Hm w), Sv, Sw by auto. congruence.
    + exfalso. pose proof (Hm v Hv) as A. pose proof (Hm w Hw) as B. rewrite Sv in A. rewrite Sw in B. lia.
    + exfalso. pose proof (Hm v Hv) as A. pose proof (Hm w Hw) as B. rewrite Sv in A. rewrite Sw in B. lia.
    + rewrite (Hm v), (Hm w), Sv, Sw by auto. congruence.
  - change (256 ^ N.of_nat 8) with 18446744073709551616.
    pose proof (Z.mod_pos_bound v 18446744073709551616). lia.
  - change (256 ^ N.of_nat 8) with 18446744073709551616.
    pose proof (Z.mod_pos_bound w 18446744073709551616). lia.
Qed.

(** * CompactSize and scripts *)
Lemma cons_eq {A} (a b : A) l l' : a :: l = b :: l' -> a = b /\ l = l'.
Proof. intros H; inversion H; auto. Qed.
Lemma compact_size_sd n m r r' :
  n < 18446744073709551616 -> m < 18446744073709551616 ->
  compact_size n ++ r = compact_size m ++ r' -> n = m /\ r = r'.
Proof.
  unfold compact_size. intros Hn Hm E.
  destruct (n <? 253) eqn:A1; [|destruct (n <=? 65535) eqn:A2; [|destruct (n <=? 4294967295) eqn:A3]];
  (destruct (m <? 253) eqn:B1; [|destruct (m <=? 65535) eqn:B2; [|destruct (m <=? 4294967295) eqn:B3]]);
  cbn [app] in E; apply cons_eq in E; destruct E as [E0 E]; try lia.
  - subst. auto.
  - destruct (app_inj_len _ _ _ _ (eq_trans (le_length 2 n) (eq_sym (le_length 2 m))) E) as [E1 ->].
    split; auto. apply (le_inj 2); auto; change (256 ^ N.of_nat 2) with 65536; lia.
  - destruct (app_inj_len _ _ _ _ (eq_trans (le_length 4 n) (eq_sym (le_length 4 m))) E) as [E1 ->].
    split; auto. apply (le_inj 4); auto; change (256 ^ N.of_nat 4) with 4294967296; lia.
  - destruct (app_inj_len _ _ _ _ (eq_trans (le_length 8 n) (eq_sym (le_length 8 m))) E) as [E1 ->].
    split; auto. apply (le_inj 8); auto.
Qed.

Definition short (s : bytes) : Prop := N.of_nat (length s) < 18446744073709551616.

Lemma script_enc_sd s s' r r' : short s -> short s' ->
  script_enc s ++ r = script_enc s' ++ r' -> s = s' /\ r = r'.
Proof.
  unfold script_enc, short. intros Hs Hs' E. rewrite <- !app_assoc in E.
  destruct (compact_size_sd _ _ _ _ Hs Hs' E) as [L E'].
  apply Nat2N.inj in L. apply app_inj_len; auto.
Qed.
Lemma script_enc_ne s : script_enc s <> [].
Proof.
  unfold script_enc, compact_size. destruct (_ <? 253); [|destruct (_ <=? 65535); [|destruct (_ <=? 4294967295)]]; discriminate.
Qed.
