(** C04 — the shielded signature hash (SIGHASH_ALL over everything) is injective on all effecting data. *)
From Coq Require Import ZifyBool.
From V.Lib Require Import Base Hex.
From V.Gen Require Import C04Consts.
From V.C04 Require Import Model Spec Corr Wf Enc Proofs.
Local Open Scope N_scope.

Definition txid_form (b : tbundle) : bool := is_coinbase b || match tb_vin b with [] => true | _ => false end.

Lemma txid_form_sig b c i : txid_form b = true ->
  transparent_sig_tree (Some b) c i = Some (transparent_txid_tree (Some b)).
Proof.
  unfold txid_form, transparent_sig_tree, transparent_sig_of. cbn [option_map]. intros ->. reflexivity.
Qed.
Lemma not_txid_form_signing b : txid_form b = false -> signing b.
Proof.
  unfold txid_form, signing. intros H. apply orb_false_iff in H. destruct H as [H1 H2]. split; auto.
  destruct (tb_vin b); [discriminate|]. discriminate.
Qed.

Lemma in_eff_strip x y : in_eff_of x = in_eff_of y -> strip_in x = strip_in y.
Proof. unfold in_eff_of, strip_in. intros E. inversion E. reflexivity. Qed.

Lemma acp_all : flag_acp SIGHASH_ALL = false.
Proof. reflexivity. Qed.

Lemma shielded_transparent_inj b1 b2 c1 c2 tr :
  wf_opt wf_tb b1 = true -> wf_opt wf_tb b2 = true ->
  transparent_sig_tree b1 c1 Shielded = Some tr -> transparent_sig_tree b2 c2 Shielded = Some tr ->
  option_map strip_tb b1 = option_map strip_tb b2.
Proof.
  intros W1 W2 E1 E2.
  destruct b1 as [b1|], b2 as [b2|]; cbn [option_map wf_opt] in *.
  - destruct (txid_form b1) eqn:F1, (txid_form b2) eqn:F2.
    + rewrite (txid_form_sig _ _ _ F1) in E1. rewrite (txid_form_sig _ _ _ F2) in E2.
      injection E1 as E1. injection E2 as E2. rewrite <- E2 in E1.
      apply (transparent_txid_inj (Some b1) (Some b2)); auto.
    + rewrite (txid_form_sig _ _ _ F1) in E1. rewrite (sig_form _ _ _ (not_txid_form_signing _ F2)) in E2.
      injection E1 as E1. injection E2 as E2. rewrite <- E2 in E1.
      unfold transparent_txid_tree, transparent_txid_of, sig_node in E1. cbn [option_map] in E1.
      apply D_inj in E1. destruct E1 as [_ E1]. apply cons_eq in E1. destruct E1 as [E1 _]. discriminate.
    + rewrite (txid_form_sig _ _ _ F2) in E2. rewrite (sig_form _ _ _ (not_txid_form_signing _ F1)) in E1.
      injection E1 as E1. injection E2 as E2. rewrite <- E2 in E1.
      unfold transparent_txid_tree, transparent_txid_of, sig_node in E1. cbn [option_map] in E1.
      apply D_inj in E1. destruct E1 as [_ E1]. apply cons_eq in E1. destruct E1 as [E1 _]. discriminate.
    + rewrite (sig_form _ _ _ (not_txid_form_signing _ F1)) in E1.
      rewrite (sig_form _ _ _ (not_txid_form_signing _ F2)) in E2.
      injection E1 as E1. injection E2 as E2. rewrite <- E2 in E1.
      pose proof (wf_tb_wf _ W1) as P1. pose proof (wf_tb_wf _ W2) as P2.
      (* the amounts/scripts nodes need well-formed coins only to separate coins; we only use inputs/outputs *)
      unfold sig_node in E1. cbn [hash_type] in E1. rewrite acp_all in E1.
      apply D_inj in E1. destruct E1 as [_ E1].
      apply cons_eq in E1. destruct E1 as [_ E1]. apply cons_eq in E1. destruct E1 as [Ep E1].
      apply cons_eq in E1. destruct E1 as [_ E1]. apply cons_eq in E1. destruct E1 as [_ E1].
      apply cons_eq in E1. destruct E1 as [Eq E1]. apply cons_eq in E1. destruct E1 as [Eo _].
      apply sub_inj in Ep, Eq, Eo. destruct P1 as [I1 O1], P2 as [I2 O2].
      apply prevouts_inj in Ep; auto. apply sequence_inj in Eq; auto.
      cbn [covered_outputs] in Eo. apply outputs_inj in Eo; auto.
      unfold strip_tb. f_equal. f_equal; auto.
      exact (map_eq2 _ _ _ strip_in_eq _ _ Ep Eq).
  - destruct (txid_form b1) eqn:F1.
    + rewrite (txid_form_sig _ _ _ F1) in E1. injection E1 as E1. injection E2 as E2. rewrite <- E2 in E1.
      apply D_inj in E1. destruct E1 as [_ E1]. discriminate.
    + rewrite (sig_form _ _ _ (not_txid_form_signing _ F1)) in E1. injection E1 as E1. injection E2 as E2.
      rewrite <- E2 in E1. apply D_inj in E1. destruct E1 as [_ E1]. discriminate.
  - destruct (txid_form b2) eqn:F2.
    + rewrite (txid_form_sig _ _ _ F2) in E2. injection E1 as E1. injection E2 as E2. rewrite <- E2 in E1.
      apply D_inj in E1. destruct E1 as [_ E1]. discriminate.
    + rewrite (sig_form _ _ _ (not_txid_form_signing _ F2)) in E2. injection E1 as E1. injection E2 as E2.
      rewrite <- E2 in E1. apply D_inj in E1. destruct E1 as [_ E1]. discriminate.
  - reflexivity.
Qed.

Lemma shielded_sighash_injective t t' c c' d : wf_tx t = true -> wf_tx t' = true ->
  sighash_tree t c Shielded = Some d -> sighash_tree t' c' Shielded = Some d -> effects t = effects t'.
Proof.
  intros W W' E E'. rewrite sighash_tree_root in E, E'.
  destruct (transparent_sig_tree (tx_transp t) c Shielded) as [tr|] eqn:T; [|discriminate].
  destruct (transparent_sig_tree (tx_transp t') c' Shielded) as [tr'|] eqn:T'; [|discriminate].
  cbn [option_map] in *. injection E as E. injection E' as E'. rewrite <- E' in E.
  destruct (root_inj _ _ _ _ W W' E) as [En Et]. subst tr'.
  apply effects_split; auto.
  unfold wf_tx in W, W'. bsplit. eapply shielded_transparent_inj; eauto.
Qed.
