(** C04 — decidable (boolean) equality of digest terms, with its specification. *)
From V.Lib Require Import Base Hex.
From V.C04 Require Import Model Spec.
Local Open Scope N_scope.

Fixpoint dig_eqb (a b : dig) : bool :=
  match a, b with
  | D p l, D p' l' =>
      bytes_eqb p p'
      && (fix go (l l' : list (N + dig)) : bool :=
            match l, l' with
            | [], [] => true
            | inl x :: r, inl y :: r' => N.eqb x y && go r r'
            | inr d :: r, inr d' :: r' => dig_eqb d d' && go r r'
            | _, _ => false
            end) l l'
  | Val x, Val y => bytes_eqb x y
  | _, _ => false
  end.
Definition odig_eqb (a b : option dig) : bool :=
  match a, b with
  | Some x, Some y => dig_eqb x y
  | None, None => true
  | _, _ => false
  end.

(** induction principle for the nested inductive *)
Definition sub_all (P : dig -> Prop) (l : list (N + dig)) : Prop :=
  Forall (fun a => match a with inl _ => True | inr d => P d end) l.
Fixpoint dig_ind' (P : dig -> Prop)
  (HD : forall p l, sub_all P l -> P (D p l)) (HV : forall b, P (Val b)) (d : dig) : P d :=
  match d with
  | D p l =>
      HD p l ((fix go (l : list (N + dig)) : sub_all P l :=
                 match l with
                 | [] => Forall_nil _
                 | inl x :: r => Forall_cons (inl x) I (go r)
                 | inr s :: r => Forall_cons (inr s) (dig_ind' P HD HV s) (go r)
                 end) l)
  | Val b => HV b
  end.

Lemma dig_eqb_spec a : forall b, dig_eqb a b = true <-> a = b.
Proof.
  induction a as [p l IH|x] using dig_ind'; intros [p' l'|y]; cbn [dig_eqb]; try (split; congruence).
  - rewrite andb_true_iff, bytes_eqb_spec.
    assert (G : forall l', (fix go (l l' : list (N + dig)) : bool :=
            match l, l' with
            | [], [] => true
            | inl x :: r, inl y :: r' => N.eqb x y && go r r'
            | inr d :: r, inr d' :: r' => dig_eqb d d' && go r r'
            | _, _ => false
            end) l l' = true <-> l = l').
    { clear p p'. induction IH as [|a r Ha Hr IHr]; intros [|b r']; try (split; congruence).
      - destruct a; split; congruence.
      - destruct a as [x|d], b as [y|d']; try (split; congruence).
        + rewrite andb_true_iff, N.eqb_eq, IHr. split; [intros [-> ->]; reflexivity | intros E; inversion E; auto].
        + rewrite andb_true_iff, Ha, IHr. split; [intros [-> ->]; reflexivity | intros E; inversion E; auto]. }
    rewrite G. split; [intros [-> ->]; reflexivity | intros E; inversion E; auto].
  - rewrite bytes_eqb_spec. split; congruence.
Qed.
Lemma odig_eqb_spec a b : odig_eqb a b = true <-> a = b.
Proof.
  destruct a, b; cbn; try (split; congruence). rewrite dig_eqb_spec. split; congruence.
Qed.
