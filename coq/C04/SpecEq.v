(** C04 — the boolean equalities used by the correspondence on signature-hash views reflect equality. *)
From V.Lib Require Import Base Hex.
From V.C04 Require Import Model Spec.
Local Open Scope N_scope.

Lemma in_eff_eqb_spec a b : in_eff_eqb a b = true <-> a = b.
Proof.
  destruct a as [[h1 n1] s1], b as [[h2 n2] s2]; unfold in_eff_eqb.
  rewrite !andb_true_iff, bytes_eqb_spec, !N.eqb_eq.
  split; [intros [[-> ->] ->]; reflexivity | intros E; inversion E; auto].
Qed.
Lemma coin_eqb_spec a b : coin_eqb a b = true <-> a = b.
Proof.
  destruct a, b; unfold coin_eqb; cbn. rewrite andb_true_iff, bytes_eqb_spec, N.eqb_eq.
  split; [intros [-> ->]; reflexivity | intros E; inversion E; auto].
Qed.
Lemma tview_eqb_spec a b : tview_eqb a b = true <-> a = b.
Proof.
  destruct a as [|i1 o1|h1 i1 o1 x1], b as [|i2 o2|h2 i2 o2 x2]; cbn; try (split; congruence).
  - rewrite andb_true_iff, (list_eqb_spec _ in_eff_eqb_spec), (list_eqb_spec _ txout_eqb_spec).
    split; [intros [-> ->]; reflexivity | intros E; inversion E; auto].
  - rewrite !andb_true_iff, N.eqb_eq, (list_eqb_spec _ txout_eqb_spec).
    rewrite (option_eqb_spec (fun p q => list_eqb in_eff_eqb (fst p) (fst q) && list_eqb coin_eqb (snd p) (snd q))).
    2:{ intros [a1 a2] [b1 b2]; cbn. rewrite andb_true_iff, (list_eqb_spec _ in_eff_eqb_spec), (list_eqb_spec _ coin_eqb_spec).
        split; [intros [-> ->]; reflexivity | intros E; inversion E; auto]. }
    rewrite (option_eqb_spec (fun p q => match p, q with (e1, v1, s1), (e2, v2, s2) =>
                                  in_eff_eqb e1 e2 && N.eqb v1 v2 && bytes_eqb s1 s2 end)).
    2:{ intros [[e1 v1] s1] [[e2 v2] s2]. rewrite !andb_true_iff, in_eff_eqb_spec, N.eqb_eq, bytes_eqb_spec.
        split; [intros [[-> ->] ->]; reflexivity | intros E; inversion E; auto]. }
    split; [intros [[[-> ->] ->] ->]; reflexivity | intros E; inversion E; auto].
Qed.
Lemma sview_eqb_spec a b : sview_eqb a b = true <-> a = b.
Proof.
  unfold sview_eqb. apply option_eqb_spec. intros [t1 v1] [t2 v2]; cbn.
  rewrite andb_true_iff, tx_eqb_spec, tview_eqb_spec.
  split; [intros [-> ->]; reflexivity | intros E; inversion E; auto].
Qed.
