(** C04 — correspondence cases printed by harness/wallet/src/bin/c04.rs.

    [prop_case] evaluates the property on the implementation's digests:
    - [CTx]: txid, authorising-data commitment, shielded and transparent signature hashes equal
      the evaluation (Gallina BLAKE2b) of the ZIP 244 trees of the structured transaction;
    - [CMut]: for a pair of transactions differing in one field, equality of the implementation's
      digests coincides with equality of the data they must commit to ([Spec.effects],
      [Spec.sig_view]); same effects and different transactions give different auth commitments;
      the field's classification (effecting / authorising) is the one of [Spec.field_is_auth];
    - [CV4Txid] / [CV4Mut]: v1-v4 txid is the SHA-256d of the serialisation (computed by the
      harness with the sha2 crate) and single-field changes show up in exactly the digests ZIP
      143/243 define to cover them.
    [run_case] ties the model's node structure to the implementation's published component
    digests ([TxDigests]): leaf digests of header and transparent parts, and the root combined
    from the implementation's own component digests. *)
From Coq Require Import String Uint63.
From V.Lib Require Import Base Hex Blake2b.
From V.Gen Require Import C04Consts.
From V.C04 Require Import Model Spec.
Local Open Scope N_scope.

(** Byte strings are printed by the harness as a length and a list of 7-byte big-endian chunks in
    primitive-integer literals (Coq parses these an order of magnitude faster than string or [N]
    literals). *)
Fixpoint be_acc (k : nat) (x : N) (acc : bytes) : bytes :=
  match k with O => acc | S k' => be_acc k' (N.shiftr x 8) (N.land x 255 :: acc) end.
Definition be (k : nat) (x : N) : bytes := be_acc k x [].
Fixpoint hb_go (len : nat) (l : list int) : bytes :=
  match l with
  | [] => []
  | x :: r => let k := Nat.min 7 len in be k (Z.to_N (Uint63.to_Z x)) ++ hb_go (len - k) r
  end.
Definition h (len : nat) (l : list int) : bytes := hb_go len l.
Arguments h len%nat l%uint63.

(* short constructor names used by the harness printer *)
Definition TI := Build_txin.
Definition TO := Build_txout.
Definition TB := Build_tbundle.
Definition SS := Build_sspend.
Definition SO := Build_soutput.
Definition SA := Build_sapling.
Definition OA := Build_oaction.
Definition OB := Build_obundle.
Definition TX := Build_tx.

Inductive sigobs := SG (ht : N) (idx : nat) (value : N) (script : bytes) (d : bytes).
Inductive obs := OBS (txid auth shsig : bytes) (sigs : list sigobs).

Inductive case :=
| CTx (tag : N) (t : tx) (coins : list coin) (parts : list bytes) (txid auth shsig : bytes) (sigs : list sigobs)
| CMut (field : N) (t t' : tx) (coins coins' : list coin) (o o' : obs)
| CV4Txid (ver branch : N) (txid sha : bytes)
| CV4Mut (field ver : N) (idx j n_out : nat) (txid txid' sha sha' : bytes) (sigs : list (N * bytes * bytes)).

Definition is_nil {A} (l : list A) : bool := match l with [] => true | _ => false end.
Definition eval_opt (d : option dig) : option bytes := option_map eval d.
Definition eq_opt (d : option dig) (b : bytes) : bool :=
  match d with Some d => bytes_eqb (eval d) b | None => false end.

Definition sig_ok (t : tx) (p : parts) (coins : list coin) (s : sigobs) : bool :=
  match s with SG ht idx v sc d => eq_opt (sighash_from t p coins (Transp ht idx v sc)) d end.

(** * The property on the implementation's outcome *)
Definition sig_pair_ok (t t' : tx) (coins coins' : list coin) (s s' : sigobs) : bool :=
  match s, s' with
  | SG ht idx v sc d, SG ht' idx' v' sc' d' =>
      Bool.eqb (bytes_eqb d d')
               (sview_eqb (sig_view t coins (Transp ht idx v sc)) (sig_view t' coins' (Transp ht' idx' v' sc')))
  end.
Fixpoint sig_pairs_ok (t t' : tx) (coins coins' : list coin) (l l' : list sigobs) : bool :=
  match l, l' with
  | s :: r, s' :: r' => sig_pair_ok t t' coins coins' s s' && sig_pairs_ok t t' coins coins' r r'
  | [], [] => true
  | _, _ => false
  end.

Definition v4_sig_ok (f : N) (idx j n_out : nat) (s : N * bytes * bytes) : bool :=
  match s with (k, a, b) => Bool.eqb (negb (bytes_eqb a b)) (v4_covers f k idx j n_out) end.

Definition prop_case (c : case) : bool :=
  match c with
  | CTx _ t coins _ txid auth shsig sigs =>
      let p := eval_parts (parts_of t) in
      bytes_eqb (eval (txid_from t p)) txid
      && bytes_eqb (eval (auth_tree t)) auth
      && eq_opt (sighash_from t p coins Shielded) shsig
      && forallb (sig_ok t p coins) sigs
  | CMut f t t' coins coins' (OBS txid auth shsig sigs) (OBS txid' auth' shsig' sigs') =>
      let same_eff := effects_eqb t t' in
      let same := tx_eqb t t' in
      (* the harness's field classification is the specification's *)
      (if field_is_context f then same
       else negb same && Bool.eqb same_eff (field_is_auth (tx_ver t) f))
      (* txid: equal exactly when the effecting data are equal *)
      && Bool.eqb (bytes_eqb txid txid') same_eff
      (* auth commitment: with equal effecting data, equal exactly when nothing changed *)
      && (if same_eff then Bool.eqb (bytes_eqb auth auth') same else true)
      (* signature hashes: equal exactly when the covered data are equal *)
      && Bool.eqb (bytes_eqb shsig shsig')
                  (sview_eqb (sig_view t coins Shielded) (sig_view t' coins' Shielded))
      && sig_pairs_ok t t' coins coins' sigs sigs'
  | CV4Txid _ _ txid sha => bytes_eqb txid sha
  | CV4Mut f _ idx j n_out txid txid' sha sha' sigs =>
      bytes_eqb txid sha && bytes_eqb txid' sha' && negb (bytes_eqb txid txid')
      && forallb (v4_sig_ok f idx j n_out) sigs
  end.

(** * Model versus the implementation's component digests *)
Definition part (l : list bytes) (i : nat) : bytes := nth i l [].
Definition val_or (b : bytes) (d : dig) : dig := if is_nil b then d else Val b.
Definition impl_parts (t : tx) (l : list bytes) : parts :=
  {| pt_hdr := Val (part l 0);
     pt_td := if is_nil (part l 1) then None
              else Some {| td_prevouts := Val (part l 1); td_sequence := Val (part l 2);
                           td_outputs := Val (part l 3) |};
     pt_sap := val_or (part l 4) (sapling_txid_tree (tx_ver t) None);
     pt_orc := val_or (part l 5) (orchard_txid_tree (orchard_fmt (tx_ver t)) None);
     pt_iron := val_or (part l 6) (orchard_txid_tree IronwoodV6 None) |}.

Definition run_case (c : case) : bool :=
  match c with
  | CTx _ t coins l txid _ _ _ =>
      bytes_eqb (eval (header_tree t)) (part l 0)
      && match tx_transp t with
         | None => is_nil (part l 1) && is_nil (part l 2) && is_nil (part l 3)
         | Some b => bytes_eqb (eval (prevouts_tree (tb_vin b))) (part l 1)
                     && bytes_eqb (eval (sequence_tree (tb_vin b))) (part l 2)
                     && bytes_eqb (eval (outputs_tree (tb_vout b))) (part l 3)
         end
      && Bool.eqb (is_nil (part l 4)) (match tx_sap t with None => true | Some _ => false end)
      && Bool.eqb (is_nil (part l 5)) (match tx_orch t with None => true | Some _ => false end)
      && Bool.eqb (is_nil (part l 6)) (match tx_iron t with None => true | Some _ => false end)
      && bytes_eqb (eval (txid_from t (impl_parts t l))) txid
  | _ => true
  end.

Definition known_class (c : case) : N := 0.

(** Path tags: stream and transparent shape for [CTx]; field code for mutations. *)
Definition tshape (t : tx) : N :=
  match tx_transp t with
  | None => 0
  | Some b => if is_coinbase b then 1 else if is_nil (tb_vin b) then 2 else if is_nil (tb_vout b) then 3 else 4
  end.
Definition tag_case (c : case) : N :=
  match c with
  | CTx tag t _ _ _ _ _ _ => 10 * tag + tshape t
  | CMut f t _ _ _ _ _ => (if is_v6 (tx_ver t) then 200 else 100) + f
  | CV4Txid v _ _ _ => 300 + v
  | CV4Mut f v _ _ _ _ _ _ _ _ => 400 + 100 * (v - 3) + f
  end.
