(** C04 — correspondence cases printed by harness/wallet/src/bin/c04.rs.

    [prop_case] evaluates the property on the implementation's digests:
    - [CTx]: txid, authorising-data commitment, shielded and transparent signature hashes equal
      the evaluation (Gallina BLAKE2b) of the ZIP 244 trees of the structured transaction;
    - [CMut]: for a pair of transactions differing in one field, equality of the implementation's
      digests coincides with equality of the data they must commit to ([Spec.effects],
      [Spec.sig_view]); same effects and different transactions give different auth commitments;
      the field's classification (effecting / authorising) is the one of [Spec.field_is_auth];
    - [CV4Txid] / [CV4Tx] / [CV4Mut]: v1-v4 txid is the SHA-256d of the serialisation (computed by
      the harness with the sha2 crate); v3/v4 signature hashes equal the evaluation of the ZIP
      143/243 trees ([ModelV4]); for a single-field mutation pair, equality of the signature hashes
      coincides with equality of the views ZIP 143/243 define them to cover.
    [run_case] ties the model's node structure to the implementation's published component
    digests ([TxDigests]): leaf digests of header and transparent parts, and the root combined
    from the implementation's own component digests. *)
From Coq Require Import String Uint63.
From V.Lib Require Import Base Hex Blake2b.
From V.Gen Require Import C04Consts.
From V.C04 Require Import Model ModelV4 Spec SpecV4 DigEq.
Local Open Scope N_scope.

(** Byte strings are printed by the harness as a length and a list of 7-byte big-endian chunks in
    primitive-integer literals (Coq parses these an order of magnitude faster than string or [N]
    literals). *)
Fixpoint be_acc (k : nat) (x : N) (acc : bytes) : bytes :=
  match k with O => acc | S k' => be_acc k' (N.shiftr x 8) (N.land x 255 :: acc) end.
Definition be (k : nat) (x : N) : bytes := be_acc k x [].
Fixpoint hb_go (len : nat) (l : list int) : bytes :=
  match l with
  | [] => []
  | x :: r => let k := Nat.min 7 len in be k (Z.to_N (Uint63.to_Z x)) ++ hb_go (len - k) r
  end.
Definition h (len : nat) (l : list int) : bytes := hb_go len l.
Arguments h len%nat l%uint63.

(* short constructor names used by the harness printer *)
Definition TI := Build_txin.
Definition TO := Build_txout.
Definition TB := Build_tbundle.
Definition SS := Build_sspend.
Definition SO := Build_soutput.
Definition SA := Build_sapling.
Definition OA := Build_oaction.
Definition OB := Build_obundle.
Definition TX := Build_tx.
Definition TX4 := Build_tx4.

(** [script] = scriptPubKey of the coin, [code] = the script code handed to the signer (the redeem
    script of a P2SH coin): ZIP 244 commits to the former and not to the latter. *)
Inductive sigobs := SG (ht : N) (idx : nat) (value : N) (script : bytes) (code : bytes) (d : bytes).
Inductive obs := OBS (txid auth shsig : bytes) (sigs : list sigobs).

(** v3/v4 observations: txid, SHA-256d of the serialisation (harness, sha2 crate), shielded
    sighash and transparent sighashes (the scriptPubKey is handed to the API as well; ZIP 143/243
    do not commit to it). *)
Inductive sig4obs := SG4 (ht : N) (idx : nat) (value : N) (script code : bytes) (d : bytes).
Inductive obs4 := OBS4 (txid sha shsig : bytes) (sigs : list sig4obs).

Inductive case :=
| CTx (tag : N) (t : tx) (coins : list coin) (parts : list bytes) (txid auth shsig : bytes) (sigs : list sigobs)
| CMut (field : N) (t t' : tx) (coins coins' : list coin) (o o' : obs)
| CV4Txid (ver branch : N) (txid sha : bytes)
| CV4Tx (tag : N) (t : tx4) (o : obs4)
| CV4Mut (field : N) (t t' : tx4) (o o' : obs4)
| CVec (zip : N) (expected observed : bytes)    (* a published ZIP 143/243/244 vector value *)
(* the txid of the transaction parsed back from its serialisation through a reader that returns at
   most [k] bytes per call ([k] = 0: unfragmented); [expected] = SHA-256d of the bytes before v5,
   the txid of the built transaction from v5 on *)
| CReparse (ver k : N) (expected observed : bytes)
(* the implementation panicked while computing txid / auth commitment / a signature hash of a
   transaction it accepted through from_parts: always a property failure *)
| CPanicTx (t : tx)
| CPanicTx4 (t : tx4)
| CPanicOther.

Definition is_nil {A} (l : list A) : bool := match l with [] => true | _ => false end.
Definition eval_opt (d : option dig) : option bytes := option_map eval d.
Definition eq_opt (d : option dig) (b : bytes) : bool :=
  match d with Some d => bytes_eqb (eval d) b | None => false end.

Definition sig_ok (t : tx) (p : parts) (coins : list coin) (s : sigobs) : bool :=
  match s with SG ht idx v sc _ d => eq_opt (sighash_from t p coins (Transp ht idx v sc)) d end.

(** * The property on the implementation's outcome *)
Definition sig_pair_ok (t t' : tx) (coins coins' : list coin) (s s' : sigobs) : bool :=
  match s, s' with
  | SG ht idx v sc _ d, SG ht' idx' v' sc' _ d' =>
      Bool.eqb (bytes_eqb d d')
               (sview_eqb (sig_view t coins (Transp ht idx v sc)) (sig_view t' coins' (Transp ht' idx' v' sc')))
  end.
Fixpoint sig_pairs_ok (t t' : tx) (coins coins' : list coin) (l l' : list sigobs) : bool :=
  match l, l' with
  | s :: r, s' :: r' => sig_pair_ok t t' coins coins' s s' && sig_pairs_ok t t' coins coins' r r'
  | [], [] => true
  | _, _ => false
  end.

Definition sig4_ok (t : tx4) (s : sig4obs) : bool :=
  match s with SG4 ht idx v _ code d => eq_opt (sighash4_tree t (Transp4 ht idx v code)) d end.
Definition digests4_ok (t : tx4) (o : obs4) : bool :=
  match o with
  | OBS4 txid sha shsig sigs =>
      bytes_eqb txid sha && eq_opt (sighash4_tree t Shielded4) shsig && forallb (sig4_ok t) sigs
  end.
Definition sig4_pair_ok (t t' : tx4) (s s' : sig4obs) : bool :=
  match s, s' with
  | SG4 ht idx v _ code d, SG4 ht' idx' v' _ code' d' =>
      Bool.eqb (bytes_eqb d d')
               (oview4_eqb (view4_of t (Transp4 ht idx v code)) (view4_of t' (Transp4 ht' idx' v' code')))
  end.
Fixpoint sig4_pairs_ok (t t' : tx4) (l l' : list sig4obs) : bool :=
  match l, l' with
  | s :: r, s' :: r' => sig4_pair_ok t t' s s' && sig4_pairs_ok t t' r r'
  | [], [] => true
  | _, _ => false
  end.
Definition sig4_pair_run (t t' : tx4) (s s' : sig4obs) : bool :=
  match s, s' with
  | SG4 ht idx v _ code d, SG4 ht' idx' v' _ code' d' =>
      Bool.eqb (bytes_eqb d d')
               (odig_eqb (sighash4_tree t (Transp4 ht idx v code)) (sighash4_tree t' (Transp4 ht' idx' v' code')))
  end.
Fixpoint sig4_pairs_run (t t' : tx4) (l l' : list sig4obs) : bool :=
  match l, l' with
  | s :: r, s' :: r' => sig4_pair_run t t' s s' && sig4_pairs_run t t' r r'
  | [], [] => true
  | _, _ => false
  end.
(** a v3/v4 mutation either changes the transaction or (fields 90..) only the signing context *)
Definition mut4_class_ok (f : N) (t t' : tx4) : bool := Bool.eqb (tx4_eqb t t') (field_is_context f).
(** the signature-hash clauses of a v3/v4 mutation pair *)
Definition mut4_sigs_ok (t t' : tx4) (o o' : obs4) : bool :=
  match o, o' with
  | OBS4 _ _ shsig sigs, OBS4 _ _ shsig' sigs' =>
      Bool.eqb (bytes_eqb shsig shsig') (oview4_eqb (view4_of t Shielded4) (view4_of t' Shielded4))
      && sig4_pairs_ok t t' sigs sigs'
  end.

(** the digests of one transaction against the evaluated trees (component digests evaluated once) *)
Definition digests_ok (t : tx) (coins : list coin) (txid auth shsig : bytes) (sigs : list sigobs) : bool :=
  let p := eval_parts (parts_of t) in
  bytes_eqb (eval (txid_from t p)) txid
  && bytes_eqb (eval (auth_tree t)) auth
  && eq_opt (sighash_from t p coins Shielded) shsig
  && forallb (sig_ok t p coins) sigs.

(** the harness's label of a mutation is the specification's classification of what changed *)
Definition mut_class_ok (f : N) (t t' : tx) : bool :=
  if field_is_context f then tx_eqb t t'
  else negb (tx_eqb t t') && Bool.eqb (effects_eqb t t') (field_is_auth (tx_ver t) f).

Definition prop_case (c : case) : bool :=
  match c with
  | CTx _ t coins _ txid auth shsig sigs => digests_ok t coins txid auth shsig sigs
  | CMut f t t' coins coins' (OBS txid auth shsig sigs) (OBS txid' auth' shsig' sigs') =>
      let same_eff := effects_eqb t t' in
      let same := tx_eqb t t' in
      (* the harness's field classification is the specification's *)
      mut_class_ok f t t'
      (* txid: equal exactly when the effecting data are equal *)
      && Bool.eqb (bytes_eqb txid txid') same_eff
      (* auth commitment: with equal effecting data, equal exactly when nothing changed *)
      && (if same_eff then Bool.eqb (bytes_eqb auth auth') same else true)
      (* signature hashes: equal exactly when the covered data are equal *)
      && Bool.eqb (bytes_eqb shsig shsig')
                  (sview_eqb (sig_view t coins Shielded) (sig_view t' coins' Shielded))
      && sig_pairs_ok t t' coins coins' sigs sigs'
  | CV4Txid _ _ txid sha => bytes_eqb txid sha
  | CV4Tx _ t o => digests4_ok t o
  | CV4Mut f t t' (OBS4 txid sha shsig sigs as o) (OBS4 txid' sha' shsig' sigs' as o') =>
      mut4_class_ok f t t'
      (* the identifier is the SHA-256d of the serialisation and changes exactly with the transaction *)
      && bytes_eqb txid sha && bytes_eqb txid' sha' && Bool.eqb (bytes_eqb txid txid') (tx4_eqb t t')
      (* signature hashes: equal exactly when what ZIP 143/243 define them to cover is equal *)
      && mut4_sigs_ok t t' o o'
  | CVec _ e o => bytes_eqb e o
  | CReparse _ _ e o => bytes_eqb e o
  | CPanicTx _ | CPanicTx4 _ | CPanicOther => false
  end.

(** * Model versus the implementation's component digests *)
Definition part (l : list bytes) (i : nat) : bytes := nth i l [].
Definition val_or (b : bytes) (d : dig) : dig := if is_nil b then d else Val b.
Definition impl_parts (t : tx) (l : list bytes) : parts :=
  {| pt_hdr := Val (part l 0);
     pt_td := if is_nil (part l 1) then None
              else Some {| td_prevouts := Val (part l 1); td_sequence := Val (part l 2);
                           td_outputs := Val (part l 3) |};
     pt_sap := val_or (part l 4) (sapling_txid_tree (tx_ver t) None);
     pt_orc := val_or (part l 5) (orchard_txid_tree (orchard_fmt (tx_ver t)) None);
     pt_iron := val_or (part l 6) (orchard_txid_tree IronwoodV6 None) |}.

Definition sig_pair_run (t t' : tx) (coins coins' : list coin) (s s' : sigobs) : bool :=
  match s, s' with
  | SG ht idx v sc _ d, SG ht' idx' v' sc' _ d' =>
      Bool.eqb (bytes_eqb d d')
               (odig_eqb (sighash_tree t coins (Transp ht idx v sc)) (sighash_tree t' coins' (Transp ht' idx' v' sc')))
  end.
Fixpoint sig_pairs_run (t t' : tx) (coins coins' : list coin) (l l' : list sigobs) : bool :=
  match l, l' with
  | s :: r, s' :: r' => sig_pair_run t t' coins coins' s s' && sig_pairs_run t t' coins coins' r r'
  | [], [] => true
  | _, _ => false
  end.

Definition run_case (c : case) : bool :=
  match c with
  | CTx _ t coins l txid auth shsig sigs =>
      bytes_eqb (eval (header_tree t)) (part l 0)
      && match tx_transp t with
         | None => is_nil (part l 1) && is_nil (part l 2) && is_nil (part l 3)
         | Some b => bytes_eqb (eval (prevouts_tree (tb_vin b))) (part l 1)
                     && bytes_eqb (eval (sequence_tree (tb_vin b))) (part l 2)
                     && bytes_eqb (eval (outputs_tree (tb_vout b))) (part l 3)
         end
      && Bool.eqb (is_nil (part l 4)) (match tx_sap t with None => true | Some _ => false end)
      && Bool.eqb (is_nil (part l 5)) (match tx_orch t with None => true | Some _ => false end)
      && Bool.eqb (is_nil (part l 6)) (match tx_iron t with None => true | Some _ => false end)
      && bytes_eqb (eval (txid_from t (impl_parts t l))) txid
      && digests_ok t coins txid auth shsig sigs
  | CMut _ t t' coins coins' (OBS txid auth shsig sigs) (OBS txid' auth' shsig' sigs') =>
      (* equality of the implementation's digests coincides with equality of the model's pre-images *)
      Bool.eqb (bytes_eqb txid txid') (dig_eqb (txid_tree t) (txid_tree t'))
      && Bool.eqb (bytes_eqb auth auth') (dig_eqb (auth_tree t) (auth_tree t'))
      && Bool.eqb (bytes_eqb shsig shsig')
                  (odig_eqb (sighash_tree t coins Shielded) (sighash_tree t' coins' Shielded))
      && sig_pairs_run t t' coins coins' sigs sigs'
  | CV4Mut _ t t' (OBS4 _ _ shsig sigs) (OBS4 _ _ shsig' sigs') =>
      Bool.eqb (bytes_eqb shsig shsig') (odig_eqb (sighash4_tree t Shielded4) (sighash4_tree t' Shielded4))
      && sig4_pairs_run t t' sigs sigs'
  | _ => true
  end.

Definition known_class (c : case) : N := 0.

(** Path tags: stream and transparent shape for [CTx]; field code for mutations. *)
Definition tshape (t : tx) : N :=
  match tx_transp t with
  | None => 0
  | Some b => if is_coinbase b then 1 else if is_nil (tb_vin b) then 2 else if is_nil (tb_vout b) then 3 else 4
  end.
Definition tag_case (c : case) : N :=
  match c with
  | CTx tag t _ _ _ _ _ _ => 10 * tag + tshape t
  | CMut f t _ _ _ _ _ => (if is_v6 (tx_ver t) then 200 else 100) + f
  | CV4Txid v _ _ _ => 300 + v
  | CV4Tx tag t _ => 310 + 10 * tag + (if is_v4 (t4_ver t) then 1 else 0)
  | CV4Mut f t _ _ _ => 400 + (if is_v4 (t4_ver t) then 100 else 0) + f
  | CVec z _ _ => 1000 + z
  | CReparse v k _ _ => 1100 + 10 * v + (if k =? 0 then 0 else if k <? 32 then 1 else if k <? 64 then 2 else 3)
  | CPanicTx _ => 2000
  | CPanicTx4 _ => 2001
  | CPanicOther => 2002
  end.
