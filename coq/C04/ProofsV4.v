(** C04 — ZIP 143/243: the signature-hash pre-image determines, and is determined by, the view. *)
From Coq Require Import ZifyBool.
From V.Lib Require Import Base Hex.
From V.Gen Require Import C04Consts.
From V.C04 Require Import Model ModelV4 Spec Corr Wf Enc Proofs.
Local Open Scope N_scope.

Definition wf_outpoint (p : bytes * N) : Prop := length (fst p) = 32%nat /\ u32 (snd p).
Definition wf_spend4 (s : sspend) : Prop :=
  length (sp_cv s) = 32%nat /\ length (sp_anchor s) = 32%nat /\ length (sp_nf s) = 32%nat
  /\ length (sp_rk s) = 32%nat /\ length (sp_proof s) = 192%nat /\ sp_sig s = [].
Definition wf_in4 (x : bytes * N * N * bytes * N) : Prop :=
  match x with (h, n, sq, code, value) => length h = 32%nat /\ u32 n /\ u32 sq /\ short code /\ u63 value end.
Definition oall {A} (P : A -> Prop) (o : option (list A)) : Prop := match o with Some l => Forall P l | None => True end.

Definition view4_ok (w : view4) : Prop :=
  u32 (w_branch w) /\ u32 (w_lock w) /\ u32 (w_expiry w) /\ u32 (w_ht w)
  /\ oall wf_outpoint (w_prev w) /\ oall u32 (w_seq w) /\ oall wf_out_p (w_outs w)
  /\ match w_js w with
     | Some (l, pub) => l <> [] /\ Forall (fun j => length j = jslen (w_ver w)) l /\ length pub = 32%nat
     | None => True
     end
  /\ oall wf_spend4 (w_spends w) /\ oall wf_sout_p (w_souts w) /\ i64 (w_vb w)
  /\ (is_v4 (w_ver w) = false -> w_spends w = None /\ w_souts w = None /\ w_vb w = 0%Z)
  /\ match w_in w with Some x => wf_in4 x | None => True end.

(** * slots *)
Lemma slot_inj a b r r' : slot a ++ r = slot b ++ r' -> a = b /\ r = r'.
Proof.
  destruct a as [a|], b as [b|]; unfold slot, zero32, lit; cbn [app repeat map]; intros E.
  - apply cons_eq in E. destruct E as [E ->]. apply sub_inj in E. subst. auto.
  - apply cons_eq in E. destruct E as [E _]. discriminate.
  - apply cons_eq in E. destruct E as [E _]. discriminate.
  - split; auto.
    repeat (apply cons_eq in E; destruct E as [_ E]). exact E.
Qed.

Lemma omap_inj {A} (f : A -> dig) (P : A -> Prop) (a b : option A) :
  (forall x y, P x -> P y -> f x = f y -> x = y) ->
  match a with Some x => P x | None => True end -> match b with Some x => P x | None => True end ->
  option_map f a = option_map f b -> a = b.
Proof. intros H Pa Pb E. destruct a, b; cbn in *; try discriminate; auto. injection E as E. f_equal; auto. Qed.

(** * nodes *)
Lemma outpoint_sdp : sdp outpoint_enc wf_outpoint (fun p => p).
Proof.
  apply (fixed_sdp _ _ _ 36%nat).
  - intros [h n] [L _]. unfold outpoint_enc. cbn [fst snd] in *. rewrite app_length, le32_length, L. reflexivity.
  - intros [h n] [h' n'] [L U] [L' U'] E. unfold outpoint_enc in E. cbn [fst snd] in *.
    split_app E Eh E. f_equal; auto using le32_inj.
Qed.
Lemma outpoint_ne p : wf_outpoint p -> outpoint_enc p <> [].
Proof.
  intros _ E. apply (f_equal (@length N)) in E. unfold outpoint_enc in E. rewrite app_length, le32_length in E. simpl in E. lia.
Qed.
Lemma le32_sdp : sdp le32 u32 (fun x => x).
Proof. apply (fixed_sdp _ _ _ 4%nat); auto using le32_length, le32_inj. Qed.
Lemma le32_ne x : u32 x -> le32 x <> [].
Proof. intros _ E. apply (f_equal (@length N)) in E. rewrite le32_length in E. discriminate. Qed.

Lemma spend4_sdp : sdp spend4_enc wf_spend4 (fun s => s).
Proof.
  apply (fixed_sdp _ _ _ 320%nat).
  - intros s (A & B & C & D0 & E & _). unfold spend4_enc. rewrite !app_length. lia.
  - intros x y (A & B & C & D0 & E & F) (A' & B' & C' & D' & E' & F') H. unfold spend4_enc in H.
    split_app H H1 H. split_app H H2 H. split_app H H3 H. split_app H H4 H.
    destruct x, y; cbn in *. congruence.
Qed.
Lemma spend4_ne s : wf_spend4 s -> spend4_enc s <> [].
Proof.
  intros (A & _) E. apply (f_equal (@length N)) in E. unfold spend4_enc in E. rewrite !app_length in E. simpl in E. lia.
Qed.
Lemma sout4_sdp : sdp sout4_enc wf_sout_p (fun o => o).
Proof.
  apply (fixed_sdp _ _ _ 948%nat).
  - intros x Hx. unfold wf_sout_p, wf_sout in Hx. bsplit. lens. unfold sout4_enc. rewrite !app_length. lia.
  - intros x y Hx Hy H. unfold wf_sout_p, wf_sout in *. bsplit. lens. unfold sout4_enc in H.
    split_app H H1' H. split_app H H2' H. split_app H H3' H. split_app H H4' H.
    split_app H H5' H. split_app H H6' H. split_app H H7' H.
    destruct x, y; cbn in *. congruence.
Qed.
Lemma sout4_ne o : wf_sout_p o -> sout4_enc o <> [].
Proof.
  intros Hx E. unfold wf_sout_p, wf_sout in Hx. bsplit. lens. apply (f_equal (@length N)) in E.
  unfold sout4_enc in E. rewrite !app_length in E. simpl in E. lia.
Qed.

Lemma list_node_inj {A} (enc : A -> bytes) (P : A -> Prop) p l l' :
  sdp enc P (fun x => x) -> (forall x, P x -> enc x <> []) -> Forall P l -> Forall P l' ->
  D p (lit (flat_map enc l)) = D p (lit (flat_map enc l')) -> l = l'.
Proof.
  intros S NE F F' E. apply Dlit_inj in E. rewrite <- (map_id' l), <- (map_id' l').
  eapply flat_map_sd; eauto.
Qed.

Lemma concat_flat_map (l : list bytes) : concat l = flat_map (fun x => x) l.
Proof. induction l; simpl; congruence. Qed.

Lemma js_node_inj k (l l' : list bytes) (pub pub' : bytes) : (0 < k)%nat ->
  Forall (fun j => length j = k) l -> Forall (fun j => length j = k) l' ->
  length pub = 32%nat -> length pub' = 32%nat ->
  concat l ++ pub = concat l' ++ pub' -> l = l' /\ pub = pub'.
Proof.
  intros K F F' L L' E. rewrite !concat_flat_map in E.
  assert (LL : forall l, Forall (fun j : bytes => length j = k) l -> length (flat_map (fun x => x) l) = (k * length l)%nat).
  { induction 1; simpl; auto. rewrite app_length. lia. }
  assert (Len : length l = length l').
  { apply (f_equal (@length N)) in E. rewrite !app_length, (LL _ F), (LL _ F'), L, L' in E. nia. }
  assert (S : sdp (fun x : bytes => x) (fun j => length j = k) (fun x => x)).
  { apply (fixed_sdp _ _ _ k); auto. }
  destruct (flat_map_sd_len _ _ _ S _ _ F F' Len _ _ E) as [M ->]. rewrite !map_id' in M. auto.
Qed.

(** * the theorem *)
Lemma le32_ver4_inj v v' : le32 (ver4_header v) = le32 (ver4_header v') -> v = v'.
Proof. destruct v, v'; auto; intros H; vm_compute in H; discriminate. Qed.

Lemma view4_eq (a b : view4) :
  w_ver a = w_ver b -> w_branch a = w_branch b -> w_lock a = w_lock b -> w_expiry a = w_expiry b ->
  w_ht a = w_ht b -> w_prev a = w_prev b -> w_seq a = w_seq b -> w_outs a = w_outs b -> w_js a = w_js b ->
  w_spends a = w_spends b -> w_souts a = w_souts b -> w_vb a = w_vb b -> w_in a = w_in b -> a = b.
Proof. destruct a, b; cbn; intros; subst; reflexivity. Qed.

Lemma tree_of_view4_inj w w' : view4_ok w -> view4_ok w' -> tree_of_view4 w = tree_of_view4 w' -> w = w'.
Proof.
  intros (Ub & Ul & Ux & Uh & Op & Os & Oo & Oj & Osp & Oso & Ovb & O3 & Oin)
         (Ub' & Ul' & Ux' & Uh' & Op' & Os' & Oo' & Oj' & Osp' & Oso' & Ovb' & O3' & Oin') E.
  unfold tree_of_view4 in E. apply D_inj in E. destruct E as [Ep E].
  apply app_inv_head in Ep. apply le32_inj in Ep; auto.
  (* version *)
  rewrite !lit_app, <- !app_assoc in E.
  assert (L1 : length (lit (le32 (ver4_header (w_ver w)))) = length (lit (le32 (ver4_header (w_ver w')))))
    by (rewrite !lit_length, !le32_length; reflexivity).
  destruct (app_inj_len _ _ _ _ L1 E) as [Ev E1]. clear E L1. apply lit_inj, le32_ver4_inj in Ev.
  assert (L2 : length (lit (le32 (ver4_group (w_ver w)))) = length (lit (le32 (ver4_group (w_ver w')))))
    by (rewrite !lit_length, !le32_length; reflexivity).
  destruct (app_inj_len _ _ _ _ L2 E1) as [_ E2]. clear E1 L2.
  (* the four common slots *)
  apply slot_inj in E2. destruct E2 as [Sp E2]. apply slot_inj in E2. destruct E2 as [Ss E2].
  apply slot_inj in E2. destruct E2 as [So E2]. apply slot_inj in E2. destruct E2 as [Sj E2].
  apply (omap_inj _ (Forall wf_outpoint)) in Sp; auto.
  2:{ intros x y Fx Fy. apply list_node_inj with (P := wf_outpoint); auto using outpoint_sdp, outpoint_ne. }
  apply (omap_inj _ (Forall u32)) in Ss; auto.
  2:{ intros x y Fx Fy. apply list_node_inj with (P := u32); auto using le32_sdp, le32_ne. }
  apply (omap_inj _ (Forall wf_out_p)) in So; auto.
  2:{ intros x y Fx Fy. apply list_node_inj with (P := wf_out_p); auto using txout_sdp, txout_ne. }
  assert (Ej : w_js w = w_js w').
  { destruct (w_js w) as [[l pub]|], (w_js w') as [[l' pub']|]; cbn in Sj; try discriminate; auto.
    injection Sj as Sj. apply lit_inj in Sj. destruct Oj as (_ & F & L), Oj' as (_ & F' & L').
    rewrite <- Ev in F'.
    destruct (js_node_inj (jslen (w_ver w)) _ _ _ _ ltac:(destruct (w_ver w); cbn; lia) F F' L L' Sj) as [-> ->].
    reflexivity. }
  (* Sapling slots, then the literal tail *)
  rewrite <- Ev in E2.
  assert (X : w_spends w = w_spends w' /\ w_souts w = w_souts w'
              /\ lit (le32 (w_lock w)) ++ lit (le32 (w_expiry w)) ++
                 lit ((if is_v4 (w_ver w) then i64le (w_vb w) else []) ++ le32 (w_ht w)) ++
                 lit (match w_in w with Some x => input4_enc x | None => [] end)
                 = lit (le32 (w_lock w')) ++ lit (le32 (w_expiry w')) ++
                 lit ((if is_v4 (w_ver w) then i64le (w_vb w') else []) ++ le32 (w_ht w')) ++
                 lit (match w_in w' with Some x => input4_enc x | None => [] end)).
  { destruct (is_v4 (w_ver w)) eqn:V4.
    - rewrite <- !app_assoc in E2.
      apply slot_inj in E2. destruct E2 as [S1 E2]. apply slot_inj in E2. destruct E2 as [S2 E2].
      apply (omap_inj _ (Forall wf_spend4)) in S1; auto.
      2:{ intros x y Fx Fy. apply list_node_inj with (P := wf_spend4); auto using spend4_sdp, spend4_ne. }
      apply (omap_inj _ (Forall wf_sout_p)) in S2; auto;
        try (intros x y Fx Fy; apply list_node_inj with (P := wf_sout_p); auto using sout4_sdp, sout4_ne).
    - cbn [app] in E2. rewrite ?V4 in O3. rewrite <- ?Ev in O3'. rewrite ?V4 in O3'.
      destruct (O3 eq_refl) as (A1 & A2 & _), (O3' eq_refl) as (B1 & B2 & _).
      repeat split; try congruence. exact E2. }
  destruct X as (Esp & Eso & T).
  assert (L3 : length (lit (le32 (w_lock w))) = length (lit (le32 (w_lock w'))))
    by (rewrite !lit_length, !le32_length; reflexivity).
  destruct (app_inj_len _ _ _ _ L3 T) as [El T1]. clear T L3. apply lit_inj, le32_inj in El; auto.
  assert (L4 : length (lit (le32 (w_expiry w))) = length (lit (le32 (w_expiry w'))))
    by (rewrite !lit_length, !le32_length; reflexivity).
  destruct (app_inj_len _ _ _ _ L4 T1) as [Ex T2]. clear T1 L4. apply lit_inj, le32_inj in Ex; auto.
  assert (L5 : length (lit ((if is_v4 (w_ver w) then i64le (w_vb w) else []) ++ le32 (w_ht w)))
               = length (lit ((if is_v4 (w_ver w) then i64le (w_vb w') else []) ++ le32 (w_ht w'))))
    by (rewrite !lit_length, !app_length, !le32_length; destruct (is_v4 (w_ver w)); rewrite ?i64le_length; reflexivity).
  destruct (app_inj_len _ _ _ _ L5 T2) as [Eh T3]. clear T2 L5. apply lit_inj in Eh, T3.
  assert (Evb : w_vb w = w_vb w' /\ w_ht w = w_ht w').
  { destruct (is_v4 (w_ver w)) eqn:V4.
    - split_app Eh Eb Et. split; auto using i64le_inj, le32_inj.
    - cbn [app] in Eh. rewrite ?V4 in O3. rewrite <- ?Ev in O3'. rewrite ?V4 in O3'.
      destruct (O3 eq_refl) as (_ & _ & A3), (O3' eq_refl) as (_ & _ & B3). split; [congruence | auto using le32_inj]. }
  destruct Evb as [Evb Eht].
  assert (Ein : w_in w = w_in w').
  { destruct (w_in w) as [[[[[h n] sq] code] value]|], (w_in w') as [[[[[h' n'] sq'] code'] value']|]; auto.
    - destruct Oin as (A1 & A2 & A3 & A4 & A5), Oin' as (B1 & B2 & B3 & B4 & B5).
      unfold input4_enc in T3. split_app T3 Q1 T3. split_app T3 Q2 T3.
      apply script_enc_sd in T3; auto. destruct T3 as [Q3 T3]. split_app T3 Q4 T3.
      rewrite (le32_inj _ _ A2 B2 Q2), (le64_inj _ _ A5 B5 Q4), (le32_inj _ _ A3 B3 T3). congruence.
    - exfalso. destruct Oin as (A1 & _). apply (f_equal (@length N)) in T3. unfold input4_enc in T3.
      rewrite !app_length in T3. simpl in T3. lia.
    - exfalso. destruct Oin' as (A1 & _). apply (f_equal (@length N)) in T3. unfold input4_enc in T3.
      rewrite !app_length in T3. simpl in T3. lia. }
  apply view4_eq; auto.
Qed.

Lemma sighash4_iff t t' i i' d d' w w' :
  view4_of t i = Some w -> view4_of t' i' = Some w' -> view4_ok w -> view4_ok w' ->
  sighash4_tree t i = Some d -> sighash4_tree t' i' = Some d' -> (d = d' <-> w = w').
Proof.
  intros V V' O O' E E'. unfold sighash4_tree in *. rewrite V in E. rewrite V' in E'. cbn in E, E'.
  injection E as <-. injection E' as <-. split; [apply tree_of_view4_inj; auto | congruence].
Qed.

(** * views of well-formed transactions are well-formed *)
Definition wf_input4 (i : sinput4) : Prop :=
  match i with Transp4 ht _ v code => u32 ht /\ u63 v /\ short code | Shielded4 => True end.

Lemma oall_nonempty {A} (P : A -> Prop) l : Forall P l -> oall P (nonempty l).
Proof. destruct l; cbn; auto. Qed.
Lemma Forall_map' {A B} (f : A -> B) (P : A -> Prop) (Q : B -> Prop) l :
  (forall x, P x -> Q (f x)) -> Forall P l -> Forall Q (map f l).
Proof. intros H. induction 1; cbn; constructor; auto. Qed.
Lemma wf_in_outpoint x : wf_in_p x -> wf_outpoint (ti_hash x, ti_n x).
Proof. unfold wf_in_p, wf_in, wf_outpoint. intros H. bsplit. lens. cbn. auto with wf. Qed.
Lemma wf_in_seq x : wf_in_p x -> u32 (ti_seq x).
Proof. unfold wf_in_p, wf_in. intros H. bsplit. auto with wf. Qed.
Lemma wf_spend_nosig s : wf_spend_p s -> wf_spend4 (nosig s).
Proof. unfold wf_spend_p, wf_spend, wf_spend4, nosig. intros H. bsplit. lens. cbn. repeat split; auto. Qed.

Lemma vin4_wf t : wf_opt wf_tb (t4_transp t) = true -> Forall wf_in_p (vin4 t) /\ Forall wf_out_p (vout4 t).
Proof.
  unfold vin4, vout4. destruct (t4_transp t) as [b|]; cbn [wf_opt]; intros W; [|split; constructor].
  apply wf_tb_wf in W. exact W.
Qed.

Lemma view4_of_ok t i w : wf_tx4 t = true -> wf_input4 i -> view4_of t i = Some w -> view4_ok w.
Proof.
  intros W I E. unfold wf_tx4 in W. bsplit.
  match goal with H : wf_opt wf_tb _ = true |- _ => destruct (vin4_wf _ H) as [FI FO] end.
  match goal with H : wf_js t = true |- _ => rename H into WJ end.
  match goal with H : match t4_sap t with _ => _ end = true |- _ => rename H into WS end.
  unfold view4_of in E.
  set (inp := match i with
              | Shielded4 => Some None
              | Transp4 _ idx value code =>
                  match t4_transp t with
                  | Some b => match nth_error (tb_vin b) idx with
                              | Some ti => Some (Some (ti_hash ti, ti_n ti, ti_seq ti, code, value))
                              | None => None
                              end
                  | None => None
                  end
              end) in E.
  destruct inp as [x|] eqn:EI; [|discriminate]. injection E as <-.
  assert (WI : match x with Some y => wf_in4 y | None => True end).
  { subst inp. destruct i as [|ht idx v code]; [injection EI as <-; exact Logic.I|].
    destruct (t4_transp t) as [b|] eqn:TB; [|discriminate].
    destruct (nth_error (tb_vin b) idx) as [ti|] eqn:NE; [|discriminate]. injection EI as <-.
    destruct I as (_ & Iv & Ic). unfold vin4 in FI. rewrite TB in FI.
    rewrite Forall_forall in FI. pose proof (FI _ (nth_error_In _ _ NE)) as Wti.
    unfold wf_in_p, wf_in in Wti. bsplit. lens. cbn. repeat split; auto with wf. }
  assert (UH : u32 (hash_type4 i)).
  { destruct i; cbn; [unfold u32; reflexivity | apply I]. }
  assert (SP : oall wf_spend4 (if is_v4 (t4_ver t)
                 then match t4_sap t with Some b => nonempty (map nosig (sa_spends b)) | None => None end else None)
               /\ oall wf_sout_p (if is_v4 (t4_ver t)
                 then match t4_sap t with Some b => nonempty (sa_outputs b) | None => None end else None)
               /\ i64 (if is_v4 (t4_ver t) then match t4_sap t with Some b => sa_vb b | None => 0%Z end else 0%Z)).
  { destruct (is_v4 (t4_ver t)); [|repeat split; cbn; auto; unfold i64; lia].
    destruct (t4_sap t) as [b|]; [|repeat split; cbn; auto; unfold i64; lia].
    cbn [andb] in WS. unfold wf_sap in WS. bsplit. repeat split.
    - apply oall_nonempty. eapply Forall_map'; [apply wf_spend_nosig|]. apply forallb_Forall; assumption.
    - apply oall_nonempty. apply forallb_Forall; assumption.
    - apply i64b_i64; assumption.
    - apply i64b_i64; assumption. }
  destruct SP as (SP1 & SP2 & SP3).
  unfold view4_ok.
  cbn [w_ver w_branch w_lock w_expiry w_ht w_prev w_seq w_outs w_js w_spends w_souts w_vb w_in].
  split; [auto with wf|]. split; [auto with wf|]. split; [auto with wf|]. split; [exact UH|].
  split. { destruct (flag_acp (hash_type4 i)); cbn; auto. eapply Forall_map'; [apply wf_in_outpoint | exact FI]. }
  split. { destruct (flag_acp (hash_type4 i) || flag_single (hash_type4 i) || flag_none (hash_type4 i)); cbn; auto.
           eapply Forall_map'; [apply wf_in_seq | exact FI]. }
  split. { destruct (negb (flag_single (hash_type4 i)) && negb (flag_none (hash_type4 i))); cbn; auto.
           destruct (flag_single (hash_type4 i)); cbn; auto. destruct i as [|ht idx v code]; cbn; auto.
           destruct (nth_error (vout4 t) idx) eqn:NE; cbn; auto. constructor; auto.
           rewrite Forall_forall in FO. apply FO. eapply nth_error_In; eauto. }
  split. { unfold wf_js in WJ. destruct (t4_js t) as [|j l] eqn:J; auto. bsplit. lens.
           split; [discriminate|]. split; auto.
           match goal with H : forallb _ _ = true |- _ => apply forallb_Forall in H; revert H end.
           apply Forall_impl. intros a Ha. apply len_is_eq; auto. }
  split; [exact SP1|]. split; [exact SP2|]. split; [exact SP3|].
  split. { intros V. rewrite V. auto. }
  exact WI.
Qed.

(** * corollaries: what ZIP 143/243 signature hashes commit to *)
Lemma sighash4_iff_wf t t' i i' d d' : wf_tx4 t = true -> wf_tx4 t' = true -> wf_input4 i -> wf_input4 i' ->
  sighash4_tree t i = Some d -> sighash4_tree t' i' = Some d' ->
  (d = d' <-> view4_of t i = view4_of t' i').
Proof.
  intros W W' I I' E E'. unfold sighash4_tree in E, E'.
  destruct (view4_of t i) as [w|] eqn:V; [|discriminate]. destruct (view4_of t' i') as [w'|] eqn:V'; [|discriminate].
  cbn in E, E'. injection E as <-. injection E' as <-.
  pose proof (view4_of_ok _ _ _ W I V) as O. pose proof (view4_of_ok _ _ _ W' I' V') as O'.
  split; [intros H; f_equal; apply tree_of_view4_inj; auto | congruence].
Qed.

(** equal transparent signature hashes: equal hash type, coin value, script code, outpoint and
    sequence of the signed input, and header *)
Lemma sighash4_commits t t' ht ht' idx idx' v v' code code' d :
  wf_tx4 t = true -> wf_tx4 t' = true -> u32 ht -> u32 ht' -> u63 v -> u63 v' -> short code -> short code' ->
  sighash4_tree t (Transp4 ht idx v code) = Some d -> sighash4_tree t' (Transp4 ht' idx' v' code') = Some d ->
  ht = ht' /\ v = v' /\ code = code'
  /\ option_map in_eff_of (nth_error (vin4 t) idx) = option_map in_eff_of (nth_error (vin4 t') idx')
  /\ t4_ver t = t4_ver t' /\ t4_branch t = t4_branch t' /\ t4_lock t = t4_lock t' /\ t4_expiry t = t4_expiry t'.
Proof.
  intros W W' U U' V V' C C' E E'.
  assert (Q : view4_of t (Transp4 ht idx v code) = view4_of t' (Transp4 ht' idx' v' code')).
  { apply (sighash4_iff_wf t t' (Transp4 ht idx v code) (Transp4 ht' idx' v' code') d d W W' (conj U (conj V C)) (conj U' (conj V' C')) E E'). reflexivity. }
  unfold sighash4_tree in E, E'.
  destruct (view4_of t (Transp4 ht idx v code)) as [w|] eqn:VW; [|discriminate].
  destruct (view4_of t' (Transp4 ht' idx' v' code')) as [w'|] eqn:VW'; [|discriminate].
  injection Q as <-. unfold view4_of in VW, VW'. unfold vin4.
  destruct (t4_transp t) as [b|]; [|discriminate]. destruct (t4_transp t') as [b'|]; [|discriminate].
  destruct (nth_error (tb_vin b) idx) as [x|]; [|discriminate].
  destruct (nth_error (tb_vin b') idx') as [x'|]; [|discriminate].
  injection VW as <-. injection VW' as Q. cbn [hash_type4] in Q.
  inversion Q. unfold in_eff_of. cbn [option_map]. repeat split; congruence.
Qed.

(** the exclusions are exactly those of ZIP 143/243 *)
Lemma view4_exclusions t i w : view4_of t i = Some w ->
  let ht := hash_type4 i in
  (w_prev w = None <-> flag_acp ht = true)
  /\ (w_seq w = None <-> flag_acp ht || flag_single ht || flag_none ht = true)
  /\ (flag_single ht = false -> flag_none ht = false -> w_outs w = Some (vout4 t))
  /\ (flag_single ht = false -> flag_none ht = true -> w_outs w = None)
  /\ (flag_single ht = true -> w_outs w = match i with
                                          | Transp4 _ idx _ _ => match nth_error (vout4 t) idx with Some o => Some [o] | None => None end
                                          | Shielded4 => None end).
Proof.
  intros E ht.
  assert (X : exists x, w = {| w_ver := t4_ver t; w_branch := t4_branch t; w_lock := t4_lock t; w_expiry := t4_expiry t;
              w_ht := ht;
              w_prev := if flag_acp ht then None else Some (map (fun x => (ti_hash x, ti_n x)) (vin4 t));
              w_seq := if flag_acp ht || flag_single ht || flag_none ht then None else Some (map ti_seq (vin4 t));
              w_outs := if negb (flag_single ht) && negb (flag_none ht) then Some (vout4 t)
                        else if flag_single ht then
                               match i with
                               | Transp4 _ idx _ _ =>
                                   match nth_error (vout4 t) idx with Some o => Some [o] | None => None end
                               | Shielded4 => None
                               end
                             else None;
              w_js := match t4_js t with [] => None | l => Some (l, t4_jspub t) end;
              w_spends := if is_v4 (t4_ver t)
                          then match t4_sap t with Some b => nonempty (map nosig (sa_spends b)) | None => None end
                          else None;
              w_souts := if is_v4 (t4_ver t)
                         then match t4_sap t with Some b => nonempty (sa_outputs b) | None => None end
                         else None;
              w_vb := if is_v4 (t4_ver t) then match t4_sap t with Some b => sa_vb b | None => 0%Z end else 0%Z;
              w_in := x |}).
  { unfold view4_of in E. fold ht in E.
    destruct i as [|h0 idx v code].
    - injection E as <-. eexists. reflexivity.
    - destruct (t4_transp t) as [b|]; [|discriminate]. destruct (nth_error (tb_vin b) idx); [|discriminate].
      injection E as <-. eexists. reflexivity. }
  destruct X as [x ->]. cbn [w_prev w_seq w_outs].
  split; [destruct (flag_acp ht); split; congruence|].
  split; [destruct (flag_acp ht || flag_single ht || flag_none ht); split; congruence|].
  split; [intros -> ->; reflexivity|]. split; [intros -> ->; reflexivity|].
  intros ->. reflexivity.
Qed.
