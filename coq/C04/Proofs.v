(** C04 — lemmas: the digest trees are injective functions of exactly the data they must commit to. *)
From Coq Require Import ZifyBool.
From V.Lib Require Import Base Hex.
From V.Gen Require Import C04Consts.
From V.C04 Require Import Model Spec Corr Wf Enc.
Local Open Scope N_scope.

(** * boolean well-formedness to facts *)
Ltac bsplit :=
  repeat match goal with
         | H : _ && _ = true |- _ => apply andb_true_iff in H; destruct H
         end.
Lemma len_is_eq n b : len_is n b = true -> length b = n.
Proof. apply Nat.eqb_eq. Qed.
Lemma u32b_u32 x : u32b x = true -> u32 x.
Proof. unfold u32b, u32. lia. Qed.
Lemma u63b_u63 x : u63b x = true -> u63 x.
Proof. unfold u63b, u63. lia. Qed.
Lemma i64b_i64 v : i64b v = true -> i64 v.
Proof. unfold i64b, i64. lia. Qed.
Lemma shortb_short s : shortb s = true -> short s.
Proof. unfold shortb, short. lia. Qed.
Lemma forallb_Forall {A} (f : A -> bool) l : forallb f l = true -> Forall (fun x => f x = true) l.
Proof. rewrite forallb_forall, Forall_forall. auto. Qed.
Global Hint Resolve len_is_eq u32b_u32 u63b_u63 i64b_i64 shortb_short : wf.

Lemma D_inj p l p' l' : D p l = D p' l' -> p = p' /\ l = l'.
Proof. intros H; inversion H; auto. Qed.
Lemma sub_inj a b : sub a = sub b -> a = b.
Proof. intros H; inversion H; auto. Qed.
Lemma Dlit_inj p a p' b : D p (lit a) = D p' (lit b) -> a = b.
Proof. intros H. apply D_inj in H. destruct H as [_ H]. apply lit_inj; auto. Qed.

Ltac lens :=
  repeat match goal with
         | H : len_is _ _ = true |- _ => apply len_is_eq in H
         end.

(** splitting [a ++ r = a' ++ r'] when the heads have the same known length *)
Ltac split_app E Ha Hr :=
  match type of E with
  | ?a ++ ?r = ?a' ++ ?r' =>
      let L := fresh "L" in
      assert (L : length a = length a') by (lens; repeat rewrite ?le32_length, ?le64_length, ?i64le_length; congruence || lia || auto);
      let X := fresh "X" in
      pose proof (app_inj_len _ _ _ _ L E) as X; clear L E; destruct X as [Ha Hr]
  end.

(** * T.1 header *)
Lemma le32_ver_inj v1 v2 : le32 (ver_header v1) = le32 (ver_header v2) -> v1 = v2.
Proof. destruct v1, v2; auto; intros H; vm_compute in H; discriminate. Qed.

Definition wf_hdr (t : tx) : Prop := u32 (tx_branch t) /\ u32 (tx_lock t) /\ u32 (tx_expiry t).
Lemma header_inj t1 t2 : wf_hdr t1 -> wf_hdr t2 -> header_tree t1 = header_tree t2 ->
  tx_ver t1 = tx_ver t2 /\ tx_branch t1 = tx_branch t2 /\ tx_lock t1 = tx_lock t2 /\ tx_expiry t1 = tx_expiry t2.
Proof.
  intros (B1 & L1 & X1) (B2 & L2 & X2) E. apply Dlit_inj in E. unfold header_bytes in E.
  split_app E Ev E. split_app E Eg E. split_app E Eb E. split_app E El E.
  rewrite (app_nil_end (le32 (tx_expiry t1))), (app_nil_end (le32 (tx_expiry t2))) in E.
  split_app E Ex E.
  repeat split; auto using le32_ver_inj, le32_inj.
Qed.

(** * T.2 transparent *)
Definition wf_in_p (i : txin) : Prop := wf_in i = true.
Definition wf_out_p (o : txout) : Prop := wf_out o = true.

Lemma prevout_sdp : sdp prevout_enc wf_in_p (fun i => (ti_hash i, ti_n i)).
Proof.
  apply (fixed_sdp _ _ _ 36%nat).
  - intros x Hx. unfold wf_in_p, wf_in in Hx. bsplit. unfold prevout_enc.
    rewrite app_length, le32_length, (len_is_eq _ _ H). reflexivity.
  - intros x y Hx Hy E. unfold wf_in_p, wf_in in *. bsplit. unfold prevout_enc in E.
    rewrite (app_nil_end (le32 (ti_n x))), (app_nil_end (le32 (ti_n y))), !app_assoc in E.
    rewrite <- !app_assoc in E.
    split_app E Eh E. split_app E En E. f_equal; auto. apply le32_inj; auto with wf.
Qed.
Lemma prevout_ne i : wf_in_p i -> prevout_enc i <> [].
Proof.
  intros H E. apply (f_equal (@length N)) in E. unfold prevout_enc in E.
  rewrite app_length, le32_length in E. simpl in E. lia.
Qed.
Lemma seq_sdp : sdp seq_enc wf_in_p ti_seq.
Proof.
  apply (fixed_sdp _ _ _ 4%nat).
  - intros; apply le32_length.
  - intros x y Hx Hy E. unfold wf_in_p, wf_in in *. bsplit. apply le32_inj; auto with wf.
Qed.
Lemma seq_ne i : wf_in_p i -> seq_enc i <> [].
Proof. intros _ E. apply (f_equal (@length N)) in E. unfold seq_enc in E. rewrite le32_length in E. discriminate. Qed.

Lemma txout_sdp : sdp txout_enc wf_out_p (fun o => o).
Proof.
  intros x y r r' Hx Hy E. unfold wf_out_p, wf_out in *. bsplit. unfold txout_enc in E.
  rewrite <- !app_assoc in E. split_app E Ev E.
  apply script_enc_sd in E; auto with wf. destruct E as [Es ->]. split; auto.
  destruct x, y; simpl in *. f_equal; auto. apply le64_inj; auto with wf.
Qed.
Lemma txout_ne o : wf_out_p o -> txout_enc o <> [].
Proof.
  intros _ E. apply (f_equal (@length N)) in E. unfold txout_enc in E.
  rewrite app_length, le64_length in E. simpl in E. lia.
Qed.

Lemma strip_in_eq x y : (ti_hash x, ti_n x) = (ti_hash y, ti_n y) -> ti_seq x = ti_seq y -> strip_in x = strip_in y.
Proof. intros E1 E2. injection E1 as E1 E1'. unfold strip_in. congruence. Qed.
Lemma in_eff_eq x y : (ti_hash x, ti_n x) = (ti_hash y, ti_n y) -> ti_seq x = ti_seq y -> in_eff_of x = in_eff_of y.
Proof. intros E1 E2. injection E1 as E1 E1'. unfold in_eff_of. congruence. Qed.

Definition wf_tb_p (b : tbundle) : Prop := Forall wf_in_p (tb_vin b) /\ Forall wf_out_p (tb_vout b).
Lemma wf_tb_wf b : wf_tb b = true -> wf_tb_p b.
Proof. unfold wf_tb. intros H. bsplit. split; apply forallb_Forall; auto. Qed.

Lemma prevouts_inj l1 l2 : Forall wf_in_p l1 -> Forall wf_in_p l2 -> prevouts_tree l1 = prevouts_tree l2 ->
  map (fun i => (ti_hash i, ti_n i)) l1 = map (fun i => (ti_hash i, ti_n i)) l2.
Proof. intros F1 F2 E. apply Dlit_inj in E. eapply flat_map_sd; eauto using prevout_sdp, prevout_ne. Qed.
Lemma sequence_inj l1 l2 : Forall wf_in_p l1 -> Forall wf_in_p l2 -> sequence_tree l1 = sequence_tree l2 ->
  map ti_seq l1 = map ti_seq l2.
Proof. intros F1 F2 E. apply Dlit_inj in E. eapply flat_map_sd; eauto using seq_sdp, seq_ne. Qed.
Lemma outputs_inj l1 l2 : Forall wf_out_p l1 -> Forall wf_out_p l2 -> outputs_tree l1 = outputs_tree l2 -> l1 = l2.
Proof.
  intros F1 F2 E. apply Dlit_inj in E.
  rewrite <- (map_id' l1), <- (map_id' l2). eapply flat_map_sd; eauto using txout_sdp, txout_ne.
Qed.

Lemma transparent_txid_inj b1 b2 : wf_opt wf_tb b1 = true -> wf_opt wf_tb b2 = true ->
  transparent_txid_tree b1 = transparent_txid_tree b2 -> option_map strip_tb b1 = option_map strip_tb b2.
Proof.
  intros W1 W2 E. unfold transparent_txid_tree, transparent_txid_of in E.
  destruct b1 as [b1|], b2 as [b2|]; simpl in *; apply D_inj in E; destruct E as [_ E]; try discriminate; auto.
  apply wf_tb_wf in W1, W2. destruct W1 as [I1 O1], W2 as [I2 O2].
  apply cons_eq in E. destruct E as [Ep E]. apply cons_eq in E. destruct E as [Es E].
  apply cons_eq in E. destruct E as [Eo _].
  apply sub_inj in Ep, Es, Eo.
  apply prevouts_inj in Ep; auto. apply sequence_inj in Es; auto. apply outputs_inj in Eo; auto.
  unfold strip_tb. f_equal. f_equal; auto.
  exact (map_eq2 _ _ _ strip_in_eq _ _ Ep Es).
Qed.

(** * T.3 Sapling *)
Definition wf_spend_p (s : sspend) : Prop := wf_spend s = true.
Definition wf_sout_p (o : soutput) : Prop := wf_sout o = true.


Lemma nf_sdp : sdp sp_nf wf_spend_p sp_nf.
Proof.
  apply (fixed_sdp _ _ _ 32%nat); auto.
  intros x Hx. unfold wf_spend_p, wf_spend in Hx. bsplit. lens. auto.
Qed.
Lemma nf_ne s : wf_spend_p s -> sp_nf s <> [].
Proof. intros Hx E. unfold wf_spend_p, wf_spend in Hx. bsplit. lens. rewrite E in *. discriminate. Qed.

Lemma spend_nc_sdp v : sdp (spend_nc_enc v) wf_spend_p
                         (fun s => (sp_cv s, (if is_v6 v then [] else sp_anchor s), sp_rk s)).
Proof.
  apply (fixed_sdp _ _ _ (if is_v6 v then 64 else 96)%nat).
  - intros x Hx. unfold wf_spend_p, wf_spend in Hx. bsplit. lens. unfold spend_nc_enc.
    rewrite !app_length. destruct (is_v6 v); simpl; lia.
  - intros x y Hx Hy E. unfold wf_spend_p, wf_spend in *. bsplit. lens. unfold spend_nc_enc in E.
    split_app E Ec E. destruct (is_v6 v).
    + simpl in E. congruence.
    + split_app E Ea E. congruence.
Qed.
Lemma spend_nc_ne v s : wf_spend_p s -> spend_nc_enc v s <> [].
Proof.
  intros Hx E. unfold wf_spend_p, wf_spend in Hx. bsplit. lens. apply (f_equal (@length N)) in E.
  unfold spend_nc_enc in E. rewrite !app_length in E. simpl in E. lia.
Qed.
Lemma strip_spend_eq v x y : sp_nf x = sp_nf y ->
  (sp_cv x, (if is_v6 v then [] else sp_anchor x), sp_rk x) = (sp_cv y, (if is_v6 v then [] else sp_anchor y), sp_rk y) ->
  strip_spend v x = strip_spend v y.
Proof. intros E1 E2. unfold strip_spend. destruct (is_v6 v); inversion E2; congruence. Qed.

Lemma sapling_spends_inj v l1 l2 : Forall wf_spend_p l1 -> Forall wf_spend_p l2 ->
  sapling_spends_tree v l1 = sapling_spends_tree v l2 -> map (strip_spend v) l1 = map (strip_spend v) l2.
Proof.
  intros F1 F2 E. apply D_inj in E. destruct E as [_ E].
  destruct l1 as [|x1 l1], l2 as [|x2 l2]; try discriminate; auto.
  apply cons_eq in E. destruct E as [Ec E]. apply cons_eq in E. destruct E as [En _].
  apply sub_inj in Ec, En. apply Dlit_inj in Ec, En.
  eapply (flat_map_sd _ _ _ nf_sdp nf_ne) in Ec; auto.
  eapply (flat_map_sd _ _ _ (spend_nc_sdp v) (spend_nc_ne v)) in En; auto.
  exact (map_eq2 _ _ _ (strip_spend_eq v) _ _ Ec En).
Qed.

Lemma sout_c_sdp : sdp sout_c_enc wf_sout_p (fun o => (so_cmu o, so_epk o, so_encc o)).
Proof.
  apply (fixed_sdp _ _ _ 116%nat).
  - intros x Hx. unfold wf_sout_p, wf_sout in Hx. bsplit. lens. unfold sout_c_enc. rewrite !app_length. lia.
  - intros x y Hx Hy E. unfold wf_sout_p, wf_sout in *. bsplit. lens. unfold sout_c_enc in E.
    split_app E E1 E. split_app E E2 E. congruence.
Qed.
Lemma sout_m_sdp : sdp so_memo wf_sout_p so_memo.
Proof.
  apply (fixed_sdp _ _ _ 512%nat); auto.
  intros x Hx. unfold wf_sout_p, wf_sout in Hx. bsplit. lens. auto.
Qed.
Lemma sout_n_sdp : sdp sout_n_enc wf_sout_p (fun o => (so_cv o, so_encn o, so_out o)).
Proof.
  apply (fixed_sdp _ _ _ 128%nat).
  - intros x Hx. unfold wf_sout_p, wf_sout in Hx. bsplit. lens. unfold sout_n_enc. rewrite !app_length. lia.
  - intros x y Hx Hy E. unfold wf_sout_p, wf_sout in *. bsplit. lens. unfold sout_n_enc in E.
    split_app E E1 E. split_app E E2 E. congruence.
Qed.
Ltac ne_by_len W :=
  let Hx := fresh in let E := fresh in
  intros Hx E; unfold W in Hx; cbv beta delta [wf_sout wf_act wf_spend] in Hx; bsplit; lens;
  apply (f_equal (@length N)) in E; rewrite ?app_length in E; simpl in E; lia.
Lemma sout_c_ne o : wf_sout_p o -> sout_c_enc o <> []. Proof. unfold sout_c_enc. ne_by_len wf_sout_p. Qed.
Lemma sout_m_ne o : wf_sout_p o -> so_memo o <> []. Proof. ne_by_len wf_sout_p. Qed.
Lemma sout_n_ne o : wf_sout_p o -> sout_n_enc o <> []. Proof. unfold sout_n_enc. ne_by_len wf_sout_p. Qed.
Lemma strip_out_eq x y :
  (so_cmu x, so_epk x, so_encc x) = (so_cmu y, so_epk y, so_encc y) -> so_memo x = so_memo y ->
  (so_cv x, so_encn x, so_out x) = (so_cv y, so_encn y, so_out y) -> strip_out x = strip_out y.
Proof. intros E1 E2 E3. injection E1 as ? ? ?. injection E3 as ? ? ?. unfold strip_out. congruence. Qed.

Lemma sapling_outputs_inj l1 l2 : Forall wf_sout_p l1 -> Forall wf_sout_p l2 ->
  sapling_outputs_tree l1 = sapling_outputs_tree l2 -> map strip_out l1 = map strip_out l2.
Proof.
  intros F1 F2 E. apply D_inj in E. destruct E as [_ E].
  destruct l1 as [|x1 l1], l2 as [|x2 l2]; try discriminate; auto.
  apply cons_eq in E. destruct E as [Ec E]. apply cons_eq in E. destruct E as [Em E].
  apply cons_eq in E. destruct E as [En _].
  apply sub_inj in Ec, Em, En. apply Dlit_inj in Ec, Em, En.
  eapply (flat_map_sd _ _ _ sout_c_sdp sout_c_ne) in Ec; auto.
  eapply (flat_map_sd _ _ _ sout_m_sdp sout_m_ne) in Em; auto.
  eapply (flat_map_sd _ _ _ sout_n_sdp sout_n_ne) in En; auto.
  exact (map_eq3 _ _ _ _ strip_out_eq _ _ Ec Em En).
Qed.

Lemma sapling_txid_inj v s1 s2 : wf_opt wf_sap s1 = true -> wf_opt wf_sap s2 = true ->
  sapling_txid_tree v s1 = sapling_txid_tree v s2 -> option_map (strip_sap v) s1 = option_map (strip_sap v) s2.
Proof.
  intros W1 W2 E. apply D_inj in E. destruct E as [_ E].
  destruct s1 as [b1|], s2 as [b2|]; cbn [option_map wf_opt] in *; auto.
  - unfold wf_sap in W1, W2. bsplit.
    destruct (sapling_is_empty b1); try discriminate. destruct (sapling_is_empty b2); try discriminate.
    cbn [app] in E. apply cons_eq in E. destruct E as [Es E]. apply cons_eq in E. destruct E as [Eo Ev].
    apply sub_inj in Es, Eo. apply lit_inj in Ev.
    apply sapling_spends_inj in Es; try (apply forallb_Forall; assumption).
    apply sapling_outputs_inj in Eo; try (apply forallb_Forall; assumption).
    apply i64le_inj in Ev; auto with wf.
    unfold strip_sap. congruence.
  - unfold wf_sap in W1. bsplit. destruct (sapling_is_empty b1); discriminate.
  - unfold wf_sap in W2. bsplit. destruct (sapling_is_empty b2); discriminate.
Qed.

(** * T.4 Orchard / Ironwood *)
Definition wf_act_p (a : oaction) : Prop := wf_act a = true.
Lemma act_c_sdp : sdp act_c_enc wf_act_p (fun a => (oa_nf a, oa_cmx a, oa_epk a, oa_encc a)).
Proof.
  apply (fixed_sdp _ _ _ 148%nat).
  - intros x Hx. unfold wf_act_p, wf_act in Hx. bsplit. lens. unfold act_c_enc. rewrite !app_length. lia.
  - intros x y Hx Hy E. unfold wf_act_p, wf_act in *. bsplit. lens. unfold act_c_enc in E.
    split_app E E1 E. split_app E E2 E. split_app E E3 E. congruence.
Qed.
Lemma act_m_sdp : sdp oa_memo wf_act_p oa_memo.
Proof.
  apply (fixed_sdp _ _ _ 512%nat); auto.
  intros x Hx. unfold wf_act_p, wf_act in Hx. bsplit. lens. auto.
Qed.
Lemma act_n_sdp : sdp act_n_enc wf_act_p (fun a => (oa_cv a, oa_rk a, oa_encn a, oa_out a)).
Proof.
  apply (fixed_sdp _ _ _ 160%nat).
  - intros x Hx. unfold wf_act_p, wf_act in Hx. bsplit. lens. unfold act_n_enc. rewrite !app_length. lia.
  - intros x y Hx Hy E. unfold wf_act_p, wf_act in *. bsplit. lens. unfold act_n_enc in E.
    split_app E E1 E. split_app E E2 E. split_app E E3 E. congruence.
Qed.
Lemma act_c_ne a : wf_act_p a -> act_c_enc a <> []. Proof. unfold act_c_enc. ne_by_len wf_act_p. Qed.
Lemma act_m_ne a : wf_act_p a -> oa_memo a <> []. Proof. ne_by_len wf_act_p. Qed.
Lemma act_n_ne a : wf_act_p a -> act_n_enc a <> []. Proof. unfold act_n_enc. ne_by_len wf_act_p. Qed.
Lemma strip_act_eq x y :
  (oa_nf x, oa_cmx x, oa_epk x, oa_encc x) = (oa_nf y, oa_cmx y, oa_epk y, oa_encc y) -> oa_memo x = oa_memo y ->
  (oa_cv x, oa_rk x, oa_encn x, oa_out x) = (oa_cv y, oa_rk y, oa_encn y, oa_out y) -> strip_act x = strip_act y.
Proof. intros E1 E2 E3. injection E1 as ? ? ? ?. injection E3 as ? ? ? ?. unfold strip_act. congruence. Qed.

Lemma orchard_txid_inj f o1 o2 : wf_opt wf_ob o1 = true -> wf_opt wf_ob o2 = true ->
  orchard_txid_tree f o1 = orchard_txid_tree f o2 ->
  option_map (strip_ob (anchor_in_txid f)) o1 = option_map (strip_ob (anchor_in_txid f)) o2.
Proof.
  intros W1 W2 E. apply D_inj in E. destruct E as [_ E].
  destruct o1 as [b1|], o2 as [b2|]; cbn [option_map wf_opt app] in *; try discriminate; auto.
  unfold wf_ob in W1, W2. bsplit. lens.
  apply cons_eq in E. destruct E as [Ec E]. apply cons_eq in E. destruct E as [Em E].
  apply cons_eq in E. destruct E as [En E].
  apply sub_inj in Ec, Em, En. apply Dlit_inj in Ec, Em, En. apply lit_inj in E.
  eapply (flat_map_sd _ _ _ act_c_sdp act_c_ne) in Ec; try (apply forallb_Forall; assumption).
  eapply (flat_map_sd _ _ _ act_m_sdp act_m_ne) in Em; try (apply forallb_Forall; assumption).
  eapply (flat_map_sd _ _ _ act_n_sdp act_n_ne) in En; try (apply forallb_Forall; assumption).
  assert (Ea : map strip_act (ob_actions b1) = map strip_act (ob_actions b2)).
  { exact (map_eq3 _ _ _ _ strip_act_eq _ _ Ec Em En). }
  apply cons_eq in E. destruct E as [Ef E].
  split_app E Ev E. apply i64le_inj in Ev; auto with wf.
  unfold strip_ob. f_equal. destruct (anchor_in_txid f); congruence.
Qed.

(** * Root: everything outside the transparent bundle *)
Definition root_of (e : tx) (tr : dig) : dig :=
  root_tree (tx_ver e) (tx_branch e) (header_tree e) tr (sapling_txid_tree (tx_ver e) (tx_sap e))
    (orchard_txid_tree (orchard_fmt (tx_ver e)) (tx_orch e)) (orchard_txid_tree IronwoodV6 (tx_iron e)).

Lemma txid_tree_root t : txid_tree t = root_of t (transparent_txid_tree (tx_transp t)).
Proof. reflexivity. Qed.
Lemma sighash_tree_root t c i :
  sighash_tree t c i = option_map (root_of t) (transparent_sig_tree (tx_transp t) c i).
Proof. unfold sighash_tree. destruct (transparent_sig_tree _ _ _); reflexivity. Qed.

Lemma wf_tx_hdr t : wf_tx t = true -> wf_hdr t.
Proof. unfold wf_tx, wf_hdr. intros H. bsplit. auto with wf. Qed.

Lemma anchor_fmt v : anchor_in_txid (orchard_fmt v) = negb (is_v6 v).
Proof. destruct v; reflexivity. Qed.

Lemma root_inj t1 t2 tr1 tr2 : wf_tx t1 = true -> wf_tx t2 = true ->
  root_of t1 tr1 = root_of t2 tr2 -> effects (no_transp t1) = effects (no_transp t2) /\ tr1 = tr2.
Proof.
  intros W1 W2 E. pose proof (wf_tx_hdr _ W1) as H1. pose proof (wf_tx_hdr _ W2) as H2.
  unfold root_of, root_tree in E. apply D_inj in E. destruct E as [_ E].
  cbn [app] in E.
  apply cons_eq in E. destruct E as [Eh E]. apply cons_eq in E. destruct E as [Et E].
  apply cons_eq in E. destruct E as [Es E]. apply cons_eq in E. destruct E as [Eo E].
  apply sub_inj in Eh, Et, Es, Eo.
  destruct (header_inj _ _ H1 H2 Eh) as (Ev & Eb & El & Ex).
  unfold wf_tx in W1, W2. bsplit.
  rewrite <- Ev in *.
  apply sapling_txid_inj in Es; auto.
  apply orchard_txid_inj in Eo; auto. rewrite anchor_fmt in Eo.
  assert (Ei : option_map (strip_ob false) (tx_iron t1) = option_map (strip_ob false) (tx_iron t2)).
  { destruct (is_v6 (tx_ver t1)) eqn:V.
    - apply cons_eq in E. destruct E as [E _]. apply sub_inj in E.
      apply orchard_txid_inj in E; auto.
    - cbn [orb] in *. destruct (tx_iron t1), (tx_iron t2); try discriminate. reflexivity. }
  split; auto. unfold effects, no_transp.
  cbn [tx_ver tx_branch tx_lock tx_expiry tx_transp tx_sap tx_orch tx_iron option_map].
  rewrite <- Ev, Eb, El, Ex, Es, Eo, Ei. reflexivity.
Qed.

Lemma effects_split t1 t2 :
  effects (no_transp t1) = effects (no_transp t2) ->
  option_map strip_tb (tx_transp t1) = option_map strip_tb (tx_transp t2) -> effects t1 = effects t2.
Proof.
  unfold effects, no_transp.
  cbn [tx_ver tx_branch tx_lock tx_expiry tx_transp tx_sap tx_orch tx_iron option_map].
  intros E Et. inversion E. rewrite Et. reflexivity.
Qed.
Lemma effects_no_transp t1 t2 : effects t1 = effects t2 -> effects (no_transp t1) = effects (no_transp t2).
Proof.
  unfold effects, no_transp.
  cbn [tx_ver tx_branch tx_lock tx_expiry tx_transp tx_sap tx_orch tx_iron option_map].
  intros E. inversion E. reflexivity.
Qed.

Lemma txid_injective t1 t2 : wf_tx t1 = true -> wf_tx t2 = true ->
  txid_tree t1 = txid_tree t2 -> effects t1 = effects t2.
Proof.
  intros W1 W2 E. rewrite !txid_tree_root in E. destruct (root_inj _ _ _ _ W1 W2 E) as [En Et].
  apply effects_split; auto. unfold wf_tx in W1, W2. bsplit. apply transparent_txid_inj; auto.
Qed.

(** * The trees ignore authorising data: they are functions of [effects] *)
Lemma flat_map_map_ext {A B} (f : A -> list B) (g : A -> A) l :
  (forall x, f (g x) = f x) -> flat_map f (map g l) = flat_map f l.
Proof. intros H. induction l; simpl; congruence. Qed.

Lemma prevouts_strip l : prevouts_tree (map strip_in l) = prevouts_tree l.
Proof. unfold prevouts_tree. rewrite flat_map_map_ext; auto. Qed.
Lemma sequence_strip l : sequence_tree (map strip_in l) = sequence_tree l.
Proof. unfold sequence_tree. rewrite flat_map_map_ext; auto. Qed.
Lemma tdigs_strip b : transparent_digests (strip_tb b) = transparent_digests b.
Proof. unfold transparent_digests, strip_tb. cbn [tb_vin tb_vout]. rewrite prevouts_strip, sequence_strip. reflexivity. Qed.
Lemma transparent_txid_strip b : transparent_txid_tree (option_map strip_tb b) = transparent_txid_tree b.
Proof. destruct b; auto. unfold transparent_txid_tree. cbn [option_map]. rewrite tdigs_strip. reflexivity. Qed.

Lemma sapling_spends_strip v l : sapling_spends_tree v (map (strip_spend v) l) = sapling_spends_tree v l.
Proof.
  destruct l as [|x l]; auto. unfold sapling_spends_tree.
  assert (E1 : flat_map sp_nf (map (strip_spend v) (x :: l)) = flat_map sp_nf (x :: l))
    by (apply flat_map_map_ext; reflexivity).
  assert (E2 : flat_map (spend_nc_enc v) (map (strip_spend v) (x :: l)) = flat_map (spend_nc_enc v) (x :: l)).
  { apply flat_map_map_ext. intros s. unfold spend_nc_enc, strip_spend. cbn [sp_cv sp_anchor sp_rk].
    destruct (is_v6 v); reflexivity. }
  rewrite E1, E2. reflexivity.
Qed.
Lemma sapling_outputs_strip l : sapling_outputs_tree (map strip_out l) = sapling_outputs_tree l.
Proof.
  destruct l as [|x l]; auto. unfold sapling_outputs_tree.
  assert (E1 : flat_map sout_c_enc (map strip_out (x :: l)) = flat_map sout_c_enc (x :: l))
    by (apply flat_map_map_ext; reflexivity).
  assert (E2 : flat_map so_memo (map strip_out (x :: l)) = flat_map so_memo (x :: l))
    by (apply flat_map_map_ext; reflexivity).
  assert (E3 : flat_map sout_n_enc (map strip_out (x :: l)) = flat_map sout_n_enc (x :: l))
    by (apply flat_map_map_ext; reflexivity).
  rewrite E1, E2, E3. reflexivity.
Qed.
Lemma sapling_txid_strip v s : sapling_txid_tree v (option_map (strip_sap v) s) = sapling_txid_tree v s.
Proof.
  destruct s as [b|]; auto. unfold sapling_txid_tree. cbn [option_map].
  assert (Em : sapling_is_empty (strip_sap v b) = sapling_is_empty b).
  { unfold sapling_is_empty, strip_sap. cbn [sa_spends sa_outputs]. destruct (sa_spends b), (sa_outputs b); reflexivity. }
  rewrite Em. destruct (sapling_is_empty b); auto.
  unfold strip_sap. cbn [sa_spends sa_outputs sa_vb]. rewrite sapling_spends_strip, sapling_outputs_strip. reflexivity.
Qed.

Lemma orchard_txid_strip f a o : anchor_in_txid f = a ->
  orchard_txid_tree f (option_map (strip_ob a) o) = orchard_txid_tree f o.
Proof.
  intros <-. destruct o as [b|]; auto. unfold orchard_txid_tree, strip_ob. cbn [option_map ob_actions ob_flags ob_vb ob_anchor].
  rewrite !flat_map_map_ext; auto. destruct (anchor_in_txid f); reflexivity.
Qed.

Lemma root_of_effects t tr : root_of (effects t) tr = root_of t tr.
Proof.
  unfold root_of, effects. cbn [tx_ver tx_branch tx_lock tx_expiry tx_transp tx_sap tx_orch tx_iron].
  rewrite sapling_txid_strip, (orchard_txid_strip _ _ _ (anchor_fmt _)), (orchard_txid_strip IronwoodV6 false _ eq_refl).
  reflexivity.
Qed.

Lemma txid_tree_effects t : txid_tree (effects t) = txid_tree t.
Proof.
  rewrite !txid_tree_root, root_of_effects. f_equal.
  unfold effects. cbn [tx_transp]. apply transparent_txid_strip.
Qed.

Lemma is_coinbase_strip b : is_coinbase (strip_tb b) = is_coinbase b.
Proof. unfold is_coinbase, strip_tb. cbn [tb_vin]. destruct (tb_vin b) as [|i [|]]; reflexivity. Qed.

Lemma transparent_sig_strip b c i :
  transparent_sig_tree (option_map strip_tb b) c i = transparent_sig_tree b c i.
Proof.
  destruct b as [b|]; auto. unfold transparent_sig_tree. cbn [option_map]. rewrite tdigs_strip.
  unfold transparent_sig_of. rewrite is_coinbase_strip.
  assert (Ev : match tb_vin (strip_tb b) with [] => true | _ => false end = match tb_vin b with [] => true | _ => false end).
  { unfold strip_tb. cbn [tb_vin]. destruct (tb_vin b); reflexivity. }
  rewrite Ev.
  assert (Et : txin_sig_tree (strip_tb b) i = txin_sig_tree b i).
  { unfold txin_sig_tree, strip_tb. cbn [tb_vin]. destruct i; auto.
    rewrite nth_error_map. destruct (nth_error (tb_vin b) idx); reflexivity. }
  rewrite Et. reflexivity.
Qed.

Lemma sighash_tree_effects t c i : sighash_tree (effects t) c i = sighash_tree t c i.
Proof.
  rewrite !sighash_tree_root.
  replace (transparent_sig_tree (tx_transp (effects t)) c i) with (transparent_sig_tree (tx_transp t) c i).
  - destruct (transparent_sig_tree (tx_transp t) c i); cbn [option_map]; auto. rewrite root_of_effects. reflexivity.
  - unfold effects. cbn [tx_transp]. symmetry. apply transparent_sig_strip.
Qed.

Lemma ignores_auth t1 t2 : effects t1 = effects t2 ->
  txid_tree t1 = txid_tree t2 /\ forall c i, sighash_tree t1 c i = sighash_tree t2 c i.
Proof.
  intros E. split.
  - rewrite <- (txid_tree_effects t1), <- (txid_tree_effects t2), E. reflexivity.
  - intros c i. rewrite <- (sighash_tree_effects t1), <- (sighash_tree_effects t2), E. reflexivity.
Qed.

(** * A: the authorising-data commitment determines the authorising data (given the effects) *)
Lemma map_eq4 {A B C D E F} (f : A -> B) (g : A -> C) (h : A -> D) (i : A -> E) (k : A -> F) :
  (forall x y, f x = f y -> g x = g y -> h x = h y -> i x = i y -> k x = k y) ->
  forall l1 l2, map f l1 = map f l2 -> map g l1 = map g l2 -> map h l1 = map h l2 -> map i l1 = map i l2 ->
  map k l1 = map k l2.
Proof.
  intros H l1. induction l1 as [|x l1 IH]; intros [|y l2] E1 E2 E3 E4; simpl in *; try discriminate; auto.
  injection E1 as E1 E1'. injection E2 as E2 E2'. injection E3 as E3 E3'. injection E4 as E4 E4'. f_equal; auto.
Qed.
Lemma map_len_eq {A B} (f : A -> B) l1 l2 : map f l1 = map f l2 -> length l1 = length l2.
Proof. intros E. apply (f_equal (@length B)) in E. rewrite !map_length in E. auto. Qed.

Lemma sig_script_sdp : sdp (fun i => script_enc (ti_sig i)) wf_in_p ti_sig.
Proof.
  intros x y r r' Hx Hy E. unfold wf_in_p, wf_in in *. bsplit. apply script_enc_sd in E; auto with wf.
Qed.

Lemma auth_transparent_inj b1 b2 : wf_opt wf_tb b1 = true -> wf_opt wf_tb b2 = true ->
  option_map strip_tb b1 = option_map strip_tb b2 ->
  auth_transparent_tree b1 = auth_transparent_tree b2 -> b1 = b2.
Proof.
  intros W1 W2 Es E. apply Dlit_inj in E.
  destruct b1 as [b1|], b2 as [b2|]; cbn [option_map wf_opt] in *; try discriminate; auto.
  apply wf_tb_wf in W1, W2. destruct W1 as [I1 _], W2 as [I2 _].
  apply (flat_map_sd _ _ _ sig_script_sdp (fun i _ => script_enc_ne (ti_sig i))) in E; auto.
  injection Es as Ei Eo. f_equal. destruct b1 as [vin1 vout1], b2 as [vin2 vout2]; cbn [Model.tb_vin Model.tb_vout] in *. f_equal; auto.
  rewrite <- (map_id' vin1), <- (map_id' vin2).
  refine (map_eq2 _ _ _ _ _ _ Ei E).
  intros x y A B. destruct x, y; unfold strip_in in A; cbn in *. congruence.
Qed.

Lemma fixed_proj_sdp {A} (f : A -> bytes) (P : A -> Prop) k :
  (forall x, P x -> length (f x) = k) -> sdp f P f.
Proof. intros H. apply (fixed_sdp _ _ _ k); auto. Qed.

Lemma uniform_anchors l1 l2 :
  (match l1 with [] => true | s :: r => forallb (fun x => bytes_eqb (sp_anchor x) (sp_anchor s)) r end) = true ->
  (match l2 with [] => true | s :: r => forallb (fun x => bytes_eqb (sp_anchor x) (sp_anchor s)) r end) = true ->
  length l1 = length l2 -> first_anchor l1 = first_anchor l2 -> map sp_anchor l1 = map sp_anchor l2.
Proof.
  assert (BE : forall a b, bytes_eqb a b = true -> a = b).
  { induction a as [|x a IH]; intros [|y b] H; simpl in *; try discriminate; auto.
    apply andb_true_iff in H. destruct H as [H1 H2]. apply N.eqb_eq in H1. f_equal; auto. }
  destruct l1 as [|s1 r1], l2 as [|s2 r2]; simpl; try discriminate; auto.
  intros U1 U2 L F. injection L as L. f_equal; auto.
  rewrite forallb_forall in U1, U2.
  revert r2 L U2. induction r1 as [|x r1 IH]; intros [|y r2] L U2; simpl in *; try discriminate; auto.
  f_equal.
  - rewrite (BE _ _ (U1 x (or_introl eq_refl))), (BE _ _ (U2 y (or_introl eq_refl))). auto.
  - apply IH.
    + intros z Hz. apply U1. right; auto.
    + injection L; auto.
    + intros z Hz. apply U2. right; auto.
Qed.

Lemma spend_full_eq v x y : strip_spend v x = strip_spend v y -> sp_anchor x = sp_anchor y ->
  sp_proof x = sp_proof y -> sp_sig x = sp_sig y -> x = y.
Proof. intros A B C E. destruct x, y. unfold strip_spend in A. cbn in *. inversion A. congruence. Qed.
Lemma sout_full_eq x y : strip_out x = strip_out y -> so_proof x = so_proof y -> x = y.
Proof. intros A B. destruct x, y. unfold strip_out in A. cbn in *. inversion A. congruence. Qed.
Lemma act_full_eq x y : strip_act x = strip_act y -> oa_sig x = oa_sig y -> x = y.
Proof. intros A B. destruct x, y. unfold strip_act in A. cbn in *. inversion A. congruence. Qed.

Lemma auth_sapling_inj v s1 s2 : wf_opt wf_sap s1 = true -> wf_opt wf_sap s2 = true ->
  (forall b, s1 = Some b -> match sa_spends b with [] => true | s :: r => forallb (fun x => bytes_eqb (sp_anchor x) (sp_anchor s)) r end = true) ->
  (forall b, s2 = Some b -> match sa_spends b with [] => true | s :: r => forallb (fun x => bytes_eqb (sp_anchor x) (sp_anchor s)) r end = true) ->
  option_map (strip_sap v) s1 = option_map (strip_sap v) s2 ->
  auth_sapling_tree v s1 = auth_sapling_tree v s2 -> s1 = s2.
Proof.
  intros W1 W2 U1 U2 Es E. apply Dlit_inj in E.
  destruct s1 as [b1|], s2 as [b2|]; cbn [option_map wf_opt] in *; try discriminate; auto.
  specialize (U1 _ eq_refl). specialize (U2 _ eq_refl).
  unfold wf_sap in W1, W2. bsplit.
  injection Es as Esp Eou Evb.
  assert (F1 : Forall wf_spend_p (sa_spends b1)) by (apply forallb_Forall; assumption).
  assert (F2 : Forall wf_spend_p (sa_spends b2)) by (apply forallb_Forall; assumption).
  assert (G1 : Forall wf_sout_p (sa_outputs b1)) by (apply forallb_Forall; assumption).
  assert (G2 : Forall wf_sout_p (sa_outputs b2)) by (apply forallb_Forall; assumption).
  pose proof (map_len_eq _ _ _ Esp) as Ls. pose proof (map_len_eq _ _ _ Eou) as Lo.
  assert (SP : sdp sp_proof wf_spend_p sp_proof).
  { apply (fixed_proj_sdp _ _ 192%nat). intros x Hx. unfold wf_spend_p, wf_spend in Hx. bsplit. lens. auto. }
  assert (SS : sdp sp_sig wf_spend_p sp_sig).
  { apply (fixed_proj_sdp _ _ 64%nat). intros x Hx. unfold wf_spend_p, wf_spend in Hx. bsplit. lens. auto. }
  assert (SO : sdp so_proof wf_sout_p so_proof).
  { apply (fixed_proj_sdp _ _ 192%nat). intros x Hx. unfold wf_sout_p, wf_sout in Hx. bsplit. lens. auto. }
  destruct (flat_map_sd_len _ _ _ SP _ _ F1 F2 Ls _ _ E) as [Ep E1]. clear E.
  destruct (flat_map_sd_len _ _ _ SS _ _ F1 F2 Ls _ _ E1) as [Eg E2]. clear E1.
  destruct (flat_map_sd_len _ _ _ SO _ _ G1 G2 Lo _ _ E2) as [Eop E3]. clear E2.
  split_app E3 Eb Ea.
  assert (Ean : map sp_anchor (sa_spends b1) = map sp_anchor (sa_spends b2)).
  { destruct (is_v6 v) eqn:V.
    - apply uniform_anchors; auto.
    - refine (map_eq1 _ _ _ _ _ Esp). intros x y A. unfold strip_spend in A. rewrite V in A. inversion A. auto. }
  f_equal. destruct b1 as [sp1 ou1 vb1 bs1], b2 as [sp2 ou2 vb2 bs2];
    cbn [Model.sa_spends Model.sa_outputs Model.sa_vb Model.sa_bsig] in *. f_equal; auto.
  - rewrite <- (map_id' sp1), <- (map_id' sp2).
    exact (map_eq4 _ _ _ _ _ (spend_full_eq v) _ _ Esp Ean Ep Eg).
  - rewrite <- (map_id' ou1), <- (map_id' ou2).
    exact (map_eq2 _ _ _ sout_full_eq _ _ Eou Eop).
Qed.

Lemma auth_orchard_inj f o1 o2 : wf_opt wf_ob o1 = true -> wf_opt wf_ob o2 = true ->
  option_map (strip_ob (anchor_in_txid f)) o1 = option_map (strip_ob (anchor_in_txid f)) o2 ->
  auth_orchard_tree f o1 = auth_orchard_tree f o2 -> o1 = o2.
Proof.
  intros W1 W2 Es E. apply Dlit_inj in E.
  destruct o1 as [b1|], o2 as [b2|]; cbn [option_map wf_opt] in *; try discriminate; auto.
  unfold wf_ob in W1, W2. bsplit.
  injection Es as Eac Efl Evb Ean.
  assert (F1 : Forall wf_act_p (ob_actions b1)) by (apply forallb_Forall; assumption).
  assert (F2 : Forall wf_act_p (ob_actions b2)) by (apply forallb_Forall; assumption).
  pose proof (map_len_eq _ _ _ Eac) as La.
  assert (SG : sdp oa_sig wf_act_p oa_sig).
  { apply (fixed_proj_sdp _ _ 64%nat). intros x Hx. unfold wf_act_p, wf_act in Hx. bsplit. lens. auto. }
  assert (LS : forall l, Forall wf_act_p l -> length (flat_map oa_sig l) = (64 * length l)%nat).
  { induction l as [|x l IH]; intros F; simpl; auto. inversion F; subst. rewrite app_length, IH; auto.
    match goal with Hw : wf_act_p x |- _ => unfold wf_act_p, wf_act in Hw end. bsplit. lens. lia. }
  lens.
  assert (LA : length (if anchor_in_txid f then [] else ob_anchor b1) = length (if anchor_in_txid f then [] else ob_anchor b2)).
  { destruct (anchor_in_txid f); auto. congruence. }
  apply app_inj_len_r in E.
  2:{ rewrite !app_length, (LS _ F1), (LS _ F2), La. lia. }
  destruct E as [Epr E].
  destruct (flat_map_sd_len _ _ _ SG _ _ F1 F2 La _ _ E) as [Esg E1]. clear E.
  split_app E1 Eb Ea.
  f_equal. destruct b1 as [ac1 fl1 vb1 an1 pr1 bs1], b2 as [ac2 fl2 vb2 an2 pr2 bs2];
    cbn [Model.ob_actions Model.ob_flags Model.ob_vb Model.ob_anchor Model.ob_proof Model.ob_bsig] in *. f_equal; auto.
  - rewrite <- (map_id' ac1), <- (map_id' ac2).
    exact (map_eq2 _ _ _ act_full_eq _ _ Eac Esg).
  - destruct (anchor_in_txid f); auto.
Qed.

Lemma auth_injective t1 t2 : wf_tx t1 = true -> wf_tx t2 = true ->
  anchors_uniform t1 = true -> anchors_uniform t2 = true ->
  effects t1 = effects t2 -> auth_tree t1 = auth_tree t2 -> t1 = t2.
Proof.
  intros W1 W2 U1 U2 Ee E. unfold auth_tree in E. apply D_inj in E. destruct E as [_ E].
  unfold effects in Ee. injection Ee as Ev Eb El Ex Et Es Eo Ei.
  cbn [app] in E.
  apply cons_eq in E. destruct E as [At E]. apply cons_eq in E. destruct E as [As E].
  apply cons_eq in E. destruct E as [Ao E]. apply sub_inj in At, As, Ao.
  unfold wf_tx in W1, W2. bsplit. rewrite <- Ev in *.
  apply auth_transparent_inj in At; auto.
  apply auth_sapling_inj in As; auto.
  2:{ intros b Hb. unfold anchors_uniform in U1. rewrite Hb in U1. auto. }
  2:{ intros b Hb. unfold anchors_uniform in U2. rewrite Hb in U2. auto. }
  rewrite <- anchor_fmt in Eo. apply auth_orchard_inj in Ao; auto.
  assert (Ai : tx_iron t1 = tx_iron t2).
  { destruct (is_v6 (tx_ver t1)) eqn:V.
    - apply cons_eq in E. destruct E as [E _]. apply sub_inj in E.
      apply (auth_orchard_inj IronwoodV6) in E; auto.
    - cbn [orb] in *. destruct (tx_iron t1), (tx_iron t2); try discriminate. reflexivity. }
  destruct t1, t2; cbn [Model.tx_ver Model.tx_branch Model.tx_lock Model.tx_expiry Model.tx_transp Model.tx_sap Model.tx_orch Model.tx_iron] in *. congruence.
Qed.

(** * S.2: what a transparent signature digest covers *)
Definition signing (b : tbundle) : Prop := is_coinbase b = false /\ tb_vin b <> [].

Definition sig_node (b : tbundle) (c : list coin) (i : sinput) (ti : option txin) : dig :=
  let ht := hash_type i in
  let acp := flag_acp ht in
  D T_ZCASH_TRANSPARENT_HASH_PERSONALIZATION
    [inl ht;
     sub (prevouts_tree (if acp then [] else tb_vin b));
     sub (amounts_tree acp c);
     sub (scripts_tree acp c);
     sub (sequence_tree (if acp then [] else tb_vin b));
     sub (outputs_tree (covered_outputs b i));
     sub (D S5_ZCASH_TRANSPARENT_INPUT_HASH_PERSONALIZATION
            (lit match i, ti with
                 | Transp _ _ value script, Some ti => prevout_enc ti ++ le64 value ++ script_enc script ++ seq_enc ti
                 | _, _ => []
                 end))].

(** closed form of the model's S.2 node: exactly the documented nodes are emptied *)
Lemma sig_form b c i : signing b ->
  transparent_sig_tree (Some b) c i =
  match i with
  | Shielded => Some (sig_node b c i None)
  | Transp _ idx _ _ => option_map (fun ti => sig_node b c i (Some ti)) (nth_error (tb_vin b) idx)
  end.
Proof.
  intros [Hc Hv]. unfold transparent_sig_tree, transparent_sig_of. cbn [option_map]. rewrite Hc.
  destruct (tb_vin b) as [|i0 l] eqn:V; [congruence|]. cbn [orb]. rewrite <- V.
  unfold sig_node, txin_sig_tree, sig_outputs_tree, covered_outputs, transparent_digests.
  cbn [td_prevouts td_sequence td_outputs].
  destruct i as [|ht idx v s]; cbn [hash_type].
  - destruct (flag_acp SIGHASH_ALL); reflexivity.
  - destruct (nth_error (tb_vin b) idx) as [ti|]; cbn [option_map]; auto.
    do 2 f_equal. destruct (flag_acp ht), (flag_single ht), (flag_none ht), (nth_error (tb_vout b) idx); reflexivity.
Qed.

Definition wf_coin_p (c : coin) : Prop := wf_coin c = true.
Lemma amount_sdp : sdp (fun c : coin => le64 (fst c)) wf_coin_p fst.
Proof.
  apply (fixed_sdp _ _ _ 8%nat).
  - intros; apply le64_length.
  - intros x y Hx Hy E. unfold wf_coin_p, wf_coin in *. bsplit. apply le64_inj; auto with wf.
Qed.
Lemma cscript_sdp : sdp (fun c : coin => script_enc (snd c)) wf_coin_p snd.
Proof.
  intros x y r r' Hx Hy E. unfold wf_coin_p, wf_coin in *. bsplit. apply script_enc_sd in E; auto with wf.
Qed.
Lemma le64_ne x : le64 x <> [].
Proof. intros E. apply (f_equal (@length N)) in E. rewrite le64_length in E. discriminate. Qed.

Lemma coins_inj c1 c2 : Forall wf_coin_p c1 -> Forall wf_coin_p c2 ->
  amounts_tree false c1 = amounts_tree false c2 -> scripts_tree false c1 = scripts_tree false c2 -> c1 = c2.
Proof.
  intros F1 F2 Ea Es. apply Dlit_inj in Ea, Es.
  apply (flat_map_sd _ _ _ amount_sdp (fun c _ => le64_ne (fst c))) in Ea; auto.
  apply (flat_map_sd _ _ _ cscript_sdp (fun c _ => script_enc_ne (snd c))) in Es; auto.
  rewrite <- (map_id' c1), <- (map_id' c2). refine (map_eq2 _ _ _ _ _ _ Ea Es).
  intros [a b] [a' b']; simpl; congruence.
Qed.

Lemma txin_node_inj ti ti' v v' s s' : wf_in_p ti -> wf_in_p ti' -> u63 v -> u63 v' -> short s -> short s' ->
  prevout_enc ti ++ le64 v ++ script_enc s ++ seq_enc ti = prevout_enc ti' ++ le64 v' ++ script_enc s' ++ seq_enc ti' ->
  in_eff_of ti = in_eff_of ti' /\ v = v' /\ s = s'.
Proof.
  intros W W' Hv Hv' Hs Hs' E.
  destruct (prevout_sdp _ _ _ _ W W' E) as [Ep E1]. clear E.
  split_app E1 Ev E2. apply script_enc_sd in E2; auto. destruct E2 as [Es Eq].
  unfold wf_in_p, wf_in in W, W'. bsplit. apply le32_inj in Eq; auto with wf.
  repeat split; auto using le64_inj, in_eff_eq.
Qed.

(** equal S.2 nodes: equal hash type, equal covered outputs, equal signed input and coin; without
    ANYONECANPAY also equal inputs and coins *)
Lemma sig_node_inj b b' c c' i i' ti ti' :
  wf_tb_p b -> wf_tb_p b' -> Forall wf_coin_p c -> Forall wf_coin_p c' ->
  (forall x, ti = Some x -> wf_in_p x) -> (forall x, ti' = Some x -> wf_in_p x) ->
  (match i with Transp _ _ v s => u63 v /\ short s | _ => True end) ->
  (match i' with Transp _ _ v s => u63 v /\ short s | _ => True end) ->
  sig_node b c i ti = sig_node b' c' i' ti' ->
  hash_type i = hash_type i'
  /\ covered_outputs b i = covered_outputs b' i'
  /\ (flag_acp (hash_type i) = false ->
      map in_eff_of (tb_vin b) = map in_eff_of (tb_vin b') /\ c = c')
  /\ match i, ti, i', ti' with
     | Transp _ _ v s, Some x, Transp _ _ v' s', Some x' => in_eff_of x = in_eff_of x' /\ v = v' /\ s = s'
     | _, _, _, _ => True
     end.
Proof.
  intros [I1 O1] [I2 O2] C1 C2 T1 T2 V1 V2 E. unfold sig_node in E.
  apply D_inj in E. destruct E as [_ E].
  apply cons_eq in E. destruct E as [Eh E]. injection Eh as Eh. rewrite <- Eh in E.
  apply cons_eq in E. destruct E as [Ep E]. apply cons_eq in E. destruct E as [Ea E].
  apply cons_eq in E. destruct E as [Es E]. apply cons_eq in E. destruct E as [Eq E].
  apply cons_eq in E. destruct E as [Eo E]. apply cons_eq in E. destruct E as [Et _].
  apply sub_inj in Ep, Ea, Es, Eq, Eo, Et.
  split; auto. split.
  { apply outputs_inj; auto.
    - unfold covered_outputs. destruct i as [|ht idx v s]; auto.
      destruct (flag_single ht). { destruct (nth_error (tb_vout b) idx) eqn:N; auto. constructor; auto.
        rewrite Forall_forall in O1. apply O1. eapply nth_error_In; eauto. }
      destruct (flag_none ht); auto.
    - unfold covered_outputs. destruct i' as [|ht idx v s]; auto.
      destruct (flag_single ht). { destruct (nth_error (tb_vout b') idx) eqn:N; auto. constructor; auto.
        rewrite Forall_forall in O2. apply O2. eapply nth_error_In; eauto. }
      destruct (flag_none ht); auto. }
  split.
  { intros A. rewrite A in *. apply prevouts_inj in Ep; auto. apply sequence_inj in Eq; auto.
    split; [exact (map_eq2 _ _ _ in_eff_eq _ _ Ep Eq) | apply coins_inj; auto]. }
  destruct i as [|ht idx v s]; auto. destruct ti as [x|]; auto.
  destruct i' as [|ht' idx' v' s']; auto. destruct ti' as [x'|]; auto.
  apply Dlit_inj in Et. destruct V1, V2. apply txin_node_inj; auto.
Qed.

(** conversely the S.2 node is a function of exactly those data *)
Lemma sig_node_ext b b' c c' i i' ti ti' :
  hash_type i = hash_type i' ->
  covered_outputs b i = covered_outputs b' i' ->
  (flag_acp (hash_type i) = false -> tb_vin b = tb_vin b' /\ c = c') ->
  match i, ti, i', ti' with
  | Transp _ _ v s, Some x, Transp _ _ v' s', Some x' => x = x' /\ v = v' /\ s = s'
  | Shielded, _, Shielded, _ => True
  | _, _, _, _ => False
  end ->
  sig_node b c i ti = sig_node b' c' i' ti'.
Proof.
  intros Eh Eo Ei Et. unfold sig_node. rewrite <- Eh, Eo.
  assert (X : (if flag_acp (hash_type i) then [] else tb_vin b) = (if flag_acp (hash_type i) then [] else tb_vin b')
              /\ amounts_tree (flag_acp (hash_type i)) c = amounts_tree (flag_acp (hash_type i)) c'
              /\ scripts_tree (flag_acp (hash_type i)) c = scripts_tree (flag_acp (hash_type i)) c').
  { destruct (flag_acp (hash_type i)); auto. destruct (Ei eq_refl) as [-> ->]. auto. }
  destruct X as (-> & -> & ->).
  destruct i as [|ht idx v s], i' as [|ht' idx' v' s'], ti as [x|], ti' as [x'|];
    cbn in Et; try contradiction; try reflexivity.
  destruct Et as (-> & -> & ->). reflexivity.
Qed.

Lemma signing_wf_in b idx x : wf_tb_p b -> nth_error (tb_vin b) idx = Some x -> wf_in_p x.
Proof. intros [I _] N. rewrite Forall_forall in I. apply I. eapply nth_error_In; eauto. Qed.

(** the full signature hash tree commits to the coin, the hash type and the input being signed *)
Lemma sighash_commits t t' b b' c c' ht ht' idx idx' v v' s s' d d' :
  wf_tx t = true -> wf_tx t' = true -> tx_transp t = Some b -> tx_transp t' = Some b' ->
  signing b -> signing b' -> Forall wf_coin_p c -> Forall wf_coin_p c' ->
  u63 v -> u63 v' -> short s -> short s' ->
  sighash_tree t c (Transp ht idx v s) = Some d -> sighash_tree t' c' (Transp ht' idx' v' s') = Some d' ->
  d = d' ->
  ht = ht' /\ v = v' /\ s = s'
  /\ option_map in_eff_of (nth_error (tb_vin b) idx) = option_map in_eff_of (nth_error (tb_vin b') idx')
  /\ covered_outputs b (Transp ht idx v s) = covered_outputs b' (Transp ht' idx' v' s')
  /\ (flag_acp ht = false -> map in_eff_of (tb_vin b) = map in_eff_of (tb_vin b') /\ c = c')
  /\ effects (no_transp t) = effects (no_transp t').
Proof.
  intros W W' Hb Hb' S S' C C' Hv Hv' Hs Hs' E E' <-.
  rewrite sighash_tree_root, Hb, (sig_form _ _ _ S) in E. rewrite sighash_tree_root, Hb', (sig_form _ _ _ S') in E'.
  destruct (nth_error (tb_vin b) idx) as [x|] eqn:N; [|discriminate].
  destruct (nth_error (tb_vin b') idx') as [x'|] eqn:N'; [|discriminate].
  cbn [option_map] in *. injection E as E. injection E' as E'. rewrite <- E' in E.
  destruct (root_inj _ _ _ _ W W' E) as [En Et].
  assert (Wb : wf_tb_p b). { unfold wf_tx in W. rewrite Hb in W. bsplit. apply wf_tb_wf; auto. }
  assert (Wb' : wf_tb_p b'). { unfold wf_tx in W'. rewrite Hb' in W'. bsplit. apply wf_tb_wf; auto. }
  apply sig_node_inj in Et; auto.
  - destruct Et as (Eh & Eo & Ei & Ex). cbn [hash_type] in *. destruct Ex as (Ex & -> & ->).
    rewrite Ex. repeat split; auto; match goal with A : flag_acp _ = false |- _ => destruct (Ei A); auto end.
  - intros y Hy. inversion Hy; subst. eapply (signing_wf_in b); eassumption.
  - intros y Hy. inversion Hy; subst. eapply (signing_wf_in b'); eassumption.
Qed.

(** * Corollaries *)
Lemma auth_change_detected t1 t2 : wf_tx t1 = true -> wf_tx t2 = true ->
  anchors_uniform t1 = true -> anchors_uniform t2 = true ->
  effects t1 = effects t2 -> t1 <> t2 ->
  txid_tree t1 = txid_tree t2 /\ (forall c i, sighash_tree t1 c i = sighash_tree t2 c i)
  /\ auth_tree t1 <> auth_tree t2.
Proof.
  intros W1 W2 U1 U2 E N. destruct (ignores_auth _ _ E) as [A B]. repeat split; auto.
  intros C. apply N. apply auth_injective; auto.
Qed.

Lemma sighash_injective_shielded_part t t' c c' i i' d :
  wf_tx t = true -> wf_tx t' = true ->
  sighash_tree t c i = Some d -> sighash_tree t' c' i' = Some d ->
  effects (no_transp t) = effects (no_transp t').
Proof.
  intros W W' E E'. rewrite sighash_tree_root in E, E'.
  destruct (transparent_sig_tree (tx_transp t) c i); [|discriminate].
  destruct (transparent_sig_tree (tx_transp t') c' i'); [|discriminate].
  cbn [option_map] in *. injection E as E. injection E' as E'. rewrite <- E' in E.
  apply (root_inj _ _ _ _ W W' E).
Qed.

(** the v6 Orchard anchor is authorising data *)
Definition with_orchard_anchor (a : bytes) (t : tx) : tx :=
  {| tx_ver := tx_ver t; tx_branch := tx_branch t; tx_lock := tx_lock t; tx_expiry := tx_expiry t;
     tx_transp := tx_transp t; tx_sap := tx_sap t;
     tx_orch := option_map (fun b => {| ob_actions := ob_actions b; ob_flags := ob_flags b; ob_vb := ob_vb b;
                                        ob_anchor := a; ob_proof := ob_proof b; ob_bsig := ob_bsig b |}) (tx_orch t);
     tx_iron := tx_iron t |}.

Lemma v6_anchor_effects a t : tx_ver t = V6 -> effects (with_orchard_anchor a t) = effects t.
Proof.
  intros V. unfold effects, with_orchard_anchor.
  cbn [tx_ver tx_branch tx_lock tx_expiry tx_transp tx_sap tx_orch tx_iron]. rewrite V. cbn [is_v6 negb].
  destruct (tx_orch t); reflexivity.
Qed.
Lemma v5_anchor_effects a t b : tx_ver t = V5 -> tx_orch t = Some b -> ob_anchor b <> a ->
  effects (with_orchard_anchor a t) <> effects t.
Proof.
  intros V O N E. unfold effects, with_orchard_anchor in E.
  cbn [tx_ver tx_branch tx_lock tx_expiry tx_transp tx_sap tx_orch tx_iron] in E. rewrite V, O in E.
  cbn [is_v6 negb option_map] in E. inversion E. congruence.
Qed.

Lemma wf_with_anchor a t : length a = 32%nat -> wf_tx t = true -> wf_tx (with_orchard_anchor a t) = true.
Proof.
  intros L W. unfold wf_tx, with_orchard_anchor in *.
  cbn [tx_ver tx_branch tx_lock tx_expiry tx_transp tx_sap tx_orch tx_iron].
  destruct (tx_orch t) as [b|]; auto. cbn [option_map wf_opt] in *.
  unfold wf_ob in *. cbn [ob_actions ob_flags ob_vb ob_anchor ob_proof ob_bsig].
  unfold i64b in *. bsplit. repeat (apply andb_true_iff; split); auto; try (unfold len_is; apply Nat.eqb_eq; exact L).
Qed.

Lemma v6_anchor_is_auth a t b : tx_ver t = V6 -> tx_orch t = Some b -> ob_anchor b <> a -> length a = 32%nat ->
  wf_tx t = true -> anchors_uniform t = true ->
  txid_tree (with_orchard_anchor a t) = txid_tree t
  /\ (forall c i, sighash_tree (with_orchard_anchor a t) c i = sighash_tree t c i)
  /\ auth_tree (with_orchard_anchor a t) <> auth_tree t.
Proof.
  intros V O N L W U. apply auth_change_detected; auto using wf_with_anchor, v6_anchor_effects.
  intros E. apply (f_equal tx_orch) in E. unfold with_orchard_anchor in E. cbn [tx_orch] in E.
  rewrite O in E. cbn [option_map] in E. apply N. injection E as E. rewrite <- E. reflexivity.
Qed.

(** cached evaluation used by the correspondence = evaluation of the trees *)
Lemma eval_txid_cached t : eval (txid_from t (eval_parts (parts_of t))) = eval (txid_tree t).
Proof.
  unfold txid_from, txid_tree, eval_parts, parts_of, root_tree, ev, transparent_txid_tree, transparent_txid_of.
  cbn [pt_hdr pt_td pt_sap pt_orc pt_iron].
  destruct (tx_transp t); destruct (is_v6 (tx_ver t)); reflexivity.
Qed.
