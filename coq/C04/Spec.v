(** C04 — what the digests are required to commit to, stated without any hashing.

    [effects t] is the effecting data of a transaction (everything except signatures, proofs,
    input scripts and — in v6 — the shielded anchors); [sig_view t coins i] is exactly the data a
    signature hash is required to cover for signable input [i] (ZIP 244 S.2 with the
    ANYONECANPAY / NONE / SINGLE exclusions). Decidable equalities make both usable on the
    implementation's observations. *)
From V.Lib Require Import Base Hex.
From V.Gen Require Import C04Consts.
From V.C04 Require Import Model.
Local Open Scope N_scope.

(** * Effecting data: authorising fields blanked *)
Definition strip_in (i : txin) : txin :=
  {| ti_hash := ti_hash i; ti_n := ti_n i; ti_sig := []; ti_seq := ti_seq i |}.
Definition strip_tb (b : tbundle) : tbundle :=
  {| tb_vin := map strip_in (tb_vin b); tb_vout := tb_vout b |}.
Definition strip_spend (v : ver) (s : sspend) : sspend :=
  {| sp_cv := sp_cv s; sp_anchor := if is_v6 v then [] else sp_anchor s; sp_nf := sp_nf s;
     sp_rk := sp_rk s; sp_proof := []; sp_sig := [] |}.
Definition strip_out (o : soutput) : soutput :=
  {| so_cmu := so_cmu o; so_epk := so_epk o; so_encc := so_encc o; so_memo := so_memo o;
     so_cv := so_cv o; so_encn := so_encn o; so_out := so_out o; so_proof := [] |}.
Definition strip_sap (v : ver) (b : sapling) : sapling :=
  {| sa_spends := map (strip_spend v) (sa_spends b); sa_outputs := map strip_out (sa_outputs b);
     sa_vb := sa_vb b; sa_bsig := [] |}.
Definition strip_act (a : oaction) : oaction :=
  {| oa_nf := oa_nf a; oa_cmx := oa_cmx a; oa_epk := oa_epk a; oa_encc := oa_encc a;
     oa_memo := oa_memo a; oa_cv := oa_cv a; oa_rk := oa_rk a; oa_encn := oa_encn a;
     oa_out := oa_out a; oa_sig := [] |}.
Definition strip_ob (anchor_effecting : bool) (b : obundle) : obundle :=
  {| ob_actions := map strip_act (ob_actions b); ob_flags := ob_flags b; ob_vb := ob_vb b;
     ob_anchor := if anchor_effecting then ob_anchor b else []; ob_proof := []; ob_bsig := [] |}.

Definition effects (t : tx) : tx :=
  {| tx_ver := tx_ver t; tx_branch := tx_branch t; tx_lock := tx_lock t; tx_expiry := tx_expiry t;
     tx_transp := option_map strip_tb (tx_transp t);
     tx_sap := option_map (strip_sap (tx_ver t)) (tx_sap t);
     tx_orch := option_map (strip_ob (negb (is_v6 (tx_ver t)))) (tx_orch t);
     tx_iron := option_map (strip_ob false) (tx_iron t) |}.

(** the effecting data outside the transparent bundle (covered by every signature hash) *)
Definition no_transp (t : tx) : tx :=
  {| tx_ver := tx_ver t; tx_branch := tx_branch t; tx_lock := tx_lock t; tx_expiry := tx_expiry t;
     tx_transp := None; tx_sap := tx_sap t; tx_orch := tx_orch t; tx_iron := tx_iron t |}.

(** * What a signature hash covers *)
Definition in_eff := (bytes * N * N)%type.        (* prevout hash, prevout index, sequence *)
Definition in_eff_of (i : txin) : in_eff := (ti_hash i, ti_n i, ti_seq i).

Inductive tview :=
| TVNone                                                  (* no transparent bundle *)
| TVTxid (ins : list in_eff) (outs : list txout)          (* coinbase / no inputs: the txid's view *)
| TVSig (ht : N)
        (ins : option (list in_eff * list coin))          (* None under ANYONECANPAY *)
        (outs : list txout)                               (* all / none / the matching one *)
        (input : option (in_eff * N * bytes)).            (* the input being signed with its coin *)

Definition covered_outputs (b : tbundle) (i : sinput) : list txout :=
  match i with
  | Shielded => tb_vout b
  | Transp ht idx _ _ =>
      if flag_single ht then match nth_error (tb_vout b) idx with Some o => [o] | None => [] end
      else if flag_none ht then []
      else tb_vout b
  end.

Definition tview_of (b : option tbundle) (coins : list coin) (i : sinput) : option tview :=
  match b with
  | None => Some TVNone
  | Some b =>
      if is_coinbase b || match tb_vin b with [] => true | _ => false end
      then Some (TVTxid (map in_eff_of (tb_vin b)) (tb_vout b))
      else
        let ht := hash_type i in
        let ins := if flag_acp ht then None else Some (map in_eff_of (tb_vin b), coins) in
        match i with
        | Shielded => Some (TVSig ht ins (covered_outputs b i) None)
        | Transp _ idx value script =>
            match nth_error (tb_vin b) idx with
            | None => None
            | Some ti => Some (TVSig ht ins (covered_outputs b i) (Some (in_eff_of ti, value, script)))
            end
        end
  end.

Definition sig_view (t : tx) (coins : list coin) (i : sinput) : option (tx * tview) :=
  match tview_of (tx_transp t) coins i with
  | None => None
  | Some v => Some (effects (no_transp t), v)
  end.

(** * Boolean equality (fast under vm_compute), with its specification *)
Lemma bytes_eqb_spec a b : bytes_eqb a b = true <-> a = b.
Proof.
  revert b. induction a as [|x a IH]; intros [|y b]; simpl; try (split; congruence).
  rewrite andb_true_iff, N.eqb_eq, IH. split; [intros [-> ->]; reflexivity | intros E; inversion E; auto].
Qed.
Definition txin_eqb (a b : txin) : bool :=
  bytes_eqb (ti_hash a) (ti_hash b) && N.eqb (ti_n a) (ti_n b) && bytes_eqb (ti_sig a) (ti_sig b) && N.eqb (ti_seq a) (ti_seq b).
Definition txout_eqb (a b : txout) : bool := N.eqb (to_value a) (to_value b) && bytes_eqb (to_script a) (to_script b).
Definition tbundle_eqb (a b : tbundle) : bool :=
  list_eqb txin_eqb (tb_vin a) (tb_vin b) && list_eqb txout_eqb (tb_vout a) (tb_vout b).
Definition sspend_eqb (a b : sspend) : bool :=
  bytes_eqb (sp_cv a) (sp_cv b) && bytes_eqb (sp_anchor a) (sp_anchor b) && bytes_eqb (sp_nf a) (sp_nf b)
  && bytes_eqb (sp_rk a) (sp_rk b) && bytes_eqb (sp_proof a) (sp_proof b) && bytes_eqb (sp_sig a) (sp_sig b).
Definition soutput_eqb (a b : soutput) : bool :=
  bytes_eqb (so_cmu a) (so_cmu b) && bytes_eqb (so_epk a) (so_epk b) && bytes_eqb (so_encc a) (so_encc b)
  && bytes_eqb (so_memo a) (so_memo b) && bytes_eqb (so_cv a) (so_cv b) && bytes_eqb (so_encn a) (so_encn b)
  && bytes_eqb (so_out a) (so_out b) && bytes_eqb (so_proof a) (so_proof b).
Definition sapling_eqb (a b : sapling) : bool :=
  list_eqb sspend_eqb (sa_spends a) (sa_spends b) && list_eqb soutput_eqb (sa_outputs a) (sa_outputs b)
  && Z.eqb (sa_vb a) (sa_vb b) && bytes_eqb (sa_bsig a) (sa_bsig b).
Definition oaction_eqb (a b : oaction) : bool :=
  bytes_eqb (oa_nf a) (oa_nf b) && bytes_eqb (oa_cmx a) (oa_cmx b) && bytes_eqb (oa_epk a) (oa_epk b)
  && bytes_eqb (oa_encc a) (oa_encc b) && bytes_eqb (oa_memo a) (oa_memo b) && bytes_eqb (oa_cv a) (oa_cv b)
  && bytes_eqb (oa_rk a) (oa_rk b) && bytes_eqb (oa_encn a) (oa_encn b) && bytes_eqb (oa_out a) (oa_out b)
  && bytes_eqb (oa_sig a) (oa_sig b).
Definition obundle_eqb (a b : obundle) : bool :=
  list_eqb oaction_eqb (ob_actions a) (ob_actions b) && N.eqb (ob_flags a) (ob_flags b) && Z.eqb (ob_vb a) (ob_vb b)
  && bytes_eqb (ob_anchor a) (ob_anchor b) && bytes_eqb (ob_proof a) (ob_proof b) && bytes_eqb (ob_bsig a) (ob_bsig b).
Definition ver_eqb (a b : ver) : bool := match a, b with V5, V5 | V6, V6 => true | _, _ => false end.
Definition tx_eqb (a b : tx) : bool :=
  ver_eqb (tx_ver a) (tx_ver b) && N.eqb (tx_branch a) (tx_branch b) && N.eqb (tx_lock a) (tx_lock b)
  && N.eqb (tx_expiry a) (tx_expiry b) && option_eqb tbundle_eqb (tx_transp a) (tx_transp b)
  && option_eqb sapling_eqb (tx_sap a) (tx_sap b) && option_eqb obundle_eqb (tx_orch a) (tx_orch b)
  && option_eqb obundle_eqb (tx_iron a) (tx_iron b).
Definition in_eff_eqb (a b : in_eff) : bool :=
  match a, b with (h1, n1, s1), (h2, n2, s2) => bytes_eqb h1 h2 && N.eqb n1 n2 && N.eqb s1 s2 end.
Definition coin_eqb (a b : coin) : bool := N.eqb (fst a) (fst b) && bytes_eqb (snd a) (snd b).
Definition tview_eqb (a b : tview) : bool :=
  match a, b with
  | TVNone, TVNone => true
  | TVTxid i1 o1, TVTxid i2 o2 => list_eqb in_eff_eqb i1 i2 && list_eqb txout_eqb o1 o2
  | TVSig h1 i1 o1 x1, TVSig h2 i2 o2 x2 =>
      N.eqb h1 h2
      && option_eqb (fun p q => list_eqb in_eff_eqb (fst p) (fst q) && list_eqb coin_eqb (snd p) (snd q)) i1 i2
      && list_eqb txout_eqb o1 o2
      && option_eqb (fun p q => match p, q with (e1, v1, s1), (e2, v2, s2) =>
                                  in_eff_eqb e1 e2 && N.eqb v1 v2 && bytes_eqb s1 s2 end) x1 x2
  | _, _ => false
  end.
Definition effects_eqb (a b : tx) : bool := tx_eqb (effects a) (effects b).
Definition sview_eqb (a b : option (tx * tview)) : bool :=
  option_eqb (fun p q => tx_eqb (fst p) (fst q) && tview_eqb (snd p) (snd q)) a b.

Ltac eqb_spec :=
  repeat rewrite ?andb_true_iff, ?bytes_eqb_spec, ?N.eqb_eq, ?Z.eqb_eq;
  split; [intros; f_equal; tauto | intros E; inversion E; tauto].
Lemma txin_eqb_spec a b : txin_eqb a b = true <-> a = b.
Proof. destruct a, b; unfold txin_eqb; cbn. eqb_spec. Qed.
Lemma txout_eqb_spec a b : txout_eqb a b = true <-> a = b.
Proof. destruct a, b; unfold txout_eqb; cbn. eqb_spec. Qed.
Lemma tbundle_eqb_spec a b : tbundle_eqb a b = true <-> a = b.
Proof.
  destruct a, b; unfold tbundle_eqb; cbn.
  rewrite andb_true_iff, (list_eqb_spec _ txin_eqb_spec), (list_eqb_spec _ txout_eqb_spec).
  split; [intros [-> ->]; reflexivity | intros E; inversion E; auto].
Qed.
Lemma sspend_eqb_spec a b : sspend_eqb a b = true <-> a = b.
Proof. destruct a, b; unfold sspend_eqb; cbn. eqb_spec. Qed.
Lemma soutput_eqb_spec a b : soutput_eqb a b = true <-> a = b.
Proof. destruct a, b; unfold soutput_eqb; cbn. eqb_spec. Qed.
Lemma sapling_eqb_spec a b : sapling_eqb a b = true <-> a = b.
Proof.
  destruct a, b; unfold sapling_eqb; cbn.
  rewrite !andb_true_iff, (list_eqb_spec _ sspend_eqb_spec), (list_eqb_spec _ soutput_eqb_spec), Z.eqb_eq, bytes_eqb_spec.
  split; [intros [[[-> ->] ->] ->]; reflexivity | intros E; inversion E; auto].
Qed.
Lemma oaction_eqb_spec a b : oaction_eqb a b = true <-> a = b.
Proof. destruct a, b; unfold oaction_eqb; cbn. eqb_spec. Qed.
Lemma obundle_eqb_spec a b : obundle_eqb a b = true <-> a = b.
Proof.
  destruct a, b; unfold obundle_eqb; cbn.
  rewrite !andb_true_iff, (list_eqb_spec _ oaction_eqb_spec), N.eqb_eq, Z.eqb_eq, !bytes_eqb_spec.
  split; [intros [[[[[-> ->] ->] ->] ->] ->]; reflexivity | intros E; inversion E; repeat split; auto].
Qed.
Lemma tx_eqb_spec a b : tx_eqb a b = true <-> a = b.
Proof.
  destruct a, b; unfold tx_eqb; cbn.
  rewrite !andb_true_iff, !N.eqb_eq, (option_eqb_spec _ tbundle_eqb_spec), (option_eqb_spec _ sapling_eqb_spec),
    !(option_eqb_spec _ obundle_eqb_spec).
  split.
  - intros [[[[[[[V ->] ->] ->] ->] ->] ->] ->]. destruct tx_ver, tx_ver0; try discriminate; reflexivity.
  - intros E; inversion E; subst. repeat split; auto. destruct tx_ver0; reflexivity.
Qed.
Lemma effects_eqb_spec a b : effects_eqb a b = true <-> effects a = effects b.
Proof. apply tx_eqb_spec. Qed.

(** * Classification of the single-field mutations produced by the harness (field codes of
    harness/wallet/src/bin/c04.rs). [true] = authorising data. *)
Definition field_is_auth (v : ver) (f : N) : bool :=
  match f with
  | 12 => true                                  (* input script *)
  | 34 | 35 | 47 | 49 => true                   (* Sapling proofs and signatures *)
  | 59 | 63 | 64 | 79 | 83 | 84 => true         (* Orchard / Ironwood signatures and proof *)
  | 31 | 62 | 82 => is_v6 v                     (* shielded anchors: authorising from v6 on *)
  | _ => false
  end.
(** fields 90.. change the signing context only (coins, hash type, index) *)
Definition field_is_context (f : N) : bool := 90 <=? f.
