(** C04 — bridge: on a well-formed case, agreement of the implementation with the model
    ([run_case]) implies the property on the implementation's outcome ([prop_case]).
    For [CMut] the step from "digest equality = pre-image equality" to "digest equality = equality
    of the data that must be covered" is exactly the injectivity theorems. *)
From Coq Require Import ZifyBool.
From V.Lib Require Import Base Hex.
From V.Gen Require Import C04Consts.
From V.C04 Require Import Model ModelV4 Spec SpecEq SpecV4 DigEq Corr Wf Enc Proofs Proofs2 SigIff ProofsV4.
Local Open Scope N_scope.

Lemma bool_eq_iff (a b : bool) : (a = true <-> b = true) -> a = b.
Proof. destruct a, b; intros [H1 H2]; auto; try (symmetry; apply H1; reflexivity); apply H2; reflexivity. Qed.

Lemma txid_eqb_bridge t t' : wf_tx t = true -> wf_tx t' = true ->
  dig_eqb (txid_tree t) (txid_tree t') = effects_eqb t t'.
Proof.
  intros W W'. apply bool_eq_iff. rewrite dig_eqb_spec, effects_eqb_spec. split.
  - apply txid_injective; auto.
  - intros E. apply (ignores_auth _ _ E).
Qed.

Lemma auth_eqb_bridge t t' : wf_tx t = true -> wf_tx t' = true ->
  anchors_uniform t = true -> anchors_uniform t' = true -> effects_eqb t t' = true ->
  dig_eqb (auth_tree t) (auth_tree t') = tx_eqb t t'.
Proof.
  intros W W' U U' E. apply effects_eqb_spec in E. apply bool_eq_iff. rewrite dig_eqb_spec, tx_eqb_spec. split.
  - apply auth_injective; auto.
  - intros ->. reflexivity.
Qed.

Lemma sighash_eqb_bridge t t' c c' i i' : wf_tx t = true -> wf_tx t' = true ->
  Forall wf_coin_p c -> Forall wf_coin_p c' -> wf_input i -> wf_input i' ->
  odig_eqb (sighash_tree t c i) (sighash_tree t' c' i') = sview_eqb (sig_view t c i) (sig_view t' c' i').
Proof.
  intros W W' C C' I I'. apply bool_eq_iff. rewrite odig_eqb_spec, sview_eqb_spec.
  destruct (sighash_tree t c i) as [d|] eqn:E, (sighash_tree t' c' i') as [d'|] eqn:E'.
  - rewrite <- (sighash_iff _ _ _ _ _ _ _ _ W W' C C' I I' E E'). split; congruence.
  - rewrite sighash_tree_root, tsig_tree_view in E, E'. unfold sig_view.
    destruct (tview_of (tx_transp t) c i); [|discriminate].
    destruct (tview_of (tx_transp t') c' i'); [discriminate|]. split; discriminate.
  - rewrite sighash_tree_root, tsig_tree_view in E, E'. unfold sig_view.
    destruct (tview_of (tx_transp t) c i); [discriminate|].
    destruct (tview_of (tx_transp t') c' i'); [|discriminate]. split; discriminate.
  - rewrite sighash_tree_root, tsig_tree_view in E, E'. unfold sig_view.
    destruct (tview_of (tx_transp t) c i); [discriminate|].
    destruct (tview_of (tx_transp t') c' i'); [discriminate|]. split; reflexivity.
Qed.

Lemma wf_coins_p t c : wf_coins t c = true -> Forall wf_coin_p c.
Proof. unfold wf_coins. intros H. bsplit. apply forallb_Forall; auto. Qed.

Lemma sig_pairs_bridge t t' c c' : wf_tx t = true -> wf_tx t' = true ->
  Forall wf_coin_p c -> Forall wf_coin_p c' ->
  forall l l', forallb wf_sig l = true -> forallb wf_sig l' = true ->
  sig_pairs_run t t' c c' l l' = true -> sig_pairs_ok t t' c c' l l' = true.
Proof.
  intros W W' C C'. induction l as [|s l IH]; intros [|s' l'] F F' R; cbn in *; try discriminate; auto.
  bsplit. apply andb_true_iff. split; auto.
  destruct s as [ht idx v sc co d], s' as [ht' idx' v' sc' co' d']. unfold sig_pair_run, sig_pair_ok in *.
  unfold wf_sig in *. bsplit.
  rewrite <- sighash_eqb_bridge; auto; split; auto with wf.
Qed.

Definition modelled (c : case) : bool :=
  match c with CTx _ _ _ _ _ _ _ _ | CMut _ _ _ _ _ _ _ => true | _ => false end.

Theorem bridge c : modelled c = true -> wf_case c = true -> run_case c = true -> prop_case c = true.
Proof.
  destruct c as [tag t coins parts txid auth shsig sigs | f t t' coins coins' o o' | | | | | | | |]; try discriminate; intros _ W R.
  - cbn [run_case prop_case] in *. apply andb_true_iff in R. destruct R as [_ R]. exact R.
  - destruct o as [txid auth shsig sigs], o' as [txid' auth' shsig' sigs'].
    cbn [wf_case run_case prop_case] in *. unfold wf_obs in W. bsplit.
    match goal with H : mut_class_ok _ _ _ = true |- _ => rename H into MC end.
    repeat match goal with H : Bool.eqb _ _ = true |- _ => apply eqb_prop in H end.
    assert (C : Forall wf_coin_p coins) by (apply (wf_coins_p t); assumption).
    assert (C' : Forall wf_coin_p coins') by (apply (wf_coins_p t'); assumption).
    repeat (apply andb_true_iff; split).
    + exact MC.
    + rewrite <- txid_eqb_bridge by assumption. apply eqb_true_iff. assumption.
    + destruct (effects_eqb t t') eqn:SE; auto.
      rewrite <- auth_eqb_bridge by assumption. apply eqb_true_iff. assumption.
    + rewrite <- sighash_eqb_bridge; auto; try exact Logic.I. apply eqb_true_iff. assumption.
    + apply sig_pairs_bridge; auto.
Qed.

(** * v3 / v4 mutation pairs: the signature-hash clauses of [prop_case] follow from [run_case] *)
Lemma sighash4_eqb_bridge t t' i i' : wf_tx4 t = true -> wf_tx4 t' = true -> wf_input4 i -> wf_input4 i' ->
  odig_eqb (sighash4_tree t i) (sighash4_tree t' i') = oview4_eqb (view4_of t i) (view4_of t' i').
Proof.
  intros W W' I I'. apply bool_eq_iff. rewrite odig_eqb_spec, oview4_eqb_spec.
  destruct (sighash4_tree t i) as [d|] eqn:E, (sighash4_tree t' i') as [d'|] eqn:E'.
  - rewrite <- (sighash4_iff_wf _ _ _ _ _ _ W W' I I' E E'). split; congruence.
  - unfold sighash4_tree in E, E'. destruct (view4_of t i); [|discriminate]. destruct (view4_of t' i'); [discriminate|].
    split; discriminate.
  - unfold sighash4_tree in E, E'. destruct (view4_of t i); [discriminate|]. destruct (view4_of t' i'); [|discriminate].
    split; discriminate.
  - unfold sighash4_tree in E, E'. destruct (view4_of t i); [discriminate|]. destruct (view4_of t' i'); [discriminate|].
    split; reflexivity.
Qed.

Lemma sig4_pairs_bridge t t' : wf_tx4 t = true -> wf_tx4 t' = true ->
  forall l l', forallb wf_sig4 l = true -> forallb wf_sig4 l' = true ->
  sig4_pairs_run t t' l l' = true -> sig4_pairs_ok t t' l l' = true.
Proof.
  intros W W'. induction l as [|s l IH]; intros [|s' l'] F F' R; cbn in *; try discriminate; auto.
  bsplit. apply andb_true_iff. split; auto.
  destruct s as [ht idx v sc co d], s' as [ht' idx' v' sc' co' d']. unfold sig4_pair_run, sig4_pair_ok in *.
  unfold wf_sig4 in *. bsplit.
  match goal with H : Bool.eqb _ _ = true |- _ => apply eqb_prop in H; rename H into EQ end.
  assert (U256 : forall x, (x <? 256) = true -> u32 x).
  { intros x Hx. apply N.ltb_lt in Hx. unfold u32. eapply N.lt_trans; [exact Hx | reflexivity]. }
  assert (I1 : wf_input4 (Transp4 ht idx v co)).
  { split; [apply U256; assumption | split; [apply u63b_u63 | apply shortb_short]; assumption]. }
  assert (I2 : wf_input4 (Transp4 ht' idx' v' co')).
  { split; [apply U256; assumption | split; [apply u63b_u63 | apply shortb_short]; assumption]. }
  rewrite <- (sighash4_eqb_bridge t t' _ _ W W' I1 I2). apply eqb_true_iff. exact EQ.
Qed.

Theorem bridge_v4_mut f t t' o o' :
  wf_case (CV4Mut f t t' o o') = true -> run_case (CV4Mut f t t' o o') = true -> mut4_sigs_ok t t' o o' = true.
Proof.
  destruct o as [txid sha shsig sigs], o' as [txid' sha' shsig' sigs'].
  cbn [wf_case run_case mut4_sigs_ok]. unfold wf_obs4. intros W R. bsplit.
  repeat match goal with H : Bool.eqb _ _ = true |- _ => apply eqb_prop in H end.
  apply andb_true_iff. split.
  - rewrite <- sighash4_eqb_bridge; auto; try exact Logic.I. apply eqb_true_iff. assumption.
  - apply sig4_pairs_bridge; auto.
Qed.

(** * parse-path independence and raw hash types *)
(** what [prop_case] demands of a re-parse observation: the identifier obtained through any
    fragmentation of the reader is the expected one (SHA-256d of the bytes before v5), hence any
    two fragmentations of the same bytes give the same identifier *)
Lemma reparse_independent v k k' e o o' :
  prop_case (CReparse v k e o) = true -> prop_case (CReparse v k' e o') = true -> o = o' /\ o = e.
Proof.
  cbn [prop_case]. rewrite !bytes_eqb_spec. intros <- <-. auto.
Qed.

(** raw pre-v5 hash-type bytes: the base type is the low five bits, ANYONECANPAY is bit 7; bits
    0x20 and 0x40 select nothing (they are still hashed, as part of the 4-byte hash type) *)
Lemma flags_raw ht :
  flag_single ht = flag_single (N.land ht 31) /\ flag_none ht = flag_none (N.land ht 31)
  /\ flag_acp ht = N.testbit ht 7
  /\ flag_single (N.lor ht 96) = flag_single ht /\ flag_none (N.lor ht 96) = flag_none ht
  /\ flag_acp (N.lor ht 96) = flag_acp ht.
Proof.
  unfold flag_single, flag_none, flag_acp.
  change SIGHASH_MASK with 31. change SIGHASH_ANYONECANPAY with 128.
  rewrite <- !N.land_assoc. change (N.land 31 31) with 31.
  rewrite !N.land_lor_distr_l. change (N.land 96 31) with 0. change (N.land 96 128) with 0. rewrite !N.lor_0_r.
  repeat split; auto.
  change 128 with (2 ^ 7). destruct (N.testbit ht 7) eqn:B.
  - destruct (N.land ht (2 ^ 7) =? 0) eqn:E; auto. apply N.eqb_eq in E.
    apply (f_equal (fun x => N.testbit x 7)) in E. rewrite N.land_spec, B, N.pow2_bits_true in E. discriminate.
  - destruct (N.land ht (2 ^ 7) =? 0) eqn:E; auto. apply N.eqb_neq in E. exfalso. apply E.
    apply N.bits_inj. intros n. rewrite N.land_spec, N.bits_0.
    destruct (N.eq_dec n 7) as [->|D]; [rewrite B; reflexivity|]. rewrite N.pow2_bits_false by auto. apply andb_false_r.
Qed.
