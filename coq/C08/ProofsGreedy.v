(** C08 — the greedy proposal loop. *)
From V.Lib Require Import Base.
From V.C08 Require Import Sql Model Spec ProofsSql ProofsSel ProofsProp.
From V.Gen Require Import C08SqlPred.
From Coq Require Import ZifyBool Permutation FinFun.
Local Open Scope Z_scope.

Lemma nodup_app_disj {A} (a b : list A) :
  NoDup a -> NoDup b -> (forall x, In x a -> ~ In x b) -> NoDup (a ++ b).
Proof.
  induction a as [|x t IH]; intros Ha Hb Hd; cbn; [exact Hb|].
  inversion Ha as [|? ? Hx Ht]; subst. constructor.
  - intros Hin. apply in_app_or in Hin. destruct Hin as [Hin|Hin]; [exact (Hx Hin) | exact (Hd x (or_introl eq_refl) Hin)].
  - apply IH; [exact Ht | exact Hb | intros y Hy; apply Hd; right; exact Hy].
Qed.

Lemma nodup_map_filter {A B} (f : A -> B) (g : A -> bool) l :
  NoDup (map f l) -> NoDup (map f (filter g l)).
Proof.
  induction l as [|x t IH]; cbn; intros Hn; [constructor|]. inversion Hn as [|? ? Hx Ht]; subst.
  destruct (g x); [|apply IH; exact Ht]. cbn. constructor; [|apply IH; exact Ht].
  intros Hin. apply Hx. apply in_map_iff in Hin. destruct Hin as [y [Hy Hi]].
  apply filter_In in Hi. apply in_map_iff. exists y. split; [exact Hy | exact (proj1 Hi)].
Qed.

Lemma nodup_rrefs_pool p l :
  NoDup (map r_id l) -> (forall r, In r l -> r_pool r = p) -> NoDup (rrefs l).
Proof.
  intros Hn Hp. unfold rrefs.
  replace (map (fun r => (r_pool r, r_id r)) l) with (map (pair p) (map r_id l)).
  - apply Injective_map_NoDup; [|exact Hn]. intros a b H. inversion H. reflexivity.
  - rewrite map_map. apply map_ext_in. intros r Hr. rewrite (Hp r Hr). reflexivity.
Qed.

Lemma rrefs_app a b : rrefs (a ++ b) = rrefs a ++ rrefs b.
Proof. apply map_app. Qed.

Lemma in_rrefs x l : In x (rrefs l) -> exists r, In r l /\ x = (r_pool r, r_id r).
Proof. intros H. apply in_map_iff in H. destruct H as [r [Hr Hi]]. exists r. split; [exact Hi | symmetry; exact Hr]. Qed.

Lemma sum_values_le (l : list note_row) : forall m,
  NoDup l -> incl l m -> (forall x, In x m -> 0 <= r_value x) -> sum_values l <= sum_values m.
Proof.
  induction l as [|x t IH]; intros m Hn Hi Hv.
  - unfold sum_values at 1. cbn. clear Hi. induction m as [|y m' IHm]; [cbn; lia|].
    unfold sum_values in *. cbn. specialize (Hv y (or_introl eq_refl)) as Hy.
    assert (0 <= fold_right (fun r a => r_value r + a) 0 m') by (apply IHm; intros z Hz; apply Hv; right; exact Hz). lia.
  - inversion Hn as [|? ? Hx Ht]; subst.
    destruct (in_split x m (Hi x (or_introl eq_refl))) as [m1 [m2 ->]].
    assert (Hi' : incl t (m1 ++ m2)).
    { intros y Hy. specialize (Hi y (or_intror Hy)). apply in_app_or in Hi.
      apply in_or_app. destruct Hi as [Hi|[Hi|Hi]]; [left; exact Hi | subst; contradiction | right; exact Hi]. }
    specialize (IH (m1 ++ m2) Ht Hi' (fun z Hz => Hv z ltac:(apply in_app_or in Hz; apply in_or_app; destruct Hz; [left|right; right]; assumption))).
    rewrite sum_values_app in *. unfold sum_values in *. cbn. lia.
Qed.

Section Greedy.
  Variable change : list note_row -> change_result.
  Variable db : list note_row.
  Variable e : env.
  Variables acct pay : Z.
  Variable prefs : list pool.
  Variable pol : policy.
  Variable lp : lip.

  Hypothesis Hn : NoDup (rrefs db).
  Hypothesis Ht : 1 <= p_trusted pol.
  Hypothesis Hu : p_trusted pol <= p_untrusted pol.

  (** A row the proposal may spend: in the wallet, in a permitted pool, spendable per Spec. *)
  Definition okrowb (r : note_row) : bool :=
    match e_anchor e with
    | None => false
    | Some anchor =>
        existsb (pool_eqb (r_pool r)) prefs
        && spendable (SC acct (r_pool r) (e_target e) anchor (tip_unscanned e (r_pool r) anchor) pol
                         (Some (overridable (LFPolicy lp)))) r
    end.
  Definition okrow (r : note_row) : Prop := In r db /\ okrowb r = true.
  Definition good (sel : list note_row) : Prop := (forall r, In r sel -> okrow r) /\ NoDup (rrefs sel).

  Lemma select_one_good anchor p req excl :
    e_anchor e = Some anchor ->
    let l := if existsb (pool_eqb p) prefs
             then select_matching db e acct p anchor req pol excl (LFPolicy lp) else [] in
    (forall r, In r l -> okrow r /\ r_pool r = p) /\ NoDup (rrefs l).
  Proof.
    intros Ha l. subst l. destruct (existsb (pool_eqb p) prefs) eqn:Ep.
    - assert (Hrows : forall r, In r (select_matching db e acct p anchor req pol excl (LFPolicy lp)) -> okrow r /\ r_pool r = p).
      { intros r Hr. apply select_matching_sound in Hr; [|assumption|assumption].
        destruct Hr as [Hdb [Hs _]].
        assert (Hp : r_pool r = p).
        { unfold spendable in Hs. rewrite !andb_true_iff in Hs. apply pool_eqb_eq. cbn in Hs. tauto. }
        split; [|exact Hp]. split; [exact Hdb|]. unfold okrowb. rewrite Ha, Hp, Ep. exact Hs. }
      split; [exact Hrows|].
      apply (nodup_rrefs_pool p); [apply select_matching_nodup; exact Hn | intros r Hr; apply Hrows; exact Hr].
    - split; [intros r [] | constructor].
  Qed.

  Lemma select_all_good req excl : good (select_all db e acct prefs pol lp req excl).
  Proof.
    unfold select_all. destruct (e_anchor e) as [anchor|] eqn:Ha; [|split; [intros r [] | constructor]].
    cbn [map concat]. rewrite app_nil_r.
    destruct (select_one_good anchor Sapling req excl Ha) as [S1 S2].
    destruct (select_one_good anchor Orchard req excl Ha) as [O1 O2].
    destruct (select_one_good anchor Ironwood req excl Ha) as [I1 I2].
    cbn zeta in *. split.
    - intros r Hr. apply in_app_or in Hr. destruct Hr as [Hr|Hr]; [apply S1; exact Hr|].
      apply in_app_or in Hr. destruct Hr as [Hr|Hr]; [apply O1; exact Hr | apply I1; exact Hr].
    - rewrite !rrefs_app. apply nodup_app_disj; [exact S2 | apply nodup_app_disj; [exact O2 | exact I2 |] |].
      + intros x Hx Hx'. apply in_rrefs in Hx, Hx'. destruct Hx as [r [Hr ->]], Hx' as [r' [Hr' E]].
        apply O1 in Hr. apply I1 in Hr'. inversion E. destruct Hr as [_ Hr], Hr' as [_ Hr']. congruence.
      + intros x Hx Hx'. apply in_rrefs in Hx. destruct Hx as [r [Hr ->]]. apply S1 in Hr. destruct Hr as [_ Hr].
        apply in_app_or in Hx'. destruct Hx' as [Hx'|Hx']; apply in_rrefs in Hx'; destruct Hx' as [r' [Hr' E]]; inversion E.
        * apply O1 in Hr'. destruct Hr' as [_ Hr']. congruence.
        * apply I1 in Hr'. destruct Hr' as [_ Hr']. congruence.
  Qed.

  Lemma trim_good sel used : good sel -> good (trim sel used).
  Proof.
    intros [G1 G2]. unfold trim.
    assert (Hsub : forall p (b : bool) r, In r (of_pool p (if b then sel else [])) -> In r sel /\ r_pool r = p).
    { intros p b r Hr. apply of_pool_in in Hr. destruct b; [exact Hr | destruct Hr as [[] _]]. }
    assert (Hnd : forall p (b : bool), NoDup (rrefs (of_pool p (if b then sel else [])))).
    { intros p b. destruct b; [apply nodup_map_filter; exact G2 | constructor]. }
    split.
    - intros r Hr. apply G1. apply in_app_or in Hr. destruct Hr as [Hr|Hr]; [eapply Hsub; exact Hr|].
      apply in_app_or in Hr. destruct Hr as [Hr|Hr]; eapply Hsub; exact Hr.
    - rewrite !rrefs_app. apply nodup_app_disj; [apply Hnd | apply nodup_app_disj; [apply Hnd | apply Hnd |] |].
      + intros x Hx Hx'. apply in_rrefs in Hx, Hx'. destruct Hx as [r [Hr ->]], Hx' as [r' [Hr' E]].
        apply Hsub in Hr, Hr'. inversion E. destruct Hr as [_ Hr], Hr' as [_ Hr']. congruence.
      + intros x Hx Hx'. apply in_rrefs in Hx. destruct Hx as [r [Hr ->]]. apply Hsub in Hr. destruct Hr as [_ Hr].
        apply in_app_or in Hx'. destruct Hx' as [Hx'|Hx']; apply in_rrefs in Hx'; destruct Hx' as [r' [Hr' E]]; inversion E;
          apply Hsub in Hr'; destruct Hr' as [_ Hr']; congruence.
  Qed.

  (** What a successfully constructed step is. *)
  Definition step_ok (s : step) : Prop :=
    exists inputs,
      s_inputs s = rrefs inputs /\ s_in_value s = sum_values inputs /\ s_tin s = 0 /\ s_pay s = pay
      /\ good inputs /\ step_balanced s = true.

  Lemma step_from_parts_ok inputs ch fee s :
    good inputs -> step_from_parts inputs pay ch fee = Ok s ->
    step_ok s /\ s_change s = ch /\ s_fee s = fee.
  Proof.
    intros G H. unfold step_from_parts in H.
    destruct (_ =? _) eqn:E; [|discriminate]. inversion H; subst. clear H.
    split; [|split; reflexivity]. exists inputs. cbn [s_inputs s_in_value s_tin s_pay].
    split; [reflexivity|]. split; [reflexivity|]. split; [reflexivity|]. split; [reflexivity|]. split; [exact G|].
    unfold step_balanced. cbn [s_in_value s_pay s_change s_fee]. lia.
  Qed.

  Lemma greedy_sound fuel : forall sel prior req excl s,
    good sel -> greedy change db e acct pay prefs pol lp fuel sel prior req excl = Ok s -> step_ok s.
  Proof.
    induction fuel as [|f IH]; intros sel prior req excl s G H; cbn in H; [discriminate|].
    destruct (change (trim sel (use_pools sel req prefs))) as [ch fee|req'|ids|] eqn:E.
    - eapply step_from_parts_ok; [apply trim_good; exact G | exact H].
    - destruct (_ <=? prior); [discriminate|]. eapply IH; [apply select_all_good | exact H].
    - destruct (_ <=? prior); [discriminate|]. eapply IH; [apply select_all_good | exact H].
    - discriminate.
  Qed.

  Theorem propose_transaction_sound fuel s :
    propose_transaction change db e acct pay prefs pol lp fuel = Ok s -> step_ok s.
  Proof.
    unfold propose_transaction. apply greedy_sound. split; [intros r [] | constructor].
  Qed.

  (** The change strategy returns amounts (Zatoshis): non-negative change and fee. *)
  Definition change_nonneg : Prop := forall l ch fee, change l = OBal ch fee -> 0 <= ch /\ 0 <= fee.

  Lemma greedy_change_nonneg fuel : forall sel prior req excl s,
    change_nonneg -> greedy change db e acct pay prefs pol lp fuel sel prior req excl = Ok s ->
    0 <= s_change s /\ 0 <= s_fee s.
  Proof.
    induction fuel as [|f IH]; intros sel prior req excl s C H; cbn in H; [discriminate|].
    destruct (change (trim sel (use_pools sel req prefs))) as [ch fee|req'|ids|] eqn:E.
    - unfold step_from_parts in H. destruct (_ =? _); [|discriminate]. inversion H; subst. cbn. eapply C; exact E.
    - destruct (_ <=? prior); [discriminate|]. eapply IH; eassumption.
    - destruct (_ <=? prior); [discriminate|]. eapply IH; eassumption.
    - discriminate.
  Qed.

  Hypothesis Hv : forall r, In r db -> 0 <= r_value r.

  Lemma good_sum_le sel : good sel -> sum_values sel <= sum_values (filter okrowb db).
  Proof.
    intros [G1 G2]. apply sum_values_le.
    - unfold rrefs in G2. eapply NoDup_map_inv; exact G2.
    - intros r Hr. apply filter_In. apply G1. exact Hr.
    - intros x Hx. apply filter_In in Hx. apply Hv. exact (proj1 Hx).
  Qed.

  (** A request the spendable funds cannot cover never yields a proposal. *)
  Theorem insufficient_is_error fuel s :
    change_nonneg ->
    sum_values (filter okrowb db) < pay ->
    propose_transaction change db e acct pay prefs pol lp fuel <> Ok s.
  Proof.
    intros C Hlt H.
    pose proof (greedy_change_nonneg fuel [] 0 0 [] s C H) as [Hc Hf].
    apply propose_transaction_sound in H. destruct H as [inputs [_ [Hval [_ [Hpay [G Hbal]]]]]].
    pose proof (good_sum_le inputs G). unfold step_balanced in Hbal. lia.
  Qed.

  (** Termination: the selected value strictly increases and is bounded by the wallet's total. *)
  Lemma filter_sum_le : sum_values (filter okrowb db) <= sum_values db.
  Proof.
    clear Hn. induction db as [|x t IH]; [cbn; lia|].
    cbn [filter]. assert (Hx := Hv x (or_introl eq_refl)).
    assert (IH' : sum_values (filter okrowb t) <= sum_values t) by (apply IH; intros r Hr; apply Hv; right; exact Hr).
    destruct (okrowb x); unfold sum_values in *; cbn; lia.
  Qed.

  Lemma greedy_fuel fuel : forall sel prior req excl,
    prior <= sum_values db ->
    sum_values db - prior < Z.of_nat fuel ->
    greedy change db e acct pay prefs pol lp fuel sel prior req excl <> Err EOutOfFuel.
  Proof.
    induction fuel as [|f IH]; intros sel prior req excl Hp Hf; [lia|].
    cbn. destruct (change (trim sel (use_pools sel req prefs))) as [ch fee|req'|ids|].
    - unfold step_from_parts. destruct (_ =? _); discriminate.
    - destruct (_ <=? prior) eqn:E; [discriminate|].
      pose proof (good_sum_le _ (select_all_good req' excl)). pose proof filter_sum_le.
      apply IH; lia.
    - destruct (_ <=? prior) eqn:E; [discriminate|].
      pose proof (good_sum_le _ (select_all_good req (excl ++ ids))). pose proof filter_sum_le.
      apply IH; lia.
    - discriminate.
  Qed.

  Theorem greedy_terminates fuel :
    sum_values db < Z.of_nat fuel ->
    propose_transaction change db e acct pay prefs pol lp fuel <> Err EOutOfFuel.
  Proof.
    intros H. unfold propose_transaction. apply greedy_fuel; [|lia].
    pose proof filter_sum_le. pose proof (good_sum_le [] ltac:(split; [intros r [] | constructor])).
    unfold sum_values in *. cbn in *. lia.
  Qed.

  (** More fuel never changes a result that was reached. *)
  Lemma greedy_fuel_mono fuel : forall sel prior req excl r,
    greedy change db e acct pay prefs pol lp fuel sel prior req excl = r -> r <> Err EOutOfFuel ->
    greedy change db e acct pay prefs pol lp (S fuel) sel prior req excl = r.
  Proof.
    induction fuel as [|f IH]; intros sel prior req excl r H Hne; [cbn in H; congruence|].
    cbn in H. cbn [greedy].
    destruct (change (trim sel (use_pools sel req prefs))) as [ch fee|req'|ids|]; try exact H.
    - destruct (_ <=? prior); [exact H|]. apply IH; assumption.
    - destruct (_ <=? prior); [exact H|]. apply IH; assumption.
  Qed.
End Greedy.

(** ** propose_transfer: all clauses together *)

Lemma multi_step_nodup steps r : multi_step steps = Ok r -> r = steps /\ NoDup (concat (map s_inputs steps)).
Proof.
  unfold multi_step. destruct (nodup_refs _) eqn:E; [|discriminate]. intros H. inversion H; subst.
  split; [reflexivity | apply nodup_refs_spec; exact E].
Qed.

Theorem propose_transfer_sound change fuel db e tip acct pay orchard_out permitted pol lp lock steps :
  NoDup (rrefs db) -> 1 <= p_trusted pol -> p_trusted pol <= p_untrusted pol ->
  propose_transfer change fuel db e tip acct pay orchard_out permitted pol lp lock = Ok steps ->
  NoDup (concat (map s_inputs steps))
  /\ forall s, In s steps ->
       step_ok db e acct pay (pool_preference false orchard_out permitted) pol lp s.
Proof.
  intros Hn Ht Hu H. unfold propose_transfer in H.
  destruct (e_anchor e); [|discriminate].
  destruct (propose_transaction _ _ _ _ _ _ _ _ _) as [s| |] eqn:E; try discriminate.
  destruct (multi_step [s]) as [st| |] eqn:M; try discriminate.
  apply multi_step_nodup in M. destruct M as [-> Hnd].
  assert (steps = [s]) as ->.
  { destruct lock as [[o fb]|]; [destruct (lock_outputs _ _ _ _ _); [|discriminate]|]; inversion H; reflexivity. }
  split; [exact Hnd|]. intros s' [<-|[]].
  eapply propose_transaction_sound; eassumption.
Qed.

(** A permitted-pool fact used by the bridge: preference lists only contain permitted pools. *)
Lemma pool_preference_permitted iw oo permitted p :
  In p (pool_preference iw oo permitted) -> In p permitted.
Proof.
  unfold pool_preference. intros H. apply filter_In in H. destruct H as [_ H].
  apply existsb_exists in H. destruct H as [q [Hq E]]. apply pool_eqb_eq in E. subst. exact Hq.
Qed.
