(** C08 — the greedy proposal loop. *)
From V.Lib Require Import Base.
From V.C08 Require Import Sql Model ModelT ModelP Spec ProofsSql ProofsSel ProofsProp ProofsT.
From V.Gen Require Import C08SqlPred.
From Coq Require Import ZifyBool Permutation FinFun.
Local Open Scope Z_scope.

Lemma nodup_app_disj {A} (a b : list A) :
  NoDup a -> NoDup b -> (forall x, In x a -> ~ In x b) -> NoDup (a ++ b).
Proof.
  induction a as [|x t IH]; intros Ha Hb Hd; cbn; [exact Hb|].
  inversion Ha as [|? ? Hx Ht]; subst. constructor.
  - intros Hin. apply in_app_or in Hin. destruct Hin as [Hin|Hin]; [exact (Hx Hin) | exact (Hd x (or_introl eq_refl) Hin)].
  - apply IH; [exact Ht | exact Hb | intros y Hy; apply Hd; right; exact Hy].
Qed.

Lemma nodup_map_filter {A B} (f : A -> B) (g : A -> bool) l :
  NoDup (map f l) -> NoDup (map f (filter g l)).
Proof.
  induction l as [|x t IH]; cbn; intros Hn; [constructor|]. inversion Hn as [|? ? Hx Ht]; subst.
  destruct (g x); [|apply IH; exact Ht]. cbn. constructor; [|apply IH; exact Ht].
  intros Hin. apply Hx. apply in_map_iff in Hin. destruct Hin as [y [Hy Hi]].
  apply filter_In in Hi. apply in_map_iff. exists y. split; [exact Hy | exact (proj1 Hi)].
Qed.

Lemma nodup_rrefs_pool p l :
  NoDup (map r_id l) -> (forall r, In r l -> r_pool r = p) -> NoDup (rrefs l).
Proof.
  intros Hn Hp. unfold rrefs.
  replace (map (fun r => (r_pool r, r_id r)) l) with (map (pair p) (map r_id l)).
  - apply Injective_map_NoDup; [|exact Hn]. intros a b H. inversion H. reflexivity.
  - rewrite map_map. apply map_ext_in. intros r Hr. rewrite (Hp r Hr). reflexivity.
Qed.

Lemma rrefs_app a b : rrefs (a ++ b) = rrefs a ++ rrefs b.
Proof. apply map_app. Qed.

Lemma in_rrefs x l : In x (rrefs l) -> exists r, In r l /\ x = (r_pool r, r_id r).
Proof. intros H. apply in_map_iff in H. destruct H as [r [Hr Hi]]. exists r. split; [exact Hi | symmetry; exact Hr]. Qed.

Lemma sum_values_le (l : list note_row) : forall m,
  NoDup l -> incl l m -> (forall x, In x m -> 0 <= r_value x) -> sum_values l <= sum_values m.
Proof.
  induction l as [|x t IH]; intros m Hn Hi Hv.
  - unfold sum_values at 1. cbn. clear Hi. induction m as [|y m' IHm]; [cbn; lia|].
    unfold sum_values in *. cbn. specialize (Hv y (or_introl eq_refl)) as Hy.
    assert (0 <= fold_right (fun r a => r_value r + a) 0 m') by (apply IHm; intros z Hz; apply Hv; right; exact Hz). lia.
  - inversion Hn as [|? ? Hx Ht]; subst.
    destruct (in_split x m (Hi x (or_introl eq_refl))) as [m1 [m2 ->]].
    assert (Hi' : incl t (m1 ++ m2)).
    { intros y Hy. specialize (Hi y (or_intror Hy)). apply in_app_or in Hi.
      apply in_or_app. destruct Hi as [Hi|[Hi|Hi]]; [left; exact Hi | subst; contradiction | right; exact Hi]. }
    specialize (IH (m1 ++ m2) Ht Hi' (fun z Hz => Hv z ltac:(apply in_app_or in Hz; apply in_or_app; destruct Hz; [left|right; right]; assumption))).
    rewrite sum_values_app in *. unfold sum_values in *. cbn. lia.
Qed.

Lemma hd_error_in {A} (l : list A) x : hd_error l = Some x -> In x l.
Proof. destruct l; cbn; intros H; [discriminate | inversion H; left; reflexivity]. Qed.

(** select_single_spendable_note: the note it returns is spendable in the same sense. *)
Lemma select_single_pool_sound db e acct p anchor tv pol exclude lf r :
  1 <= p_trusted pol -> p_trusted pol <= p_untrusted pol ->
  select_single_pool db e acct p anchor tv pol exclude lf = Some r ->
  In r db
  /\ spendable (SC acct p (e_target e) anchor (tip_unscanned e p anchor) pol (owners_opt lf)) r = true.
Proof.
  intros Ht Hu H. unfold select_single_pool in H. apply hd_error_in in H.
  apply filter_In in H. destruct H as [H Hconf].
  apply filter_In in H. destruct H as [H _].
  apply (Permutation_in _ (sort_rows_perm _ _)) in H.
  apply filter_In in H. destruct H as [H Hel].
  apply of_pool_in in H. destruct H as [Hdb Hp].
  rewrite eligible_where_spec in Hel. unfold eligible_spec in Hel.
  cbn [mk_q q_account q_anchor q_tip_unscanned q_exclude q_target q_owners] in Hel.
  rewrite !andb_true_iff in Hel.
  destruct Hel as [[[[[[[[[Ha Hv] _] _] _] Hm] Hw] Hx] Hs] Hl].
  rewrite has_confirmations_spec in Hconf by assumption.
  split; [exact Hdb|].
  unfold spendable. cbn [sc_acct sc_pool sc_target sc_pol sc_anchor sc_tipuns sc_owners].
  rewrite Ha, Hs, Hconf, Hm, Hw. rewrite (proj2 (pool_eqb_eq _ _) Hp). cbn.
  destruct lf; cbn in *; [reflexivity | exact Hl].
Qed.

Ltac dif H := match type of H with context [if ?c then _ else _] => destruct c eqn:? end.

Section Greedy.
  Variable change : Z -> list note_row -> list utxo_row -> change_result.
  Variable ton : bool.
  Variable tgather : Z -> list utxo_row.
  Variable db : list note_row.
  Variable e : env.
  Variables acct pay : Z.
  Variable prefs : list pool.
  Variable pol : policy.
  Variable lp : lip.
  Variable iw : bool.
  Variable step_anchor : Z.
  Variable single : bool.

  Hypothesis Hn : NoDup (rrefs db).
  Hypothesis Ht : 1 <= p_trusted pol.
  Hypothesis Hu : p_trusted pol <= p_untrusted pol.
  (** the gather never returns an output twice *)
  Hypothesis Htn : forall t, NoDup (map u_id (tgather t)).

  (** A row the proposal may spend: in the wallet, in a permitted pool, spendable per Spec at the
      anchor the data source selects at. *)
  Definition okrowb (r : note_row) : bool :=
    match e_anchor e with
    | None => false
    | Some anchor =>
        existsb (pool_eqb (r_pool r)) prefs
        && spendable (SC acct (r_pool r) (e_target e) anchor (tip_unscanned e (r_pool r) anchor) pol
                         (Some (overridable (LFPolicy lp)))) r
    end.
  Definition okrow (r : note_row) : Prop := In r db /\ okrowb r = true.
  Definition good (sel : list note_row) : Prop := (forall r, In r sel -> okrow r) /\ NoDup (rrefs sel).

  (** Transparent inputs: each came out of some gather of the call's policy; none twice. *)
  Definition tgood (tins : list utxo_row) : Prop :=
    (forall u, In u tins -> ton = true /\ exists t, In u (tgather t)) /\ NoDup (map u_id tins).

  Lemma tgood_filter f tins : tgood tins -> tgood (filter f tins).
  Proof.
    intros [G1 G2]. split; [intros u Hin; apply filter_In in Hin; apply G1; exact (proj1 Hin) | apply nodup_filter_ids; exact G2].
  Qed.

  Lemma tgood_gather t : ton = true -> tgood (tgather t).
  Proof. intros Hon. split; [intros u Hin; split; [exact Hon | exists t; exact Hin] | apply Htn]. Qed.

  Lemma select_one_good anchor p req excl :
    e_anchor e = Some anchor ->
    let l := if existsb (pool_eqb p) prefs
             then select_matching db e acct p anchor req pol excl (LFPolicy lp) else [] in
    (forall r, In r l -> okrow r /\ r_pool r = p) /\ NoDup (rrefs l).
  Proof.
    intros Ha l. subst l. destruct (existsb (pool_eqb p) prefs) eqn:Ep.
    - assert (Hrows : forall r, In r (select_matching db e acct p anchor req pol excl (LFPolicy lp)) -> okrow r /\ r_pool r = p).
      { intros r Hr. apply select_matching_sound in Hr; [|assumption|assumption].
        destruct Hr as [Hdb [Hs _]].
        assert (Hp : r_pool r = p).
        { unfold spendable in Hs. rewrite !andb_true_iff in Hs. apply pool_eqb_eq. cbn in Hs. tauto. }
        split; [|exact Hp]. split; [exact Hdb|]. unfold okrowb. rewrite Ha, Hp, Ep. exact Hs. }
      split; [exact Hrows|].
      apply (nodup_rrefs_pool p); [apply select_matching_nodup; exact Hn | intros r Hr; apply Hrows; exact Hr].
    - split; [intros r [] | constructor].
  Qed.

  Lemma select_all_good req excl : good (select_all db e acct prefs pol lp req excl).
  Proof.
    unfold select_all. destruct (e_anchor e) as [anchor|] eqn:Ha; [|split; [intros r [] | constructor]].
    cbn [map concat]. rewrite app_nil_r.
    destruct (select_one_good anchor Sapling req excl Ha) as [S1 S2].
    destruct (select_one_good anchor Orchard req excl Ha) as [O1 O2].
    destruct (select_one_good anchor Ironwood req excl Ha) as [I1 I2].
    cbn zeta in *. split.
    - intros r Hr. apply in_app_or in Hr. destruct Hr as [Hr|Hr]; [apply S1; exact Hr|].
      apply in_app_or in Hr. destruct Hr as [Hr|Hr]; [apply O1; exact Hr | apply I1; exact Hr].
    - rewrite !rrefs_app. apply nodup_app_disj; [exact S2 | apply nodup_app_disj; [exact O2 | exact I2 |] |].
      + intros x Hx Hx'. apply in_rrefs in Hx, Hx'. destruct Hx as [r [Hr ->]], Hx' as [r' [Hr' E]].
        apply O1 in Hr. apply I1 in Hr'. inversion E. destruct Hr as [_ Hr], Hr' as [_ Hr']. congruence.
      + intros x Hx Hx'. apply in_rrefs in Hx. destruct Hx as [r [Hr ->]]. apply S1 in Hr. destruct Hr as [_ Hr].
        apply in_app_or in Hx'. destruct Hx' as [Hx'|Hx']; apply in_rrefs in Hx'; destruct Hx' as [r' [Hr' E]]; inversion E.
        * apply O1 in Hr'. destruct Hr' as [_ Hr']. congruence.
        * apply I1 in Hr'. destruct Hr' as [_ Hr']. congruence.
  Qed.

  Lemma select_single_in_good anchor req excl : forall ps,
    e_anchor e = Some anchor -> (forall p, In p ps -> In p prefs) ->
    good (select_single_in db e acct pol lp anchor req excl ps).
  Proof.
    induction ps as [|p t IH]; intros Ha Hps; cbn; [split; [intros r [] | constructor]|].
    destruct (select_single_pool db e acct p anchor req pol excl (LFPolicy lp)) as [r|] eqn:E.
    - apply select_single_pool_sound in E; [|assumption|assumption]. destruct E as [Hdb Hs].
      assert (Hp : r_pool r = p).
      { unfold spendable in Hs. rewrite !andb_true_iff in Hs. apply pool_eqb_eq. cbn in Hs. tauto. }
      split; [|cbn; constructor; [intros [] | constructor]].
      intros r' [<-|[]]. split; [exact Hdb|]. unfold okrowb. rewrite Ha, Hp.
      replace (existsb (pool_eqb p) prefs) with true; [exact Hs|].
      symmetry. apply existsb_exists. exists p. split; [apply Hps; left; reflexivity | apply pool_eqb_eq; reflexivity].
    - apply IH; [exact Ha | intros q Hq; apply Hps; right; exact Hq].
  Qed.

  Lemma select_next_good req excl : good (select_next db e acct prefs pol lp single req excl).
  Proof.
    unfold select_next.
    destruct single; [|apply select_all_good].
    destruct (e_anchor e) as [anchor|] eqn:Ha; [|apply select_all_good].
    pose proof (select_single_in_good anchor req excl prefs Ha (fun p H => H)) as G.
    destruct (select_single_in db e acct pol lp anchor req excl prefs) as [|x t]; [apply select_all_good | exact G].
  Qed.

  Lemma trim_good sel used : good sel -> good (trim sel used).
  Proof.
    intros [G1 G2]. unfold trim.
    assert (Hsub : forall p (b : bool) r, In r (of_pool p (if b then sel else [])) -> In r sel /\ r_pool r = p).
    { intros p b r Hr. apply of_pool_in in Hr. destruct b; [exact Hr | destruct Hr as [[] _]]. }
    assert (Hnd : forall p (b : bool), NoDup (rrefs (of_pool p (if b then sel else [])))).
    { intros p b. destruct b; [apply nodup_map_filter; exact G2 | constructor]. }
    split.
    - intros r Hr. apply G1. apply in_app_or in Hr. destruct Hr as [Hr|Hr]; [eapply Hsub; exact Hr|].
      apply in_app_or in Hr. destruct Hr as [Hr|Hr]; eapply Hsub; exact Hr.
    - rewrite !rrefs_app. apply nodup_app_disj; [apply Hnd | apply nodup_app_disj; [apply Hnd | apply Hnd |] |].
      + intros x Hx Hx'. apply in_rrefs in Hx, Hx'. destruct Hx as [r [Hr ->]], Hx' as [r' [Hr' E]].
        apply Hsub in Hr, Hr'. inversion E. destruct Hr as [_ Hr], Hr' as [_ Hr']. congruence.
      + intros x Hx Hx'. apply in_rrefs in Hx. destruct Hx as [r [Hr ->]]. apply Hsub in Hr. destruct Hr as [_ Hr].
        apply in_app_or in Hx'. destruct Hx' as [Hx'|Hx']; apply in_rrefs in Hx'; destruct Hx' as [r' [Hr' E]]; inversion E;
          apply Hsub in Hr'; destruct Hr' as [_ Hr']; congruence.
  Qed.

  (** What a successfully constructed step is. *)
  Definition step_ok (s : step) : Prop :=
    exists inputs tins,
      s_inputs s = rrefs inputs /\ s_tins s = map u_id tins
      /\ s_in_value s = sum_utxos tins + sum_values inputs /\ s_pay s = pay
      /\ s_anchor s = Some step_anchor
      /\ good inputs /\ tgood tins /\ step_balanced s = true.

  Lemma step_from_parts_ok inputs tins cs fee s :
    good inputs -> tgood tins ->
    step_from_parts iw inputs (map u_id tins) (sum_utxos tins) step_anchor pay cs fee = Ok s ->
    step_ok s /\ s_changes s = cs /\ s_fee s = fee.
  Proof.
    intros G TG H. unfold step_from_parts in H.
    destruct (iw && _ && _); [discriminate|].
    destruct (_ =? _) eqn:E; [|discriminate]. inversion H; subst. clear H.
    split; [|split; reflexivity]. exists inputs, tins. cbn [s_inputs s_in_value s_tins s_pay s_anchor].
    split; [reflexivity|]. split; [reflexivity|]. split; [reflexivity|]. split; [reflexivity|].
    split; [reflexivity|]. split; [exact G|]. split; [exact TG|].
    unfold step_balanced, s_change. cbn [s_in_value s_pay s_changes s_fee]. lia.
  Qed.

  Lemma greedy_sound fuel : forall sel tins tdust ag prior req excl s,
    good sel -> tgood tins ->
    greedy change ton tgather db e acct pay prefs pol lp iw step_anchor single fuel sel tins tdust ag prior req excl = Ok s ->
    step_ok s.
  Proof.
    induction fuel as [|f IH]; intros sel tins tdust ag prior req excl s G TG H; cbn in H; [discriminate|].
    destruct (change step_anchor (trim sel (use_pools sel req prefs)) tins) as [cs fee|req'|ids tids|] eqn:E.
    - eapply step_from_parts_ok; [apply trim_good; exact G | exact TG | exact H].
    - destruct (ton && (ag <? req')) eqn:Eg.
      + dif H; [discriminate|]. eapply IH; [apply select_next_good | | exact H].
        apply tgood_filter. apply tgood_gather. apply andb_true_iff in Eg. exact (proj1 Eg).
      + dif H; [discriminate|]. eapply IH; [apply select_next_good | exact TG | exact H].
    - dif H; [discriminate|]. eapply IH; [apply select_next_good | apply tgood_filter; exact TG | exact H].
    - discriminate.
  Qed.

  Lemma tgood_init : tgood (if ton then tgather pay else []).
  Proof.
    destruct ton eqn:E; [|split; [intros u [] | constructor]].
    split; [intros u Hin; split; [exact E | exists pay; exact Hin] | apply Htn].
  Qed.

  Theorem propose_transaction_sound fuel s :
    propose_transaction change ton tgather db e acct pay prefs pol lp iw step_anchor single fuel = Ok s -> step_ok s.
  Proof.
    unfold propose_transaction. apply greedy_sound; [split; [intros r [] | constructor] | apply tgood_init].
  Qed.

  (** The change strategy returns amounts (Zatoshis): non-negative change and fee. *)
  Definition change_nonneg : Prop :=
    forall a l tl cs fee, change a l tl = OBal cs fee -> 0 <= change_total cs /\ 0 <= fee.

  Lemma greedy_change_nonneg fuel : forall sel tins tdust ag prior req excl s,
    change_nonneg ->
    greedy change ton tgather db e acct pay prefs pol lp iw step_anchor single fuel sel tins tdust ag prior req excl = Ok s ->
    0 <= s_change s /\ 0 <= s_fee s.
  Proof.
    induction fuel as [|f IH]; intros sel tins tdust ag prior req excl s C H; cbn in H; [discriminate|].
    destruct (change step_anchor (trim sel (use_pools sel req prefs)) tins) as [cs fee|req'|ids tids|] eqn:E.
    - unfold step_from_parts in H. destruct (iw && _ && _); [discriminate|].
      destruct (_ =? _); [|discriminate]. inversion H; subst. unfold s_change. cbn. eapply C; exact E.
    - destruct (ton && (ag <? req')); (dif H; [discriminate|]); eapply IH; eassumption.
    - dif H; [discriminate|]. eapply IH; eassumption.
    - discriminate.
  Qed.

  Hypothesis Hv : forall r, In r db -> 0 <= r_value r.

  Lemma good_sum_le sel : good sel -> sum_values sel <= sum_values (filter okrowb db).
  Proof.
    intros [G1 G2]. apply sum_values_le.
    - unfold rrefs in G2. eapply NoDup_map_inv; exact G2.
    - intros r Hr. apply filter_In. apply G1. exact Hr.
    - intros x Hx. apply filter_In in Hx. apply Hv. exact (proj1 Hx).
  Qed.

  (** A request the spendable funds cannot cover never yields a proposal. [tbound] bounds what any
      set of gathered coins is worth (see [tgood_sum_le] for the bound of the real gather). *)
  Theorem insufficient_is_error fuel s tbound :
    change_nonneg ->
    (forall tins, tgood tins -> sum_utxos tins <= tbound) ->
    sum_values (filter okrowb db) + tbound < pay ->
    propose_transaction change ton tgather db e acct pay prefs pol lp iw step_anchor single fuel <> Ok s.
  Proof.
    intros C Hb Hlt H.
    pose proof (greedy_change_nonneg fuel [] _ [] _ 0 0 [] s C H) as [Hc Hf].
    apply propose_transaction_sound in H. destruct H as [inputs [tins [_ [_ [Hval [Hpay [_ [G [TG Hbal]]]]]]]]].
    pose proof (good_sum_le inputs G). pose proof (Hb tins TG). unfold step_balanced in Hbal. lia.
  Qed.

  (** Termination (without a transparent spend policy): the selected value strictly increases and is
      bounded by the wallet's total. *)
  Lemma filter_sum_le : sum_values (filter okrowb db) <= sum_values db.
  Proof.
    clear Hn. induction db as [|x t IH]; [cbn; lia|].
    cbn [filter]. assert (Hx := Hv x (or_introl eq_refl)).
    assert (IH' : sum_values (filter okrowb t) <= sum_values t) by (apply IH; intros r Hr; apply Hv; right; exact Hr).
    destruct (okrowb x); unfold sum_values in *; cbn; lia.
  Qed.

  Lemma greedy_fuel fuel : forall sel tdust ag prior req excl,
    ton = false ->
    prior <= sum_values db ->
    sum_values db - prior < Z.of_nat fuel ->
    greedy change ton tgather db e acct pay prefs pol lp iw step_anchor single fuel sel [] tdust ag prior req excl <> Err EOutOfFuel.
  Proof.
    induction fuel as [|f IH]; intros sel tdust ag prior req excl Hoff Hp Hf; [lia|].
    cbn [greedy].
    destruct (change step_anchor (trim sel (use_pools sel req prefs)) []) as [cs fee|req'|ids tids|].
    - unfold step_from_parts. destruct (iw && _ && _); [discriminate|]. destruct (_ =? _); discriminate.
    - replace (ton && (ag <? req')) with false by (rewrite Hoff; reflexivity).
      cbn [negb]. rewrite andb_true_r. destruct (_ <=? prior) eqn:E; [discriminate|].
      pose proof (good_sum_le _ (select_next_good req' excl)). pose proof filter_sum_le.
      apply IH; [exact Hoff | lia | lia].
    - cbn [filter length Nat.eqb negb]. rewrite andb_true_r. destruct (_ <=? prior) eqn:E; [discriminate|].
      pose proof (good_sum_le _ (select_next_good req (excl ++ ids))). pose proof filter_sum_le.
      apply IH; [exact Hoff | lia | lia].
    - discriminate.
  Qed.

  Theorem greedy_terminates fuel :
    ton = false ->
    sum_values db < Z.of_nat fuel ->
    propose_transaction change ton tgather db e acct pay prefs pol lp iw step_anchor single fuel <> Err EOutOfFuel.
  Proof.
    intros Hoff H. unfold propose_transaction.
    replace (if ton then tgather pay else []) with (@nil utxo_row) by (rewrite Hoff; reflexivity).
    apply greedy_fuel; [exact Hoff | | lia].
    pose proof filter_sum_le. pose proof (good_sum_le [] ltac:(split; [intros r [] | constructor])).
    unfold sum_values in *. cbn in *. lia.
  Qed.

  (** More fuel never changes a result that was reached. *)
  Lemma greedy_fuel_mono fuel : forall sel tins tdust ag prior req excl r,
    greedy change ton tgather db e acct pay prefs pol lp iw step_anchor single fuel sel tins tdust ag prior req excl = r ->
    r <> Err EOutOfFuel ->
    greedy change ton tgather db e acct pay prefs pol lp iw step_anchor single (S fuel) sel tins tdust ag prior req excl = r.
  Proof.
    induction fuel as [|f IH]; intros sel tins tdust ag prior req excl r H Hne; [cbn in H; congruence|].
    cbn [greedy] in H. cbn [greedy].
    destruct (change step_anchor (trim sel (use_pools sel req prefs)) tins) as [cs fee|req'|ids tids|]; try exact H.
    - destruct (ton && (ag <? req')); (dif H; [exact H|]); apply IH; assumption.
    - dif H; [exact H|]. apply IH; assumption.
  Qed.
End Greedy.

(** ** propose_transfer: all clauses together *)

Lemma multi_step_nodup steps r : multi_step steps = Ok r -> r = steps /\ NoDup (concat (map s_inputs steps)).
Proof.
  unfold multi_step. destruct (nodup_refs _) eqn:E; [|discriminate]. intros H. inversion H; subst.
  split; [reflexivity | apply nodup_refs_spec; exact E].
Qed.

Lemma finish_steps db udb e tip lock s steps :
  finish db udb e tip lock s = Ok steps -> steps = [s] /\ NoDup (concat (map s_inputs [s])).
Proof.
  unfold finish. destruct (multi_step [s]) as [st| |] eqn:M; try discriminate.
  apply multi_step_nodup in M. destruct M as [-> Hnd]. intros H.
  split; [|exact Hnd].
  destruct lock as [[o fb]|];
    [destruct (lock_outputs _ _ _ _ _); [destruct (lock_utxos_ok _ _ _ _); [|discriminate]|discriminate]|];
    inversion H; reflexivity.
Qed.

(** bucketed: a stricter policy whose anchor is a grid boundary *)
Lemma bucketed_spec pol interval target activation bp :
  0 < interval -> 1 <= p_trusted pol -> p_trusted pol <= p_untrusted pol ->
  bucketed pol interval target activation = Some bp ->
  p_trusted pol <= p_trusted bp /\ p_untrusted pol <= p_untrusted bp
  /\ 1 <= p_trusted bp /\ p_trusted bp <= p_untrusted bp
  /\ (ssub target (p_trusted bp)) mod interval = 0
  /\ activation < ssub target (p_trusted bp).
Proof.
  intros Hi Ht Hu H. unfold bucketed in H.
  set (ordinary := ssub target (p_trusted pol)) in *.
  destruct (_ <? interval) eqn:E1; [discriminate|].
  destruct (_ <=? activation) eqn:E2; [discriminate|].
  destruct (target <? _) eqn:E3; [discriminate|].
  destruct (_ =? 0) eqn:E4; [discriminate|].
  inversion H; subst bp. clear H. cbn [p_trusted p_untrusted].
  pose proof (Z.mod_pos_bound ordinary interval Hi) as Hm.
  assert (Ho : 0 <= ordinary) by (unfold ordinary, ssub; lia).
  assert (Hord : ordinary <= target - p_trusted pol \/ ordinary = 0) by (unfold ordinary, ssub; lia).
  assert (Hb : ssub target (target - (ordinary - ordinary mod interval - interval)) = ordinary - ordinary mod interval - interval)
    by (unfold ssub; lia).
  rewrite Hb.
  split; [destruct Hord; lia|]. split; [lia|]. split; [lia|]. split; [lia|].
  split; [|lia].
  replace (ordinary - ordinary mod interval - interval) with (interval * (ordinary / interval - 1)).
  - rewrite Z.mul_comm. apply Z.mod_mul. lia.
  - pose proof (Z.div_mod ordinary interval ltac:(lia)). lia.
Qed.

(** The parameters a returned step was selected under: the caller's (with the call's transparent
    gather), or those of the canonical (bucketed) attempt, which spends no transparent output. *)
Inductive step_origin (db : list note_row) (udb : list utxo_row) (e : env) (acct pay : Z) (orchard_out : bool)
    (permitted : list pool) (pol : policy) (zc : bool) (lp : lip) (tspend : option (option (list Z)))
    (canon : option canon_in) (s : step) : Prop :=
| origin_ordinary anchor :
    e_anchor e = Some anchor ->
    step_ok (match tspend with Some _ => true | None => false end)
      (tgather_of udb acct (e_target e) pol zc lp tspend)
      db e acct pay
      (pool_preference (match canon with Some _ => true | None => false end) orchard_out permitted) pol lp anchor s ->
    step_origin db udb e acct pay orchard_out permitted pol zc lp tspend canon s
| origin_canonical ci bp :
    canon = Some ci ->
    bucketed pol (c_interval ci) (e_target e) (c_activation ci) = Some bp ->
    ssub (e_target e) (p_trusted bp) = c_boundary ci ->
    In Orchard permitted ->
    step_ok false (fun _ => []) db (Env (e_target e) (c_sel_anchor ci) (e_ranges e)) acct pay
      (pool_preference true orchard_out [Orchard]) bp lp (c_boundary ci) s ->
    step_origin db udb e acct pay orchard_out permitted pol zc lp tspend canon s.

Lemma tgather_of_nodup udb acct target pol zc lp tspend t :
  NoDup (map u_id udb) -> NoDup (map u_id (tgather_of udb acct target pol zc lp tspend t)).
Proof.
  intros Hn. unfold tgather_of. destruct tspend as [allow|]; [apply select_transparent_nodup; exact Hn | constructor].
Qed.

Theorem propose_transfer_sound change fuel db udb e tip acct pay single_payment orchard_out permitted pol zc lp tspend lock canon steps :
  NoDup (rrefs db) -> NoDup (map u_id udb) -> 1 <= p_trusted pol -> p_trusted pol <= p_untrusted pol ->
  (forall ci, canon = Some ci -> 0 < c_interval ci) ->
  propose_transfer change fuel db udb e tip acct pay single_payment orchard_out permitted pol zc lp tspend lock canon = Ok steps ->
  NoDup (concat (map s_inputs steps))
  /\ forall s, In s steps -> step_origin db udb e acct pay orchard_out permitted pol zc lp tspend canon s.
Proof.
  intros Hn Hnu Ht Hu Hci H. unfold propose_transfer in H.
  destruct (e_anchor e) as [anchor|] eqn:Ea; [|discriminate].
  assert (Hord : forall steps0,
    match propose_transaction change (match tspend with Some _ => true | None => false end)
            (tgather_of udb acct (e_target e) pol zc lp tspend) db e acct pay
            (pool_preference (match canon with Some _ => true | None => false end) orchard_out permitted)
            pol lp (match canon with Some _ => true | None => false end) anchor false fuel with
    | Ok s => finish db udb e tip lock s | Err x => Err x | Panic => Panic end = Ok steps0 ->
    NoDup (concat (map s_inputs steps0))
    /\ forall s, In s steps0 -> step_origin db udb e acct pay orchard_out permitted pol zc lp tspend canon s).
  { intros steps0 H0.
    destruct (propose_transaction _ _ _ _ _ _ _ _ _ _ _ _ _ _) as [s| |] eqn:E; try discriminate.
    apply finish_steps in H0. destruct H0 as [-> Hnd]. split; [exact Hnd|].
    intros s' [<-|[]]. eapply origin_ordinary; [exact Ea|].
    eapply propose_transaction_sound; try eassumption.
    intros t. apply tgather_of_nodup. exact Hnu. }
  destruct canon as [ci|]; [|apply Hord; exact H].
  destruct (single_payment && is_canonical_denomination pay && existsb (pool_eqb Orchard) permitted) eqn:Ec;
    [|apply Hord; exact H].
  destruct (bucketed pol (c_interval ci) (e_target e) (c_activation ci)) as [bp|] eqn:Eb; [|apply Hord; exact H].
  destruct (negb (ssub (e_target e) (p_trusted bp) =? c_boundary ci)) eqn:Ebd; [discriminate|].
  destruct (c_computable ci); [|apply Hord; exact H].
  destruct (propose_transaction change false (fun _ => []) db (Env (e_target e) (c_sel_anchor ci) (e_ranges e)) acct pay
              (pool_preference true orchard_out [Orchard]) bp lp true (ssub (e_target e) (p_trusted bp)) true fuel)
    as [s|x|] eqn:E.
  - destruct (is_canonical_crossing ci single_payment orchard_out s); [|apply Hord; exact H].
    apply finish_steps in H. destruct H as [-> Hnd]. split; [exact Hnd|].
    intros s' [<-|[]].
    destruct (bucketed_spec _ _ _ _ _ (Hci ci eq_refl) Ht Hu Eb) as [_ [_ [Hb1 [Hb2 _]]]].
    assert (Hbd : ssub (e_target e) (p_trusted bp) = c_boundary ci) by (apply negb_false_iff in Ebd; lia).
    eapply (origin_canonical _ _ _ _ _ _ _ _ _ _ _ _ _ ci bp); try reflexivity; try assumption.
    + rewrite !andb_true_iff in Ec. destruct Ec as [_ Ec]. apply existsb_exists in Ec.
      destruct Ec as [q [Hq Eq]]. apply pool_eqb_eq in Eq. subst q. exact Hq.
    + rewrite <- Hbd. eapply propose_transaction_sound; try eassumption. intros t. constructor.
  - destruct x; try discriminate. apply Hord; exact H.
  - discriminate.
Qed.

(** A permitted-pool fact used by the bridge: preference lists only contain permitted pools. *)
Lemma pool_preference_permitted iw oo permitted p :
  In p (pool_preference iw oo permitted) -> In p permitted.
Proof.
  unfold pool_preference. intros H. apply filter_In in H. destruct H as [_ H].
  apply existsb_exists in H. destruct H as [q [Hq E]]. apply pool_eqb_eq in E. subst. exact Hq.
Qed.
