(** C08 — executable model of note selection and of the greedy proposal loop.

    Transcribed from
      zcash_client_sqlite/src/wallet/common.rs   select_spendable_notes, select_unspent_notes,
                                                 select_spendable_notes_matching_value, unscanned_tip_exists
      zcash_client_sqlite/src/wallet/locking.rs  lock_outputs, locked_tier_expr
      zcash_client_sqlite/src/lib.rs             InputSource::select_spendable_notes (per pool)
      zcash_client_backend/src/data_api/wallet.rs           ConfirmationsPolicy::confirmations_until_spendable
      zcash_client_backend/src/data_api/wallet/input_selection.rs  GreedyInputSelector::propose_transaction,
                                                 selectable_pool_preference
      zcash_client_backend/src/proposal.rs       Step::from_parts (balance), Proposal::multi_step (double spends)
    The boolean SQL conditions are NOT transcribed by hand: they are the regenerated trees of
    [V.Gen.C08SqlPred], evaluated with [Sql.eval]. What is transcribed by hand is the relational
    skeleton (joins, window sum, UNION) and the Rust post-filters. No proofs in this file. *)
From V.Lib Require Import Base.
From V.C08 Require Import Sql.
From V.Gen Require Import C08SqlPred.
Local Open Scope Z_scope.

Inductive pool := Sapling | Orchard | Ironwood.

Definition pool_eqb (a b : pool) : bool :=
  match a, b with
  | Sapling, Sapling | Orchard, Orchard | Ironwood, Ironwood => true
  | _, _ => false
  end.

(** A transaction recorded as spending a note (a row of *_received_note_spends joined with
    transactions). *)
Record spender := Sp { sp_mined : option Z; sp_expiry : option Z; sp_minobs : Z }.

(** One received note together with what the selection queries join to it. *)
Record note_row := R {
  r_id : Z;
  r_acct : Z;                  (* index of accounts.uuid *)
  r_pool : pool;
  r_value : Z;
  r_block : option Z;          (* t.block *)
  r_mined : option Z;          (* t.mined_height *)
  r_texpiry : option Z;        (* t.expiry_height *)
  r_tminobs : Z;               (* t.min_observed_height *)
  r_ufvk : bool;               (* accounts.ufvk IS NOT NULL *)
  r_scope : option Z;          (* rn.recipient_key_scope: 0 external, 1 internal *)
  r_nf : bool;                 (* rn.nf IS NOT NULL *)
  r_pos : option Z;            (* rn.commitment_tree_position *)
  r_stab : bool;               (* rn.witness_stabilized *)
  r_trust : bool;              (* IFNULL(t.trust_status, 0) *)
  r_prio : option Z;           (* scan_state.max_priority of the note's shard *)
  r_shin : option Z;           (* MAX(tt.mined_height) over the account's transparent inputs of t *)
  r_shtrust : bool;            (* MIN(IFNULL(tt.trust_status, 0)) *)
  r_lock : option Z;           (* rn.lock_expiry_height *)
  r_owner : option Z;          (* rn.lock_owner *)
  r_spenders : list spender
}.

(** v_*_shard_unscanned_ranges rows: pool, block_range_start, subtree_start_height, subtree_end_height *)
Definition urange := (pool * Z * option Z * option Z)%type.

Record env := Env {
  e_target : Z;                (* target height = chain tip + 1 *)
  e_anchor : option Z;         (* get_anchor_height(target, policy.trusted) *)
  e_ranges : list urange
}.

Record policy := Pol { p_trusted : Z; p_untrusted : Z }.

Inductive lip := LExclude | LPreferUnlocked (o : list Z) | LPreferLocked (o : list Z).
Inductive lockfilter := LFUnfiltered | LFPolicy (p : lip).

Inductive tvalue := TAtLeast (z : Z) | TAllSpendable | TAllEverything.

Definition overridable (lf : lockfilter) : list Z :=
  match lf with
  | LFPolicy (LPreferUnlocked o) | LFPolicy (LPreferLocked o) => o
  | _ => []
  end.

(** ** SQL environment of a row *)

Definition ov (o : option Z) : sval := match o with Some z => VInt z | None => VNull end.
Definition bv (b : bool) : sval := VInt (if b then 1 else 0).
Definition nn (b : bool) : sval := if b then VInt 1 else VNull.   (* a nullable blob: only nullness matters *)

Definition row_cols (r : note_row) (c : col) : sval :=
  match c with
  | C_account_uuid => VInt (r_acct r)
  | C_account_ufvk => nn (r_ufvk r)
  | C_rn_id => VInt (r_id r)
  | C_rn_value => VInt (r_value r)
  | C_rn_scope => ov (r_scope r)
  | C_rn_nf => nn (r_nf r)
  | C_rn_position => ov (r_pos r)
  | C_rn_stab => bv (r_stab r)
  | C_rn_lock_expiry => ov (r_lock r)
  | C_rn_lock_owner => ov (r_owner r)
  | C_t_block => ov (r_block r)
  | C_t_mined => ov (r_mined r)
  | C_t_expiry => ov (r_texpiry r)
  | C_t_minobs => VInt (r_tminobs r)
  | C_scan_max_priority => ov (r_prio r)
  | _ => VNull
  end.

Definition spender_cols (s : spender) (c : col) : sval :=
  match c with
  | C_tx_mined => ov (sp_mined s)
  | C_tx_expiry => ov (sp_expiry s)
  | C_tx_minobs => VInt (sp_minobs s)
  | _ => VNull
  end.

Record qparams := QP {
  q_account : Z; q_target : Z; q_anchor : Z; q_tip_unscanned : bool;
  q_exclude : list Z; q_owners : list Z
}.

Definition q_pv (q : qparams) (p : param) : sval :=
  match p with
  | P_account_uuid => VInt (q_account q)
  | P_min_value => VInt MARGINAL_FEE
  | P_anchor_height => VInt (q_anchor q)
  | P_tip_unscanned => bv (q_tip_unscanned q)
  | P_scanned_priority => VInt SCANNED_PRIORITY
  | P_target_height => VInt (q_target q)
  | _ => VNull
  end.

Definition q_lv (q : qparams) (l : lparam) : list Z :=
  match l with L_exclude => q_exclude q | L_overridable_owners => q_owners q | L_addresses => [] end.

(** [rn.id IN (spent_notes_clause)]: some recorded spender satisfies the regenerated
    tx_unexpired_condition at the target height. *)
Definition spender_unexpired (target : Z) (s : spender) : bool :=
  truthy (eval (spender_cols s)
               (fun p => match p with P_target_height => VInt target | _ => VNull end)
               (fun _ => []) false tx_unexpired_spender).

Definition spent_at (target : Z) (r : note_row) : bool :=
  existsb (spender_unexpired target) (r_spenders r).

Definition row_passes (q : qparams) (w : expr) (r : note_row) : bool :=
  truthy (eval (row_cols r) (q_pv q) (q_lv q) (spent_at (q_target q) r) w).

Definition eligible_where (lf : lockfilter) : expr :=
  match lf with LFUnfiltered => eligible_where_unfiltered | LFPolicy _ => eligible_where_policy end.

Definition unspent_where (lf : lockfilter) : expr :=
  match lf with LFUnfiltered => unspent_where_unfiltered | LFPolicy _ => unspent_where_policy end.

(** unscanned_tip_exists *)
Definition tip_unscanned (e : env) (p : pool) (anchor : Z) : bool :=
  existsb (fun u : urange =>
    let '(q, start, ss, se) := u in
    pool_eqb p q && (start <=? anchor) &&
    match ss with
    | None => false
    | Some s => (s <=? anchor) && (anchor <=? match se with Some x => x | None => anchor end)
    end) (e_ranges e).

(** ** ConfirmationsPolicy::confirmations_until_spendable (shielded arm), u32 saturating subtraction *)

Definition ssub (a b : Z) : Z := Z.max 0 (a - b).

Definition confs_until_spendable (pol : policy) (target : Z) (r : note_row) : Z :=
  let trusted_height := ssub target (p_trusted pol) in
  let untrusted_height := ssub target (p_untrusted pol) in
  let confs_for_trusted := match r_block r with None => p_trusted pol | Some h => ssub h trusted_height end in
  let confs_for_untrusted := match r_block r with None => p_untrusted pol | Some h => ssub h untrusted_height end in
  if r_trust r then confs_for_trusted
  else if option_eqb Z.eqb (r_scope r) (Some 1) then
    match r_shin r with
    | Some h => if r_shtrust r then ssub h trusted_height else ssub h untrusted_height
    | None => confs_for_trusted
    end
  else confs_for_untrusted.

Definition has_confirmations (pol : policy) (target : Z) (r : note_row) : bool :=
  r_stab r || (confs_until_spendable pol target r =? 0).

(** ** The window of select_spendable_notes_matching_value *)

(** locked_tier_expr: 1 when locked for selection at the target height. The tier is only a sort
    key when the policy admits locked outputs. *)
Definition tier (q : qparams) (r : note_row) : Z :=
  if truthy (eval (row_cols r) (q_pv q) (q_lv q) false locked_tier_cond) then 1 else 0.

Definition tier_key (lf : lockfilter) (q : qparams) (r : note_row) : Z :=
  match lf with
  | LFPolicy (LPreferUnlocked _) => tier q r          (* ASC: unlocked first *)
  | LFPolicy (LPreferLocked _) => 1 - tier q r        (* DESC: locked first *)
  | _ => 0
  end.

(** SQLite orders NULL first in ASC. *)
Definition pos_key (r : note_row) : Z := match r_pos r with None => -1 | Some p => p end.

Definition row_leb (lf : lockfilter) (q : qparams) (a b : note_row) : bool :=
  let ta := tier_key lf q a in let tb := tier_key lf q b in
  (ta <? tb) || ((ta =? tb) && (pos_key a <=? pos_key b)).

Fixpoint insert_row (le : note_row -> note_row -> bool) (x : note_row) (l : list note_row) : list note_row :=
  match l with
  | [] => [x]
  | y :: t => if le x y then x :: l else y :: insert_row le x t
  end.

Definition sort_rows (le : note_row -> note_row -> bool) (l : list note_row) : list note_row :=
  fold_right (insert_row le) [] l.

(** SUM(value) OVER (ORDER BY .. ROWS UNBOUNDED PRECEDING) *)
Fixpoint running (acc : Z) (l : list note_row) : list (note_row * Z) :=
  match l with
  | [] => []
  | r :: t => let s := acc + r_value r in (r, s) :: running s t
  end.

(** SELECT * FROM eligible WHERE so_far >= :target ORDER BY so_far LIMIT 1 *)
Fixpoint min_sofar (best : option (note_row * Z)) (l : list (note_row * Z)) : option (note_row * Z) :=
  match l with
  | [] => best
  | p :: t =>
      match best with
      | None => min_sofar (Some p) t
      | Some b => if snd p <? snd b then min_sofar (Some p) t else min_sofar best t
      end
  end.

Definition mem_id (i : Z) (l : list note_row) : bool := existsb (fun r => r_id r =? i) l.

(** below-target rows UNION the crossing row (UNION removes the duplicate if any) *)
Definition window_select (target_value : Z) (sorted : list note_row) : list note_row :=
  let rs := running 0 sorted in
  let below := map fst (filter (fun p => cmp_z below_target_cmp (snd p) target_value) rs) in
  match min_sofar None (filter (fun p => cmp_z crossing_cmp (snd p) target_value) rs) with
  | None => below
  | Some (c, _) => if mem_id (r_id c) below then below else below ++ [c]
  end.

Definition of_pool (p : pool) (db : list note_row) : list note_row :=
  filter (fun r => pool_eqb (r_pool r) p) db.

Definition excl_ids (p : pool) (exclude : list (pool * Z)) : list Z :=
  map snd (filter (fun x => pool_eqb (fst x) p) exclude).

Definition mk_q (e : env) (acct : Z) (p : pool) (anchor : Z) (exclude : list (pool * Z)) (lf : lockfilter) : qparams :=
  QP acct (e_target e) anchor (tip_unscanned e p anchor) (excl_ids p exclude) (overridable lf).

(** select_spendable_notes_matching_value (Accumulate) for one pool. *)
Definition select_matching (db : list note_row) (e : env) (acct : Z) (p : pool) (anchor : Z)
    (target_value : Z) (pol : policy) (exclude : list (pool * Z)) (lf : lockfilter) : list note_row :=
  let q := mk_q e acct p anchor exclude lf in
  let elig := filter (row_passes q (eligible_where lf)) (of_pool p db) in
  let sel := window_select target_value (sort_rows (row_leb lf q) elig) in
  filter (has_confirmations pol (e_target e)) sel.

(** select_single_spendable_note for one pool (ValueSelection::SingleCovering): the eligible notes
    whose own value covers the target, ordered by lock tier then age; the Rust side drops rows
    lacking confirmations and takes the head. *)
Definition select_single_pool (db : list note_row) (e : env) (acct : Z) (p : pool) (anchor : Z)
    (target_value : Z) (pol : policy) (exclude : list (pool * Z)) (lf : lockfilter) : option note_row :=
  let q := mk_q e acct p anchor exclude lf in
  let elig := filter (row_passes q (eligible_where lf)) (of_pool p db) in
  let cover := filter (fun r => cmp_z single_covering_cmp (r_value r) target_value) (sort_rows (row_leb lf q) elig) in
  hd_error (filter (has_confirmations pol (e_target e)) cover).

(** select_unspent_notes (AllFunds). [everything = true] is MaxSpendMode::Everything
    (NoteRequest::UnspentOrError): any ineligible unspent note is an error. *)
Inductive sel_err := EIneligible | ESelOther.

Definition unspent_ok (e : env) (anchor : Z) (pol : policy) (r : note_row) : bool :=
  let shard_witness_available :=
    r_stab r || match r_prio r with Some p => p <=? SCANNED_PRIORITY | None => false end in
  let mined_at_anchor := match r_block r with Some h => h <=? anchor | None => false end in
  shard_witness_available && mined_at_anchor && has_confirmations pol (e_target e) r.

Definition select_unspent (db : list note_row) (e : env) (acct : Z) (p : pool) (anchor : Z)
    (everything : bool) (pol : policy) (exclude : list (pool * Z)) (lf : lockfilter)
    : outcome (list note_row) sel_err :=
  let q := mk_q e acct p anchor exclude lf in
  let rows := filter (row_passes q (unspent_where lf)) (of_pool p db) in
  if everything then
    if forallb (unspent_ok e anchor pol) rows then Ok rows else Err EIneligible
  else Ok (filter (unspent_ok e anchor pol) rows).

(** select_spendable_notes for one pool: no anchor -> nothing. *)
Definition select_notes (db : list note_row) (e : env) (acct : Z) (p : pool) (tv : tvalue)
    (pol : policy) (exclude : list (pool * Z)) (lf : lockfilter) : outcome (list note_row) sel_err :=
  match e_anchor e with
  | None => Ok []
  | Some anchor =>
      match tv with
      | TAtLeast z => Ok (select_matching db e acct p anchor z pol exclude lf)
      | TAllSpendable => select_unspent db e acct p anchor false pol exclude lf
      | TAllEverything => select_unspent db e acct p anchor true pol exclude lf
      end
  end.

(** ** lock_outputs (all-or-nothing inside the wallet's transaction) *)

Definition lockable (tip : option Z) (owner : Z) (r : note_row) : bool :=
  truthy (eval (row_cols r)
               (fun p => match p with P_chain_tip => ov tip | P_owner => VInt owner | _ => VNull end)
               (fun _ => []) false lockable_cond).

Definition same_ref (x : pool * Z) (r : note_row) : bool :=
  pool_eqb (fst x) (r_pool r) && (snd x =? r_id r).

Definition set_lock (owner expiry : Z) (r : note_row) : note_row :=
  R (r_id r) (r_acct r) (r_pool r) (r_value r) (r_block r) (r_mined r) (r_texpiry r) (r_tminobs r)
    (r_ufvk r) (r_scope r) (r_nf r) (r_pos r) (r_stab r) (r_trust r) (r_prio r) (r_shin r) (r_shtrust r)
    (Some expiry) (Some owner) (r_spenders r).

(** unlock_spent_notes (called by store_transaction_to_be_sent): the outputs the stored
    transaction spends lose their lock — in their OWN pool's table; every other row keeps its. *)
Definition clear_lock (r : note_row) : note_row :=
  R (r_id r) (r_acct r) (r_pool r) (r_value r) (r_block r) (r_mined r) (r_texpiry r) (r_tminobs r)
    (r_ufvk r) (r_scope r) (r_nf r) (r_pos r) (r_stab r) (r_trust r) (r_prio r) (r_shin r) (r_shtrust r)
    None None (r_spenders r).

Definition spent_by (refs : list (pool * Z)) (r : note_row) : bool := existsb (fun x => same_ref x r) refs.

Definition unlock_spent (refs : list (pool * Z)) (db : list note_row) : list note_row :=
  map (fun r => if spent_by refs r then clear_lock r else r) db.

(** Locks one reference; [None] when no row was updated (missing output or foreign active lock). *)
Definition lock_one (tip : option Z) (owner expiry : Z) (x : pool * Z) (db : list note_row) : option (list note_row) :=
  if existsb (fun r => same_ref x r && lockable tip owner r) db
  then Some (map (fun r => if same_ref x r && lockable tip owner r then set_lock owner expiry r else r) db)
  else None.

Fixpoint lock_outputs (tip : option Z) (owner expiry : Z) (refs : list (pool * Z)) (db : list note_row)
    : option (list note_row) :=
  match refs with
  | [] => Some db
  | x :: t => match lock_one tip owner expiry x db with
              | None => None
              | Some db' => lock_outputs tip owner expiry t db'
              end
  end.

(** ** Step::from_parts (turnstile and balance clauses), Proposal::multi_step (double spends) *)

(** Where a change output goes. *)
Inductive cpool := CP (p : pool) | CT.

Definition cpool_is (p : pool) (c : cpool) : bool := match c with CP q => pool_eqb p q | CT => false end.

Definition change_total (cs : list (cpool * Z)) : Z := fold_right (fun c a => snd c + a) 0 cs.
Definition change_in (p : pool) (cs : list (cpool * Z)) : list (cpool * Z) := filter (fun c => cpool_is p (fst c)) cs.
Definition change_count (f : cpool -> bool) (cs : list (cpool * Z)) : nat := length (filter (fun c => f (fst c)) cs).

Record step := Step {
  s_inputs : list (pool * Z);   (* shielded inputs *)
  s_in_value : Z;               (* total input value *)
  s_tins : list Z;              (* transparent inputs (ids of transparent_received_outputs rows) *)
  s_pay : Z;                    (* request total *)
  s_changes : list (cpool * Z); (* proposed change outputs *)
  s_fee : Z;
  s_anchor : option Z           (* the anchor height the step binds *)
}.
Definition s_change (s : step) : Z := change_total (s_changes s).

Inductive perr :=
| EInsufficient | ESyncRequired | ELocked | EBalance | EProposal | EChange | EOther | EOutOfFuel | ELockFailure.

Definition perr_eqb (a b : perr) : bool :=
  match a, b with
  | EInsufficient, EInsufficient | ESyncRequired, ESyncRequired | ELocked, ELocked
  | EBalance, EBalance | EProposal, EProposal | EChange, EChange | EOther, EOther
  | EOutOfFuel, EOutOfFuel | ELockFailure, ELockFailure => true
  | _, _ => false
  end.

Definition sum_values (l : list note_row) : Z := fold_right (fun r a => r_value r + a) 0 l.

(** [ironwood_active]: after NU6.3 the Orchard turnstile lets value only leave the pool: change
    returned to Orchard must be strictly less than the step's Orchard inputs. *)
Definition step_from_parts (ironwood_active : bool) (inputs : list note_row) (tids : list Z) (tvalue : Z)
    (anchor : Z) (pay : Z) (cs : list (cpool * Z)) (fee : Z) : outcome step perr :=
  let input_total := tvalue + sum_values inputs in
  let output_total := pay + (change_total cs + fee) in
  let orchard_in := sum_values (of_pool Orchard inputs) in
  let orchard_change := change_total (change_in Orchard cs) in
  if ironwood_active && (0 <? orchard_change) && (orchard_in <=? orchard_change) then Err EProposal
  else if input_total =? output_total
  then Ok (Step (map (fun r => (r_pool r, r_id r)) inputs) input_total tids pay cs fee (Some anchor))
  else Err EBalance.

Definition ref_eqb (a b : pool * Z) : bool := pool_eqb (fst a) (fst b) && (snd a =? snd b).

Fixpoint nodup_refs (l : list (pool * Z)) : bool :=
  match l with
  | [] => true
  | x :: t => negb (existsb (ref_eqb x) t) && nodup_refs t
  end.

(** consumed_chain_inputs.insert fails on a repeated OutputRef *)
Definition multi_step (steps : list step) : outcome (list step) perr :=
  if nodup_refs (concat (map s_inputs steps)) then Ok steps else Err EProposal.

