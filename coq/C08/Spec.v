(** C08 — what "spendable" means, stated directly on note rows (no SQL, no selection algorithm).

    These boolean predicates are the specification: they are evaluated on the IMPLEMENTATION's
    outcomes by [Corr.prop_case], and the theorems of Properties.v relate the model (whose SQL
    conditions are the regenerated trees) to them. *)
From V.Lib Require Import Base.
From V.C08 Require Import Sql Model ModelT.
Local Open Scope Z_scope.

(** A recorded spending transaction still counts at [target] when it is mined below the target,
    never expires (expiry 0), has not expired yet, or — expiry unknown — was first observed within
    the default expiry window of 40 blocks. *)
Definition spender_counts (target : Z) (s : spender) : bool :=
  match sp_mined s with Some m => m <? target | None => false end
  || match sp_expiry s with
     | Some x => (x =? 0) || (target <=? x)
     | None => target <=? sp_minobs s + 40
     end.

Definition unspent_at (target : Z) (r : note_row) : bool :=
  forallb (fun s => negb (spender_counts target s)) (r_spenders r).

(** Not locked, lock expired (expiry < target), or locked by an owner the caller named. *)
Definition not_locked_by_other (target : Z) (owners : list Z) (r : note_row) : bool :=
  match r_lock r with
  | None => true
  | Some x => (x <? target) || match r_owner r with Some o => existsb (Z.eqb o) owners | None => false end
  end.

Definition mined_le (h : Z) (r : note_row) : bool :=
  match r_block r with Some b => b <=? h | None => false end.

(** The note's witness can be computed at the anchor: either its witness was stabilized, or the
    anchor's shard has no unscanned range and the note's shard is fully scanned. *)
Definition witnessable (tip_unscanned : bool) (r : note_row) : bool :=
  r_stab r || (negb tip_unscanned && match r_prio r with Some p => p <=? 10 | None => false end).

(** ZIP 315: trusted outputs need [trusted] confirmations, untrusted ones [untrusted]; the change
    of a wallet-internal shielding transaction inherits the age and trust of its transparent
    inputs. [k] confirmations at [target] means mined at height <= target - k. *)
Definition confirmed (pol : policy) (target : Z) (r : note_row) : bool :=
  r_stab r ||
  let at_most (h : option Z) (k : Z) :=
    match h with Some b => b <=? Z.max 0 (target - k) | None => false end in
  if r_trust r then at_most (r_block r) (p_trusted pol)
  else if option_eqb Z.eqb (r_scope r) (Some 1) then
    match r_shin r with
    | Some h => at_most (Some h) (if r_shtrust r then p_trusted pol else p_untrusted pol)
    | None => at_most (r_block r) (p_trusted pol)
    end
  else at_most (r_block r) (p_untrusted pol).

Record scfg := SC {
  sc_acct : Z; sc_pool : pool; sc_target : Z; sc_anchor : Z; sc_tipuns : bool;
  sc_pol : policy; sc_owners : option (list Z)   (* None: lock state ignored (LockFilter::Unfiltered) *)
}.

(** The property's notion of a note a proposal may spend. *)
Definition spendable (c : scfg) (r : note_row) : bool :=
  (r_acct r =? sc_acct c) && pool_eqb (r_pool r) (sc_pool c)
  && unspent_at (sc_target c) r
  && confirmed (sc_pol c) (sc_target c) r
  && mined_le (sc_anchor c) r
  && witnessable (sc_tipuns c) r
  && match sc_owners c with None => true | Some o => not_locked_by_other (sc_target c) o r end.

(** Step balance: inputs = payments + change + fee. *)
Definition step_balanced (s : step) : bool :=
  s_in_value s =? s_pay s + s_change s + s_fee s.

(** ** transparent outputs *)

(** Confirmed for spending at [target] with [minconf] confirmations; with zero required
    confirmations an output of an unmined, unexpired transaction also counts. *)
Definition utxo_confirmed (target minconf : Z) (u : utxo_row) : bool :=
  match u_mined u with Some m => (m <? target) && (minconf <=? target - m) | None => false end
  || ((minconf =? 0) && match u_expiry u with Some x => (x =? 0) || (target <=? x) | None => false end).

Definition utxo_unspent (target : Z) (u : utxo_row) : bool :=
  forallb (fun s => negb (spender_counts target s)) (u_spenders u).

Definition utxo_is_coinbase (u : utxo_row) : bool :=
  match u_txindex u with Some i => i =? 0 | None => false end.

(** coinbase outputs need 100 confirmations *)
Definition utxo_coinbase_mature (target : Z) (u : utxo_row) : bool :=
  if utxo_is_coinbase u then match u_mined u with Some m => 100 <=? target - m | None => false end else true.

Definition utxo_filter_ok (f : cbfilter) (u : utxo_row) : bool :=
  match f with CbAll => true | CbOnly => utxo_is_coinbase u | CbNon => negb (utxo_is_coinbase u) end.

(** An output at an ephemeral address is spendable only if it is not the middle of one of the
    wallet's own ZIP 320 chains, or was seen unspent after that chain's transaction expired. *)
Definition utxo_not_wallet_ephemeral (u : utxo_row) : bool :=
  negb (u_scope u =? 2) || u_no_wallet_inputs u
  || match u_maxobs u, u_expiry u with Some a, Some b => b <? a | _, _ => false end.

Definition utxo_has_key (u : utxo_row) : bool :=
  negb ((u_scope u =? -1) && negb (u_imp_pubkey u) && negb (u_imp_script u)).

Definition utxo_not_locked_by_other (target : Z) (owners : list Z) (u : utxo_row) : bool :=
  match u_lock u with
  | None => true
  | Some x => (x <? target) || match u_owner u with Some o => existsb (Z.eqb o) owners | None => false end
  end.

Definition utxo_spendable (target minconf : Z) (f : cbfilter) (addrs : list Z) (owners : option (list Z))
    (u : utxo_row) : bool :=
  existsb (Z.eqb (u_addr u)) addrs && (5000 <? u_value u)
  && utxo_confirmed target minconf u && utxo_unspent target u
  && utxo_not_wallet_ephemeral u && utxo_coinbase_mature target u && utxo_filter_ok f u
  && match owners with None => true | Some o => utxo_not_locked_by_other target o u end
  && utxo_has_key u.

(** everything but the address/account condition *)
Definition utxo_core (target minconf : Z) (f : cbfilter) (owners : option (list Z)) (u : utxo_row) : bool :=
  (5000 <? u_value u)
  && utxo_confirmed target minconf u && utxo_unspent target u
  && utxo_not_wallet_ephemeral u && utxo_coinbase_mature target u && utxo_filter_ok f u
  && match owners with None => true | Some o => utxo_not_locked_by_other target o u end
  && utxo_has_key u.

(** A coin a transfer of [acct] may spend under a transparent spend policy: it belongs to the
    account and, when the policy lists addresses, was received at one of them. *)
Definition utxo_spendable_acct (target minconf : Z) (f : cbfilter) (acct : Z) (allow : option (list Z))
    (owners : option (list Z)) (u : utxo_row) : bool :=
  (u_acct u =? acct)
  && match allow with None => true | Some a => existsb (Z.eqb (u_addr u)) a end
  && utxo_core target minconf f owners u.
