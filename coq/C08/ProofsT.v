(** C08 — transparent inputs: the regenerated WHERE clause means Spec.utxo_spendable; selected
    outputs are spendable and distinct; a shielding proposal spends only such outputs, each once,
    and balances. *)
From V.Lib Require Import Base.
From V.C08 Require Import Sql Model ModelT Spec ProofsSql ProofsSel ProofsProp.
From V.Gen Require Import C08SqlPred.
From Coq Require Import ZifyBool Permutation.
Local Open Scope Z_scope.

Lemma falsy_and a b : falsy (v_and a b) = falsy a || falsy b.
Proof.
  destruct a as [|x], b as [|y]; cbn; try reflexivity.
  - destruct (y =? 0); reflexivity.
  - destruct (x =? 0); cbn; [reflexivity|]. reflexivity.
  - destruct (x =? 0), (y =? 0); reflexivity.
Qed.
Lemma falsy_or a b : falsy (v_or a b) = falsy a && falsy b.
Proof.
  destruct a as [|x], b as [|y]; cbn; try reflexivity.
  - destruct (y =? 0); reflexivity.
  - destruct (x =? 0); cbn; reflexivity.
  - destruct (x =? 0), (y =? 0); reflexivity.
Qed.

Ltac normv := rewrite ?truthy_and, ?truthy_or, ?truthy_not, ?falsy_and, ?falsy_or, ?truthy_b2v, ?falsy_b2v.

Lemma utxo_spent_spec target u : utxo_spent target u = negb (utxo_unspent target u).
Proof.
  unfold utxo_spent, utxo_unspent. induction (u_spenders u) as [|s l IH]; [reflexivity|].
  cbn [existsb forallb]. rewrite IH, spender_unexpired_spec. destruct (spender_counts target s); reflexivity.
Qed.

Section Atoms.
  Variable q : uparams.
  Variable u : utxo_row.
  Variable sp : bool.
  Notation ev := (eval (utxo_cols u) (uq_pv q) (uq_lv q) sp).

  Lemma at_addr : truthy (ev (EInList (ECol C_addr) L_addresses)) = existsb (Z.eqb (u_addr u)) (uq_addrs q).
  Proof. cbn [eval utxo_cols uq_lv]. normv. reflexivity. Qed.

  Lemma at_value : truthy (ev (ECmp CGt (ECol C_u_value) (EPar P_min_value))) = (5000 <? u_value u).
  Proof. cbn [eval utxo_cols uq_pv]. normv. reflexivity. Qed.

  Lemma at_confirmed :
    truthy (ev (EOr (EAnd (ECmp CLt (ECol C_t_mined) (EPar P_target_height))
                          (ECmp CGe (ESub (EPar P_target_height) (ECol C_t_mined)) (EPar P_min_confirmations)))
                    (EAnd (ECmp CEq (EPar P_min_confirmations) (ELit 0))
                          (EOr (ECmp CEq (ECol C_t_expiry) (ELit 0)) (ECmp CGe (ECol C_t_expiry) (EPar P_target_height))))))
    = utxo_confirmed (uq_target q) (uq_minconf q) u.
  Proof.
    unfold utxo_confirmed. cbn [eval utxo_cols uq_pv]. normv.
    destruct (u_mined u) as [m|], (u_expiry u) as [x|]; cbn [ov]; normv; cbn [cmp_z truthy]; lia.
  Qed.

  Lemma at_ephemeral :
    truthy (ev (EOr (EOr (ECmp CNe (ECol C_addr_key_scope) (ELit 2)) (ECmp CEq (ECol C_u_no_wallet_inputs) (ELit 1)))
                    (ECmp CGt (ECol C_u_maxobs) (ECol C_t_expiry))))
    = utxo_not_wallet_ephemeral u.
  Proof.
    unfold utxo_not_wallet_ephemeral. cbn [eval utxo_cols]. normv.
    destruct (u_no_wallet_inputs u), (u_maxobs u) as [a|], (u_expiry u) as [b|]; cbn [ov bv]; normv; cbn [cmp_z truthy]; lia.
  Qed.

  Lemma at_coinbase_mature :
    truthy (ev (ENot (EAnd (ECmp CEq (EIfNull (ECol C_t_txindex) (ELit 1)) (ELit 0))
                           (ECmp CLt (ESub (EPar P_target_height) (ECol C_t_mined)) (ELit 100)))))
    = utxo_coinbase_mature (uq_target q) u.
  Proof.
    unfold utxo_coinbase_mature, utxo_is_coinbase. cbn [eval utxo_cols uq_pv]. normv.
    destruct (u_txindex u) as [i|], (u_mined u) as [m|]; cbn [ov]; normv; cbn [cmp_z falsy];
      try destruct (i =? 0) eqn:E; lia.
  Qed.

  Lemma at_filter :
    truthy (ev (EOr (EOr (ECmp CEq (EPar P_coinbase_filter) (ELit 0))
                         (EAnd (ECmp CEq (EPar P_coinbase_filter) (ELit 1)) (ECmp CEq (EIfNull (ECol C_t_txindex) (ELit 1)) (ELit 0))))
                    (EAnd (ECmp CEq (EPar P_coinbase_filter) (ELit 2)) (ECmp CNe (EIfNull (ECol C_t_txindex) (ELit 1)) (ELit 0)))))
    = utxo_filter_ok (uq_filter q) u.
  Proof.
    unfold utxo_filter_ok, utxo_is_coinbase. cbn [eval utxo_cols uq_pv]. normv.
    destruct (uq_filter q), (u_txindex u) as [i|]; cbn [ov cbfilter_code]; normv; cbn [cmp_z]; lia.
  Qed.

  Lemma at_lock :
    truthy (ev (EOr (EOr (EIsNull (ECol C_rn_lock_expiry)) (ECmp CLt (ECol C_rn_lock_expiry) (EPar P_target_height)))
                    (EInList (ECol C_rn_lock_owner) L_overridable_owners)))
    = utxo_not_locked_by_other (uq_target q) (uq_owners q) u.
  Proof.
    unfold utxo_not_locked_by_other. cbn [eval utxo_cols uq_pv uq_lv]. normv.
    destruct (u_lock u) as [x|], (u_owner u) as [o|]; cbn [ov]; normv; cbn [cmp_z truthy]; try reflexivity.
    all: destruct (uq_owners q); cbn; try lia.
  Qed.

  Lemma at_key :
    truthy (ev (ENot (EAnd (EAnd (ECmp CEq (ECol C_addr_key_scope) (ELit (-1))) (EIsNull (ECol C_addr_imp_pubkey)))
                           (EIsNull (ECol C_addr_imp_script)))))
    = utxo_has_key u.
  Proof.
    unfold utxo_has_key. cbn [eval utxo_cols]. normv.
    destruct (u_imp_pubkey u), (u_imp_script u); cbn [nn]; normv; cbn [cmp_z falsy]; lia.
  Qed.
End Atoms.

Theorem utxo_where_spec q lf u :
  utxo_passes q lf u
  = utxo_spendable (uq_target q) (uq_minconf q) (uq_filter q) (uq_addrs q)
      (match lf with LFUnfiltered => None | LFPolicy _ => Some (uq_owners q) end) u.
Proof.
  unfold utxo_passes, utxo_spendable.
  set (sp := utxo_spent (uq_target q) u).
  destruct lf as [|lp]; unfold utxo_where, utxo_where_unfiltered, utxo_where_policy.
  - rewrite !(fun a b => eq_refl : eval (utxo_cols u) (uq_pv q) (uq_lv q) sp (EAnd a b) = v_and (eval (utxo_cols u) (uq_pv q) (uq_lv q) sp a) (eval (utxo_cols u) (uq_pv q) (uq_lv q) sp b)).
    rewrite !truthy_and.
    rewrite at_addr, at_value, at_confirmed, at_ephemeral, at_coinbase_mature, at_filter, at_key.
    cbn [eval truthy]. rewrite truthy_b2v. unfold sp. rewrite utxo_spent_spec, negb_involutive.
    cbn. rewrite !andb_true_r. reflexivity.
  - rewrite !(fun a b => eq_refl : eval (utxo_cols u) (uq_pv q) (uq_lv q) sp (EAnd a b) = v_and (eval (utxo_cols u) (uq_pv q) (uq_lv q) sp a) (eval (utxo_cols u) (uq_pv q) (uq_lv q) sp b)).
    rewrite !truthy_and.
    rewrite at_addr, at_value, at_confirmed, at_ephemeral, at_coinbase_mature, at_filter, at_lock, at_key.
    cbn [eval truthy]. rewrite truthy_b2v. unfold sp. rewrite utxo_spent_spec, negb_involutive.
    reflexivity.
Qed.

(** ** selection *)

Theorem select_utxos_sound udb target addrs pol zc f lf u :
  In u (select_utxos udb target addrs pol zc f lf) ->
  In u udb /\ utxo_spendable target (minconf pol zc) f addrs (owners_opt lf) u = true.
Proof.
  unfold select_utxos. destruct addrs as [|a0 t0]; [intros []|]. intros H. apply filter_In in H.
  destruct H as [Hin Hp]. split; [exact Hin|]. rewrite utxo_where_spec in Hp.
  cbn [uq_target uq_minconf uq_filter uq_addrs uq_owners] in Hp. destruct lf; exact Hp.
Qed.

Lemma nodup_filter_ids {A} (g : A -> Z) (p : A -> bool) l : NoDup (map g l) -> NoDup (map g (filter p l)).
Proof.
  induction l as [|x t IH]; cbn; intros Hn; [constructor|]. inversion Hn as [|? ? Hx Ht]; subst.
  destruct (p x); [|apply IH; exact Ht]. cbn. constructor; [|apply IH; exact Ht].
  intros Hin. apply Hx. apply in_map_iff in Hin. destruct Hin as [y [Hy Hi]].
  apply filter_In in Hi. apply in_map_iff. exists y. split; [exact Hy | exact (proj1 Hi)].
Qed.

Theorem select_utxos_nodup udb target addrs pol zc f lf :
  NoDup (map u_id udb) -> NoDup (map u_id (select_utxos udb target addrs pol zc f lf)).
Proof.
  intros Hn. unfold select_utxos. destruct addrs; [constructor|]. apply nodup_filter_ids. exact Hn.
Qed.

Lemma insert_utxo_perm x l : Permutation (insert_utxo x l) (x :: l).
Proof.
  induction l as [|y t IH]; cbn; [reflexivity|]. destruct (utxo_leb x y); [reflexivity|].
  rewrite IH. apply perm_swap.
Qed.
Lemma sort_utxos_perm l : Permutation (sort_utxos l) l.
Proof. induction l as [|x t IH]; cbn; [reflexivity|]. rewrite insert_utxo_perm. constructor. exact IH. Qed.

Lemma firstn_in {A} n (l : list A) x : In x (firstn n l) -> In x l.
Proof. revert l. induction n as [|n IH]; intros [|y t] H; cbn in *; try contradiction. destruct H as [->|H]; [left; reflexivity | right; apply IH; exact H]. Qed.

Lemma firstn_nodup_map {A} (g : A -> Z) n (l : list A) : NoDup (map g l) -> NoDup (map g (firstn n l)).
Proof.
  revert l. induction n as [|n IH]; intros [|y t] H; cbn; try constructor.
  - inversion H as [|? ? Hy Ht]; subst. intros Hin. apply Hy. apply in_map_iff in Hin.
    destruct Hin as [z [Hz Hi]]. apply in_map_iff. exists z. split; [exact Hz | eapply firstn_in; exact Hi].
  - inversion H; subst. apply IH. assumption.
Qed.

Lemma gather_sound udb target addrs pol zc f lp l :
  NoDup (map u_id udb) ->
  gather udb target addrs pol zc f lp = Ok l ->
  NoDup (map u_id l)
  /\ forall u, In u l -> In u udb /\ utxo_spendable target (minconf pol zc) f addrs (Some (overridable (LFPolicy lp))) u = true.
Proof.
  intros Hn H. unfold gather in H. revert H. generalize (Z.to_nat SHIELDING_MAX_INPUTS). intros n H. cbv zeta in H.
  destruct (_ && _); [discriminate|]. injection H as <-. split.
  - apply firstn_nodup_map. eapply Permutation_NoDup; [apply Permutation_map; symmetry; apply sort_utxos_perm|].
    apply select_utxos_nodup. exact Hn.
  - intros u Hu. apply firstn_in in Hu. apply (Permutation_in _ (sort_utxos_perm _)) in Hu.
    apply select_utxos_sound in Hu. exact Hu.
Qed.

(** ** the shielding proposal *)

Definition shield_ok (udb : list utxo_row) (e : env) (threshold : Z) (addrs : list Z) (pol : policy) (zc : bool)
    (f : cbfilter) (lp : lip) (s : step) : Prop :=
  exists inputs,
    s_inputs s = [] /\ s_tins s = map u_id inputs /\ NoDup (map u_id inputs)
    /\ (forall u, In u inputs -> In u udb
          /\ utxo_spendable (e_target e) (minconf pol zc) f addrs (Some (overridable (LFPolicy lp))) u = true)
    /\ s_in_value s = sum_utxos inputs /\ s_in_value s <> 0 /\ s_pay s = 0
    /\ step_balanced s = true /\ threshold <= s_change s + s_fee s
    /\ s_anchor s = e_anchor e.

Theorem propose_shielding_sound change udb e tip threshold addrs pol zc f lp iw lock steps :
  NoDup (map u_id udb) ->
  propose_shielding change udb e tip threshold addrs pol zc f lp iw lock = Ok steps ->
  exists s, steps = [s] /\ shield_ok udb e threshold addrs pol zc f lp s.
Proof.
  intros Hn H. unfold propose_shielding in H.
  destruct (e_anchor e) as [anchor|] eqn:Ea; [|discriminate].
  destruct (gather udb (e_target e) addrs pol zc f lp) as [l| |] eqn:G; try discriminate.
  destruct (gather_sound _ _ _ _ _ _ _ _ Hn G) as [Hnd Hrows].
  destruct (shielding_balance change l) as [[[inputs cs] fee]| |] eqn:B; try discriminate.
  assert (Hsub : NoDup (map u_id inputs) /\ forall u, In u inputs -> In u l).
  { unfold shielding_balance in B. destruct (change l) as [cs0 fee0|r|d|]; try discriminate.
    - inversion B; subst. split; [exact Hnd | auto].
    - destruct (change _) as [cs1 fee1| | |]; try discriminate. inversion B; subst.
      split; [apply nodup_filter_ids; exact Hnd | intros u Hu; apply filter_In in Hu; exact (proj1 Hu)]. }
  destruct Hsub as [Hnd' Hsub].
  destruct (threshold <=? change_total cs + fee) eqn:Et; [|discriminate].
  destruct (shield_step iw inputs anchor cs fee) as [s| |] eqn:S; try discriminate.
  assert (steps = [s]) as ->.
  { destruct lock as [[o fb]|]; [destruct (lock_utxos_ok _ _ _ _); [|discriminate]|]; inversion H; reflexivity. }
  exists s. split; [reflexivity|].
  unfold shield_step in S. destruct (sum_utxos inputs =? 0) eqn:E0; [discriminate|].
  destruct (iw && (0 <? change_total (change_in Orchard cs))); [discriminate|].
  destruct (sum_utxos inputs =? change_total cs + fee) eqn:Eb; [|discriminate]. inversion S; subst s. clear S.
  exists inputs. cbn [s_inputs s_tins s_in_value s_pay s_anchor].
  split; [reflexivity|]. split; [reflexivity|]. split; [exact Hnd'|].
  split; [intros u Hu; apply Hrows; apply Hsub; exact Hu|].
  split; [reflexivity|]. split; [lia|]. split; [reflexivity|].
  unfold step_balanced, s_change. cbn [s_in_value s_pay s_changes s_fee].
  split; [lia|]. split; [lia|]. symmetry. exact Ea.
Qed.

(** ** select_spendable_transparent_outputs (the gather of a transfer's TransparentSpendPolicy) *)

Section GAtoms.
  Variable q : gparams.
  Variable u : utxo_row.
  Variable sp : bool.
  Notation ev := (eval (utxo_cols u) (gq_pv q) (gq_lv q) sp).

  Lemma gat_acct :
    truthy (ev (EAnd (ECmp CEq (ECol C_account_uuid) (EPar P_account_uuid))
                     (EOr (ECmp CEq (EPar P_has_allow_list) (ELit 0)) (EInList (ECol C_addr) L_addresses))))
    = (u_acct u =? gq_acct q) && match gq_allow q with None => true | Some a => existsb (Z.eqb (u_addr u)) a end.
  Proof.
    cbn [eval utxo_cols gq_pv gq_lv]. normv. destruct (gq_allow q); cbn [bv cmp_z]; normv; cbn; lia.
  Qed.

  Lemma gat_value : truthy (ev (ECmp CGt (ECol C_u_value) (EPar P_min_value))) = (5000 <? u_value u).
  Proof. cbn [eval utxo_cols gq_pv]. normv. reflexivity. Qed.

  Lemma gat_confirmed :
    truthy (ev (EOr (EAnd (ECmp CLt (ECol C_t_mined) (EPar P_target_height))
                          (ECmp CGe (ESub (EPar P_target_height) (ECol C_t_mined)) (EPar P_min_confirmations)))
                    (EAnd (ECmp CEq (EPar P_min_confirmations) (ELit 0))
                          (EOr (ECmp CEq (ECol C_t_expiry) (ELit 0)) (ECmp CGe (ECol C_t_expiry) (EPar P_target_height))))))
    = utxo_confirmed (gq_target q) (gq_minconf q) u.
  Proof.
    unfold utxo_confirmed. cbn [eval utxo_cols gq_pv]. normv.
    destruct (u_mined u) as [m|], (u_expiry u) as [x|]; cbn [ov]; normv; cbn [cmp_z truthy]; lia.
  Qed.

  Lemma gat_ephemeral :
    truthy (ev (EOr (EOr (ECmp CNe (ECol C_addr_key_scope) (ELit 2)) (ECmp CEq (ECol C_u_no_wallet_inputs) (ELit 1)))
                    (ECmp CGt (ECol C_u_maxobs) (ECol C_t_expiry))))
    = utxo_not_wallet_ephemeral u.
  Proof.
    unfold utxo_not_wallet_ephemeral. cbn [eval utxo_cols]. normv.
    destruct (u_no_wallet_inputs u), (u_maxobs u) as [a|], (u_expiry u) as [b|]; cbn [ov bv]; normv; cbn [cmp_z truthy]; lia.
  Qed.

  Lemma gat_coinbase_mature :
    truthy (ev (ENot (EAnd (ECmp CEq (EIfNull (ECol C_t_txindex) (ELit 1)) (ELit 0))
                           (ECmp CLt (ESub (EPar P_target_height) (ECol C_t_mined)) (ELit 100)))))
    = utxo_coinbase_mature (gq_target q) u.
  Proof.
    unfold utxo_coinbase_mature, utxo_is_coinbase. cbn [eval utxo_cols gq_pv]. normv.
    destruct (u_txindex u) as [i|], (u_mined u) as [m|]; cbn [ov]; normv; cbn [cmp_z falsy];
      try destruct (i =? 0) eqn:E; lia.
  Qed.

  Lemma gat_filter :
    truthy (ev (EOr (EOr (ECmp CEq (EPar P_coinbase_filter) (ELit 0))
                         (EAnd (ECmp CEq (EPar P_coinbase_filter) (ELit 1)) (ECmp CEq (EIfNull (ECol C_t_txindex) (ELit 1)) (ELit 0))))
                    (EAnd (ECmp CEq (EPar P_coinbase_filter) (ELit 2)) (ECmp CNe (EIfNull (ECol C_t_txindex) (ELit 1)) (ELit 0)))))
    = utxo_filter_ok (gq_filter q) u.
  Proof.
    unfold utxo_filter_ok, utxo_is_coinbase. cbn [eval utxo_cols gq_pv]. normv.
    destruct (gq_filter q), (u_txindex u) as [i|]; cbn [ov cbfilter_code]; normv; cbn [cmp_z]; lia.
  Qed.

  Lemma gat_lock :
    truthy (ev (EOr (EOr (EIsNull (ECol C_rn_lock_expiry)) (ECmp CLt (ECol C_rn_lock_expiry) (EPar P_target_height)))
                    (EInList (ECol C_rn_lock_owner) L_overridable_owners)))
    = utxo_not_locked_by_other (gq_target q) (gq_owners q) u.
  Proof.
    unfold utxo_not_locked_by_other. cbn [eval utxo_cols gq_pv gq_lv]. normv.
    destruct (u_lock u) as [x|], (u_owner u) as [o|]; cbn [ov]; normv; cbn [cmp_z truthy]; try reflexivity.
    all: destruct (gq_owners q); cbn; try lia.
  Qed.

  Lemma gat_key :
    truthy (ev (ENot (EAnd (EAnd (ECmp CEq (ECol C_addr_key_scope) (ELit (-1))) (EIsNull (ECol C_addr_imp_pubkey)))
                           (EIsNull (ECol C_addr_imp_script)))))
    = utxo_has_key u.
  Proof.
    unfold utxo_has_key. cbn [eval utxo_cols]. normv.
    destruct (u_imp_pubkey u), (u_imp_script u); cbn [nn]; normv; cbn [cmp_z falsy]; lia.
  Qed.
End GAtoms.

Theorem utxo_gather_where_spec q lf u :
  utxo_gather_passes q lf u
  = utxo_spendable_acct (gq_target q) (gq_minconf q) (gq_filter q) (gq_acct q) (gq_allow q)
      (match lf with LFUnfiltered => None | LFPolicy _ => Some (gq_owners q) end) u.
Proof.
  unfold utxo_gather_passes, utxo_spendable_acct, utxo_core.
  set (sp := utxo_spent (gq_target q) u).
  destruct lf as [|lp]; unfold utxo_gather_where, utxo_gather_where_unfiltered, utxo_gather_where_policy.
  - rewrite !(fun a b => eq_refl : eval (utxo_cols u) (gq_pv q) (gq_lv q) sp (EAnd a b) = v_and (eval (utxo_cols u) (gq_pv q) (gq_lv q) sp a) (eval (utxo_cols u) (gq_pv q) (gq_lv q) sp b)).
    rewrite !truthy_and.
    rewrite <- (truthy_and (eval (utxo_cols u) (gq_pv q) (gq_lv q) sp (ECmp CEq (ECol C_account_uuid) (EPar P_account_uuid)))).
    change (v_and (eval (utxo_cols u) (gq_pv q) (gq_lv q) sp (ECmp CEq (ECol C_account_uuid) (EPar P_account_uuid)))
                  (eval (utxo_cols u) (gq_pv q) (gq_lv q) sp (EOr (ECmp CEq (EPar P_has_allow_list) (ELit 0)) (EInList (ECol C_addr) L_addresses))))
      with (eval (utxo_cols u) (gq_pv q) (gq_lv q) sp
              (EAnd (ECmp CEq (ECol C_account_uuid) (EPar P_account_uuid))
                    (EOr (ECmp CEq (EPar P_has_allow_list) (ELit 0)) (EInList (ECol C_addr) L_addresses)))).
    rewrite gat_acct, gat_value, gat_confirmed, gat_ephemeral, gat_coinbase_mature, gat_filter, gat_key.
    cbn [eval truthy]. rewrite truthy_b2v. unfold sp. rewrite utxo_spent_spec, negb_involutive.
    cbn. rewrite !andb_true_r. rewrite <- !andb_assoc. reflexivity.
  - rewrite !(fun a b => eq_refl : eval (utxo_cols u) (gq_pv q) (gq_lv q) sp (EAnd a b) = v_and (eval (utxo_cols u) (gq_pv q) (gq_lv q) sp a) (eval (utxo_cols u) (gq_pv q) (gq_lv q) sp b)).
    rewrite !truthy_and.
    rewrite <- (truthy_and (eval (utxo_cols u) (gq_pv q) (gq_lv q) sp (ECmp CEq (ECol C_account_uuid) (EPar P_account_uuid)))).
    change (v_and (eval (utxo_cols u) (gq_pv q) (gq_lv q) sp (ECmp CEq (ECol C_account_uuid) (EPar P_account_uuid)))
                  (eval (utxo_cols u) (gq_pv q) (gq_lv q) sp (EOr (ECmp CEq (EPar P_has_allow_list) (ELit 0)) (EInList (ECol C_addr) L_addresses))))
      with (eval (utxo_cols u) (gq_pv q) (gq_lv q) sp
              (EAnd (ECmp CEq (ECol C_account_uuid) (EPar P_account_uuid))
                    (EOr (ECmp CEq (EPar P_has_allow_list) (ELit 0)) (EInList (ECol C_addr) L_addresses)))).
    rewrite gat_acct, gat_value, gat_confirmed, gat_ephemeral, gat_coinbase_mature, gat_filter, gat_lock, gat_key.
    cbn [eval truthy]. rewrite truthy_b2v. unfold sp. rewrite utxo_spent_spec, negb_involutive.
    rewrite <- !andb_assoc. reflexivity.
Qed.

Lemma insert_g_perm le x l : Permutation (insert_g le x l) (x :: l).
Proof.
  induction l as [|y t IH]; cbn; [reflexivity|]. destruct (le x y); [reflexivity|].
  rewrite IH. apply perm_swap.
Qed.
Lemma sort_g_perm le l : Permutation (sort_g le l) l.
Proof. induction l as [|x t IH]; cbn; [reflexivity|]. rewrite insert_g_perm. constructor. exact IH. Qed.

Lemma accumulate_in tv : forall cap n acc l u, In u (accumulate_utxos tv cap n acc l) -> In u l.
Proof.
  intros cap n acc l. revert cap n acc. induction l as [|x t IH]; intros cap n acc u H; [destruct cap; simpl in H; contradiction|].
  destruct cap as [|cap']; [simpl in H; contradiction|]. cbn [accumulate_utxos] in H.
  destruct (match tv with Some t0 => t0 <=? Z.max 0 (acc - gather_fee n) | None => false end); [simpl in H; contradiction|].
  destruct H as [->|H]; [left; reflexivity | right; eapply IH; exact H].
Qed.

Lemma accumulate_nodup tv : forall cap n acc l,
  NoDup (map u_id l) -> NoDup (map u_id (accumulate_utxos tv cap n acc l)).
Proof.
  intros cap n acc l. revert cap n acc. induction l as [|x t IH]; intros cap n acc H; [destruct cap; constructor|].
  destruct cap as [|cap']; [constructor|]. cbn [accumulate_utxos].
  destruct (match tv with Some t0 => t0 <=? Z.max 0 (acc - gather_fee n) | None => false end); [constructor|].
  inversion H as [|? ? Hx Ht]; subst. cbn. constructor; [|apply IH; exact Ht].
  intros Hin. apply Hx. apply in_map_iff in Hin. destruct Hin as [y [Hy Hi]].
  apply in_map_iff. exists y. split; [exact Hy | eapply accumulate_in; exact Hi].
Qed.

Theorem select_transparent_sound udb acct allow target pol zc f tv lf u :
  In u (select_transparent udb acct allow target pol zc f tv lf) ->
  In u udb /\ utxo_spendable_acct target (minconf pol zc) f acct allow (owners_opt lf) u = true.
Proof.
  unfold select_transparent. generalize (Z.to_nat SHIELDING_MAX_INPUTS). intros cap H.
  apply accumulate_in in H. apply (Permutation_in _ (sort_g_perm _ _)) in H.
  apply filter_In in H. destruct H as [Hin Hp]. split; [exact Hin|].
  rewrite utxo_gather_where_spec in Hp. cbn [gq_target gq_minconf gq_filter gq_acct gq_allow gq_owners] in Hp.
  destruct lf; exact Hp.
Qed.

Theorem select_transparent_nodup udb acct allow target pol zc f tv lf :
  NoDup (map u_id udb) -> NoDup (map u_id (select_transparent udb acct allow target pol zc f tv lf)).
Proof.
  intros Hn. unfold select_transparent. generalize (Z.to_nat SHIELDING_MAX_INPUTS). intros cap.
  apply accumulate_nodup. eapply Permutation_NoDup; [apply Permutation_map; symmetry; apply sort_g_perm|].
  apply nodup_filter_ids. exact Hn.
Qed.

Lemma sum_utxos_app a b : sum_utxos (a ++ b) = sum_utxos a + sum_utxos b.
Proof. unfold sum_utxos. induction a as [|x t IH]; cbn; [reflexivity|]. rewrite IH. lia. Qed.

Lemma sum_utxos_le (l : list utxo_row) : forall m,
  NoDup l -> incl l m -> (forall x, In x m -> 0 <= u_value x) -> sum_utxos l <= sum_utxos m.
Proof.
  induction l as [|x t IH]; intros m Hn Hi Hv.
  - unfold sum_utxos at 1. cbn. clear Hi. induction m as [|y m' IHm]; [cbn; lia|].
    unfold sum_utxos in *. cbn. specialize (Hv y (or_introl eq_refl)) as Hy.
    assert (0 <= fold_right (fun u a => u_value u + a) 0 m') by (apply IHm; intros z Hz; apply Hv; right; exact Hz). lia.
  - inversion Hn as [|? ? Hx Ht]; subst.
    destruct (in_split x m (Hi x (or_introl eq_refl))) as [m1 [m2 ->]].
    assert (Hi' : incl t (m1 ++ m2)).
    { intros y Hy. specialize (Hi y (or_intror Hy)). apply in_app_or in Hi.
      apply in_or_app. destruct Hi as [Hi|[Hi|Hi]]; [left; exact Hi | subst; contradiction | right; exact Hi]. }
    specialize (IH (m1 ++ m2) Ht Hi' (fun z Hz => Hv z ltac:(apply in_app_or in Hz; apply in_or_app; destruct Hz; [left|right; right]; assumption))).
    rewrite sum_utxos_app in *. unfold sum_utxos in *. cbn. lia.
Qed.
