(** C08 — the property of a returned proposal, stated at the anchor each step BINDS and under the
    CALLER's confirmations policy, whichever attempt (ordinary or canonical ZIP 318 crossing)
    produced the step. *)
From V.Lib Require Import Base.
From V.C08 Require Import Sql Model Spec ProofsSql ProofsSel ProofsProp ProofsGreedy.
From Coq Require Import ZifyBool.
Local Open Scope Z_scope.

Lemma confirmed_mono pol pol' target r :
  p_trusted pol <= p_trusted pol' -> p_untrusted pol <= p_untrusted pol' ->
  confirmed pol' target r = true -> confirmed pol target r = true.
Proof.
  intros H1 H2. unfold confirmed. destruct (r_stab r); [reflexivity|]. cbn [orb].
  destruct (r_trust r).
  - destruct (r_block r); [lia | discriminate].
  - destruct (option_eqb Z.eqb (r_scope r) (Some 1)).
    + destruct (r_shin r).
      * destruct (r_shtrust r); lia.
      * destruct (r_block r); [lia | discriminate].
    + destruct (r_block r); [lia | discriminate].
Qed.

Lemma mined_le_mono a b r : a <= b -> mined_le a r = true -> mined_le b r = true.
Proof. intros H. unfold mined_le. destruct (r_block r); [lia | discriminate]. Qed.

(** What the property demands of one input row. *)
Definition input_ok (acct target anchor : Z) (pol : policy) (owners : list Z) (permitted : list pool) (r : note_row) : Prop :=
  r_acct r = acct /\ In (r_pool r) permitted
  /\ unspent_at target r = true /\ confirmed pol target r = true
  /\ mined_le anchor r = true /\ not_locked_by_other target owners r = true.

Lemma okrowb_parts e acct prefs pol lp r :
  okrowb e acct prefs pol lp r = true ->
  exists anchor, e_anchor e = Some anchor /\ In (r_pool r) prefs /\ r_acct r = acct
    /\ unspent_at (e_target e) r = true /\ confirmed pol (e_target e) r = true
    /\ mined_le anchor r = true /\ witnessable (tip_unscanned e (r_pool r) anchor) r = true
    /\ not_locked_by_other (e_target e) (overridable (LFPolicy lp)) r = true.
Proof.
  unfold okrowb. destruct (e_anchor e) as [anchor|]; [|discriminate]. intros H.
  apply andb_true_iff in H. destruct H as [Hp Hs]. exists anchor. split; [reflexivity|].
  apply existsb_exists in Hp. destruct Hp as [q [Hq Eq]]. apply pool_eqb_eq in Eq. subst q.
  unfold spendable in Hs. cbn [sc_acct sc_pool sc_target sc_pol sc_anchor sc_tipuns sc_owners] in Hs.
  rewrite !andb_true_iff in Hs. destruct Hs as [[[[[[Ha _] Hu] Hc] Hm] Hw] Hl].
  repeat split; try assumption. lia.
Qed.

Theorem proposal_inputs_at_step_anchor
    change fuel db e tip acct pay single_payment orchard_out permitted pol lp lock canon steps :
  NoDup (rrefs db) -> 1 <= p_trusted pol -> p_trusted pol <= p_untrusted pol ->
  (forall ci, canon = Some ci -> 0 < c_interval ci) ->
  (* the data source's anchor under the bucketed policy does not exceed the boundary it anchors to *)
  (forall ci sa, canon = Some ci -> c_sel_anchor ci = Some sa -> sa <= c_boundary ci) ->
  propose_transfer change fuel db e tip acct pay single_payment orchard_out permitted pol lp lock canon = Ok steps ->
  NoDup (concat (map s_inputs steps))
  /\ forall s, In s steps ->
       exists a inputs,
         s_anchor s = Some a /\ s_inputs s = rrefs inputs /\ NoDup (rrefs inputs)
         /\ s_in_value s = sum_values inputs /\ s_tins s = [] /\ s_pay s = pay /\ step_balanced s = true
         /\ forall r, In r inputs ->
              In r db /\ input_ok acct (e_target e) a pol (overridable (LFPolicy lp)) permitted r.
Proof.
  intros Hn Ht Hu Hci Hsa H.
  destruct (propose_transfer_sound _ _ _ _ _ _ _ _ _ _ _ _ _ _ _ Hn Ht Hu Hci H) as [Hnd Hs].
  split; [exact Hnd|]. intros s Hin. destruct (Hs s Hin) as [anchor Ea Hok | ci bp Ec Eb Ebd Hperm Hok].
  - destruct Hok as [inputs [H1 [H2 [H3 [H4 [H5 [[G1 G2] H6]]]]]]].
    exists anchor, inputs. repeat (split; [assumption|]).
    intros r Hr. destruct (G1 r Hr) as [Hdb Hb]. split; [exact Hdb|].
    apply okrowb_parts in Hb. destruct Hb as [a' [Ea' [Hp [Hacct [Hun [Hc [Hm [_ Hl]]]]]]]].
    rewrite Ea in Ea'. inversion Ea'; subst a'.
    unfold input_ok. repeat split; try assumption.
    eapply pool_preference_permitted; exact Hp.
  - destruct Hok as [inputs [H1 [H2 [H3 [H4 [H5 [[G1 G2] H6]]]]]]].
    exists (c_boundary ci), inputs. repeat (split; [assumption|]).
    intros r Hr. destruct (G1 r Hr) as [Hdb Hb]. split; [exact Hdb|].
    apply okrowb_parts in Hb. cbn [e_anchor e_target] in Hb.
    destruct Hb as [sa [Esa [Hp [Hacct [Hun [Hc [Hm [_ Hl]]]]]]]].
    destruct (bucketed_spec _ _ _ _ _ (Hci ci Ec) Ht Hu Eb) as [Hb1 [Hb2 _]].
    unfold input_ok. repeat split; try assumption.
    + apply pool_preference_permitted in Hp. destruct Hp as [<-|[]]. exact Hperm.
    + eapply confirmed_mono; eassumption.
    + eapply mined_le_mono; [exact (Hsa ci sa Ec Esa) | exact Hm].
Qed.
