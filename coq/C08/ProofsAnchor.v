(** C08 — the property of a returned proposal, stated at the anchor each step BINDS and under the
    CALLER's confirmations policy, whichever attempt (ordinary or canonical ZIP 318 crossing)
    produced the step. *)
From V.Lib Require Import Base.
From V.C08 Require Import Sql Model ModelT ModelP Spec ProofsSql ProofsSel ProofsProp ProofsT ProofsGreedy.
From Coq Require Import ZifyBool.
Local Open Scope Z_scope.

Lemma confirmed_mono pol pol' target r :
  p_trusted pol <= p_trusted pol' -> p_untrusted pol <= p_untrusted pol' ->
  confirmed pol' target r = true -> confirmed pol target r = true.
Proof.
  intros H1 H2. unfold confirmed. destruct (r_stab r); [reflexivity|]. cbn [orb].
  destruct (r_trust r).
  - destruct (r_block r); [lia | discriminate].
  - destruct (option_eqb Z.eqb (r_scope r) (Some 1)).
    + destruct (r_shin r).
      * destruct (r_shtrust r); lia.
      * destruct (r_block r); [lia | discriminate].
    + destruct (r_block r); [lia | discriminate].
Qed.

Lemma mined_le_mono a b r : a <= b -> mined_le a r = true -> mined_le b r = true.
Proof. intros H. unfold mined_le. destruct (r_block r); [lia | discriminate]. Qed.

(** What the property demands of one input row. *)
Definition input_ok (acct target anchor : Z) (pol : policy) (owners : list Z) (permitted : list pool) (r : note_row) : Prop :=
  r_acct r = acct /\ In (r_pool r) permitted
  /\ unspent_at target r = true /\ confirmed pol target r = true
  /\ mined_le anchor r = true /\ not_locked_by_other target owners r = true.

Lemma okrowb_parts e acct prefs pol lp r :
  okrowb e acct prefs pol lp r = true ->
  exists anchor, e_anchor e = Some anchor /\ In (r_pool r) prefs /\ r_acct r = acct
    /\ unspent_at (e_target e) r = true /\ confirmed pol (e_target e) r = true
    /\ mined_le anchor r = true /\ witnessable (tip_unscanned e (r_pool r) anchor) r = true
    /\ not_locked_by_other (e_target e) (overridable (LFPolicy lp)) r = true.
Proof.
  unfold okrowb. destruct (e_anchor e) as [anchor|]; [|discriminate]. intros H.
  apply andb_true_iff in H. destruct H as [Hp Hs]. exists anchor. split; [reflexivity|].
  apply existsb_exists in Hp. destruct Hp as [q [Hq Eq]]. apply pool_eqb_eq in Eq. subst q.
  unfold spendable in Hs. cbn [sc_acct sc_pool sc_target sc_pol sc_anchor sc_tipuns sc_owners] in Hs.
  rewrite !andb_true_iff in Hs. destruct Hs as [[[[[[Ha _] Hu] Hc] Hm] Hw] Hl].
  repeat split; try assumption. lia.
Qed.

(** What the property demands of one transparent input of a transfer: a coin of the account, at a
    listed address when the spend policy lists any, spendable, not locked by another owner. *)
Definition tinput_ok (udb : list utxo_row) (target : Z) (acct : Z) (pol : policy) (zc : bool) (lp : lip)
    (tspend : option (option (list Z))) (u : utxo_row) : Prop :=
  In u udb /\ exists allow, tspend = Some allow
    /\ utxo_spendable_acct target (minconf pol zc) CbNon acct allow (Some (overridable (LFPolicy lp))) u = true.

Theorem proposal_inputs_at_step_anchor
    change fuel db udb e tip acct pay single_payment orchard_out permitted pol zc lp tspend lock canon steps :
  NoDup (rrefs db) -> NoDup (map u_id udb) -> 1 <= p_trusted pol -> p_trusted pol <= p_untrusted pol ->
  (forall ci, canon = Some ci -> 0 < c_interval ci) ->
  (* the data source's anchor under the bucketed policy does not exceed the boundary it anchors to *)
  (forall ci sa, canon = Some ci -> c_sel_anchor ci = Some sa -> sa <= c_boundary ci) ->
  propose_transfer change fuel db udb e tip acct pay single_payment orchard_out permitted pol zc lp tspend lock canon = Ok steps ->
  NoDup (concat (map s_inputs steps))
  /\ forall s, In s steps ->
       exists a inputs tins,
         s_anchor s = Some a /\ s_inputs s = rrefs inputs /\ NoDup (rrefs inputs)
         /\ s_tins s = map u_id tins /\ NoDup (map u_id tins)
         /\ s_in_value s = sum_utxos tins + sum_values inputs /\ s_pay s = pay /\ step_balanced s = true
         /\ (forall r, In r inputs ->
              In r db /\ input_ok acct (e_target e) a pol (overridable (LFPolicy lp)) permitted r)
         /\ (forall u, In u tins -> tinput_ok udb (e_target e) acct pol zc lp tspend u).
Proof.
  intros Hn Hnu Ht Hu Hci Hsa H.
  destruct (propose_transfer_sound _ _ _ _ _ _ _ _ _ _ _ _ _ _ _ _ _ _ Hn Hnu Ht Hu Hci H) as [Hnd Hs].
  split; [exact Hnd|]. intros s Hin. destruct (Hs s Hin) as [anchor Ea Hok | ci bp Ec Eb Ebd Hperm Hok].
  - destruct Hok as [inputs [tins [H1 [H2 [H3 [H4 [H5 [[G1 G2] [[T1 T2] H6]]]]]]]]].
    exists anchor, inputs, tins. repeat (split; [assumption|]). split.
    + intros r Hr. destruct (G1 r Hr) as [Hdb Hb]. split; [exact Hdb|].
      apply okrowb_parts in Hb. destruct Hb as [a' [Ea' [Hp [Hacct [Hun [Hc [Hm [_ Hl]]]]]]]].
      rewrite Ea in Ea'. inversion Ea'; subst a'.
      unfold input_ok. repeat split; try assumption.
      eapply pool_preference_permitted; exact Hp.
    + intros u Hu'. destruct (T1 u Hu') as [Hon [t Hg]]. unfold tgather_of in Hg.
      destruct tspend as [allow|]; [|discriminate].
      apply select_transparent_sound in Hg. destruct Hg as [Hdb Hsp].
      split; [exact Hdb|]. exists allow. split; [reflexivity | exact Hsp].
  - destruct Hok as [inputs [tins [H1 [H2 [H3 [H4 [H5 [[G1 G2] [[T1 T2] H6]]]]]]]]].
    assert (tins = []) as ->.
    { destruct tins as [|u t]; [reflexivity|]. destruct (T1 u (or_introl eq_refl)) as [Hon _]. discriminate. }
    exists (c_boundary ci), inputs, (@nil utxo_row). repeat (split; [assumption|]). split; [|intros u []].
    intros r Hr. destruct (G1 r Hr) as [Hdb Hb]. split; [exact Hdb|].
    apply okrowb_parts in Hb. cbn [e_anchor e_target] in Hb.
    destruct Hb as [sa [Esa [Hp [Hacct [Hun [Hc [Hm [_ Hl]]]]]]]].
    destruct (bucketed_spec _ _ _ _ _ (Hci ci Ec) Ht Hu Eb) as [Hb1 [Hb2 _]].
    unfold input_ok. repeat split; try assumption.
    + apply pool_preference_permitted in Hp. destruct Hp as [<-|[]]. exact Hperm.
    + eapply confirmed_mono; eassumption.
    + eapply mined_le_mono; [exact (Hsa ci sa Ec Esa) | exact Hm].
Qed.
