(** C08 — selection: soundness, no duplicates, coverage of the running-sum window. *)
From V.Lib Require Import Base.
From V.C08 Require Import Sql Model Spec ProofsSql.
From V.Gen Require Import C08SqlPred.
From Coq Require Import ZifyBool Permutation.
Local Open Scope Z_scope.

(** ** sorting is a permutation *)
Lemma insert_row_perm le x l : Permutation (insert_row le x l) (x :: l).
Proof.
  induction l as [|y t IH]; cbn; [reflexivity|].
  destruct (le x y); [reflexivity|].
  rewrite IH. apply perm_swap.
Qed.

Lemma sort_rows_perm le l : Permutation (sort_rows le l) l.
Proof.
  induction l as [|x t IH]; cbn; [reflexivity|].
  rewrite insert_row_perm. constructor. exact IH.
Qed.

(** ** the window *)
Lemma running_fst acc l : map fst (running acc l) = l.
Proof. revert acc. induction l as [|r t IH]; intros acc; cbn; [reflexivity|]. rewrite IH. reflexivity. Qed.

Lemma in_running acc l p : In p (running acc l) -> In (fst p) l.
Proof. intros H. rewrite <- (running_fst acc l). apply in_map. exact H. Qed.

Lemma min_sofar_in best l p :
  min_sofar best l = Some p -> best = Some p \/ In p l.
Proof.
  revert best. induction l as [|x t IH]; intros best H; cbn in H; [left; exact H|].
  destruct best as [b|].
  - destruct (snd x <? snd b).
    + apply IH in H. destruct H as [H|H]; [inversion H; subst; right; left; reflexivity | right; right; exact H].
    + apply IH in H. destruct H as [H|H]; [left; exact H | right; right; exact H].
  - apply IH in H. destruct H as [H|H]; [inversion H; subst; right; left; reflexivity | right; right; exact H].
Qed.

Lemma in_below f acc l r :
  In r (map fst (filter f (running acc l))) -> In r l.
Proof.
  intros H. apply in_map_iff in H. destruct H as [p [<- Hp]]. apply filter_In in Hp.
  eapply in_running. exact (proj1 Hp).
Qed.

Lemma window_select_incl tv l r : In r (window_select tv l) -> In r l.
Proof.
  unfold window_select. intros H.
  destruct (min_sofar None _) as [[c s]|] eqn:E.
  - assert (Hc : In c l).
    { apply min_sofar_in in E. destruct E as [E|E]; [discriminate|].
      apply filter_In in E. apply (in_running 0 l (c, s)). exact (proj1 E). }
    destruct (mem_id (r_id c) _).
    + eapply in_below; exact H.
    + apply in_app_or in H. destruct H as [H|[<-|[]]]; [eapply in_below; exact H | exact Hc].
  - eapply in_below; exact H.
Qed.

Lemma below_nodup f l : forall acc,
  NoDup (map r_id l) -> NoDup (map r_id (map fst (filter f (running acc l)))).
Proof.
  induction l as [|r t IH]; intros acc H; cbn; [constructor|].
  inversion H as [|? ? Hn Ht]; subst.
  destruct (f (r, acc + r_value r)); cbn.
  - constructor; [|apply IH; exact Ht].
    intros Hin. apply Hn. apply in_map_iff in Hin. destruct Hin as [x [Hx Hi]].
    apply in_map_iff. exists x. split; [exact Hx|]. eapply in_below; exact Hi.
  - apply IH; exact Ht.
Qed.

Lemma mem_id_false i l : mem_id i l = false -> ~ In i (map r_id l).
Proof.
  unfold mem_id. intros H Hin. apply in_map_iff in Hin. destruct Hin as [x [Hx Hi]].
  assert (existsb (fun r => r_id r =? i) l = true) by (apply existsb_exists; exists x; split; [exact Hi | lia]).
  congruence.
Qed.

Lemma window_select_nodup tv l :
  NoDup (map r_id l) -> NoDup (map r_id (window_select tv l)).
Proof.
  intros H. unfold window_select.
  destruct (min_sofar None _) as [[c s]|]; [|apply below_nodup; exact H].
  destruct (mem_id (r_id c) _) eqn:E; [apply below_nodup; exact H|].
  rewrite map_app. cbn.
  apply Permutation_NoDup with (l := r_id c :: map r_id (map fst (filter (fun p => cmp_z below_target_cmp (snd p) tv) (running 0 l)))).
  - apply Permutation_cons_append.
  - constructor; [apply mem_id_false; exact E | apply below_nodup; exact H].
Qed.

(** Coverage of the SQL window (before the Rust-side confirmations filter): when every value is
    positive, either the selected rows reach the target or every row was selected. *)
Lemma running_bounds l : forall acc p,
  (forall r, In r l -> 0 < r_value r) -> In p (running acc l) -> acc < snd p.
Proof.
  induction l as [|r t IH]; intros acc p Hpos Hin; cbn in Hin; [contradiction|].
  destruct Hin as [<-|Hin]; cbn.
  - specialize (Hpos r (or_introl eq_refl)). lia.
  - specialize (IH (acc + r_value r) p (fun x Hx => Hpos x (or_intror Hx)) Hin).
    specialize (Hpos r (or_introl eq_refl)). lia.
Qed.

Definition sum_fst (l : list (note_row * Z)) : Z := fold_right (fun p a => r_value (fst p) + a) 0 l.

Lemma window_covers_aux l : forall acc tv,
  (forall r, In r l -> 0 < r_value r) ->
  let rs := running acc l in
  (* every row is below the target *)
  (filter (fun p => snd p <? tv) rs = rs /\ filter (fun p => tv <=? snd p) rs = [])
  \/
  (* or: there is a first crossing row c; all rows before it are below; it minimises so_far *)
  (exists pre c post, rs = pre ++ c :: post
     /\ (forall p, In p pre -> snd p < tv) /\ tv <= snd c
     /\ (forall p, In p post -> snd c < snd p)
     /\ acc + sum_fst pre + r_value (fst c) = snd c).
Proof.
  induction l as [|r t IH]; intros acc tv Hpos; cbn.
  - left. split; reflexivity.
  - destruct (acc + r_value r <? tv) eqn:E.
    + destruct (IH (acc + r_value r) tv (fun x Hx => Hpos x (or_intror Hx))) as [[H1 H2]|[pre [c [post [H1 [H2 [H3 [H4 H5]]]]]]]].
      * left. cbn. rewrite ?E. replace (tv <=? acc + r_value r) with false by lia. rewrite H1, H2. split; reflexivity.
      * right. exists ((r, acc + r_value r) :: pre), c, post. cbn. rewrite H1.
        split; [reflexivity|]. split; [intros p [<-|Hp]; [cbn; lia | apply H2; exact Hp]|].
        split; [exact H3|]. split; [exact H4|]. unfold sum_fst in *. cbn [fold_right fst] in *. lia.
    + right. exists [], (r, acc + r_value r), (running (acc + r_value r) t). cbn.
      split; [reflexivity|]. split; [intros p []|]. split; [lia|].
      split; [|lia]. intros p Hp. eapply running_bounds; [|exact Hp]. intros x Hx. apply Hpos. right. exact Hx.
Qed.

Lemma filter_all_false {A} (f : A -> bool) l : (forall x, In x l -> f x = false) -> filter f l = [].
Proof.
  induction l as [|x t IH]; intros H; cbn; [reflexivity|].
  rewrite (H x (or_introl eq_refl)). apply IH. intros y Hy. apply H. right. exact Hy.
Qed.
Lemma filter_all_true {A} (f : A -> bool) l : (forall x, In x l -> f x = true) -> filter f l = l.
Proof.
  induction l as [|x t IH]; intros H; cbn; [reflexivity|].
  rewrite (H x (or_introl eq_refl)). f_equal. apply IH. intros y Hy. apply H. right. exact Hy.
Qed.

Lemma min_sofar_first c post : forall best,
  (forall p, In p post -> snd c < snd p) ->
  (match best with None => True | Some b => snd b <= snd c -> False end) ->
  min_sofar best (c :: post) = Some c.
Proof.
  intros best Hpost Hb. cbn.
  assert (Hc : forall l, (forall p, In p l -> snd c < snd p) -> min_sofar (Some c) l = Some c).
  { induction l as [|x t IH]; intros H; cbn; [reflexivity|].
    specialize (H x (or_introl eq_refl)) as Hx. replace (snd x <? snd c) with false by lia.
    apply IH. intros p Hp. apply H. right. exact Hp. }
  destruct best as [b|]; [|apply Hc; exact Hpost].
  replace (snd c <? snd b) with true by lia. apply Hc; exact Hpost.
Qed.

Lemma sum_values_app a b : sum_values (a ++ b) = sum_values a + sum_values b.
Proof. unfold sum_values. induction a as [|x t IH]; cbn; [reflexivity|]. rewrite IH. lia. Qed.

Lemma sum_fst_map l : sum_values (map fst l) = sum_fst l.
Proof. unfold sum_values, sum_fst. induction l as [|x t IH]; cbn; [reflexivity|]. rewrite IH. reflexivity. Qed.

Theorem window_select_covers tv l :
  below_target_cmp = CLt -> crossing_cmp = CGe ->
  (forall r, In r l -> 0 < r_value r) -> NoDup (map r_id l) ->
  tv <= sum_values (window_select tv l) \/ window_select tv l = l.
Proof.
  intros Hb Hc Hpos Hnd. unfold window_select. rewrite Hb, Hc. cbn [cmp_z].
  destruct (window_covers_aux l 0 tv Hpos) as [[H1 H2]|[pre [c [post [H1 [H2 [H3 [H4 H5]]]]]]]].
  - right. cbn zeta in H1, H2. rewrite H1, H2. cbn. apply running_fst.
  - left. cbn zeta in H1. rewrite H1.
    rewrite !filter_app. cbn [filter].
    replace (snd c <? tv) with false by lia. replace (tv <=? snd c) with true by lia.
    rewrite (filter_all_false (fun p => tv <=? snd p) pre) by (intros x Hx; specialize (H2 x Hx); lia).
    rewrite (filter_all_true (fun p => snd p <? tv) pre) by (intros x Hx; specialize (H2 x Hx); lia).
    cbn [app].
    rewrite (min_sofar_first c (filter (fun p => tv <=? snd p) post) None).
    + destruct c as [c s]. cbn [fst snd] in *.
      rewrite (filter_all_false (fun p => snd p <? tv) post) by (intros x Hx; specialize (H4 x Hx); lia).
      rewrite app_nil_r.
      assert (Hmem : mem_id (r_id c) (map fst pre) = false).
      { pose proof (running_fst 0 l) as Hl. rewrite H1, map_app in Hl. cbn in Hl. rewrite <- Hl in Hnd.
        rewrite map_app in Hnd. cbn in Hnd. apply NoDup_remove_2 in Hnd.
        unfold mem_id. destruct (existsb _ _) eqn:Ex; [|reflexivity]. exfalso. apply Hnd.
        apply existsb_exists in Ex. destruct Ex as [x [Hx1 Hx2]]. apply in_or_app. left.
        apply in_map_iff. exists x. split; [lia | exact Hx1]. }
      rewrite Hmem.
      rewrite sum_values_app, sum_fst_map. change (sum_values [c]) with (r_value c + 0). lia.
    + intros p Hp. apply filter_In in Hp. apply H4. exact (proj1 Hp).
    + exact I.
Qed.
