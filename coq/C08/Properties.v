(** C08 — proposals spend only spendable funds, each once, and balance exactly.

    Every theorem is closed by [exact]; the statements are in terms of
      - the executable model of Model.v, whose boolean SQL conditions are the trees REGENERATED
        from the Rust source (V.Gen.C08SqlPred), and
      - the row-level specification of Spec.v ([spendable], [unspent_at], [confirmed], ...).
    The change strategy is an arbitrary function ([change]); no conservation property of it is
    assumed — the balance of a step is what Step::from_parts checks. *)
From V.Lib Require Import Base.
From V.C08 Require Import Sql Model ModelT ModelP Spec Corr Wf ProofsSql ProofsSel ProofsProp ProofsGreedy ProofsAnchor ProofsSeq ProofsT Bridge.
From V.Gen Require Import C08SqlPred.
Local Open Scope Z_scope.

(** *** The regenerated SQL means what the specification says *)

Theorem C08_tx_unexpired_sql_is_spec : forall target s,
  spender_unexpired target s = spender_counts target s.
Proof. exact spender_unexpired_spec. Qed.

Theorem C08_spent_notes_clause_is_spec : forall target r,
  spent_at target r = negb (unspent_at target r).
Proof. exact spent_at_spec. Qed.

Theorem C08_eligible_where_is_spec : forall q lf r,
  row_passes q (eligible_where lf) r = eligible_spec q lf r.
Proof. exact eligible_where_spec. Qed.

Theorem C08_lock_eligibility_sql_is_spec : forall q r,
  truthy (eval (row_cols r) (q_pv q) (q_lv q) false lock_eligible_policy)
  = not_locked_by_other (q_target q) (q_owners q) r.
Proof. exact lock_eligible_policy_spec. Qed.

Theorem C08_lockable_sql_is_spec : forall tip owner r,
  lockable tip owner r = lockable_spec tip owner r.
Proof. exact lockable_is_spec. Qed.

Theorem C08_confirmations_is_spec : forall pol target r,
  1 <= p_trusted pol -> p_trusted pol <= p_untrusted pol ->
  has_confirmations pol target r = confirmed pol target r.
Proof. exact has_confirmations_spec. Qed.

(** *** Selection *)

(** selected_spendable: every selected row is in the wallet, belongs to the account and pool asked
    for, is unspent at the target height, confirmed per policy, mined at or below the anchor,
    witnessable, not locked by another owner, worth more than the marginal fee, and not excluded. *)
Theorem C08_selected_spendable : forall db e acct p anchor tv pol exclude lf r,
  1 <= p_trusted pol -> p_trusted pol <= p_untrusted pol ->
  In r (select_matching db e acct p anchor tv pol exclude lf) ->
  In r db
  /\ spendable (SC acct p (e_target e) anchor (tip_unscanned e p anchor) pol (owners_opt lf)) r = true
  /\ MARGINAL_FEE < r_value r
  /\ ~ In (r_id r) (excl_ids p exclude).
Proof. exact select_matching_sound. Qed.

Theorem C08_selected_spendable_send_max : forall db e acct p anchor ev pol exclude lf l r,
  1 <= p_trusted pol -> p_trusted pol <= p_untrusted pol ->
  select_unspent db e acct p anchor ev pol exclude lf = Ok l -> In r l ->
  In r db /\ spendable (SC acct p (e_target e) anchor false pol (owners_opt lf)) r = true.
Proof. exact select_unspent_sound. Qed.

Theorem C08_select_nodup : forall db e acct p anchor tv pol exclude lf,
  NoDup (rrefs db) ->
  NoDup (map r_id (select_matching db e acct p anchor tv pol exclude lf)).
Proof. exact select_matching_nodup. Qed.

(** select_covers, for the SQL window (i.e. before the Rust-side confirmations filter): the
    window reaches the target or contains every eligible note. *)
Theorem C08_select_window_covers : forall db e acct p anchor tv exclude lf,
  NoDup (rrefs db) -> 0 <= MARGINAL_FEE ->
  let q := mk_q e acct p anchor exclude lf in
  let elig := sort_rows (row_leb lf q) (filter (row_passes q (eligible_where lf)) (of_pool p db)) in
  tv <= sum_values (window_select tv elig) \/ window_select tv elig = elig.
Proof. exact select_window_covers. Qed.

(** *** Locks and pending transactions *)

Theorem C08_locked_not_reused : forall db e acct p anchor tv pol exclude lp r x,
  1 <= p_trusted pol -> p_trusted pol <= p_untrusted pol ->
  r_lock r = Some x -> e_target e <= x ->
  (forall o, r_owner r = Some o -> ~ In o (overridable (LFPolicy lp))) ->
  ~ In r (select_matching db e acct p anchor tv pol exclude (LFPolicy lp)).
Proof. exact locked_not_selected. Qed.

Theorem C08_pending_not_reused : forall db e acct p anchor tv pol exclude lf r s,
  1 <= p_trusted pol -> p_trusted pol <= p_untrusted pol ->
  In s (r_spenders r) -> spender_counts (e_target e) s = true ->
  ~ In r (select_matching db e acct p anchor tv pol exclude lf).
Proof. exact pending_not_selected. Qed.

Theorem C08_stored_pending_counts : forall target x m,
  target <= x -> spender_counts target (Sp None (Some x) m) = true.
Proof. exact stored_pending_counts. Qed.

(** lock_outputs: on success every referenced output is held by the owner until the expiry
    height and no row is added or removed (failure changes nothing: the model returns no state). *)
Theorem C08_lock_outputs_holds : forall tip owner expiry refs db db',
  NoDup (rrefs db) ->
  lock_outputs tip owner expiry refs db = Some db' ->
  rrefs db' = rrefs db
  /\ forall x r', In x refs -> In r' db' -> same_ref x r' = true -> held owner expiry r'.
Proof. exact lock_outputs_holds. Qed.

(** ... and such outputs are not taken by any later proposal that does not name the owner, while
    the lock has not expired. *)
Theorem C08_locked_proposal_not_reused :
  forall change fuel tip owner expiry refs db db' udb e tip' acct pay sp oo permitted pol zc lp tspend lock canon steps s x,
  NoDup (rrefs db) -> NoDup (map u_id udb) -> 1 <= p_trusted pol -> p_trusted pol <= p_untrusted pol ->
  (forall ci, canon = Some ci -> 0 < c_interval ci) ->
  (forall ci sa, canon = Some ci -> c_sel_anchor ci = Some sa -> sa <= c_boundary ci) ->
  lock_outputs tip owner expiry refs db = Some db' ->
  e_target e <= expiry -> ~ In owner (overridable (LFPolicy lp)) ->
  propose_transfer change fuel db' udb e tip' acct pay sp oo permitted pol zc lp tspend lock canon = Ok steps ->
  In s steps -> In x (s_inputs s) -> ~ In x refs.
Proof. exact locked_proposal_not_reused. Qed.

(** The same for the coins of a transfer under a TransparentSpendPolicy: a coin carrying a live lock of
    an owner the CALL's policy does not name is in no step (first gather and re-gather alike). *)
Theorem C08_locked_utxo_not_reused :
  forall change fuel db udb e tip acct pay sp oo permitted pol zc lp tspend lock canon steps s u x,
  NoDup (rrefs db) -> NoDup (map u_id udb) -> 1 <= p_trusted pol -> p_trusted pol <= p_untrusted pol ->
  (forall ci, canon = Some ci -> 0 < c_interval ci) ->
  (forall ci sa, canon = Some ci -> c_sel_anchor ci = Some sa -> sa <= c_boundary ci) ->
  In u udb -> u_lock u = Some x -> e_target e <= x ->
  (forall o, u_owner u = Some o -> ~ In o (overridable (LFPolicy lp))) ->
  propose_transfer change fuel db udb e tip acct pay sp oo permitted pol zc lp tspend lock canon = Ok steps ->
  In s steps -> ~ In (u_id u) (s_tins s).
Proof. exact locked_utxo_not_reused. Qed.

(** *** Proposals *)

(** proposal_balanced / selected_spendable / no input twice, for every change strategy and for
    both attempts of propose_transfer (ordinary; canonical ZIP 318 crossing against the bucketed
    anchor): inputs are distinct across steps; each step binds an anchor [a]; its inputs are distinct
    wallet rows of the account in permitted pools, unspent at the target height, confirmed under
    the CALLER's policy, mined at or below the anchor THE STEP BINDS, not locked by another owner;
    the step's value is their sum and inputs = payments + change + fee. *)
Theorem C08_proposal_sound :
  forall change fuel db udb e tip acct pay single_payment orchard_out permitted pol zc lp tspend lock canon steps,
  NoDup (rrefs db) -> NoDup (map u_id udb) -> 1 <= p_trusted pol -> p_trusted pol <= p_untrusted pol ->
  (forall ci, canon = Some ci -> 0 < c_interval ci) ->
  (forall ci sa, canon = Some ci -> c_sel_anchor ci = Some sa -> sa <= c_boundary ci) ->
  propose_transfer change fuel db udb e tip acct pay single_payment orchard_out permitted pol zc lp tspend lock canon = Ok steps ->
  NoDup (concat (map s_inputs steps))
  /\ forall s, In s steps ->
       exists a inputs tins,
         s_anchor s = Some a /\ s_inputs s = rrefs inputs /\ NoDup (rrefs inputs)
         /\ s_tins s = map u_id tins /\ NoDup (map u_id tins)
         /\ s_in_value s = sum_utxos tins + sum_values inputs /\ s_pay s = pay /\ step_balanced s = true
         /\ (forall r, In r inputs ->
              In r db /\ input_ok acct (e_target e) a pol (overridable (LFPolicy lp)) permitted r)
         /\ (forall u, In u tins -> tinput_ok udb (e_target e) acct pol zc lp tspend u).
Proof. exact proposal_inputs_at_step_anchor. Qed.

(** ... and, in full, which attempt produced each step and that its rows are spendable (including
    witnessable) at the anchor the data source selected at. *)
Theorem C08_proposal_origin :
  forall change fuel db udb e tip acct pay single_payment orchard_out permitted pol zc lp tspend lock canon steps,
  NoDup (rrefs db) -> NoDup (map u_id udb) -> 1 <= p_trusted pol -> p_trusted pol <= p_untrusted pol ->
  (forall ci, canon = Some ci -> 0 < c_interval ci) ->
  propose_transfer change fuel db udb e tip acct pay single_payment orchard_out permitted pol zc lp tspend lock canon = Ok steps ->
  NoDup (concat (map s_inputs steps))
  /\ forall s, In s steps -> step_origin db udb e acct pay orchard_out permitted pol zc lp tspend canon s.
Proof. exact propose_transfer_sound. Qed.

(** The bucketed policy is stricter than the caller's and anchors on a grid boundary above activation. *)
Theorem C08_bucketed_spec : forall pol interval target activation bp,
  0 < interval -> 1 <= p_trusted pol -> p_trusted pol <= p_untrusted pol ->
  bucketed pol interval target activation = Some bp ->
  p_trusted pol <= p_trusted bp /\ p_untrusted pol <= p_untrusted bp
  /\ 1 <= p_trusted bp /\ p_trusted bp <= p_untrusted bp
  /\ (ssub target (p_trusted bp)) mod interval = 0
  /\ activation < ssub target (p_trusted bp).
Proof. exact bucketed_spec. Qed.

Theorem C08_preference_within_permitted : forall iw oo permitted p,
  In p (pool_preference iw oo permitted) -> In p permitted.
Proof. exact pool_preference_permitted. Qed.

(** insufficient_errs: when the spendable rows are worth less than the payments, no proposal. *)
Theorem C08_insufficient_errs :
  forall change ton tgather db e acct pay prefs pol lp iw step_anchor single,
  NoDup (rrefs db) -> 1 <= p_trusted pol -> p_trusted pol <= p_untrusted pol ->
  (forall t, NoDup (map u_id (tgather t))) ->
  (forall r, In r db -> 0 <= r_value r) ->
  forall fuel s tbound,
  change_nonneg change ->
  (forall tins, tgood ton tgather tins -> sum_utxos tins <= tbound) ->
  sum_values (filter (okrowb e acct prefs pol lp) db) + tbound < pay ->
  propose_transaction change ton tgather db e acct pay prefs pol lp iw step_anchor single fuel <> Ok s.
Proof. exact insufficient_is_error. Qed.

(** greedy_terminates: fuel above the wallet's total value is never exhausted (the loop's own
    argument: the selected value strictly increases and is bounded), and more fuel does not change
    a result. *)
Theorem C08_greedy_terminates :
  forall change ton tgather db e acct pay prefs pol lp iw step_anchor single,
  NoDup (rrefs db) -> 1 <= p_trusted pol -> p_trusted pol <= p_untrusted pol ->
  (forall r, In r db -> 0 <= r_value r) ->
  forall fuel,
  ton = false ->
  sum_values db < Z.of_nat fuel ->
  propose_transaction change ton tgather db e acct pay prefs pol lp iw step_anchor single fuel <> Err EOutOfFuel.
Proof. exact greedy_terminates. Qed.

Theorem C08_greedy_fuel_irrelevant :
  forall change ton tgather db e acct pay prefs pol lp iw step_anchor single fuel sel tins tdust ag prior req excl r,
  greedy change ton tgather db e acct pay prefs pol lp iw step_anchor single fuel sel tins tdust ag prior req excl = r ->
  r <> Err EOutOfFuel ->
  greedy change ton tgather db e acct pay prefs pol lp iw step_anchor single (S fuel) sel tins tdust ag prior req excl = r.
Proof. exact greedy_fuel_mono. Qed.

(** *** Bridge: correspondence => property, for select_spendable_notes(AtLeast) cases *)
Theorem C08_bridge_select : forall db e acct p z pol exclude lf obs,
  wf_case (CSelect db e acct p (TAtLeast z) pol exclude lf obs) = true ->
  run_case (CSelect db e acct p (TAtLeast z) pol exclude lf obs) = true ->
  prop_case (CSelect db e acct p (TAtLeast z) pol exclude lf obs) = true.
Proof. exact bridge_select_atleast. Qed.

Theorem C08_bridge_lock : forall db tip refs owner expiry obs post,
  wf_case (CLock db tip refs owner expiry obs post) = true ->
  run_case (CLock db tip refs owner expiry obs post) = true ->
  prop_case (CLock db tip refs owner expiry obs post) = true.
Proof. exact bridge_lock. Qed.

(** For propose_transfer cases the bridge needs, when a canonical attempt is possible, that the data
    source's anchor under the bucketed policy IS the boundary ([canon_sel_at_boundary]); prop_case
    checks witnessability at the anchor the step binds, the theorems prove it at the selection anchor. *)
Theorem C08_bridge_propose : forall db udb e acct pay sp oo permitted pol zc lp tspend lock canon oracle obs,
  wf_case (CPropose db udb e acct pay sp oo permitted pol zc lp tspend lock canon oracle obs) = true ->
  canon_sel_at_boundary (CPropose db udb e acct pay sp oo permitted pol zc lp tspend lock canon oracle obs) = true ->
  run_case (CPropose db udb e acct pay sp oo permitted pol zc lp tspend lock canon oracle obs) = true ->
  prop_case (CPropose db udb e acct pay sp oo permitted pol zc lp tspend lock canon oracle obs) = true.
Proof. exact bridge_propose. Qed.

Theorem C08_propose_never_panics : forall change fuel db udb e tip acct pay sp oo permitted pol zc lp tspend lock canon,
  propose_transfer change fuel db udb e tip acct pay sp oo permitted pol zc lp tspend lock canon <> Panic.
Proof. exact propose_transfer_no_panic. Qed.

(** *** Storing a transaction releases exactly the locks of the outputs it spends *)
Theorem C08_store_releases_exactly : forall refs db,
  rrefs (unlock_spent refs db) = rrefs db
  /\ forall r, In r db ->
       (In (r_pool r, r_id r) refs -> In (clear_lock r) (unlock_spent refs db))
       /\ (~ In (r_pool r, r_id r) refs -> In r (unlock_spent refs db)).
Proof. exact unlock_spent_exact. Qed.

Theorem C08_store_keeps_other_locks : forall refs db owner expiry r,
  In r db -> held owner expiry r -> ~ In (r_pool r, r_id r) refs ->
  In r (unlock_spent refs db) /\ held owner expiry r.
Proof. exact store_keeps_other_locks. Qed.

Theorem C08_store_keeps_other_utxo_locks : forall ids udb u,
  In u udb -> ~ In (u_id u) ids -> In u (unlock_spent_utxos ids udb).
Proof. exact store_keeps_other_utxo_locks. Qed.

Theorem C08_bridge_store : forall db udb target refs tids post upost,
  run_case (CStore db udb target refs tids post upost) = true ->
  prop_case (CStore db udb target refs tids post upost) = true.
Proof. exact bridge_store. Qed.

(** *** Transparent inputs (coins) *)

(** The regenerated WHERE clause of spendable_transparent_outputs_query (as instantiated by
    get_spendable_transparent_outputs_for_addresses) is Spec.utxo_spendable: received at one of the
    requested addresses, worth more than the marginal fee, confirmed (or unexpired with zero
    required confirmations), unspent at the target height, not a likely-spent ephemeral output,
    coinbase-mature, passing the coinbase filter, not locked by another owner, spendable key. *)
Theorem C08_utxo_where_is_spec : forall q lf u,
  utxo_passes q lf u
  = utxo_spendable (uq_target q) (uq_minconf q) (uq_filter q) (uq_addrs q)
      (match lf with LFUnfiltered => None | LFPolicy _ => Some (uq_owners q) end) u.
Proof. exact utxo_where_spec. Qed.

(** select_spendable_transparent_outputs (the gather of a transfer's TransparentSpendPolicy): its
    regenerated WHERE clause additionally demands the ACCOUNT, and a listed address when the
    policy lists any. *)
Theorem C08_utxo_gather_where_is_spec : forall q lf u,
  utxo_gather_passes q lf u
  = utxo_spendable_acct (gq_target q) (gq_minconf q) (gq_filter q) (gq_acct q) (gq_allow q)
      (match lf with LFUnfiltered => None | LFPolicy _ => Some (gq_owners q) end) u.
Proof. exact utxo_gather_where_spec. Qed.

Theorem C08_transfer_coins_spendable : forall udb acct allow target pol zc f tv lf u,
  In u (select_transparent udb acct allow target pol zc f tv lf) ->
  In u udb /\ utxo_spendable_acct target (minconf pol zc) f acct allow (owners_opt lf) u = true.
Proof. exact select_transparent_sound. Qed.

Theorem C08_transfer_coins_nodup : forall udb acct allow target pol zc f tv lf,
  NoDup (map u_id udb) -> NoDup (map u_id (select_transparent udb acct allow target pol zc f tv lf)).
Proof. exact select_transparent_nodup. Qed.

Theorem C08_utxo_selected_spendable : forall udb target addrs pol zc f lf u,
  In u (select_utxos udb target addrs pol zc f lf) ->
  In u udb /\ utxo_spendable target (minconf pol zc) f addrs (owners_opt lf) u = true.
Proof. exact select_utxos_sound. Qed.

Theorem C08_utxo_select_nodup : forall udb target addrs pol zc f lf,
  NoDup (map u_id udb) -> NoDup (map u_id (select_utxos udb target addrs pol zc f lf)).
Proof. exact select_utxos_nodup. Qed.

(** A shielding proposal (any change strategy) is one step with no shielded input whose
    transparent inputs are distinct spendable outputs of the wallet at the requested addresses;
    its value is their sum, it is non-zero, balances (inputs = change + fee), meets the threshold
    and binds the wallet's anchor. *)
Theorem C08_shielding_sound : forall change udb e tip threshold addrs pol zc f lp iw lock steps,
  NoDup (map u_id udb) ->
  propose_shielding change udb e tip threshold addrs pol zc f lp iw lock = Ok steps ->
  exists s, steps = [s] /\ shield_ok udb e threshold addrs pol zc f lp s.
Proof. exact propose_shielding_sound. Qed.

Theorem C08_bridge_tselect : forall udb target addrs pol zc f lf obs,
  wf_case (CTSelect udb target addrs pol zc f lf obs) = true ->
  run_case (CTSelect udb target addrs pol zc f lf obs) = true ->
  prop_case (CTSelect udb target addrs pol zc f lf obs) = true.
Proof. exact bridge_tselect. Qed.

Theorem C08_bridge_shield : forall udb e threshold addrs pol zc f lp iw lock oracle obs,
  wf_case (CShield udb e threshold addrs pol zc f lp iw lock oracle obs) = true ->
  run_case (CShield udb e threshold addrs pol zc f lp iw lock oracle obs) = true ->
  prop_case (CShield udb e threshold addrs pol zc f lp iw lock oracle obs) = true.
Proof. exact bridge_shield. Qed.

Example C08_nonvacuous_shield :
  propose_shielding (fun l => TBal [(CP Sapling, 185000)] 15000)
    [U 1 0 0 0 100000 (Some 100) None None None true false false None None [] 0;
     U 2 0 0 0 100000 (Some 101) None None None true false false (Some 200) (Some 2) [] 1;
     U 3 0 0 0 100000 (Some 102) None None None true false false None None [] 2]
    (Env 112 (Some 111) []) (Some 111) 1000 [0] (Pol 1 1) true CbAll LExclude false None
  = Ok [Step [] 200000 [1; 3] 0 [(CP Sapling, 185000)] 15000 (Some 111)].
Proof. vm_compute. reflexivity. Qed.

(** A transfer of account 0 funded by its coin 1; coin 2 belongs to account 1 although its address is
    allow-listed, coin 3 is locked by owner 2 (re-gather included). *)
Example C08_nonvacuous_transparent_transfer :
  propose_transfer (fun _ _ tl => match tl with [_] => OBal [] 10000 | _ => OInsuff 70000 end) 8
    []
    [U 1 0 0 0 60000 (Some 100) None None None true false false None None [] 0;
     U 2 1 1 0 100000 (Some 100) None None None true false false None None [] 1;
     U 3 0 0 0 90000 (Some 100) None None None true false false (Some 200) (Some 2) [] 2]
    (Env 112 (Some 111) []) (Some 111) 0 50000 true false [Sapling] (Pol 1 1) true LExclude (Some (Some [0; 1])) None None
  = Ok [Step [] 60000 [1] 50000 [] 10000 (Some 111)].
Proof. vm_compute. reflexivity. Qed.

(** *** Non-vacuity: a wallet with two notes, one locked by owner 2 *)
Definition ex_db : list note_row :=
  [ R 1 0 Sapling 60000 (Some 100) (Some 100) None 100 true (Some 0) true (Some 0) false false (Some 10) None false None None [];
    R 2 0 Sapling 50000 (Some 101) (Some 101) None 101 true (Some 0) true (Some 1) false false (Some 10) None false (Some 120) (Some 2) [];
    R 3 0 Sapling 70000 (Some 102) (Some 102) None 102 true (Some 0) true (Some 2) false false (Some 10) None false None None
      [Sp None (Some 150) 110] ].
Definition ex_env : env := Env 112 (Some 111) [].

Example C08_nonvacuous_select :
  map r_id (select_matching ex_db ex_env 0 Sapling 111 100000 (Pol 1 1) [] (LFPolicy LExclude)) = [1].
Proof. vm_compute. reflexivity. Qed.

Example C08_nonvacuous_propose :
  propose_transfer (fun _ l _ => match l with [] => OInsuff 30000 | _ => OBal [(CP Sapling, 30000)] 10000 end) 8
    ex_db [] ex_env (Some 111) 0 20000 true false [Sapling; Orchard] (Pol 1 1) true LExclude None None None
  = Ok [Step [(Sapling, 1)] 60000 [] 20000 [(CP Sapling, 30000)] 10000 (Some 111)].
Proof. vm_compute. reflexivity. Qed.

(** A canonical ZIP 318 crossing: grid of 12 blocks, NU6.3 active from 100; one Orchard note mined
    at or below the bucketed boundary 144 is spent against that boundary; a note mined after it is not. *)
Definition ex_db2 : list note_row :=
  [ R 1 0 Orchard 1500000 (Some 150) (Some 150) None 150 true (Some 0) true (Some 0) false false (Some 10) None false None None [];
    R 2 0 Orchard 1200000 (Some 120) (Some 120) None 120 true (Some 0) true (Some 1) false false (Some 10) None false None None [] ].
Example C08_nonvacuous_canonical :
  bucketed (Pol 1 1) 12 160 100 = Some (Pol 16 16)
  /\ propose_transfer (fun a l _ => match l with [] => OInsuff 1015000 | _ => OBal [(CP Orchard, 185000)] 15000 end) 8
       ex_db2 [] (Env 160 (Some 159) []) (Some 159) 0 1000000 true true [Sapling; Orchard] (Pol 1 1) true LExclude None None
       (Some (CI 12 100 144 true (Some 144) (Some 15000)))
     = Ok [Step [(Orchard, 2)] 1200000 [] 1000000 [(CP Orchard, 185000)] 15000 (Some 144)].
Proof. vm_compute. split; reflexivity. Qed.

Example C08_nonvacuous_lock :
  match lock_outputs (Some 111) 1 115 [(Sapling, 1)] ex_db with Some db' => map r_lock db' | None => [] end
  = [Some 115; Some 120; None]
  /\ lock_outputs (Some 111) 1 115 [(Sapling, 1); (Sapling, 2)] ex_db = None.
Proof. vm_compute. split; reflexivity. Qed.
