(** C08 — GreedyInputSelector::propose_transaction (shielded selection loop plus the transparent
    gather and re-gather of a TransparentSpendPolicy) and data_api::wallet::propose_transfer. No proofs. *)
From V.Lib Require Import Base.
From V.C08 Require Import Sql Model ModelT.
From V.Gen Require Import C08SqlPred.
Local Open Scope Z_scope.

(** ** GreedyInputSelector::propose_transaction *)

Inductive change_result :=
| OBal (cs : list (cpool * Z)) (fee : Z)
| OInsuff (required : Z)
| ODust (ids : list (pool * Z)) (tids : list Z)
| OErr.

(** selectable_pool_preference, then restricted to the pools the spend policy permits *)
Definition pool_preference (ironwood_active prefer_orchard_family : bool) (permitted : list pool) : list pool :=
  let pref :=
    if prefer_orchard_family
    then (if ironwood_active then [Ironwood] else []) ++ [Orchard; Sapling]
    else [Sapling] ++ (if ironwood_active then [Ironwood] else []) ++ [Orchard] in
  filter (fun p => existsb (pool_eqb p) permitted) pref.

Definition pool_value (sel : list note_row) (p : pool) : Z := sum_values (of_pool p sel).

(** The pools actually spent: the first pool (in preference order) whose selected notes cover the
    required amount alone, else pools accumulated in preference order. *)
Fixpoint accumulate_pools (sel : list note_row) (required running : Z) (prefs : list pool) : list pool :=
  match prefs with
  | [] => []
  | p :: t => if required <=? running then []
              else p :: accumulate_pools sel required (running + pool_value sel p) t
  end.

Definition use_pools (sel : list note_row) (required : Z) (prefs : list pool) : list pool :=
  match find (fun p => required <=? pool_value sel p) prefs with
  | Some p => [p]
  | None => accumulate_pools sel required 0 prefs
  end.

Definition trim (sel : list note_row) (used : list pool) : list note_row :=
  of_pool Sapling (if existsb (pool_eqb Sapling) used then sel else [])
  ++ of_pool Orchard (if existsb (pool_eqb Orchard) used then sel else [])
  ++ of_pool Ironwood (if existsb (pool_eqb Ironwood) used then sel else []).

Section Propose.
  (** The change strategy: any function of the anchor it is given and of the offered inputs. *)
  Variable change : Z -> list note_row -> list utxo_row -> change_result.

  (** The transparent gather of the spend policy ([ton = false]: no TransparentSpendPolicy):
      select_spendable_transparent_outputs for TargetValue::AtLeast of its argument, under the CALL's
      locked-input policy in the initial gather and in the re-gather alike. *)
  Variable ton : bool.
  Variable tgather : Z -> list utxo_row.

  Variable db : list note_row.
  Variable e : env.            (* [e_anchor e] is the anchor the data source selects at for [pol] *)
  Variable acct : Z.
  Variable pay : Z.
  Variable prefs : list pool.
  Variable pol : policy.
  Variable lp : lip.
  Variable iw : bool.          (* Ironwood (NU6.3) active at the target height *)
  Variable step_anchor : Z.    (* the anchor_height argument: what the step binds *)
  Variable single : bool.      (* NoteSelection::PreferSingle *)

  Definition select_all (required : Z) (exclude : list (pool * Z)) : list note_row :=
    match e_anchor e with
    | None => []
    | Some anchor =>
        concat (map (fun p => if existsb (pool_eqb p) prefs
                              then select_matching db e acct p anchor required pol exclude (LFPolicy lp)
                              else []) [Sapling; Orchard; Ironwood])
    end.

  (** select_single_spendable_note: pools in preference order, the first covering note wins *)
  Fixpoint select_single_in (anchor required : Z) (exclude : list (pool * Z)) (ps : list pool) : list note_row :=
    match ps with
    | [] => []
    | p :: t => match select_single_pool db e acct p anchor required pol exclude (LFPolicy lp) with
                | Some r => [r]
                | None => select_single_in anchor required exclude t
                end
    end.

  Definition select_next (required : Z) (exclude : list (pool * Z)) : list note_row :=
    let single_note :=
      if single then match e_anchor e with
                     | None => []
                     | Some anchor => select_single_in anchor required exclude prefs
                     end
      else [] in
    match single_note with
    | [] => select_all required exclude
    | l => l
    end.

  Definition not_dust (tdust : list Z) (u : utxo_row) : bool := negb (existsb (Z.eqb (u_id u)) tdust).

  Fixpoint greedy (fuel : nat) (sel : list note_row) (tins : list utxo_row) (tdust : list Z) (at_gather : Z)
      (prior_available required : Z) (exclude : list (pool * Z)) : outcome step perr :=
    match fuel with
    | O => Err EOutOfFuel
    | S fuel' =>
        let inputs := trim sel (use_pools sel required prefs) in
        let continue (required' : Z) (exclude' : list (pool * Z)) (tins' : list utxo_row) (tdust' : list Z)
                     (at_gather' : Z) (changed : bool) :=
          let sel' := select_next required' exclude' in
          let new_available := sum_values sel' in
          if (new_available <=? prior_available) && negb changed then Err EInsufficient
          else greedy fuel' sel' tins' tdust' at_gather' new_available required' exclude' in
        match change step_anchor inputs tins with
        | OBal cs fee => step_from_parts iw inputs (map u_id tins) (sum_utxos tins) step_anchor pay cs fee
        | ODust ids tids =>
            let tdust' := tdust ++ tids in
            let tins' := filter (not_dust tdust') tins in
            continue required (exclude ++ ids) tins' tdust' at_gather (negb (length tins' =? length tins)%nat)
        | OInsuff req =>
            if ton && (at_gather <? req)
            then continue req exclude (filter (not_dust tdust) (tgather req)) tdust req true
            else continue req exclude tins tdust at_gather false
        | OErr => Err EChange
        end
    end.

  Definition propose_transaction (fuel : nat) : outcome step perr :=
    greedy fuel [] (if ton then tgather pay else []) [] (if ton then pay else 0) 0 0 [].
End Propose.

(** ** propose_transfer *)

(** ZIP 318 canonical denominations {1,2,5} * 10^k within [MAX_RESIDUAL_VALUE, DENOM_CAP]. *)
Definition canonical_denominations : list Z :=
  flat_map (fun k => [1 * 10 ^ k; 2 * 10 ^ k; 5 * 10 ^ k]) [6; 7; 8; 9; 10; 11] ++ [10 ^ 12].

Definition is_canonical_denomination (v : Z) : bool := existsb (Z.eqb v) canonical_denominations.

(** ConfirmationsPolicy::bucketed: the policy whose anchor is one grid interval below the most
    recent boundary at or below the ordinary anchor; None when that is not above [activation]. *)
Definition bucketed (pol : policy) (interval target activation : Z) : option policy :=
  let ordinary := ssub target (p_trusted pol) in
  let most_recent := ordinary - ordinary mod interval in
  if most_recent <? interval then None else
  let boundary := most_recent - interval in
  if boundary <=? activation then None else
  if target <? boundary then None else
  let b := target - boundary in
  if b =? 0 then None else Some (Pol b (Z.max (p_untrusted pol) b)).

(** What the wallet reports about the bucketed attempt (oracle inputs): the ZIP 318 grid, the
    NU6.3 activation height, whether the Orchard anchor at the boundary is computable, the anchor
    the data source selects at under the bucketed policy, and the canonical fee. *)
Record canon_in := CI {
  c_interval : Z; c_activation : Z; c_boundary : Z; c_computable : bool;
  c_sel_anchor : option Z; c_fee : option Z
}.

(** Step::is_canonical_crossing *)
Definition is_canonical_crossing (ci : canon_in) (single_payment orchard_out : bool) (s : step) : bool :=
  (length (filter (fun x => pool_eqb (fst x) Orchard) (s_inputs s)) =? 1)%nat
  && (length (filter (fun x => pool_eqb (fst x) Ironwood) (s_inputs s)) =? 0)%nat
  && (change_count (cpool_is Ironwood) (s_changes s) =? 0)%nat
  && (change_count (cpool_is Orchard) (s_changes s) <=? 1)%nat
  && (change_count (cpool_is Sapling) (s_changes s) =? 0)%nat
  && (change_count (fun c => match c with CT => true | _ => false end) (s_changes s) =? 0)%nat
  && single_payment && orchard_out && is_canonical_denomination (s_pay s)
  && match s_anchor s with Some a => a mod c_interval ci =? 0 | None => false end
  && match c_fee ci with Some f => s_fee s =? f | None => false end.

Definition finish (db : list note_row) (udb : list utxo_row) (e : env) (tip : option Z) (lock : option (Z * Z)) (s : step)
    : outcome (list step) perr :=
  match multi_step [s] with
  | Ok steps =>
      match lock with
      | None => Ok steps
      | Some (owner, for_blocks) =>
          match lock_outputs tip owner (e_target e + for_blocks) (s_inputs s) db with
          | Some _ => if lock_utxos_ok tip owner (s_tins s) udb then Ok steps else Err ELocked
          | None => Err ELocked
          end
      end
  | Err x => Err x
  | Panic => Panic
  end.

(** propose_transfer: heights; when NU6.3 is active and the request is one payment of a
    canonical denomination, first an Orchard-only, single-note-preferring attempt against the
    bucketed anchor, kept only if the step is a canonical crossing; else the ordinary attempt; then
    the optional lock of the selected inputs. [canon = None]: NU6.3 not active. *)
(** [tspend]: the TransparentSpendPolicy of the call: None = no transparent spending;
    Some None = any address of the account; Some (Some l) = only the listed addresses. Non-coinbase
    outputs only (the default CoinbasePolicy). *)
Definition tgather_of (udb : list utxo_row) (acct target_height : Z) (pol : policy) (zero_conf : bool) (lp : lip)
    (tspend : option (option (list Z))) (target : Z) : list utxo_row :=
  match tspend with
  | None => []
  | Some allow => select_transparent udb acct allow target_height pol zero_conf CbNon (Some target) (LFPolicy lp)
  end.

Definition propose_transfer (change : Z -> list note_row -> list utxo_row -> change_result) (fuel : nat)
    (db : list note_row) (udb : list utxo_row) (e : env) (tip : option Z) (acct pay : Z) (single_payment orchard_out : bool)
    (permitted : list pool) (pol : policy) (zero_conf : bool) (lp : lip) (tspend : option (option (list Z)))
    (lock : option (Z * Z)) (canon : option canon_in)
    : outcome (list step) perr :=
  match e_anchor e with
  | None => Err ESyncRequired
  | Some anchor =>
      let iw := match canon with Some _ => true | None => false end in
      let ordinary (_ : unit) :=
        match propose_transaction change (match tspend with Some _ => true | None => false end)
                (tgather_of udb acct (e_target e) pol zero_conf lp tspend)
                db e acct pay (pool_preference iw orchard_out permitted) pol lp iw anchor false fuel with
        | Ok s => finish db udb e tip lock s
        | Err x => Err x
        | Panic => Panic
        end in
      let attempt :=
        match canon with
        | None => None
        | Some ci =>
            if single_payment && is_canonical_denomination pay && existsb (pool_eqb Orchard) permitted then
              match bucketed pol (c_interval ci) (e_target e) (c_activation ci) with
              | Some bp =>
                  let boundary := ssub (e_target e) (p_trusted bp) in
                  if negb (boundary =? c_boundary ci) then Some (Err EOther)   (* oracle mismatch *)
                  else if c_computable ci then
                    (* the orchard-only spend policy of the attempt carries no transparent policy *)
                    Some (propose_transaction change false (fun _ => [])
                            db (Env (e_target e) (c_sel_anchor ci) (e_ranges e)) acct pay
                            (pool_preference true orchard_out [Orchard]) bp lp true boundary true fuel)
                  else None
              | None => None
              end
            else None
        end in
      match attempt with
      | Some (Ok s) =>
          match canon with
          | Some ci => if is_canonical_crossing ci single_payment orchard_out s then finish db udb e tip lock s else ordinary tt
          | None => ordinary tt
          end
      | Some (Err EInsufficient) | None => ordinary tt
      | Some (Err x) => Err x
      | Some Panic => Panic
      end
  end.
