(** C08 — bridge: for select_spendable_notes(AtLeast) cases inside the theorems' domain, agreement
    of the implementation with the model implies the property on the implementation's outcome. *)
From V.Lib Require Import Base.
From V.C08 Require Import Sql Model Spec Corr Wf ProofsSql ProofsSel ProofsProp ProofsGreedy.
From V.Gen Require Import C08SqlPred.
From Coq Require Import ZifyBool Permutation FinFun.
Local Open Scope Z_scope.

Lemma insert_z_perm x l : Permutation (insert_z x l) (x :: l).
Proof.
  induction l as [|y t IH]; cbn; [reflexivity|]. destruct (x <=? y); [reflexivity|].
  rewrite IH. apply perm_swap.
Qed.
Lemma sort_z_perm l : Permutation (sort_z l) l.
Proof. induction l as [|x t IH]; cbn; [reflexivity|]. rewrite insert_z_perm. constructor. exact IH. Qed.

Lemma list_eqb_Z_eq a b : list_eqb Z.eqb a b = true -> a = b.
Proof. apply list_eqb_spec. intros x y. lia. Qed.

Lemma find_row_unique db r :
  NoDup (rrefs db) -> In r db -> find_row db (r_pool r, r_id r) = Some r.
Proof.
  unfold find_row, rrefs. induction db as [|y t IH]; intros Hn Hin; [contradiction|].
  cbn. inversion Hn as [|? ? Hy Ht]; subst.
  destruct (same_ref (r_pool r, r_id r) y) eqn:E.
  - apply same_ref_eq in E. destruct Hin as [->|Hin]; [reflexivity|].
    exfalso. apply Hy. apply in_map_iff. exists r. split; [congruence | exact Hin].
  - destruct Hin as [->|Hin]; [|apply IH; assumption].
    rewrite (proj2 (same_ref_eq _ _) eq_refl) in E. discriminate.
Qed.

Theorem bridge_select_atleast db e acct p z pol exclude lf obs :
  wf_case (CSelect db e acct p (TAtLeast z) pol exclude lf obs) = true ->
  run_case (CSelect db e acct p (TAtLeast z) pol exclude lf obs) = true ->
  prop_case (CSelect db e acct p (TAtLeast z) pol exclude lf obs) = true.
Proof.
  intros Hwf Hrun. cbn [wf_case] in Hwf. rewrite !andb_true_iff in Hwf.
  destruct Hwf as [[[Hdb Hpol] _] _]. unfold wf_db in Hdb. apply andb_true_iff in Hdb. destruct Hdb as [Hnd _].
  apply nodup_refs_spec in Hnd. change (refs_of db) with (rrefs db) in Hnd.
  unfold wf_policy in Hpol. apply andb_true_iff in Hpol. destruct Hpol as [Ht Hu].
  assert (Ht' : 1 <= p_trusted pol) by lia. assert (Hu' : p_trusted pol <= p_untrusted pol) by lia.
  cbn [run_case] in Hrun. unfold select_notes in Hrun. cbn [prop_case].
  destruct (e_anchor e) as [anchor|].
  - destruct obs as [ids|x|]; cbn [outcome_eqb] in Hrun; try discriminate.
    apply list_eqb_Z_eq in Hrun. subst ids.
    set (l := select_matching db e acct p anchor z pol exclude lf) in *.
    assert (Hs : forall r, In r l -> In r db
        /\ spendable (SC acct p (e_target e) anchor (tip_unscanned e p anchor) pol (owners_opt lf)) r = true
        /\ MARGINAL_FEE < r_value r /\ ~ In (r_id r) (excl_ids p exclude))
      by (intros r Hr; eapply select_matching_sound; eassumption).
    assert (Hn : NoDup (map r_id l)) by (apply select_matching_nodup; exact Hnd).
    assert (Hids : forall i, In i (sort_z (map r_id l)) -> exists r, In r l /\ r_id r = i).
    { intros i Hi. apply (Permutation_in _ (sort_z_perm _)) in Hi. apply in_map_iff in Hi.
      destruct Hi as [r [Hr Hi]]. exists r. split; assumption. }
    assert (Hpool : forall r, In r l -> r_pool r = p).
    { intros r Hr. destruct (Hs r Hr) as [_ [Hsp _]]. unfold spendable in Hsp. rewrite !andb_true_iff in Hsp.
      apply pool_eqb_eq. cbn in Hsp. tauto. }
    rewrite !andb_true_iff. split; [split|].
    + apply nodup_refs_spec. apply Injective_map_NoDup; [intros a b H; inversion H; reflexivity|].
      eapply Permutation_NoDup; [symmetry; apply sort_z_perm | exact Hn].
    + unfold all_spendable. apply forallb_forall. intros x Hx. apply in_map_iff in Hx.
      destruct Hx as [i [<- Hi]]. destruct (Hids i Hi) as [r [Hr <-]].
      destruct (Hs r Hr) as [Hdb [Hsp _]]. cbn [fst].
      rewrite <- (Hpool r Hr) at 1. rewrite (find_row_unique db r Hnd Hdb).
      destruct lf; exact Hsp.
    + apply forallb_forall. intros i Hi. destruct (Hids i Hi) as [r [Hr <-]].
      destruct (Hs r Hr) as [_ [_ [_ Hex]]]. apply negb_true_iff.
      destruct (existsb (ref_eqb (p, r_id r)) exclude) eqn:E; [|reflexivity]. exfalso. apply Hex.
      apply existsb_exists in E. destruct E as [y [Hy He]]. apply ref_eqb_eq in He. subst y.
      unfold excl_ids. apply in_map_iff. exists (p, r_id r). split; [reflexivity|].
      apply filter_In. split; [exact Hy | apply pool_eqb_eq; reflexivity].
  - destruct obs as [ids|x|]; cbn [outcome_eqb] in Hrun; try discriminate.
    cbn in Hrun. destruct ids; [reflexivity | discriminate].
Qed.
