(** C08 — bridge: for select_spendable_notes(AtLeast) cases inside the theorems' domain, agreement
    of the implementation with the model implies the property on the implementation's outcome. *)
From V.Lib Require Import Base.
From V.C08 Require Import Sql Model ModelT ModelP Spec Corr Wf ProofsSql ProofsSel ProofsProp ProofsT ProofsGreedy.
From V.Gen Require Import C08SqlPred.
From Coq Require Import ZifyBool Permutation FinFun.
Local Open Scope Z_scope.

Lemma insert_z_perm x l : Permutation (insert_z x l) (x :: l).
Proof.
  induction l as [|y t IH]; cbn; [reflexivity|]. destruct (x <=? y); [reflexivity|].
  rewrite IH. apply perm_swap.
Qed.
Lemma sort_z_perm l : Permutation (sort_z l) l.
Proof. induction l as [|x t IH]; cbn; [reflexivity|]. rewrite insert_z_perm. constructor. exact IH. Qed.

Lemma list_eqb_Z_eq a b : list_eqb Z.eqb a b = true -> a = b.
Proof. apply list_eqb_spec. intros x y. lia. Qed.

Lemma find_row_unique db r :
  NoDup (rrefs db) -> In r db -> find_row db (r_pool r, r_id r) = Some r.
Proof.
  unfold find_row, rrefs. induction db as [|y t IH]; intros Hn Hin; [contradiction|].
  cbn. inversion Hn as [|? ? Hy Ht]; subst.
  destruct (same_ref (r_pool r, r_id r) y) eqn:E.
  - apply same_ref_eq in E. destruct Hin as [->|Hin]; [reflexivity|].
    exfalso. apply Hy. apply in_map_iff. exists r. split; [congruence | exact Hin].
  - destruct Hin as [->|Hin]; [|apply IH; assumption].
    rewrite (proj2 (same_ref_eq _ _) eq_refl) in E. discriminate.
Qed.

Theorem bridge_select_atleast db e acct p z pol exclude lf obs :
  wf_case (CSelect db e acct p (TAtLeast z) pol exclude lf obs) = true ->
  run_case (CSelect db e acct p (TAtLeast z) pol exclude lf obs) = true ->
  prop_case (CSelect db e acct p (TAtLeast z) pol exclude lf obs) = true.
Proof.
  intros Hwf Hrun. cbn [wf_case] in Hwf. rewrite !andb_true_iff in Hwf.
  destruct Hwf as [[[Hdb Hpol] _] _]. unfold wf_db in Hdb. apply andb_true_iff in Hdb. destruct Hdb as [Hnd _].
  apply nodup_refs_spec in Hnd. change (refs_of db) with (rrefs db) in Hnd.
  unfold wf_policy in Hpol. apply andb_true_iff in Hpol. destruct Hpol as [Ht Hu].
  assert (Ht' : 1 <= p_trusted pol) by lia. assert (Hu' : p_trusted pol <= p_untrusted pol) by lia.
  cbn [run_case] in Hrun. unfold select_notes in Hrun. unfold prop_case; cbn [prop_case_s prop_case_t]; rewrite andb_true_r.
  destruct (e_anchor e) as [anchor|].
  - destruct obs as [ids|x|]; cbn [outcome_eqb] in Hrun; try discriminate.
    apply list_eqb_Z_eq in Hrun. subst ids.
    set (l := select_matching db e acct p anchor z pol exclude lf) in *.
    assert (Hs : forall r, In r l -> In r db
        /\ spendable (SC acct p (e_target e) anchor (tip_unscanned e p anchor) pol (owners_opt lf)) r = true
        /\ MARGINAL_FEE < r_value r /\ ~ In (r_id r) (excl_ids p exclude))
      by (intros r Hr; eapply select_matching_sound; eassumption).
    assert (Hn : NoDup (map r_id l)) by (apply select_matching_nodup; exact Hnd).
    assert (Hids : forall i, In i (sort_z (map r_id l)) -> exists r, In r l /\ r_id r = i).
    { intros i Hi. apply (Permutation_in _ (sort_z_perm _)) in Hi. apply in_map_iff in Hi.
      destruct Hi as [r [Hr Hi]]. exists r. split; assumption. }
    assert (Hpool : forall r, In r l -> r_pool r = p).
    { intros r Hr. destruct (Hs r Hr) as [_ [Hsp _]]. unfold spendable in Hsp. rewrite !andb_true_iff in Hsp.
      apply pool_eqb_eq. cbn in Hsp. tauto. }
    rewrite !andb_true_iff. split; [split|].
    + apply nodup_refs_spec. apply Injective_map_NoDup; [intros a b H; inversion H; reflexivity|].
      eapply Permutation_NoDup; [symmetry; apply sort_z_perm | exact Hn].
    + unfold all_spendable. apply forallb_forall. intros x Hx. apply in_map_iff in Hx.
      destruct Hx as [i [<- Hi]]. destruct (Hids i Hi) as [r [Hr <-]].
      destruct (Hs r Hr) as [Hdb [Hsp _]]. cbn [fst].
      rewrite <- (Hpool r Hr) at 1. rewrite (find_row_unique db r Hnd Hdb).
      destruct lf; exact Hsp.
    + apply forallb_forall. intros i Hi. destruct (Hids i Hi) as [r [Hr <-]].
      destruct (Hs r Hr) as [_ [_ [_ Hex]]]. apply negb_true_iff.
      destruct (existsb (ref_eqb (p, r_id r)) exclude) eqn:E; [|reflexivity]. exfalso. apply Hex.
      apply existsb_exists in E. destruct E as [y [Hy He]]. apply ref_eqb_eq in He. subst y.
      unfold excl_ids. apply in_map_iff. exists (p, r_id r). split; [reflexivity|].
      apply filter_In. split; [exact Hy | apply pool_eqb_eq; reflexivity].
  - destruct obs as [ids|x|]; cbn [outcome_eqb] in Hrun; try discriminate.
    cbn in Hrun. destruct ids; [reflexivity | discriminate].
Qed.

(** ** lock_outputs cases *)

Lemma spender_eqb_eq a b : spender_eqb a b = true <-> a = b.
Proof.
  destruct a as [a1 a2 a3], b as [b1 b2 b3]. unfold spender_eqb. cbn.
  rewrite !andb_true_iff, !(option_eqb_spec Z.eqb Z.eqb_eq), Z.eqb_eq.
  split; [intros [[-> ->] ->]; reflexivity | intros H; inversion H; auto].
Qed.

Lemma row_eqb_eq a b : row_eqb a b = true <-> a = b.
Proof.
  destruct a, b. unfold row_eqb. cbn.
  rewrite !andb_true_iff, !(option_eqb_spec Z.eqb Z.eqb_eq), !Z.eqb_eq, !Bool.eqb_true_iff, pool_eqb_eq,
    (list_eqb_spec spender_eqb spender_eqb_eq).
  split.
  - intros H. repeat match goal with H : _ /\ _ |- _ => destruct H end. subst. reflexivity.
  - intros H. inversion H. subst. repeat split; reflexivity.
Qed.

Lemma rows_eqb_eq a b : list_eqb row_eqb a b = true <-> a = b.
Proof. apply list_eqb_spec. exact row_eqb_eq. Qed.

Definition in_refs (refs : list (pool * Z)) (r : note_row) : bool := existsb (fun x => same_ref x r) refs.

Lemma same_ref_set_lock x o ex r : same_ref x (set_lock o ex r) = same_ref x r.
Proof. reflexivity. Qed.

Lemma unique_row db r r0 :
  NoDup (rrefs db) -> In r db -> In r0 db -> (r_pool r, r_id r) = (r_pool r0, r_id r0) -> r = r0.
Proof.
  unfold rrefs. induction db as [|y t IH]; intros Hn Hin Hin0 E; [contradiction|].
  cbn in Hn. inversion Hn as [|? ? Hy Ht]; subst.
  destruct Hin as [->|Hin], Hin0 as [->|Hin0]; [reflexivity | | | apply IH; assumption].
  - exfalso. apply Hy. apply in_map_iff. exists r0. split; [congruence | exact Hin0].
  - exfalso. apply Hy. apply in_map_iff. exists r. split; [congruence | exact Hin].
Qed.

Lemma lock_outputs_char tip owner expiry refs : forall db db',
  NoDup (rrefs db) ->
  lock_outputs tip owner expiry refs db = Some db' ->
  db' = map (fun r => if in_refs refs r then set_lock owner expiry r else r) db
  /\ (forall r, In r db -> in_refs refs r = true -> lockable_spec tip owner r = true)
  /\ (forall x, In x refs -> exists r, In r db /\ same_ref x r = true).
Proof.
  induction refs as [|x t IH]; intros db db' Hn H; cbn in H.
  - inversion H; subst. split; [symmetry; apply map_id|]. split; [intros r _ Hr; discriminate | intros x []].
  - destruct (lock_one tip owner expiry x db) as [db1|] eqn:E; [|discriminate].
    pose proof (lock_one_refs _ _ _ _ _ _ E) as Hr1.
    assert (Hn1 : NoDup (rrefs db1)) by (rewrite Hr1; exact Hn).
    destruct (IH db1 db' Hn1 H) as [Hdb' [Hlk Hfound]].
    unfold lock_one in E. destruct (existsb _ db) eqn:Ex; [|discriminate]. inversion E; subst db1. clear E.
    apply existsb_exists in Ex. destruct Ex as [r0 [Hr0 Ex]]. apply andb_true_iff in Ex. destruct Ex as [Es El].
    assert (Huniq : forall r, In r db -> same_ref x r = true -> r = r0).
    { intros r Hr Hs. apply same_ref_eq in Hs, Es. apply (unique_row db r r0 Hn Hr Hr0). rewrite <- Hs. exact Es. }
    split; [|split].
    + rewrite Hdb', map_map. apply map_ext_in. intros r Hr. cbn [in_refs existsb].
      destruct (same_ref x r) eqn:Sx.
      * assert (r = r0) by (apply Huniq; assumption). subst r. rewrite El. cbn [andb orb].
        destruct (in_refs t (set_lock owner expiry r0)); reflexivity.
      * cbn [andb orb]. reflexivity.
    + intros r Hr Hin. cbn [in_refs existsb] in Hin. destruct (same_ref x r) eqn:Sx.
      * rewrite (Huniq r Hr Sx). rewrite <- lockable_is_spec. exact El.
      * cbn [orb] in Hin. apply Hlk; [|exact Hin].
        apply in_map_iff. exists r. rewrite Sx. cbn [andb]. split; [reflexivity | exact Hr].
    + intros y [<-|Hy]; [exists r0; split; assumption|].
      destruct (Hfound y Hy) as [r1 [Hr1in Hs1]]. apply in_map_iff in Hr1in. destruct Hr1in as [r [Hr Hin]].
      exists r. split; [exact Hin|]. subst r1. destruct (same_ref x r && lockable tip owner r); exact Hs1.
Qed.

Lemma lockable_spec_not_stolen tip owner r :
  match r_lock r with Some h => 0 <= h | None => True end ->
  lockable_spec tip owner r = true ->
  not_locked_by_other (match tip with Some t => t + 1 | None => 0 end) [owner] r = true.
Proof.
  unfold lockable_spec, not_locked_by_other. destruct (r_lock r) as [h|]; [|reflexivity].
  intros Hh. destruct tip as [t|], (r_owner r) as [o|]; cbn; lia.
Qed.

Theorem bridge_lock db tip refs owner expiry obs post :
  wf_case (CLock db tip refs owner expiry obs post) = true ->
  run_case (CLock db tip refs owner expiry obs post) = true ->
  prop_case (CLock db tip refs owner expiry obs post) = true.
Proof.
  intros Hwf Hrun. cbn [wf_case] in Hwf. unfold wf_db in Hwf. apply andb_true_iff in Hwf. destruct Hwf as [Hnd Hrows].
  apply nodup_refs_spec in Hnd. change (refs_of db) with (rrefs db) in Hnd.
  cbn [run_case] in Hrun. unfold prop_case; cbn [prop_case_s prop_case_t]; rewrite andb_true_r.
  destruct (lock_outputs tip owner expiry refs db) as [db'|] eqn:E.
  - destruct obs as [n|x|]; try discriminate.
    apply andb_true_iff in Hrun. destruct Hrun as [Hn Hpost]. apply rows_eqb_eq in Hpost. subst post.
    destruct (lock_outputs_char _ _ _ _ _ _ Hnd E) as [-> [Hlk Hfound]].
    rewrite !andb_true_iff. split; [split; [split|]|].
    + exact Hn.
    + rewrite map_length. apply Nat.eqb_refl.
    + clear E. rewrite forallb_forall in Hrows.
      assert (Hall : forall l, (forall r, In r l -> In r db) ->
        forallb (fun rr : note_row * note_row => let '(r, r') := rr in
           if existsb (fun x => same_ref x r) refs
           then row_eqb r' (set_lock owner expiry r)
                && not_locked_by_other (match tip with Some t => t + 1 | None => 0 end) [owner] r
           else row_eqb r' r)
          (combine l (map (fun r => if in_refs refs r then set_lock owner expiry r else r) l)) = true).
      { induction l as [|r t IH]; intros Hsub; [reflexivity|]. cbn [map combine forallb].
        rewrite IH by (intros y Hy; apply Hsub; right; exact Hy). rewrite andb_true_r.
        unfold in_refs. destruct (existsb (fun x => same_ref x r) refs) eqn:Ex.
        - rewrite (proj2 (row_eqb_eq _ _) eq_refl). cbn [andb].
          apply lockable_spec_not_stolen; [|apply Hlk; [apply Hsub; left; reflexivity | exact Ex]].
          specialize (Hrows r (Hsub r (or_introl eq_refl))). unfold wf_row in Hrows.
          rewrite !andb_true_iff in Hrows. destruct (r_lock r); [lia | exact I].
        - apply row_eqb_eq. reflexivity. }
      apply Hall. intros r Hr; exact Hr.
    + apply forallb_forall. intros x Hx. destruct (Hfound x Hx) as [r [Hr Hs]].
      unfold find_row. destruct (find (same_ref x) db) eqn:F; [reflexivity|].
      exfalso. pose proof (find_none _ _ F r Hr). congruence.
  - destruct obs as [n|x|]; try discriminate. exact Hrun.
Qed.

(** ** propose_transfer cases *)
From V.C08 Require Import ProofsAnchor.

Lemma insert_ref_perm x l : Permutation (insert_ref x l) (x :: l).
Proof.
  induction l as [|y t IH]; cbn; [reflexivity|]. destruct (ref_leb x y); [reflexivity|].
  rewrite IH. apply perm_swap.
Qed.
Lemma sort_refs_perm l : Permutation (sort_refs l) l.
Proof. induction l as [|x t IH]; cbn; [reflexivity|]. rewrite insert_ref_perm. constructor. exact IH. Qed.

Lemma refs_eqb_eq a b : refs_eqb a b = true -> a = b.
Proof. apply list_eqb_spec. exact ref_eqb_eq. Qed.

Lemma value_of_refs_perm db a b : Permutation a b -> value_of_refs db a = value_of_refs db b.
Proof.
  unfold value_of_refs. induction 1; cbn; try lia.
  - destruct (find_row db x); lia.
  - destruct (find_row db x), (find_row db y); lia.
Qed.

Lemma value_of_rrefs db inputs :
  NoDup (rrefs db) -> (forall r, In r inputs -> In r db) -> value_of_refs db (rrefs inputs) = sum_values inputs.
Proof.
  intros Hn. induction inputs as [|r t IH]; intros Hsub; [reflexivity|].
  change (value_of_refs db (rrefs (r :: t)))
    with (match find_row db (r_pool r, r_id r) with
          | Some r0 => r_value r0 + value_of_refs db (rrefs t)
          | None => value_of_refs db (rrefs t) end).
  rewrite (find_row_unique db r Hn (Hsub r (or_introl eq_refl))).
  rewrite IH by (intros y Hy; apply Hsub; right; exact Hy). reflexivity.
Qed.

Lemma spendable_policy_mono acct p t a tu pol pol' o r :
  p_trusted pol <= p_trusted pol' -> p_untrusted pol <= p_untrusted pol' ->
  spendable (SC acct p t a tu pol' o) r = true -> spendable (SC acct p t a tu pol o) r = true.
Proof.
  intros H1 H2. unfold spendable. cbn [sc_acct sc_pool sc_target sc_pol sc_anchor sc_tipuns sc_owners].
  rewrite !andb_true_iff. intros [[[[[[Ha Hp] Hu] Hc] Hm] Hw] Hl].
  repeat split; try assumption. eapply confirmed_mono; eassumption.
Qed.


(** ** transparent cases *)
From V.C08 Require Import ModelT ProofsT.

Lemma nodup_z_spec l : nodup_z l = true <-> NoDup l.
Proof.
  induction l as [|x t IH]; cbn; [split; [constructor | reflexivity]|].
  rewrite andb_true_iff, negb_true_iff, IH. split.
  - intros [H1 H2]. constructor; [|exact H2]. intros Hin.
    assert (existsb (Z.eqb x) t = true) by (apply existsb_exists; exists x; split; [exact Hin | lia]). congruence.
  - intros H. inversion H as [|? ? Hn Ht]; subst. split; [|exact Ht].
    destruct (existsb (Z.eqb x) t) eqn:E; [|reflexivity]. exfalso. apply Hn.
    apply existsb_exists in E. destruct E as [y [Hy He]]. replace x with y by lia. exact Hy.
Qed.

Lemma find_utxo_unique udb u : NoDup (map u_id udb) -> In u udb -> find_utxo udb (u_id u) = Some u.
Proof.
  unfold find_utxo. induction udb as [|y t IH]; intros Hn Hin; [contradiction|].
  cbn. inversion Hn as [|? ? Hy Ht]; subst. destruct (u_id y =? u_id u) eqn:E.
  - destruct Hin as [->|Hin]; [reflexivity|]. exfalso. apply Hy. apply in_map_iff. exists u. split; [lia | exact Hin].
  - destruct Hin as [->|Hin]; [lia | apply IH; assumption].
Qed.

Theorem bridge_tselect udb target addrs pol zc f lf obs :
  wf_case (CTSelect udb target addrs pol zc f lf obs) = true ->
  run_case (CTSelect udb target addrs pol zc f lf obs) = true ->
  prop_case (CTSelect udb target addrs pol zc f lf obs) = true.
Proof.
  intros Hwf Hrun. cbn [wf_case] in Hwf. apply andb_true_iff in Hwf. destruct Hwf as [Hnd _].
  apply nodup_z_spec in Hnd. cbn [run_case] in Hrun. unfold prop_case. cbn [prop_case_s prop_case_t andb].
  destruct obs as [ids|x|]; cbn [outcome_eqb] in Hrun; try discriminate.
  apply list_eqb_Z_eq in Hrun. subst ids.
  set (l := select_utxos udb target addrs pol zc f lf) in *.
  apply andb_true_iff. split.
  - apply nodup_z_spec. eapply Permutation_NoDup; [symmetry; apply sort_z_perm|]. apply select_utxos_nodup. exact Hnd.
  - apply forallb_forall. intros i Hi. apply (Permutation_in _ (sort_z_perm _)) in Hi.
    apply in_map_iff in Hi. destruct Hi as [u [<- Hu]]. apply select_utxos_sound in Hu. destruct Hu as [Hin Hs].
    rewrite (find_utxo_unique udb u Hnd Hin). destruct lf; exact Hs.
Qed.

Lemma propose_shielding_no_panic change udb e tip threshold addrs pol zc f lp iw lock :
  propose_shielding change udb e tip threshold addrs pol zc f lp iw lock <> Panic.
Proof.
  unfold propose_shielding. destruct (e_anchor e); [|discriminate].
  unfold gather. destruct (_ && _); [discriminate|].
  unfold shielding_balance. destruct (change _) as [cs fee|r|d|]; try discriminate.
  - destruct (_ <=? _); [|discriminate]. unfold shield_step.
    destruct (_ =? 0); [discriminate|]. destruct (iw && _); [discriminate|]. destruct (_ =? _); [|discriminate].
    destruct lock as [[o fb]|]; [destruct (lock_utxos_ok _ _ _ _)|]; discriminate.
  - destruct (change _) as [cs fee| | |]; try discriminate.
    destruct (_ <=? _); [|discriminate]. unfold shield_step.
    destruct (_ =? 0); [discriminate|]. destruct (iw && _); [discriminate|]. destruct (_ =? _); [|discriminate].
    destruct lock as [[o fb]|]; [destruct (lock_utxos_ok _ _ _ _)|]; discriminate.
Qed.

Lemma sum_utxos_nonneg l : (forall u, In u l -> 0 <= u_value u) -> 0 <= sum_utxos l.
Proof.
  unfold sum_utxos. induction l as [|x t IH]; intros Hv; cbn; [lia|].
  specialize (Hv x (or_introl eq_refl)) as Hx.
  assert (0 <= fold_right (fun u a => u_value u + a) 0 t) by (apply IH; intros u Hu; apply Hv; right; exact Hu). lia.
Qed.

Lemma sum_utxos_pos inputs :
  (forall u, In u inputs -> 5000 < u_value u) -> sum_utxos inputs <> 0 -> 0 < sum_utxos inputs.
Proof.
  intros Hv Hne. assert (0 <= sum_utxos inputs); [|lia].
  apply sum_utxos_nonneg. intros u Hu. specialize (Hv u Hu). lia.
Qed.

Lemma value_of_utxo_ids udb inputs :
  NoDup (map u_id udb) -> (forall u, In u inputs -> In u udb) ->
  fold_right (fun i a => match find_utxo udb i with Some u => u_value u + a | None => a end) 0 (map u_id inputs)
  = sum_utxos inputs.
Proof.
  intros Hn. unfold sum_utxos. induction inputs as [|x t IH]; intros Hsub; [reflexivity|]. cbn [map fold_right].
  rewrite (find_utxo_unique udb x Hn (Hsub x (or_introl eq_refl))).
  rewrite IH by (intros y Hy; apply Hsub; right; exact Hy). reflexivity.
Qed.

Lemma fold_ids_perm udb a b : Permutation a b ->
  fold_right (fun i acc => match find_utxo udb i with Some u => u_value u + acc | None => acc end) 0 a
  = fold_right (fun i acc => match find_utxo udb i with Some u => u_value u + acc | None => acc end) 0 b.
Proof.
  induction 1; cbn; try lia.
  - destruct (find_utxo udb x); lia.
  - destruct (find_utxo udb x), (find_utxo udb y); lia.
Qed.

Theorem bridge_shield udb e threshold addrs pol zc f lp iw lock oracle obs :
  wf_case (CShield udb e threshold addrs pol zc f lp iw lock oracle obs) = true ->
  run_case (CShield udb e threshold addrs pol zc f lp iw lock oracle obs) = true ->
  prop_case (CShield udb e threshold addrs pol zc f lp iw lock oracle obs) = true.
Proof.
  intros Hwf Hrun. cbn [wf_case] in Hwf. rewrite !andb_true_iff in Hwf. destruct Hwf as [[Hnd _] _].
  apply nodup_z_spec in Hnd. cbn [run_case] in Hrun. unfold prop_case. cbn [prop_case_s prop_case_t andb].
  destruct (propose_shielding (toracle_fn oracle) udb e (Some (e_target e - 1)) threshold addrs pol zc f lp iw lock)
    as [steps_m|x|] eqn:E; destruct obs as [steps_o|y|]; cbn [outcome_eqb] in Hrun; try discriminate; try reflexivity;
    [|exfalso; eapply propose_shielding_no_panic; exact E].
  destruct (propose_shielding_sound _ _ _ _ _ _ _ _ _ _ _ _ _ Hnd E) as [sm [-> Hok]].
  destruct steps_o as [|so [|? ?]]; cbn [list_eqb] in Hrun; try discriminate;
    [|rewrite andb_false_r in Hrun; discriminate].
  rewrite andb_true_r in Hrun. unfold step_eqb in Hrun. rewrite !andb_true_iff in Hrun.
  destruct Hrun as [[[[[[Hin Hval] Htin] Hpay] Hch] Hfee] Hanc].
  destruct Hok as [inputs [Hi [Hti [Hni [Hrows [Hv [Hne [Hp [Hbal [Hth Ha]]]]]]]]]].
  apply refs_eqb_eq in Hin. rewrite Hi in Hin. cbn in Hin.
  assert (Hso_in : s_inputs so = []).
  { pose proof (sort_refs_perm (s_inputs so)) as P. rewrite <- Hin in P. apply Permutation_nil in P. exact P. }
  apply list_eqb_Z_eq in Htin.
  assert (Hperm : Permutation (s_tins so) (map u_id inputs)).
  { rewrite <- (sort_z_perm (s_tins so)), <- Htin, Hti. apply sort_z_perm. }
  assert (Hchs : s_changes sm = s_changes so).
  { apply (list_eqb_spec (fun x y => cpool_eqb (fst x) (fst y) && (snd x =? snd y))); [|exact Hch].
    intros [c1 v1] [c2 v2]. cbn. rewrite andb_true_iff.
    split; [intros [H1 H2]; f_equal; [|lia]; destruct c1, c2; cbn in H1; try discriminate; [apply pool_eqb_eq in H1; congruence | reflexivity]
           | intros H; inversion H; subst; split; [destruct c2; cbn; [apply pool_eqb_eq; reflexivity | reflexivity] | lia]]. }
  rewrite Hso_in. rewrite !andb_true_iff. cbn [andb]. repeat split.
  - apply nodup_z_spec. eapply Permutation_NoDup; [symmetry; exact Hperm | exact Hni].
  - apply forallb_forall. intros i Hi'. apply (Permutation_in _ Hperm) in Hi'. apply in_map_iff in Hi'.
    destruct Hi' as [u [<- Hu]]. destruct (Hrows u Hu) as [Hdb Hs]. rewrite (find_utxo_unique udb u Hnd Hdb). exact Hs.
  - rewrite (fold_ids_perm udb _ _ Hperm), value_of_utxo_ids; [lia | exact Hnd | intros u Hu; apply Hrows; exact Hu].
  - assert (0 < sum_utxos inputs); [|lia]. apply sum_utxos_pos; [|lia].
    intros u Hu. destruct (Hrows u Hu) as [_ Hs]. unfold utxo_spendable in Hs. rewrite !andb_true_iff in Hs. lia.
  - lia.
  - unfold step_balanced, s_change in *. rewrite <- Hchs. lia.
  - unfold s_change in *. rewrite <- Hchs. lia.
Qed.

(** ** store cases *)
Theorem bridge_store db udb target refs tids post upost :
  run_case (CStore db udb target refs tids post upost) = true ->
  prop_case (CStore db udb target refs tids post upost) = true.
Proof.
  intros Hrun. cbn [run_case] in Hrun. apply andb_true_iff in Hrun. destruct Hrun as [Hn Hu].
  unfold prop_case. cbn [prop_case_s prop_case_t andb]. apply andb_true_iff. split.
  - apply forallb_forall. intros r Hr. rewrite forallb_forall in Hn. specialize (Hn r Hr).
    destruct (live_lock target (r_lock r) && negb (spent_by refs r)) eqn:E; [|reflexivity].
    apply andb_true_iff in E. destruct E as [_ E]. apply negb_true_iff in E. rewrite E in Hn.
    destruct (find_row post (r_pool r, r_id r)) as [r'|]; [|discriminate].
    unfold lock_agrees in Hn. rewrite !andb_true_iff in Hn. rewrite andb_true_iff. tauto.
  - apply forallb_forall. intros u Hu'. rewrite forallb_forall in Hu. specialize (Hu u Hu').
    destruct (live_lock target (u_lock u) && negb (u_spent_by tids u)) eqn:E; [|reflexivity].
    apply andb_true_iff in E. destruct E as [_ E]. apply negb_true_iff in E. rewrite E in Hu.
    destruct (find_utxo upost (u_id u)) as [u'|]; [|discriminate].
    unfold u_lock_agrees in Hu. rewrite !andb_true_iff in Hu. rewrite andb_true_iff. tauto.
Qed.

(** ** propose_transfer cases (continued: the bridge) *)
Lemma greedy_no_panic change ton tg db e acct pay prefs pol lp iw sa single fuel : forall sel tins tdust ag prior req excl,
  greedy change ton tg db e acct pay prefs pol lp iw sa single fuel sel tins tdust ag prior req excl <> Panic.
Proof.
  induction fuel as [|f IH]; intros sel tins tdust ag prior req excl; cbn [greedy]; [discriminate|].
  destruct (change sa _ _); try discriminate.
  - unfold step_from_parts. destruct (iw && _ && _); [discriminate|]. destruct (_ =? _); discriminate.
  - destruct (ton && _); (match goal with |- (if ?c then _ else _) <> _ => destruct c end; [discriminate | apply IH]).
  - match goal with |- (if ?c then _ else _) <> _ => destruct c end; [discriminate | apply IH].
Qed.

Lemma finish_no_panic db udb e tip lock s : finish db udb e tip lock s <> Panic.
Proof.
  unfold finish, multi_step. destruct (nodup_refs _); [|discriminate].
  destruct lock as [[o fb]|]; [destruct (lock_outputs _ _ _ _ _); [destruct (lock_utxos_ok _ _ _ _)|]|]; discriminate.
Qed.

Lemma propose_transfer_no_panic change fuel db udb e tip acct pay sp oo permitted pol zc lp tspend lock canon :
  propose_transfer change fuel db udb e tip acct pay sp oo permitted pol zc lp tspend lock canon <> Panic.
Proof.
  unfold propose_transfer. destruct (e_anchor e) as [anchor|]; [|discriminate]. cbv zeta.
  assert (Hord : forall iw,
    match propose_transaction change (match tspend with Some _ => true | None => false end)
            (tgather_of udb acct (e_target e) pol zc lp tspend) db e acct pay (pool_preference iw oo permitted) pol lp iw anchor false fuel with
    | Ok s => finish db udb e tip lock s | Err x => Err x | Panic => Panic end <> Panic).
  { intros iw. destruct (propose_transaction _ _ _ _ _ _ _ _ _ _ _ _ _ _) eqn:E;
      [apply finish_no_panic | discriminate | exfalso; eapply greedy_no_panic; exact E]. }
  destruct canon as [ci|]; [|apply Hord].
  destruct (sp && is_canonical_denomination pay && existsb (pool_eqb Orchard) permitted); [|apply Hord].
  destruct (bucketed pol (c_interval ci) (e_target e) (c_activation ci)) as [bp|]; [|apply Hord].
  destruct (negb (ssub (e_target e) (p_trusted bp) =? c_boundary ci)); [discriminate|].
  destruct (c_computable ci); [|apply Hord].
  destruct (propose_transaction change false (fun _ => []) db (Env (e_target e) (c_sel_anchor ci) (e_ranges e)) acct pay
              (pool_preference true oo [Orchard]) bp lp true (ssub (e_target e) (p_trusted bp)) true fuel) as [s|x|] eqn:E2.
  - destruct (is_canonical_crossing ci sp oo s); [apply finish_no_panic | apply Hord].
  - destruct x; try discriminate; apply Hord.
  - exfalso. eapply greedy_no_panic. exact E2.
Qed.

(** The data source's anchor under the bucketed policy is the boundary itself (a checkpoint exists
    there for every tree it consults). *)
Definition canon_sel_at_boundary (c : case) : bool :=
  match c with
  | CPropose _ _ _ _ _ _ _ _ _ _ _ _ _ (Some ci) _ _ =>
      (0 <? c_interval ci)
      && match c_sel_anchor ci with Some sa => sa =? c_boundary ci | None => true end
  | _ => true
  end.

Theorem bridge_propose db udb e acct pay sp oo permitted pol zc lp tspend lock canon oracle obs :
  wf_case (CPropose db udb e acct pay sp oo permitted pol zc lp tspend lock canon oracle obs) = true ->
  canon_sel_at_boundary (CPropose db udb e acct pay sp oo permitted pol zc lp tspend lock canon oracle obs) = true ->
  run_case (CPropose db udb e acct pay sp oo permitted pol zc lp tspend lock canon oracle obs) = true ->
  prop_case (CPropose db udb e acct pay sp oo permitted pol zc lp tspend lock canon oracle obs) = true.
Proof.
  intros Hwf Hcs Hrun. cbn [wf_case] in Hwf. rewrite !andb_true_iff in Hwf.
  destruct Hwf as [[[[[[Hdb Hpol] _] _] _] Hnu] _]. unfold wf_db in Hdb. apply andb_true_iff in Hdb. destruct Hdb as [Hnd _].
  apply nodup_refs_spec in Hnd. change (refs_of db) with (rrefs db) in Hnd. apply nodup_z_spec in Hnu.
  unfold wf_policy in Hpol. apply andb_true_iff in Hpol. destruct Hpol as [Ht Hu].
  assert (Ht' : 1 <= p_trusted pol) by lia. assert (Hu' : p_trusted pol <= p_untrusted pol) by lia.
  cbn [run_case] in Hrun. unfold prop_case; cbn [prop_case_s prop_case_t]; rewrite andb_true_r.
  destruct (propose_transfer (oracle_fn oracle) FUEL db udb e (Some (e_target e - 1)) acct pay sp oo permitted pol zc lp tspend lock canon)
    as [steps_m|x|] eqn:E; destruct obs as [steps_o|y|]; cbn [outcome_eqb] in Hrun; try discriminate; try reflexivity;
    [|exfalso; eapply propose_transfer_no_panic; exact E].
  assert (Hci : forall ci, canon = Some ci -> 0 < c_interval ci).
  { intros ci ->. cbn in Hcs. apply andb_true_iff in Hcs. lia. }
  destruct (propose_transfer_sound _ _ _ _ _ _ _ _ _ _ _ _ _ _ _ _ _ _ Hnd Hnu Ht' Hu' Hci E) as [Hndm Horig].
  (* the model returns exactly one step *)
  assert (exists sm, steps_m = [sm]) as [sm ->].
  { unfold propose_transfer in E. destruct (e_anchor e); [|discriminate].
    assert (Hfin : forall s r, finish db udb e (Some (e_target e - 1)) lock s = Ok r -> exists sm, r = [sm])
      by (intros s r Hf; apply finish_steps in Hf; destruct Hf as [-> _]; eexists; reflexivity).
    repeat match type of E with
    | match ?X with _ => _ end = _ => destruct X eqn:?; try discriminate; try (eapply Hfin; eassumption)
    end. }
  destruct steps_o as [|so [|? ?]]; cbn [list_eqb] in Hrun; try discriminate;
    [|rewrite andb_false_r in Hrun; discriminate].
  rewrite andb_true_r in Hrun. unfold step_eqb in Hrun. rewrite !andb_true_iff in Hrun.
  destruct Hrun as [[[[[[Hin Hval] Htin] Hpay] Hch] Hfee] Hanc].
  apply refs_eqb_eq in Hin.
  assert (Hperm : Permutation (s_inputs so) (s_inputs sm)).
  { rewrite <- (sort_refs_perm (s_inputs so)), <- (sort_refs_perm (s_inputs sm)), Hin. reflexivity. }
  apply list_eqb_Z_eq in Htin.
  assert (Htperm : Permutation (s_tins so) (s_tins sm)).
  { rewrite <- (sort_z_perm (s_tins so)), <- (sort_z_perm (s_tins sm)), Htin. reflexivity. }
  assert (Hchs : s_changes sm = s_changes so).
  { apply (list_eqb_spec (fun x y => cpool_eqb (fst x) (fst y) && (snd x =? snd y))); [|exact Hch].
    intros [c1 v1] [c2 v2]. cbn. rewrite andb_true_iff.
    split; [intros [H1 H2]; f_equal; [|lia]; destruct c1, c2; cbn in H1; try discriminate; [apply pool_eqb_eq in H1; congruence | reflexivity]
           | intros H; inversion H; subst; split; [destruct c2; cbn; [apply pool_eqb_eq; reflexivity | reflexivity] | lia]]. }
  assert (Hanc' : s_anchor sm = s_anchor so) by (apply (option_eqb_spec Z.eqb Z.eqb_eq); exact Hanc).
  (* what the theorem says about the model's step, at the anchor it binds and the caller's policy *)
  assert (Hm : exists a inputs tins,
     s_anchor sm = Some a /\ s_inputs sm = rrefs inputs /\ NoDup (rrefs inputs)
     /\ s_tins sm = map u_id tins /\ NoDup (map u_id tins)
     /\ s_in_value sm = sum_utxos tins + sum_values inputs /\ s_pay sm = pay /\ step_balanced sm = true
     /\ (forall r, In r inputs -> In r db /\ In (r_pool r) permitted
          /\ spendable (SC acct (r_pool r) (e_target e) a (tip_unscanned e (r_pool r) a) pol
                           (Some (overridable (LFPolicy lp)))) r = true)
     /\ (forall u, In u tins -> In u udb /\ exists allow, tspend = Some allow
          /\ utxo_spendable_acct (e_target e) (minconf pol zc) CbNon acct allow (Some (overridable (LFPolicy lp))) u = true)).
  { destruct (Horig sm (or_introl eq_refl)) as [anchor Ea Hok | ci bp Ec Eb Ebd Hperm' Hok];
      destruct Hok as [inputs [tins [H1 [H2 [H3 [H4 [H5 [[G1 G2] [[T1 T2] H6]]]]]]]]].
    - exists anchor, inputs, tins. repeat (split; [assumption|]). split.
      + intros r Hr. destruct (G1 r Hr) as [Hdbr Hb].
        split; [exact Hdbr|]. unfold okrowb in Hb. rewrite Ea in Hb. apply andb_true_iff in Hb. destruct Hb as [Hp Hs].
        split; [|exact Hs]. apply existsb_exists in Hp. destruct Hp as [q [Hq Eq]]. apply pool_eqb_eq in Eq. subst q.
        eapply pool_preference_permitted; exact Hq.
      + intros u Hu0. destruct (T1 u Hu0) as [Hon [t Hg]]. unfold tgather_of in Hg.
        destruct tspend as [allow|]; [|discriminate].
        apply select_transparent_sound in Hg. destruct Hg as [Hdbu Hsp].
        split; [exact Hdbu|]. exists allow. split; [reflexivity | exact Hsp].
    - assert (tins = []) as ->.
      { destruct tins as [|u t]; [reflexivity|]. destruct (T1 u (or_introl eq_refl)) as [Hon _]. discriminate. }
      exists (c_boundary ci), inputs, (@nil utxo_row). repeat (split; [assumption|]). split; [|intros u []].
      intros r Hr. destruct (G1 r Hr) as [Hdbr Hb].
      split; [exact Hdbr|]. unfold okrowb in Hb. cbn [e_anchor e_target] in Hb.
      destruct (c_sel_anchor ci) as [sa|] eqn:Esa; [|discriminate].
      subst canon. cbn in Hcs. rewrite Esa in Hcs. apply andb_true_iff in Hcs. destruct Hcs as [_ Hcs].
      assert (sa = c_boundary ci) by lia. subst sa.
      apply andb_true_iff in Hb. destruct Hb as [Hp Hs].
      apply existsb_exists in Hp. destruct Hp as [q [Hq Eq]]. apply pool_eqb_eq in Eq. subst q.
      apply pool_preference_permitted in Hq. destruct Hq as [Hq|[]].
      split; [rewrite <- Hq; exact Hperm'|].
      destruct (bucketed_spec _ _ _ _ _ (Hci ci eq_refl) Ht' Hu' Eb) as [Hb1 [Hb2 _]].
      eapply spendable_policy_mono; [exact Hb1 | exact Hb2 |]. exact Hs. }
  destruct Hm as [a [inputs [tins [Ha [Hi [Hni [Hti [Hnti [Hv [Hp [Hbal [Hrows Htrows]]]]]]]]]]]].
  assert (Hin_so : forall x, In x (s_inputs so) -> exists r, In r inputs /\ x = (r_pool r, r_id r)).
  { intros x Hx. apply (Permutation_in _ Hperm) in Hx. rewrite Hi in Hx. apply in_rrefs in Hx. exact Hx. }
  assert (Htin_so : forall i, In i (s_tins so) -> exists u, In u tins /\ u_id u = i).
  { intros i Hi0. apply (Permutation_in _ Htperm) in Hi0. rewrite Hti in Hi0. apply in_map_iff in Hi0.
    destruct Hi0 as [u [Hu0 Hu1]]. exists u. split; assumption. }
  cbn [map concat]. rewrite !app_nil_r. cbn [forallb fold_right]. rewrite !andb_true_r.
  rewrite !andb_true_iff. split; [split; [split; [split; [split|]|]|]|].
  - apply nodup_refs_spec. eapply Permutation_NoDup; [symmetry; exact Hperm|]. rewrite Hi. exact Hni.
  - apply nodup_z_spec. eapply Permutation_NoDup; [symmetry; exact Htperm|]. rewrite Hti. exact Hnti.
  - apply forallb_forall. intros i Hi0. destruct (Htin_so i Hi0) as [u [Hu0 <-]].
    destruct (Htrows u Hu0) as [Hdbu [allow [-> Hsp]]]. rewrite (find_utxo_unique udb u Hnu Hdbu). exact Hsp.
  - apply forallb_forall. intros x Hx. destruct (Hin_so x Hx) as [r [Hr ->]]. cbn [fst].
    apply existsb_exists. exists (r_pool r). split; [apply Hrows; exact Hr | apply pool_eqb_eq; reflexivity].
  - rewrite <- Hanc', Ha. split; [split|].
    + unfold all_spendable. apply forallb_forall. intros x Hx. destruct (Hin_so x Hx) as [r [Hr ->]].
      destruct (Hrows r Hr) as [Hdbr [_ Hs]]. rewrite (find_row_unique db r Hnd Hdbr). exact Hs.
    + rewrite (value_of_refs_perm db _ _ Hperm), Hi, value_of_rrefs by (try exact Hnd; intros r Hr; apply Hrows; exact Hr).
      rewrite (fold_ids_perm udb _ _ Htperm), Hti, value_of_utxo_ids by (try exact Hnu; intros u Hu0; apply Htrows; exact Hu0).
      lia.
    + unfold step_balanced, s_change in *. rewrite <- Hchs. lia.
  - lia.
Qed.

