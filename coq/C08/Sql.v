(** C08 — a small SQL boolean-expression language with SQLite's three-valued semantics.

    The expression trees in [V.Gen.C08SqlPred] are REGENERATED from the SQL text in
    zcash_client_sqlite (wallet/common.rs, wallet/locking.rs) on every run; this file fixes what
    such a tree means. No proofs here. *)
From Coq Require Import ZArith List Bool.
Import ListNotations.
Local Open Scope Z_scope.

(** Columns the fragments may mention. [C_tx_*] is the transaction alias handed to
    [tx_unexpired_condition] when it is used inside [spent_notes_clause] (the spending
    transaction); [C_t_*] is the transaction that created the note. *)
Inductive col :=
| C_account_uuid | C_account_ufvk
| C_rn_id | C_rn_value | C_rn_scope | C_rn_nf | C_rn_position | C_rn_stab
| C_rn_lock_expiry | C_rn_lock_owner
| C_t_block | C_t_mined | C_t_expiry | C_t_minobs
| C_scan_max_priority
| C_tx_mined | C_tx_expiry | C_tx_minobs
(* transparent received outputs (alias u), their address row and creating transaction (alias t) *)
| C_u_value | C_u_maxobs | C_addr | C_addr_key_scope | C_addr_imp_pubkey | C_addr_imp_script
| C_t_txindex
| C_u_no_wallet_inputs.   (* 1 iff t.id_tx NOT IN (SELECT transaction_id FROM v_received_output_spends WHERE account_id = accounts.id) *)

Inductive param :=
| P_account_uuid | P_min_value | P_anchor_height | P_tip_unscanned | P_scanned_priority
| P_target_height | P_target_value | P_chain_tip | P_owner
| P_min_confirmations | P_coinbase_filter | P_has_allow_list.

(** rarray parameters *)
Inductive lparam := L_exclude | L_overridable_owners | L_addresses.

Inductive sval := VNull | VInt (z : Z).

Inductive cmp := CEq | CNe | CLt | CLe | CGt | CGe.

Inductive expr :=
| ECol (c : col)
| EPar (p : param)
| ELit (z : Z)
| EAdd (a b : expr)
| ESub (a b : expr)
| ECmp (op : cmp) (a b : expr)
| EIsNull (a : expr)
| EIsNotNull (a : expr)
| EIfNull (a b : expr)
| EAnd (a b : expr)
| EOr (a b : expr)
| ENot (a : expr)
| EInList (a : expr) (l : lparam)       (* a IN rarray(:l) *)
| ENotSpent.                            (* rn.id NOT IN (spent_notes_clause) *)

Definition cmp_z (op : cmp) (a b : Z) : bool :=
  match op with
  | CEq => a =? b | CNe => negb (a =? b) | CLt => a <? b | CLe => a <=? b | CGt => b <? a | CGe => b <=? a
  end.

Definition b2v (b : bool) : sval := VInt (if b then 1 else 0).

Definition truthy (v : sval) : bool :=
  match v with VNull => false | VInt z => negb (z =? 0) end.

Definition v_and (a b : sval) : sval :=
  match a, b with
  | VInt x, VInt y => b2v (negb (x =? 0) && negb (y =? 0))
  | VInt x, VNull => if x =? 0 then VInt 0 else VNull
  | VNull, VInt y => if y =? 0 then VInt 0 else VNull
  | VNull, VNull => VNull
  end.

Definition v_or (a b : sval) : sval :=
  match a, b with
  | VInt x, VInt y => b2v (negb (x =? 0) || negb (y =? 0))
  | VInt x, VNull => if x =? 0 then VNull else VInt 1
  | VNull, VInt y => if y =? 0 then VNull else VInt 1
  | VNull, VNull => VNull
  end.

Definition v_not (a : sval) : sval :=
  match a with VNull => VNull | VInt x => b2v (x =? 0) end.

Section Eval.
  Variable cv : col -> sval.
  Variable pv : param -> sval.
  Variable lv : lparam -> list Z.
  Variable spent : bool.

  Fixpoint eval (e : expr) : sval :=
    match e with
    | ECol c => cv c
    | EPar p => pv p
    | ELit z => VInt z
    | EAdd a b =>
        match eval a, eval b with
        | VInt x, VInt y => VInt (x + y)
        | _, _ => VNull
        end
    | ESub a b =>
        match eval a, eval b with
        | VInt x, VInt y => VInt (x - y)
        | _, _ => VNull
        end
    | ECmp op a b =>
        match eval a, eval b with
        | VInt x, VInt y => b2v (cmp_z op x y)
        | _, _ => VNull
        end
    | EIsNull a => match eval a with VNull => VInt 1 | VInt _ => VInt 0 end
    | EIsNotNull a => match eval a with VNull => VInt 0 | VInt _ => VInt 1 end
    | EIfNull a b => match eval a with VNull => eval b | v => v end
    | EAnd a b => v_and (eval a) (eval b)
    | EOr a b => v_or (eval a) (eval b)
    | ENot a => v_not (eval a)
    | EInList a l =>
        match eval a with
        | VNull => match lv l with [] => VInt 0 | _ => VNull end
        | VInt x => b2v (existsb (Z.eqb x) (lv l))
        end
    | ENotSpent => b2v (negb spent)
    end.
End Eval.
