(** C08 — correspondence cases: one constructor per public API call, with the observed outcome. *)
From V.Lib Require Import Base.
From V.C08 Require Import Sql Model ModelT ModelP Spec.
From V.Gen Require Import C08SqlPred.
Local Open Scope Z_scope.

(** one compute_balance call: the anchor it was given, the offered inputs, the result *)
Definition oracle_entry := (Z * list (pool * Z) * list Z * change_result)%type.

Inductive case :=
(** InputSource::select_spendable_notes for one pool; observed: sorted note ids *)
| CSelect (db : list note_row) (e : env) (acct : Z) (p : pool) (tv : tvalue) (pol : policy)
          (exclude : list (pool * Z)) (lf : lockfilter) (obs : outcome (list Z) sel_err)
(** propose_transfer; [oracle] is the log of the change strategy's compute_balance calls *)
| CPropose (db : list note_row) (udb : list utxo_row) (e : env) (acct : Z) (pay : Z) (single_payment orchard_out : bool)
           (permitted : list pool) (pol : policy) (zero_conf : bool) (lp : lip) (tspend : option (option (list Z)))
           (lock : option (Z * Z)) (canon : option canon_in)
           (oracle : list oracle_entry) (obs : outcome (list step) perr)
(** OutputLockStore::lock_outputs; [post] is the row dump afterwards *)
| CLock (db : list note_row) (tip : option Z) (refs : list (pool * Z)) (owner expiry : Z)
        (obs : outcome Z perr) (post : list note_row)
(** InputSource::get_spendable_transparent_outputs_for_addresses; observed: sorted output ids *)
| CTSelect (udb : list utxo_row) (target : Z) (addrs : list Z) (pol : policy) (zero_conf : bool)
           (f : cbfilter) (lf : lockfilter) (obs : outcome (list Z) sel_err)
(** propose_shielding; [oracle] logs the change strategy's compute_balance calls (sorted input ids) *)
| CShield (udb : list utxo_row) (e : env) (threshold : Z) (addrs : list Z) (pol : policy) (zero_conf : bool)
          (f : cbfilter) (lp : lip) (iw : bool) (lock : option (Z * Z))
          (oracle : list (list Z * tchange_result)) (obs : outcome (list step) perr)
(** store_transactions_to_be_sent (through create_proposed_transactions) of a transaction spending
    the notes [refs] and the transparent outputs [tids]; row dumps of ALL pools before and after *)
| CStore (db : list note_row) (udb : list utxo_row) (target : Z) (refs : list (pool * Z)) (tids : list Z)
         (post : list note_row) (upost : list utxo_row).

(** ** helpers *)

Fixpoint insert_z (x : Z) (l : list Z) : list Z :=
  match l with [] => [x] | y :: t => if x <=? y then x :: l else y :: insert_z x t end.
Definition sort_z (l : list Z) : list Z := fold_right insert_z [] l.

Definition refs_of (l : list note_row) : list (pool * Z) := map (fun r => (r_pool r, r_id r)) l.

Definition ref_leb (a b : pool * Z) : bool :=
  let pk (p : pool) := match p with Sapling => 0 | Orchard => 1 | Ironwood => 2 end in
  (pk (fst a) <? pk (fst b)) || ((pk (fst a) =? pk (fst b)) && (snd a <=? snd b)).
Fixpoint insert_ref (x : pool * Z) (l : list (pool * Z)) : list (pool * Z) :=
  match l with [] => [x] | y :: t => if ref_leb x y then x :: l else y :: insert_ref x t end.
Definition sort_refs (l : list (pool * Z)) : list (pool * Z) := fold_right insert_ref [] l.

Definition refs_eqb (a b : list (pool * Z)) : bool := list_eqb ref_eqb a b.

Definition oracle_fn (o : list oracle_entry) (anchor : Z) (inputs : list note_row) (tins : list utxo_row) : change_result :=
  match find (fun en => let '(a, refs, tids, _) := en in
                        (a =? anchor) && refs_eqb refs (sort_refs (refs_of inputs))
                        && list_eqb Z.eqb tids (sort_z (map u_id tins))) o with
  | Some en => snd en
  | None => OErr
  end.

Definition spender_eqb (a b : spender) : bool :=
  option_eqb Z.eqb (sp_mined a) (sp_mined b) && option_eqb Z.eqb (sp_expiry a) (sp_expiry b)
  && (sp_minobs a =? sp_minobs b).

Definition row_eqb (a b : note_row) : bool :=
  (r_id a =? r_id b) && (r_acct a =? r_acct b) && pool_eqb (r_pool a) (r_pool b) && (r_value a =? r_value b)
  && option_eqb Z.eqb (r_block a) (r_block b) && option_eqb Z.eqb (r_mined a) (r_mined b)
  && option_eqb Z.eqb (r_texpiry a) (r_texpiry b) && (r_tminobs a =? r_tminobs b)
  && Bool.eqb (r_ufvk a) (r_ufvk b) && option_eqb Z.eqb (r_scope a) (r_scope b) && Bool.eqb (r_nf a) (r_nf b)
  && option_eqb Z.eqb (r_pos a) (r_pos b) && Bool.eqb (r_stab a) (r_stab b) && Bool.eqb (r_trust a) (r_trust b)
  && option_eqb Z.eqb (r_prio a) (r_prio b) && option_eqb Z.eqb (r_shin a) (r_shin b)
  && Bool.eqb (r_shtrust a) (r_shtrust b) && option_eqb Z.eqb (r_lock a) (r_lock b)
  && option_eqb Z.eqb (r_owner a) (r_owner b) && list_eqb spender_eqb (r_spenders a) (r_spenders b).

Definition cpool_eqb (a b : cpool) : bool :=
  match a, b with CP p, CP q => pool_eqb p q | CT, CT => true | _, _ => false end.

Definition step_eqb (a b : step) : bool :=
  refs_eqb (sort_refs (s_inputs a)) (sort_refs (s_inputs b)) && (s_in_value a =? s_in_value b)
  && list_eqb Z.eqb (sort_z (s_tins a)) (sort_z (s_tins b)) && (s_pay a =? s_pay b)
  && list_eqb (fun x y => cpool_eqb (fst x) (fst y) && (snd x =? snd y)) (s_changes a) (s_changes b)
  && (s_fee a =? s_fee b) && option_eqb Z.eqb (s_anchor a) (s_anchor b).

Definition sel_err_eqb (a b : sel_err) : bool :=
  match a, b with EIneligible, EIneligible | ESelOther, ESelOther => true | _, _ => false end.

Definition toracle_fn (o : list (list Z * tchange_result)) (inputs : list utxo_row) : tchange_result :=
  match find (fun en => list_eqb Z.eqb (fst en) (sort_z (map u_id inputs))) o with
  | Some en => snd en
  | None => TErr
  end.

Definition find_utxo (udb : list utxo_row) (i : Z) : option utxo_row := find (fun u => u_id u =? i) udb.

Fixpoint nodup_z (l : list Z) : bool :=
  match l with [] => true | x :: t => negb (existsb (Z.eqb x) t) && nodup_z t end.

Definition find_row (db : list note_row) (x : pool * Z) : option note_row :=
  find (same_ref x) db.

(** lock columns and spender count of the stored row agree with the model row *)
Definition lock_agrees (m r' : note_row) (grew : bool) (r : note_row) : bool :=
  option_eqb Z.eqb (r_lock r') (r_lock m) && option_eqb Z.eqb (r_owner r') (r_owner m)
  && (length (r_spenders r') =? length (r_spenders r) + (if grew then 1 else 0))%nat.

Definition u_lock_agrees (m u' : utxo_row) (grew : bool) (u : utxo_row) : bool :=
  option_eqb Z.eqb (u_lock u') (u_lock m) && option_eqb Z.eqb (u_owner u') (u_owner m)
  && (length (u_spenders u') =? length (u_spenders u) + (if grew then 1 else 0))%nat.

Definition live_lock (target : Z) (l : option Z) : bool := match l with Some x => target <=? x | None => false end.

Definition FUEL : nat := 64.

(** ** model = implementation *)

Definition run_case (c : case) : bool :=
  match c with
  | CSelect db e acct p tv pol exclude lf obs =>
      outcome_eqb (list_eqb Z.eqb) sel_err_eqb
        (match select_notes db e acct p tv pol exclude lf with
         | Ok l => Ok (sort_z (map r_id l)) | Err x => Err x | Panic => Panic end)
        obs
  | CPropose db udb e acct pay single_payment orchard_out permitted pol zc lp tspend lock canon oracle obs =>
      outcome_eqb (list_eqb step_eqb) perr_eqb
        (propose_transfer (oracle_fn oracle) FUEL db udb e (Some (e_target e - 1)) acct pay single_payment orchard_out
                          permitted pol zc lp tspend lock canon)
        obs
  | CLock db tip refs owner expiry obs post =>
      match lock_outputs tip owner expiry refs db, obs with
      | Some db', Ok n => (n =? Z.of_nat (length refs)) && list_eqb row_eqb db' post
      | None, Err _ => list_eqb row_eqb db post
      | _, _ => false
      end
  | CTSelect udb target addrs pol zc f lf obs =>
      outcome_eqb (list_eqb Z.eqb) sel_err_eqb
        (Ok (sort_z (map u_id (select_utxos udb target addrs pol zc f lf)))) obs
  | CShield udb e threshold addrs pol zc f lp iw lock oracle obs =>
      outcome_eqb (list_eqb step_eqb) perr_eqb
        (propose_shielding (toracle_fn oracle) udb e (Some (e_target e - 1)) threshold addrs pol zc f lp iw lock)
        obs
  | CStore db udb target refs tids post upost =>
      forallb (fun r => match find_row post (r_pool r, r_id r) with
                        | Some r' => lock_agrees (if spent_by refs r then clear_lock r else r) r' (spent_by refs r) r
                        | None => false end) db
      && forallb (fun u => match find_utxo upost (u_id u) with
                           | Some u' => u_lock_agrees (if u_spent_by tids u then u_clear_lock u else u) u' (u_spent_by tids u) u
                           | None => false end) udb
  end.

(** ** the property, evaluated on the implementation's outcome against the independent row dump *)


Definition all_spendable (db : list note_row) (mk : pool -> scfg) (refs : list (pool * Z)) : bool :=
  forallb (fun x => match find_row db x with
                    | Some r => spendable (mk (fst x)) r
                    | None => false end) refs.

Definition value_of_refs (db : list note_row) (refs : list (pool * Z)) : Z :=
  fold_right (fun x a => match find_row db x with Some r => r_value r + a | None => a end) 0 refs.

Definition owners_of (lf : lockfilter) : option (list Z) :=
  match lf with LFUnfiltered => None | LFPolicy _ => Some (overridable lf) end.

Definition prop_case_s (c : case) : bool :=
  match c with
  | CSelect db e acct p tv pol exclude lf obs =>
      match obs with
      | Panic => false
      | Err _ => true
      | Ok ids =>
          match e_anchor e with
          | None => match ids with [] => true | _ => false end
          | Some anchor =>
              let tipuns := match tv with TAtLeast _ => tip_unscanned e p anchor | _ => false end in
              let refs := map (fun i => (p, i)) ids in
              nodup_refs refs
              && all_spendable db (fun q => SC acct q (e_target e) anchor tipuns pol (owners_of lf)) refs
              && forallb (fun i => negb (existsb (ref_eqb (p, i)) exclude)) ids
          end
      end
  | CPropose db udb e acct pay single_payment orchard_out permitted pol zc lp tspend lock canon oracle obs =>
      match obs with
      | Panic => false
      | Err _ => true
      | Ok steps =>
          let all_refs := concat (map s_inputs steps) in
          let all_tids := concat (map s_tins steps) in
          nodup_refs all_refs
          && nodup_z all_tids
          (* coins: of the account, at a listed address when the policy lists any, spendable, not locked by another owner *)
          && forallb (fun i => match tspend, find_utxo udb i with
                               | Some allow, Some u =>
                                   utxo_spendable_acct (e_target e) (minconf pol zc) CbNon acct allow
                                     (Some (overridable (LFPolicy lp))) u
                               | _, _ => false end) all_tids
          && forallb (fun x => existsb (pool_eqb (fst x)) permitted) all_refs
          && forallb (fun s =>
               (* spendable AT THE ANCHOR THE STEP BINDS, under the caller's policy *)
               match s_anchor s with
               | None => false
               | Some a =>
                   all_spendable db (fun q => SC acct q (e_target e) a (tip_unscanned e q a) pol
                                                  (Some (overridable (LFPolicy lp)))) (s_inputs s)
               end
               && (s_in_value s =? value_of_refs db (s_inputs s)
                                   + fold_right (fun i a => match find_utxo udb i with Some u => u_value u + a | None => a end) 0 (s_tins s))
               && step_balanced s) steps
          && (fold_right (fun s a => s_pay s + a) 0 steps =? pay)
      end
  | CLock db tip refs owner expiry obs post =>
      match obs with
      | Panic => false
      | Err _ => list_eqb row_eqb db post              (* all-or-nothing *)
      | Ok n =>
          (n =? Z.of_nat (length refs))
          && (length db =? length post)%nat
          && forallb (fun rr =>
                let '(r, r') := rr in
                if existsb (fun x => same_ref x r) refs
                then row_eqb r' (set_lock owner expiry r)
                     (* never steals an active lock of another owner *)
                     && not_locked_by_other (match tip with Some t => t + 1 | None => 0 end) [owner] r
                else row_eqb r' r) (combine db post)
          && forallb (fun x => match find_row db x with Some _ => true | None => false end) refs
      end
  | _ => true
  end.

Definition prop_case_t (c : case) : bool :=
  match c with
  | CTSelect udb target addrs pol zc f lf obs =>
      match obs with
      | Panic => false
      | Err _ => true
      | Ok ids =>
          nodup_z ids
          && forallb (fun i => match find_utxo udb i with
                               | Some u => utxo_spendable target (minconf pol zc) f addrs (owners_of lf) u
                               | None => false end) ids
      end
  | CShield udb e threshold addrs pol zc f lp iw lock oracle obs =>
      match obs with
      | Panic => false
      | Err _ => true
      | Ok [s] =>
          match s_inputs s with [] => true | _ => false end
          && nodup_z (s_tins s)
          && forallb (fun i => match find_utxo udb i with
                               | Some u => utxo_spendable (e_target e) (minconf pol zc) f addrs
                                             (Some (overridable (LFPolicy lp))) u
                               | None => false end) (s_tins s)
          && (s_in_value s =? fold_right (fun i a => match find_utxo udb i with Some u => u_value u + a | None => a end) 0 (s_tins s))
          && (0 <? s_in_value s) && (s_pay s =? 0) && step_balanced s
          && (threshold <=? s_change s + s_fee s)
      | Ok _ => false
      end
  | CStore db udb target refs tids post upost =>
      (* a live lock is still there unless its own output was spent by the stored transaction *)
      forallb (fun r => if live_lock target (r_lock r) && negb (spent_by refs r)
                        then match find_row post (r_pool r, r_id r) with
                             | Some r' => option_eqb Z.eqb (r_lock r') (r_lock r) && option_eqb Z.eqb (r_owner r') (r_owner r)
                             | None => false end
                        else true) db
      && forallb (fun u => if live_lock target (u_lock u) && negb (u_spent_by tids u)
                           then match find_utxo upost (u_id u) with
                                | Some u' => option_eqb Z.eqb (u_lock u') (u_lock u) && option_eqb Z.eqb (u_owner u') (u_owner u)
                                | None => false end
                           else true) udb
  | _ => true
  end.

Definition prop_case (c : case) : bool := prop_case_s c && prop_case_t c.

Definition known_class (c : case) : N := 0%N.

(** ** path tags *)
Definition tag_z (c : case) : Z :=
  match c with
  | CSelect db e acct p tv pol exclude lf obs =>
      match e_anchor e with
      | None => 0
      | Some anchor =>
          match tv with
          | TAllSpendable => 1
          | TAllEverything => match obs with Ok _ => 2 | _ => 3 end
          | TAtLeast z =>
              let q := mk_q e acct p anchor exclude lf in
              let elig := filter (row_passes q (eligible_where lf)) (of_pool p db) in
              let sel := window_select z (sort_rows (row_leb lf q) elig) in
              let res := filter (has_confirmations pol (e_target e)) sel in
              if tip_unscanned e p anchor then 10
              else match elig with
              | [] => 4
              | _ =>
                if negb (length res =? length sel)%nat then 7
                else if existsb (fun r => tier q r =? 1) elig then 8
                else if existsb (fun r => existsb (Z.eqb (r_id r)) (q_exclude q)) (of_pool p db) then 9
                else if z <=? sum_values sel then 5 else 6
              end
          end
      end
  | CPropose _ _ e _ _ _ _ _ _ _ _ tspend lock canon oracle obs =>
      if existsb (fun en => match snd en with ODust _ _ => true | _ => false end) oracle then 17 else
      match obs with
      | Ok [s] =>
          if match s_tins s with [] => false | _ => true end then
            (* transparent inputs in a transfer: 41 first gather sufficed, 42 re-gathered, 43 with an allow list *)
            match tspend with
            | Some (Some _) => 43
            | _ => if (2 <? Z.of_nat (length oracle)) then 42 else 41
            end
          else
          if negb (option_eqb Z.eqb (s_anchor s) (e_anchor e)) then 24   (* canonical crossing kept: bucketed anchor *)
          else if match canon with
                  | Some ci => existsb (fun en => fst (fst (fst en)) =? c_boundary ci) oracle
                  | None => false end then 25                            (* canonical attempt made, ordinary proposal returned *)
          else
          match lock with Some _ => 23 | None =>
          if existsb (fun x => pool_eqb (fst x) Sapling) (s_inputs s) && existsb (fun x => pool_eqb (fst x) Orchard) (s_inputs s)
          then 12 else 11 end
      | Ok _ => 18
      | Err EInsufficient => 13
      | Err ELocked => 14
      | Err EBalance => 15
      | Err ESyncRequired => 16
      | _ => 18
      end
  | CLock db tip refs owner expiry obs post =>
      match obs with
      | Ok _ =>
          if existsb (fun r => existsb (fun x => same_ref x r) refs
                               && match r_lock r with Some _ => true | None => false end) db then 22 else 19
      | _ =>
          if forallb (fun x => match find_row db x with Some _ => true | None => false end) refs then 21 else 20
      end
  | CTSelect udb target addrs pol zc f lf obs =>
      match obs with
      | Ok [] => if existsb (fun u => existsb (Z.eqb (u_addr u)) addrs) udb then 27 else 26
      | Ok _ => if zc then 28 else 29
      | _ => 30
      end
  | CShield _ _ _ _ _ _ _ _ _ lock oracle obs =>
      match obs with
      | Ok _ => if existsb (fun en => match snd en with TDust _ => true | _ => false end) oracle then 32 else 31
      | Err EInsufficient => 33
      | Err EChange => 34
      | Err ELocked => 35
      | Err ESyncRequired => 36
      | _ => 37
      end
  | CStore db udb target refs tids post upost =>
      (* 38: some OTHER table holds a live lock on a row with the id of a spent output *)
      let spent_ids := map snd refs ++ tids in
      if existsb (fun r => live_lock target (r_lock r) && negb (spent_by refs r) && existsb (Z.eqb (r_id r)) spent_ids) db
         || existsb (fun u => live_lock target (u_lock u) && negb (u_spent_by tids u) && existsb (Z.eqb (u_id u)) spent_ids) udb
      then 38
      else if existsb (fun r => spent_by refs r && match r_lock r with Some _ => true | None => false end) db then 39
      else 40
  end.
Definition tag_case (c : case) : N := Z.to_N (tag_z c).
