(** C08 — the regenerated SQL trees mean what Spec.v says (three-valued logic included). *)
From V.Lib Require Import Base.
From V.C08 Require Import Sql Model Spec.
From V.Gen Require Import C08SqlPred.
From Coq Require Import ZifyBool.
Local Open Scope Z_scope.

Definition falsy (v : sval) : bool := match v with VInt z => z =? 0 | VNull => false end.

Lemma truthy_b2v b : truthy (b2v b) = b.
Proof. destruct b; reflexivity. Qed.
Lemma falsy_b2v b : falsy (b2v b) = negb b.
Proof. destruct b; reflexivity. Qed.

Lemma truthy_and a b : truthy (v_and a b) = truthy a && truthy b.
Proof.
  destruct a as [|x], b as [|y]; cbn; try reflexivity.
  - destruct (y =? 0); reflexivity.
  - destruct (x =? 0); reflexivity.
  - destruct (x =? 0), (y =? 0); reflexivity.
Qed.
Lemma truthy_or a b : truthy (v_or a b) = truthy a || truthy b.
Proof.
  destruct a as [|x], b as [|y]; cbn; try reflexivity.
  - destruct (y =? 0); reflexivity.
  - destruct (x =? 0); reflexivity.
  - destruct (x =? 0), (y =? 0); reflexivity.
Qed.
Lemma truthy_not a : truthy (v_not a) = falsy a.
Proof. destruct a as [|x]; cbn; [reflexivity|]. destruct (x =? 0); reflexivity. Qed.

Ltac norm_truthy := rewrite ?truthy_and, ?truthy_or, ?truthy_not, ?truthy_b2v, ?falsy_b2v.

(** *** tx_unexpired_condition("stx") = Spec.spender_counts *)
Lemma spender_unexpired_spec target s : spender_unexpired target s = spender_counts target s.
Proof.
  unfold spender_unexpired, spender_counts, tx_unexpired_spender, DEFAULT_TX_EXPIRY_DELTA.
  cbn [eval]. norm_truthy.
  destruct s as [[m|] [x|] o]; cbn [spender_cols sp_mined sp_expiry sp_minobs ov];
    norm_truthy; cbn [cmp_z truthy]; lia.
Qed.

Lemma spent_at_spec target r : spent_at target r = negb (unspent_at target r).
Proof.
  unfold spent_at, unspent_at. induction (r_spenders r) as [|s l IH]; [reflexivity|].
  cbn [existsb forallb]. rewrite IH, spender_unexpired_spec. destruct (spender_counts target s); reflexivity.
Qed.

(** *** output_eligible_condition (Policy arm) = Spec.not_locked_by_other *)
Lemma lock_eligible_policy_spec q r :
  truthy (eval (row_cols r) (q_pv q) (q_lv q) false lock_eligible_policy)
  = not_locked_by_other (q_target q) (q_owners q) r.
Proof.
  unfold lock_eligible_policy, not_locked_by_other. cbn [eval]. norm_truthy.
  cbn [row_cols q_pv q_lv].
  destruct (r_lock r) as [x|], (r_owner r) as [o|]; cbn [ov]; norm_truthy; cbn [cmp_z truthy];
    try reflexivity.
  all: destruct (q_owners q); cbn; try lia.
Qed.

(** *** locked_tier_expr: tier 1 = locked for selection at the target height *)
Lemma tier_spec q r :
  tier q r = match r_lock r with Some x => if q_target q <=? x then 1 else 0 | None => 0 end.
Proof.
  unfold tier, locked_tier_cond. cbn [eval]. norm_truthy. cbn [row_cols q_pv].
  destruct (r_lock r) as [x|]; cbn [ov]; norm_truthy; cbn [cmp_z truthy]; [|reflexivity].
  destruct (q_target q <=? x); reflexivity.
Qed.

(** *** output_lockable_condition: a lock can be taken iff no lock, lock expired at the tip, or same owner *)
Definition lockable_spec (tip : option Z) (owner : Z) (r : note_row) : bool :=
  match r_lock r with
  | None => true
  | Some x => match tip with Some t => x <=? t | None => false end
              || match r_owner r with Some o => o =? owner | None => false end
  end.

Lemma lockable_is_spec tip owner r : lockable tip owner r = lockable_spec tip owner r.
Proof.
  unfold lockable, lockable_spec, lockable_cond. cbn [eval]. norm_truthy. cbn [row_cols].
  destruct (r_lock r) as [x|], tip as [t|], (r_owner r) as [o|]; cbn [ov]; norm_truthy; cbn [cmp_z truthy];
    try reflexivity; lia.
Qed.

(** *** the WHERE clause of the `eligible` CTE *)

Definition eligible_spec (q : qparams) (lf : lockfilter) (r : note_row) : bool :=
  (r_acct r =? q_account q) && (MARGINAL_FEE <? r_value r) && r_ufvk r
  && match r_scope r with Some _ => true | None => false end && r_nf r
  && mined_le (q_anchor q) r
  && witnessable (q_tip_unscanned q) r
  && negb (existsb (Z.eqb (r_id r)) (q_exclude q))
  && unspent_at (q_target q) r
  && match lf with LFUnfiltered => true | LFPolicy _ => not_locked_by_other (q_target q) (q_owners q) r end.

Lemma witness_gate_spec q r :
  truthy (v_or (eval (row_cols r) (q_pv q) (q_lv q) false (ECmp CEq (ECol C_rn_stab) (ELit 1)))
               (v_and (eval (row_cols r) (q_pv q) (q_lv q) false (ECmp CEq (EPar P_tip_unscanned) (ELit 0)))
                      (eval (row_cols r) (q_pv q) (q_lv q) false (ECmp CLe (ECol C_scan_max_priority) (EPar P_scanned_priority)))))
  = witnessable (q_tip_unscanned q) r.
Proof.
  unfold witnessable. cbn [eval row_cols q_pv]. rewrite truthy_or, truthy_and.
  destruct (r_stab r), (q_tip_unscanned q), (r_prio r) as [p|]; cbn [ov bv]; rewrite ?truthy_b2v;
    cbn [cmp_z truthy]; unfold SCANNED_PRIORITY; lia.
Qed.

Lemma in_list_exclude q r sp :
  truthy (v_not (eval (row_cols r) (q_pv q) (q_lv q) sp (EInList (ECol C_rn_id) L_exclude)))
  = negb (existsb (Z.eqb (r_id r)) (q_exclude q)).
Proof. cbn [eval row_cols q_lv]. norm_truthy. reflexivity. Qed.

Lemma eligible_where_spec q lf r :
  row_passes q (eligible_where lf) r = eligible_spec q lf r.
Proof.
  unfold row_passes, eligible_spec.
  assert (Hcommon : forall lockc,
    truthy (eval (row_cols r) (q_pv q) (q_lv q) (spent_at (q_target q) r)
      (EAnd (EAnd (EAnd (EAnd (EAnd (EAnd (EAnd (EAnd (EAnd
         (ECmp CEq (ECol C_account_uuid) (EPar P_account_uuid))
         (ECmp CGt (ECol C_rn_value) (EPar P_min_value)))
         (EIsNotNull (ECol C_account_ufvk))) (EIsNotNull (ECol C_rn_scope))) (EIsNotNull (ECol C_rn_nf)))
         (ECmp CLe (ECol C_t_block) (EPar P_anchor_height)))
         (EOr (ECmp CEq (ECol C_rn_stab) (ELit 1))
              (EAnd (ECmp CEq (EPar P_tip_unscanned) (ELit 0))
                    (ECmp CLe (ECol C_scan_max_priority) (EPar P_scanned_priority)))))
         (ENot (EInList (ECol C_rn_id) L_exclude))) ENotSpent) lockc))
    = (r_acct r =? q_account q) && (MARGINAL_FEE <? r_value r) && r_ufvk r
      && match r_scope r with Some _ => true | None => false end && r_nf r
      && mined_le (q_anchor q) r && witnessable (q_tip_unscanned q) r
      && negb (existsb (Z.eqb (r_id r)) (q_exclude q)) && unspent_at (q_target q) r
      && truthy (eval (row_cols r) (q_pv q) (q_lv q) (spent_at (q_target q) r) lockc)).
  { intros lockc.
    cbn [eval]. rewrite !truthy_and.
    change (v_or _ _) with
      (v_or (eval (row_cols r) (q_pv q) (q_lv q) false (ECmp CEq (ECol C_rn_stab) (ELit 1)))
            (v_and (eval (row_cols r) (q_pv q) (q_lv q) false (ECmp CEq (EPar P_tip_unscanned) (ELit 0)))
                   (eval (row_cols r) (q_pv q) (q_lv q) false (ECmp CLe (ECol C_scan_max_priority) (EPar P_scanned_priority))))).
    rewrite witness_gate_spec.
    change (v_not _) with (v_not (eval (row_cols r) (q_pv q) (q_lv q) false (EInList (ECol C_rn_id) L_exclude))).
    rewrite in_list_exclude.
    rewrite truthy_b2v, spent_at_spec, negb_involutive.
    repeat f_equal.
    - cbn [row_cols q_pv]. rewrite truthy_b2v. reflexivity.
    - cbn [row_cols q_pv]. rewrite truthy_b2v. reflexivity.
    - cbn [row_cols]. destruct (r_ufvk r); reflexivity.
    - cbn [row_cols]. destruct (r_scope r); reflexivity.
    - cbn [row_cols]. destruct (r_nf r); reflexivity.
    - unfold mined_le. cbn [row_cols q_pv]. destruct (r_block r); cbn [ov]; [rewrite truthy_b2v|]; reflexivity. }
  destruct lf as [|lp].
  - unfold eligible_where, eligible_where_unfiltered. rewrite Hcommon. cbn [eval truthy].
    rewrite !andb_true_r. reflexivity.
  - unfold eligible_where, eligible_where_policy. rewrite Hcommon. f_equal.
    change (EOr _ _) with lock_eligible_policy.
    rewrite <- lock_eligible_policy_spec.
    unfold lock_eligible_policy. cbn [eval]. reflexivity.
Qed.

(** *** confirmations_until_spendable = 0  <->  Spec.confirmed *)
Lemma ssub_zero a b : (ssub a b =? 0) = (a <=? b).
Proof. unfold ssub. lia. Qed.

Lemma has_confirmations_spec pol target r :
  1 <= p_trusted pol -> p_trusted pol <= p_untrusted pol ->
  has_confirmations pol target r = confirmed pol target r.
Proof.
  intros H1 H2. unfold has_confirmations, confirmed, confs_until_spendable.
  destruct (r_stab r); [reflexivity|]. cbn [orb].
  destruct (r_trust r).
  - destruct (r_block r); [apply ssub_zero | lia].
  - destruct (option_eqb Z.eqb (r_scope r) (Some 1)).
    + destruct (r_shin r).
      * destruct (r_shtrust r); apply ssub_zero.
      * destruct (r_block r); [apply ssub_zero | lia].
    + destruct (r_block r); [apply ssub_zero | lia].
Qed.
