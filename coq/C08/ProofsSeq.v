(** C08 — across operations: inputs locked by lock_outputs are not selected again. *)
From V.Lib Require Import Base.
From V.C08 Require Import Sql Model Spec ProofsSql ProofsSel ProofsProp ProofsGreedy ProofsAnchor.
From Coq Require Import ZifyBool.
Local Open Scope Z_scope.

Theorem locked_inputs_not_reselected tip owner expiry refs db db' e acct p anchor tv pol exclude lp r :
  NoDup (rrefs db) -> 1 <= p_trusted pol -> p_trusted pol <= p_untrusted pol ->
  lock_outputs tip owner expiry refs db = Some db' ->
  e_target e <= expiry -> ~ In owner (overridable (LFPolicy lp)) ->
  In r (select_matching db' e acct p anchor tv pol exclude (LFPolicy lp)) ->
  ~ In (r_pool r, r_id r) refs.
Proof.
  intros Hn Ht Hu HL Hx Ho Hsel Hin.
  destruct (lock_outputs_holds _ _ _ _ _ _ Hn HL) as [_ Hheld].
  pose proof Hsel as Hsel'. apply select_matching_sound in Hsel'; [|assumption|assumption].
  destruct Hsel' as [Hdb _].
  destruct (Hheld _ r Hin Hdb (proj2 (same_ref_eq _ r) eq_refl)) as [H1 H2].
  revert Hsel. apply (locked_not_selected db' e acct p anchor tv pol exclude lp r expiry); try assumption.
  intros o Eo Hino. rewrite H2 in Eo. inversion Eo; subst. exact (Ho Hino).
Qed.

(** The same for whole proposals: a later proposal (any request, any change strategy, ordinary or
    canonical attempt) made while the locks are in force and not naming the owner shares no input
    with the locked ones. *)
Theorem locked_proposal_not_reused change fuel tip owner expiry refs db db' e tip' acct pay sp oo permitted pol lp lock canon steps s x :
  NoDup (rrefs db) -> 1 <= p_trusted pol -> p_trusted pol <= p_untrusted pol ->
  (forall ci, canon = Some ci -> 0 < c_interval ci) ->
  (forall ci sa, canon = Some ci -> c_sel_anchor ci = Some sa -> sa <= c_boundary ci) ->
  lock_outputs tip owner expiry refs db = Some db' ->
  e_target e <= expiry -> ~ In owner (overridable (LFPolicy lp)) ->
  propose_transfer change fuel db' e tip' acct pay sp oo permitted pol lp lock canon = Ok steps ->
  In s steps -> In x (s_inputs s) -> ~ In x refs.
Proof.
  intros Hn Ht Hu Hci Hsa HL Hx Ho HP Hs Hxin Hr.
  destruct (lock_outputs_holds _ _ _ _ _ _ Hn HL) as [Hrefs Hheld].
  assert (Hn' : NoDup (rrefs db')) by (rewrite Hrefs; exact Hn).
  destruct (proposal_inputs_at_step_anchor _ _ _ _ _ _ _ _ _ _ _ _ _ _ _ Hn' Ht Hu Hci Hsa HP) as [_ Hok].
  destruct (Hok s Hs) as [a [inputs [_ [Hi [_ [_ [_ [_ [_ Hrows]]]]]]]]].
  rewrite Hi in Hxin. apply in_rrefs in Hxin. destruct Hxin as [r [Hrin ->]].
  destruct (Hrows r Hrin) as [Hdb [_ [_ [_ [_ [_ Hb]]]]]].
  destruct (Hheld _ r Hr Hdb (proj2 (same_ref_eq _ r) eq_refl)) as [H1 H2].
  unfold not_locked_by_other in Hb. rewrite H1, H2 in Hb.
  apply orb_true_iff in Hb. destruct Hb as [Hb|Hb]; [lia|].
  apply existsb_exists in Hb. destruct Hb as [y [Hy He]]. apply Ho. replace owner with y by lia. exact Hy.
Qed.
