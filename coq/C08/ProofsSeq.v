(** C08 — across operations: inputs locked by lock_outputs are not selected again. *)
From V.Lib Require Import Base.
From V.C08 Require Import Sql Model ModelT ModelP Spec ProofsSql ProofsSel ProofsProp ProofsT ProofsGreedy ProofsAnchor.
From Coq Require Import ZifyBool.
Local Open Scope Z_scope.

Theorem locked_inputs_not_reselected tip owner expiry refs db db' e acct p anchor tv pol exclude lp r :
  NoDup (rrefs db) -> 1 <= p_trusted pol -> p_trusted pol <= p_untrusted pol ->
  lock_outputs tip owner expiry refs db = Some db' ->
  e_target e <= expiry -> ~ In owner (overridable (LFPolicy lp)) ->
  In r (select_matching db' e acct p anchor tv pol exclude (LFPolicy lp)) ->
  ~ In (r_pool r, r_id r) refs.
Proof.
  intros Hn Ht Hu HL Hx Ho Hsel Hin.
  destruct (lock_outputs_holds _ _ _ _ _ _ Hn HL) as [_ Hheld].
  pose proof Hsel as Hsel'. apply select_matching_sound in Hsel'; [|assumption|assumption].
  destruct Hsel' as [Hdb _].
  destruct (Hheld _ r Hin Hdb (proj2 (same_ref_eq _ r) eq_refl)) as [H1 H2].
  revert Hsel. apply (locked_not_selected db' e acct p anchor tv pol exclude lp r expiry); try assumption.
  intros o Eo Hino. rewrite H2 in Eo. inversion Eo; subst. exact (Ho Hino).
Qed.

(** The same for whole proposals: a later proposal (any request, any change strategy, ordinary or
    canonical attempt) made while the locks are in force and not naming the owner shares no input
    with the locked ones. *)
Theorem locked_proposal_not_reused change fuel tip owner expiry refs db db' udb e tip' acct pay sp oo permitted pol zc lp tspend lock canon steps s x :
  NoDup (rrefs db) -> NoDup (map u_id udb) -> 1 <= p_trusted pol -> p_trusted pol <= p_untrusted pol ->
  (forall ci, canon = Some ci -> 0 < c_interval ci) ->
  (forall ci sa, canon = Some ci -> c_sel_anchor ci = Some sa -> sa <= c_boundary ci) ->
  lock_outputs tip owner expiry refs db = Some db' ->
  e_target e <= expiry -> ~ In owner (overridable (LFPolicy lp)) ->
  propose_transfer change fuel db' udb e tip' acct pay sp oo permitted pol zc lp tspend lock canon = Ok steps ->
  In s steps -> In x (s_inputs s) -> ~ In x refs.
Proof.
  intros Hn Hnu Ht Hu Hci Hsa HL Hx Ho HP Hs Hxin Hr.
  destruct (lock_outputs_holds _ _ _ _ _ _ Hn HL) as [Hrefs Hheld].
  assert (Hn' : NoDup (rrefs db')) by (rewrite Hrefs; exact Hn).
  destruct (proposal_inputs_at_step_anchor _ _ _ _ _ _ _ _ _ _ _ _ _ _ _ _ _ _ Hn' Hnu Ht Hu Hci Hsa HP) as [_ Hok].
  destruct (Hok s Hs) as [a [inputs [tins [_ [Hi [_ [_ [_ [_ [_ [_ [Hrows _]]]]]]]]]]]].
  rewrite Hi in Hxin. apply in_rrefs in Hxin. destruct Hxin as [r [Hrin ->]].
  destruct (Hrows r Hrin) as [Hdb [_ [_ [_ [_ [_ Hb]]]]]].
  destruct (Hheld _ r Hr Hdb (proj2 (same_ref_eq _ r) eq_refl)) as [H1 H2].
  unfold not_locked_by_other in Hb. rewrite H1, H2 in Hb.
  apply orb_true_iff in Hb. destruct Hb as [Hb|Hb]; [lia|].
  apply existsb_exists in Hb. destruct Hb as [y [Hy He]]. apply Ho. replace owner with y by lia. exact Hy.
Qed.

(** Transparent inputs of a transfer: a coin carrying a live lock of an owner the call's policy does
    not name is in no step — in the first gather and in the re-gather alike. *)
Theorem locked_utxo_not_reused change fuel db udb e tip acct pay sp oo permitted pol zc lp tspend lock canon steps s u x :
  NoDup (rrefs db) -> NoDup (map u_id udb) -> 1 <= p_trusted pol -> p_trusted pol <= p_untrusted pol ->
  (forall ci, canon = Some ci -> 0 < c_interval ci) ->
  (forall ci sa, canon = Some ci -> c_sel_anchor ci = Some sa -> sa <= c_boundary ci) ->
  In u udb -> u_lock u = Some x -> e_target e <= x ->
  (forall o, u_owner u = Some o -> ~ In o (overridable (LFPolicy lp))) ->
  propose_transfer change fuel db udb e tip acct pay sp oo permitted pol zc lp tspend lock canon = Ok steps ->
  In s steps -> ~ In (u_id u) (s_tins s).
Proof.
  intros Hn Hnu Ht Hu Hci Hsa Hin Hl Hx Ho HP Hs Hid.
  destruct (proposal_inputs_at_step_anchor _ _ _ _ _ _ _ _ _ _ _ _ _ _ _ _ _ _ Hn Hnu Ht Hu Hci Hsa HP) as [_ Hok].
  destruct (Hok s Hs) as [a [inputs [tins [_ [_ [_ [Hti [_ [_ [_ [_ [_ Htrows]]]]]]]]]]]].
  rewrite Hti in Hid. apply in_map_iff in Hid. destruct Hid as [u' [Eid Hu']].
  destruct (Htrows u' Hu') as [Hdb' [allow [_ Hsp]]].
  assert (u' = u).
  { clear - Hnu Hin Hdb' Eid. induction udb as [|y t IH]; [contradiction|]. cbn in Hnu. inversion Hnu as [|? ? Hy Hnt]; subst.
    destruct Hin as [->|Hin], Hdb' as [->|Hdb']; [reflexivity | | | apply IH; assumption].
    - exfalso. apply Hy. apply in_map_iff. exists u'. split; [exact Eid | exact Hdb'].
    - exfalso. apply Hy. apply in_map_iff. exists u. split; [symmetry; exact Eid | exact Hin]. }
  subst u'. unfold utxo_spendable_acct, utxo_core in Hsp. rewrite !andb_true_iff in Hsp.
  destruct Hsp as [_ [[_ Hlk] _]]. unfold utxo_not_locked_by_other in Hlk. rewrite Hl in Hlk.
  apply orb_true_iff in Hlk. destruct Hlk as [Hlk|Hlk]; [lia|].
  destruct (u_owner u) as [o|]; [|discriminate].
  apply existsb_exists in Hlk. destruct Hlk as [y [Hy He]]. apply (Ho o eq_refl). replace o with y by lia. exact Hy.
Qed.

(** ** store_transactions_to_be_sent: unlock_spent_notes releases exactly the locks of the outputs
       the stored transaction spends, in their own pool's table *)

Lemma spent_by_spec refs r : spent_by refs r = true <-> In (r_pool r, r_id r) refs.
Proof.
  unfold spent_by. rewrite existsb_exists. split.
  - intros [x [Hx Hs]]. apply same_ref_eq in Hs. subst x. exact Hx.
  - intros H. exists (r_pool r, r_id r). split; [exact H | apply same_ref_eq; reflexivity].
Qed.

Theorem unlock_spent_exact refs db :
  rrefs (unlock_spent refs db) = rrefs db
  /\ forall r, In r db ->
       (In (r_pool r, r_id r) refs -> In (clear_lock r) (unlock_spent refs db))
       /\ (~ In (r_pool r, r_id r) refs -> In r (unlock_spent refs db)).
Proof.
  unfold unlock_spent. split.
  - unfold rrefs. rewrite map_map. apply map_ext. intros r. destruct (spent_by refs r); reflexivity.
  - intros r Hr. split; intros H.
    + apply in_map_iff. exists r. split; [|exact Hr]. rewrite (proj2 (spent_by_spec refs r) H). reflexivity.
    + apply in_map_iff. exists r. split; [|exact Hr]. destruct (spent_by refs r) eqn:E; [|reflexivity].
      exfalso. apply H. apply spent_by_spec. exact E.
Qed.

(** A lock held on an output the stored transaction does not spend survives the store — whatever
    row ids the spent outputs have in other pools' tables. *)
Theorem store_keeps_other_locks refs db owner expiry r :
  In r db -> held owner expiry r -> ~ In (r_pool r, r_id r) refs ->
  In r (unlock_spent refs db) /\ held owner expiry r.
Proof. intros Hr Hh Hn. split; [apply (unlock_spent_exact refs db); assumption | exact Hh]. Qed.

Theorem store_keeps_other_utxo_locks ids udb u :
  In u udb -> ~ In (u_id u) ids -> In u (unlock_spent_utxos ids udb).
Proof.
  intros Hu Hn. unfold unlock_spent_utxos. apply in_map_iff. exists u. split; [|exact Hu].
  unfold u_spent_by. destruct (existsb (Z.eqb (u_id u)) ids) eqn:E; [|reflexivity].
  exfalso. apply Hn. apply existsb_exists in E. destruct E as [y [Hy He]]. replace (u_id u) with y by lia. exact Hy.
Qed.
