(** C08 — from the selection lemmas to the property: selected notes are spendable, none twice,
    steps balance, locked / pending notes are not reused, insufficient funds is an error, the
    greedy loop terminates. *)
From V.Lib Require Import Base.
From V.C08 Require Import Sql Model Spec ProofsSql ProofsSel.
From V.Gen Require Import C08SqlPred.
From Coq Require Import ZifyBool Permutation.
Local Open Scope Z_scope.

Definition rrefs (l : list note_row) : list (pool * Z) := map (fun r => (r_pool r, r_id r)) l.

Definition owners_opt (lf : lockfilter) : option (list Z) :=
  match lf with LFUnfiltered => None | LFPolicy _ => Some (overridable lf) end.

Lemma pool_eqb_eq a b : pool_eqb a b = true <-> a = b.
Proof. destruct a, b; cbn; split; congruence. Qed.

Lemma ref_eqb_eq a b : ref_eqb a b = true <-> a = b.
Proof.
  destruct a as [p i], b as [q j]. unfold ref_eqb. cbn. rewrite andb_true_iff, pool_eqb_eq.
  split; [intros [-> H]; f_equal; lia | intros H; inversion H; subst; split; [reflexivity | lia]].
Qed.

Lemma nodup_refs_spec l : nodup_refs l = true <-> NoDup l.
Proof.
  induction l as [|x t IH]; cbn; [split; [constructor | reflexivity]|].
  rewrite andb_true_iff, negb_true_iff, IH. split.
  - intros [H1 H2]. constructor; [|exact H2]. intros Hin.
    assert (existsb (ref_eqb x) t = true) by (apply existsb_exists; exists x; split; [exact Hin | apply ref_eqb_eq; reflexivity]).
    congruence.
  - intros H. inversion H as [|? ? Hn Ht]; subst. split; [|exact Ht].
    destruct (existsb (ref_eqb x) t) eqn:E; [|reflexivity]. exfalso. apply Hn.
    apply existsb_exists in E. destruct E as [y [Hy He]]. apply ref_eqb_eq in He. subst. exact Hy.
Qed.

Lemma of_pool_in p db r : In r (of_pool p db) <-> In r db /\ r_pool r = p.
Proof. unfold of_pool. rewrite filter_In, pool_eqb_eq. reflexivity. Qed.

Lemma of_pool_ids_nodup p db : NoDup (rrefs db) -> NoDup (map r_id (of_pool p db)).
Proof.
  unfold rrefs, of_pool. induction db as [|r t IH]; cbn; intros H; [constructor|].
  inversion H as [|? ? Hn Ht]; subst.
  destruct (pool_eqb (r_pool r) p) eqn:E; [|apply IH; exact Ht].
  cbn. constructor; [|apply IH; exact Ht].
  intros Hin. apply Hn. apply in_map_iff in Hin. destruct Hin as [x [Hx Hi]].
  apply filter_In in Hi. destruct Hi as [Hi Hp]. apply pool_eqb_eq in Hp, E.
  apply in_map_iff. exists x. split; [congruence | exact Hi].
Qed.

(** ** select_matching: every selected row is spendable in the sense of Spec *)

Theorem select_matching_sound db e acct p anchor tv pol exclude lf r :
  1 <= p_trusted pol -> p_trusted pol <= p_untrusted pol ->
  In r (select_matching db e acct p anchor tv pol exclude lf) ->
  In r db
  /\ spendable (SC acct p (e_target e) anchor (tip_unscanned e p anchor) pol (owners_opt lf)) r = true
  /\ MARGINAL_FEE < r_value r
  /\ ~ In (r_id r) (excl_ids p exclude).
Proof.
  intros Ht Hu H. unfold select_matching in H.
  apply filter_In in H. destruct H as [H Hconf].
  apply window_select_incl in H.
  apply (Permutation_in _ (sort_rows_perm _ _)) in H.
  apply filter_In in H. destruct H as [H Hel].
  apply of_pool_in in H. destruct H as [Hdb Hp].
  rewrite eligible_where_spec in Hel. unfold eligible_spec in Hel. cbn [mk_q q_account q_anchor q_tip_unscanned q_exclude q_target q_owners] in Hel.
  rewrite !andb_true_iff in Hel.
  destruct Hel as [[[[[[[[[Ha Hv] _] _] _] Hm] Hw] Hx] Hs] Hl].
  rewrite has_confirmations_spec in Hconf by assumption.
  split; [exact Hdb|]. split.
  - unfold spendable. cbn [sc_acct sc_pool sc_target sc_pol sc_anchor sc_tipuns sc_owners].
    rewrite Ha, Hs, Hconf, Hm, Hw. rewrite (proj2 (pool_eqb_eq _ _) Hp). cbn.
    destruct lf; cbn in *; [reflexivity | exact Hl].
  - split; [lia|]. intros Hin. rewrite negb_true_iff in Hx.
    assert (existsb (Z.eqb (r_id r)) (excl_ids p exclude) = true)
      by (apply existsb_exists; exists (r_id r); split; [exact Hin | lia]).
    congruence.
Qed.

Theorem select_matching_nodup db e acct p anchor tv pol exclude lf :
  NoDup (rrefs db) ->
  NoDup (map r_id (select_matching db e acct p anchor tv pol exclude lf)).
Proof.
  intros H. unfold select_matching.
  set (q := mk_q e acct p anchor exclude lf).
  assert (H1 : NoDup (map r_id (filter (row_passes q (eligible_where lf)) (of_pool p db)))).
  { pose proof (of_pool_ids_nodup p db H) as H0. revert H0. generalize (of_pool p db). intros l.
    induction l as [|x t IH]; cbn; intros Hn; [constructor|]. inversion Hn as [|? ? Hx Ht]; subst.
    destruct (row_passes q (eligible_where lf) x); [|apply IH; exact Ht]. cbn.
    constructor; [|apply IH; exact Ht]. intros Hin. apply Hx. apply in_map_iff in Hin.
    destruct Hin as [y [Hy Hi]]. apply filter_In in Hi. apply in_map_iff. exists y. split; [exact Hy | exact (proj1 Hi)]. }
  assert (H2 : NoDup (map r_id (sort_rows (row_leb lf q) (filter (row_passes q (eligible_where lf)) (of_pool p db))))).
  { eapply Permutation_NoDup; [|exact H1]. apply Permutation_map. symmetry. apply sort_rows_perm. }
  apply (window_select_nodup tv) in H2. revert H2.
  generalize (window_select tv (sort_rows (row_leb lf q) (filter (row_passes q (eligible_where lf)) (of_pool p db)))).
  intros l. induction l as [|x t IH]; cbn; intros Hn; [constructor|]. inversion Hn as [|? ? Hx Ht]; subst.
  destruct (has_confirmations pol (e_target e) x); [|apply IH; exact Ht]. cbn.
  constructor; [|apply IH; exact Ht]. intros Hin. apply Hx. apply in_map_iff in Hin.
  destruct Hin as [y [Hy Hi]]. apply filter_In in Hi. apply in_map_iff. exists y. split; [exact Hy | exact (proj1 Hi)].
Qed.

(** The SQL window (before the Rust-side confirmations filter) reaches the target or takes every
    eligible note. *)
Theorem select_window_covers db e acct p anchor tv exclude lf :
  NoDup (rrefs db) -> 0 <= MARGINAL_FEE ->
  let q := mk_q e acct p anchor exclude lf in
  let elig := sort_rows (row_leb lf q) (filter (row_passes q (eligible_where lf)) (of_pool p db)) in
  tv <= sum_values (window_select tv elig) \/ window_select tv elig = elig.
Proof.
  intros Hn Hm q elig. apply window_select_covers; [reflexivity | reflexivity | |].
  - intros r Hr. apply (Permutation_in _ (sort_rows_perm _ _)) in Hr. apply filter_In in Hr.
    destruct Hr as [_ Hr]. rewrite eligible_where_spec in Hr. unfold eligible_spec in Hr.
    rewrite !andb_true_iff in Hr. lia.
  - eapply Permutation_NoDup; [apply Permutation_map; symmetry; apply sort_rows_perm|].
    pose proof (of_pool_ids_nodup p db Hn) as H0. revert H0. generalize (of_pool p db). intros l.
    induction l as [|x t IH]; cbn; intros Hx; [constructor|]. inversion Hx as [|? ? Hx1 Ht]; subst.
    destruct (row_passes q (eligible_where lf) x); [|apply IH; exact Ht]. cbn.
    constructor; [|apply IH; exact Ht]. intros Hin. apply Hx1. apply in_map_iff in Hin.
    destruct Hin as [y [Hy Hi]]. apply filter_In in Hi. apply in_map_iff. exists y. split; [exact Hy | exact (proj1 Hi)].
Qed.

(** ** select_unspent (send-max path) *)
Theorem select_unspent_sound db e acct p anchor ev pol exclude lf l r :
  1 <= p_trusted pol -> p_trusted pol <= p_untrusted pol ->
  select_unspent db e acct p anchor ev pol exclude lf = Ok l -> In r l ->
  In r db /\ spendable (SC acct p (e_target e) anchor false pol (owners_opt lf)) r = true.
Proof.
  intros Ht Hu H Hin. unfold select_unspent in H.
  assert (Hrow : In r (filter (row_passes (mk_q e acct p anchor exclude lf) (unspent_where lf)) (of_pool p db))
                 /\ unspent_ok e anchor pol r = true).
  { destruct ev.
    - destruct (forallb _ _) eqn:E; [|discriminate]. inversion H; subst. split; [exact Hin|].
      rewrite forallb_forall in E. apply E. exact Hin.
    - inversion H; subst. apply filter_In in Hin. exact Hin. }
  destruct Hrow as [Hrow Hok]. apply filter_In in Hrow. destruct Hrow as [Hrow Hw].
  apply of_pool_in in Hrow. destruct Hrow as [Hdb Hp]. split; [exact Hdb|].
  unfold unspent_ok in Hok. rewrite !andb_true_iff in Hok. destruct Hok as [[Hwit Hm] Hc].
  rewrite has_confirmations_spec in Hc by assumption.
  unfold row_passes in Hw.
  assert (Hparts : (r_acct r =? acct) = true /\ unspent_at (e_target e) r = true
            /\ match lf with LFUnfiltered => True | LFPolicy _ => not_locked_by_other (e_target e) (overridable lf) r = true end).
  { destruct lf as [|lp]; unfold unspent_where, unspent_where_unfiltered, unspent_where_policy in Hw;
      cbn [eval] in Hw; rewrite !truthy_and in Hw; rewrite !andb_true_iff in Hw.
    - destruct Hw as [[[[[[[[Ha _] _] _] _] _] _] Hs] _].
      cbn [row_cols q_pv mk_q q_account] in Ha. rewrite truthy_b2v in Ha.
      rewrite truthy_b2v, spent_at_spec, negb_involutive in Hs. cbn [mk_q q_target] in Hs. auto.
    - destruct Hw as [[[[[[[[Ha _] _] _] _] _] _] Hs] Hl].
      cbn [row_cols q_pv mk_q q_account] in Ha. rewrite truthy_b2v in Ha.
      rewrite truthy_b2v, spent_at_spec, negb_involutive in Hs. cbn [mk_q q_target] in Hs.
      split; [exact Ha|]. split; [exact Hs|].
      pose proof (lock_eligible_policy_spec (mk_q e acct p anchor exclude (LFPolicy lp)) r) as HL.
      unfold lock_eligible_policy in HL. cbn [eval] in HL. cbn [eval] in Hl. cbn [mk_q q_target q_owners] in HL.
      rewrite !truthy_or in HL. rewrite !truthy_or in Hl. rewrite <- HL. exact Hl. }
  destruct Hparts as [Ha [Hs Hl]].
  unfold spendable. cbn [sc_acct sc_pool sc_target sc_pol sc_anchor sc_tipuns sc_owners].
  rewrite Ha, Hs, Hc. rewrite (proj2 (pool_eqb_eq _ _) Hp).
  unfold mined_le. unfold witnessable. cbn [negb andb].
  destruct (r_block r); [|discriminate]. rewrite Hm.
  replace (r_stab r || match r_prio r with Some p0 => p0 <=? 10 | None => false end) with true
    by (symmetry; exact Hwit).
  destruct lf; cbn; [reflexivity | exact Hl].
Qed.

(** ** locked and pending notes are never selected *)

Theorem locked_not_selected db e acct p anchor tv pol exclude lp r x :
  1 <= p_trusted pol -> p_trusted pol <= p_untrusted pol ->
  r_lock r = Some x -> e_target e <= x ->
  (forall o, r_owner r = Some o -> ~ In o (overridable (LFPolicy lp))) ->
  ~ In r (select_matching db e acct p anchor tv pol exclude (LFPolicy lp)).
Proof.
  intros Ht Hu Hl Hx Ho Hin. apply select_matching_sound in Hin; [|assumption|assumption].
  destruct Hin as [_ [Hs _]]. unfold spendable in Hs. rewrite !andb_true_iff in Hs.
  destruct Hs as [_ Hs]. cbn [sc_owners owners_opt sc_target] in Hs.
  unfold not_locked_by_other in Hs. rewrite Hl in Hs.
  apply orb_true_iff in Hs. destruct Hs as [Hs|Hs]; [lia|].
  destruct (r_owner r) as [o|]; [|discriminate].
  apply existsb_exists in Hs. destruct Hs as [y [Hy He]]. apply (Ho o eq_refl).
  replace o with y by lia. exact Hy.
Qed.

Theorem pending_not_selected db e acct p anchor tv pol exclude lf r s :
  1 <= p_trusted pol -> p_trusted pol <= p_untrusted pol ->
  In s (r_spenders r) -> spender_counts (e_target e) s = true ->
  ~ In r (select_matching db e acct p anchor tv pol exclude lf).
Proof.
  intros Ht Hu Hs Hc Hin. apply select_matching_sound in Hin; [|assumption|assumption].
  destruct Hin as [_ [Hsp _]]. unfold spendable in Hsp. rewrite !andb_true_iff in Hsp.
  destruct Hsp as [[[[[_ Hun] _] _] _] _]. cbn [sc_target] in Hun.
  unfold unspent_at in Hun. rewrite forallb_forall in Hun. specialize (Hun s Hs).
  rewrite Hc in Hun. discriminate.
Qed.

(** A transaction stored by the wallet (unmined, expiry height x) keeps its inputs out of every
    selection at target heights up to x. *)
Lemma stored_pending_counts target x m : target <= x -> spender_counts target (Sp None (Some x) m) = true.
Proof. intros H. unfold spender_counts. cbn. lia. Qed.

(** ** lock_outputs *)

Lemma same_ref_eq x r : same_ref x r = true <-> x = (r_pool r, r_id r).
Proof.
  destruct x as [p i]. unfold same_ref. cbn. rewrite andb_true_iff, pool_eqb_eq.
  split; [intros [-> H]; f_equal; lia | intros H; inversion H; subst; split; [reflexivity | lia]].
Qed.

Definition held (owner expiry : Z) (r : note_row) : Prop :=
  r_lock r = Some expiry /\ r_owner r = Some owner.

Lemma lock_one_refs tip owner expiry x db db' :
  lock_one tip owner expiry x db = Some db' -> rrefs db' = rrefs db.
Proof.
  unfold lock_one. destruct (existsb _ db); [|discriminate]. intros H. inversion H; subst. clear H.
  unfold rrefs. rewrite map_map. apply map_ext. intros r.
  destruct (same_ref x r && lockable tip owner r); reflexivity.
Qed.

Lemma lock_one_holds tip owner expiry x db db' :
  NoDup (rrefs db) ->
  lock_one tip owner expiry x db = Some db' ->
  (forall r', In r' db' -> same_ref x r' = true -> held owner expiry r')
  /\ (forall r', In r' db' -> (exists r, In r db /\ (r' = r \/ r' = set_lock owner expiry r)))
  /\ (exists r, In r db /\ same_ref x r = true /\ lockable_spec tip owner r = true).
Proof.
  intros Hn. unfold lock_one. destruct (existsb _ db) eqn:E; [|discriminate]. intros H. inversion H; subst. clear H.
  apply existsb_exists in E. destruct E as [r0 [Hr0 E]]. apply andb_true_iff in E. destruct E as [E1 E2].
  split; [|split].
  - intros r' Hin Hs. apply in_map_iff in Hin. destruct Hin as [r [Hr Hin]].
    destruct (same_ref x r && lockable tip owner r) eqn:E.
    + subst r'. split; reflexivity.
    + subst r'. (* r matches x, so r = r0 by uniqueness, contradiction with lockable r0 *)
      exfalso. apply same_ref_eq in Hs, E1.
      assert (r = r0).
      { clear - Hn Hin Hr0 Hs E1. unfold rrefs in Hn. induction db as [|y t IH]; [contradiction|].
        cbn in Hn. inversion Hn as [|? ? Hy Ht]; subst.
        destruct Hin as [->|Hin], Hr0 as [->|Hr0]; [reflexivity | | |apply IH; assumption].
        - exfalso. apply Hy. apply in_map_iff. exists r0. split; [congruence | exact Hr0].
        - exfalso. apply Hy. apply in_map_iff. exists r. split; [congruence | exact Hin]. }
      subst r0. rewrite (proj2 (same_ref_eq x r) Hs), E2 in E. discriminate.
  - intros r' Hin. apply in_map_iff in Hin. destruct Hin as [r [Hr Hin]]. exists r. split; [exact Hin|].
    destruct (same_ref x r && lockable tip owner r); [right | left]; congruence.
  - exists r0. rewrite <- lockable_is_spec. auto.
Qed.

Lemma held_set_lock owner expiry r : held owner expiry (set_lock owner expiry r).
Proof. split; reflexivity. Qed.

Lemma lock_outputs_preserves_held tip owner expiry x t : forall db1 db',
  NoDup (rrefs db1) ->
  lock_outputs tip owner expiry t db1 = Some db' ->
  (forall r', In r' db1 -> same_ref x r' = true -> held owner expiry r') ->
  forall r', In r' db' -> same_ref x r' = true -> held owner expiry r'.
Proof.
  induction t as [|z t' IHt]; intros db1 db' Hn1 H H1 r' Hin Hs; cbn in H.
  - inversion H; subst. apply H1; assumption.
  - destruct (lock_one tip owner expiry z db1) as [db2|] eqn:E2; [|discriminate].
    pose proof (lock_one_refs _ _ _ _ _ _ E2) as Hr2.
    assert (Hn2 : NoDup (rrefs db2)) by (rewrite Hr2; exact Hn1).
    destruct (lock_one_holds _ _ _ _ _ _ Hn1 E2) as [_ [Hstep _]].
    eapply (IHt db2 db'); try eassumption.
    intros r2 Hin2 Hs2. destruct (Hstep r2 Hin2) as [r1 [Hr1in [->| ->]]].
    + apply H1; assumption.
    + apply held_set_lock.
Qed.

(** After a successful lock_outputs every referenced output is held by [owner] until [expiry]. *)
Theorem lock_outputs_holds tip owner expiry refs : forall db db',
  NoDup (rrefs db) ->
  lock_outputs tip owner expiry refs db = Some db' ->
  rrefs db' = rrefs db
  /\ forall x r', In x refs -> In r' db' -> same_ref x r' = true -> held owner expiry r'.
Proof.
  induction refs as [|x t IH]; intros db db' Hn H; cbn in H.
  - inversion H; subst. split; [reflexivity | intros ? ? []].
  - destruct (lock_one tip owner expiry x db) as [db1|] eqn:E; [|discriminate].
    pose proof (lock_one_refs _ _ _ _ _ _ E) as Hr1.
    assert (Hn1 : NoDup (rrefs db1)) by (rewrite Hr1; exact Hn).
    destruct (IH db1 db' Hn1 H) as [Hr2 Hheld].
    split; [congruence|].
    intros y r' [<-|Hy] Hin Hs; [|eapply Hheld; eauto].
    destruct (lock_one_holds _ _ _ _ _ _ Hn E) as [H1 _].
    eapply lock_outputs_preserves_held; eassumption.
Qed.
