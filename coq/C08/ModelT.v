(** C08 — transparent inputs: get_spendable_transparent_outputs_for_addresses and the shielding
    proposal (ShieldingSelector::propose_shielding, data_api::wallet::propose_shielding).

    The WHERE clause is the regenerated tree [utxo_where_*] of V.Gen.C08SqlPred
    (spendable_transparent_outputs_query with tx_unexpired_condition_minconf_0, spent_utxos_clause,
    excluding_wallet_internal_ephemeral_outputs, excluding_immature_coinbase_outputs, the coinbase
    filter, output_eligible_condition and the no-key-material exclusion substituted as the Rust
    code does). No proofs in this file. *)
From V.Lib Require Import Base.
From V.C08 Require Import Sql Model.
From V.Gen Require Import C08SqlPred.
Local Open Scope Z_scope.

(** A row of transparent_received_outputs joined with its address, account and creating tx. *)
Record utxo_row := U {
  u_id : Z;
  u_acct : Z;
  u_addr : Z;                  (* index of addresses.cached_transparent_receiver_address *)
  u_scope : Z;                 (* addresses.key_scope: 0 external, 1 internal, 2 ephemeral, -1 foreign *)
  u_value : Z;
  u_mined : option Z;          (* t.mined_height *)
  u_expiry : option Z;         (* t.expiry_height *)
  u_txindex : option Z;        (* t.tx_index (0 = coinbase) *)
  u_maxobs : option Z;         (* u.max_observed_unspent_height *)
  u_no_wallet_inputs : bool;   (* creating tx has no input of this account (v_received_output_spends) *)
  u_imp_pubkey : bool;         (* addresses.imported_transparent_receiver_pubkey IS NOT NULL *)
  u_imp_script : bool;
  u_lock : option Z;
  u_owner : option Z;
  u_spenders : list spender;
  u_rank : Z                   (* rank of the outpoint (txid, n) in OutPoint order *)
}.

Definition utxo_cols (u : utxo_row) (c : col) : sval :=
  match c with
  | C_rn_id => VInt (u_id u)
  | C_u_value => VInt (u_value u)
  | C_u_maxobs => ov (u_maxobs u)
  | C_addr => VInt (u_addr u)
  | C_addr_key_scope => VInt (u_scope u)
  | C_addr_imp_pubkey => nn (u_imp_pubkey u)
  | C_addr_imp_script => nn (u_imp_script u)
  | C_t_mined => ov (u_mined u)
  | C_t_expiry => ov (u_expiry u)
  | C_t_txindex => ov (u_txindex u)
  | C_u_no_wallet_inputs => bv (u_no_wallet_inputs u)
  | C_rn_lock_expiry => ov (u_lock u)
  | C_rn_lock_owner => ov (u_owner u)
  | C_account_uuid => VInt (u_acct u)
  | _ => VNull
  end.

Inductive cbfilter := CbAll | CbOnly | CbNon.
Definition cbfilter_code (f : cbfilter) : Z := match f with CbAll => 0 | CbOnly => 1 | CbNon => 2 end.

Record uparams := UQ {
  uq_target : Z; uq_minconf : Z; uq_filter : cbfilter; uq_addrs : list Z; uq_owners : list Z
}.

Definition uq_pv (q : uparams) (p : param) : sval :=
  match p with
  | P_min_value => VInt MARGINAL_FEE
  | P_target_height => VInt (uq_target q)
  | P_min_confirmations => VInt (uq_minconf q)
  | P_coinbase_filter => VInt (cbfilter_code (uq_filter q))
  | _ => VNull
  end.

Definition uq_lv (q : uparams) (l : lparam) : list Z :=
  match l with L_addresses => uq_addrs q | L_overridable_owners => uq_owners q | L_exclude => [] end.

Definition utxo_spent (target : Z) (u : utxo_row) : bool := existsb (spender_unexpired target) (u_spenders u).

Definition utxo_where (lf : lockfilter) : expr :=
  match lf with LFUnfiltered => utxo_where_unfiltered | LFPolicy _ => utxo_where_policy end.

Definition utxo_passes (q : uparams) (lf : lockfilter) (u : utxo_row) : bool :=
  truthy (eval (utxo_cols u) (uq_pv q) (uq_lv q) (utxo_spent (uq_target q) u) (utxo_where lf)).

(** min_confirmations: transparent outputs are untrusted; zero when zero-conf shielding is allowed *)
Definition minconf (pol : policy) (zero_conf : bool) : Z := if zero_conf then 0 else p_untrusted pol.

(** get_spendable_transparent_outputs_for_addresses *)
Definition select_utxos (udb : list utxo_row) (target : Z) (addrs : list Z) (pol : policy) (zero_conf : bool)
    (f : cbfilter) (lf : lockfilter) : list utxo_row :=
  match addrs with
  | [] => []
  | _ => filter (utxo_passes (UQ target (minconf pol zero_conf) f addrs (overridable lf)) lf) udb
  end.

(** ** select_spendable_transparent_outputs (the transparent gather of propose_transaction) *)

Record gparams := GQ {
  gq_acct : Z; gq_allow : option (list Z);   (* TransparentSource: None = any address of the account *)
  gq_target : Z; gq_minconf : Z; gq_filter : cbfilter; gq_owners : list Z
}.

Definition gq_pv (q : gparams) (p : param) : sval :=
  match p with
  | P_account_uuid => VInt (gq_acct q)
  | P_has_allow_list => bv (match gq_allow q with Some _ => true | None => false end)
  | P_min_value => VInt MARGINAL_FEE
  | P_target_height => VInt (gq_target q)
  | P_min_confirmations => VInt (gq_minconf q)
  | P_coinbase_filter => VInt (cbfilter_code (gq_filter q))
  | _ => VNull
  end.

Definition gq_lv (q : gparams) (l : lparam) : list Z :=
  match l with
  | L_addresses => match gq_allow q with Some a => a | None => [] end
  | L_overridable_owners => gq_owners q
  | L_exclude => []
  end.

Definition utxo_gather_where (lf : lockfilter) : expr :=
  match lf with LFUnfiltered => utxo_gather_where_unfiltered | LFPolicy _ => utxo_gather_where_policy end.

Definition utxo_gather_passes (q : gparams) (lf : lockfilter) (u : utxo_row) : bool :=
  truthy (eval (utxo_cols u) (gq_pv q) (gq_lv q) (utxo_spent (gq_target q) u) (utxo_gather_where lf)).

(** ORDER BY [lock tier,] value DESC (ties by output index are outside the model: Wf demands
    distinct values) *)
Definition u_tier (target : Z) (u : utxo_row) : Z :=
  if truthy (eval (utxo_cols u) (fun p => match p with P_target_height => VInt target | _ => VNull end)
                  (fun _ => []) false locked_tier_cond) then 1 else 0.

Definition u_tier_key (lf : lockfilter) (target : Z) (u : utxo_row) : Z :=
  match lf with
  | LFPolicy (LPreferUnlocked _) => u_tier target u
  | LFPolicy (LPreferLocked _) => 1 - u_tier target u
  | _ => 0
  end.

Definition gather_leb (lf : lockfilter) (target : Z) (a b : utxo_row) : bool :=
  let ta := u_tier_key lf target a in let tb := u_tier_key lf target b in
  (ta <? tb) || ((ta =? tb) && (u_value b <=? u_value a)).

Fixpoint insert_g (le : utxo_row -> utxo_row -> bool) (x : utxo_row) (l : list utxo_row) : list utxo_row :=
  match l with
  | [] => [x]
  | y :: t => if le x y then x :: l else y :: insert_g le x t
  end.
Definition sort_g (le : utxo_row -> utxo_row -> bool) (l : list utxo_row) : list utxo_row := fold_right (insert_g le) [] l.

(** ZIP 317 fee of [n] P2PKH inputs alone: marginal fee times max(grace actions = 2, n). *)
Definition gather_fee (n : Z) : Z := MARGINAL_FEE * Z.max 2 n.

(** the Rust-side accumulation: stop at the input cap, or once value - fee reaches the target *)
Fixpoint accumulate_utxos (target : option Z) (cap : nat) (n acc : Z) (l : list utxo_row) : list utxo_row :=
  match l with
  | [] => []
  | u :: t =>
      match cap with
      | O => []
      | S cap' =>
          if match target with Some tv => tv <=? Z.max 0 (acc - gather_fee n) | None => false end then []
          else u :: accumulate_utxos target cap' (n + 1) (acc + u_value u) t
      end
  end.

Definition select_transparent (udb : list utxo_row) (acct : Z) (allow : option (list Z)) (target_height : Z)
    (pol : policy) (zero_conf : bool) (f : cbfilter) (target : option Z) (lf : lockfilter) : list utxo_row :=
  let q := GQ acct allow target_height (minconf pol zero_conf) f (overridable lf) in
  accumulate_utxos target (Z.to_nat SHIELDING_MAX_INPUTS) 0 0
    (sort_g (gather_leb lf target_height) (filter (utxo_gather_passes q lf) udb)).

(** ** gather_shielding_inputs: highest value first (outpoint order breaks ties), capped *)
Definition utxo_leb (a b : utxo_row) : bool :=
  (u_value b <? u_value a) || ((u_value a =? u_value b) && (u_rank a <=? u_rank b)).

Fixpoint insert_utxo (x : utxo_row) (l : list utxo_row) : list utxo_row :=
  match l with
  | [] => [x]
  | y :: t => if utxo_leb x y then x :: l else y :: insert_utxo x t
  end.
Definition sort_utxos (l : list utxo_row) : list utxo_row := fold_right insert_utxo [] l.

Definition distinct_addrs (l : list utxo_row) : list Z :=
  fold_right (fun u acc => if existsb (Z.eqb (u_addr u)) acc then acc else u_addr u :: acc) [] l.

Definition gather (udb : list utxo_row) (target : Z) (addrs : list Z) (pol : policy) (zero_conf : bool)
    (f : cbfilter) (lp : lip) : outcome (list utxo_row) perr :=
  let l := firstn (Z.to_nat SHIELDING_MAX_INPUTS)
             (sort_utxos (select_utxos udb target addrs pol zero_conf f (LFPolicy lp))) in
  if existsb (fun u => u_scope u =? EPHEMERAL_KEY_SCOPE) l && (1 <? Z.of_nat (length (distinct_addrs l)))
  then Err EProposal     (* EphemeralAddressLinkability *)
  else Ok l.

(** ** the shielding step: Step::from_parts with is_shielding = true *)
Inductive tchange_result :=
| TBal (cs : list (cpool * Z)) (fee : Z)
| TInsuff (required : Z)
| TDust (ids : list Z)
| TErr.

Definition sum_utxos (l : list utxo_row) : Z := fold_right (fun u a => u_value u + a) 0 l.

Definition shield_step (ironwood_active : bool) (inputs : list utxo_row) (anchor : Z)
    (cs : list (cpool * Z)) (fee : Z) : outcome step perr :=
  let tin := sum_utxos inputs in
  let output_total := change_total cs + fee in
  let orchard_change := change_total (change_in Orchard cs) in
  if tin =? 0 then Err EProposal                                             (* ShieldingInvalid *)
  else if ironwood_active && (0 <? orchard_change) then Err EProposal         (* OrchardPoolValueCreation: no Orchard input *)
  else if tin =? output_total
  then Ok (Step [] tin (map u_id inputs) 0 cs fee (Some anchor))
  else Err EBalance.

(** lock_outputs on transparent_received_outputs *)
Definition u_lockable (tip : option Z) (owner : Z) (u : utxo_row) : bool :=
  truthy (eval (utxo_cols u)
               (fun p => match p with P_chain_tip => ov tip | P_owner => VInt owner | _ => VNull end)
               (fun _ => []) false lockable_cond).

Definition lock_utxos_ok (tip : option Z) (owner : Z) (ids : list Z) (udb : list utxo_row) : bool :=
  forallb (fun i => existsb (fun u => u_id u =? i) udb
                    && forallb (fun u => negb (u_id u =? i) || u_lockable tip owner u) udb) ids.

(** unlock_spent_notes on transparent_received_outputs *)
Definition u_clear_lock (u : utxo_row) : utxo_row :=
  U (u_id u) (u_acct u) (u_addr u) (u_scope u) (u_value u) (u_mined u) (u_expiry u) (u_txindex u) (u_maxobs u)
    (u_no_wallet_inputs u) (u_imp_pubkey u) (u_imp_script u) None None (u_spenders u) (u_rank u).

Definition u_spent_by (ids : list Z) (u : utxo_row) : bool := existsb (Z.eqb (u_id u)) ids.

Definition unlock_spent_utxos (ids : list Z) (udb : list utxo_row) : list utxo_row :=
  map (fun u => if u_spent_by ids u then u_clear_lock u else u) udb.

Section Shield.
  Variable change : list utxo_row -> tchange_result.

  Definition shielding_balance (inputs : list utxo_row) : outcome (list utxo_row * list (cpool * Z) * Z) perr :=
    match change inputs with
    | TBal cs fee => Ok (inputs, cs, fee)
    | TDust d =>
        let inputs' := filter (fun u => negb (existsb (Z.eqb (u_id u)) d)) inputs in
        match change inputs' with
        | TBal cs fee => Ok (inputs', cs, fee)
        | _ => Err EChange
        end
    | _ => Err EChange
    end.

  Definition propose_shielding (udb : list utxo_row) (e : env) (tip : option Z) (threshold : Z) (addrs : list Z)
      (pol : policy) (zero_conf : bool) (f : cbfilter) (lp : lip) (iw : bool) (lock : option (Z * Z))
      : outcome (list step) perr :=
    match e_anchor e with
    | None => Err ESyncRequired
    | Some anchor =>
        match gather udb (e_target e) addrs pol zero_conf f lp with
        | Ok inputs =>
            match shielding_balance inputs with
            | Ok (inputs', cs, fee) =>
                if threshold <=? change_total cs + fee then
                  match shield_step iw inputs' anchor cs fee with
                  | Ok s =>
                      match lock with
                      | None => Ok [s]
                      | Some (owner, _) => if lock_utxos_ok tip owner (s_tins s) udb then Ok [s] else Err ELocked
                      end
                  | Err x => Err x
                  | Panic => Panic
                  end
                else Err EInsufficient
            | Err x => Err x
            | Panic => Panic
            end
        | Err x => Err x
        | Panic => Panic
        end
    end.
End Shield.
