(** C08 — domain of the theorems: unique note ids, a well-formed confirmations policy,
    non-negative values and heights. *)
From V.Lib Require Import Base.
From V.C08 Require Import Sql Model ModelT Spec Corr.
Local Open Scope Z_scope.

Definition wf_policy (pol : policy) : bool := (1 <=? p_trusted pol) && (p_trusted pol <=? p_untrusted pol).

Definition wf_row (r : note_row) : bool :=
  (0 <=? r_value r) && match r_block r with Some h => 0 <=? h | None => true end
  && match r_shin r with Some h => 0 <=? h | None => true end
  && match r_lock r with Some h => 0 <=? h | None => true end.

Definition wf_db (db : list note_row) : bool :=
  nodup_refs (refs_of db) && forallb wf_row db.

(** The window order is only determined when sort keys are distinct: positions are unique per pool. *)
Definition distinct_positions (db : list note_row) : bool :=
  nodup_refs (map (fun r => (r_pool r, pos_key r)) (filter (fun r => match r_block r with Some _ => true | None => false end) db)).

Definition wf_case (c : case) : bool :=
  match c with
  | CSelect db e _ _ _ pol _ _ _ => wf_db db && wf_policy pol && (0 <=? e_target e) && distinct_positions db
  | CPropose db udb e _ pay _ _ _ pol _ _ _ _ _ _ _ =>
      wf_db db && wf_policy pol && (0 <=? e_target e) && (0 <=? pay) && distinct_positions db
      && nodup_z (map u_id udb) && nodup_z (map u_value udb)   (* the gather's ORDER BY value is total *)
  | CLock db _ _ _ _ _ _ => wf_db db
  | CTSelect udb _ _ pol _ _ _ _ => nodup_z (map u_id udb) && wf_policy pol
  | CShield udb e _ _ pol _ _ _ _ _ _ _ => nodup_z (map u_id udb) && wf_policy pol && (0 <=? e_target e)
  | CStore db udb _ _ _ post upost =>
      nodup_refs (refs_of db) && nodup_refs (refs_of post) && nodup_z (map u_id udb) && nodup_z (map u_id upost)
  end.
