(** C12 — every accepted URI yields a well-formed request obeying each ZIP 321 rule, and that
    request re-renders to a URI that parses to the same request. *)
From V.Lib Require Import Base MachInt.
From V.Gen Require Import C12Consts.
From V.C12 Require Import Model Spec ProofsPct ProofsB64 ProofsAmount ProofsRender.
From Coq Require Import ZifyBool.
Local Open Scope Z_scope.

Lemma ascii_utf8 l : forallb (fun c => (0 <=? c) && (c <? 128)) l = true -> utf8_valid l = true.
Proof.
  induction l as [|c l IH]; [reflexivity|]. cbn [forallb utf8_valid]. intros H.
  apply andb_true_iff in H. destruct H as [A B]. destruct (c <? 128) eqn:E; [|lia].
  rewrite (IH B). lia.
Qed.
Lemma namechar_ascii c : is_namechar c = true -> (0 <=? c) && (c <? 128) = true.
Proof.
  unfold is_namechar, is_alnum, is_alpha, is_upper, is_lower, is_digit, in_set. cbn [existsb]. lia.
Qed.
Lemma valid_name_utf8 n : valid_nameb n = true -> utf8_valid n = true.
Proof.
  intros V. apply ascii_utf8. destruct n as [|c t]; [reflexivity|]. cbn [valid_nameb] in V.
  apply andb_true_iff in V. destruct V as [A B]. cbn [forallb].
  rewrite (namechar_ascii c (is_alpha_namechar c A)). eapply forallb_impl; [apply namechar_ascii | exact B].
Qed.

Lemma dec_val_bound l : forallb is_digit l = true -> 0 <= dec_val l < 10 ^ Z.of_nat (length l).
Proof.
  induction l as [|c l IH] using rev_ind; intros H; [cbn; lia|].
  rewrite forallb_app in H. apply andb_true_iff in H. destruct H as [A B]. cbn [forallb] in B.
  rewrite dec_val_snoc, app_length. cbn [length]. rewrite Nat.add_1_r, Nat2Z.inj_succ, Z.pow_succ_r by lia.
  specialize (IH A). unfold is_digit in B. lia.
Qed.

(** ** indexed_name: what it returns *)
Lemma indexed_name_spec input name iopt r : indexed_name input = Some (name, iopt, r) ->
  valid_nameb name = true /\
  match iopt with
  | None => True
  | Some istr => forallb is_digit istr = true /\ (1 <= length istr <= 4)%nat
  end.
Proof.
  unfold indexed_name. destruct (span is_alpha input) as [a r1] eqn:S1.
  destruct (span_spec _ _ _ _ S1) as (_ & Da & _).
  destruct (is_nil a) eqn:Na; [discriminate|].
  destruct (span is_namechar r1) as [n r2] eqn:S2. destruct (span_spec _ _ _ _ S2) as (_ & Dn & _).
  assert (V : valid_nameb (a ++ n) = true).
  { destruct a as [|c a']; [discriminate|]. cbn [app valid_nameb]. cbn [forallb] in Da.
    apply andb_true_iff in Da. destruct Da as [Dc Da]. rewrite Dc, forallb_app, Dn, andb_true_r.
    eapply forallb_impl; [apply is_alpha_namechar | exact Da]. }
  destruct r2 as [|c [|d r3]]; try (intros [= <- <- <-]; split; [exact V | exact I]).
  destruct ((c =? 46) && is_nonzero_digit d) eqn:E; [|intros [= <- <- <-]; split; [exact V | exact I]].
  destruct (span is_digit r3) as [ds r4] eqn:S3. destruct (span_spec _ _ _ _ S3) as (_ & Dd & _).
  destruct (3 <? length ds)%nat eqn:E3; intros [= <- <- <-]; (split; [exact V|]); [exact I|].
  apply Nat.ltb_ge in E3. apply andb_true_iff in E. destruct E as [_ E].
  cbn [forallb length]. rewrite Dd, andb_true_r. unfold is_nonzero_digit in E. unfold is_digit. split; lia.
Qed.

Section WithAddresses.
  Variable addr : Type.
  Variable addr_dec : bytes -> option addr.
  Variable addr_enc : addr -> bytes.
  Variable can_memo : addr -> bool.
  Variable t_only : addr -> bool.

  Notation payment := (payment addr).
  Notation request := (request addr).
  Notation param := (param addr).

  Definition good_param (q : param) : Prop :=
    match q with
    | PAddr _ => True
    | PAmount z => 0 <= z <= MAX_MONEY
    | PMemo m => length m = 512%nat /\ Forall byte m
    | PLabel s | PMessage s => utf8_valid s = true
    | POther n v => valid_nameb n = true /\ reservedb n = false /\ utf8_valid v = true
    end.
  Definition good_iparam (ip : param * Z) : Prop := good_param (fst ip) /\ 0 <= snd ip <= 9999.

  Lemma to_indexed_param_good name iopt value ip :
    valid_nameb name = true ->
    match iopt with None => True | Some istr => forallb is_digit istr = true /\ (1 <= length istr <= 4)%nat end ->
    to_indexed_param addr addr_dec name iopt value = Some ip -> good_iparam ip.
  Proof.
    intros V HI. unfold to_indexed_param.
    match goal with |- match ?o with Some _ => _ | None => _ end = _ -> _ => destruct o as [p|] eqn:Ep; [|discriminate] end.
    assert (Gp : good_param p).
    { destruct (bytes_eqb name s_address) eqn:E1.
      { destruct (addr_dec value); [|discriminate]. injection Ep as <-. exact I. }
      destruct (bytes_eqb name s_amount) eqn:E2.
      { destruct (parse_amount value) as [z|] eqn:PA; [|discriminate]. injection Ep as <-.
        apply amount_parse_exact in PA. cbn. tauto. }
      destruct (bytes_eqb name s_label) eqn:E3.
      { destruct (decode_str value) as [s|] eqn:D; [|discriminate]. injection Ep as <-. cbn. eapply decode_str_utf8; eauto. }
      destruct (bytes_eqb name s_message) eqn:E4.
      { destruct (decode_str value) as [s|] eqn:D; [|discriminate]. injection Ep as <-. cbn. eapply decode_str_utf8; eauto. }
      destruct (bytes_eqb name s_memo) eqn:E5.
      { destruct (memo_from_base64 value) as [m| |] eqn:M; try discriminate. injection Ep as <-.
        cbn. apply memo_from_base64_ok in M. exact M. }
      destruct (starts_with s_req name) eqn:E6; [discriminate|].
      destruct (decode_str value) as [s|] eqn:D; [|discriminate]. injection Ep as <-. cbn.
      split; [exact V|]. split; [|eapply decode_str_utf8; eauto].
      unfold reservedb, reserved_names. cbn [existsb]. rewrite E1, E2, E3, E4, E5, E6. reflexivity. }
    destruct iopt as [istr|].
    - destruct (parse_u64 istr) as [i|] eqn:PI; [|discriminate]. intros [= <-]. split; [exact Gp|]. cbn [snd].
      destruct (parse_u64_some _ _ PI) as (_ & _ & -> & _). destruct HI as [D L].
      pose proof (dec_val_bound istr D) as B.
      assert (10 ^ Z.of_nat (length istr) <= 10 ^ 4) by (apply Z.pow_le_mono_r; lia). lia.
    - intros [= <-]. split; [exact Gp | cbn; lia].
  Qed.

  Lemma zcashparam_good s ip rest : zcashparam addr addr_dec s = Some (ip, rest) -> good_iparam ip.
  Proof.
    unfold zcashparam. destruct (indexed_name s) as [[[name iopt] r]|] eqn:IN; [|discriminate].
    destruct (indexed_name_spec _ _ _ _ IN) as [V HI].
    destruct r as [|c r']; [discriminate|]. destruct (c =? 61); [|discriminate].
    destruct (span is_qchar r') as [value r''].
    destruct (to_indexed_param addr addr_dec name iopt value) as [ip'|] eqn:T; [|discriminate].
    intros [= <- <-]. eapply to_indexed_param_good; eauto.
  Qed.

  Lemma params_tail_good fuel : forall i acc xs r, Forall good_iparam acc ->
    params_tail addr addr_dec fuel i acc = (xs, r) -> Forall good_iparam xs.
  Proof.
    induction fuel as [|f IH]; intros i acc xs r Ha; cbn [params_tail]; [intros [= <- <-]; exact Ha|].
    destruct i as [|c i1]; [intros [= <- <-]; exact Ha|].
    destruct (c =? 38); [|intros [= <- <-]; exact Ha].
    destruct (zcashparam addr addr_dec i1) as [[p i2]|] eqn:Z; [|intros [= <- <-]; exact Ha].
    apply IH. apply Forall_app. split; [exact Ha|]. constructor; [|constructor]. eapply zcashparam_good; eauto.
  Qed.
  Lemma params_list_good i xs r : params_list addr addr_dec i = (xs, r) -> Forall good_iparam xs.
  Proof.
    unfold params_list. destruct (zcashparam addr addr_dec i) as [[p i1]|] eqn:Z; [|intros [= <- <-]; constructor].
    apply params_tail_good. constructor; [|constructor]. eapply zcashparam_good; eauto.
  Qed.

  (** ** grouping invariant *)
  Notation pnodupb := (pnodupb addr).
  Lemma pnodupb_snoc l : forall acc q,
    pnodupb acc (l ++ [q]) = pnodupb acc l && negb (has_duplicate_param addr (acc ++ l) q).
  Proof.
    induction l as [|x l IH]; intros acc q.
    - cbn [app ProofsRender.pnodupb]. rewrite app_nil_r, andb_true_r. reflexivity.
    - cbn [app ProofsRender.pnodupb]. rewrite IH, <- app_assoc. cbn [app]. rewrite andb_assoc. reflexivity.
  Qed.

  Definition good_group (g : Z * list param) : Prop :=
    0 <= fst g <= 9999 /\ Forall good_param (snd g) /\ pnodupb [] (snd g) = true.
  Definition ginv (m : list (Z * list param)) : Prop :=
    increasing (-1) (map fst m) = true /\ Forall good_group m.

  Lemma map_set_in {V} k (v : V) m : forall kv, In kv (map_set k v m) -> kv = (k, v) \/ In kv m.
  Proof.
    induction m as [|[k' v'] m IH]; intros kv H; cbn [map_set] in H.
    - destruct H as [<-|[]]. left. reflexivity.
    - destruct (k <? k'); [destruct H as [<-|H]; [left; reflexivity | right; exact H]|].
      destruct (k =? k'); [destruct H as [<-|H]; [left; reflexivity | right; right; exact H]|].
      destruct H as [<-|H]; [right; left; reflexivity|]. destruct (IH kv H); [left | right; right]; assumption.
  Qed.
  Lemma map_set_increasing {V} k (v : V) m : forall prev, prev < k -> increasing prev (map fst m) = true ->
    increasing prev (map fst (map_set k v m)) = true.
  Proof.
    induction m as [|[k' v'] m IH]; intros prev Hp H; cbn [map_set].
    - cbn. lia.
    - cbn [map fst increasing] in H. apply andb_true_iff in H. destruct H as [A B].
      destruct (k <? k') eqn:E1; [cbn [map fst increasing]; rewrite B; lia|].
      destruct (k =? k') eqn:E2; [cbn [map fst increasing]; apply Z.eqb_eq in E2; subst; rewrite B; lia|].
      cbn [map fst increasing]. rewrite IH by (try lia; exact B). lia.
  Qed.
  Lemma map_get_in {V} k (m : list (Z * V)) v : map_get k m = Some v -> In (k, v) m.
  Proof.
    induction m as [|[k' v'] m IH]; [discriminate|]. cbn [map_get]. destruct (k =? k') eqn:E.
    - intros [= <-]. apply Z.eqb_eq in E. subst. left. reflexivity.
    - intros H. right. apply IH, H.
  Qed.

  Lemma group_inv xs : forall m m', Forall good_iparam xs -> ginv m -> group addr xs m = inr m' -> ginv m'.
  Proof.
    induction xs as [|[p i] xs IH]; intros m m' Hx [Inc Gm]; cbn [group]; [intros [= <-]; split; assumption|].
    inversion Hx as [|? ? [Gp Gi] Hx']; subst. cbn [fst snd] in Gp, Gi.
    destruct (map_get i m) as [cur|] eqn:MG.
    - destruct (has_duplicate_param addr cur p) eqn:HD; [discriminate|].
      apply IH; [exact Hx'|]. split; [apply map_set_increasing; [lia | exact Inc]|].
      apply Forall_forall. intros kv Hkv. apply map_set_in in Hkv. rewrite Forall_forall in Gm.
      destruct Hkv as [->|Hkv]; [|apply Gm, Hkv].
      pose proof (Gm _ (map_get_in _ _ _ MG)) as (_ & Gc & Nc). cbn [fst snd] in *.
      unfold good_group. cbn [fst snd]. split; [lia|]. split.
      + apply Forall_app. split; [exact Gc | constructor; [exact Gp | constructor]].
      + rewrite pnodupb_snoc. cbn [app]. rewrite Nc, HD. reflexivity.
    - apply IH; [exact Hx'|]. split; [apply map_set_increasing; [lia | exact Inc]|].
      apply Forall_forall. intros kv Hkv. apply map_set_in in Hkv. rewrite Forall_forall in Gm.
      destruct Hkv as [->|Hkv]; [|apply Gm, Hkv]. split; [cbn [fst]; lia|]. cbn [snd]. split.
      + constructor; [exact Gp | constructor].
      + cbn. destruct p; reflexivity.
  Qed.

  (** ** to_payment on a good group *)
  Notation others_of := (others_of addr).

  Definition pay_ok (p : payment) : Prop :=
    wf_paymentb addr p = true /\ memo_rule addr can_memo p = true /\ zero_transparent_rule addr t_only p = true
    /\ other_names_rule addr p = true.

  Lemma apply_params_ok vs : forall i p0 p, Forall good_param vs -> pay_ok p0 ->
    apply_params addr can_memo t_only vs i p0 = Ok p ->
    pay_ok p /\ p_other p = p_other p0 ++ others_of vs.
  Proof.
    induction vs as [|v vs IH]; intros i p0 p Hv Hp; cbn [apply_params].
    - intros [= <-]. split; [exact Hp | cbn; rewrite app_nil_r; reflexivity].
    - inversion Hv as [|? ? Gv Hv']; subst. destruct Hp as (W & M & Zr & O).
      unfold wf_paymentb in W. repeat (apply andb_true_iff in W; destruct W as [W ?]).
      destruct v; cbn [good_param others_of] in *.
      + apply IH; [exact Hv' | repeat split; auto]. unfold wf_paymentb. repeat (apply andb_true_iff; split); assumption.
      + destruct (t_only (p_addr p0) && (z =? 0)) eqn:E; [discriminate|]. intros H'.
        apply IH in H'; [exact H' | exact Hv' |]. unfold pay_ok, wf_paymentb, memo_rule, zero_transparent_rule, other_names_rule in *.
        cbn [p_addr p_amount p_memo p_label p_message p_other opt_all]. rewrite E.
        repeat split; auto. repeat (apply andb_true_iff; split); try assumption; lia.
      + destruct (can_memo (p_addr p0)) eqn:E; [|discriminate]. intros H'.
        apply IH in H'; [exact H' | exact Hv' |]. unfold pay_ok, wf_paymentb, memo_rule, zero_transparent_rule, other_names_rule in *.
        cbn [p_addr p_amount p_memo p_label p_message p_other opt_all]. destruct Gv as [L B].
        repeat split; auto. repeat (apply andb_true_iff; split); try assumption; [apply Nat.eqb_eq; exact L|].
        unfold bytesb. apply forallb_forall. intros x Hx. rewrite Forall_forall in B. specialize (B x Hx).
        unfold byte in B. unfold byteb. lia.
      + intros H'. apply IH in H'; [exact H' | exact Hv' |].
        unfold pay_ok, wf_paymentb, memo_rule, zero_transparent_rule, other_names_rule in *.
        cbn [p_addr p_amount p_memo p_label p_message p_other opt_all].
        repeat split; auto. repeat (apply andb_true_iff; split); assumption.
      + intros H'. apply IH in H'; [exact H' | exact Hv' |].
        unfold pay_ok, wf_paymentb, memo_rule, zero_transparent_rule, other_names_rule in *.
        cbn [p_addr p_amount p_memo p_label p_message p_other opt_all].
        repeat split; auto. repeat (apply andb_true_iff; split); assumption.
      + intros H'. apply IH in H'; [|exact Hv' |].
        * destruct H' as [Pk Ot]. split; [exact Pk|]. rewrite Ot. cbn [p_other]. rewrite <- app_assoc. reflexivity.
        * destruct Gv as (Vn & Rn & Uv).
          unfold pay_ok, wf_paymentb, memo_rule, zero_transparent_rule, other_names_rule in *.
          cbn [p_addr p_amount p_memo p_label p_message p_other opt_all].
          repeat split; auto.
          -- repeat (apply andb_true_iff; split); try assumption.
             rewrite forallb_app. apply andb_true_iff. split; [assumption|]. cbn [forallb fst snd].
             rewrite (valid_name_utf8 n Vn), Uv. reflexivity.
          -- rewrite forallb_app, O. cbn [forallb fst]. rewrite Vn, Rn. reflexivity.
  Qed.

  Lemma to_payment_ok ps i p : Forall good_param ps -> pnodupb [] ps = true ->
    to_payment addr can_memo t_only ps i = Ok p ->
    wf_paymentb addr p = true /\ valid_paymentb addr can_memo t_only p = true.
  Proof.
    intros G N. unfold to_payment. destruct (find_addr addr ps) as [a|]; [|discriminate]. intros H.
    apply apply_params_ok in H; [|exact G | repeat split; try reflexivity; unfold zero_transparent_rule; cbn [p_addr p_amount]; rewrite andb_false_r; reflexivity].
    destruct H as [(W & M & Zr & O) Ot]. cbn [p_other app] in Ot.
    split; [exact W|]. unfold valid_paymentb. rewrite M, Zr, O. cbn [andb].
    unfold no_duplicate_rule. rewrite Ot. eapply (pnodup_others_nodup addr); exact N.
  Qed.

  Lemma build_ok m : forall r, Forall good_group m -> build addr can_memo t_only m = Ok r ->
    map fst r = map fst m /\ Forall (fun ip => wf_paymentb addr (snd ip) = true /\ valid_paymentb addr can_memo t_only (snd ip) = true) r.
  Proof.
    induction m as [|[i ps] m IH]; intros r G; cbn [build]; [intros [= <-]; split; [reflexivity | constructor]|].
    inversion G as [|? ? (Gi & Gp & Np) G']; subst. cbn [fst snd] in *.
    destruct (to_payment addr can_memo t_only ps i) as [p| |] eqn:T; try discriminate.
    destruct (build addr can_memo t_only m) as [q| |] eqn:B; try discriminate. intros [= <-].
    destruct (IH q G' eq_refl) as [K F]. split; [cbn [map fst]; rewrite K; reflexivity|].
    constructor; [|exact F]. cbn [snd]. eapply to_payment_ok; eauto.
  Qed.

  Theorem accepted_is_valid uri r : from_uri addr addr_dec can_memo t_only uri = Ok r ->
    wf_requestb addr r = true /\ validb addr can_memo t_only r = true.
  Proof.
    unfold from_uri. destruct (lead_addr addr addr_dec uri) as [[lead rest]|]; [|discriminate].
    match goal with |- match ?o with Some _ => _ | None => _ end = _ -> _ => destruct o as [xs|] eqn:OX; [|discriminate] end.
    assert (Gx : Forall good_iparam xs).
    { destruct rest as [|c rest']; [injection OX as <-; constructor|].
      destruct (c =? 63); [|discriminate]. destruct (params_list addr addr_dec rest') as [ys r'] eqn:PL.
      destruct (is_nil r'); [|discriminate]. injection OX as <-. eapply params_list_good; eauto. }
    destruct (group addr xs _) as [i|m] eqn:GR; [discriminate|]. intros B.
    assert (GI : ginv m).
    { eapply group_inv; [exact Gx | | exact GR]. destruct lead as [a|]; [|split; [reflexivity | constructor]].
      split; [reflexivity|]. constructor; [|constructor]. split; [cbn; lia|]. split; [repeat constructor | reflexivity]. }
    destruct GI as [Inc Gm]. destruct (build_ok m r Gm B) as [K F].
    assert (Ix : index_rule addr r = true).
    { unfold index_rule. apply forallb_forall. intros ip Hip.
      assert (In (fst ip) (map fst m)) by (rewrite <- K; apply in_map, Hip).
      apply in_map_iff in H. destruct H as (g & Eg & Hg). rewrite Forall_forall in Gm.
      destruct (Gm g Hg) as ((_ & Hi) & _). lia. }
    rewrite Forall_forall in F. split.
    - unfold wf_requestb. rewrite K, Inc. apply forallb_forall. intros ip Hip. apply (F ip Hip).
    - unfold validb. rewrite Ix. apply forallb_forall. intros ip Hip. apply (F ip Hip).
  Qed.

  (** ** every address of an accepted request was produced by the address decoder *)
  Definition decoded (a : addr) : Prop := exists s, addr_dec s = Some a.
  Definition param_dec (q : param) : Prop := match q with PAddr a => decoded a | _ => True end.

  Lemma zcashparam_dec s ip rest : zcashparam addr addr_dec s = Some (ip, rest) -> param_dec (fst ip).
  Proof.
    unfold zcashparam. destruct (indexed_name s) as [[[name iopt] r]|]; [|discriminate].
    destruct r as [|c r']; [discriminate|]. destruct (c =? 61); [|discriminate].
    destruct (span is_qchar r') as [value r''].
    destruct (to_indexed_param addr addr_dec name iopt value) as [ip'|] eqn:T; [|discriminate].
    intros [= <- <-]. unfold to_indexed_param in T.
    match type of T with match ?o with Some _ => _ | None => _ end = _ => destruct o as [q|] eqn:Eq; [|discriminate] end.
    assert (Q : param_dec q).
    { destruct (bytes_eqb name s_address).
      { destruct (addr_dec value) as [a|] eqn:D; [|discriminate]. injection Eq as <-. exists value. exact D. }
      repeat match type of Eq with
             | (if ?b then _ else _) = _ => destruct b
             | option_map _ ?o = _ => destruct o; [injection Eq as <-; exact I | discriminate]
             | match ?o with Ok _ => _ | _ => _ end = _ => destruct o; try discriminate; injection Eq as <-; exact I
             | None = Some _ => discriminate
             end. }
    destruct iopt as [istr|]; [destruct (parse_u64 istr); [|discriminate]|]; injection T as <-; exact Q.
  Qed.
  Lemma params_tail_dec fuel : forall i acc xs r, Forall (fun ip => param_dec (fst ip)) acc ->
    params_tail addr addr_dec fuel i acc = (xs, r) -> Forall (fun ip => param_dec (fst ip)) xs.
  Proof.
    induction fuel as [|f IH]; intros i acc xs r Ha; cbn [params_tail]; [intros [= <- <-]; exact Ha|].
    destruct i as [|c i1]; [intros [= <- <-]; exact Ha|].
    destruct (c =? 38); [|intros [= <- <-]; exact Ha].
    destruct (zcashparam addr addr_dec i1) as [[p i2]|] eqn:Z; [|intros [= <- <-]; exact Ha].
    apply IH. apply Forall_app. split; [exact Ha|]. constructor; [|constructor]. eapply zcashparam_dec; eauto.
  Qed.
  Lemma params_list_dec i xs r : params_list addr addr_dec i = (xs, r) -> Forall (fun ip => param_dec (fst ip)) xs.
  Proof.
    unfold params_list. destruct (zcashparam addr addr_dec i) as [[p i1]|] eqn:Z; [|intros [= <- <-]; constructor].
    apply params_tail_dec. constructor; [|constructor]. eapply zcashparam_dec; eauto.
  Qed.
  Lemma group_dec xs : forall m m', Forall (fun ip => param_dec (fst ip)) xs ->
    Forall (fun g => Forall param_dec (snd g)) m -> group addr xs m = inr m' ->
    Forall (fun g => Forall param_dec (snd g)) m'.
  Proof.
    induction xs as [|[p i] xs IH]; intros m m' Hx Gm; cbn [group]; [intros [= <-]; exact Gm|].
    inversion Hx as [|? ? Gp Hx']; subst. cbn [fst] in Gp.
    destruct (map_get i m) as [cur|] eqn:MG.
    - destruct (has_duplicate_param addr cur p); [discriminate|]. apply IH; [exact Hx'|].
      apply Forall_forall. intros kv Hkv. apply map_set_in in Hkv. rewrite Forall_forall in Gm.
      destruct Hkv as [->|Hkv]; [|apply Gm, Hkv]. cbn [snd]. apply Forall_app. split; [|repeat constructor; exact Gp].
      apply (Gm _ (map_get_in _ _ _ MG)).
    - apply IH; [exact Hx'|]. apply Forall_forall. intros kv Hkv. apply map_set_in in Hkv. rewrite Forall_forall in Gm.
      destruct Hkv as [->|Hkv]; [|apply Gm, Hkv]. cbn [snd]. repeat constructor. exact Gp.
  Qed.
  Lemma apply_params_addr vs : forall i p0 p, apply_params addr can_memo t_only vs i p0 = Ok p -> p_addr p = p_addr p0.
  Proof.
    induction vs as [|v vs IH]; intros i p0 p; cbn [apply_params]; [intros [= <-]; reflexivity|].
    destruct v; try (intros H; apply IH in H; exact H).
    - destruct (t_only (p_addr p0) && (z =? 0)); [discriminate|]. intros H. apply IH in H. exact H.
    - destruct (can_memo (p_addr p0)); [|discriminate]. intros H. apply IH in H. exact H.
  Qed.
  Lemma find_addr_in vs a : find_addr addr vs = Some a -> In (PAddr a) vs.
  Proof.
    induction vs as [|v vs IH]; [discriminate|]. cbn [find_addr].
    destruct v; try (intros H; right; apply IH, H). intros [= ->]. left. reflexivity.
  Qed.
  Lemma build_dec m : forall r, Forall (fun g => Forall param_dec (snd g)) m -> build addr can_memo t_only m = Ok r ->
    Forall (fun ip => decoded (p_addr (snd ip))) r.
  Proof.
    induction m as [|[i ps] m IH]; intros r G; cbn [build]; [intros [= <-]; constructor|].
    inversion G as [|? ? Gp G']; subst. cbn [snd] in Gp.
    destruct (to_payment addr can_memo t_only ps i) as [p| |] eqn:T; try discriminate.
    destruct (build addr can_memo t_only m) as [q| |] eqn:B; try discriminate. intros [= <-].
    constructor; [|apply IH; [exact G' | reflexivity]]. cbn [snd].
    unfold to_payment in T. destruct (find_addr addr ps) as [a|] eqn:FA; [|discriminate].
    apply apply_params_addr in T. cbn [p_addr] in T. rewrite T.
    rewrite Forall_forall in Gp. apply (Gp _ (find_addr_in _ _ FA)).
  Qed.
  Theorem accepted_addrs uri r : from_uri addr addr_dec can_memo t_only uri = Ok r ->
    Forall (fun ip => decoded (p_addr (snd ip))) r.
  Proof.
    unfold from_uri. destruct (lead_addr addr addr_dec uri) as [[lead rest]|] eqn:LA; [|discriminate].
    match goal with |- match ?o with Some _ => _ | None => _ end = _ -> _ => destruct o as [xs|] eqn:OX; [|discriminate] end.
    assert (Gx : Forall (fun ip => param_dec (fst ip)) xs).
    { destruct rest as [|c rest']; [injection OX as <-; constructor|].
      destruct (c =? 63); [|discriminate]. destruct (params_list addr addr_dec rest') as [ys r'] eqn:PL.
      destruct (is_nil r'); [|discriminate]. injection OX as <-. eapply params_list_dec; eauto. }
    destruct (group addr xs _) as [i|m] eqn:GR; [discriminate|]. intros B.
    eapply build_dec; [|exact B]. eapply group_dec; [exact Gx | | exact GR].
    destruct lead as [a|]; [|constructor]. repeat constructor. cbn.
    unfold lead_addr in LA. destruct (strip_prefix s_zcash uri) as [r0|]; [|discriminate].
    destruct (span (fun c => negb (c =? 63)) r0) as [s rest0]. destruct (is_nil s); [discriminate|].
    destruct (addr_dec s) as [a'|] eqn:D; [|discriminate]. injection LA as <- _. exists s. exact D.
  Qed.

  (** ** accepted URIs re-render to URIs that parse to the same request *)
  Notation addr_ok := (addr_ok addr addr_dec addr_enc).
  Theorem accepted_rerender uri r : (forall a, decoded a -> addr_ok a) ->
    from_uri addr addr_dec can_memo t_only uri = Ok r ->
    from_uri addr addr_dec can_memo t_only (to_uri addr addr_enc r) = Ok r.
  Proof.
    intros HA H. apply (request_roundtrip addr addr_dec addr_enc can_memo t_only).
    - apply accepted_is_valid in H. exact H.
    - eapply Forall_impl; [|apply (accepted_addrs uri r H)]. intros ip. apply HA.
  Qed.

  (** a request round-trips exactly when it is valid *)
  Theorem roundtrip_iff_valid r : wf_requestb addr r = true -> addrs_ok addr addr_dec addr_enc r ->
    (from_uri addr addr_dec can_memo t_only (to_uri addr addr_enc r) = Ok r <-> validb addr can_memo t_only r = true).
  Proof.
    intros W A. split.
    - intros H. apply accepted_is_valid in H. tauto.
    - intros V. apply (request_roundtrip addr addr_dec addr_enc can_memo t_only); [split; assumption | exact A].
  Qed.

  (** the global form of the oracle hypotheses implies the per-address one *)
  Lemma global_addr_ok : (forall a, addr_dec (addr_enc a) = Some a) -> (forall a, addr_enc a <> []) ->
    (forall a, forallb is_alnum (addr_enc a) = true) -> forall a, addr_ok a.
  Proof. intros H1 H2 H3 a. repeat split; auto. Qed.
End WithAddresses.
