(** C12 — bridge: on a well-formed case, agreement of the implementation with the model
    ([run_case]) implies the property on the implementation's outcome ([prop_case]).  The address
    oracle is the per-case table; [wf_case] checks the oracle hypotheses on every table entry. *)
From V.Lib Require Import Base MachInt Hex.
From V.Gen Require Import C12Consts.
From V.C12 Require Import Model Spec Corr Wf ProofsPct ProofsB64 ProofsAmount ProofsRender ProofsAccept
     ProofsTotal ProofsCtors ProofsSurface ProofsAmountSpec.
From Coq Require Import ZifyBool.
Local Open Scope Z_scope.

(** ** boolean equalities are equalities *)
Lemma pair_eqb_spec {A B} (ea : A -> A -> bool) (eb : B -> B -> bool) :
  (forall a b, ea a b = true <-> a = b) -> (forall a b, eb a b = true <-> a = b) ->
  forall x y, pair_eqb ea eb x y = true <-> x = y.
Proof.
  intros HA HB [a b] [c d]. unfold pair_eqb. cbn [fst snd]. rewrite andb_true_iff, HA, HB.
  split; [intros [-> ->]; reflexivity | intros [= -> ->]; auto].
Qed.
Lemma bool_eqb_spec a b : Bool.eqb a b = true <-> a = b.
Proof. destruct a, b; cbn; split; congruence. Qed.
Lemma taddr_eqb_spec a b : taddr_eqb a b = true <-> a = b.
Proof.
  destruct a as [[e m] t], b as [[e' m'] t']. unfold taddr_eqb, t_enc, t_memo, t_tonly. cbn [fst snd].
  rewrite !andb_true_iff, bytes_eqb_eq, !bool_eqb_spec. split; [intros [[-> ->] ->]; reflexivity | intros [= -> -> ->]; auto].
Qed.
Lemma obytes_eqb_spec a b : obytes_eqb a b = true <-> a = b.
Proof. apply option_eqb_spec. apply bytes_eqb_eq. Qed.
Lemma pay_eqb_spec (p q : tpayment) : pay_eqb p q = true <-> p = q.
Proof.
  destruct p as [a1 b1 c1 d1 e1 f1], q as [a2 b2 c2 d2 e2 f2]. unfold pay_eqb, payment_eqb.
  cbn [p_addr p_amount p_memo p_label p_message p_other].
  rewrite !andb_true_iff, taddr_eqb_spec, !obytes_eqb_spec.
  rewrite (option_eqb_spec Z.eqb Z.eqb_eq).
  rewrite (list_eqb_spec _ (pair_eqb_spec _ _ bytes_eqb_eq bytes_eqb_eq)).
  split; [intros [[[[[-> ->] ->] ->] ->] ->]; reflexivity | intros [= -> -> -> -> -> ->]; repeat split].
Qed.
Lemma req_eqb_spec (r q : trequest) : req_eqb r q = true <-> r = q.
Proof. unfold req_eqb, request_eqb. apply list_eqb_spec. apply pair_eqb_spec; [apply Z.eqb_eq | apply pay_eqb_spec]. Qed.
Lemma zerr_eqb_spec a b : zerr_eqb a b = true <-> a = b.
Proof. destruct a, b; cbn; try (split; congruence); rewrite Z.eqb_eq; split; congruence. Qed.
Lemma outcome_eqb_spec {A E} (ea : A -> A -> bool) (ee : E -> E -> bool) :
  (forall a b, ea a b = true <-> a = b) -> (forall a b, ee a b = true <-> a = b) ->
  forall x y, outcome_eqb ea ee x y = true <-> x = y.
Proof.
  intros HA HE [a|e|] [b|f|]; cbn; try (split; congruence); [rewrite HA | rewrite HE]; split; congruence.
Qed.
Lemma rres_eqb_spec (x y : rres) : rres_eqb x y = true <-> x = y.
Proof. apply outcome_eqb_spec; [apply req_eqb_spec | apply zerr_eqb_spec]. Qed.
Lemma perr_eqb_spec a b : perr_eqb a b = true <-> a = b.
Proof. destruct a, b; cbn; split; congruence. Qed.
Lemma merr_eqb_spec a b : merr_eqb a b = true <-> a = b.
Proof. destruct a, b; cbn; split; congruence. Qed.
Lemma unit_eqb_spec (a b : unit) : unit_eqb a b = true <-> a = b.
Proof. destruct a, b. cbn. tauto. Qed.

(** ** the table oracle satisfies the per-address hypotheses *)
Notation t_addr_ok tbl := (addr_ok taddr (t_dec tbl) t_enc).

Lemma t_dec_in tbl : forall s a, t_dec tbl s = Some a -> exists k, In (k, a) tbl.
Proof.
  induction tbl as [|[k b] tbl IH]; intros s a; cbn [t_dec]; [discriminate|].
  destruct (bytes_eqb k s); [intros [= ->]; exists k; left; reflexivity|].
  intros H. destruct (IH _ _ H) as [k' Hk]. exists k'. right. exact Hk.
Qed.
Lemma addr_in_ok tbl a : addr_in tbl a = true -> t_addr_ok tbl a.
Proof.
  unfold addr_in, enc_ok. intros H. apply andb_true_iff in H. destruct H as [H1 H2].
  apply andb_true_iff in H1. destruct H1 as [N A].
  apply (option_eqb_spec taddr_eqb taddr_eqb_spec) in H2.
  repeat split; [exact H2 | destruct (t_enc a); [discriminate | discriminate] | exact A].
Qed.
Lemma table_ok_decoded tbl : table_ok tbl = true -> forall a, decoded taddr (t_dec tbl) a -> t_addr_ok tbl a.
Proof.
  intros T a [s D]. destruct (t_dec_in tbl s a D) as [k Hk].
  unfold table_ok in T. rewrite forallb_forall in T. specialize (T _ Hk). unfold entry_ok in T. cbn [snd] in T.
  apply addr_in_ok. exact T.
Qed.
Lemma pays_in_ok tbl (r : trequest) : pays_in tbl r = true -> addrs_ok taddr (t_dec tbl) t_enc r.
Proof.
  unfold pays_in, addrs_ok. rewrite forallb_forall, Forall_forall. intros H ip Hip. apply addr_in_ok, H, Hip.
Qed.

(** ** the amount cases *)
Lemma parse_amount_qchars s z : parse_amount s = Some z -> forallb is_qchar s = true.
Proof.
  intros H. destruct (amount_parse_exact s z H) as [(whole & frac & Sh & _ & Dw & Df & _) _].
  destruct Sh as [[-> _] | [-> _]]; [apply digits_qchars, Dw|].
  rewrite forallb_app. cbn [forallb]. rewrite (digits_qchars _ Dw), (digits_qchars _ Df), dot_qchar. reflexivity.
Qed.

Lemma fixed_dec : t_dec fixed_tbl [122] = Some fixed_addr. Proof. reflexivity. Qed.

Lemma m_amount_parse_spec s : in_set s 38 = false -> m_amount_parse s = parse_amount s.
Proof.
  intros N38. unfold m_amount_parse, m_from_uri, amount_uri, from_uri, lead_addr.
  rewrite strip_prefix_app. cbn [app span]. change (negb (122 =? 63)) with true. change (negb (63 =? 63)) with false.
  cbv iota. cbn [is_nil]. rewrite fixed_dec. change (63 =? 63) with true. cbv iota.
  unfold params_list, zcashparam.
  pose proof (indexed_name_render s_amount None s eq_refl I) as IN. cbn [param_index app iopt_of] in IN. rewrite IN.
  change (61 =? 61) with true. cbv iota.
  destruct (span is_qchar s) as [v r''] eqn:S. destruct (span_spec _ _ _ _ S) as (Es & Qv & Sr).
  unfold to_indexed_param. change (bytes_eqb s_amount s_address) with false. change (bytes_eqb s_amount s_amount) with true.
  cbv iota.
  assert (Bad : r'' <> [] -> parse_amount s = None).
  { intros NE. destruct (parse_amount s) as [z|] eqn:P; [|reflexivity]. exfalso.
    apply parse_amount_qchars in P. rewrite Es, forallb_app in P. apply andb_true_iff in P. destruct P as [_ P].
    destruct r'' as [|c r3]; [congruence|]. cbn [stops forallb] in *. rewrite Sr in P. discriminate. }
  destruct (parse_amount v) as [z|] eqn:PV; cbn [option_map].
  - destruct r'' as [|c r3].
    + rewrite app_nil_r in Es. subst v. cbn [length params_tail is_nil group map_get map_set has_duplicate_param existsb same_kind app].
      change (0 =? 0) with true. cbv iota. cbn [has_duplicate_param existsb same_kind orb map_set build to_payment find_addr apply_params p_addr].
      change (0 <? 0) with false. change (0 =? 0) with true. cbv iota.
      change (t_tonly fixed_addr) with false. cbn [andb p_amount p_memo p_label p_message p_other]. rewrite PV. reflexivity.
    + rewrite (Bad ltac:(discriminate)). cbn [length params_tail].
      assert (C38 : (c =? 38) = false).
      { rewrite Es in N38. unfold in_set in N38. rewrite existsb_app in N38. apply orb_false_iff in N38.
        destruct N38 as [_ N]. cbn [existsb] in N. apply orb_false_iff in N. destruct N as [N _]. lia. }
      rewrite C38. cbn [is_nil]. reflexivity.
  - assert (parse_amount s = None) as ->.
    { destruct r'' as [|c r3]; [rewrite app_nil_r in Es; subst v; exact PV | apply Bad; discriminate]. }
    reflexivity.
Qed.

Lemma m_amount_render_spec z : m_amount_render z = amount_str z.
Proof.
  unfold m_amount_render, m_to_uri, to_uri. change (0 =? 0) with true. cbv iota.
  unfold payment_params. cbn [p_amount p_memo p_label p_message p_other p_addr option_map opt_list app map is_nil join].
  unfold amount_param, amount_uri, t_enc, fixed_addr. cbn [fst param_index]. generalize (amount_str z). intros X.
  cbn [app]. unfold s_zcash, s_amount. cbn [app strip_prefix]. rewrite !Z.eqb_refl. reflexivity.
Qed.

(** ** no operation of the model panics *)
Lemma request_new_no_panic tbl ps : m_new tbl ps <> Panic.
Proof.
  unfold m_new, request_new. destruct (9999 <? _); [discriminate|]. destruct (negb _); [discriminate|].
  destruct (is_nil _); [discriminate|].
  pose proof (from_uri_total taddr (t_dec tbl) t_memo t_tonly (to_uri taddr t_enc (enumerate_from taddr 0 ps))) as T.
  destruct (from_uri taddr (t_dec tbl) t_memo t_tonly _); try discriminate. congruence.
Qed.

Lemma mk_memo_bytes m : bytesb m = true -> (length m <=? 512)%nat = true -> Forall byte (mk_memo m).
Proof.
  intros B L. unfold mk_memo, pad_right. apply Forall_app. split.
  - unfold bytesb in B. rewrite forallb_forall in B. apply Forall_forall. intros x Hx. specialize (B x Hx).
    unfold byteb in B. unfold byte. lia.
  - apply Forall_forall. intros x Hx. apply repeat_spec in Hx. subst x. unfold byte. lia.
Qed.

(** ** the bridge *)
Theorem agree_implies_property c :
  wf_case c = true -> known_class c = 0%N -> run_case c = true -> prop_case c = true.
Proof.
  destruct c as [tbl uri o rer | tbl r u o' | tbl ps o | r o | r o | a am me la ms ot o | m o | s o | s o | z o | sh fm ft];
    cbn [wf_case known_class run_case prop_case]; intros W _ R.
  - (* FromUri *)
    apply andb_true_iff in W. destruct W as [T _].
    apply andb_true_iff in R. destruct R as [R1 R2]. apply rres_eqb_spec in R1.
    destruct o as [r|e|].
    + destruct rer as [[u o']|]; [|discriminate]. apply andb_true_iff in R2. destruct R2 as [R2 R3].
      apply bytes_eqb_eq in R2. apply rres_eqb_spec in R3.
      destruct (accepted_is_valid taddr (t_dec tbl) t_memo t_tonly uri r R1) as [Wr Vr].
      destruct (accepted_surface taddr (t_dec tbl) t_memo t_tonly uri r R1) as [Su Sc].
      pose proof (accepted_rerender taddr (t_dec tbl) t_enc t_memo t_tonly uri r (table_ok_decoded tbl T) R1) as RR.
      unfold t_wfb, t_validb. rewrite Wr, Vr, Su, Sc, Z.eqb_refl. cbn [andb].
      apply rres_eqb_spec. rewrite <- R3, <- R2. exact RR.
    + reflexivity.
    + exfalso. apply (from_uri_total taddr (t_dec tbl) t_memo t_tonly uri). exact R1.
  - (* Render *)
    apply andb_true_iff in W. destruct W as [W P]. apply andb_true_iff in W. destruct W as [T Wr].
    apply andb_true_iff in R. destruct R as [R1 R2]. apply bytes_eqb_eq in R1. apply rres_eqb_spec in R2.
    unfold m_to_uri, m_from_uri in *. subst u.
    pose proof (roundtrip_iff_valid taddr (t_dec tbl) t_enc t_memo t_tonly r Wr (pays_in_ok tbl r P)) as RI.
    rewrite R2 in RI.
    assert (NP : is_panic o' = false).
    { destruct o'; try reflexivity. exfalso. apply (from_uri_total taddr (t_dec tbl) t_memo t_tonly _ R2). }
    rewrite NP. cbn [negb andb]. apply bool_eqb_spec. unfold t_validb.
    destruct (validb taddr t_memo t_tonly r) eqn:V.
    + symmetry. apply rres_eqb_spec. apply RI. reflexivity.
    + destruct (rres_eqb o' (Ok r)) eqn:E; [|reflexivity]. apply rres_eqb_spec in E. apply RI in E. discriminate.
  - (* New *)
    apply andb_true_iff in W. destruct W as [W A]. apply andb_true_iff in W. destruct W as [T Wp].
    apply rres_eqb_spec in R.
    assert (Ao : Forall (fun p => t_addr_ok tbl (p_addr p)) ps).
    { apply Forall_forall. intros p Hp. rewrite forallb_forall in A. apply addr_in_ok, A, Hp. }
    pose proof (request_new_ok taddr (t_dec tbl) t_enc t_memo t_tonly ps) as NO.
    unfold m_new in R. destruct o as [r'|e|].
    + destruct (proj1 (NO r' Wp Ao) R) as (-> & _ & V). unfold t_validb. rewrite V, andb_true_r. apply req_eqb_spec. reflexivity.
    + assert (Other : (forall n, e <> ETooMany n) -> negb (t_validb (enumerate_from taddr 0 ps)) = true).
      { intros NE. apply negb_true_iff. unfold t_validb.
        destruct (validb taddr t_memo t_tonly (enumerate_from taddr 0 ps)) eqn:V; [|reflexivity]. exfalso.
        destruct (9999 <? Z.of_nat (length ps)) eqn:L.
        - pose proof (proj2 (request_new_too_many taddr (t_dec tbl) t_enc t_memo t_tonly ps _) (conj (proj1 (Z.ltb_lt _ _) L) eq_refl)) as TM.
          rewrite TM in R. injection R as R. symmetry in R. exact (NE _ R).
        - rewrite (proj2 (NO _ Wp Ao) (conj eq_refl (conj (proj1 (Z.ltb_ge _ _) L) V))) in R. discriminate. }
      destruct e; try (apply Other; intros n0; discriminate).
      apply request_new_too_many in R. destruct R as [L ->]. rewrite Z.eqb_refl, andb_true_r. apply Z.ltb_lt. exact L.
    + exfalso. apply (request_new_no_panic tbl ps). exact R.
  - (* FromIndexed *)
    apply rres_eqb_spec in R. destruct o as [r'|e|].
    + apply from_indexed_ok in R. destruct R as [-> Ix]. rewrite Ix, andb_true_r. apply req_eqb_spec. reflexivity.
    + pose proof R as R'. apply from_indexed_err in R'. destruct R' as (k & -> & Hk & L).
      assert (NI : index_rule taddr r = false).
      { destruct (index_rule taddr r) eqn:Ix; [|reflexivity].
        assert (from_indexed taddr r = Ok r) by (apply from_indexed_ok; split; [reflexivity | exact Ix]). congruence. }
      rewrite NI. cbn [negb andb]. apply andb_true_iff. split; [|lia].
      apply existsb_exists. apply in_map_iff in Hk. destruct Hk as (ip & E & Hip). exists ip. split; [exact Hip | lia].
    + unfold from_indexed in R. destruct (find _ r) as [[k p]|]; discriminate.
  - (* Total *)
    rewrite <- (total_eq_spec taddr r W). exact R.
  - (* PayNew *)
    apply (outcome_eqb_spec pay_eqb perr_eqb pay_eqb_spec perr_eqb_spec) in R.
    unfold m_payment_new in R. rewrite payment_new_spec in R. cbv zeta in R. cbv zeta. unfold P.
    set (p := mkPayment a am (option_map mk_memo me) la ms ot) in *.
    destruct (memo_rule taddr t_memo p) eqn:M; cbn [negb] in R.
    + destruct (zero_transparent_rule taddr t_tonly p) eqn:Zr; cbn [negb] in R; subst o.
      * rewrite !andb_true_r. apply pay_eqb_spec. reflexivity.
      * reflexivity.
    + subst o. reflexivity.
  - (* MemoTo *)
    apply andb_true_iff in W. destruct W as [B L]. apply bytes_eqb_eq in R. subst o.
    apply memo_to_base64_qchars, mk_memo_bytes; assumption.
  - (* MemoFrom *)
    apply (outcome_eqb_spec bytes_eqb merr_eqb bytes_eqb_eq merr_eqb_spec) in R. subst o.
    unfold memo_out, memo_from_base64. destruct (b64_decode s) as [b|]; [|reflexivity]. destruct (memo_from_bytes b); reflexivity.
  - (* AmountParse *)
    apply andb_true_iff in W. destruct W as [_ N]. apply negb_true_iff in N.
    rewrite (m_amount_parse_spec s N), parse_amount_spec in R. exact R.
  - (* AmountRender *)
    apply bytes_eqb_eq in R. rewrite m_amount_render_spec in R. subst o.
    assert (Hz : 0 <= z <= MAX_MONEY) by lia.
    rewrite <- parse_amount_spec, (amount_roundtrip z Hz), (amount_str_canonical z Hz), andb_true_r.
    cbn. apply Z.eqb_refl.
  - (* AddrFlags *) exact R.
Qed.
