(** C12 — correspondence cases.  One constructor per public API operation: inputs followed by
    the implementation's observed outcome.  Address strings are classified by the real
    zcash_address on the Rust side and arrive as a per-case table
    [string -> (canonical encoding, can_receive_memo, is_transparent_only)]. *)
From V.Lib Require Import Base MachInt Hex.
From V.Gen Require Import C12Consts.
From V.C12 Require Import Model Spec.
Local Open Scope Z_scope.

Definition hz (s : String.string) : list Z := map Z.of_N (hex s).

(** Table-backed address oracle. *)
Definition taddr := (bytes * bool * bool)%type.
Definition t_enc (a : taddr) : bytes := fst (fst a).
Definition t_memo (a : taddr) : bool := snd (fst a).
Definition t_tonly (a : taddr) : bool := snd a.
Definition taddr_eqb (a b : taddr) : bool :=
  bytes_eqb (t_enc a) (t_enc b) && Bool.eqb (t_memo a) (t_memo b) && Bool.eqb (t_tonly a) (t_tonly b).
Definition table := list (bytes * taddr).
Fixpoint t_dec (tbl : table) (s : bytes) : option taddr :=
  match tbl with
  | [] => None
  | (k, a) :: r => if bytes_eqb k s then Some a else t_dec r s
  end.

(** A case's table is printed as the list of its canonical addresses plus aliases (other
    strings decoding to one of them); addresses inside requests are references [ad c k]. *)
(** An address as printed by the harness: canonical encoding and shape; the two flags are computed by the
    model from the shape, never taken from the implementation. *)
Definition A (enc : bytes) (s : ashape) : taddr := (enc, shape_memo s, shape_tonly s).
Definition ad (c : list taddr) (k : nat) : taddr := nth k c ([], false, false).
Definition mk_tbl (c : list taddr) (aliases : list (bytes * nat)) : table :=
  map (fun a => (t_enc a, a)) c ++ map (fun ka => (fst ka, ad c (snd ka))) aliases.

Definition tpayment := payment taddr.
Definition trequest := request taddr.

(** Constructor used by the harness printer: the memo arrives in [as_slice] form. *)
Definition mk_memo (b : bytes) : bytes := pad_right 512 0 b.
Definition P (a : taddr) (amount : option Z) (memo : option bytes) (label message : option bytes)
           (other : list (bytes * bytes)) : tpayment :=
  mkPayment a amount (option_map mk_memo memo) label message other.

Definition m_from_uri (tbl : table) := from_uri taddr (t_dec tbl) t_memo t_tonly.
Definition m_to_uri := to_uri taddr t_enc.
Definition m_new (tbl : table) := request_new taddr (t_dec tbl) t_enc t_memo t_tonly.
Definition m_payment_new := payment_new taddr t_memo t_tonly.
Definition req_eqb : trequest -> trequest -> bool := request_eqb taddr taddr_eqb.
Definition pay_eqb : tpayment -> tpayment -> bool := payment_eqb taddr taddr_eqb.

Definition zerr_eqb (a b : zerr) : bool :=
  match a, b with
  | EParse, EParse => true
  | ETooMany x, ETooMany y | EDup x, EDup y | ETransparentMemo x, ETransparentMemo y
  | EZeroTransparent x, EZeroTransparent y | ERecipientMissing x, ERecipientMissing y => x =? y
  | _, _ => false
  end.
Definition perr_eqb (a b : perr) : bool :=
  match a, b with PTransparentMemo, PTransparentMemo | PZeroTransparent, PZeroTransparent => true | _, _ => false end.
Definition merr_eqb (a b : merr) : bool :=
  match a, b with InvalidBase64, InvalidBase64 | MemoTooLong, MemoTooLong => true | _, _ => false end.
Definition unit_eqb (_ _ : unit) := true.

Definition rres := outcome trequest zerr.
Definition rres_eqb : rres -> rres -> bool := outcome_eqb req_eqb zerr_eqb.

Inductive case :=
(** [from_uri uri = o]; when [o = Ok r], [rer = Some (to_uri r, from_uri (to_uri r))]. *)
| FromUri (tbl : table) (uri : bytes) (o : rres) (rer : option (bytes * rres))
(** request built with [from_indexed]: [u = to_uri r], [o' = from_uri u]. *)
| Render (tbl : table) (r : trequest) (u : bytes) (o' : rres)
| New (tbl : table) (ps : list tpayment) (o : rres)
| FromIndexed (r : trequest) (o : rres)
| Total (r : trequest) (o : outcome (option Z) unit)
| PayNew (a : taddr) (amount : option Z) (memo label message : option bytes)
         (other : list (bytes * bytes)) (o : outcome tpayment perr)
| MemoTo (m : bytes) (o : bytes)                      (* m in as_slice form *)
| MemoFrom (s : bytes) (o : outcome bytes merr)        (* outcome memo in as_slice form *)
(** [from_uri("zcash:<addr>?amount=" ++ s)] projected to the amount (None = rejected). *)
| AmountParse (s : bytes) (o : option Z)
(** the text after "amount=" in [to_uri] of a one-payment request of amount [z]. *)
| AmountRender (z : Z) (o : bytes)
(** [can_receive_memo] / [is_transparent_only] of the real zcash_address on an address of shape [s]. *)
| AddrFlags (s : ashape) (memo tonly : bool).

Definition fixed_addr : taddr := ([122], true, false).
Definition fixed_tbl : table := [([122], fixed_addr)].
Definition amount_uri (s : bytes) : bytes := s_zcash ++ [122; 63] ++ s_amount ++ [61] ++ s.
Definition m_amount_parse (s : bytes) : option Z :=
  match m_from_uri fixed_tbl (amount_uri s) with
  | Ok [(0, p)] => p_amount p
  | _ => None
  end.
Definition m_amount_render (z : Z) : bytes :=
  match strip_prefix (amount_uri []) (m_to_uri [(0, mkPayment fixed_addr (Some z) None None None [])]) with
  | Some s => s
  | None => []
  end.

Definition mres_eqb : outcome bytes merr -> outcome bytes merr -> bool := outcome_eqb bytes_eqb merr_eqb.
Definition memo_out (o : outcome bytes merr) : outcome bytes merr :=
  match o with Ok m => Ok (memo_as_slice m) | Err e => Err e | Panic => Panic end.

(** model = implementation *)
Definition run_case (c : case) : bool :=
  match c with
  | FromUri tbl uri o rer =>
      rres_eqb (m_from_uri tbl uri) o
      && match o, rer with
         | Ok r, Some (u, o') => bytes_eqb (m_to_uri r) u && rres_eqb (m_from_uri tbl u) o'
         | Ok _, None => false
         | _, None => true
         | _, Some _ => false
         end
  | Render tbl r u o' => bytes_eqb (m_to_uri r) u && rres_eqb (m_from_uri tbl u) o'
  | New tbl ps o => rres_eqb (m_new tbl ps) o
  | FromIndexed r o => rres_eqb (from_indexed taddr r) o
  | Total r o => outcome_eqb (option_eqb Z.eqb) unit_eqb (total taddr r) o
  | PayNew a am me la ms ot o =>
      outcome_eqb pay_eqb perr_eqb (m_payment_new a am (option_map mk_memo me) la ms ot) o
  | MemoTo m o => bytes_eqb (memo_to_base64 (mk_memo m)) o
  | MemoFrom s o => mres_eqb (memo_out (memo_from_base64 s)) o
  | AmountParse s o => option_eqb Z.eqb (m_amount_parse s) o
  | AmountRender z o => bytes_eqb (m_amount_render z) o
  | AddrFlags s memo tonly => Bool.eqb (shape_memo s) memo && Bool.eqb (shape_tonly s) tonly
  end.

(** The property, evaluated on the implementation's outcome (Spec.v only, no parser model). *)
Definition t_validb := validb taddr t_memo t_tonly.
Definition t_wfb := wf_requestb taddr.
Definition is_panic {A E} (o : outcome A E) : bool := match o with Panic => true | _ => false end.

Definition prop_case (c : case) : bool :=
  match c with
  | FromUri tbl uri o rer =>
      match o with
      | Ok r =>
          (* an accepted URI yields a request obeying every ZIP 321 rule, accounts for every
             parameter of the URI, and re-renders to a URI that parses to the same request *)
          t_wfb r && t_validb r && uri_rules_ok uri
          && (uri_param_count uri =? count_fields taddr r)
          && match rer with Some (_, o') => rres_eqb o' (Ok r) | None => false end
      | Err _ => true
      | Panic => false
      end
  | Render tbl r u o' =>
      (* a request round-trips through its URI exactly when it is valid *)
      negb (is_panic o') && Bool.eqb (t_validb r) (rres_eqb o' (Ok r))
  | New tbl ps o =>
      let r := enumerate_from taddr 0 ps in
      match o with
      | Ok r' => req_eqb r' r && t_validb r
      | Err (ETooMany n) => (9999 <? Z.of_nat (length ps)) && (n =? Z.of_nat (length ps))
      | Err _ => negb (t_validb r)
      | Panic => false
      end
  | FromIndexed r o =>
      match o with
      | Ok r' => req_eqb r' r && index_rule taddr r
      | Err (ETooMany k) => negb (index_rule taddr r) && existsb (fun ip => fst ip =? k) r && (9999 <? k)
      | _ => false
      end
  | Total r o => outcome_eqb (option_eqb Z.eqb) unit_eqb (total_spec taddr r) o
  | PayNew a am me la ms ot o =>
      let p := P a am me la ms ot in
      match o with
      | Ok q => pay_eqb q p && memo_rule taddr t_memo p && zero_transparent_rule taddr t_tonly p
      | Err PTransparentMemo => negb (memo_rule taddr t_memo p)
      | Err PZeroTransparent => negb (zero_transparent_rule taddr t_tonly p)
      | Panic => false
      end
  | MemoTo m o => forallb is_qchar o  (* the inverse direction is checked by MemoFrom on [o] *)
  | MemoFrom s o => negb (is_panic o)
  | AmountParse s o => option_eqb Z.eqb (amount_spec s) o
  | AmountRender z o => option_eqb Z.eqb (amount_spec o) (Some z) && amount_canonical o
  | AddrFlags s memo tonly => Bool.eqb (shape_memo s) memo && Bool.eqb (shape_tonly s) tonly
  end.

(** Known-finding classes (0 = none).  The defect found ([TransactionRequest::new] accepting
    requests whose rendering parses to a different request) was repaired by a fix: commit. *)
Definition known_class (c : case) : N := 0%N.

(** Path tags. *)
Definition err_tag (e : zerr) : N :=
  match e with
  | EParse => 1 | ETooMany _ => 2 | EDup _ => 3 | ETransparentMemo _ => 4
  | EZeroTransparent _ => 5 | ERecipientMissing _ => 6
  end%N.
Definition rres_tag (o : rres) : N :=
  match o with
  | Ok [] => 7 | Ok [(0%Z, _)] => 8 | Ok [_] => 9 | Ok _ => 0
  | Err e => err_tag e | Panic => 10
  end%N.
Definition tag_case (c : case) : N :=
  (match c with
   | FromUri _ _ o _ => 100 + rres_tag o
   | Render _ r _ o' => 120 + (if t_validb r then 20 else 0) + rres_tag o'
   | New _ _ o => 160 + rres_tag o
   | FromIndexed _ o => 180 + rres_tag o
   | Total _ o => 200 + match o with Ok (Some _) => 0 | Ok None => 1 | Err _ => 2 | Panic => 3 end
   | PayNew _ _ _ _ _ _ o => 210 + match o with Ok _ => 0 | Err PTransparentMemo => 1 | Err PZeroTransparent => 2 | Panic => 3 end
   | MemoTo _ _ => 220
   | MemoFrom _ o => 230 + match o with Ok _ => 0 | Err InvalidBase64 => 1 | Err MemoTooLong => 2 | Panic => 3 end
   | AmountParse _ o => 240 + match o with Some _ => 0 | None => 1 end
   | AmountRender _ _ => 250
   | AddrFlags s memo tonly =>
       260 + (match s with SSprout => 0 | SSapling => 1 | SP2pkh => 2 | SP2sh => 3 | STex => 4 | SUnified _ => 5 end) * 4
       + (if memo then 2 else 0) + (if tonly then 1 else 0)
   end)%N.
