(** C12 — the address oracle discharged with the C10 model of zcash_address's string codec.
    The concrete instance: addresses are C10 address values; the decoder is C10's [parse_address]
    after UTF-8 decoding of the byte string to code points; the encoder is C10's [encode_address].
    [addr_ok] (decode (encode a) = a, encoding non-empty alphanumeric) becomes a theorem. *)
From Coq Require Import String.
From V.Lib Require Import Base MachInt Hex.
From V.Gen Require Import C12Consts C10Consts.
From V.C10 Require Model Spec PRegroup PB32a PB32b PB58 PTop2 Properties.
From V.C12 Require Import Model Spec ProofsPct ProofsAmount ProofsRender ProofsAccept ProofsCtors.
From Coq Require Import List Lia ZifyBool.
Import ListNotations.
Local Open Scope Z_scope.

Module M10 := V.C10.Model.
Module S10 := V.C10.Spec.
Module T10 := V.C10.PTop2.

(** ** (a) representation bridge: C10 strings are lists of code points ([N]), C12 strings are UTF-8
    byte lists ([Z]).  Encodings are ASCII, where the two coincide. *)
Definition n2z (s : list N) : bytes := map Z.of_N s.

Fixpoint utf8_cps (l : list Z) : list N :=
  match l with
  | [] => []
  | b0 :: r =>
      if b0 <? 128 then Z.to_N b0 :: utf8_cps r
      else if b0 <? 224 then
        match r with
        | b1 :: r1 => Z.to_N ((b0 - 192) * 64 + (b1 - 128)) :: utf8_cps r1
        | _ => []
        end
      else if b0 <? 240 then
        match r with
        | b1 :: b2 :: r2 => Z.to_N (((b0 - 224) * 64 + (b1 - 128)) * 64 + (b2 - 128)) :: utf8_cps r2
        | _ => []
        end
      else
        match r with
        | b1 :: b2 :: b3 :: r3 =>
            Z.to_N ((((b0 - 240) * 64 + (b1 - 128)) * 64 + (b2 - 128)) * 64 + (b3 - 128)) :: utf8_cps r3
        | _ => []
        end
  end.

Lemma utf8_cps_ascii s : Forall (fun c => (c < 128)%N) s -> utf8_cps (n2z s) = s.
Proof.
  induction 1 as [|c s Hc _ IH]; [reflexivity|]. cbn [n2z map utf8_cps]. fold (n2z s).
  destruct (Z.of_N c <? 128) eqn:E; [|lia]. rewrite N2Z.id, IH. reflexivity.
Qed.

(** ** (b) encodings are alphanumeric *)
Definition alnumN (c : N) : bool := is_alnum (Z.of_N c).

Lemma alnumN_facts c : alnumN c = true -> (c < 128)%N /\ M10.is_ws c = false.
Proof.
  unfold alnumN, is_alnum, is_alpha, Model.is_upper, Model.is_lower, is_digit, M10.is_ws. intros H. split; lia.
Qed.

Lemma charset_alnum : forallb (fun v => alnumN (M10.char_of_fe v)) (map N.of_nat (seq 0 32)) = true.
Proof. vm_compute. reflexivity. Qed.
Lemma char_of_fe_alnum v : (v < 32)%N -> alnumN (M10.char_of_fe v) = true.
Proof.
  intros H. pose proof charset_alnum as T. rewrite forallb_forall in T. apply T.
  apply (V.C10.PB32b.in_range v 32). exact H.
Qed.
Lemma b58_alphabet_alnum : forallb (fun d => alnumN (V.C10.PB58.b58_char d)) (map N.of_nat (seq 0 58)) = true.
Proof. vm_compute. reflexivity. Qed.
Lemma b58_char_alnum d : (d < 58)%N -> alnumN (V.C10.PB58.b58_char d) = true.
Proof.
  intros H. pose proof b58_alphabet_alnum as T. rewrite forallb_forall in T. apply T.
  apply (V.C10.PB32b.in_range d 58). exact H.
Qed.

Lemma b32_string_alnum v hrp fes : forallb alnumN hrp = true -> Forall (fun x => (x < 32)%N) fes ->
  forallb alnumN (V.C10.PB32b.b32_string v hrp fes) = true.
Proof.
  intros Hh Hf. unfold V.C10.PB32b.b32_string. rewrite forallb_app, Hh. cbn [forallb andb].
  change (alnumN 49) with true. cbn [andb].
  apply forallb_forall. intros c Hc. apply in_map_iff in Hc. destruct Hc as (x & <- & Hx).
  apply char_of_fe_alnum. apply in_app_or in Hx. destruct Hx as [Hx|Hx].
  - rewrite Forall_forall in Hf. apply Hf, Hx.
  - destruct (V.C10.PB32b.checksum_fes_facts v hrp fes) as [_ F]. rewrite Forall_forall in F. apply F, Hx.
Qed.

Lemma b32_encode_alnum v cl hrp data s : existsb M10.is_upper hrp = false -> forallb alnumN hrp = true ->
  M10.b32_encode v cl hrp data = Some s -> forallb alnumN s = true.
Proof.
  intros U Hh E. destruct (V.C10.PB32b.b32_encode_shape v cl hrp data s U E) as [-> _].
  apply b32_string_alnum; [exact Hh | apply V.C10.PRegroup.bytes_to_fes_range].
Qed.

Lemma b58_encode_alnum b : forallb alnumN (M10.b58_encode b) = true.
Proof.
  rewrite V.C10.PB58.b58_encode_unfold. apply forallb_forall. intros c Hc. apply in_map_iff in Hc.
  destruct Hc as (d & <- & Hd). apply b58_char_alnum. apply in_app_or in Hd. destruct Hd as [Hd|Hd].
  - apply repeat_spec in Hd. subst d. reflexivity.
  - rewrite V.C10.PB58.b58_digits_eq in Hd.
    pose proof (V.C10.PB58.digits_lt 58 ltac:(lia) (2 * length b) (M10.be_val b 0%N)) as F.
    rewrite Forall_forall in F. apply F, Hd.
Qed.

(** the HRPs of the address kinds (regenerated constants): lower-case alphanumeric *)
Lemma hrps_ok n :
  (existsb M10.is_upper (M10.hrp_sapling n) = false /\ forallb alnumN (M10.hrp_sapling n) = true) /\
  (existsb M10.is_upper (M10.hrp_tex n) = false /\ forallb alnumN (M10.hrp_tex n) = true) /\
  (existsb M10.is_upper (M10.hrp_unified M10.KAddr n) = false /\ forallb alnumN (M10.hrp_unified M10.KAddr n) = true).
Proof. destruct n; vm_compute; repeat split; reflexivity. Qed.

Section Concrete.
  Variable H : N -> nat -> V.Lib.Hex.bytes -> V.Lib.Hex.bytes.
  Variable G : N -> N -> V.Lib.Hex.bytes -> V.Lib.Hex.bytes.
  Hypothesis H_bytes : forall i l x, is_bytes (H i l x) = true.
  Hypothesis G_bytes : forall i j x, is_bytes (G i j x) = true.

  Lemma encode_alnum a s : M10.encode_address H G a = Ok s -> forallb alnumN s = true.
  Proof.
    destruct a as [n k d | n items]; cbn [M10.encode_address].
    - destruct (hrps_ok n) as ((Us & As) & (Ut & At) & _).
      destruct k; try (intros [= <-]; apply b58_encode_alnum).
      + unfold M10.expect. destruct (M10.b32_encode M10.B32 M10.BECH32_CODE_LENGTH (M10.hrp_sapling n) d) as [s'|] eqn:E; [|discriminate].
        intros [= <-]. exact (b32_encode_alnum _ _ _ _ _ Us As E).
      + unfold M10.expect. destruct (M10.b32_encode M10.B32m M10.BECH32_CODE_LENGTH (M10.hrp_tex n) d) as [s'|] eqn:E; [|discriminate].
        intros [= <-]. exact (b32_encode_alnum _ _ _ _ _ Ut At E).
    - destruct (hrps_ok n) as (_ & _ & (Uu & Au)).
      unfold M10.unified_encode. destruct (M10.to_jumbled_bytes H G (M10.hrp_unified M10.KAddr n) items) as [b| |]; try discriminate.
      destruct (M10.b32_encode M10.B32m ZIP316_CODE_LENGTH (M10.hrp_unified M10.KAddr n) b) as [s'|] eqn:E; [|discriminate].
      intros [= <-]. exact (b32_encode_alnum _ _ _ _ _ Uu Au E).
  Qed.

  (** ** the concrete oracle *)
  Definition c_dec (s : bytes) : option M10.addr :=
    match M10.parse_address H G (utf8_cps s) with Ok a => Some a | _ => None end.
  Definition c_enc (a : M10.addr) : bytes :=
    match M10.encode_address H G a with Ok s => n2z s | _ => [] end.

  Lemma alnum_n2z s : forallb alnumN s = true -> forallb is_alnum (n2z s) = true /\ Forall (fun c => (c < 128)%N) s.
  Proof.
    intros F. rewrite forallb_forall in F. split.
    - apply forallb_forall. intros c Hc. apply in_map_iff in Hc. destruct Hc as (x & <- & Hx). apply F, Hx.
    - apply Forall_forall. intros c Hc. apply (alnumN_facts c (F c Hc)).
  Qed.

  Lemma parse_nil : forall a, M10.parse_address H G [] <> Ok a.
  Proof. intros a. vm_compute. discriminate. Qed.

  (** (c) the guards under which [addr_ok] holds for an address value: well-formed (ZIP 316 for unified
      ones), network already normalised (Regtest Sprout/P2PKH/P2SH is Test), it encodes (always true
      except for oversized unified addresses, where the Rust encoder panics - C10's known finding), and,
      for the Base58Check kinds, the string is not by accident a valid Bech32(m) string. *)
  Definition caddr_ok (a : M10.addr) : Prop :=
    S10.spec_addr_ok a = true /\ T10.norm_addr a = a /\
    exists s, M10.encode_address H G a = Ok s /\
              match a with M10.ARaw _ k _ => T10.is_b58 k = true -> T10.not_bech32 s | M10.AUni _ _ => True end.

  Theorem caddr_addr_ok a : caddr_ok a -> addr_ok M10.addr c_dec c_enc a.
  Proof.
    intros (W & Nm & s & E & Gd).
    pose proof (V.C10.Properties.C10_kind_roundtrip H G H_bytes G_bytes a s W E Gd) as RT. rewrite Nm in RT.
    destruct (alnum_n2z s (encode_alnum a s E)) as [A L].
    assert (D : c_dec (c_enc a) = Some a).
    { unfold c_dec, c_enc. rewrite E, (utf8_cps_ascii s L), RT. reflexivity. }
    split; [exact D|]. split; [|unfold c_enc; rewrite E; exact A].
    intros Z0. rewrite Z0 in D. unfold c_dec in D. cbn [utf8_cps] in D.
    destruct (M10.parse_address H G []) as [a'| |] eqn:P; try discriminate; try exact (parse_nil a' P).
  Qed.

  (** every address the concrete decoder returns satisfies [addr_ok] - no guard needed: C10 shows that an
      accepted string is the (trimmed) encoding of the address it denotes *)
  Theorem decoded_addr_ok a : decoded M10.addr c_dec a -> addr_ok M10.addr c_dec c_enc a.
  Proof.
    intros [bs D]. unfold c_dec in D. destruct (M10.parse_address H G (utf8_cps bs)) as [a'| |] eqn:P; try discriminate.
    injection D as ->.
    destruct (V.C10.Properties.C10_parse_accept_canonical H G H_bytes G_bytes _ _ P) as [E W].
    set (s := M10.trim (utf8_cps bs)) in *.
    destruct (alnum_n2z s (encode_alnum a s E)) as [A L].
    assert (TI : M10.trim s = s).
    { apply T10.trim_id. intros c Hc. pose proof (encode_alnum a s E) as F. rewrite forallb_forall in F.
      apply (alnumN_facts c (F c Hc)). }
    assert (P2 : M10.parse_address H G s = Ok a).
    { unfold M10.parse_address in *. rewrite TI. fold s in P. exact P. }
    assert (D : c_dec (c_enc a) = Some a).
    { unfold c_dec, c_enc. rewrite E, (utf8_cps_ascii s L), P2. reflexivity. }
    split; [exact D|]. split; [|unfold c_enc; rewrite E; exact A].
    intros Z0. rewrite Z0 in D. unfold c_dec in D. cbn [utf8_cps] in D.
    destruct (M10.parse_address H G []) as [a'| |] eqn:P0; try discriminate; try exact (parse_nil a' P0).
  Qed.

  (** ** the request theorems for the concrete address instance *)
  Variable can_memo : M10.addr -> bool.
  Variable t_only : M10.addr -> bool.

  Theorem request_roundtrip_concrete (r : request M10.addr) :
    wf_requestb M10.addr r = true /\ validb M10.addr can_memo t_only r = true ->
    Forall (fun ip => caddr_ok (p_addr (snd ip))) r ->
    from_uri M10.addr c_dec can_memo t_only (to_uri M10.addr c_enc r) = Ok r.
  Proof.
    intros G0 A. apply request_roundtrip; [exact G0|].
    eapply Forall_impl; [|exact A]. intros ip. apply caddr_addr_ok.
  Qed.

  Theorem accepted_rerender_concrete uri (r : request M10.addr) :
    from_uri M10.addr c_dec can_memo t_only uri = Ok r ->
    from_uri M10.addr c_dec can_memo t_only (to_uri M10.addr c_enc r) = Ok r.
  Proof. apply accepted_rerender. exact decoded_addr_ok. Qed.

  Theorem request_new_ok_concrete ps (r : request M10.addr) :
    forallb (wf_paymentb M10.addr) ps = true -> Forall (fun p => caddr_ok (p_addr p)) ps ->
    (request_new M10.addr c_dec c_enc can_memo t_only ps = Ok r <->
     r = enumerate_from M10.addr 0 ps /\ Z.of_nat (length ps) <= 9999 /\ validb M10.addr can_memo t_only r = true).
  Proof.
    intros W A. apply request_new_ok; [exact W|]. eapply Forall_impl; [|exact A]. intros p. apply caddr_addr_ok.
  Qed.
End Concrete.

(** non-vacuity: the guards hold for a Sapling and for a P2PKH value (all-zero data, mainnet), with hash
    functions that return the empty string (byte-valued) *)
Definition H0 : N -> nat -> V.Lib.Hex.bytes -> V.Lib.Hex.bytes := fun _ _ _ => [].
Definition G0 : N -> N -> V.Lib.Hex.bytes -> V.Lib.Hex.bytes := fun _ _ _ => [].
Lemma caddr_ok_nonvacuous :
  caddr_ok H0 G0 (M10.ARaw M10.Main M10.Sapling (repeat 0%N 43)) /\
  caddr_ok H0 G0 (M10.ARaw M10.Main M10.P2pkh (repeat 0%N 20)).
Proof.
  split.
  - split; [reflexivity|]. split; [reflexivity|].
    destruct (V.C10.Properties.C10_raw_b32_encodes H0 G0 M10.Main M10.Sapling (repeat 0%N 43) (or_introl (conj eq_refl eq_refl))) as [s E].
    exists s. split; [exact E | discriminate].
  - split; [reflexivity|]. split; [reflexivity|]. eexists. split; [reflexivity|]. intros _.
    unfold T10.not_bech32. vm_compute. repeat split.
Qed.

(** ** the two recipient predicates computed by the model from the address value *)
Definition shape_of (a : M10.addr) : ashape :=
  match a with
  | M10.ARaw _ M10.Sprout _ => SSprout
  | M10.ARaw _ M10.Sapling _ => SSapling
  | M10.ARaw _ M10.P2pkh _ => SP2pkh
  | M10.ARaw _ M10.P2sh _ => SP2sh
  | M10.ARaw _ M10.Tex _ => STex
  | M10.AUni _ items => SUnified (map (fun it => Z.of_N (fst it)) items)
  end.
Definition c_can_memo (a : M10.addr) : bool := shape_memo (shape_of a).
Definition c_t_only (a : M10.addr) : bool := shape_tonly (shape_of a).

(** a unified address with a transparent receiver and otherwise only unknown receivers is
    transparent-only and cannot receive a memo: unknown typecodes do not count as shielded *)
Lemma unknown_receivers_not_shielded tcs :
  existsb transparent_tc tcs = true -> forallb (fun tc => negb (shielded_tc tc)) tcs = true ->
  shape_tonly (SUnified tcs) = true /\ shape_memo (SUnified tcs) = false.
Proof.
  intros T S. assert (E : existsb shielded_tc tcs = false).
  { destruct (existsb shielded_tc tcs) eqn:E; [|reflexivity]. apply existsb_exists in E. destruct E as (x & Hx & Sx).
    rewrite forallb_forall in S. specialize (S x Hx). rewrite Sx in S. discriminate. }
  cbn [shape_tonly shape_memo]. rewrite T, E. split; reflexivity.
Qed.

Section ConcreteFlags.
  Variable H : N -> nat -> V.Lib.Hex.bytes -> V.Lib.Hex.bytes.
  Variable G : N -> N -> V.Lib.Hex.bytes -> V.Lib.Hex.bytes.

  (** acceptance conditions with the model's predicates: in an accepted request no payment carries a memo to
      a recipient that cannot receive one, and none is a zero-valued output to a transparent-only recipient *)
  Theorem concrete_acceptance uri (r : request M10.addr) :
    from_uri M10.addr (c_dec H G) c_can_memo c_t_only uri = Ok r ->
    Forall (fun ip => let p := snd ip in
                      (p_memo p <> None -> c_can_memo (p_addr p) = true) /\
                      ~ (c_t_only (p_addr p) = true /\ p_amount p = Some 0)) r.
  Proof.
    intros A. apply accepted_is_valid in A. destruct A as [_ V]. unfold validb in V.
    apply andb_true_iff in V. destruct V as [_ V]. apply Forall_forall. intros ip Hip.
    rewrite forallb_forall in V. specialize (V ip Hip). unfold valid_paymentb in V.
    repeat (apply andb_true_iff in V; destruct V as [V ?]). cbv zeta. split.
    - intros NM. unfold memo_rule in V. destruct (p_memo (snd ip)); [exact V | congruence].
    - intros [T Z0]. match goal with Hz : zero_transparent_rule _ _ _ = true |- _ => unfold zero_transparent_rule in Hz; rewrite T, Z0 in Hz; discriminate end.
  Qed.

  (** [Payment::new] on such a unified recipient with amount 0 is refused *)
  Theorem payment_new_zero_unknown_ua n items la ms ot :
    existsb transparent_tc (map (fun it => Z.of_N (fst it)) items) = true ->
    forallb (fun tc => negb (shielded_tc tc)) (map (fun it => Z.of_N (fst it)) items) = true ->
    payment_new M10.addr c_can_memo c_t_only (M10.AUni n items) (Some 0) None la ms ot = Err PZeroTransparent.
  Proof.
    intros T S. rewrite payment_new_spec. cbv zeta. unfold memo_rule, zero_transparent_rule.
    cbn [p_addr p_amount p_memo negb]. unfold c_t_only. cbn [shape_of].
    destruct (unknown_receivers_not_shielded _ T S) as [-> _]. reflexivity.
  Qed.
End ConcreteFlags.

(** well-formed Base58Check strings whose payload is shorter than the two version bytes are not addresses:
    the concrete decoder refuses them (the Rust parser must answer NotZcash, not index out of bounds) *)
Lemma short_base58_rejected :
  c_dec H0 G0 (n2z (str "3QJmnh"%string)) = None /\ c_dec H0 G0 (n2z (str "4CyUtqx"%string)) = None /\
  c_dec H0 G0 (n2z (str "1Wh4bh"%string)) = None /\
  M10.b58check_decode (str "3QJmnh"%string) = Some [] /\ M10.b58check_decode (str "4CyUtqx"%string) = Some [28%N].
Proof. vm_compute. repeat split. Qed.
