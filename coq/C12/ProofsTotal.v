(** C12 — the parser never panics; a reserved name among the additional parameters breaks the
    round trip (why [valid] must exclude it). *)
From V.Lib Require Import Base MachInt.
From V.Gen Require Import C12Consts.
From V.C12 Require Import Model Spec.
Local Open Scope Z_scope.

Section WithAddresses.
  Variable addr : Type.
  Variable addr_dec : bytes -> option addr.
  Variable can_memo : addr -> bool.
  Variable t_only : addr -> bool.

  Lemma apply_params_no_panic vs : forall i p, apply_params addr can_memo t_only vs i p <> Panic.
  Proof.
    induction vs as [|v vs IH]; intros i p; [discriminate|].
    cbn [apply_params]. destruct v; try apply IH.
    - destruct (t_only (p_addr p) && (z =? 0)); [discriminate | apply IH].
    - destruct (can_memo (p_addr p)); [apply IH | discriminate].
  Qed.
  Lemma to_payment_no_panic vs i : to_payment addr can_memo t_only vs i <> Panic.
  Proof. unfold to_payment. destruct (find_addr addr vs); [apply apply_params_no_panic | discriminate]. Qed.
  Lemma build_no_panic m : build addr can_memo t_only m <> Panic.
  Proof.
    induction m as [|[i ps] m IH]; [discriminate|]. cbn [build].
    pose proof (to_payment_no_panic ps i) as T. destruct (to_payment addr can_memo t_only ps i); try discriminate; [|congruence].
    destruct (build addr can_memo t_only m); try discriminate. congruence.
  Qed.
  Theorem from_uri_total uri : from_uri addr addr_dec can_memo t_only uri <> Panic.
  Proof.
    unfold from_uri. destruct (lead_addr addr addr_dec uri) as [[lead rest]|]; [|discriminate].
    match goal with |- match ?o with Some _ => _ | None => _ end <> _ => destruct o as [xs|]; [|discriminate] end.
    destruct (group addr xs _); [discriminate | apply build_no_panic].
  Qed.
  (** ... and never reports TooManyPayments (only [new] / [from_indexed] do) *)
  Lemma apply_params_no_too_many vs : forall i p n, apply_params addr can_memo t_only vs i p <> Err (ETooMany n).
  Proof.
    induction vs as [|v vs IH]; intros i p n; [discriminate|].
    cbn [apply_params]. destruct v; try apply IH.
    - destruct (t_only (p_addr p) && (z =? 0)); [discriminate | apply IH].
    - destruct (can_memo (p_addr p)); [apply IH | discriminate].
  Qed.
  Lemma build_no_too_many m : forall n, build addr can_memo t_only m <> Err (ETooMany n).
  Proof.
    induction m as [|[i ps] m IH]; intros n; [discriminate|]. cbn [build].
    destruct (to_payment addr can_memo t_only ps i) as [p|e|] eqn:T; try discriminate.
    - destruct (build addr can_memo t_only m) as [q|e|] eqn:B; try discriminate. intros [= ->]. apply (IH n). reflexivity.
    - unfold to_payment in T. destruct (find_addr addr ps); [|injection T as <-; discriminate].
      intros [= ->]. apply (apply_params_no_too_many _ _ _ _ T).
  Qed.
  Theorem from_uri_no_too_many uri : forall n, from_uri addr addr_dec can_memo t_only uri <> Err (ETooMany n).
  Proof.
    intros n. unfold from_uri. destruct (lead_addr addr addr_dec uri) as [[lead rest]|]; [|discriminate].
    match goal with |- match ?o with Some _ => _ | None => _ end <> _ => destruct o as [xs|]; [|discriminate] end.
    destruct (group addr xs _); [discriminate | apply build_no_too_many].
  Qed.
End WithAddresses.

(** A one-address oracle for witnesses: the address "z". *)
Definition u_dec (s : bytes) : option unit := if bytes_eqb s [122] then Some tt else None.
Definition u_enc (_ : unit) : bytes := [122].
Definition u_true (_ : unit) := true.
Definition u_false (_ : unit) := false.
Definition u_from_uri := from_uri unit u_dec u_true u_false.
Definition u_to_uri := to_uri unit u_enc.

(** Without the reserved-name rule the round trip fails: ("label","x") comes back as the label. *)
Lemma reserved_name_breaks_roundtrip :
  let r := [(0, mkPayment tt (Some COIN) None None None [(s_label, [120])])] in
  wf_requestb unit r = true /\ index_rule unit r = true /\
  forallb (fun ip => memo_rule unit u_true (snd ip) && zero_transparent_rule unit u_false (snd ip)
                     && no_duplicate_rule unit (snd ip)) r = true /\
  u_from_uri (u_to_uri r) = Ok [(0, mkPayment tt (Some COIN) None (Some [120]) None [])].
Proof. vm_compute. repeat split. Qed.
(** Likewise a name with an index suffix: ("a.1","x") on payment 0 comes back on payment 1. *)
Lemma indexed_name_breaks_roundtrip :
  let r := [(0, mkPayment tt None None None None [([97; 46; 49], [120])]); (1, mkPayment tt None None None None [])] in
  wf_requestb unit r = true /\
  u_from_uri (u_to_uri r) = Ok [(0, mkPayment tt None None None None []); (1, mkPayment tt None None None None [([97], [120])])].
Proof. vm_compute. repeat split. Qed.

Lemma new_refuses_reserved_names :
  request_new unit u_dec u_enc u_true u_false [mkPayment tt (Some COIN) None None None [(s_label, [120])]] = Err EParse /\
  request_new unit u_dec u_enc u_true u_false
    [mkPayment tt None None None None [([97; 46; 49], [120])]; mkPayment tt None None None None []] = Err EParse /\
  request_new unit u_dec u_enc u_true u_false [mkPayment tt (Some COIN) None (Some [120]) None [([97], [120])]]
    = Ok [(0, mkPayment tt (Some COIN) None (Some [120]) None [([97], [120])])].
Proof. vm_compute. repeat split. Qed.

(** [from_indexed] performs none of the validity checks: it returns an invalid request unchanged. *)
Lemma from_indexed_unchecked :
  let r := [(0, mkPayment tt (Some COIN) None None None [(s_label, [120])])] in
  from_indexed unit r = Ok r /\ validb unit u_true u_false r = false.
Proof. vm_compute. split; reflexivity. Qed.
