(** C12 — percent-encoding: decode ∘ encode = id on every byte string; encoded values consist of
    qchars only.  Facts about the regenerated sets go through a sweep over the 256 byte values. *)
From V.Lib Require Import Base MachInt.
From V.Gen Require Import C12Consts.
From V.C12 Require Import Model Spec.
From Coq Require Import ZifyBool.
Local Open Scope Z_scope.

Definition all_bytes : list Z := map Z.of_nat (seq 0 256).
Lemma all_bytes_in b : byte b -> In b all_bytes.
Proof.
  intros H. unfold byte in H. unfold all_bytes. apply in_map_iff. exists (Z.to_nat b). split; [lia|].
  apply in_seq. lia.
Qed.
Lemma byte_sweep (P : Z -> bool) : forallb P all_bytes = true -> forall b, byte b -> P b = true.
Proof. intros H b Hb. rewrite forallb_forall in H. apply H, all_bytes_in, Hb. Qed.

(** one encoded byte decodes to itself, whatever follows *)
Definition pct_byte_ok (b : Z) : bool :=
  let e := pct_byte b in
  forallb is_qchar e
  && match e with
     | [c] => (c =? b) && negb (c =? 37)
     | [p; h; l] => (p =? 37) && match hexdig h, hexdig l with Some x, Some y => 16 * x + y =? b | _, _ => false end
     | _ => false
     end.
Lemma pct_byte_sweep : forallb pct_byte_ok all_bytes = true.
Proof. vm_compute. reflexivity. Qed.

Lemma pct_byte_decode b r : byte b -> pct_decode (pct_byte b ++ r) = b :: pct_decode r.
Proof.
  intros Hb. pose proof (byte_sweep _ pct_byte_sweep b Hb) as H. unfold pct_byte_ok in H.
  apply andb_true_iff in H. destruct H as [_ H].
  destruct (pct_byte b) as [|c [|h [|l [|x t]]]]; try discriminate.
  - apply andb_true_iff in H. destruct H as [E N].
    cbn [app pct_decode]. destruct (c =? 37) eqn:E37; [discriminate|].
    f_equal. lia.
  - apply andb_true_iff in H. destruct H as [E H].
    cbn [app pct_decode]. rewrite E.
    destruct (hexdig h) as [x|]; [|discriminate]. destruct (hexdig l) as [y|]; [|discriminate].
    f_equal. lia.
Qed.

Lemma pct_roundtrip bs : Forall byte bs -> pct_decode (pct_encode bs) = bs.
Proof.
  induction 1 as [|b r Hb _ IH]; [reflexivity|].
  unfold pct_encode in *. cbn [flat_map]. rewrite pct_byte_decode by exact Hb. f_equal. exact IH.
Qed.

Lemma pct_encode_qchars bs : Forall byte bs -> forallb is_qchar (pct_encode bs) = true.
Proof.
  induction 1 as [|b r Hb _ IH]; [reflexivity|].
  unfold pct_encode in *. cbn [flat_map]. rewrite forallb_app, IH, andb_true_r.
  pose proof (byte_sweep _ pct_byte_sweep b Hb) as H. unfold pct_byte_ok in H.
  apply andb_true_iff in H. tauto.
Qed.

(** qchars never include the URI delimiters '&' '=' '?' '#' *)
Lemma is_alnum_range c : is_alnum c = true -> 48 <= c <= 122.
Proof. unfold is_alnum, is_alpha, is_upper, is_lower, is_digit. lia. Qed.
Lemma qchars_allowed_no_delim : forallb (fun c => negb (in_set [38; 61; 63; 35] c)) QCHARS_ALLOWED = true.
Proof. vm_compute. reflexivity. Qed.
Lemma qchar_not_delim c : is_qchar c = true -> c <> 38 /\ c <> 61 /\ c <> 63 /\ c <> 35.
Proof.
  unfold is_qchar. intros H. apply orb_true_iff in H. destruct H as [H|H].
  - assert (A := H). apply is_alnum_range in A.
    unfold is_alnum, is_alpha, is_upper, is_lower, is_digit in H. lia.
  - unfold in_set, qchar_extra in H. apply existsb_exists in H. destruct H as (x & Hx & E).
    apply Z.eqb_eq in E. subst x.
    pose proof qchars_allowed_no_delim as Q. rewrite forallb_forall in Q. specialize (Q c Hx).
    unfold in_set in Q. cbn [existsb] in Q. lia.
Qed.
Lemma pct_encode_no_delims bs c : Forall byte bs -> In c (pct_encode bs) -> c <> 38 /\ c <> 61 /\ c <> 63 /\ c <> 35.
Proof.
  intros Hb Hin. apply qchar_not_delim.
  pose proof (pct_encode_qchars bs Hb) as H. rewrite forallb_forall in H. auto.
Qed.

(** UTF-8 validity implies every element is a byte *)
Lemma utf8_valid_bytes_len n : forall l, (length l <= n)%nat -> utf8_valid l = true -> Forall byte l.
Proof.
  induction n as [|n IH]; intros l Hl H.
  - destruct l; [constructor | cbn in Hl; lia].
  - destruct l as [|b0 r]; [constructor|].
    cbn [utf8_valid] in H. cbn [length] in Hl. unfold rng, cont, rng in H.
    destruct (b0 <? 128) eqn:E0.
    { apply andb_true_iff in H. destruct H as [A B]. constructor; [unfold byte; lia | apply IH; [lia | exact B]]. }
    destruct ((194 <=? b0) && (b0 <=? 223)) eqn:E1.
    { destruct r as [|b1 r1]; [discriminate|]. apply andb_true_iff in H. destruct H as [A B].
      cbn [length] in Hl. repeat constructor; try (unfold byte; lia). apply IH; [lia | exact B]. }
    destruct ((224 <=? b0) && (b0 <=? 239)) eqn:E2.
    { destruct r as [|b1 [|b2 r2]]; try discriminate.
      apply andb_true_iff in H. destruct H as [H B]. apply andb_true_iff in H. destruct H as [A1 A2].
      cbn [length] in Hl.
      assert (128 <= b1 <= 191) by (destruct (b0 =? 224); [lia | destruct (b0 =? 237); lia]).
      repeat constructor; try (unfold byte; lia). apply IH; [lia | exact B]. }
    destruct ((240 <=? b0) && (b0 <=? 244)) eqn:E3; [|discriminate].
    destruct r as [|b1 [|b2 [|b3 r3]]]; try discriminate.
    apply andb_true_iff in H. destruct H as [H B]. apply andb_true_iff in H. destruct H as [H A3].
    apply andb_true_iff in H. destruct H as [A1 A2]. cbn [length] in Hl.
    assert (128 <= b1 <= 191) by (destruct (b0 =? 240); [lia | destruct (b0 =? 244); lia]).
    repeat constructor; try (unfold byte; lia). apply IH; [lia | exact B].
Qed.
Lemma utf8_valid_bytes l : utf8_valid l = true -> Forall byte l.
Proof. apply (utf8_valid_bytes_len (length l)). lia. Qed.

Lemma decode_str_pct_encode s : utf8_valid s = true -> decode_str (pct_encode s) = Some s.
Proof.
  intros H. unfold decode_str. rewrite pct_roundtrip by (apply utf8_valid_bytes; exact H).
  rewrite H. reflexivity.
Qed.

Lemma decode_str_utf8 v s : decode_str v = Some s -> utf8_valid s = true.
Proof. unfold decode_str. destruct (utf8_valid (pct_decode v)) eqn:E; [|discriminate]. intros [= <-]. exact E. Qed.

(** what the decoder accepts, re-encoded, decodes to the same string *)
Lemma decode_str_reencode v s : decode_str v = Some s -> decode_str (pct_encode s) = Some s.
Proof. intros H. apply decode_str_pct_encode. eapply decode_str_utf8; eauto. Qed.
