(** C12 — [parse_amount] coincides with the mathematical specification [amount_spec] on every
    string, and [amount_str] is canonical (no trailing fractional zero, no leading zero). *)
From V.Lib Require Import Base MachInt.
From V.Gen Require Import C12Consts.
From V.C12 Require Import Model Spec ProofsB64 ProofsAmount ProofsRender ProofsAccept ProofsSurface.
From Coq Require Import ZifyBool.
Local Open Scope Z_scope.

Lemma digit_val_dec_val l : digit_val l = dec_val l.
Proof.
  unfold digit_val, dec_val. generalize 0. induction l as [|c l IH]; intros a; [reflexivity|].
  cbn [fold_left dec_val_acc]. apply IH.
Qed.

Lemma digits_no_dot l : forallb is_digit l = true -> ~ In 46 l.
Proof. intros H. apply (forallb_not_in _ 46 l H). reflexivity. Qed.

Lemma split_at_skip c a x r : ~ In c a -> x <> c ->
  split_at c (a ++ x :: r) = let (w, o) := split_at c r in (a ++ x :: w, o).
Proof.
  induction a as [|y a IH]; intros H N; cbn [app split_at].
  - destruct (x =? c) eqn:E; [lia|]. destruct (split_at c r); reflexivity.
  - destruct (y =? c) eqn:E; [exfalso; apply H; left; lia|].
    rewrite IH by (try (intros I; apply H; right; exact I); exact N). destruct (split_at c r); reflexivity.
Qed.

Lemma forallb_app_false (f : Z -> bool) a x r : f x = false -> forallb f (a ++ x :: r) = false.
Proof. intros H. rewrite forallb_app. cbn [forallb]. rewrite H. apply andb_false_r. Qed.

Lemma u64_checked_none_or x : u64_checked x = None \/ (u64_checked x = Some x /\ 0 <= x <= u64_max).
Proof.
  unfold u64_checked, checked, in_range. destruct ((0 <=? x) && (x <=? u64_max)) eqn:E; [right; split; [reflexivity | lia] | left; reflexivity].
Qed.

(** the arithmetic tail of [parse_amount] equals "value if <= MAX_MONEY" *)
Lemma amount_tail whole zats : whole <> [] -> forallb is_digit whole = true -> 0 <= zats < COIN ->
  match parse_u64 whole with
  | None => None
  | Some coins =>
      match u64_checked (coins * COIN) with
      | None => None
      | Some cz => match u64_checked (cz + zats) with
                   | None => None
                   | Some t => if t <=? MAX_MONEY then Some t else None
                   end
      end
  end = (if dec_val whole * COIN + zats <=? MAX_MONEY then Some (dec_val whole * COIN + zats) else None).
Proof.
  intros N D Hz. pose proof (dec_val_nonneg whole D) as NN.
  assert (C : COIN = 100000000) by reflexivity. assert (M : MAX_MONEY = 2100000000000000) by reflexivity.
  unfold parse_u64. rewrite (is_nil_false whole N), D. unfold u64_checked, checked, in_range, u64_max.
  destruct ((0 <=? dec_val whole) && (dec_val whole <=? 18446744073709551615)) eqn:E1.
  2:{ destruct (dec_val whole * COIN + zats <=? MAX_MONEY) eqn:E; [lia | reflexivity]. }
  destruct ((0 <=? dec_val whole * COIN) && (dec_val whole * COIN <=? 18446744073709551615)) eqn:E2.
  2:{ destruct (dec_val whole * COIN + zats <=? MAX_MONEY) eqn:E; [lia | reflexivity]. }
  destruct ((0 <=? dec_val whole * COIN + zats) && (dec_val whole * COIN + zats <=? 18446744073709551615)) eqn:E3.
  2:{ destruct (dec_val whole * COIN + zats <=? MAX_MONEY) eqn:E; [lia | reflexivity]. }
  reflexivity.
Qed.

Theorem parse_amount_spec s : parse_amount s = amount_spec s.
Proof.
  unfold parse_amount, amount_spec.
  destruct (span is_digit s) as [whole r] eqn:S. destruct (span_spec _ _ _ _ S) as (Es & Dw & Sr).
  pose proof (digits_no_dot whole Dw) as Nw.
  destruct whole as [|w0 whole'] eqn:EW.
  { (* no leading digit *)
    cbn [is_nil app] in *. subst s. destruct r as [|c r']; [reflexivity|]. cbn [stops] in Sr.
    cbn [split_at]. destruct (c =? 46) eqn:E; [reflexivity|].
    destruct (split_at 46 r') as [w' o']. cbn [is_nil negb forallb]. rewrite Sr. reflexivity. }
  rewrite <- EW in *. assert (Hw : whole <> []) by (rewrite EW; discriminate). rewrite (is_nil_false whole Hw).
  destruct r as [|c r'].
  { (* integer only *)
    rewrite app_nil_r in Es. subst s. rewrite (split_at_none 46 whole Nw).
    cbn [is_nil negb]. rewrite (is_nil_false whole Hw), Dw. cbn [negb andb forallb length].
    pose proof (amount_tail whole 0 Hw Dw ltac:(unfold COIN; lia)) as T. rewrite !Z.add_0_r in T.
    rewrite digit_val_dec_val. change (digit_val []) with 0. change (10 ^ Z.of_nat 0) with 1.
    replace ((dec_val whole * 1 + 0) * 10 ^ (8 - Z.of_nat 0)) with (dec_val whole * COIN) by (unfold COIN; lia).
    rewrite <- T. destruct (parse_u64 whole) as [coins|]; [|reflexivity].
    destruct (u64_checked (coins * COIN)) as [cz|]; [|reflexivity]. rewrite Z.add_0_r. reflexivity. }
  cbn [stops] in Sr.
  destruct (c =? 46) eqn:E46.
  2:{ (* a non-digit, non-dot character after the digits *)
    cbn [is_nil negb]. subst s. rewrite (split_at_skip 46 whole c r' Nw ltac:(lia)).
    destruct (split_at 46 r') as [w' o']. rewrite (forallb_app_false is_digit whole c w' Sr).
    rewrite andb_false_r. reflexivity || (cbn [andb]; reflexivity). }
  apply Z.eqb_eq in E46. subst c s. rewrite (split_at_app 46 whole r' Nw).
  rewrite (is_nil_false whole Hw), Dw. cbn [negb andb].
  destruct (span is_digit r') as [d r''] eqn:S2. destruct (span_spec _ _ _ _ S2) as (E2 & Dd & Sr2).
  destruct d as [|d0 d'] eqn:ED.
  { (* "W." followed by a non-digit or nothing *)
    cbn [is_nil negb app] in *. subst r'. destruct r'' as [|x r3]; [reflexivity|]. cbn [stops] in Sr2.
    cbn [forallb is_nil negb]. rewrite Sr2. reflexivity. }
  rewrite <- ED in *. assert (Hd : d <> []) by (rewrite ED; discriminate). rewrite (is_nil_false d Hd).
  destruct (8 <? length d)%nat eqn:E8.
  { cbn [is_nil negb]. apply Nat.ltb_lt in E8. subst r'.
    replace (length (d ++ r'') <=? 8)%nat with false by (symmetry; apply Nat.leb_gt; rewrite app_length; lia).
    rewrite !andb_false_r. reflexivity. }
  apply Nat.ltb_ge in E8.
  destruct r'' as [|x r3].
  2:{ cbn [is_nil negb stops] in *. subst r'. rewrite (forallb_app_false is_digit d x r3 Sr2). cbn [andb]. reflexivity. }
  rewrite app_nil_r in E2. subst r'. cbn [is_nil negb]. rewrite Dd, (is_nil_false d Hd).
  replace (length d <=? 8)%nat with true by (symmetry; apply Nat.leb_le; exact E8). cbn [negb andb].
  (* the fractional part *)
  set (L := Z.of_nat (length d)). assert (HL : 1 <= L <= 8) by (unfold L; destruct d; [congruence | cbn [length] in *; lia]).
  assert (Dp : forallb is_digit (pad_right 8 48 d) = true).
  { unfold pad_right. rewrite forallb_app, Dd. apply forallb_forall. intros y Hy. apply repeat_spec in Hy. subst y. reflexivity. }
  assert (Vp : dec_val (pad_right 8 48 d) = dec_val d * 10 ^ (8 - L)).
  { unfold pad_right. rewrite dec_val_trail_zeros. f_equal. f_equal. unfold L. lia. }
  pose proof (dec_val_bound d Dd) as Bd. fold L in Bd.
  assert (Pw : 10 ^ L * 10 ^ (8 - L) = COIN) by (rewrite <- Z.pow_add_r by lia; replace (L + (8 - L)) with 8 by lia; reflexivity).
  assert (P0 : 0 < 10 ^ (8 - L)) by (apply Z.pow_pos_nonneg; lia).
  assert (Hz : 0 <= dec_val d * 10 ^ (8 - L) < COIN) by nia.
  rewrite (parse_u64_digits (pad_right 8 48 d)); [|unfold pad_right; destruct d; [congruence | discriminate] | exact Dp|].
  2:{ rewrite Vp. unfold u64_max. unfold COIN in Hz. lia. }
  rewrite Vp. pose proof (amount_tail whole (dec_val d * 10 ^ (8 - L)) Hw Dw Hz) as T.
  rewrite !digit_val_dec_val.
  replace ((dec_val whole * 10 ^ L + dec_val d) * 10 ^ (8 - L)) with (dec_val whole * COIN + dec_val d * 10 ^ (8 - L)) by (rewrite <- Pw; ring).
  rewrite <- T. destruct (parse_u64 whole); reflexivity.
Qed.

(** ** canonical rendering *)
Lemma digits_le_last_nonzero fuel : forall n, 0 < n < 10 ^ Z.of_nat fuel -> last (digits_le fuel n) 0 <> 0.
Proof.
  induction fuel as [|f IH]; intros n H; [change (10 ^ Z.of_nat 0) with 1 in H; lia|].
  cbn [digits_le]. destruct (n <? 10) eqn:E.
  - cbn [last]. rewrite Z.mod_small by lia. lia.
  - rewrite Nat2Z.inj_succ, Z.pow_succ_r in H by lia.
    assert (H' : 0 < n / 10 < 10 ^ Z.of_nat f) by (Z.div_mod_to_equations; lia).
    specialize (IH (n / 10) H'). destruct f as [|f']; [change (10 ^ Z.of_nat 0) with 1 in H'; lia|].
    cbn [digits_le] in *. exact IH.
Qed.
Lemma dec_str_head n : 0 < n < 10 ^ 20 -> exists d ds, dec_str n = d :: ds /\ d <> 48.
Proof.
  intros H. unfold dec_str. pose proof (digits_le_last_nonzero 20 n H) as L.
  destruct (digits_le 20 n) as [|x l] eqn:E using rev_ind; [cbn in L; congruence|]. clear IHl.
  rewrite last_last in L. rewrite rev_app_distr. cbn [rev app map]. exists (48 + x), (map (fun d => 48 + d) (rev l)).
  split; [reflexivity | lia].
Qed.
Lemma dec_str_zero : dec_str 0 = [48]. Proof. reflexivity. Qed.

Lemma amount_str_canonical z : 0 <= z <= MAX_MONEY -> amount_canonical (amount_str z) = true.
Proof.
  intros Hz. pose proof (amount_str_shape z Hz) as S. cbv zeta in S.
  assert (Hc : 0 <= z / COIN < 10 ^ 20).
  { assert (COIN = 100000000) by reflexivity. assert (MAX_MONEY = 2100000000000000) by reflexivity.
    split; [Z.div_mod_to_equations; lia|]. assert (z / COIN <= 21000000) by (Z.div_mod_to_equations; lia). lia. }
  pose proof (dec_str_digits (z / COIN) ltac:(lia)) as Dc. pose proof (digits_no_dot _ Dc) as Nc.
  (* head: either "0" alone/"0." or a non-zero first digit *)
  assert (Head : forall tl, tl = [] \/ (exists t, tl = 46 :: t) ->
            match dec_str (z / COIN) ++ tl with 48 :: c :: _ => c =? 46 | _ => true end = true).
  { intros tl Htl. destruct (Z.eq_dec (z / COIN) 0) as [E0|E0].
    - rewrite E0, dec_str_zero. destruct Htl as [-> | [t ->]]; reflexivity.
    - destruct (dec_str_head (z / COIN) ltac:(lia)) as (d & ds & E & Nd). rewrite E. cbn [app].
      destruct d as [|p|p]; try reflexivity. do 6 (destruct p as [p|p|]; try reflexivity). lia. }
  unfold amount_canonical.
  destruct S as [[_ ->] | [_ (f & k & -> & Nf & Df & _ & _ & NT)]].
  - rewrite (split_at_none 46 _ Nc). cbn [andb]. specialize (Head [] (or_introl eq_refl)). rewrite app_nil_r in Head. exact Head.
  - rewrite (split_at_app 46 _ f Nc). rewrite (Head (46 :: f) (or_intror (ex_intro _ f eq_refl))), andb_true_r.
    unfold no_trail in NT. destruct (rev f) as [|x r]; [reflexivity|].
    destruct x as [|p|p]; try reflexivity. do 6 (destruct p as [p|p|]; try reflexivity). lia.
Qed.
