(** C12 — domain of the theorems as a boolean on cases: strings are byte strings (URIs valid
    UTF-8), requests satisfy the Rust type invariants, and the address table satisfies the
    oracle hypotheses (decode (encode a) = a, encodings non-empty alphanumeric). *)
From V.Lib Require Import Base MachInt Hex.
From V.Gen Require Import C12Consts.
From V.C12 Require Import Model Spec Corr.
Local Open Scope Z_scope.

Definition enc_ok (s : bytes) : bool := negb (is_nil s) && forallb is_alnum s.
Definition entry_ok (tbl : table) (e : bytes * taddr) : bool :=
  enc_ok (t_enc (snd e)) && option_eqb taddr_eqb (t_dec tbl (t_enc (snd e))) (Some (snd e)).
Definition table_ok (tbl : table) : bool := forallb (entry_ok tbl) tbl.
Definition addr_in (tbl : table) (a : taddr) : bool :=
  enc_ok (t_enc a) && option_eqb taddr_eqb (t_dec tbl (t_enc a)) (Some a).
Definition pays_in (tbl : table) (r : trequest) : bool := forallb (fun ip => addr_in tbl (p_addr (snd ip))) r.
Definition obytesb (o : option bytes) : bool := match o with Some b => bytesb b | None => true end.

Definition wf_case (c : case) : bool :=
  match c with
  | FromUri tbl uri _ _ => table_ok tbl && utf8_valid uri
  | Render tbl r _ _ => table_ok tbl && t_wfb r && pays_in tbl r
  | New tbl ps _ =>
      table_ok tbl && forallb (wf_paymentb taddr) ps && forallb (fun p => addr_in tbl (p_addr p)) ps
  | FromIndexed r _ => t_wfb r
  | Total r _ => t_wfb r
  | PayNew a am me la ms ot _ => wf_paymentb taddr (P a am me la ms ot)
  | MemoTo m _ => bytesb m && (length m <=? 512)%nat
  | MemoFrom s _ => utf8_valid s
  | AmountParse s _ => utf8_valid s && negb (in_set s 38)
  | AmountRender z _ => (0 <=? z) && (z <=? MAX_MONEY)
  | AddrFlags _ _ _ => true
  end.
